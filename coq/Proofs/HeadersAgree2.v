(* Proofs/HeadersAgree2.v -- header part of C08, continued: picture_header, transform_parameters (with
   extended_transform_parameters, slice_parameters, quant_matrix incl. the custom matrix loops) and parse_info.
   Validator: Model/Headers.v.  Deserialiser: the description programs of Model/SerDesVC2Headers.v (tied to the
   real vc2.py functions by tools/harness/C08_headers.py) run by the SerDes interpreter of Model/SerDes.v.
   Reuses the description fragment `sdesc` / `sem` / `des_refines` and the partial-correctness calculus `pc` of
   Proofs/HeadersAgree.v; adds the list target of the custom quantisation matrix (bounded repetition) and the
   data flow out of the extended-transform-parameters subcontext. *)
From Coq Require Import ZArith List Bool Lia.
From VC2 Require Import Base.PyZ Model.SerDes Model.SerDesVC2 Model.SerDesVC2Headers.
From VC2 Require Import Gen.StateRec Gen.ParseCodes.
From VC2 Require Import Model.Headers Proofs.HeadersProofs Proofs.HeadersAgree.
Import ListNotations.
Open Scope Z_scope.

(* ---- entering / leaving a subcontext (standalone versions of the steps inside des_refines) ---- *)
Definition frm (ty0 : Z) (F : fields) (t : Z) : frame :=
  mkframe ty0 (F ++ [(t, VHole)]) (ix_of F ++ [(t, Used)]) t.

Lemma sub_enter t ty ty0 F stk r :
  ~ In t (keys F) -> simple F ->
  des_step (OSubEnter t) (mk ty0 F stk r) = Ok (tt, mk 0 [] (frm ty0 F t :: stk) r) /\
  des_step (OSetType ty) (mk 0 [] (frm ty0 F t :: stk) r) = Ok (tt, mk ty [] (frm ty0 F t :: stk) r).
Proof.
  intros Ft S. split.
  - unfold des_step, step, unitst, subcontext_enter, setdefault, mk. cbn.
    rewrite !alookup_none_keys by (try rewrite keys_ix; exact Ft). cbn.
    unfold put_hole. rewrite (aupd_fresh t (VC 0 []) F Ft). rewrite aupd_last by exact Ft.
    rewrite aupd_fresh by (rewrite keys_ix; exact Ft). reflexivity.
  - unfold des_step, step, unitst, set_context_type, mk. cbn [c_ty SerDes.stk].
    destruct (Z.eqb_spec 0 ty) as [<-|NE]; [reflexivity|].
    unfold patch_parent, frm. cbn [fr_tgt fr_ix fr_f fr_ty c_f c_ty c_ix sio SerDes.stk].
    rewrite plug_app, (plug_simple _ F S). cbn [plug map fst snd plug1 app].
    rewrite alookup_last by (rewrite keys_ix; exact Ft). cbn. rewrite aupd_last by exact Ft. reflexivity.
Qed.

Lemma sub_leave ty G ty0 F t stk r :
  simple F ->
  des_step OSubLeave (mk ty G (frm ty0 F t :: stk) r) = Ok (tt, mk ty0 (F ++ [(t, VC ty G)]) stk r).
Proof.
  intros S. unfold des_step, step, unitst, subcontext_leave, verify_ctx, mk. cbn [c_f c_ix c_ty sio SerDes.stk].
  rewrite verify_all_used. cbn [rbind]. unfold frm. cbn [fr_tgt fr_ix fr_f fr_ty].
  rewrite plug_app, (plug_simple _ F S). cbn [plug map fst snd plug1 app]. rewrite ix_app. reflexivity.
Qed.

Lemma prim_uint t ty F stk r v r' :
  ~ In t (keys F) -> read_val KUint r = Ok (v, r') ->
  des_step (OUint t) (mk ty F stk r) = Ok (v, mk ty (app1 F t v) stk r').
Proof. intros N E. unfold des_step, step. apply des_prim_fresh; assumption. Qed.
Lemma prim_bool t ty F stk r v r' :
  ~ In t (keys F) -> read_val KBool r = Ok (v, r') ->
  des_step (OBool t) (mk ty F stk r) = Ok (v, mk ty (app1 F t v) stk r').
Proof. intros N E. unfold des_step, step. apply des_prim_fresh; assumption. Qed.
Lemma prim_uint_lit t n ty F stk r v r' :
  ~ In t (keys F) -> read_val (KUintLit n) r = Ok (v, r') ->
  des_step (OUintLit t n) (mk ty F stk r) = Ok (v, mk ty (app1 F t v) stk r').
Proof. intros N E. unfold des_step, step. apply des_prim_fresh; assumption. Qed.

(* ---- the list target of the custom quantisation matrix ---- *)
Definition qst (ty : Z) (F : fields) (vals : list val) (stk : list frame) (r : io) : st :=
  mkst ty (F ++ [(217, VL vals)]) (ix_of F ++ [(217, Nxt (length vals))]) stk r.

Lemma decl_list ty F stk r :
  ~ In 217 (keys F) -> des_step (ODeclList 217) (mk ty F stk r) = Ok (tt, qst ty F [] stk r).
Proof.
  intros N. unfold des_step, step, unitst, declare_list, mk, qst. cbn [c_f c_ix].
  rewrite !alookup_none_keys by (try rewrite keys_ix; exact N). cbn [rbind]. unfold set_fix. cbn.
  rewrite !aupd_fresh by (try rewrite keys_ix; exact N). reflexivity.
Qed.

Lemma qm_read ty F vals stk r v r' :
  ~ In 217 (keys F) -> read_val KUint r = Ok (v, r') ->
  des_step (OUint 217) (qst ty F vals stk r) = Ok (v, qst ty F (vals ++ [v]) stk r').
Proof.
  intros N E. unfold des_step, step, des_prim, qst. cbn [sio]. rewrite E. cbn [rbind].
  unfold set_value, set_io. cbn [c_ix c_f c_ty SerDes.stk sio].
  rewrite alookup_last by (rewrite keys_ix; exact N). rewrite alookup_last by exact N.
  rewrite Nat.eqb_refl. unfold set_fix. cbn [c_ix c_f c_ty SerDes.stk sio rbind].
  rewrite aupd_last by exact N. rewrite aupd_last by (rewrite keys_ix; exact N).
  rewrite app_length. cbn [length]. rewrite Nat.add_1_r. reflexivity.
Qed.

Lemma qm_leave ty F vals ty0 F0 t stk r :
  simple F0 -> ~ In 217 (keys F) ->
  des_step OSubLeave (qst ty F vals (frm ty0 F0 t :: stk) r) =
  Ok (tt, mk ty0 (F0 ++ [(t, VC ty (F ++ [(217, VL vals)]))]) stk r).
Proof.
  intros S N. unfold des_step, step, unitst, subcontext_leave, verify_ctx, qst. cbn [c_f c_ix c_ty sio SerDes.stk].
  assert (V : verify_fields (ix_of F ++ [(217, Nxt (length vals))]) (F ++ [(217, VL vals)]) = Ok tt).
  { unfold verify_fields.
    assert (H : forall ks, incl ks (keys F ++ [217]) ->
                verify_keys (ix_of F ++ [(217, Nxt (length vals))]) (F ++ [(217, VL vals)]) ks = Ok tt).
    { induction ks as [|k ks IH]; intros Hi; cbn [verify_keys]; [reflexivity|].
      assert (IH' : verify_keys (ix_of F ++ [(217, Nxt (length vals))]) (F ++ [(217, VL vals)]) ks = Ok tt)
        by (apply IH; intros x Hx; apply Hi; right; exact Hx).
      assert (Hk : In k (keys F ++ [217])) by (apply Hi; left; reflexivity).
      apply in_app_or in Hk. destruct Hk as [Hk|[<-|[]]].
      - assert (HU : alookup k (ix_of F ++ [(217, Nxt (length vals))]) = Some Used).
        { clear -Hk. induction F as [|[k0 v0] F IH]; cbn in *; [contradiction|].
          destruct (Z.eqb_spec k0 k); [reflexivity|]. apply IH. destruct Hk; [contradiction | assumption]. }
        destruct (alookup k (F ++ [(217, VL vals)])) as [v|]; [|exact IH'].
        unfold target_complete. rewrite HU. cbn [rbind]. exact IH'.
      - rewrite alookup_last by exact N. unfold target_complete.
        rewrite alookup_last by (rewrite keys_ix; exact N). rewrite Nat.eqb_refl. cbn [rbind]. exact IH'. }
    apply H. unfold keys. rewrite map_app. cbn. apply incl_refl. }
  rewrite V. cbn [rbind]. unfold frm. cbn [fr_tgt fr_ix fr_f fr_ty].
  rewrite plug_app, (plug_simple _ F0 S). cbn [plug map fst snd plug1 app]. unfold mk. rewrite ix_app. reflexivity.
Qed.

(* n exp-Golomb values in a row *)
Fixpoint read_uints (n : nat) (r : io) : option (list Z * io) :=
  match n with
  | O => Some ([], r)
  | S m => match read_val KUint r with
           | Ok (VI z, r1) => match read_uints m r1 with Some (zs, r2) => Some (z :: zs, r2) | None => None end
           | _ => None
           end
  end.
Lemma read_uints_app a : forall b r zs1 r1 zs2 r2,
  read_uints a r = Some (zs1, r1) -> read_uints b r1 = Some (zs2, r2) -> read_uints (a + b) r = Some (zs1 ++ zs2, r2).
Proof.
  induction a as [|a IH]; intros b r zs1 r1 zs2 r2 H1 H2; cbn [read_uints Nat.add] in *.
  - inversion H1; subst. exact H2.
  - destruct (read_val KUint r) as [[[z| | | | | |] r0]|]; try discriminate.
    destruct (read_uints a r0) as [[zs r3]|] eqn:E; [|discriminate]. inversion H1; subst.
    rewrite (IH _ _ _ _ _ _ E H2). reflexivity.
Qed.

Lemma qm_loop_run n : forall ty F vals stk r zs r' A (k : prog A),
  ~ In 217 (keys F) -> read_uints n r = Some (zs, r') ->
  run des_step (pseq (prep n (puint 217)) k) (qst ty F vals stk r) =
  run des_step k (qst ty F (vals ++ map VI zs) stk r').
Proof.
  induction n as [|n IH]; intros ty F vals stk r zs r' A k N H; cbn [read_uints] in H.
  - inversion H; subst. cbn [prep pseq map]. rewrite app_nil_r. reflexivity.
  - destruct (read_val KUint r) as [[[z| | | | | |] r0]|] eqn:E; try discriminate.
    destruct (read_uints n r0) as [[zs0 r3]|] eqn:E2; [|discriminate]. inversion H; subst.
    cbn [prep puint pseq run]. rewrite (qm_read ty F vals stk r (VI z) r0 N E). cbn [rbind].
    change (pseq (pseq (Ret tt) (prep n (Op (OUint 217) (fun _ => Ret tt)))) k) with (pseq (prep n (puint 217)) k).
    rewrite (IH ty F (vals ++ [VI z]) stk r0 zs0 r' A k N E2). cbn [map]. rewrite <- app_assoc. reflexivity.
Qed.

(* =====================================================================================================
   validator side: more rules of the partial-correctness calculus
   ===================================================================================================== *)
Lemma pc_get_state_eq k (Q : Z -> St -> Prop) s : (forall v, s_st s k = Some v -> Q v s) -> pc (get_state k) Q s.
Proof. intros H a s' E. unfold get_state in E. destruct (s_st s k) eqn:Ek; inversion E; subst. apply H. reflexivity. Qed.
Lemma pc_get_lcv (Q : hist -> St -> Prop) s : (forall h, Q h s) -> pc get_lcv Q s.
Proof. intros H a s' E. unfold get_lcv in E. destruct (s_lcv s); inversion E; subst. apply H. Qed.
Definition qmh (s : St) : qmatrix := match s_qm s with Some q => q | None => [] end.
Lemma pc_qm_store l o v (Q : unit -> St -> Prop) s :
  Q tt (set_qm s (Some (qset (qmh s) (l, o) v))) -> pc (qm_store l o v) Q s.
Proof. intros H a s' E. unfold qm_store in E. inversion E; subst. exact H. Qed.
Lemma pc_set_quant_matrix q (Q : unit -> St -> Prop) s : Q tt (set_qm s (Some q)) -> pc (set_quant_matrix q) Q s.
Proof. intros H a s' E. inversion E; subst. exact H. Qed.
Lemma pc_byte_align (Q : unit -> St -> Prop) s : Q tt (set_rd s (byte_align (s_rd s))) -> pc m_byte_align Q s.
Proof. intros H a s' E. inversion E; subst. exact H. Qed.
Lemma pc_tell_byte (Q : Z -> St -> Prop) s : Q (tell_byte (s_rd s)) s -> pc m_tell_byte Q s.
Proof. intros H a s' E. inversion E; subst. exact H. Qed.
Lemma pc_pystate (Q : pystate -> St -> Prop) s : (forall x, Q x s) -> pc m_pystate Q s.
Proof. intros H a s' E. inversion E; subst. apply H. Qed.

Ltac norm2_in H := cbn [s_rd s_lcv s_st s_vp s_qm s_hdr set_rd set_lcv set_st set_vp set_qm set_hdr st_upd vp_upd lcvh qmh] in H.
Ltac norm2 := cbn [s_rd s_lcv s_st s_vp s_qm s_hdr set_rd set_lcv set_st set_vp set_qm set_hdr st_upd vp_upd lcvh qmh].

Ltac pc_step2 :=
  first
    [ lazymatch goal with
      | |- pc (get_state S_parse_code) _ _ => apply pc_get_state_eq; let H := fresh "GP" in intros ? H; norm2_in H
      | |- pc (get_state S_major_version) _ _ => apply pc_get_state_eq; let H := fresh "GM" in intros ? H; norm2_in H
      | |- pc (get_state S_dwt_depth) _ _ => apply pc_get_state_eq; let H := fresh "GD" in intros ? H; norm2_in H
      | |- pc (get_state S_dwt_depth_ho) _ _ => apply pc_get_state_eq; let H := fresh "GH" in intros ? H; norm2_in H
      | |- pc get_lcv _ _ => apply pc_get_lcv; intros ?
      | |- pc (qm_store _ _ _) _ _ => apply pc_qm_store
      | |- pc (set_quant_matrix _) _ _ => apply pc_set_quant_matrix
      | |- pc m_byte_align _ _ => apply pc_byte_align
      | |- pc m_tell_byte _ _ => apply pc_tell_byte
      | |- pc m_pystate _ _ => apply pc_pystate; intros ?
      end
    | pc_step_base
    | lazymatch goal with
      | |- pc (m_read_uint_lit _) _ _ => apply pc_read_uint_lit; let H := fresh "RL" in intros ? ? H; norm2_in H
      | |- pc (checked_div _ _) _ _ => apply pc_checked_div; intros ?
      | |- pc (assert_picture_number_incremented_as_expected _) _ _ => unfold assert_picture_number_incremented_as_expected
      end ].
Ltac pc_if := lazymatch goal with |- pc (if ?c then _ else _) _ _ => destruct c eqn:? end.
Ltac pc_steps2 := repeat first [pc_step2 | pc_if].

(* the entries of `state` outside ks are untouched *)
Definition frame_except (ks : list Z) (s s' : St) : Prop := forall k, ~ In k ks -> s_st s' k = s_st s k.
Ltac solve_frame :=
  let k := fresh "k" in let Hk := fresh "Hk" in
  intros k Hk; norm2; unfold upd;
  repeat match goal with |- context [k =? ?K] =>
           destruct (Z.eqb_spec k K) as [->|_]; [exfalso; apply Hk; cbn [In]; tauto|] end;
  reflexivity.
Lemma frame_trans ks1 ks2 a b c : frame_except ks1 a b -> frame_except ks2 b c -> frame_except (ks1 ++ ks2) a c.
Proof.
  intros H1 H2 k Hk. rewrite H2, H1; [reflexivity | |]; intros X; apply Hk; apply in_or_app; auto.
Qed.
Lemma frame_weaken ks ks' a b : incl ks ks' -> frame_except ks a b -> frame_except ks' a b.
Proof. intros I H k Hk. apply H. intros X. apply Hk. apply I. exact X. Qed.

(* ---- (12.2) picture_header ---- *)
Definition PicR (s s' : St) : Prop :=
  exists pn, read_val (KUintLit 4) (io_of (s_rd s)) = Ok (VI pn, io_of (s_rd s')) /\ s_st s' S_picture_number = Some pn.
Lemma top_picture_header T s : pc (Headers.picture_header T) (fun _ s' => PicR s s') s.
Proof.
  unfold Headers.picture_header. pc_steps2.
  all: unfold PicR; norm2; eexists; (split; [eassumption | unfold upd; cbn; reflexivity]).
Qed.

Theorem picture_header_agree T s s' :
  Headers.picture_header T s = HOk (tt, s') ->
  exists pn st',
    run des_step picture_header_prog (mkst 0 [] [] [] (io_of (s_rd s))) = Ok (tt, st') /\
    sio st' = io_of (s_rd s') /\ root st' = VC 40 [(200, VI pn)] /\ s_st s' S_picture_number = Some pn.
Proof.
  intros H. destruct (top_picture_header T s tt s' H) as (pn & R & E). exists pn.
  unfold picture_header_prog. cbn [run].
  assert (S0 : des_step (OSetType 40) (mkst 0 [] [] [] (io_of (s_rd s))) = Ok (tt, mk 40 [] [] (io_of (s_rd s)))) by reflexivity.
  rewrite S0. cbn [rbind]. rewrite (prim_uint_lit 200 4 40 [] [] _ _ _ (fun X => X) R). cbn [rbind run].
  eexists. split; [reflexivity|]. repeat split. exact E.
Qed.

(* ---- the custom quantisation matrix loops of the validator ---- *)
Definition qstore (q : qmatrix) (e : (Z * Z) * Z) : qmatrix := qset q (fst e) (snd e).
Fixpoint keys_h (m : nat) (level : Z) : list (Z * Z) :=
  match m with O => [] | S m' => (level, O_H) :: keys_h m' (level + 1) end.
Fixpoint keys_2d (m : nat) (level : Z) : list (Z * Z) :=
  match m with O => [] | S m' => (level, O_HL) :: (level, O_LH) :: (level, O_HH) :: keys_2d m' (level + 1) end.

Definition LoopR (cnt : nat) (ks : list (Z * Z)) (s s' : St) : Prop :=
  exists zs, read_uints cnt (io_of (s_rd s)) = Some (zs, io_of (s_rd s')) /\
             s_st s' = s_st s /\ qmh s' = fold_left qstore (combine ks zs) (qmh s).

Section Loops.
  Variable lvl : hist -> Z -> Z -> bool.
  Variable fuel : nat.

  Lemma to_nat_step hi level : (level <? hi) = true -> Z.to_nat (hi - level) = S (Z.to_nat (hi - (level + 1))).
  Proof. intros H. apply Z.ltb_lt in H. lia. Qed.
  Lemma to_nat_stop hi level : (level <? hi) = false -> Z.to_nat (hi - level) = O.
  Proof. intros H. apply Z.ltb_ge in H. lia. Qed.

  Lemma loop_h n : forall level hi s,
    pc (qm_loop_h lvl n fuel level hi) (fun _ s' => LoopR (Z.to_nat (hi - level)) (keys_h (Z.to_nat (hi - level)) level) s s') s.
  Proof.
    induction n as [|n IH]; intros level hi s; cbn [qm_loop_h]; [apply pc_fail; intros x; discriminate|].
    destruct (level <? hi) eqn:E.
    - rewrite (to_nat_step _ _ E). unfold qm_entry. pc_steps2.
      eapply pc_conseq; [apply IH|]. intros u s1 (zs & R & F & Q). norm2_in R. norm2_in F. norm2_in Q.
      exists (v :: zs). cbn [read_uints keys_h combine fold_left]. rewrite RU, R. repeat split; assumption.
    - rewrite (to_nat_stop _ _ E). apply pc_ret. exists []. repeat split.
  Qed.

  Lemma loop_2d n : forall level hi s,
    pc (qm_loop_2d lvl n fuel level hi)
       (fun _ s' => LoopR (3 * Z.to_nat (hi - level)) (keys_2d (Z.to_nat (hi - level)) level) s s') s.
  Proof.
    induction n as [|n IH]; intros level hi s; cbn [qm_loop_2d]; [apply pc_fail; intros x; discriminate|].
    destruct (level <? hi) eqn:E.
    - rewrite (to_nat_step _ _ E). unfold qm_entry. pc_steps2.
      eapply pc_conseq; [apply IH|]. intros u s1 (zs & R & F & Q). norm2_in R. norm2_in F. norm2_in Q.
      exists (v :: v0 :: v1 :: zs).
      replace (3 * S (Z.to_nat (hi - (level + 1))))%nat with (S (S (S (3 * Z.to_nat (hi - (level + 1))))))%nat by lia.
      cbn [read_uints keys_2d combine fold_left]. rewrite RU, RU0, RU1, R. repeat split; assumption.
    - rewrite (to_nat_stop _ _ E). apply pc_ret. exists []. repeat split.
  Qed.
End Loops.

(* ---- descriptions of the fixed-shape parts ---- *)
Definition D_ext : sdesc := SSeq (SFlag 204 (SUint 205)) (SSeq (SFlag 206 (SUint 207)) SNil).
Definition D_slice (ld hq : bool) : sdesc :=
  SSeq (SUint 209) (SSeq (SUint 210)
  (SSeq (if ld then SSeq (SUint 211) (SSeq (SUint 212) SNil) else SNil)
  (SSeq (if hq then SSeq (SUint 213) (SSeq (SUint 214) SNil) else SNil) SNil))).
Lemma D_slice_compile ld hq : compile (D_slice ld hq) = slice_parameters_body ld hq.
Proof. destruct ld, hq; reflexivity. Qed.
Lemma D_slice_wf ld hq : wf (D_slice ld hq) = true.
Proof. destruct ld, hq; vm_compute; reflexivity. Qed.
Lemma D_ext_wf : wf D_ext = true.
Proof. vm_compute. reflexivity. Qed.

Definition fld (t : Z) (G : fields) : option Z := match alookup t G with Some (VI z) => Some z | _ => None end.
Definition is_ld' (pc0 : Z) : bool := is_ld (set_st_parse_code empty_pystate pc0).
Definition is_hq' (pc0 : Z) : bool := is_hq (set_st_parse_code empty_pystate pc0).

Definition qm_keys (d dh : Z) : list (Z * Z) :=
  (if dh =? 0 then [(0, O_LL)] else (0, O_L) :: keys_h (Z.to_nat dh) 1) ++ keys_2d (Z.to_nat d) (dh + 1).

Lemma read_uints_length n : forall r zs r', read_uints n r = Some (zs, r') -> length zs = n.
Proof.
  induction n as [|n IH]; intros r zs r' H; cbn [read_uints] in H; [inversion H; reflexivity|].
  destruct (read_val KUint r) as [[[z| | | | | |] r0]|]; try discriminate.
  destruct (read_uints n r0) as [[zs0 r3]|] eqn:E; [|discriminate]. inversion H; subst. cbn. f_equal. eapply IH; eassumption.
Qed.
Lemma keys_h_length m : forall level, length (keys_h m level) = m.
Proof. induction m as [|m IH]; intros level; cbn; [reflexivity | f_equal; apply IH]. Qed.
Lemma combine_app_eq {A B} (k1 k2 : list A) (z1 z2 : list B) :
  length k1 = length z1 -> combine (k1 ++ k2) (z1 ++ z2) = combine k1 z1 ++ combine k2 z2.
Proof.
  revert z1. induction k1 as [|a k1 IH]; intros [|b z1] H; cbn in *; try discriminate; [reflexivity|].
  f_equal. apply IH. lia.
Qed.

Section TP.
  Variable T : tables.
  Variable lvl : hist -> Z -> Z -> bool.
  Variable fuel : nat.

  (* (12.4.4.1) *)
  Definition ExtR (s s' : St) : Prop :=
    exists G, sem D_ext [] (io_of (s_rd s)) = Some (G, io_of (s_rd s')) /\
      s_st s' S_wavelet_index_ho = match fld 205 G with Some z => Some z | None => s_st s S_wavelet_index_ho end /\
      s_st s' S_dwt_depth_ho = match fld 207 G with Some z => Some z | None => s_st s S_dwt_depth_ho end /\
      frame_except [S_wavelet_index_ho; S_dwt_depth_ho; S_expected_major_version] s s'.
  Lemma blk_ext s : pc (extended_transform_parameters T lvl fuel) (fun _ s' => ExtR s s') s.
  Proof.
    unfold extended_transform_parameters. pc_steps2.
    all: unfold ExtR, D_ext; norm2; eexists; split;
      [ cbn [sem app1 app]; repeat (use_reads; cbn [sem app1 app val_bool val_int]); reflexivity
      | split; [unfold upd, fld; cbn; reflexivity | split; [unfold upd, fld; cbn; reflexivity | solve_frame]] ].
  Qed.

  (* (12.4.5.2) *)
  Definition SliceR (pc0 : Z) (s s' : St) : Prop :=
    exists G, sem (D_slice (is_ld' pc0) (is_hq' pc0)) [] (io_of (s_rd s)) = Some (G, io_of (s_rd s')) /\
      s_st s' S_slices_x = fld 209 G /\ s_st s' S_slices_y = fld 210 G /\
      (is_ld' pc0 = true -> s_st s' S_slice_bytes_numerator = fld 211 G /\ s_st s' S_slice_bytes_denominator = fld 212 G) /\
      (is_hq' pc0 = true -> s_st s' S_slice_prefix_bytes = fld 213 G /\ s_st s' S_slice_size_scaler = fld 214 G) /\
      frame_except [S_slices_x; S_slices_y; S_slice_bytes_numerator; S_slice_bytes_denominator;
                    S_slice_prefix_bytes; S_slice_size_scaler] s s'.
  Lemma blk_slice pc0 s :
    s_st s S_parse_code = Some pc0 -> pc (slice_parameters lvl fuel) (fun _ s' => SliceR pc0 s s') s.
  Proof.
    intros HP. unfold slice_parameters. pc_steps2.
    all: unfold upd in GP; cbn in GP; rewrite HP in GP; inversion GP; subst.
    all: unfold SliceR, D_slice, is_ld', is_hq';
      repeat match goal with H : is_ld _ = _ |- _ => rewrite H; clear H | H : is_hq _ = _ |- _ => rewrite H; clear H end;
      norm2; eexists; split;
      [ cbn [sem app1 app]; repeat (use_reads; cbn [sem app1 app val_bool val_int]); reflexivity
      | split; [unfold upd, fld; cbn; reflexivity | split; [unfold upd, fld; cbn; reflexivity |
        split; [intros X; try discriminate X; split; unfold upd, fld; cbn; reflexivity |
        split; [intros X; try discriminate X; split; unfold upd, fld; cbn; reflexivity | solve_frame]]]] ].
  Qed.

  (* (12.4.5.3) *)
  Definition QmR (d dh : Z) (s s' : St) : Prop :=
    exists b r1 zs,
      read_val KBool (io_of (s_rd s)) = Ok (VB b, io_of r1) /\
      (if b then read_uints (quant_matrix_count d dh) (io_of r1) = Some (zs, io_of (s_rd s')) /\
                 qmh s' = fold_left qstore (combine (qm_keys d dh) zs) []
       else s_rd s' = r1) /\
      s_st s' = s_st s.
  Lemma blk_qm d dh s :
    s_st s S_dwt_depth = Some d -> s_st s S_dwt_depth_ho = Some dh ->
    pc (quant_matrix T lvl fuel) (fun _ s' => QmR d dh s s') s.
  Proof.
    intros HD HH. unfold quant_matrix. do 4 pc_step2. pc_if.
    - (* custom matrix *)
      do 6 pc_step2. rewrite HH in GH. inversion GH; subst v.
      eapply pc_bind_with.
      { instantiate (1 := fun _ s1 => LoopR (1 + Z.to_nat dh) (if dh =? 0 then [(0, O_LL)] else (0, O_L) :: keys_h (Z.to_nat dh) 1)
                            (set_qm (set_lcv (set_rd s r') (Some (hset (lcvh (set_rd s r')) K_custom_quant_matrix (b2z true)))) (Some [])) s1).
        pc_if.
        - match goal with H : (dh =? 0) = true |- _ => pose proof H as EZ; apply Z.eqb_eq in H; subst dh end. cbn [Z.eqb]. unfold qm_entry. pc_steps2.
          exists [v]. cbn [Nat.add Z.to_nat read_uints]. norm2. rewrite RU. repeat split.
        - unfold qm_entry. pc_steps2.
          eapply pc_conseq; [apply loop_h|]. intros u s1 (zs & R & F & Q). norm2_in R. norm2_in F. norm2_in Q.
          replace (dh + 1 - 1) with dh in * by lia.
          exists (v :: zs). cbn [Nat.add read_uints combine fold_left]. norm2. rewrite RU, R. repeat split; assumption. }
      intros u s1 (zs1 & R1 & F1 & Q1). norm2_in R1. norm2_in F1. norm2_in Q1. cbv beta.
      do 2 pc_step2. rewrite F1, HH in GH0. inversion GH0; subst v.
      do 2 pc_step2. rewrite F1, HD in GD. inversion GD; subst v.
      eapply pc_conseq; [apply loop_2d|]. intros u2 s2 (zs2 & R2 & F2 & Q2).
      replace (dh + d + 1 - (dh + 1)) with d in * by lia.
      unfold QmR. exists true, r', (zs1 ++ zs2). split; [exact RB|]. split.
      + split.
        * unfold quant_matrix_count. replace (1 + Z.to_nat dh + 3 * Z.to_nat d)%nat with ((1 + Z.to_nat dh) + 3 * Z.to_nat d)%nat by lia.
          eapply read_uints_app; eassumption.
        * rewrite Q2, Q1. unfold qm_keys.
          assert (L : length (if dh =? 0 then [(0, O_LL)] else (0, O_L) :: keys_h (Z.to_nat dh) 1) = length zs1).
          { rewrite (read_uints_length _ _ _ _ R1). destruct (Z.eqb_spec dh 0) as [->|NZ]; cbn [length]; [reflexivity|].
            rewrite keys_h_length. reflexivity. }
          rewrite (combine_app_eq _ _ _ _ L), fold_left_app. reflexivity.
      + rewrite F2, F1. reflexivity.
    - (* default matrix *)
      pc_steps2.
      destruct (lookup_cfg (t_QUANTISATION_MATRICES T) (v, v0, v1, v2)); pc_steps2.
      unfold QmR. exists false, r', []. norm2. split; [exact RB | split; reflexivity].
  Qed.
End TP.

Lemma read_bool_inv r v r' : read_val KBool r = Ok (v, r') -> exists b, v = VB b.
Proof. cbn [read_val]. destruct (SerDes.read_bit r) as [[b r1]|]; cbn [rbind]; intros H; inversion H; eauto. Qed.
Lemma read_uint_inv r v r' : read_val KUint r = Ok (v, r') -> exists z, v = VI z.
Proof. cbn [read_val]. destruct (SerDes.read_uint r) as [[b r1]|]; cbn [rbind]; intros H; inversion H; eauto. Qed.

Definition dh_of (G : fields) : Z := match fld 207 G with Some z => z | None => 0 end.

(* the extended-transform-parameters subcontext of transform_parameters_prog, whose continuation uses dwt_depth_ho *)
Lemma ext_run ty F stk r G r1 (k : Z -> prog unit) :
  sem D_ext [] r = Some (G, r1) -> simple F -> ~ In 203 (keys F) ->
  run des_step
    (Op (OSubEnter 203) (fun _ => Op (OSetType 42) (fun _ =>
     Op (OBool 204) (fun f1 =>
     pseq (if val_bool f1 then puint 205 else Ret tt)
     (Op (OBool 206) (fun f2 =>
      if val_bool f2 then Op (OUint 207) (fun dh => Op OSubLeave (fun _ => k (val_int dh)))
      else Op OSubLeave (fun _ => k 0)))))))
    (mk ty F stk r)
  = run des_step (k (dh_of G)) (mk ty (F ++ [(203, VC 42 G)]) stk r1).
Proof.
  intros HS S N. destruct (sub_enter 203 42 ty F stk r N S) as [E1 E2].
  cbn [run]. rewrite E1. cbn [rbind]. rewrite E2. cbn [rbind].
  unfold D_ext in HS. cbn [sem] in HS.
  destruct (read_val KBool r) as [[v1 ra]|] eqn:R1; [|discriminate].
  destruct (read_bool_inv _ _ _ R1) as (b1 & ->). cbn [val_bool] in HS.
  rewrite (prim_bool 204 42 [] _ r (VB b1) ra (fun X => X) R1). cbn [rbind val_bool app1 app].
  assert (N205 : ~ In 205 (keys [(204, VB b1)])) by (unfold keys; cbn; intuition discriminate).
  destruct b1.
  - destruct (read_val KUint ra) as [[v2 rb]|] eqn:R2; [|discriminate].
    destruct (read_uint_inv _ _ _ R2) as (z2 & ->). cbn [app1 app] in HS.
    cbn [puint pseq run]. rewrite (prim_uint 205 42 [(204, VB true)] _ ra (VI z2) rb N205 R2). cbn [rbind app1 app pseq run].
    destruct (read_val KBool rb) as [[v3 rc]|] eqn:R3; [|discriminate].
    destruct (read_bool_inv _ _ _ R3) as (b3 & ->). cbn [val_bool app1 app] in HS.
    rewrite (prim_bool 206 42 [(204, VB true); (205, VI z2)] _ rb (VB b3) rc ltac:(unfold keys; cbn; intuition discriminate) R3). cbn [rbind val_bool app1 app].
    destruct b3.
    + destruct (read_val KUint rc) as [[v4 rd]|] eqn:R4; [|discriminate].
      destruct (read_uint_inv _ _ _ R4) as (z4 & ->). cbn [app1 app] in HS. inversion HS; subst.
      cbn [run]. rewrite (prim_uint 207 42 [(204, VB true); (205, VI z2); (206, VB true)] _ rc (VI z4) r1 ltac:(unfold keys; cbn; intuition discriminate) R4). cbn [rbind app1 app run val_int].
      rewrite (sub_leave 42 _ ty F 203 stk r1 S). cbn [rbind]. reflexivity.
    + inversion HS; subst. cbn [run]. rewrite (sub_leave 42 _ ty F 203 stk r1 S). cbn [rbind]. reflexivity.
  - cbn [app1 app] in HS. cbn [pseq run].
    destruct (read_val KBool ra) as [[v3 rc]|] eqn:R3; [|discriminate].
    destruct (read_bool_inv _ _ _ R3) as (b3 & ->). cbn [val_bool app1 app] in HS.
    rewrite (prim_bool 206 42 [(204, VB false)] _ ra (VB b3) rc ltac:(unfold keys; cbn; intuition discriminate) R3). cbn [rbind val_bool app1 app].
    destruct b3.
    + destruct (read_val KUint rc) as [[v4 rd]|] eqn:R4; [|discriminate].
      destruct (read_uint_inv _ _ _ R4) as (z4 & ->). cbn [app1 app] in HS. inversion HS; subst.
      cbn [run]. rewrite (prim_uint 207 42 [(204, VB false); (206, VB true)] _ rc (VI z4) r1 ltac:(unfold keys; cbn; intuition discriminate) R4). cbn [rbind app1 app run val_int].
      rewrite (sub_leave 42 _ ty F 203 stk r1 S). cbn [rbind]. reflexivity.
    + inversion HS; subst. cbn [run]. rewrite (sub_leave 42 _ ty F 203 stk r1 S). cbn [rbind]. reflexivity.
Qed.

(* the quantisation-matrix subcontext *)
Definition qm_fields (b : bool) (zs : list Z) : fields :=
  (216, VB b) :: (if b then [(217, VL (map VI zs))] else []).
Lemma qm_run ty F stk r b r1 zs r2 d dh :
  simple F -> ~ In 215 (keys F) ->
  read_val KBool r = Ok (VB b, r1) ->
  (if b then read_uints (quant_matrix_count d dh) r1 = Some (zs, r2) else r2 = r1) ->
  run des_step (psub 215 44 (quant_matrix_body d dh)) (mk ty F stk r) =
  Ok (tt, mk ty (F ++ [(215, VC 44 (qm_fields b zs))]) stk r2).
Proof.
  intros S N RB HL. destruct (sub_enter 215 44 ty F stk r N S) as [E1 E2].
  unfold psub, quant_matrix_body, pflag. cbn [run]. rewrite E1. cbn [rbind]. rewrite E2. cbn [rbind pseq run].
  rewrite (prim_bool 216 44 [] _ r (VB b) r1 (fun X => X) RB). cbn [rbind val_bool app1 app].
  assert (N217 : ~ In 217 (keys [(216, VB b)])) by (unfold keys; cbn; intuition discriminate).
  destruct b.
  - cbn [pop pseq run]. rewrite (decl_list 44 _ _ r1 N217). cbn [rbind pseq].
    rewrite (qm_loop_run _ 44 _ [] _ r1 zs r2 _ _ N217 HL). cbn [app run].
    rewrite (qm_leave 44 _ (map VI zs) ty F 215 stk r2 S N217). cbn [rbind]. reflexivity.
  - subst r2. cbn [pseq run]. rewrite (sub_leave 44 _ ty F 215 stk r1 S). cbn [rbind]. reflexivity.
Qed.

Section TPTop.
  Variable T : tables.
  Variable lvl : hist -> Z -> Z -> bool.
  Variable fuel : nat.

  Definition wih_of (wi : Z) (G : fields) : Z := match fld 205 G with Some z => z | None => wi end.

  (* everything a successful transform_parameters of the validator did, in terms of reads *)
  Definition TpR (mv pc0 : Z) (s s' : St) : Prop :=
    exists wi d Gext Gsl b zs ra rb rc rd re,
      read_val KUint (io_of (s_rd s)) = Ok (VI wi, io_of ra) /\
      read_val KUint (io_of ra) = Ok (VI d, io_of rb) /\
      (if 3 <=? mv then sem D_ext [] (io_of rb) = Some (Gext, io_of rc) else Gext = [] /\ rc = rb) /\
      sem (D_slice (is_ld' pc0) (is_hq' pc0)) [] (io_of rc) = Some (Gsl, io_of rd) /\
      read_val KBool (io_of rd) = Ok (VB b, io_of re) /\
      (if b then read_uints (quant_matrix_count d (dh_of Gext)) (io_of re) = Some (zs, io_of (s_rd s')) /\
                 qmh s' = fold_left qstore (combine (qm_keys d (dh_of Gext)) zs) []
       else s_rd s' = re) /\
      s_st s' S_wavelet_index = Some wi /\ s_st s' S_dwt_depth = Some d /\
      s_st s' S_wavelet_index_ho = Some (wih_of wi Gext) /\ s_st s' S_dwt_depth_ho = Some (dh_of Gext) /\
      s_st s' S_slices_x = fld 209 Gsl /\ s_st s' S_slices_y = fld 210 Gsl /\
      (is_ld' pc0 = true -> s_st s' S_slice_bytes_numerator = fld 211 Gsl /\ s_st s' S_slice_bytes_denominator = fld 212 Gsl) /\
      (is_hq' pc0 = true -> s_st s' S_slice_prefix_bytes = fld 213 Gsl /\ s_st s' S_slice_size_scaler = fld 214 Gsl).

  Ltac fr F := rewrite F by (cbn [In]; intuition discriminate).

  Lemma top_transform_parameters mv pc0 s :
    s_st s S_major_version = Some mv -> s_st s S_parse_code = Some pc0 ->
    pc (transform_parameters T lvl fuel) (fun _ s' => TpR mv pc0 s s') s.
  Proof.
    intros HM HP. unfold transform_parameters. repeat pc_step2.
    unfold upd in GM; cbn in GM. rewrite HM in GM. inversion GM; subst v1. clear GM.
    rewrite Z.geb_leb.
    match goal with |- pc _ _ ?X => set (X0 := X) end.
    apply (pc_conseq _ (fun _ s1 => exists G,
         (if 3 <=? mv then sem D_ext [] (io_of (s_rd X0)) = Some (G, io_of (s_rd s1)) else G = [] /\ s_rd s1 = s_rd X0) /\
         s_st s1 S_wavelet_index_ho = Some (wih_of v G) /\ s_st s1 S_dwt_depth_ho = Some (dh_of G) /\
         frame_except [S_wavelet_index_ho; S_dwt_depth_ho; S_expected_major_version] X0 s1)).
    { destruct (3 <=? mv).
      - eapply pc_conseq; [apply blk_ext|]. intros u s1 (G & A & B & C & D). exists G. split; [exact A|].
        unfold wih_of, dh_of. rewrite B, C. subst X0. unfold upd; cbn.
        split; [destruct (fld 205 G); reflexivity | split; [destruct (fld 207 G); reflexivity | exact D]].
      - apply pc_ret. exists []. split; [split; reflexivity|]. subst X0. unfold wih_of, dh_of, fld, upd; cbn.
        repeat split. }
    intros u s1 (Gext & AE & BE & CE & FE). cbv beta.
    assert (P1 : s_st s1 S_parse_code = Some pc0).
    { fr FE. subst X0. unfold upd; cbn. exact HP. }
    eapply pc_bind_with; [apply (blk_slice lvl fuel pc0 s1 P1)|].
    intros u2 s2 (Gsl & AS & SX & SY & SL & SH & FS). cbv beta.
    assert (D2 : s_st s2 S_dwt_depth = Some v0).
    { fr FS. fr FE. subst X0. unfold upd; cbn. reflexivity. }
    assert (H2 : s_st s2 S_dwt_depth_ho = Some (dh_of Gext)).
    { fr FS. exact CE. }
    eapply pc_conseq; [apply (blk_qm T lvl fuel v0 (dh_of Gext) s2 D2 H2)|].
    intros u3 s3 (b & re & zs & RQ & LQ & FQ).
    unfold TpR. exists v, v0, Gext, Gsl, b, zs, r', r'0, (s_rd s1), (s_rd s2), re.
    split; [exact RU|]. split; [exact RU0|].
    split. { subst X0. norm2_in AE. destruct (3 <=? mv); [exact AE | destruct AE as [-> E]; split; [reflexivity | exact E]]. }
    split; [exact AS|]. split; [exact RQ|]. split; [exact LQ|].
    rewrite !FQ.
    split. { fr FS. fr FE. subst X0. unfold upd; cbn. reflexivity. }
    split; [exact D2|].
    split. { fr FS. exact BE. }
    split; [exact H2|].
    split; [exact SX|]. split; [exact SY|]. split; [exact SL | exact SH].
  Qed.

  (* what the deserialiser stores for transform_parameters *)
  Definition tp_context (mv wi d : Z) (Gext Gsl : fields) (b : bool) (zs : list Z) : fields :=
    [(201, VI wi); (202, VI d)] ++ (if 3 <=? mv then [(203, VC 42 Gext)] else []) ++
    [(208, VC 43 Gsl); (215, VC 44 (qm_fields b zs))].

  Theorem transform_parameters_agree mv pc0 s s' :
    s_st s S_major_version = Some mv -> s_st s S_parse_code = Some pc0 ->
    transform_parameters T lvl fuel s = HOk (tt, s') ->
    exists wi d Gext Gsl b zs st',
      run des_step (transform_parameters_prog mv (is_ld' pc0) (is_hq' pc0)) (mkst 0 [] [] [] (io_of (s_rd s))) = Ok (tt, st') /\
      sio st' = io_of (s_rd s') /\
      root st' = VC 41 (tp_context mv wi d Gext Gsl b zs) /\
      s_st s' S_wavelet_index = Some wi /\ s_st s' S_dwt_depth = Some d /\
      s_st s' S_wavelet_index_ho = Some (wih_of wi Gext) /\ s_st s' S_dwt_depth_ho = Some (dh_of Gext) /\
      s_st s' S_slices_x = fld 209 Gsl /\ s_st s' S_slices_y = fld 210 Gsl /\
      (is_ld' pc0 = true -> s_st s' S_slice_bytes_numerator = fld 211 Gsl /\ s_st s' S_slice_bytes_denominator = fld 212 Gsl) /\
      (is_hq' pc0 = true -> s_st s' S_slice_prefix_bytes = fld 213 Gsl /\ s_st s' S_slice_size_scaler = fld 214 Gsl) /\
      (b = true -> length zs = quant_matrix_count d (dh_of Gext) /\
                   qmh s' = fold_left qstore (combine (qm_keys d (dh_of Gext)) zs) []).
  Proof.
    intros HM HP H.
    destruct (top_transform_parameters mv pc0 s HM HP tt s' H)
      as (wi & d & Gext & Gsl & b & zs & ra & rb & rc & rd & re & R1 & R2 & RE & RS & RB & RL & E1 & E2 & E3 & E4 & E5 & E6 & E7 & E8).
    exists wi, d, Gext, Gsl, b, zs.
    set (ld := is_ld' pc0) in *. set (hq := is_hq' pc0) in *.
    assert (S0 : des_step (OSetType 41) (mkst 0 [] [] [] (io_of (s_rd s))) = Ok (tt, mk 41 [] [] (io_of (s_rd s)))) by reflexivity.
    (* the part after the extended parameters, from any simple context F *)
    assert (REST : forall F r0, simple F -> ~ In 208 (keys F) -> ~ In 215 (keys F) -> r0 = io_of rc ->
              run des_step (transform_parameters_rest ld hq d (dh_of Gext)) (mk 41 F [] r0) =
              Ok (tt, mk 41 (F ++ [(208, VC 43 Gsl); (215, VC 44 (qm_fields b zs))]) [] (io_of (s_rd s')))).
    { intros F r0 SF N208 N215 ->. unfold transform_parameters_rest. rewrite run_pseq.
      assert (HS : sem (SSub 208 43 (D_slice ld hq)) F (io_of rc) = Some (app1 F 208 (VC 43 Gsl), io_of rd))
        by (cbn [sem]; rewrite RS; reflexivity).
      assert (W : wf (SSub 208 43 (D_slice ld hq)) = true) by (cbn [wf targets nodupb zin existsb negb andb]; apply D_slice_wf).
      destruct (des_refines (SSub 208 43 (D_slice ld hq)) 41 F [] (io_of rc) _ _ W
                  ltac:(intros t [<-|[]]; exact N208) SF eq_refl HS) as (HR & SF' & _).
      cbn [compile] in HR. rewrite D_slice_compile in HR. rewrite HR.
      assert (N215' : ~ In 215 (keys (app1 F 208 (VC 43 Gsl)))) by (apply not_in_app1; [exact N215 | discriminate]).
      rewrite (qm_run 41 _ [] (io_of rd) b (io_of re) zs (io_of (s_rd s')) d (dh_of Gext) SF' N215' RB).
      - unfold app1. rewrite <- app_assoc. reflexivity.
      - destruct b; [exact (proj1 RL) | destruct RL; reflexivity]. }
    assert (FIN : exists st', run des_step (transform_parameters_prog mv ld hq) (mkst 0 [] [] [] (io_of (s_rd s))) = Ok (tt, st') /\
                   sio st' = io_of (s_rd s') /\ root st' = VC 41 (tp_context mv wi d Gext Gsl b zs)).
    { unfold transform_parameters_prog. cbn [run]. rewrite S0. cbn [rbind].
      rewrite (prim_uint 201 41 [] [] _ _ _ (fun X => X) R1). cbn [rbind app1 app].
      rewrite (prim_uint 202 41 [(201, VI wi)] [] _ _ _ ltac:(unfold keys; cbn; intuition discriminate) R2). cbn [rbind app1 app val_int].
      assert (SF : simple [(201, VI wi); (202, VI d)]) by (repeat constructor).
      unfold tp_context. destruct (3 <=? mv).
      - rewrite (ext_run 41 [(201, VI wi); (202, VI d)] [] (io_of rb) Gext (io_of rc)
                   (fun dh => transform_parameters_rest ld hq d dh) RE SF ltac:(unfold keys; cbn; intuition discriminate)).
        rewrite (REST ([(201, VI wi); (202, VI d)] ++ [(203, VC 42 Gext)]) (io_of rc)
                   ltac:(apply (simple_app1 _ 203 (VC 42 Gext) SF I))
                   ltac:(unfold keys; cbn; intuition discriminate) ltac:(unfold keys; cbn; intuition discriminate) eq_refl).
        eexists. split; [reflexivity|]. split; reflexivity.
      - destruct RE as [-> ->]. change (dh_of []) with 0 in REST.
        rewrite (REST [(201, VI wi); (202, VI d)] (io_of rb) SF ltac:(unfold keys; cbn; intuition discriminate) ltac:(unfold keys; cbn; intuition discriminate) eq_refl).
        eexists. split; [reflexivity|]. split; reflexivity. }
    destruct FIN as (st' & F1 & F2 & F3). exists st'.
    repeat (split; [assumption|]).
    intros ->. destruct RL as [RL QL]. split; [eapply read_uints_length; eassumption | exact QL].
  Qed.
End TPTop.

(* =====================================================================================================
   (10.5.1) parse_info
   ===================================================================================================== *)
Definition PiR (s s' : St) : Prop :=
  exists pfx pcd npo ppo r1 r2 r3,
    read_val (KUintLit 4) (io_of (byte_align (s_rd s))) = Ok (VI pfx, io_of r1) /\
    read_val (KUintLit 1) (io_of r1) = Ok (VI pcd, io_of r2) /\
    read_val (KUintLit 4) (io_of r2) = Ok (VI npo, io_of r3) /\
    read_val (KUintLit 4) (io_of r3) = Ok (VI ppo, io_of (s_rd s')) /\
    s_st s' S_parse_code = Some pcd /\ s_st s' S_next_parse_offset = Some npo /\
    s_st s' S_previous_parse_offset = Some ppo.

Lemma top_parse_info T ga la s : pc (parse_info T ga la) (fun _ s' => PiR s s') s.
Proof.
  unfold parse_info. pc_steps2.
  all: unfold PiR; norm2; do 7 eexists;
    (split; [eassumption | split; [eassumption | split; [eassumption | split; [eassumption |]]]]);
    (split; [unfold upd; cbn; reflexivity | split; unfold upd; cbn; reflexivity]).
Qed.

Lemma read_bits_take n : forall l p, (n <= length l)%nat ->
  read_bits n (mkio l p None) = Ok (firstn n l, mkio (skipn n l) (p + Z.of_nat n) None).
Proof.
  induction n as [|n IH]; intros l p L; cbn [read_bits firstn skipn].
  - rewrite Z.add_0_r. reflexivity.
  - destruct l as [|b l]; [cbn in L; lia|]. unfold SerDes.read_bit. cbn [rem bits pos rbind].
    rewrite IH by (cbn in L; lia). cbn [rbind firstn skipn]. do 3 f_equal. lia.
Qed.

Lemma read_uint_lit_nonempty n r v r' : 0 < n -> read_val (KUintLit n) r = Ok (v, r') -> bits r <> [] \/ rem r <> None.
Proof.
  intros Hn H. destruct (rem r) eqn:ER; [right; discriminate|]. left. intros EB. cbn [read_val] in H.
  destruct (Z.to_nat (n * 8)) as [|m] eqn:EM; [lia|]. cbn [read_bits] in H. unfold SerDes.read_bit in H.
  rewrite ER, EB in H. discriminate.
Qed.

(* byte_align of the validator = the byte_align primitive of the deserialiser, provided something can be read next *)
Lemma align_agree r :
  r_bits (byte_align r) <> [] ->
  exists pad, read_val (KBitArr ((- r_pos r) mod 8)) (io_of r) = Ok (VBits pad, io_of (byte_align r)).
Proof.
  intros NE. unfold byte_align in *. unfold py_mod in *.
  destruct (Z.eqb_spec (r_pos r mod 8) 0) as [E0|NZ].
  - assert (EM : (- r_pos r) mod 8 = 0) by (apply Z.mod_opp_l_z; [lia | exact E0]).
    rewrite EM. exists []. reflexivity.
  - assert (EM : (- r_pos r) mod 8 = 8 - r_pos r mod 8) by (apply Z.mod_opp_l_nz; [lia | exact NZ]).
    rewrite EM. cbn [r_bits] in NE.
    assert (L : (Z.to_nat (8 - r_pos r mod 8) <= length (r_bits r))%nat).
    { destruct (le_lt_dec (Z.to_nat (8 - r_pos r mod 8)) (length (r_bits r))) as [X|X]; [exact X|].
      exfalso. apply NE. apply skipn_all2. lia. }
    cbn [read_val]. unfold io_of at 1. rewrite (read_bits_take _ _ _ L). cbn [rbind].
    eexists. unfold io_of. cbn [r_bits r_pos]. do 3 f_equal.
    pose proof (Z.mod_pos_bound (r_pos r) 8 ltac:(lia)). lia.
Qed.

Definition parse_info_context (pad : list bool) (offset pfx pcd npo ppo : Z) : fields :=
  [(220, VBits pad); (221, VI offset); (222, VI pfx); (223, VI pcd); (224, VI npo); (225, VI ppo)].

Theorem parse_info_agree T ga la s s' :
  parse_info T ga la s = HOk (tt, s') ->
  exists pad pfx pcd npo ppo st',
    run des_step (parse_info_prog (tell_byte (byte_align (s_rd s)))) (mkst 0 [] [] [] (io_of (s_rd s))) = Ok (tt, st') /\
    sio st' = io_of (s_rd s') /\
    root st' = VC 45 (parse_info_context pad (tell_byte (byte_align (s_rd s))) pfx pcd npo ppo) /\
    s_st s' S_parse_code = Some pcd /\ s_st s' S_next_parse_offset = Some npo /\
    s_st s' S_previous_parse_offset = Some ppo.
Proof.
  intros H. destruct (top_parse_info T ga la s tt s' H) as (pfx & pcd & npo & ppo & r1 & r2 & r3 & R1 & R2 & R3 & R4 & E1 & E2 & E3).
  assert (NE : r_bits (byte_align (s_rd s)) <> []).
  { destruct (read_uint_lit_nonempty 4 _ _ _ ltac:(lia) R1) as [X|X]; [exact X | exfalso; apply X; reflexivity]. }
  destruct (align_agree (s_rd s) NE) as (pad & RA).
  exists pad, pfx, pcd, npo, ppo.
  assert (S0 : des_step (OSetType 45) (mkst 0 [] [] [] (io_of (s_rd s))) = Ok (tt, mk 45 [] [] (io_of (s_rd s)))) by reflexivity.
  unfold parse_info_prog. cbn [run]. rewrite S0. cbn [rbind].
  assert (SA : des_step (OByteAlign 220) (mk 45 [] [] (io_of (s_rd s))) =
               Ok (tt, mk 45 [(220, VBits pad)] [] (io_of (byte_align (s_rd s))))).
  { unfold des_step, step, unitr. cbn [sio mk pos io_of].
    change (des_prim (KBitArr ((- r_pos (s_rd s)) mod 8)) 220 (mkst 45 [] (ix_of []) [] (mkio (r_bits (s_rd s)) (r_pos (s_rd s)) None)))
      with (des_prim (KBitArr ((- r_pos (s_rd s)) mod 8)) 220 (mk 45 [] [] (io_of (s_rd s)))).
    rewrite (des_prim_fresh _ 220 45 [] [] _ _ _ (fun X => X) RA). reflexivity. }
  rewrite SA. cbn [rbind run].
  assert (SC : des_step (OComputed 221 (VI (tell_byte (byte_align (s_rd s))))) (mk 45 [(220, VBits pad)] [] (io_of (byte_align (s_rd s)))) =
               Ok (tt, mk 45 [(220, VBits pad); (221, VI (tell_byte (byte_align (s_rd s))))] [] (io_of (byte_align (s_rd s))))) by reflexivity.
  rewrite SC. cbn [rbind run].
  rewrite (prim_uint_lit 222 4 45 [(220, VBits pad); (221, VI (tell_byte (byte_align (s_rd s))))] [] _ _ _
             ltac:(unfold keys; cbn; intuition discriminate) R1). cbn [rbind run app1 app].
  rewrite (prim_uint_lit 223 1 45 [(220, VBits pad); (221, VI (tell_byte (byte_align (s_rd s)))); (222, VI pfx)] [] _ _ _
             ltac:(unfold keys; cbn; intuition discriminate) R2). cbn [rbind run app1 app].
  rewrite (prim_uint_lit 224 4 45 [(220, VBits pad); (221, VI (tell_byte (byte_align (s_rd s)))); (222, VI pfx); (223, VI pcd)] [] _ _ _
             ltac:(unfold keys; cbn; intuition discriminate) R3). cbn [rbind run app1 app].
  rewrite (prim_uint_lit 225 4 45 [(220, VBits pad); (221, VI (tell_byte (byte_align (s_rd s)))); (222, VI pfx); (223, VI pcd); (224, VI npo)] [] _ _ _
             ltac:(unfold keys; cbn; intuition discriminate) R4). cbn [rbind run app1 app].
  eexists. split; [reflexivity|]. repeat split; assumption.
Qed.

(* ---- non-vacuity ---- *)
Definition ex_state : list (Z * Z) :=
  [(S_major_version, 3); (S_parse_code, 232); (S_luma_width, 4); (S_luma_height, 2); (S_color_diff_width, 4);
   (S_color_diff_height, 2); (S_picture_coding_mode, 0); (S_num_pictures_in_sequence, 0);
   (S_generic_sequence_matcher, 1)].
(* wavelet 1, depth 1, no asymmetric wavelet, dwt_depth_ho 1, 1x1 slices, prefix 0, scaler 1, custom matrix 0 3 0 2 0 *)
Definition ex_tp_bits : list bool := Headers.bits_of_bytes [37; 36; 206; 27; 128].

Lemma transform_parameters_example :
  exists s' st',
    transform_parameters (toy_tables true) (fun _ _ _ => true) (fuel_for ex_tp_bits) (init_S ex_state None None ex_tp_bits 0) = HOk (tt, s') /\
    run_des (transform_parameters_prog 3 false true) ex_tp_bits = Ok (tt, st') /\
    root st' = VC 41 [(201, VI 1); (202, VI 1); (203, VC 42 [(204, VB false); (206, VB true); (207, VI 1)]);
                      (208, VC 43 [(209, VI 1); (210, VI 1); (213, VI 0); (214, VI 1)]);
                      (215, VC 44 [(216, VB true); (217, VL [VI 0; VI 3; VI 0; VI 2; VI 0])])] /\
    pos (sio st') = 33 /\ r_pos (s_rd s') = 33 /\
    s_qm s' = Some [((0, O_L), 0); ((1, O_H), 3); ((2, O_HL), 0); ((2, O_LH), 2); ((2, O_HH), 0)] /\
    s_st s' S_dwt_depth_ho = Some 1 /\ s_st s' S_slice_size_scaler = Some 1.
Proof. eexists. eexists. vm_compute. repeat split; reflexivity. Qed.

Lemma picture_header_example :
  exists s' st',
    Headers.picture_header (toy_tables true) (init_S ex_state None None (Headers.bits_of_bytes [0; 0; 1; 5; 255]) 0) = HOk (tt, s') /\
    run_des picture_header_prog (Headers.bits_of_bytes [0; 0; 1; 5; 255]) = Ok (tt, st') /\
    root st' = VC 40 [(200, VI 261)] /\ pos (sio st') = 32 /\ r_pos (s_rd s') = 32 /\ s_st s' S_picture_number = Some 261.
Proof. eexists. eexists. vm_compute. repeat split; reflexivity. Qed.

Lemma parse_info_example :
  exists s' st',
    parse_info (toy_tables true) (fun _ => true) (fun _ => true)
      (init_S [(S_generic_sequence_matcher, 1)] None None (Headers.bits_of_bytes [66; 66; 67; 68; 0; 0; 0; 0; 14; 0; 0; 0; 0; 9]) 0) = HOk (tt, s') /\
    run_des (parse_info_prog 0) (Headers.bits_of_bytes [66; 66; 67; 68; 0; 0; 0; 0; 14; 0; 0; 0; 0; 9]) = Ok (tt, st') /\
    root st' = VC 45 [(220, VBits []); (221, VI 0); (222, VI 1111638852); (223, VI 0); (224, VI 14); (225, VI 0)] /\
    pos (sio st') = 104 /\ r_pos (s_rd s') = 104 /\ s_st s' S_next_parse_offset = Some 14.
Proof. eexists. eexists. vm_compute. repeat split; reflexivity. Qed.
