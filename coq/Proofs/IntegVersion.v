(* Integration C03 x C07 x C01: the validator's version rule in its two formulations --
   Model/Stream.v `version_ok` (C01, over hdr/tparams abstractions) and Model/AutofillSpec.v
   `val_version_ok` (C07, over sequence descriptions) -- agree under the mapping Model/IntegSeq.v to_af;
   hence a sequence whose header carries C07's autofilled major_version satisfies `version_ok`. *)
From Coq Require Import ZArith List Bool Lia ZifyBool.
From VC2 Require Import Base.PyZ Gen.StateRec Gen.ParseCodes Gen.Version Model.Stream Model.IntegSeq.
From VC2 Require Import Model.Autofill Model.AutofillSpec Proofs.AutofillProofs.
Import ListNotations.
Open Scope Z_scope.

Notation SU := VC2.Model.Stream.dunit.
Notation s_kind := VC2.Model.Stream.u_kind.
Notation s_len := VC2.Model.Stream.u_len.

Section Bridge.
  Variable d : defaults.
  Variable sh : seqhdr.

  Lemma eff_pc k len : eff_parse_code d (to_af_kind sh k len) = symbol_code (kind_symbol k).
  Proof. destruct k; reflexivity. Qed.

  Lemma pc_is_header k : (symbol_code (kind_symbol k) =? PC_SEQUENCE_HEADER) = match k with KSeqHdr _ => true | _ => false end.
  Proof. destruct k as [h|[|] n tp|[|] n tp|[|] n c x y| | |]; reflexivity. Qed.

  Lemma hdr_logs h : val_header_logs d (to_af_hdr sh h) = profile_version_implication (h_profile h) :: tl (val_header_logs d sh).
  Proof. reflexivity. Qed.

  Lemma tpv tp : tp_version d (to_af_tp tp) = wavelet_transform_version_implication (tp_wi tp) (tp_wi_ho tp) (tp_depth_ho tp).
  Proof. reflexivity. Qed.

  Lemma sym_tp tp : symmetric_tp d (to_af_tp tp) <-> tp_wi_ho tp = tp_wi tp /\ tp_depth_ho tp = 0.
  Proof. reflexivity. Qed.

  Definition kind_nz (k : kind) : Prop := match k with KFragData _ _ c _ _ => c <> 0 | _ => True end.

  Lemma has_tp k len : kind_nz k ->
    val_has_tp d (to_af_kind sh k len) = match k with KPic _ _ _ | KFragFirst _ _ _ => true | _ => false end.
  Proof.
    destruct k as [h|[|] n tp|[|] n tp|[|] n c x y| | |]; intros Hn; try reflexivity;
      cbn in Hn; unfold val_has_tp; rewrite eff_pc; cbn [kind_symbol symbol_code];
      change (u_frag_slice_count (to_af_kind sh (KFragData _ n c x y) len)) with (Some c); cbn [getd];
      destruct (c =? 0) eqn:E; [lia|reflexivity|lia|reflexivity].
  Qed.

  Lemma the_tp k len : match k with
    | KPic _ _ tp | KFragFirst _ _ tp => val_tp d (to_af_kind sh k len) = to_af_tp tp
    | _ => True end.
  Proof. destruct k as [h|[|] n tp|[|] n tp|[|] n c x y| | |]; try exact I; reflexivity. Qed.

  Lemma checked k len : val_unit_checked d (to_af_kind sh k len) =
    symbol_version (kind_symbol k) ::
    match k with KSeqHdr h => profile_version_implication (h_profile h) :: tl (val_header_logs d sh) | _ => [] end.
  Proof.
    unfold val_unit_checked. rewrite eff_pc, pc_is_header. unfold symbol_version.
    destruct k; try reflexivity.
  Qed.

  Notation A us := (map (to_af sh) us).
  Notation X := (tl (val_header_logs d sh)).

  Variable h0 : hdr.
  Hypothesis Hpv : h_pvmin h0 = hdr_pvmin d sh.

  Lemma hdr_version_le x : hdr_version h0 <= x <->
    1 <= x /\ profile_version_implication (h_profile h0) <= x /\ forall f, In f X -> f <= x.
  Proof.
    unfold hdr_version. rewrite Hpv. unfold hdr_pvmin.
    pose proof (lmax_le_iff X Stream.MINIMUM_MAJOR_VERSION x) as L. unfold Stream.MINIMUM_MAJOR_VERSION in *.
    split.
    - intros H. assert (H2 : lmax 1 X <= x) by lia. apply L in H2. split; [lia|]. split; [lia|]. apply H2.
    - intros (H1 & H2 & H3). assert (lmax 1 X <= x) by (apply L; split; [lia|exact H3]). lia.
  Qed.

  Definition same_profile (u : SU) : Prop := forall h, s_kind u = KSeqHdr h -> h_profile h = h_profile h0.

  (* ---- support ---- *)
  Lemma checked_unit_le x (u : SU) : same_profile u -> hdr_version h0 <= x ->
    ((forall f, In f (val_unit_checked d (to_af sh u)) -> f <= x) <-> symbol_version (u_symbol u) <= x).
  Proof.
    intros Hp Hh. unfold to_af. rewrite checked. unfold u_symbol. split.
    - intros H. apply H. left. reflexivity.
    - intros H f [<-|Hf]; [exact H|]. destruct (s_kind u) as [h| | | | | |] eqn:E; try contradiction.
      apply hdr_version_le in Hh. destruct Hh as (_ & H2 & H3). destruct Hf as [<-|Hf]; [rewrite (Hp h E); exact H2|exact (H3 f Hf)].
  Qed.

  Lemma first_hdr_logs x us : first_hdr us = Some h0 ->
    (forall f, In f (val_checked d (A us)) -> f <= x) -> 1 <= x -> hdr_version h0 <= x.
  Proof.
    intros Hf H H1. destruct us as [|u r]; [discriminate|]. cbn [first_hdr] in Hf.
    destruct (s_kind u) as [h| | | | | |] eqn:E; try discriminate. injection Hf as ->.
    apply hdr_version_le. split; [exact H1|].
    assert (Hin : forall f, In f (profile_version_implication (h_profile h0) :: X) -> f <= x).
    { intros f Hin. apply H. unfold val_checked. cbn [map flat_map]. apply in_or_app. left.
      unfold to_af. rewrite checked, E. right. exact Hin. }
    split; [apply Hin; left; reflexivity|]. intros f Hx. apply Hin. right. exact Hx.
  Qed.

  Lemma in_checked_iff us f : In f (val_checked d (A us)) <-> exists u, In u us /\ In f (val_unit_checked d (to_af sh u)).
  Proof.
    unfold val_checked. rewrite in_flat_map. split.
    - intros (a & Ha & Hf). apply in_map_iff in Ha. destruct Ha as (u & <- & Hu). exists u. split; assumption.
    - intros (u & Hu & Hf). exists (to_af sh u). split; [apply in_map; exact Hu|exact Hf].
  Qed.

  Lemma support_iff v us : first_hdr us = Some h0 -> Forall same_profile us ->
    (Stream.MINIMUM_MAJOR_VERSION <= v /\ (forall f, In f (val_checked d (A us)) -> f <= v)) <->
    (hdr_version h0 <=? v) && forallb (fun u => symbol_version (u_symbol u) <=? v) us = true.
  Proof.
    intros Hf Hp. rewrite andb_true_iff, Z.leb_le, forallb_forall. rewrite Forall_forall in Hp.
    unfold Stream.MINIMUM_MAJOR_VERSION. split.
    - intros (H1 & H). pose proof (first_hdr_logs v us Hf H H1) as Hh. split; [exact Hh|].
      intros u Hu. apply Z.leb_le. apply (proj1 (checked_unit_le v u (Hp u Hu) Hh)). intros f Hin. apply H.
      apply in_checked_iff. exists u. split; assumption.
    - intros (Hh & H). split; [apply hdr_version_le in Hh; lia|]. intros f Hin.
      apply in_checked_iff in Hin. destruct Hin as (u & Hu & Hin).
      apply (proj2 (checked_unit_le v u (Hp u Hu) Hh)); [|exact Hin]. apply Z.leb_le. exact (H u Hu).
  Qed.

  (* ---- number of pictures ---- *)
  Definition unit_nz (u : SU) : Prop := kind_nz (s_kind u).

  Lemma npics_eq us : Forall unit_nz us -> val_npics d (A us) = count_pictures us.
  Proof.
    intros Hn. unfold val_npics, count_pictures. f_equal. induction Hn as [|u r Hu Hr IH]; [reflexivity|].
    cbn [map filter]. unfold to_af at 1. rewrite (has_tp _ _ Hu). unfold is_new_picture.
    destruct (s_kind u); cbn [length]; rewrite IH; reflexivity.
  Qed.

  (* ---- minimality: _expected_major_version ---- *)
  Definition needed (us : list SU) : Z := fold_right (fun u a => Z.max (Stream.unit_version u) a) (hdr_version h0) us.

  Lemma needed_le x us : needed us <= x <-> hdr_version h0 <= x /\ Forall (fun u => Stream.unit_version u <= x) us.
  Proof.
    induction us as [|u r IH]; cbn [needed fold_right].
    - split; [intros H; split; [exact H|constructor]|intros [H _]; exact H].
    - fold (needed r). split.
      + intros H. assert (H1 : needed r <= x) by lia. apply IH in H1. destruct H1 as (H1 & H2).
        split; [exact H1|]. constructor; [lia|exact H2].
      + intros (H1 & H2). inversion H2 as [|? ? Hu Hr]; subst. assert (needed r <= x) by (apply IH; split; assumption). lia.
  Qed.

  (* the unit is codable with label v: its transform is symmetric unless v >= 3 *)
  Definition tp_codable (v : Z) (u : SU) : Prop :=
    match s_kind u with
    | KPic _ _ tp | KFragFirst _ _ tp => 3 <= v \/ (tp_wi_ho tp = tp_wi tp /\ tp_depth_ho tp = 0)
    | _ => True
    end.

  Lemma codable_iff v us : Forall unit_nz us -> (etp_codable d v (A us) <-> Forall (tp_codable v) us).
  Proof.
    intros Hn. unfold etp_codable. rewrite Forall_forall. rewrite Forall_forall in Hn. split.
    - intros [H|H] u Hu; unfold tp_codable; destruct (s_kind u) as [h|q n tp|q n tp|q n c x y| | |] eqn:E; try exact I.
      + left; exact H.
      + left; exact H.
      + right. specialize (H (to_af sh u) (in_map _ _ _ Hu)). unfold to_af in H. rewrite E in H.
        specialize (H (has_tp (KPic q n tp) (s_len u) I)). pose proof (the_tp (KPic q n tp) (s_len u)) as T. cbv beta iota in T. rewrite T in H.
        apply sym_tp. exact H.
      + right. specialize (H (to_af sh u) (in_map _ _ _ Hu)). unfold to_af in H. rewrite E in H.
        specialize (H (has_tp (KFragFirst q n tp) (s_len u) I)). pose proof (the_tp (KFragFirst q n tp) (s_len u)) as T. cbv beta iota in T. rewrite T in H.
        apply sym_tp. exact H.
    - intros H. destruct (Z_le_gt_dec 3 v) as [Hv|Hv]; [left; exact Hv|]. right.
      intros a Ha Ht. apply in_map_iff in Ha. destruct Ha as (u & <- & Hu). specialize (H u Hu). specialize (Hn u Hu).
      unfold tp_codable in H. unfold unit_nz in Hn. unfold to_af in *. rewrite (has_tp _ _ Hn) in Ht.
      destruct (s_kind u) as [h|q n tp|q n tp|q n c x y| | |] eqn:E; try discriminate.
      + pose proof (the_tp (KPic q n tp) (s_len u)) as T. cbv beta iota in T. rewrite T. apply sym_tp. destruct H as [H|H]; [lia|exact H].
      + pose proof (the_tp (KFragFirst q n tp) (s_len u)) as T. cbv beta iota in T. rewrite T. apply sym_tp. destruct H as [H|H]; [lia|exact H].
  Qed.

  Lemma symbol_version_ge1 s : 1 <= symbol_version s.
  Proof. destruct s; vm_compute; discriminate. Qed.

  Lemma logged_unit_le v x (u : SU) : unit_nz u -> same_profile u -> tp_codable v u -> hdr_version h0 <= x ->
    ((forall f, In f (val_unit_checked d (to_af sh u) ++ val_unit_etp d v (to_af sh u)) -> f <= x) <-> Stream.unit_version u <= x).
  Proof.
    intros Hn Hp Hc Hh. pose proof (proj1 (hdr_version_le x) Hh) as (H1 & _).
    pose proof (checked_unit_le x u Hp Hh) as C.
    unfold val_unit_etp, Stream.unit_version. unfold to_af at 2 3. rewrite (has_tp _ _ Hn).
    unfold tp_codable in Hc. unfold u_symbol in *.
    destruct (s_kind u) as [h|q n tp|q n tp|q n c x' y'| | |] eqn:E; cbn [andb].
    1,4-7: (rewrite app_nil_r; exact C).
    - pose proof (the_tp (KPic q n tp) (s_len u)) as T. cbv beta iota in T. rewrite T, tpv.
      destruct (3 <=? v) eqn:E3.
      + split.
        * intros H. assert (symbol_version (kind_symbol (KPic q n tp)) <= x) by (apply (proj1 C); intros f Hf; apply H; apply in_or_app; left; exact Hf).
          assert (wavelet_transform_version_implication (tp_wi tp) (tp_wi_ho tp) (tp_depth_ho tp) <= x) by (apply H; apply in_or_app; right; left; reflexivity). lia.
        * intros H f Hf. apply in_app_or in Hf. destruct Hf as [Hf|[<-|[]]]; [|lia]. apply (proj2 C); [lia|exact Hf].
      + rewrite app_nil_r. destruct Hc as [Hc|(Ha & Hb)]; [lia|]. rewrite Ha, (wavelet_imp_sym _ _ Hb).
        pose proof (symbol_version_ge1 (kind_symbol (KPic q n tp))). rewrite C. lia.
    - pose proof (the_tp (KFragFirst q n tp) (s_len u)) as T. cbv beta iota in T. rewrite T, tpv.
      destruct (3 <=? v) eqn:E3.
      + split.
        * intros H. assert (symbol_version (kind_symbol (KFragFirst q n tp)) <= x) by (apply (proj1 C); intros f Hf; apply H; apply in_or_app; left; exact Hf).
          assert (wavelet_transform_version_implication (tp_wi tp) (tp_wi_ho tp) (tp_depth_ho tp) <= x) by (apply H; apply in_or_app; right; left; reflexivity). lia.
        * intros H f Hf. apply in_app_or in Hf. destruct Hf as [Hf|[<-|[]]]; [|lia]. apply (proj2 C); [lia|exact Hf].
      + rewrite app_nil_r. destruct Hc as [Hc|(Ha & Hb)]; [lia|]. rewrite Ha, (wavelet_imp_sym _ _ Hb).
        pose proof (symbol_version_ge1 (kind_symbol (KFragFirst q n tp))). rewrite C. lia.
  Qed.

  Lemma in_logged_iff v us f : In f (val_logged d v (A us)) <->
    exists u, In u us /\ In f (val_unit_checked d (to_af sh u) ++ val_unit_etp d v (to_af sh u)).
  Proof.
    unfold val_logged. rewrite in_flat_map. split.
    - intros (a & Ha & Hf). apply in_map_iff in Ha. destruct Ha as (u & <- & Hu). exists u. split; assumption.
    - intros (u & Hu & Hf). exists (to_af sh u). split; [apply in_map; exact Hu|exact Hf].
  Qed.

  Lemma expected_le v x us : first_hdr us = Some h0 -> Forall unit_nz us -> Forall same_profile us -> Forall (tp_codable v) us ->
    (val_expected d v (A us) <= x <-> needed us <= x).
  Proof.
    intros Hf Hn Hp Hc. unfold val_expected. rewrite lmax_le_iff, needed_le. rewrite Forall_forall in *.
    rewrite min_is_1. split.
    - intros (H1 & H).
      assert (Hh : hdr_version h0 <= x).
      { apply (first_hdr_logs x us Hf); [|exact H1]. intros f Hin. apply in_checked_iff in Hin. destruct Hin as (u & Hu & Hin).
        apply H. apply in_logged_iff. exists u. split; [exact Hu|apply in_or_app; left; exact Hin]. }
      split; [exact Hh|]. intros u Hu. apply (proj1 (logged_unit_le v x u (Hn u Hu) (Hp u Hu) (Hc u Hu) Hh)).
      intros f Hin. apply H. apply in_logged_iff. exists u. split; assumption.
    - intros (Hh & H). split; [apply hdr_version_le in Hh; lia|]. intros f Hin. apply in_logged_iff in Hin.
      destruct Hin as (u & Hu & Hin). exact (proj2 (logged_unit_le v x u (Hn u Hu) (Hp u Hu) (Hc u Hu) Hh) (H u Hu) f Hin).
  Qed.

  Lemma expected_eq v us : first_hdr us = Some h0 -> Forall unit_nz us -> Forall same_profile us -> Forall (tp_codable v) us ->
    val_expected d v (A us) = needed us.
  Proof.
    intros Hf Hn Hp Hc. pose proof (expected_le v (needed us) us Hf Hn Hp Hc) as H1.
    pose proof (expected_le v (val_expected d v (A us)) us Hf Hn Hp Hc) as H2.
    assert (val_expected d v (A us) <= needed us) by (apply H1; lia).
    assert (needed us <= val_expected d v (A us)) by (apply H2; lia). lia.
  Qed.

  (* ---- the two formulations of the validator's version rule agree ---- *)
  Theorem version_rules_agree us : first_hdr us = Some h0 -> Forall unit_nz us -> Forall same_profile us ->
    Forall (tp_codable (h_major h0)) us ->
    (version_ok us = true <-> val_version_ok d (h_major h0) (A us)).
  Proof.
    intros Hf Hn Hp Hc. unfold version_ok, val_version_ok. rewrite Hf. cbv zeta.
    fold (needed us). rewrite (npics_eq us Hn), (expected_eq _ us Hf Hn Hp Hc).
    rewrite !andb_true_iff, orb_true_iff, andb_true_iff, !Z.leb_le, !Z.eqb_eq.
    pose proof (support_iff (h_major h0) us Hf Hp) as S. rewrite andb_true_iff, Z.leb_le in S.
    change MINIMUM_MAJOR_VERSION with Stream.MINIMUM_MAJOR_VERSION. tauto.
  Qed.

  Lemma unit_version_len mv k len : Autofill.unit_version d mv (to_af_kind sh k len) = Autofill.unit_version d mv (to_af_kind sh k 0).
  Proof. destruct k; reflexivity. Qed.

  Lemma seq_version_kinds us : seq_version d (A us) = autofilled_version d sh (map s_kind us).
  Proof.
    unfold autofilled_version, seq_version. generalize VC2.Gen.Consts.MINIMUM_MAJOR_VERSION.
    induction us as [|u r IH]; intros mv; [reflexivity|]. cbn [map fold_left]. change (to_af sh u) with (to_af_kind sh (s_kind u) (s_len u)). rewrite (unit_version_len mv (s_kind u) (s_len u)). apply IH.
  Qed.

  (* a header carrying C07's autofilled major_version satisfies Model/Stream.v's version rule, and the
     pictures are codable under that label (the tp_valid part of units_valid) *)
  Theorem autofilled_version_ok us : first_hdr us = Some h0 -> Forall unit_nz us -> Forall same_profile us ->
    h_major h0 = autofilled_version d sh (map s_kind us) ->
    version_ok us = true /\ Forall (tp_codable (h_major h0)) us.
  Proof.
    intros Hf Hn Hp Hv. rewrite <- seq_version_kinds in Hv.
    pose proof (major_version_least d (A us)) as L. cbv zeta in L. destruct L as (L1 & L2 & _). rewrite <- Hv in L1, L2.
    apply (codable_iff _ us Hn) in L1. split; [|exact L1]. apply (version_rules_agree us Hf Hn Hp L1). exact L2.
  Qed.

  (* ... and it is the least label Model/Stream.v's version rule accepts *)
  Theorem autofilled_version_least us : first_hdr us = Some h0 -> Forall unit_nz us -> Forall same_profile us ->
    Forall (tp_codable (h_major h0)) us -> version_ok us = true ->
    autofilled_version d sh (map s_kind us) <= h_major h0.
  Proof.
    intros Hf Hn Hp Hc Hv. rewrite <- seq_version_kinds.
    pose proof (major_version_least d (A us)) as L. cbv zeta in L. destruct L as (_ & _ & L). apply L.
    - apply (codable_iff _ us Hn). exact Hc.
    - apply (version_rules_agree us Hf Hn Hp Hc). exact Hv.
  Qed.
End Bridge.
