(* Streams of several sequences: the validator treats each sequence on its own (C01 lift, C10). *)
From Coq Require Import ZArith List Bool Lia.
From VC2 Require Import Base.PyZ Model.Stream Proofs.StreamProofs Proofs.StreamRefine.
Import ListNotations.
Open Scope Z_scope.

Section Lift.
  Variable gst : Type.
  Variable gstart : gst.
  Variable gstep : gst -> symbol -> option gst.
  Variable gcomplete : gst -> bool.
  Variable lst : Type.
  Variable lstart : Z -> lst.
  Variable lstep : Z -> lst -> symbol -> option lst.
  Variable lcomplete : Z -> lst -> bool.
  Variable level_known : Z -> bool.
  Variable pinned : bool.

  Notation Mstep := (step gst gstep gcomplete lst lstart lstep lcomplete level_known pinned).
  Notation Mrun_from := (run_from gst gstart gstep gcomplete lst lstart lstep lcomplete level_known pinned).
  Notation Mrun := (run gst gstart gstep gcomplete lst lstart lstep lcomplete level_known pinned).
  Notation init := (init_state gst gstart lst).

  (* the data units that follow only decide WHICH error a desynchronised padding unit produces *)
  Definition same_outcome (a b : step_result gst lst) : Prop :=
    match a, b with
    | Continue x, Continue y => x = y
    | SeqDone, SeqDone => True
    | Fail v, Fail w => v <> Accept /\ w <> Accept
    | _, _ => False
    end.

  Lemma step_rest s u r1 r2 : same_outcome (Mstep s u r1) (Mstep s u r2).
  Proof.
    unfold step, same_outcome.
    destruct (parse_info gst gstep lst lstep pinned s u) as [s1|e|c]; [| split; discriminate | split; discriminate].
    destruct (is_eos_kind (u_kind u)).
    - destruct (end_of_sequence gst gcomplete lst lcomplete s1); [exact I | split; discriminate | split; discriminate].
    - destruct (data_unit gst lst lstart lstep level_known pinned s1 u) as [s2|e|c]; [| split; discriminate | split; discriminate].
      destruct (u_kind u); try reflexivity;
        (destruct (u_npo u =? u_len u); [reflexivity|]; destruct (_ <=? _); destruct (_ <=? _); split; discriminate).
  Qed.

  Lemma step_not_done_unless_eos s u r : Mstep s u r = SeqDone -> is_eos_kind (u_kind u) = true.
  Proof.
    unfold step. destruct (parse_info gst gstep lst lstep pinned s u); try discriminate.
    destruct (is_eos_kind (u_kind u)); [reflexivity|].
    destruct (data_unit gst lst lstart lstep level_known pinned a u); try discriminate.
    destruct (u_kind u); try discriminate; destruct (u_npo u =? u_len u); try discriminate; destruct (_ <=? _); discriminate.
  Qed.

  Lemma step_not_continue_on_eos s u r s' : Mstep s u r = Continue s' -> is_eos_kind (u_kind u) = false.
  Proof.
    unfold step. destruct (parse_info gst gstep lst lstep pinned s u); try discriminate.
    destruct (is_eos_kind (u_kind u)); [|reflexivity].
    destruct (end_of_sequence gst gcomplete lst lcomplete a); discriminate.
  Qed.

  Lemma run_from_cons' fresh s u r :
    Mrun_from fresh s (u :: r) =
    match Mstep s u r with
    | Fail v => v
    | SeqDone => Mrun_from true init r
    | Continue s' => Mrun_from false s' r
    end.
  Proof. reflexivity. Qed.

  (* a complete sequence followed by more data: accepted iff the sequence is accepted on its own
     and the rest is accepted from a fresh state *)
  Lemma run_app seq : eos_only_last seq = true -> forall fresh s rest,
    (Mrun_from fresh s (seq ++ rest) = Accept <->
     Mrun_from fresh s seq = Accept /\ Mrun rest = Accept).
  Proof.
    induction seq as [|u r IH]; [discriminate|]. intros Hlast fresh s rest.
    change ((u :: r) ++ rest) with (u :: (r ++ rest)). rewrite !run_from_cons'.
    pose proof (step_rest s u (r ++ rest) r) as Hsame. unfold same_outcome in Hsame.
    destruct r as [|u' r'].
    - (* u is the end of sequence *)
      change (eos_only_last [u]) with (is_eos_kind (u_kind u)) in Hlast.
      destruct (Mstep s u ([] ++ rest)) as [s1| |v] eqn:E1; destruct (Mstep s u []) as [s2| |w] eqn:E2; try contradiction.
      + apply step_not_continue_on_eos in E2. congruence.
      + change ([] ++ rest) with rest. unfold run. split; [intros H; split; [reflexivity|exact H]|intros (_ & H); exact H].
      + destruct Hsame as (Hv1 & Hv2). split; [intros Hx; contradiction|intros (Hx & _); contradiction].
    - change (eos_only_last (u :: u' :: r')) with (negb (is_eos_kind (u_kind u)) && eos_only_last (u' :: r')) in Hlast.
      apply andb_prop in Hlast. destruct Hlast as (Hne & Hlast).
      destruct (Mstep s u ((u' :: r') ++ rest)) as [s1| |v] eqn:E1; destruct (Mstep s u (u' :: r')) as [s2| |w] eqn:E2; try contradiction.
      + subst s2. apply IH. exact Hlast.
      + apply step_not_done_unless_eos in E2. rewrite E2 in Hne. discriminate.
      + destruct Hsame as (Hv1 & Hv2). split; [intros Hx; contradiction|intros (Hx & _); contradiction].
  Qed.

  (* C01 lift / C10: a stream of complete sequences is accepted iff each is accepted alone *)
  Theorem stream_lift seqs : Forall (fun s => eos_only_last s = true) seqs ->
    (run_stream gst gstart gstep gcomplete lst lstart lstep lcomplete level_known pinned seqs = Accept <->
     Forall (fun s => Mrun s = Accept) seqs).
  Proof.
    unfold run_stream. induction seqs as [|sq r IH]; intros Hall.
    - split; [constructor|reflexivity].
    - inversion Hall as [|? ? Hsq Hr]; subst. cbn [concat]. unfold run at 1.
      rewrite (run_app sq Hsq true init (concat r)). fold (Mrun sq).
      split.
      + intros (H1 & H2). constructor; [exact H1|]. apply IH; assumption.
      + intros H. inversion H; subst. split; [assumption|]. apply IH; assumption.
  Qed.

  (* independence (C10): whether a sequence is accepted does not depend on the conformant sequences
     before and after it *)
  Theorem independent before sq after :
    Forall (fun s => eos_only_last s = true) before -> eos_only_last sq = true ->
    Forall (fun s => eos_only_last s = true) after ->
    Forall (fun s => Mrun s = Accept) before -> Forall (fun s => Mrun s = Accept) after ->
    (run_stream gst gstart gstep gcomplete lst lstart lstep lcomplete level_known pinned (before ++ [sq] ++ after) = Accept
     <-> Mrun sq = Accept).
  Proof.
    intros Hb Hs Ha Rb Ra. rewrite stream_lift.
    - rewrite !Forall_app. split.
      + intros (_ & H & _). inversion H; assumption.
      + intros H. repeat split; try assumption. constructor; [assumption|constructor].
    - rewrite !Forall_app. repeat split; try assumption. constructor; [assumption|constructor].
  Qed.

  (* ---- the pictures output (run_obs) *)
  Notation Mrun_obs := (run_obs gst gstart gstep gcomplete lst lstart lstep lcomplete level_known pinned).

  Definition pics_of (us : list dunit) : list Z := snd (Mrun_obs true init us 0 []).

  Lemma run_obs_cons fresh s u r i p :
    Mrun_obs fresh s (u :: r) i p =
    match Mstep s u r with
    | Fail v => (v, i, p)
    | SeqDone => Mrun_obs true init r (i + 1) p
    | Continue s' =>
        Mrun_obs false s' r i
          (match u_kind u with
           | KPic _ n _ => p ++ [n]
           | KFragData _ n _ _ _ => if f_remaining (vf s') =? 0 then p ++ [n] else p
           | _ => p
           end)
    end.
  Proof. reflexivity. Qed.

  Lemma run_obs_acc us : forall fresh s i p,
    Mrun_obs fresh s us i p =
    (fst (fst (Mrun_obs fresh s us 0 [])), i + snd (fst (Mrun_obs fresh s us 0 [])), p ++ snd (Mrun_obs fresh s us 0 [])).
  Proof.
    induction us as [|u r IH]; intros fresh s i p.
    - cbn. rewrite Z.add_0_r, app_nil_r. reflexivity.
    - rewrite !run_obs_cons. destruct (Mstep s u r) as [s'| |v].
      + rewrite (IH false s' i). rewrite (IH false s' 0 (match u_kind u with
           | KPic _ n _ => [] ++ [n]
           | KFragData _ n _ _ _ => if f_remaining (vf s') =? 0 then [] ++ [n] else []
           | _ => [] end)).
        cbn [fst snd]. f_equal.
        destruct (u_kind u); try (destruct (f_remaining (vf s') =? 0)); cbn [app]; rewrite <- ?app_assoc; reflexivity.
      + rewrite (IH true init (i + 1) p), (IH true init (0 + 1) []). cbn [fst snd app]. f_equal. f_equal. lia.
      + cbn. rewrite Z.add_0_r, app_nil_r. reflexivity.
  Qed.

  Lemma run_obs_verdict us : forall fresh s i p, fst (fst (Mrun_obs fresh s us i p)) = Mrun_from fresh s us.
  Proof.
    induction us as [|u r IH]; intros fresh s i p; [reflexivity|].
    rewrite run_obs_cons, run_from_cons'. destruct (Mstep s u r); [apply IH|apply IH|reflexivity].
  Qed.

  (* after an accepted complete sequence, observation continues from a fresh state with the sequence
     counter advanced and that sequence's pictures appended *)
  Lemma run_obs_app seq : eos_only_last seq = true -> forall fresh s rest i p,
    Mrun_from fresh s seq = Accept ->
    Mrun_obs fresh s (seq ++ rest) i p =
    Mrun_obs true init rest (i + 1) (p ++ snd (Mrun_obs fresh s seq 0 [])).
  Proof.
    induction seq as [|u r IH]; [discriminate|]. intros Hlast fresh s rest i p Hacc.
    change ((u :: r) ++ rest) with (u :: (r ++ rest)). rewrite run_obs_cons.
    rewrite run_from_cons' in Hacc.
    rewrite (run_obs_acc (u :: r) fresh s 0 []). rewrite run_obs_cons.
    pose proof (step_rest s u (r ++ rest) r) as Hsame. unfold same_outcome in Hsame.
    destruct r as [|u' r'].
    - change (eos_only_last [u]) with (is_eos_kind (u_kind u)) in Hlast.
      destruct (Mstep s u ([] ++ rest)) as [s1| |v] eqn:E1; destruct (Mstep s u []) as [s2| |w] eqn:E2; try contradiction.
      + apply step_not_continue_on_eos in E2. congruence.
      + cbn. rewrite app_nil_r. reflexivity.
      + subst w. destruct Hsame; contradiction.
    - change (eos_only_last (u :: u' :: r')) with (negb (is_eos_kind (u_kind u)) && eos_only_last (u' :: r')) in Hlast.
      apply andb_prop in Hlast. destruct Hlast as (Hne & Hlast).
      destruct (Mstep s u ((u' :: r') ++ rest)) as [s1| |v] eqn:E1; destruct (Mstep s u (u' :: r')) as [s2| |w] eqn:E2; try contradiction.
      + subst s2. rewrite (IH Hlast false s1 rest i _ Hacc).
        rewrite (run_obs_acc (u' :: r') false s1 0 (match u_kind u with
           | KPic _ n _ => [] ++ [n]
           | KFragData _ n _ _ _ => if f_remaining (vf s1) =? 0 then [] ++ [n] else []
           | _ => [] end)).
        cbn [fst snd]. f_equal.
        destruct (u_kind u); try (destruct (f_remaining (vf s1) =? 0)); cbn [app]; rewrite <- ?app_assoc; reflexivity.
      + apply step_not_done_unless_eos in E2. rewrite E2 in Hne. discriminate.
      + subst w. destruct Hsame; contradiction.
  Qed.

  (* C10: the concatenation of accepted complete sequences is accepted, the validator has gone through
     exactly that many sequences, and it outputs exactly the concatenation of the pictures each sequence
     produces alone *)
  Theorem pictures_concat seqs :
    Forall (fun s => eos_only_last s = true) seqs -> Forall (fun s => Mrun s = Accept) seqs ->
    forall i p,
    Mrun_obs true init (concat seqs) i p = (Accept, i + Z.of_nat (length seqs), p ++ concat (map pics_of seqs)).
  Proof.
    induction seqs as [|sq r IH]; intros Hl Ha i p.
    - cbn. rewrite Z.add_0_r, app_nil_r. reflexivity.
    - inversion Hl; subst. inversion Ha; subst. cbn [concat map length].
      rewrite (run_obs_app sq H1 true init (concat r) i p H3).
      rewrite (IH H2 H4). unfold pics_of. rewrite Nat2Z.inj_succ, <- app_assoc. f_equal. f_equal. lia.
  Qed.
End Lift.

(* ------------------------------------------------------------------ reset_state (tie T: Gen/StateFields.v) *)
From Coq Require Import String.
From VC2 Require Import Gen.StateFields.
(* The State entries the stream-level model reads or writes (the fields of vstate), by their names
   in vc2_conformance/pseudocode/state.py *)
Definition modelled_state_entries : list string :=
  [ "next_parse_offset"; "_last_parse_info_offset"; "_generic_sequence_matcher"; "_level_sequence_matcher";
    "profile"; "major_version"; "level"; "picture_coding_mode"; "_expected_major_version";
    "_last_sequence_header_bytes"; "_last_sequence_header_offset"; "_level_constrained_values";
    "_last_picture_number"; "_last_picture_number_offset"; "_num_pictures_in_sequence";
    "_fragment_slices_remaining"; "fragment_slices_received"; "_picture_initial_fragment_offset";
    "fragmented_picture_done"; "slices_x"; "slices_y"; "picture_number"; "parse_code"; "previous_parse_offset" ]%string.
Definition io_only_entries : list string :=
  [ "_output_picture_callback"; "next_bit"; "current_byte"; "_file"; "_recorded_bytes" ]%string.

Definition str_in (l : list string) (x : string) : bool := existsb (String.eqb x) l.

Lemma retained_io_only : forallb (str_in io_only_entries) retained_state_fields = true.
Proof. vm_compute. reflexivity. Qed.

Lemma modelled_are_entries : forallb (str_in state_entry_names) modelled_state_entries = true.
Proof. vm_compute. reflexivity. Qed.

Lemma modelled_not_retained : forallb (fun f => negb (str_in retained_state_fields f)) modelled_state_entries = true.
Proof. vm_compute. reflexivity. Qed.

(* ------------------------------------------------------------------ streams and the ten rules *)
Lemma eos_only_last_one_sequence us : eos_only_last us = true -> one_sequence us = true.
Proof.
  unfold one_sequence. destruct us as [|u r]; [discriminate|]. revert u.
  induction r as [|u' r IH]; intros u H.
  - change (eos_at_most_last [u]) with ((negb (is_eos_kind (u_kind u)) || true) && true).
    rewrite orb_true_r. reflexivity.
  - change (eos_only_last (u :: u' :: r)) with (negb (is_eos_kind (u_kind u)) && eos_only_last (u' :: r)) in H.
    apply andb_prop in H. destruct H as (H1 & H2).
    change (eos_at_most_last (u :: u' :: r)) with
        ((negb (is_eos_kind (u_kind u)) || false) && eos_at_most_last (u' :: r)).
    rewrite H1. rewrite (IH u' H2). reflexivity.
Qed.

Lemma stream_iff_rules gst gstart gstep gcomplete lst lstart lstep lcomplete level_known :
  gen_first_is_seqhdr_b gstart gstep = true ->
  forall seqs,
  Forall (fun s => eos_only_last s = true) seqs -> Forall (fun s => units_valid level_known s = true) seqs ->
  (run_stream gst gstart gstep gcomplete lst lstart lstep lcomplete level_known false seqs = Accept <->
   Forall (fun s => rules_ok gst gstart gstep gcomplete lst lstart lstep lcomplete s = true) seqs).
Proof.
  intros Hgen seqs Hl Hv. rewrite stream_lift by assumption.
  induction seqs as [|s r IH].
  - split; constructor.
  - inversion Hl; subst. inversion Hv; subst.
    pose proof (iff_one_sequence gst gstart gstep gcomplete lst lstart lstep lcomplete level_known Hgen s H3
                                 (eos_only_last_one_sequence s H1)) as Hs.
    split; intros H; inversion H; subst; constructor; try (apply Hs; assumption); apply IH; assumption.
Qed.
