(* Proofs about Model/Lifting.v: the sequential in-place lifting loop is undone by the loop with the
   opposite sign (for every stage parameter), hence oned_synthesis undoes oned_analysis. *)
From Coq Require Import ZArith List Bool Lia ZifyBool Arith.
From VC2 Require Import Base.PyZ Model.Lifting.
Import ListNotations.
Open Scope Z_scope.
Ltac Zify.zify_post_hook ::= Z.to_euclidean_division_equations.

Lemma upd_length : forall A i v, length (upd A i v) = length A.
Proof. induction A as [|a A IH]; intros [|i] v; cbn [upd length]; auto. Qed.

Lemma nth_upd_same : forall A i v, (i < length A)%nat -> nth i (upd A i v) 0 = v.
Proof.
  induction A as [|a A IH]; intros [|i] v Hi; cbn [upd length nth] in *; try lia; auto.
  apply IH; lia.
Qed.

Lemma nth_upd_other : forall A i j v, i <> j -> nth j (upd A i v) 0 = nth j A 0.
Proof.
  induction A as [|a A IH]; intros [|i] [|j] v Hij; cbn [upd nth]; try congruence; auto.
Qed.

(* ---- generic sequential in-place loop ------------------------------------- *)
Section InPlace.
  Variable w : nat -> nat.                 (* position written by step n *)
  Variable g : list Z -> nat -> Z.         (* value computed from the current array by step n *)
  Variable m : nat.                        (* number of steps *)
  Variable len0 : nat.                     (* length of the arrays considered *)

  Definition ip_step (op : Z -> Z -> Z) (A : list Z) (n : nat) : list Z :=
    upd A (w n) (op (nth (w n) A 0) (g A n)).
  Definition ip_loop (op : Z -> Z -> Z) (k : nat) (A : list Z) : list Z :=
    fold_left (ip_step op) (seq 0 k) A.

  Definition unwritten (p : nat) : Prop := forall j, (j < m)%nat -> p <> w j.

  Hypothesis w_inj : forall i j, (i < m)%nat -> (j < m)%nat -> w i = w j -> i = j.
  (* g looks only at positions no step writes *)
  Hypothesis g_indep : forall A B n, length A = len0 -> length B = len0 ->
    (forall p, unwritten p -> nth p A 0 = nth p B 0) -> g A n = g B n.

  Lemma ip_loop_spec : forall op A k, (k <= m)%nat -> length A = len0 ->
    (forall j, (j < m)%nat -> (w j < length A)%nat) ->
    let B := ip_loop op k A in
    length B = length A /\
    (forall p, (forall j, (j < k)%nat -> p <> w j) -> nth p B 0 = nth p A 0) /\
    (forall j, (j < k)%nat -> nth (w j) B 0 = op (nth (w j) A 0) (g A j)).
  Proof.
    intros op A k. induction k as [|k IH]; intros Hk HA Hw.
    - cbn. split; [reflexivity|]. split; [reflexivity|]. intros j Hj; lia.
    - unfold ip_loop in *. rewrite seq_S, fold_left_app. cbn [fold_left plus].
      destruct IH as (HL & HU & HW); [lia|assumption|assumption|].
      set (Bk := fold_left (ip_step op) (seq 0 k) A) in *.
      assert (Hg : g Bk k = g A k).
      { apply g_indep; [congruence|exact HA|]. intros p Hp. apply HU. intros j Hj. apply Hp. lia. }
      assert (Hwk : nth (w k) Bk 0 = nth (w k) A 0).
      { apply HU. intros j Hj E. apply w_inj in E; lia. }
      unfold ip_step. split; [rewrite upd_length; exact HL|]. split.
      + intros p Hp. rewrite nth_upd_other by (apply not_eq_sym, Hp; lia). apply HU. intros j Hj. apply Hp. lia.
      + intros j Hj. destruct (Nat.eq_dec j k) as [->|Hne].
        * rewrite nth_upd_same by (rewrite HL; apply Hw; lia). rewrite Hwk, Hg. reflexivity.
        * rewrite nth_upd_other by (intro E; apply w_inj in E; lia). apply HW. lia.
  Qed.

  Lemma ip_loop_inverse : forall op1 op2 A,
    (forall a v, op2 (op1 a v) v = a) -> length A = len0 ->
    (forall j, (j < m)%nat -> (w j < length A)%nat) ->
    ip_loop op2 m (ip_loop op1 m A) = A.
  Proof.
    intros op1 op2 A Hop HA Hw.
    destruct (ip_loop_spec op1 A m (le_n m) HA Hw) as (HL1 & HU1 & HW1).
    set (B := ip_loop op1 m A) in *.
    assert (HwB : forall j, (j < m)%nat -> (w j < length B)%nat) by (intros; rewrite HL1; auto).
    destruct (ip_loop_spec op2 B m (le_n m) (eq_trans HL1 HA) HwB) as (HL2 & HU2 & HW2).
    set (C := ip_loop op2 m B) in *.
    apply nth_ext with (d := 0) (d' := 0); [congruence|].
    intros p Hp.
    assert (Hdec : (exists j, (j < m)%nat /\ p = w j) \/ (forall j, (j < m)%nat -> p <> w j)).
    { clear -m. induction m as [|k IH].
      - right; intros; lia.
      - destruct IH as [(j & Hj & E)|IH]; [left; exists j; split; [lia|exact E]|].
        destruct (Nat.eq_dec p (w k)) as [E|NE]; [left; exists k; split; [lia|exact E]|].
        right. intros j Hj. destruct (Nat.eq_dec j k) as [->|]; [exact NE|apply IH; lia]. }
    destruct Hdec as [(j & Hj & ->)|Hun].
    - rewrite HW2, HW1 by exact Hj.
      replace (g B j) with (g A j); [apply Hop|].
      apply g_indep; [exact HA|congruence|]. intros q Hq. symmetry. apply HU1. exact Hq.
    - rewrite HU2, HU1 by exact Hun. reflexivity.
  Qed.
End InPlace.

(* ---- the lifting loops --------------------------------------------------------- *)
Lemma fold_left_ext_in : forall {A B} (f g : A -> B -> A) (l : list B) (a : A),
  (forall a b, In b l -> f a b = g a b) -> fold_left f l a = fold_left g l a.
Proof.
  intros A B f g l. induction l as [|b l IH]; intros a H; cbn [fold_left]; [reflexivity|].
  rewrite H by (left; reflexivity). apply IH. intros; apply H; right; assumption.
Qed.

Definition lift_w (odd : bool) (n : nat) : nat := if odd then (2 * n + 1)%nat else (2 * n)%nat.
Definition lift_g (odd : bool) (L D : Z) (taps : list Z) (S : Z) (A : list Z) (n : nat) : Z :=
  py_shr (let sum := tap_sum odd L D taps A (Z.of_nat n) in if S >? 0 then sum + py_shl 1 (S - 1) else sum) S.
Definition lift_op (sub : bool) : Z -> Z -> Z := if sub then Z.sub else Z.add.

Lemma lift_loop_ip : forall odd sub L D taps S A,
  lift_loop odd sub L D taps S A =
  ip_loop (lift_w odd) (lift_g odd L D taps S) (lift_op sub) (Nat.div2 (length A)) A.
Proof. intros odd [|] L D taps S A; reflexivity. Qed.

Lemma tap_sum_indep : forall odd L D taps A B n m,
  length A = (2 * m)%nat -> length B = (2 * m)%nat ->
  (forall p, (forall j, (j < m)%nat -> p <> lift_w odd j) -> nth p A 0 = nth p B 0) ->
  tap_sum odd L D taps A n = tap_sum odd L D taps B n.
Proof.
  intros odd L D taps A B n m HA HB Hag. unfold tap_sum.
  apply fold_left_ext_in. intros sum j _. f_equal. f_equal.
  rewrite HA, HB. unfold getz. apply Hag. intros k Hk.
  unfold tap_pos, lift_w. destruct odd; lia.
Qed.

Lemma lift_loop_length : forall odd sub L D taps S A, length (lift_loop odd sub L D taps S A) = length A.
Proof.
  intros. unfold lift_loop. generalize (seq 0 (Nat.div2 (length A))). intros l. revert A.
  induction l as [|n l IH]; intros A; cbn [fold_left]; [reflexivity|].
  rewrite IH. unfold lift_step. apply upd_length.
Qed.

Lemma even_double : forall n, Nat.even n = true -> n = (2 * Nat.div2 n)%nat.
Proof.
  intros n H. destruct (Nat.even_spec n) as [E _]. destruct (E H) as [k ->].
  rewrite Nat.div2_double. reflexivity.
Qed.

Theorem lift_loop_inverse : forall odd sub1 sub2 L D taps S A,
  sub2 = negb sub1 -> Nat.even (length A) = true ->
  lift_loop odd sub2 L D taps S (lift_loop odd sub1 L D taps S A) = A.
Proof.
  intros odd sub1 sub2 L D taps S A Hs Hev.
  rewrite (lift_loop_ip odd sub2), lift_loop_length, (lift_loop_ip odd sub1).
  set (m := Nat.div2 (length A)). pose proof (even_double _ Hev) as Hlen. fold m in Hlen.
  apply ip_loop_inverse with (len0 := (2 * m)%nat).
  - intros i j _ _. unfold lift_w. destruct odd; lia.
  - intros X Y n HX HY Hag. unfold lift_g. f_equal.
    rewrite (tap_sum_indep odd L D taps X Y (Z.of_nat n) m HX HY Hag). reflexivity.
  - intros a v. subst sub2. unfold lift_op. destruct sub1; cbn [negb]; lia.
  - exact Hlen.
  - intros j Hj. rewrite Hlen. unfold lift_w. destruct odd; lia.
Qed.

(* ---- stages and filters ----------------------------------------------------------- *)
Lemma synthesis_lift_length : forall t L D taps S A, length (synthesis_lift t L D taps S A) = length A.
Proof.
  intros. unfold synthesis_lift, lift1, lift2, lift3, lift4.
  repeat match goal with |- context [if ?b then _ else _] => destruct b end;
    try apply lift_loop_length; reflexivity.
Qed.
Lemma synthesis_stage_length : forall A s, length (synthesis_stage A s) = length A.
Proof. intros. apply synthesis_lift_length. Qed.
Lemma analysis_stage_length : forall A s, length (analysis_stage A s) = length A.
Proof. intros. apply synthesis_lift_length. Qed.

Lemma fold_left_length : forall (f : list Z -> stage -> list Z) l A,
  (forall A s, length (f A s) = length A) -> length (fold_left f l A) = length A.
Proof. intros f l. induction l as [|s l IH]; intros A H; cbn [fold_left]; [reflexivity|]. rewrite IH, H; auto. Qed.
Lemma oned_synthesis_length : forall st A, length (oned_synthesis st A) = length A.
Proof. intros. apply fold_left_length, synthesis_stage_length. Qed.
Lemma oned_analysis_length : forall st A, length (oned_analysis st A) = length A.
Proof. intros. apply fold_left_length, analysis_stage_length. Qed.

(* every lift type (and every L, D, taps, S): the swapped-sign lift undoes it, both ways *)
Theorem lift_inverse : forall t L D taps S A, Nat.even (length A) = true ->
  synthesis_lift t L D taps S (analysis_lift t L D taps S A) = A /\
  analysis_lift t L D taps S (synthesis_lift t L D taps S A) = A.
Proof.
  intros t L D taps S A Hev. unfold analysis_lift, swap_type, synthesis_lift, lift1, lift2, lift3, lift4.
  destruct (t =? 1) eqn:E1; [split; apply lift_loop_inverse; auto|].
  destruct (t =? 2) eqn:E2; [split; apply lift_loop_inverse; auto|].
  destruct (t =? 3) eqn:E3; [split; apply lift_loop_inverse; auto|].
  destruct (t =? 4) eqn:E4; [split; apply lift_loop_inverse; auto|].
  rewrite E1, E2, E3, E4. split; reflexivity.
Qed.

Lemma stage_inverse : forall s A, Nat.even (length A) = true ->
  synthesis_stage (analysis_stage A s) s = A /\ analysis_stage (synthesis_stage A s) s = A.
Proof. intros s A H. apply lift_inverse, H. Qed.

Theorem oned_roundtrip : forall st A, Nat.even (length A) = true ->
  oned_synthesis st (oned_analysis st A) = A.
Proof.
  intros st. unfold oned_synthesis, oned_analysis. induction st as [|s st IH]; intros A Hev; [reflexivity|].
  cbn [rev]. rewrite fold_left_app. cbn [fold_left].
  destruct (stage_inverse s (fold_left analysis_stage (rev st) A)) as [H1 _].
  { rewrite (fold_left_length analysis_stage) by apply analysis_stage_length. exact Hev. }
  rewrite H1. apply IH, Hev.
Qed.

Theorem oned_roundtrip_rev : forall st A, Nat.even (length A) = true ->
  oned_analysis st (oned_synthesis st A) = A.
Proof.
  intros st. unfold oned_synthesis, oned_analysis. induction st as [|s st IH]; intros A Hev; [reflexivity|].
  cbn [rev fold_left]. rewrite fold_left_app. cbn [fold_left].
  rewrite IH by (rewrite synthesis_stage_length; exact Hev).
  apply stage_inverse, Hev.
Qed.
(* the loops never index outside the array: the defaults of [nth] in the model are never used
   (Python would raise IndexError there) *)
Lemma tap_pos_in_range : forall odd len n i, 2 <= len -> 0 <= tap_pos odd len n i < len.
Proof. intros odd len n i H. unfold tap_pos. destruct odd; lia. Qed.

Lemma div2_lt : forall n len, (n < Nat.div2 len)%nat -> (2 * n + 1 < len)%nat.
Proof.
  intros n len H. destruct (Nat.even len) eqn:E.
  - apply even_double in E. lia.
  - assert (E' : Nat.odd len = true) by (rewrite <- Nat.negb_even, E; reflexivity).
    apply Nat.odd_spec in E'. destruct E' as [k ->].
    replace (2 * k + 1)%nat with (S (2 * k)) in * by lia. rewrite Nat.div2_succ_double in H. lia.
Qed.

Lemma write_pos_in_range : forall (odd : bool) (A : list Z) n, (n < Nat.div2 (length A))%nat ->
  ((if odd then 2 * n + 1 else 2 * n) < length A)%nat /\ 2 <= Z.of_nat (length A).
Proof. intros odd A n H. apply div2_lt in H. destruct odd; lia. Qed.
