(* Lemmas about Model/LevelChoices.v (encoder/pictures.py decide_extended_transform_flag,
   make_extended_transform_parameters) and their composition with the sequence-header
   enumeration (Proofs/SeqHeaderProofs.v) for single-column level tables. *)
From Coq Require Import ZArith List Bool Lia.
From VC2 Require Import Base.PyZ Gen.Version Model.SeqHeader Model.LevelChoices Proofs.SeqHeaderProofs.
Import ListNotations.
Open Scope Z_scope.

(* the flags the encoder could use to express the requirement *)
Definition usable (required f : bool) : Prop := required = true -> f = true.
(* the level's answer, including the bodge: an EMPTY entry is read as {False} *)
Definition permitted_or_bodge (permitted : Z -> bool) (is_empty : bool) (f : bool) : Prop :=
  permitted (bz f) = true \/ (is_empty = true /\ f = false).

Lemma flag_choice_sound : forall permitted is_empty required f,
  decide_extended_transform_flag permitted is_empty required = Some f ->
  permitted_or_bodge permitted is_empty f /\ usable required f.
Proof.
  unfold decide_extended_transform_flag, permitted_or_bodge, usable.
  intros permitted is_empty required f H.
  destruct required; cbn [find] in H.
  - destruct (permitted (bz true) || is_empty && negb true) eqn:E; [|discriminate].
    inversion H; subst. split; [|auto]. apply orb_true_iff in E. destruct E as [E|E]; [left; exact E|].
    apply andb_true_iff in E. destruct E as [_ E]. discriminate.
  - destruct (permitted (bz false) || is_empty && negb false) eqn:E.
    + inversion H; subst. split; [|discriminate]. apply orb_true_iff in E.
      destruct E as [E|E]; [left; exact E|]. right. apply andb_true_iff in E. tauto.
    + destruct (permitted (bz true) || is_empty && negb true) eqn:E2; [|discriminate].
      inversion H; subst. split; [|discriminate]. apply orb_true_iff in E2.
      destruct E2 as [E2|E2]; [left; exact E2|]. apply andb_true_iff in E2. destruct E2 as [_ E2]. discriminate.
Qed.

(* the error is raised exactly when NO usable flag is permitted *)
Lemma flag_choice_none_iff : forall permitted is_empty required,
  decide_extended_transform_flag permitted is_empty required = None <->
  (forall f, usable required f -> ~ permitted_or_bodge permitted is_empty f).
Proof.
  unfold decide_extended_transform_flag, permitted_or_bodge, usable.
  intros permitted is_empty required. cbn [bz].
  destruct (permitted 1) eqn:P1, (permitted 0) eqn:P0, is_empty, required; cbn [find bz negb andb orb];
    rewrite ?P1, ?P0; cbn [find bz negb andb orb]; split; intros H;
    try discriminate; try reflexivity;
    try (intros f Hu [Hp|[He Hf]]; destruct f; cbn [bz] in *;
         try (specialize (Hu eq_refl)); congruence);
    exfalso;
    first [ apply (H true); [intros _; reflexivity | cbn [bz]; auto; fail]
          | apply (H false); [intros X; discriminate X | cbn [bz]; auto; fail] ].
Qed.

(* "preferring False" *)
Lemma flag_choice_prefers_false : forall permitted is_empty,
  permitted 0 = true \/ is_empty = true ->
  decide_extended_transform_flag permitted is_empty false = Some false.
Proof.
  intros permitted is_empty [H|H]; unfold decide_extended_transform_flag; cbn [find bz negb];
    rewrite H; cbn; try rewrite orb_true_r; reflexivity.
Qed.

(* allowed_values_for on a single-column table whose column admits the constrained values *)
Lemma allowed_for_single : forall c cv k v,
  col_admits c cv = true -> allowed_for [c] cv k v = c k v.
Proof.
  intros c cv k v H. unfold allowed_for, filter_table. cbn [filter]. rewrite H. cbn [existsb].
  apply orb_false_r.
Qed.

Lemma allowed_for_in : forall tbl cv k v,
  allowed_for tbl cv k v = true -> exists c, In c tbl /\ col_admits c cv = true /\ c k v = true.
Proof.
  intros tbl cv k v H. unfold allowed_for in H. apply existsb_exists in H.
  destruct H as [c [Hc Hv]]. unfold filter_table in Hc. apply filter_In in Hc. exists c. tauto.
Qed.

(* make_extended_transform_parameters: the coded parameters describe exactly the configured
   transform, and (no empty-entry bodge in play) every coded (key, value) is permitted *)
Lemma etp_encodes_transform : forall pi ei pa ea pw pd wi wiho dh e,
  make_extended_transform_parameters pi ei pa ea pw pd wi wiho dh = Some e ->
  decoded_wavelet_index_ho wi e = wiho /\ decoded_dwt_depth_ho e = dh.
Proof.
  unfold make_extended_transform_parameters. intros pi ei pa ea pw pd wi wiho dh e H.
  destruct (decide_extended_transform_flag pi ei (negb (wi =? wiho))) as [fi|] eqn:E1; [|discriminate].
  destruct (fi && negb (pw wiho)); [discriminate|].
  destruct (decide_extended_transform_flag pa ea (negb (dh =? 0))) as [fa|] eqn:E2; [|discriminate].
  destruct (fa && negb (pd dh)); [discriminate|]. inversion H; subst. clear H.
  apply flag_choice_sound in E1. apply flag_choice_sound in E2.
  destruct E1 as [_ U1]. destruct E2 as [_ U2]. unfold usable in *.
  unfold decoded_wavelet_index_ho, decoded_dwt_depth_ho. cbn.
  split.
  - destruct fi; auto. destruct (wi =? wiho) eqn:E; [apply Z.eqb_eq; exact E|].
    specialize (U1 eq_refl). discriminate.
  - destruct fa; auto. destruct (dh =? 0) eqn:E; [symmetry; apply Z.eqb_eq; exact E|].
    specialize (U2 eq_refl). discriminate.
Qed.

Lemma etp_coded_permitted : forall pi pa pw pd wi wiho dh e,
  make_extended_transform_parameters pi false pa false pw pd wi wiho dh = Some e ->
  pi (bz (etp_index_flag e)) = true /\ pa (bz (etp_flag e)) = true
  /\ (forall w, etp_wavelet_index_ho e = Some w -> pw w = true)
  /\ (forall d, etp_dwt_depth_ho e = Some d -> pd d = true).
Proof.
  unfold make_extended_transform_parameters. intros pi pa pw pd wi wiho dh e H.
  destruct (decide_extended_transform_flag pi false (negb (wi =? wiho))) as [fi|] eqn:E1; [|discriminate].
  destruct (fi && negb (pw wiho)) eqn:Ew; [discriminate|].
  destruct (decide_extended_transform_flag pa false (negb (dh =? 0))) as [fa|] eqn:E2; [|discriminate].
  destruct (fa && negb (pd dh)) eqn:Ed; [discriminate|]. inversion H; subst. clear H. cbn.
  apply flag_choice_sound in E1. apply flag_choice_sound in E2.
  destruct E1 as [[P1|[X _]] _]; [|discriminate]. destruct E2 as [[P2|[X _]] _]; [|discriminate].
  repeat split; auto.
  - intros w Hw. destruct fi; [|discriminate]. inversion Hw; subst.
    cbn in Ew. destruct (pw w); auto; discriminate.
  - intros d Hd. destruct fa; [|discriminate]. inversion Hd; subst.
    cbn in Ed. destruct (pd d); auto; discriminate.
Qed.

(* single-column level table: the extended transform parameters the encoder codes are admitted
   by THE column *)
Lemma etp_respects_single_column : forall c cv wi wiho dh e,
  col_admits c cv = true ->
  make_extended_transform_parameters
    (allowed_for [c] cv K_asym_transform_index_flag) false
    (allowed_for [c] cv K_asym_transform_flag) false
    (allowed_for [c] cv K_wavelet_index_ho) (allowed_for [c] cv K_dwt_depth_ho) wi wiho dh = Some e ->
  admitted c (coded_etp e).
Proof.
  intros c cv wi wiho dh e Hadm H. apply etp_coded_permitted in H.
  destruct H as [Hi [Ha [Hw Hd]]]. rewrite allowed_for_single in Hi, Ha by exact Hadm.
  unfold coded_etp. constructor; [exact Hi|]. apply admitted_app.
  - destruct (etp_wavelet_index_ho e) as [w|]; [|constructor].
    constructor; [|constructor]. cbn [fst snd]. rewrite <- (allowed_for_single c cv) by exact Hadm. auto.
  - constructor; [exact Ha|]. destruct (etp_dwt_depth_ho e) as [d|]; [|constructor].
    constructor; [|constructor]. cbn [fst snd]. rewrite <- (allowed_for_single c cv) by exact Hadm. auto.
Qed.

(* all keys the encoder fixes from the configuration + the sequence header it chooses + the
   extended transform parameters, under a single-column table: admitted by the column *)
Theorem keys_respect_single_column : forall T c cf cands h wi wiho dh e,
  make_sequence_header T [c] cf cands = Some h ->
  make_extended_transform_parameters
    (allowed_for [c] (trivial_level_constraints cf) K_asym_transform_index_flag) false
    (allowed_for [c] (trivial_level_constraints cf) K_asym_transform_flag) false
    (allowed_for [c] (trivial_level_constraints cf) K_wavelet_index_ho)
    (allowed_for [c] (trivial_level_constraints cf) K_dwt_depth_ho) wi wiho dh = Some e ->
  admitted c (trivial_level_constraints cf ++ coded_keys h ++ coded_etp e).
Proof.
  intros T c cf cands h wi wiho dh e Hh He.
  apply make_sequence_header_in in Hh. apply options_respect_column in Hh.
  destruct Hh as [c' [Hin [Htriv Hcoded]]]. destruct Hin as [E|[]]. subst c'.
  apply admitted_app; [exact Htriv|]. apply admitted_app; [exact Hcoded|].
  eapply etp_respects_single_column; [|exact He].
  unfold col_admits. apply forallb_forall. intros p Hp.
  unfold admitted in Htriv. rewrite Forall_forall in Htriv. auto.
Qed.

(* the version autofill will write is at least what each used feature implies *)
Lemma zmax_list_ge : forall l x, In x l -> x <= zmax_list l.
Proof.
  induction l as [|y l IH]; intros x H; [destruct H|]. cbn [zmax_list fold_right].
  fold (zmax_list l). destruct H as [H|H]; [subst; lia|]. apply IH in H. lia.
Qed.
Lemma zmax_list_ge1 : forall l, 1 <= zmax_list l.
Proof. induction l; cbn [zmax_list fold_right]; [lia|]. fold (zmax_list l). lia. Qed.

Lemma autofill_version_bounds : forall fragments h wi e,
  (fragments = true -> 3 <= autofill_major_version fragments h wi e)
  /\ profile_version_implication (h_profile h) <= autofill_major_version fragments h wi e
  /\ 1 <= autofill_major_version fragments h wi e.
Proof.
  intros. unfold autofill_major_version. repeat split.
  - intros F. subst. apply zmax_list_ge. left. reflexivity.
  - eapply Z.le_trans; [|apply zmax_list_ge; right; left; reflexivity].
    unfold header_version. apply zmax_list_ge. left. reflexivity.
  - apply zmax_list_ge1.
Qed.
