(* Proofs about Model/SerDesStream.v (C06 at stream level): the C06 theorem lifted through the loop
   over data units (parse_sequence) and the loop over sequences (parse_stream).
   [dprog] pieces are run one after the other; each piece is a program of the class covered by
   C06_des_ser ([conv_ok]); the deserialiser-side invariant ([Fut], backwards) and the serialiser-side
   simulation ([Comp], forwards) of Proofs/SerDesDesSer.v compose piece by piece ([drun_des_inv],
   [drun_comp]); the stream loop's condition differs between the two interpreters and is handled in
   [stream_comp]: the deserialiser goes on iff the serialiser still has a sequence to write. *)
From Coq Require Import ZArith List Bool Lia.
From VC2 Require Import Base.PyZ Gen.StateRec Gen.ParseCodes Model.SerDes Model.SerDesVC2 Model.SerDesStream
  Proofs.SerDesBits Proofs.SerDesWf Proofs.SerDesSim Proofs.SerDesProofs Proofs.SerDesConverse Proofs.SerDesDesSer.
Import ListNotations.
Open Scope Z_scope.

(* ====================================================================== *)
Inductive dconv : dprog -> Prop :=
| dconv_done : dconv DDone
| dconv_fail : dconv DFail
| dconv_run A mk k : (forall off, conv_ok (mk off)) -> (forall a, dconv (k a)) -> dconv (DRun A mk k).

Lemma des_run_inv A (p : prog A) s a s' : conv_ok p -> dinv s -> wf s ->
  run des_step p s = Ok (a, s') -> dinv s' /\ wf s'.
Proof.
  intros Hp I W H. split.
  - eapply des_never_overwrites; [apply conv_prog_ok; exact Hp|exact I|exact W|exact H].
  - eapply (run_wf des_prim); [|apply conv_prog_ok; exact Hp|exact W|exact H].
    intros; eapply des_prim_wf; eauto.
Qed.

(* deserialiser side: invariants forwards, [Fut] backwards *)
Lemma drun_des_inv d : dconv d -> forall s s', dinv s -> wf s -> drun des_step d s = Ok s' ->
  dinv s' /\ wf s' /\ forall G, Fut s' G -> Fut s G.
Proof.
  induction 1 as [| |A mk k Hmk Hk IH]; intros s s' I W H; simpl in H.
  - inv H. auto.
  - discriminate.
  - apply rbind_ok in H. destruct H as ([a s1] & Hr & H).
    destruct (des_run_inv _ _ _ _ _ (Hmk _) I W Hr) as [I1 W1].
    destruct (IH a s1 s' I1 W1 H) as (I' & W' & HF). split; auto. split; auto.
    intros G HG. eapply des_run_Fut; [apply conv_prog_ok; apply Hmk|exact I|exact W|exact Hr|]. auto.
Qed.

(* serialiser side follows *)
Lemma drun_comp G D d : dconv d -> forall ss sd sdF,
  Comp G ss sd -> wf ss -> wf sd -> dinv sd ->
  drun des_step d sd = Ok sdF -> Fut sdF G ->
  exists ssF X, drun (ser_step D) d ss = Ok ssF /\ Comp G ssF sdF /\ wf ssF /\
                bits (sio sd) = X ++ bits (sio sdF) /\ bits (sio ssF) = bits (sio ss) ++ X.
Proof.
  induction 1 as [| |A mk k Hmk Hk IH]; intros ss sd sdF C Ws Wd I H HF; simpl in H.
  - inv H. exists ss, []. simpl. rewrite app_nil_r. auto.
  - discriminate.
  - apply rbind_ok in H. destruct H as ([a sd1] & Hr & H).
    destruct (des_run_inv _ _ _ _ _ (Hmk _) I Wd Hr) as [I1 Wd1].
    destruct (drun_des_inv _ (Hk a) _ _ I1 Wd1 H) as (_ & _ & HFb).
    destruct (comp_run G D A _ (Hmk _) _ _ _ _ C Ws Wd I Hr (HFb _ HF)) as (ss1 & X1 & H1 & C1 & B1 & B2).
    assert (Ws1 : wf ss1).
    { eapply (run_wf (ser_prim D)); [|apply conv_prog_ok; apply Hmk|exact Ws|exact H1].
      intros; eapply ser_prim_wf; eauto. }
    destruct (IH a ss1 sd1 sdF C1 Ws1 Wd1 I1 H HF) as (ssF & X2 & H2 & C2 & W2 & B3 & B4).
    exists ssF, (X1 ++ X2). simpl. rewrite (cp_pos _ _ _ C), H1. cbn [rbind]. split; [exact H2|].
    split; auto. split; auto. split.
    + rewrite B1, B3, app_assoc. reflexivity.
    + rewrite B4, B2, app_assoc. reflexivity.
Qed.

(* ---- the pieces of parse_sequence are in the covered class ---- *)
Lemma unit_open_ok : conv_ok unit_open.
Proof. unfold unit_open. apply conv_pseqs. repeat constructor; apply conv_pop; simpl; auto. Qed.

Lemma unit_info_ok off : conv_ok (unit_info off).
Proof.
  unfold unit_info.
  repeat (apply conv_op; [exact I | simpl; try exact I; try lia | simpl; auto | intros ?]).
  apply conv_ret.
Qed.

Lemma units_dconv body fuel k : (forall c n, conv_ok (body c n)) -> dconv k -> dconv (units body fuel k).
Proof.
  intros Hb Hk. induction fuel; simpl; constructor.
  - intros _. apply unit_open_ok.
  - intros _. constructor; [apply unit_info_ok|]. intros [c n]. simpl.
    destruct (code_end_of_sequence c).
    + constructor; [intros _; apply conv_pop; simpl; auto|auto].
    + constructor; [|auto]. intros _. apply conv_pseq; [apply Hb|apply conv_pop; simpl; auto].
Qed.

Definition sequence_tail (body : Z -> Z -> prog unit) (ufuel : nat) : dprog :=
  DRun unit (fun _ : Z => pseqs [pop (OSetType 41); pop (OComputed 202 (VI 0)); pop (ODeclList 201)])
    (fun _ : unit => units body ufuel (DRun unit (fun _ : Z => pop OSubLeave) (fun _ : unit => DDone))).

Lemma sequence_tail_dconv body ufuel : (forall c n, conv_ok (body c n)) -> dconv (sequence_tail body ufuel).
Proof.
  intros Hb. unfold sequence_tail. constructor.
  - intros _. apply conv_pseqs. repeat constructor; apply conv_pop; simpl; auto.
  - intros _. apply units_dconv; auto. constructor; [intros _; apply conv_pop; simpl; auto|]. intros _. constructor.
Qed.

Lemma sequence_iter_dconv body ufuel : (forall c n, conv_ok (body c n)) -> dconv (sequence_iter body ufuel).
Proof.
  intros Hb. unfold sequence_iter. constructor; [intros _; apply conv_pop; simpl; auto|]. intros _.
  apply (sequence_tail_dconv body ufuel Hb).
Qed.

(* ====================================================================== *)
(* when the deserialiser enters one more element of a list (or a fresh key), the serialiser -- which
   holds the final description -- still has that element to serialise *)
Lemma comp_enter_more G t ss sd sd1 :
  Comp G ss sd -> wf ss -> wf sd -> dinv sd ->
  subcontext_enter t sd = Ok sd1 -> Fut sd1 G ->
  is_target_complete t ss = Ok false.
Proof.
  intros C Ws Wd I Hs HF. pose proof (wf_nh _ Ws) as Nfs. pose proof (wf_nh _ Wd) as Nfd.
  destruct (cp_k _ _ _ C) as (tyP & TyP & HK).
  unfold subcontext_enter in Hs. apply rbind_ok in Hs. destruct Hs as ([[v lc] s1] & H1 & Hs).
  destruct (dinv_cur _ I t) as [I1 I2]. apply setdefault_spec in H1.
  destruct H1 as [(E & -> & _) | (i & l & E & F & -> & [(-> & -> & ->) | (N & _)])].
  - unfold is_target_complete. rewrite (cp_ix _ _ _ C), E. reflexivity.
  - inv Hs. destruct HF as (gc & _ & HD). simpl in HD. destruct HD as (ty & g' & Hg' & HD).
    assert (Nl : Forall nohole l) by (apply nohole_VL; exact (nohole_f_lookup _ _ _ Nfd F)).
    rewrite alookup_aupd_same, aupd_aupd, list_set_app_last, plug_aupd, plug_nohole in Hg' by auto.
    cbn [plug1] in Hg'. rewrite map_app, map_hole_id in Hg' by auto. cbn [map] in Hg'.
    assert (PL : FutC (aupd t (Nxt (S (length l))) (c_ix sd)) (aupd t (VL (l ++ [VC ty gc])) (c_f sd)) (c_f ss)).
    { eapply FutC_lookup_eq; [|exact Hg']. intros t'. symmetry.
      eapply link; eauto. apply (wf_stk _ Ws). apply (wf_stk _ Wd). }
    pose proof (PL t) as Pt. rewrite !alookup_aupd_same in Pt. destruct Pt as (l0 & more & P1 & P2). inv P1.
    unfold is_target_complete, target_complete. rewrite (cp_ix _ _ _ C), E, P2.
    replace (Nat.eqb (length l) (length ((l ++ [VC ty gc]) ++ more))) with false
      by (symmetry; apply Nat.eqb_neq; rewrite !app_length; simpl; lia).
    reflexivity.
  - destruct (I2 _ E) as (l0 & F0 & Hlen). rewrite F in F0. inv F0.
    assert (length l0 < length l0)%nat by (apply nth_error_Some; congruence). lia.
Qed.

Section StreamLevel.
Variable body : Z -> Z -> prog unit.
Hypothesis body_ok : forall c n, conv_ok (body c n).
Variable ufuel : nat.

(* deserialiser side of the stream loop *)
Lemma stream_des_inv fuel : forall s sF, dinv s -> wf s ->
  stream_loop des_step des_more body ufuel fuel s = Ok sF ->
  dinv sF /\ wf sF /\ (forall G, Fut sF G -> Fut s G) /\
  bits (sio sF) = [] /\ is_target_complete 200 sF = Ok true.
Proof.
  induction fuel as [|f IH]; intros s sF I W H; simpl in H; [discriminate|].
  apply rbind_ok in H. destruct H as (b & Hb & H). destruct b.
  - apply rbind_ok in H. destruct H as (s1 & Hd & H).
    destruct (drun_des_inv _ (sequence_iter_dconv body ufuel body_ok) _ _ I W Hd) as (I1 & W1 & HF1).
    destruct (IH _ _ I1 W1 H) as (IF & WF & HF & B & T). split; [auto|]. split; [auto|]. split; [auto|]. split; auto.
  - inv H. unfold des_more in Hb. destruct (bits (sio sF)) eqn:Eb; [|discriminate].
    apply rbind_ok in Hb. destruct Hb as (b & Hc & Hb). inv Hb. destruct b; [|discriminate].
    split; [auto|]. split; [auto|]. split; [auto|]. split; auto.
Qed.

Lemma itc_same t ss sd : c_ix ss = c_ix sd -> c_f ss = c_f sd ->
  is_target_complete t ss = is_target_complete t sd.
Proof. intros E1 E2. unfold is_target_complete. rewrite E1, E2. reflexivity. Qed.

(* serialiser side *)
Lemma stream_comp G D fuel : forall ss sd sdF,
  Comp G ss sd -> wf ss -> wf sd -> dinv sd ->
  stk sdF = [] -> G = root sdF ->
  stream_loop des_step des_more body ufuel fuel sd = Ok sdF ->
  exists ssF X, stream_loop (ser_step D) ser_more body ufuel fuel ss = Ok ssF /\ Comp G ssF sdF /\
                bits (sio sd) = X ++ bits (sio sdF) /\ bits (sio ssF) = bits (sio ss) ++ X.
Proof.
  induction fuel as [|f IH]; intros ss sd sdF C Ws Wd I Es EG H; simpl in H; [discriminate|].
  apply rbind_ok in H. destruct H as (b & Hb & H). destruct b.
  - apply rbind_ok in H. destruct H as (sd1 & Hd & H).
    pose proof (sequence_iter_dconv body ufuel body_ok) as Hdc.
    destruct (drun_des_inv _ Hdc _ _ I Wd Hd) as (I1 & Wd1 & _).
    destruct (stream_des_inv _ _ _ I1 Wd1 H) as (IF & WF & HFb & _ & _).
    assert (HGF : Fut sdF G) by (subst G; apply Fut_final; auto).
    assert (HF1 : Fut sd1 G) by auto.
    (* the serialiser has one more sequence to write *)
    assert (Hmore : ser_more ss = Ok true).
    { unfold sequence_iter in Hd. simpl in Hd. apply rbind_ok in Hd. destruct Hd as ([u sde] & He & Hd).
      apply rbind_ok in He. destruct He as ([u' sde'] & He & He'). simpl in He'. injection He' as Eu Esde. subst sde'.
      unfold des_step in He. simpl in He. apply unitst_ok in He.
      assert (Ie : dinv sde /\ wf sde).
      { split; [exact (proj1 (enter_ext _ _ _ I Wd He)) | exact (proj1 (subcontext_enter_wf _ _ _ Wd He))]. }
      destruct Ie as [Ie We].
      pose proof (sequence_tail_dconv body ufuel body_ok) as Hdk. unfold sequence_tail in Hdk.
      destruct (drun_des_inv _ Hdk _ _ Ie We Hd) as (_ & _ & HFe).
      unfold ser_more. rewrite (comp_enter_more G 200 ss sd sde C Ws Wd I He (HFe _ HF1)). reflexivity. }
    destruct (drun_comp G D _ Hdc _ _ _ C Ws Wd I Hd HF1) as (ss1 & X1 & H1 & C1 & Ws1 & B1 & B2).
    destruct (IH _ _ _ C1 Ws1 Wd1 I1 Es EG H) as (ssF & X2 & H2 & C2 & B3 & B4).
    exists ssF, (X1 ++ X2). cbn [stream_loop]. rewrite Hmore. cbn [rbind]. rewrite H1. cbn [rbind]. split; [exact H2|].
    split; auto. split.
    + rewrite B1, B3, app_assoc. reflexivity.
    + rewrite B4, B2, app_assoc. reflexivity.
  - inv H. unfold des_more in Hb. destruct (bits (sio sdF)) eqn:Eb; [|discriminate].
    apply rbind_ok in Hb. destruct Hb as (b & Hc & Hb). inv Hb. destruct b; [|discriminate].
    destruct (cp_k _ _ _ C) as (ty & Ty & HK). rewrite Es in HK.
    destruct (stk ss) eqn:Ess; simpl in HK; [|contradiction].
    unfold root in HK. rewrite Es in HK. simpl in HK. injection HK as Ety Ef.
    exists ss, []. cbn [stream_loop]. unfold ser_more.
    rewrite (itc_same 200 ss sdF (cp_ix _ _ _ C) (eq_sym Ef)), Hc. simpl. rewrite app_nil_r. auto.
Qed.

Lemma stream_head_ok : conv_ok stream_head.
Proof. unfold stream_head. apply conv_pseqs. repeat constructor; apply conv_pop; simpl; auto. Qed.

(* C06 at stream level *)
Theorem stream_des_ser D fuel bs sdF :
  stream_des body ufuel fuel bs = Ok sdF -> verify_complete sdF = Ok tt ->
  exists ssF,
    stream_ser D body ufuel fuel (c_ty sdF) (c_f sdF) = Ok ssF /\
    bits (sio ssF) = bs /\
    verify_complete ssF = Ok tt /\
    root ssF = root sdF /\
    stream_des body ufuel fuel (bits (sio ssF)) = Ok sdF.
Proof.
  intros Hr Hv. pose proof Hr as Hr0. unfold stream_des in Hr. apply rbind_ok in Hr. destruct Hr as ([u s0] & Hh & Hl).
  assert (Es : stk sdF = []).
  { unfold verify_complete in Hv. apply rbind_ok in Hv. destruct Hv as (u' & _ & Hv).
    destruct (stk sdF); [reflexivity|discriminate]. }
  destruct (des_run_inv _ _ _ _ _ stream_head_ok (init_dinv bs) (init_wf 0 [] bs I) Hh) as [I0 W0].
  destruct (stream_des_inv _ _ _ I0 W0 Hl) as (IF & WF & HFb & Bnil & _).
  set (G := root sdF).
  assert (HGF : Fut sdF G) by (apply Fut_final; auto).
  assert (C0 : Comp G (init_st (c_ty sdF) (c_f sdF) []) (init_st 0 [] bs)).
  { constructor; simpl; auto. apply FutC_nil. exists (c_ty sdF). split; auto.
    subst G. unfold root. rewrite Es. reflexivity. }
  assert (Wi : wf (init_st (c_ty sdF) (c_f sdF) [])).
  { apply init_wf. apply nohole_VC. apply (wf_nh _ WF). }
  destruct (comp_run G D unit stream_head stream_head_ok _ _ _ _ C0 Wi (init_wf 0 [] bs I) (init_dinv bs) Hh (HFb _ HGF))
    as (ss0 & X0 & H0 & Cc & B1 & B2).
  assert (Ws0 : wf ss0).
  { eapply (run_wf (ser_prim D)); [|apply conv_prog_ok; apply stream_head_ok|exact Wi|exact H0].
    intros; eapply ser_prim_wf; eauto. }
  destruct (stream_comp G D fuel _ _ _ Cc Ws0 W0 I0 Es eq_refl Hl) as (ssF & X1 & H1 & C & B3 & B4).
  assert (Ebits : bits (sio ssF) = bs).
  { simpl in B1, B2. rewrite B4, B2, B1, B3, Bnil, app_nil_r. reflexivity. }
  exists ssF. split. { unfold stream_ser. rewrite H0. cbn [rbind]. exact H1. }
  split; [exact Ebits|].
  destruct (cp_k _ _ _ C) as (ty & Ty & HK). rewrite Es in HK.
  destruct (stk ssF) eqn:Ess; simpl in HK; [|contradiction].
  subst G. unfold root in HK. rewrite Es in HK. simpl in HK. injection HK as Ety Ef. subst ty.
  assert (Tys : c_ty ssF = c_ty sdF) by (destruct Ty; auto).
  split; [|split].
  - unfold verify_complete, verify_ctx in *. rewrite Ess, (cp_ix _ _ _ C), <- Ef, (cp_rem _ _ _ C). rewrite Es in Hv. exact Hv.
  - unfold root. rewrite Ess, Es. simpl. rewrite Tys, <- Ef. reflexivity.
  - rewrite Ebits. exact Hr0.
Qed.
End StreamLevel.

(* ====================================================================== *)
(* the parse-code tests of the model are the translated pseudocode functions *)
Lemma code_tests_are_translated (s : pystate) (c : Z) :
  let s' := set_st_parse_code s c in
  code_seq_header c = is_seq_header s' /\ code_end_of_sequence c = is_end_of_sequence s' /\
  code_auxiliary_data c = is_auxiliary_data s' /\ code_padding_data c = is_padding_data s' /\
  code_picture c = is_picture s' /\ code_fragment c = is_fragment s'.
Proof. repeat split; reflexivity. Qed.

Lemma pad_body_ok t ty npo : conv_ok (pad_body t ty npo).
Proof. unfold pad_body. apply conv_psub. apply conv_pop; simpl; auto. lia. Qed.

Lemma vc2_body_ok pic frag : (forall c, conv_ok (pic c)) -> (forall c, conv_ok (frag c)) ->
  forall c n, conv_ok (vc2_body pic frag c n).
Proof.
  intros Hp Hf c n. unfold vc2_body.
  destruct (code_seq_header c).
  { apply conv_op; [exact I|exact I|exact I|intros _].
    apply conv_pseq; [apply sequence_header_prog_ok|apply conv_pop; simpl; auto]. }
  destruct (code_picture c); auto. destruct (code_fragment c); auto.
  destruct (code_auxiliary_data c); [apply pad_body_ok|].
  destruct (code_padding_data c); [apply pad_body_ok|]. constructor.
Qed.

(* parse_stream of vc2.py, with any picture / fragment descriptions of the covered class *)
Theorem vc2_stream_des_ser pic frag D ufuel fuel bs sdF :
  (forall c, conv_ok (pic c)) -> (forall c, conv_ok (frag c)) ->
  stream_des (vc2_body pic frag) ufuel fuel bs = Ok sdF -> verify_complete sdF = Ok tt ->
  exists ssF,
    stream_ser D (vc2_body pic frag) ufuel fuel (c_ty sdF) (c_f sdF) = Ok ssF /\
    bits (sio ssF) = bs /\
    verify_complete ssF = Ok tt /\
    root ssF = root sdF /\
    stream_des (vc2_body pic frag) ufuel fuel (bits (sio ssF)) = Ok sdF.
Proof.
  intros Hp Hf. apply stream_des_ser. apply vc2_body_ok; auto.
Qed.

(* a concrete stream: padding unit with next_parse_offset 5, auxiliary data with 2 bytes, end of
   sequence; second sequence: sequence header (all defaults), end of sequence *)
Definition ex_stream : list Z :=
  [66;66;67;68; 48; 0;0;0;5; 0;0;0;0] ++
  [66;66;67;68; 32; 0;0;0;15; 0;0;0;13; 7; 9] ++
  [66;66;67;68; 16; 0;0;0;0; 0;0;0;15] ++
  [66;66;67;68; 0; 0;0;0;15; 0;0;0;0; 248; 4] ++
  [66;66;67;68; 16; 0;0;0;0; 0;0;0;15].
Definition ex_body := vc2_body (fun _ => Ret tt) (fun _ => Ret tt).
Definition ex_stream_check : bool :=
  match stream_des ex_body 10 10 (bytes_bits ex_stream) with
  | Ok s => is_ok_tt (verify_complete s) &&
            match alookup 200 (c_f s) with Some (VL [_; _]) => true | _ => false end
  | Err _ => false
  end.
Lemma ex_stream_check_true : ex_stream_check = true.
Proof. vm_compute. reflexivity. Qed.

