(* Proofs about Model/SerDes.v, part 4: missing/unused values, context types, no overwriting (C21). *)
From Coq Require Import ZArith List Bool Lia.
From VC2 Require Import Model.SerDes Proofs.SerDesBits Proofs.SerDesWf Proofs.SerDesSim.
Import ListNotations.
Open Scope Z_scope.

(* ====================================================================== *)
(* ---- missing values ---- *)
Lemma missing_key_fails D k t s :
  alookup t (c_ix s) = None -> alookup t (c_f s) = None -> dlookup D (c_ty s) t = None ->
  ser_prim D k t s = Err EKey.
Proof. intros E F Dl. unfold ser_prim, ser_get. rewrite E, F, Dl. reflexivity. Qed.

Lemma exhausted_list_fails D k t s i l :
  alookup t (c_ix s) = Some (Nxt i) -> alookup t (c_f s) = Some (VL l) -> (length l <= i)%nat ->
  dlookup D (c_ty s) t = None ->
  ser_prim D k t s = Err EExhausted.
Proof.
  intros E F Hl Dl. unfold ser_prim, ser_get. rewrite E, F, Dl.
  destruct (nth_error l i) eqn:N; [|reflexivity].
  assert (i < length l)%nat by (apply nth_error_Some; congruence). lia.
Qed.

Lemma missing_key_default D k t s d :
  alookup t (c_ix s) = None -> alookup t (c_f s) = None -> dlookup D (c_ty s) t = Some d ->
  ser_prim D k t s =
    rbind (write_val k d (sio s)) (fun w => Ok (d, set_io (set_ix s (aupd t Used (c_ix s))) w)).
Proof. intros E F Dl. unfold ser_prim, ser_get. rewrite E, F, Dl. reflexivity. Qed.

Lemma exhausted_list_default D k t s i l d :
  alookup t (c_ix s) = Some (Nxt i) -> alookup t (c_f s) = Some (VL l) -> (length l <= i)%nat ->
  dlookup D (c_ty s) t = Some d ->
  ser_prim D k t s = rbind (write_val k d (sio s)) (fun w => Ok (d, set_io s w)).
Proof.
  intros E F Hl Dl. unfold ser_prim, ser_get. rewrite E, F, Dl.
  destruct (nth_error l i) eqn:N; [|reflexivity].
  assert (i < length l)%nat by (apply nth_error_Some; congruence). lia.
Qed.

(* the value primitive of an operation *)
Definition op_prim (o : op) : option (kind * Z) :=
  match o with
  | OBool t => Some (KBool, t) | ONBits t n => Some (KNBits n, t) | OUintLit t n => Some (KUintLit n, t)
  | OBitArr t n => Some (KBitArr n, t) | OBytes t n => Some (KBytes n, t)
  | OUint t => Some (KUint, t) | OSint t => Some (KSint, t)
  | _ => None
  end.

Lemma step_prim_err prim o k t s e : op_prim o = Some (k, t) -> prim k t s = Err e -> step prim o s = Err e.
Proof. destruct o; simpl; intros H; inv H; auto. Qed.

(* a program whose next operation needs a value that is absent (and has no default) fails *)
Theorem missing_value_fails D A o (kont : result o -> prog A) k t s :
  op_prim o = Some (k, t) -> dlookup D (c_ty s) t = None ->
  (alookup t (c_ix s) = None -> alookup t (c_f s) = None ->
     run (ser_step D) (Op o kont) s = Err EKey) /\
  (forall i l, alookup t (c_ix s) = Some (Nxt i) -> alookup t (c_f s) = Some (VL l) -> (length l <= i)%nat ->
     run (ser_step D) (Op o kont) s = Err EExhausted).
Proof.
  intros Hp Dl. split.
  - intros E F. simpl. unfold ser_step.
    rewrite (step_prim_err _ _ _ _ _ _ Hp (missing_key_fails D k t s E F Dl)). reflexivity.
  - intros i l E F Hl. simpl. unfold ser_step.
    rewrite (step_prim_err _ _ _ _ _ _ Hp (exhausted_list_fails D k t s i l E F Hl Dl)). reflexivity.
Qed.

(* ---- unused values ---- *)
Lemma verify_keys_class ixs f ks : lists_ok f ixs ->
  verify_keys ixs f ks = Ok tt \/ verify_keys ixs f ks = Err EUnused.
Proof.
  intros L. induction ks as [|k ks IH]; simpl; auto.
  destruct (alookup k f) eqn:F; auto.
  unfold target_complete. destruct (alookup k ixs) as [[|i]|] eqn:E; simpl; auto.
  destruct (L _ _ E) as (l & F' & _). rewrite F in F'. inv F'. simpl.
  destruct (Nat.eqb i (length l)); auto.
Qed.

Definition unused_in (s : st) : Prop :=
  exists t v, alookup t (c_f s) = Some v /\
    (alookup t (c_ix s) = None \/
     exists i l, alookup t (c_ix s) = Some (Nxt i) /\ v = VL l /\ i <> length l).

Lemma unused_verify_ctx s : wf s -> unused_in s -> verify_ctx s = Err EUnused.
Proof.
  intros W (t & v & F & U). unfold verify_ctx, verify_fields.
  destruct (verify_keys_class (c_ix s) (c_f s) (map fst (c_f s)) (wf_lists _ W)) as [H|H]; auto.
  exfalso. pose proof (verify_fields_ok _ _ H t v F) as C. unfold target_complete in C.
  destruct U as [E | (i & l & E & -> & N)]; rewrite E in C; [discriminate|].
  inv C. apply Nat.eqb_eq in H1. contradiction.
Qed.

(* a value that no operation consumed (or a list not consumed to its end), in the dictionary being
   closed, makes the serialiser fail with UnusedTargetError: at subcontext_leave and at
   verify_complete *)
Lemma unused_fails_leave s : wf s -> unused_in s -> subcontext_leave s = Err EUnused.
Proof. intros W U. unfold subcontext_leave. rewrite (unused_verify_ctx s W U). reflexivity. Qed.
Lemma unused_fails_complete s : wf s -> unused_in s -> verify_complete s = Err EUnused.
Proof. intros W U. unfold verify_complete. rewrite (unused_verify_ctx s W U). reflexivity. Qed.

(* every state a run reaches is well formed *)
Inductive prog_ok {A} : prog A -> Prop :=
| prog_ok_ret a : prog_ok (Ret a)
| prog_ok_op o k : op_ok o -> (forall r, prog_ok (k r)) -> prog_ok (Op o k).

Lemma run_wf prim A (p : prog A) :
  (forall k t s v s', wf s -> prim k t s = Ok (v, s') -> wf s') ->
  prog_ok p -> forall s a s', wf s -> run (step prim) p s = Ok (a, s') -> wf s'.
Proof.
  intros P. induction 1 as [a0 | o k Hok Hk IH]; intros s a s' W H; simpl in H.
  - inv H. auto.
  - apply rbind_ok in H. destruct H as ([r s1] & Hs & Hr).
    eapply IH; [|exact Hr]. eapply step_wf; eauto.
Qed.

Theorem unused_value_fails D A (p : prog A) ty f a s :
  prog_ok p -> nohole (VC ty f) -> run_ser D p ty f = Ok (a, s) -> unused_in s ->
  verify_complete s = Err EUnused.
Proof.
  intros Hp Hn Hr U. apply unused_fails_complete; auto.
  eapply (run_wf (ser_prim D)); [|exact Hp|apply init_wf; exact Hn|exact Hr].
  intros; eapply ser_prim_wf; eauto.
Qed.

(* ---- context type changes ---- *)
Definition root_with (stack : list frame) (v : val) : val :=
  fold_left (fun v fr => VC (fr_ty fr) (plug v (fr_f fr))) stack v.

Lemma root_root_with s : root s = root_with (stk s) (VC (c_ty s) (c_f s)).
Proof. reflexivity. Qed.

(* after set_context_type: no failure; the enclosing dictionaries are unchanged and still reference
   the current dictionary in the slot their index bookkeeping designates (so the freshly created,
   retyped dictionary has been patched in and no reference to the old object remains); hence the
   root description is the old root with the current dictionary retyped in place *)
Theorem set_type_consistent prim ty s u s' : wf s ->
  step prim (OSetType ty) s = Ok (u, s') ->
  c_ty s' = ty /\ c_f s' = c_f s /\ stk s' = stk s /\ wf s' /\
  root s' = root_with (stk s) (VC ty (c_f s)).
Proof.
  intros W H. simpl in H. apply unitst_ok in H. rewrite set_context_type_wf in H by auto. inv H.
  simpl. split; auto. split; auto. split; auto. split; auto.
  destruct W as [A B C]. constructor; auto.
Qed.


(* ---- corollaries / packaging for Props/C21.v ---- *)
Lemma set_value_reused : forall t v s,
  alookup t (c_ix s) = Some Used -> set_value t v s = Err EReused.
Proof. intros t v s H. unfold set_value. rewrite H. reflexivity. Qed.

(* the deserialiser is given the flushed byte stream *)
Corollary roundtrip_flushed D A (p : prog A) ty f a ss' :
  sym p -> nohole (VC ty f) ->
  run_ser D p ty f = Ok (a, ss') -> verify_complete ss' = Ok tt ->
  exists sd',
    run_des p (flush_bits (bits (sio ss'))) = Ok (a, sd') /\
    pos (sio sd') = pos (sio ss') /\
    verify_complete sd' = Ok tt /\
    vle D (root ss') (root sd').
Proof.
  intros Hs Hn Hr Hv. unfold flush_bits.
  destruct (roundtrip D A p ty f a ss' Hs Hn Hr Hv (repeat false (Z.to_nat ((- zlen (bits (sio ss'))) mod 8))))
    as (sd' & H1 & _ & H3 & H4 & H5).
  exists sd'. auto.
Qed.

(* a concrete program: typed subcontext holding a list, a default inside the list, a bounded block
   with trailing padding, byte alignment, a computed value, data-dependent control flow *)
Definition ex_prog : prog unit :=
  Op (OSetType 1) (fun _ =>
  Op (ONBits 0 3) (fun n =>
  Op (OSubEnter 1) (fun _ =>
  Op (OSetType 2) (fun _ =>
  Op (ODeclList 2) (fun _ =>
  Op (OUint 2) (fun _ =>
  Op (OUint 2) (fun _ =>
  Op (OComputed 3 (VI (match n with VI z => z + 1 | _ => 0 end))) (fun _ =>
  Op OSubLeave (fun _ =>
  Op (OBBegin 5) (fun _ =>
  Op (OSint 4) (fun _ =>
  Op (OBEnd 5) (fun _ =>
  Op (OByteAlign 6) (fun _ =>
  (match n with
   | VI 2 => Op (OBitArr 7 4) (fun _ => Ret tt)
   | _ => Ret tt
   end)))))))))))))).

Definition ex_fields : fields :=
  [(0, VI 2); (1, VC 0 [(2, VL [VI 9])]); (4, VI (-1)); (5, VBits []); (6, VBits [true; false; true]); (7, VBits [true])].
Definition ex_defaults : defaults := [(2, [(2, VI 4)])].

Lemma ex_prog_sym : sym ex_prog.
Proof.
  unfold ex_prog.
  repeat (apply sym_op; [exact I | simpl; auto | intros ? | simpl; intros; subst; auto]).
  destruct r0 as [z| | | | | |]; try apply sym_ret.
  destruct z as [|[[|[]|]|[|[]|]|]|]; try apply sym_ret.
  apply sym_op; [exact I | simpl; auto | intros; apply sym_ret | intros; reflexivity].
Qed.
