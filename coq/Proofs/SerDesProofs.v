(* Proofs about Model/SerDes.v (properties C21, C06). *)
From Coq Require Import ZArith List Bool Lia.
From VC2 Require Import Model.SerDes.
Import ListNotations.
Open Scope Z_scope.

(* a second write to a plain (non-list) target is refused *)
Lemma set_value_reused : forall t v s,
  alookup t (c_ix s) = Some Used -> set_value t v s = Err EReused.
Proof. intros t v s H. unfold set_value. rewrite H. reflexivity. Qed.
