(* Proofs about Model/SerDes.v, part 4: missing/unused values, context types, no overwriting (C21). *)
From Coq Require Import ZArith List Bool Lia.
From VC2 Require Import Model.SerDes Proofs.SerDesBits Proofs.SerDesWf Proofs.SerDesSim.
Import ListNotations.
Open Scope Z_scope.

(* ====================================================================== *)
(* ---- missing values ---- *)
Lemma missing_key_fails D k t s :
  alookup t (c_ix s) = None -> alookup t (c_f s) = None -> dlookup D (c_ty s) t = None ->
  ser_prim D k t s = Err EKey.
Proof. intros E F Dl. unfold ser_prim, ser_get. rewrite E, F, Dl. reflexivity. Qed.

Lemma exhausted_list_fails D k t s i l :
  alookup t (c_ix s) = Some (Nxt i) -> alookup t (c_f s) = Some (VL l) -> (length l <= i)%nat ->
  dlookup D (c_ty s) t = None ->
  ser_prim D k t s = Err EExhausted.
Proof.
  intros E F Hl Dl. unfold ser_prim, ser_get. rewrite E, F, Dl.
  destruct (nth_error l i) eqn:N; [|reflexivity].
  assert (i < length l)%nat by (apply nth_error_Some; congruence). lia.
Qed.

Lemma missing_key_default D k t s d :
  alookup t (c_ix s) = None -> alookup t (c_f s) = None -> dlookup D (c_ty s) t = Some d ->
  ser_prim D k t s =
    rbind (write_val k d (sio s)) (fun w => Ok (d, set_io (set_ix s (aupd t Used (c_ix s))) w)).
Proof. intros E F Dl. unfold ser_prim, ser_get. rewrite E, F, Dl. reflexivity. Qed.

Lemma exhausted_list_default D k t s i l d :
  alookup t (c_ix s) = Some (Nxt i) -> alookup t (c_f s) = Some (VL l) -> (length l <= i)%nat ->
  dlookup D (c_ty s) t = Some d ->
  ser_prim D k t s = rbind (write_val k d (sio s)) (fun w => Ok (d, set_io s w)).
Proof.
  intros E F Hl Dl. unfold ser_prim, ser_get. rewrite E, F, Dl.
  destruct (nth_error l i) eqn:N; [|reflexivity].
  assert (i < length l)%nat by (apply nth_error_Some; congruence). lia.
Qed.

(* the value primitive of an operation *)
Definition op_prim (o : op) : option (kind * Z) :=
  match o with
  | OBool t => Some (KBool, t) | ONBits t n => Some (KNBits n, t) | OUintLit t n => Some (KUintLit n, t)
  | OBitArr t n => Some (KBitArr n, t) | OBytes t n => Some (KBytes n, t)
  | OUint t => Some (KUint, t) | OSint t => Some (KSint, t)
  | _ => None
  end.

Lemma step_prim_err prim o k t s e : op_prim o = Some (k, t) -> prim k t s = Err e -> step prim o s = Err e.
Proof. destruct o; simpl; intros H; inv H; auto. Qed.

(* a program whose next operation needs a value that is absent (and has no default) fails *)
Theorem missing_value_fails D A o (kont : result o -> prog A) k t s :
  op_prim o = Some (k, t) -> dlookup D (c_ty s) t = None ->
  (alookup t (c_ix s) = None -> alookup t (c_f s) = None ->
     run (ser_step D) (Op o kont) s = Err EKey) /\
  (forall i l, alookup t (c_ix s) = Some (Nxt i) -> alookup t (c_f s) = Some (VL l) -> (length l <= i)%nat ->
     run (ser_step D) (Op o kont) s = Err EExhausted).
Proof.
  intros Hp Dl. split.
  - intros E F. simpl. unfold ser_step.
    rewrite (step_prim_err _ _ _ _ _ _ Hp (missing_key_fails D k t s E F Dl)). reflexivity.
  - intros i l E F Hl. simpl. unfold ser_step.
    rewrite (step_prim_err _ _ _ _ _ _ Hp (exhausted_list_fails D k t s i l E F Hl Dl)). reflexivity.
Qed.

(* ---- unused values ---- *)
Lemma verify_keys_class ixs f ks : lists_ok f ixs ->
  verify_keys ixs f ks = Ok tt \/ verify_keys ixs f ks = Err EUnused.
Proof.
  intros L. induction ks as [|k ks IH]; simpl; auto.
  destruct (alookup k f) eqn:F; auto.
  unfold target_complete. destruct (alookup k ixs) as [[|i]|] eqn:E; simpl; auto.
  destruct (L _ _ E) as (l & F' & _). rewrite F in F'. inv F'. simpl.
  destruct (Nat.eqb i (length l)); auto.
Qed.

Definition unused_in (s : st) : Prop :=
  exists t v, alookup t (c_f s) = Some v /\
    (alookup t (c_ix s) = None \/
     exists i l, alookup t (c_ix s) = Some (Nxt i) /\ v = VL l /\ i <> length l).

Lemma unused_verify_ctx s : wf s -> unused_in s -> verify_ctx s = Err EUnused.
Proof.
  intros W (t & v & F & U). unfold verify_ctx, verify_fields.
  destruct (verify_keys_class (c_ix s) (c_f s) (map fst (c_f s)) (wf_lists _ W)) as [H|H]; auto.
  exfalso. pose proof (verify_fields_ok _ _ H t v F) as C. unfold target_complete in C.
  destruct U as [E | (i & l & E & -> & N)]; rewrite E in C; [discriminate|].
  inv C. apply Nat.eqb_eq in H1. contradiction.
Qed.

(* a value that no operation consumed (or a list not consumed to its end), in the dictionary being
   closed, makes the serialiser fail with UnusedTargetError: at subcontext_leave and at
   verify_complete *)
Lemma unused_fails_leave s : wf s -> unused_in s -> subcontext_leave s = Err EUnused.
Proof. intros W U. unfold subcontext_leave. rewrite (unused_verify_ctx s W U). reflexivity. Qed.
Lemma unused_fails_complete s : wf s -> unused_in s -> verify_complete s = Err EUnused.
Proof. intros W U. unfold verify_complete. rewrite (unused_verify_ctx s W U). reflexivity. Qed.

(* every state a run reaches is well formed *)
Inductive prog_ok {A} : prog A -> Prop :=
| prog_ok_ret a : prog_ok (Ret a)
| prog_ok_op o k : op_ok o -> (forall r, prog_ok (k r)) -> prog_ok (Op o k).

Lemma run_wf prim A (p : prog A) :
  (forall k t s v s', wf s -> prim k t s = Ok (v, s') -> wf s') ->
  prog_ok p -> forall s a s', wf s -> run (step prim) p s = Ok (a, s') -> wf s'.
Proof.
  intros P. induction 1 as [a0 | o k Hok Hk IH]; intros s a s' W H; simpl in H.
  - inv H. auto.
  - apply rbind_ok in H. destruct H as ([r s1] & Hs & Hr).
    eapply IH; [|exact Hr]. eapply step_wf; eauto.
Qed.

Theorem unused_value_fails D A (p : prog A) ty f a s :
  prog_ok p -> nohole (VC ty f) -> run_ser D p ty f = Ok (a, s) -> unused_in s ->
  verify_complete s = Err EUnused.
Proof.
  intros Hp Hn Hr U. apply unused_fails_complete; auto.
  eapply (run_wf (ser_prim D)); [|exact Hp|apply init_wf; exact Hn|exact Hr].
  intros; eapply ser_prim_wf; eauto.
Qed.

(* ---- context type changes ---- *)
Definition root_with (stack : list frame) (v : val) : val :=
  fold_left (fun v fr => VC (fr_ty fr) (plug v (fr_f fr))) stack v.

Lemma root_root_with s : root s = root_with (stk s) (VC (c_ty s) (c_f s)).
Proof. reflexivity. Qed.

(* after set_context_type: no failure; the enclosing dictionaries are unchanged and still reference
   the current dictionary in the slot their index bookkeeping designates (so the freshly created,
   retyped dictionary has been patched in and no reference to the old object remains); hence the
   root description is the old root with the current dictionary retyped in place *)
Theorem set_type_consistent prim ty s u s' : wf s ->
  step prim (OSetType ty) s = Ok (u, s') ->
  c_ty s' = ty /\ c_f s' = c_f s /\ stk s' = stk s /\ wf s' /\
  root s' = root_with (stk s) (VC ty (c_f s)).
Proof.
  intros W H. simpl in H. apply unitst_ok in H. rewrite set_context_type_wf in H by auto. inv H.
  simpl. split; auto. split; auto. split; auto. split; auto.
  destruct W as [A B C]. constructor; auto.
Qed.

(* ====================================================================== *)
(* [vext a b]: everything present in description a is still there, unchanged, in b; b may have
   more keys and longer lists (context types may differ) *)
Inductive vext : val -> val -> Prop :=
| vext_refl v : vext v v
| vext_list l l' : lext l l' -> vext (VL l) (VL l')
| vext_dict ty ty' f f' :
    (forall t v, alookup t f = Some v -> exists v', alookup t f' = Some v' /\ vext v v') ->
    vext (VC ty f) (VC ty' f')
with lext : list val -> list val -> Prop :=
| lext_nil l' : lext [] l'
| lext_cons a b l l' : vext a b -> lext l l' -> lext (a :: l) (b :: l').

Lemma lext_app l x : lext l (l ++ x).
Proof. induction l; simpl; constructor; auto. apply vext_refl. Qed.

Lemma lext_map (g h : val -> val) l : (forall y, vext (g y) (h y)) -> lext (map g l) (map h l).
Proof. intros H. induction l; simpl; constructor; auto. Qed.

Lemma alookup_plug x t f : alookup t (plug x f) = option_map (plug1 x) (alookup t f).
Proof. unfold plug. induction f as [|[k y] f IH]; simpl; auto. destruct (k =? t); auto. Qed.

Lemma vext_plug1 a b x : vext a b -> vext (plug1 a x) (plug1 b x).
Proof.
  intros H. destruct x; simpl; try apply vext_refl; auto.
  apply vext_list. apply lext_map. intros y. destruct y; try apply vext_refl; auto.
Qed.

Lemma vext_plug a b ty f : vext a b -> vext (VC ty (plug a f)) (VC ty (plug b f)).
Proof.
  intros H. apply vext_dict. intros t v E. rewrite alookup_plug in *.
  destruct (alookup t f) as [y|]; simpl in *; [|discriminate]. inv E.
  eexists. split; [reflexivity|]. apply vext_plug1; auto.
Qed.

Lemma root_with_ext stack : forall a b, vext a b -> vext (root_with stack a) (root_with stack b).
Proof.
  induction stack as [|fr stack IH]; simpl; intros a b H; auto.
  apply IH. apply vext_plug; auto.
Qed.

(* ---- the deserialiser's invariant: a target is in the context iff it has been accessed; a declared
   list has exactly as many elements as have been written ---- *)
Definition dinv_c (f : fields) (ixs : indices) : Prop :=
  forall t, (alookup t ixs = None -> alookup t f = None) /\
            (forall i, alookup t ixs = Some (Nxt i) -> exists l, alookup t f = Some (VL l) /\ length l = i).
Definition dinv_frame (fr : frame) : Prop := forall x, dinv_c (plug x (fr_f fr)) (fr_ix fr).
Record dinv (s : st) : Prop := mkdinv {
  dinv_cur : dinv_c (c_f s) (c_ix s);
  dinv_stk : Forall dinv_frame (stk s) }.

(* under the invariant a write creates a fresh key or appends to a list -- it never replaces *)
Lemma set_value_fresh t v s s' : dinv_c (c_f s) (c_ix s) -> set_value t v s = Ok s' ->
  (alookup t (c_ix s) = None /\ alookup t (c_f s) = None /\
     s' = set_fix s (aupd t v (c_f s)) (aupd t Used (c_ix s))) \/
  (exists l, alookup t (c_ix s) = Some (Nxt (length l)) /\ alookup t (c_f s) = Some (VL l) /\
     s' = set_fix s (aupd t (VL (l ++ [v])) (c_f s)) (aupd t (Nxt (S (length l))) (c_ix s))).
Proof.
  intros I H. apply set_value_spec in H. destruct (I t) as [I1 I2].
  destruct H as [[E ->] | (i & l & l2 & E & F & Hl & ->)].
  - left. auto.
  - right. destruct (I2 _ E) as (l0 & F0 & Hlen). rewrite F in F0. inv F0.
    destruct Hl as [[_ ->] | [Hlt _]]; [|lia]. exists l0. auto.
Qed.

Lemma dinv_c_fresh t v f ixs : dinv_c f ixs -> dinv_c (aupd t v f) (aupd t Used ixs).
Proof.
  intros I t'. rewrite !alookup_dec. destruct (t' =? t); [split; [discriminate|intros; discriminate]|apply I].
Qed.
Lemma dinv_c_list t l n f ixs : dinv_c f ixs -> length l = n -> dinv_c (aupd t (VL l) f) (aupd t (Nxt n) ixs).
Proof.
  intros I Hl t'. rewrite !alookup_dec. destruct (t' =? t); [|apply I].
  split; [discriminate|]. intros i E. inv E. eauto.
Qed.

(* fields after a fresh write extend the fields before *)
Lemma fext_fresh t v f : alookup t f = None ->
  forall t' x, alookup t' f = Some x -> exists x', alookup t' (aupd t v f) = Some x' /\ vext x x'.
Proof.
  intros F t' x E. rewrite alookup_dec. destruct (t' =? t) eqn:Et.
  - apply Z.eqb_eq in Et. subst. congruence.
  - eexists. split; eauto. apply vext_refl.
Qed.
Lemma fext_append t l v f : alookup t f = Some (VL l) ->
  forall t' x, alookup t' f = Some x -> exists x', alookup t' (aupd t (VL (l ++ [v])) f) = Some x' /\ vext x x'.
Proof.
  intros F t' x E. rewrite alookup_dec. destruct (t' =? t) eqn:Et.
  - apply Z.eqb_eq in Et. subst. rewrite F in E. inv E. eexists. split; eauto.
    apply vext_list. apply lext_app.
  - eexists. split; eauto. apply vext_refl.
Qed.

(* one write: invariant kept, the root description extended *)
Lemma set_value_ext t v s s' : dinv s -> set_value t v s = Ok s' ->
  dinv s' /\ vext (root s) (root s').
Proof.
  intros [Ic Is] H. destruct (set_value_fresh _ _ _ _ Ic H) as [(E & F & ->) | (l & E & F & ->)].
  - split. { constructor; simpl; auto. apply dinv_c_fresh; auto. }
    unfold root. simpl. apply root_with_ext. apply vext_dict. apply fext_fresh; auto.
  - split. { constructor; simpl; auto. apply dinv_c_list; auto. apply len_snoc. }
    unfold root. simpl. apply root_with_ext. apply vext_dict. apply fext_append; auto.
Qed.

Lemma dinv_set_io s w : dinv s -> dinv (set_io s w).
Proof. intros [A B]. constructor; auto. Qed.

Lemma des_prim_ext k t s v s' : dinv s -> des_prim k t s = Ok (v, s') ->
  dinv s' /\ vext (root s) (root s').
Proof.
  intros I H. unfold des_prim in H. apply rbind_ok in H. destruct H as ([v1 r1] & _ & H).
  apply rbind_ok in H. destruct H as (s1 & H2 & H). inv H.
  apply (set_value_ext t v (set_io s r1)); auto. apply dinv_set_io; auto.
Qed.

Lemma declare_list_ext t s s' : dinv s -> declare_list t s = Ok s' -> dinv s' /\ vext (root s) (root s').
Proof.
  intros [Ic Is] H. unfold declare_list in H. destruct (alookup t (c_ix s)) eqn:E; [discriminate|].
  destruct (Ic t) as [I1 _]. rewrite (I1 E) in H. inv H. split.
  - constructor; simpl; auto. apply dinv_c_list; auto.
  - unfold root. simpl. apply root_with_ext. apply vext_dict. apply fext_fresh; auto.
Qed.

(* subcontext_enter in a deserialiser always creates the nested dictionary *)
Lemma enter_ext t s s' : dinv s -> wf s -> subcontext_enter t s = Ok s' ->
  dinv s' /\ vext (root s) (root s').
Proof.
  intros [Ic Is] W H. pose proof (wf_nh _ W) as Nf.
  unfold subcontext_enter in H. apply rbind_ok in H. destruct H as ([[v lc] s1] & H1 & H).
  destruct (Ic t) as [I1 I2]. apply setdefault_spec in H1.
  destruct H1 as [(E & -> & [[F _] | (F & -> & ->)]) | (i & l & E & F & -> & [(-> & -> & ->) | (N & _)])].
  - rewrite (I1 E) in F. discriminate.
  - inv H. simpl.
    assert (Hp : forall x, plug x (aupd t VHole (aupd t (VC 0 []) (c_f s))) = aupd t x (c_f s)).
    { intros x. rewrite aupd_aupd, plug_aupd, plug_nohole by auto. reflexivity. }
    split.
    + constructor; simpl. { intros t'. split; [reflexivity|intros; discriminate]. }
      constructor; auto. intros x. simpl. rewrite Hp. apply dinv_c_fresh; auto.
    + unfold root. simpl. rewrite Hp. apply root_with_ext. apply vext_dict. apply fext_fresh; auto.
  - inv H. simpl. rewrite alookup_aupd_same, aupd_aupd, list_set_app_last.
    assert (Nl : Forall nohole l) by (apply nohole_VL; exact (nohole_f_lookup _ _ _ Nf F)).
    assert (Hp : forall x, plug x (aupd t (VL (l ++ [VHole])) (c_f s)) = aupd t (VL (l ++ [x])) (c_f s)).
    { intros x. rewrite plug_aupd, plug_nohole by auto. cbn [plug1].
      rewrite map_app, map_hole_id by auto. reflexivity. }
    split.
    + constructor; simpl. { intros t'. split; [reflexivity|intros; discriminate]. }
      constructor; auto. intros x. simpl. rewrite Hp. apply dinv_c_list; auto. apply len_snoc.
    + unfold root. simpl. rewrite Hp. apply root_with_ext. apply vext_dict. apply fext_append; auto.
  - destruct (I2 _ E) as (l0 & F0 & Hlen). rewrite F in F0. inv F0.
    assert (length l0 < length l0)%nat by (apply nth_error_Some; congruence). lia.
Qed.

Lemma leave_ext s s' : dinv s -> subcontext_leave s = Ok s' -> dinv s' /\ root s' = root s.
Proof.
  intros [Ic Is] H. unfold subcontext_leave in H. apply rbind_ok in H. destruct H as (u & _ & H).
  destruct (stk s) as [|fr rest] eqn:Es; [discriminate|]. inv H. inv Is. split.
  - constructor; simpl; auto.
  - unfold root. rewrite Es. reflexivity.
Qed.

Theorem des_step_never_overwrites o s r s' :
  dinv s -> wf s -> des_step o s = Ok (r, s') -> dinv s' /\ vext (root s) (root s').
Proof.
  intros I W H. unfold des_step in H.
  destruct o; simpl in H; try (eapply des_prim_ext; eauto; fail).
  - apply unitr_ok in H. destruct H as (v & H). eapply des_prim_ext; eauto.
  - destruct (rem (sio s)); inv H. split; [apply dinv_set_io; auto|apply vext_refl].
  - destruct (rem (sio s)); [|discriminate]. apply unitr_ok in H. destruct H as (v & H).
    apply (des_prim_ext _ _ _ _ _ (dinv_set_io s _ I) H).
  - apply unitst_ok in H. eapply declare_list_ext; eauto.
  - apply unitst_ok in H. eapply enter_ext; eauto.
  - apply unitst_ok in H. destruct (leave_ext _ _ I H) as [I' E]. split; auto. rewrite E. apply vext_refl.
  - apply unitst_ok in H. rewrite set_context_type_wf in H by auto. inv H. destruct I as [Ic Is]. split.
    + constructor; auto.
    + unfold root. simpl. apply root_with_ext. apply vext_dict. intros t v E. eexists. split; eauto. apply vext_refl.
  - apply unitst_ok in H. eapply set_value_ext; eauto.
  - apply rbind_ok in H. destruct H as (b & _ & H). inv H. split; auto. apply vext_refl.
Qed.

(* whole runs: the root description only ever grows *)
Inductive vexts : val -> val -> Prop :=
| vexts_refl v : vexts v v
| vexts_step a b c : vext a b -> vexts b c -> vexts a c.

Theorem des_never_overwrites A (p : prog A) : prog_ok p ->
  forall s a s', dinv s -> wf s -> run des_step p s = Ok (a, s') ->
  dinv s' /\ vexts (root s) (root s').
Proof.
  induction 1 as [a0 | o k Hok Hk IH]; intros s a s' I W H; simpl in H.
  - inv H. split; auto. apply vexts_refl.
  - apply rbind_ok in H. destruct H as ([r s1] & Hs & Hr).
    destruct (des_step_never_overwrites _ _ _ _ I W Hs) as [I1 E1].
    assert (W1 : wf s1).
    { eapply (step_wf des_prim); [|exact W|exact Hok|exact Hs]. intros; eapply des_prim_wf; eauto. }
    destruct (IH r s1 a s' I1 W1 Hr) as [I' E']. split; auto. eapply vexts_step; eauto.
Qed.

Lemma init_dinv bs : dinv (init_st 0 [] bs).
Proof. constructor; simpl; auto. intros t. split; [reflexivity|intros; discriminate]. Qed.

(* ====================================================================== *)
Lemma lext_refl l : lext l l.
Proof. induction l; constructor; auto. apply vext_refl. Qed.

Lemma list_set_nth {V} i (v : V) l : nth_error l i = Some v -> list_set i v l = l.
Proof.
  revert i. induction l; intros i H; destruct i; simpl in *; try discriminate; auto.
  - inv H. reflexivity.
  - rewrite IHl; auto.
Qed.

(* fields that read the same everywhere extend each other *)
Lemma fext_same_lookup f f' : (forall t, alookup t f' = alookup t f) ->
  forall t v, alookup t f = Some v -> exists v', alookup t f' = Some v' /\ vext v v'.
Proof. intros H t v E. rewrite H. eexists. split; eauto. apply vext_refl. Qed.

Lemma aupd_same_lookup {V} t (v : V) f : alookup t f = Some v -> forall t', alookup t' (aupd t v f) = alookup t' f.
Proof.
  intros E t'. rewrite alookup_dec. destruct (t' =? t) eqn:Et; auto. apply Z.eqb_eq in Et. subst. auto.
Qed.

Definition no_computed (o : op) : Prop := match o with OComputed _ _ => False | _ => True end.

Lemma ser_prim_root D k t s v s' : ser_prim D k t s = Ok (v, s') -> root s' = root s.
Proof.
  intros H. unfold ser_prim in H. apply rbind_ok in H. destruct H as ([v1 s1] & H1 & H).
  apply rbind_ok in H. destruct H as (w & _ & H). inv H.
  apply ser_get_spec in H1.
  destruct H1 as [(_ & -> & _) | (i & l & _ & _ & [[_ ->] | (_ & _ & ->)])]; reflexivity.
Qed.

Lemma ser_enter_ext t s s' : wf s -> subcontext_enter t s = Ok s' -> vext (root s) (root s').
Proof.
  intros W H. pose proof (wf_nh _ W) as Nf.
  unfold subcontext_enter in H. apply rbind_ok in H. destruct H as ([[v lc] s1] & H1 & H).
  destruct v as [| | | | |cty cf|]; try discriminate. inv H.
  apply setdefault_spec in H1.
  destruct H1 as [(E & -> & [[F ->] | (F & Hv & ->)]) | (i & l & E & F & -> & [(-> & Hv & ->) | (N & ->)])];
    unfold root; simpl.
  - rewrite plug_aupd, plug_nohole by auto. cbn [plug1].
    apply root_with_ext. apply vext_dict. apply fext_same_lookup. apply aupd_same_lookup; auto.
  - inv Hv. rewrite aupd_aupd, plug_aupd, plug_nohole by auto. cbn [plug1].
    apply root_with_ext. apply vext_dict. apply fext_fresh; auto.
  - inv Hv. assert (Nl : Forall nohole l) by (apply nohole_VL; exact (nohole_f_lookup _ _ _ Nf F)).
    rewrite alookup_aupd_same, aupd_aupd, list_set_app_last, plug_aupd, plug_nohole by auto. cbn [plug1].
    rewrite map_app, map_hole_id by auto. cbn [map].
    apply root_with_ext. apply vext_dict. apply fext_append; auto.
  - assert (Nl : Forall nohole l) by (apply nohole_VL; exact (nohole_f_lookup _ _ _ Nf F)).
    rewrite F, plug_aupd, plug_nohole by auto. cbn [plug1]. rewrite map_hole_list_set by auto.
    rewrite (list_set_nth _ _ _ N).
    apply root_with_ext. apply vext_dict. apply fext_same_lookup. apply aupd_same_lookup; auto.
Qed.

Lemma ser_declare_ext t s s' : declare_list t s = Ok s' -> vext (root s) (root s').
Proof.
  unfold declare_list. destruct (alookup t (c_ix s)); [discriminate|].
  destruct (alookup t (c_f s)) as [[| | | |l| |]|] eqn:F; try discriminate; intros H; inv H; unfold root; simpl.
  - apply vext_refl.
  - apply root_with_ext. apply vext_dict. apply fext_fresh; auto.
Qed.

Theorem ser_step_extends D o s r s' :
  no_computed o -> wf s -> ser_step D o s = Ok (r, s') -> vext (root s) (root s').
Proof.
  intros Hn W H. unfold ser_step in H.
  destruct o; simpl in H; try contradiction;
    try (rewrite (ser_prim_root _ _ _ _ _ _ H); apply vext_refl).
  - apply unitr_ok in H. destruct H as (v & H). rewrite (ser_prim_root _ _ _ _ _ _ H). apply vext_refl.
  - destruct (rem (sio s)); inv H. apply vext_refl.
  - destruct (rem (sio s)); [|discriminate]. apply unitr_ok in H. destruct H as (v & H).
    rewrite (ser_prim_root _ _ _ _ _ _ H). apply vext_refl.
  - apply unitst_ok in H. eapply ser_declare_ext; eauto.
  - apply unitst_ok in H. eapply ser_enter_ext; eauto.
  - apply unitst_ok in H. unfold subcontext_leave in H. apply rbind_ok in H. destruct H as (u & _ & H).
    destruct (stk s) as [|fr rest] eqn:Es; [discriminate|]. inv H. unfold root. rewrite Es. apply vext_refl.
  - apply unitst_ok in H. rewrite set_context_type_wf in H by auto. inv H.
    unfold root. simpl. apply root_with_ext. apply vext_dict. intros t v E. eexists. split; eauto. apply vext_refl.
  - apply rbind_ok in H. destruct H as (b & _ & H). inv H. apply vext_refl.
Qed.

Inductive computed_free {A} : prog A -> Prop :=
| cf_ret a : computed_free (Ret a)
| cf_op o k : no_computed o -> (forall r, computed_free (k r)) -> computed_free (Op o k).

Lemma computed_free_ok A (p : prog A) : computed_free p -> prog_ok p.
Proof. induction 1 as [|o k Hn Hk IH]; constructor; auto. destruct o; simpl in *; auto; contradiction. Qed.

(* for programs without computed values the serialiser's final description extends, value by value,
   the description it was given (it may have created empty lists / dictionaries and set types) *)
Theorem ser_extends_input D A (p : prog A) : computed_free p ->
  forall s a s', wf s -> run (ser_step D) p s = Ok (a, s') -> vexts (root s) (root s').
Proof.
  induction 1 as [a0 | o k Hn Hk IH]; intros s a s' W H; simpl in H.
  - inv H. apply vexts_refl.
  - apply rbind_ok in H. destruct H as ([r s1] & Hs & Hr).
    assert (W1 : wf s1).
    { eapply (step_wf (ser_prim D)); [|exact W| |exact Hs]. intros; eapply ser_prim_wf; eauto.
      destruct o; simpl in *; auto; contradiction. }
    eapply vexts_step; [eapply ser_step_extends; eauto|]. eapply IH; eauto.
Qed.


(* ---- corollaries / packaging for Props/C21.v ---- *)
Lemma set_value_reused : forall t v s,
  alookup t (c_ix s) = Some Used -> set_value t v s = Err EReused.
Proof. intros t v s H. unfold set_value. rewrite H. reflexivity. Qed.

(* the deserialiser is given the flushed byte stream *)
Corollary roundtrip_flushed D A (p : prog A) ty f a ss' :
  sym p -> nohole (VC ty f) ->
  run_ser D p ty f = Ok (a, ss') -> verify_complete ss' = Ok tt ->
  exists sd',
    run_des p (flush_bits (bits (sio ss'))) = Ok (a, sd') /\
    pos (sio sd') = pos (sio ss') /\
    verify_complete sd' = Ok tt /\
    vle D (root ss') (root sd').
Proof.
  intros Hs Hn Hr Hv. unfold flush_bits.
  destruct (roundtrip D A p ty f a ss' Hs Hn Hr Hv (repeat false (Z.to_nat ((- zlen (bits (sio ss'))) mod 8))))
    as (sd' & H1 & _ & H3 & H4 & H5).
  exists sd'. auto.
Qed.

(* a concrete program: typed subcontext holding a list, a default inside the list, a bounded block
   with trailing padding, byte alignment, a computed value, data-dependent control flow *)
Definition ex_prog : prog unit :=
  Op (OSetType 1) (fun _ =>
  Op (ONBits 0 3) (fun n =>
  Op (OSubEnter 1) (fun _ =>
  Op (OSetType 2) (fun _ =>
  Op (ODeclList 2) (fun _ =>
  Op (OUint 2) (fun _ =>
  Op (OUint 2) (fun _ =>
  Op (OComputed 3 (VI (match n with VI z => z + 1 | _ => 0 end))) (fun _ =>
  Op OSubLeave (fun _ =>
  Op (OBBegin 5) (fun _ =>
  Op (OSint 4) (fun _ =>
  Op (OBEnd 5) (fun _ =>
  Op (OByteAlign 6) (fun _ =>
  (match n with
   | VI 2 => Op (OBitArr 7 4) (fun _ => Ret tt)
   | _ => Ret tt
   end)))))))))))))).

Definition ex_fields : fields :=
  [(0, VI 2); (1, VC 0 [(2, VL [VI 9])]); (4, VI (-1)); (5, VBits []); (6, VBits [true; false; true]); (7, VBits [true])].
Definition ex_defaults : defaults := [(2, [(2, VI 4)])].

Lemma ex_prog_sym : sym ex_prog.
Proof.
  unfold ex_prog.
  repeat (apply sym_op; [exact I | simpl; auto | intros ? | simpl; intros; subst; auto]).
  destruct r0 as [z| | | | | |]; try apply sym_ret.
  destruct z as [|[[|[]|]|[|[]|]|]|]; try apply sym_ret.
  apply sym_op; [exact I | simpl; auto | intros; apply sym_ret | intros; reflexivity].
Qed.

Corollary ser_keeps_input D A (p : prog A) ty f a s' :
  computed_free p -> nohole (VC ty f) -> run_ser D p ty f = Ok (a, s') -> vexts (VC ty f) (root s').
Proof.
  intros Hc Hn Hr. apply (ser_extends_input D A p Hc (init_st ty f []) a s'); auto. apply init_wf; auto.
Qed.
