(* Proofs about Model/ConstraintTable.v (property C17). *)
From Coq Require Import ZArith List Bool Lia ZifyBool Permutation.
From VC2 Require Import Model.ValueSet Model.ConstraintTable Proofs.ValueSetProofs.
Import ListNotations.
Open Scope Z_scope.

(* `value in allowed_combination[key]` with `key in allowed_combination` *)
Definition entry_has (e : entry) (k : key) (v : Z) : bool :=
  match lookup e k with Some s => contains s v | None => false end.

(* a table without 'catch all' columns: no column is the empty dictionary
   (constraint_table.py: `or len(allowed_combination) == 0  # Special case: 'catch all' rule`) *)
Definition no_catch_all (T : table) : Prop := forall e, In e T -> e <> [].

Definition keys {A} (d : list (key * A)) : list key := map fst d.

Lemma matches_cons e kv vals : matches e (kv :: vals) = entry_has e (fst kv) (snd kv) && matches e vals.
Proof. reflexivity. Qed.

Lemma matches_app e l1 l2 : matches e (l1 ++ l2) = matches e l1 && matches e l2.
Proof. unfold matches. apply forallb_app. Qed.

Lemma matches_nil_entry vals : matches [] vals = is_nil vals.
Proof. destruct vals; reflexivity. Qed.

(* ---- dictionaries ------------------------------------------------------------------ *)
Lemma dict_set_fresh {A} (d : list (key * A)) k x : ~ In k (keys d) -> dict_set d k x = d ++ [(k, x)].
Proof.
  induction d as [|[k' y] d IH]; intros Hn; cbn [dict_set app]; [reflexivity|].
  cbn in Hn. destruct (k' =? k) eqn:E; [exfalso; apply Hn; left; lia|].
  rewrite IH; [reflexivity|]. intros H. apply Hn. right. exact H.
Qed.

Lemma matches_dict_set e cv k v :
  matches e cv = true -> matches e (dict_set cv k v) = entry_has e k v.
Proof.
  induction cv as [|[k' y] cv IH]; intros Hm; cbn [dict_set].
  - rewrite matches_cons. cbn [fst snd matches forallb]. apply andb_true_r.
  - rewrite matches_cons in Hm. apply andb_true_iff in Hm. destruct Hm as [Hh Ht].
    cbn [fst snd] in Hh. destruct (k' =? k) eqn:E.
    + apply Z.eqb_eq in E. subst k'. rewrite matches_cons. cbn [fst snd]. rewrite Ht. apply andb_true_r.
    + rewrite matches_cons. cbn [fst snd]. rewrite Hh. cbn [andb]. apply IH, Ht.
Qed.

(* ---- filter / is_allowed_combination ------------------------------------------------ *)
Lemma filter_spec T vals e :
  In e (filter_constraint_table T vals) <-> In e T /\ (matches e vals = true \/ e = []).
Proof.
  unfold filter_constraint_table. rewrite filter_In, orb_true_iff.
  destruct e; cbn [is_nil]; intuition (try discriminate; auto).
Qed.

Lemma is_nil_false_In {A} (l : list A) : negb (is_nil l) = true <-> exists x, In x l.
Proof.
  destruct l as [|x l]; cbn.
  - split; [discriminate|intros [x []]].
  - split; [intros _; exists x; left; reflexivity|reflexivity].
Qed.

Lemma is_allowed_spec T vals :
  is_allowed_combination T vals = true <-> exists e, In e T /\ (matches e vals = true \/ e = []).
Proof.
  unfold is_allowed_combination. rewrite is_nil_false_In.
  split; intros [e H]; exists e; apply filter_spec; exact H.
Qed.

(* an allowed dictionary stays allowed when later entries are dropped *)
Lemma is_allowed_prefix T l1 l2 :
  is_allowed_combination T (l1 ++ l2) = true -> is_allowed_combination T l1 = true.
Proof.
  rewrite !is_allowed_spec. intros [e [Hin [Hm|He]]]; exists e; (split; [exact Hin|]).
  - left. rewrite matches_app in Hm. apply andb_true_iff in Hm. tauto.
  - right. exact He.
Qed.

(* ---- allowed_values_for ------------------------------------------------------------- *)
Definition cell_of (e : entry) (k : key) : vset :=
  match lookup e k with Some s => s | None => VS vs_empty end.

Lemma fold_union_contains k l : forall init v,
  contains (fold_left (fun out e => union out (cell_of e k)) l init) v
  = contains init v || existsb (fun e => contains (cell_of e k) v) l.
Proof.
  induction l as [|e l IH]; intros init v; cbn [fold_left existsb].
  - rewrite orb_false_r. reflexivity.
  - rewrite IH, union_sem, orb_assoc. reflexivity.
Qed.

Lemma fold_union_any k l : forall init,
  fold_left (fun out e => union out (cell_of e k)) l init = Any
  <-> init = Any \/ exists e, In e l /\ cell_of e k = Any.
Proof.
  induction l as [|e l IH]; intros init; cbn [fold_left].
  - split; [auto|]. intros [H|[e [[] _]]]. exact H.
  - rewrite IH, union_any. split.
    + intros [[H|H]|[e' [Hin H]]]; [auto|right; exists e; split; [left; reflexivity|exact H]|right; exists e'; split; [right; exact Hin|exact H]].
    + intros [H|[e' [[->|Hin] H]]]; [auto|auto|right; exists e'; auto].
Qed.

Lemma cell_of_contains e k v : contains (cell_of e k) v = entry_has e k v.
Proof. unfold cell_of, entry_has. destruct (lookup e k); reflexivity. Qed.

Lemma avf_unfold T k vals av :
  allowed_values_for T k vals av =
  match fold_left (fun out e => union out (cell_of e k)) (filter_constraint_table T vals) (VS vs_empty) with
  | Any => av
  | VS s => VS s
  end.
Proof. unfold allowed_values_for, cell_of. destruct (fold_left _ _ _); reflexivity. Qed.

(* exactly the values some column that matches the chosen values lists for the key;
   holds for every table (a 'catch all' column lists nothing) *)
Lemma avf_contains T k vals v :
  contains (allowed_values_for T k vals Any) v = true
  <-> exists e, In e T /\ matches e vals = true /\ entry_has e k v = true.
Proof.
  rewrite avf_unfold.
  set (out := fold_left _ _ _).
  assert (Ho : contains (match out with Any => Any | VS s => VS s end) v = contains out v) by (destruct out; reflexivity).
  rewrite Ho. subst out. rewrite fold_union_contains. cbn [contains]. rewrite st_contains_empty. cbn [orb].
  rewrite existsb_exists. split.
  - intros [e [Hin Hc]]. rewrite cell_of_contains in Hc. apply filter_spec in Hin.
    destruct Hin as [HT [Hm|He]].
    + exists e. auto.
    + subst e. discriminate.
  - intros [e [HT [Hm Hc]]]. exists e. rewrite cell_of_contains. split; [apply filter_spec; auto|exact Hc].
Qed.

(* the any_value argument: substituted exactly when a matching column has AnyValue for the key *)
Lemma avf_any_value T k vals av :
  (allowed_values_for T k vals Any = Any <->
     exists e, In e (filter_constraint_table T vals) /\ lookup e k = Some Any)
  /\ (allowed_values_for T k vals Any = Any -> allowed_values_for T k vals av = av)
  /\ (allowed_values_for T k vals Any <> Any -> allowed_values_for T k vals av = allowed_values_for T k vals Any).
Proof.
  rewrite !avf_unfold.
  pose proof (fold_union_any k (filter_constraint_table T vals) (VS vs_empty)) as Hf.
  destruct (fold_left _ _ _) as [s|]; repeat split; try discriminate; try tauto.
  - intros [e [Hin Hl]]. exfalso.
    assert (H : VS s = Any); [|discriminate].
    apply Hf. right. exists e. split; [exact Hin|]. unfold cell_of. rewrite Hl. reflexivity.
  - intros _. destruct Hf as [Hf _]. destruct (Hf eq_refl) as [H|[e [Hin Hc]]]; [discriminate|].
    exists e. split; [exact Hin|]. unfold cell_of in Hc. destruct (lookup e k) as [x|]; [subst; reflexivity|discriminate].
Qed.

(* allowed_iff *)
Theorem allowed_iff T k vals v :
  no_catch_all T -> ~ In k (keys vals) ->
  (contains (allowed_values_for T k vals Any) v = true
   <-> is_allowed_combination T (dict_set vals k v) = true).
Proof.
  intros Hnc Hk. rewrite avf_contains, is_allowed_spec, (dict_set_fresh vals k v Hk).
  split.
  - intros [e [HT [Hm Hc]]]. exists e. split; [exact HT|left].
    rewrite matches_app, Hm, matches_cons. cbn [fst snd]. rewrite Hc. reflexivity.
  - intros [e [HT [Hm|He]]]; [|exfalso; exact (Hnc e HT He)].
    rewrite matches_app, matches_cons in Hm. cbn [fst snd] in Hm.
    apply andb_true_iff in Hm. destruct Hm as [Hm Hc]. apply andb_true_iff in Hc.
    exists e. tauto.
Qed.

(* with a catch-all column the equivalence fails (so the hypothesis is needed) *)
Lemma allowed_iff_catch_all_witness :
  let T : table := [[]; [(0, VS (mkVS [1] []))]] in
  contains (allowed_values_for T 0 [] Any) 5 = false /\ is_allowed_combination T (dict_set [] 0 5) = true.
Proof. vm_compute. split; reflexivity. Qed.

(* with the key already chosen the equivalence fails too *)
Lemma allowed_iff_key_chosen_witness :
  let T : table := [[(0, VS (mkVS [1] []))]; [(0, VS (mkVS [2] []))]] in
  no_catch_all T /\
  contains (allowed_values_for T 0 [(0, 1)] Any) 2 = false /\ is_allowed_combination T (dict_set [(0, 1)] 0 2) = true.
Proof.
  split; [|vm_compute; split; reflexivity].
  intros e [<-|[<-|[]]]; discriminate.
Qed.

(* ---- assert_level_constraint ---------------------------------------------------------- *)
(* one call, any table, key chosen before or not: it returns normally exactly when ONE column
   allows both the dictionary so far and the updated dictionary *)
Theorem level_step_iff T cv k v :
  (level_step T cv (k, v) <> None
   <-> exists e, In e T /\ matches e cv = true /\ matches e (dict_set cv k v) = true)
  /\ (level_step T cv (k, v) <> None -> level_step T cv (k, v) = Some (dict_set cv k v)).
Proof.
  unfold level_step. cbn [fst snd].
  pose proof (avf_contains T k cv v) as Ha.
  destruct (contains (allowed_values_for T k cv Any) v).
  - split; [|reflexivity]. split; [|discriminate]. intros _.
    destruct Ha as [Ha _]. destruct (Ha eq_refl) as [e [HT [Hm Hc]]].
    exists e. rewrite (matches_dict_set e cv k v Hm). auto.
  - split; [|intros H; exfalso; apply H; reflexivity]. split; [intros H; exfalso; apply H; reflexivity|].
    intros [e [HT [Hm Hs]]]. rewrite (matches_dict_set e cv k v Hm) in Hs.
    destruct Ha as [_ Ha]. assert (false = true); [|discriminate]. apply Ha. exists e. auto.
Qed.

Definition set_all (cv : assignment) (kvs : list (key * Z)) : assignment :=
  fold_left (fun d kv => dict_set d (fst kv) (snd kv)) kvs cv.

(* any sequence (keys may repeat): accepted exactly when every call finds one column allowing
   the dictionary before and after it; the recorded dictionary is the sequence's dictionary *)
Lemma level_check_from_general T kvs : forall cv,
  (level_check_from T cv kvs <> None
   <-> forall n, (n < length kvs)%nat ->
       exists e, In e T /\ matches e (set_all cv (firstn n kvs)) = true
                 /\ matches e (set_all cv (firstn (S n) kvs)) = true)
  /\ (level_check_from T cv kvs <> None -> level_check_from T cv kvs = Some (set_all cv kvs)).
Proof.
  induction kvs as [|[k v] rest IH]; intros cv; cbn [level_check_from].
  - split; [|reflexivity]. split; [intros _ n Hn; cbn in Hn; lia|discriminate].
  - destruct (level_step_iff T cv k v) as [Hs1 Hs2].
    destruct (level_step T cv (k, v)) as [cv'|] eqn:E.
    + assert (Hcv : cv' = dict_set cv k v) by (specialize (Hs2 ltac:(discriminate)); congruence).
      subst cv'. destruct (IH (dict_set cv k v)) as [IH1 IH2]. split.
      * rewrite IH1. split.
        -- intros H n Hn. destruct n as [|n].
           ++ cbn [firstn set_all fold_left fst snd]. apply Hs1. discriminate.
           ++ cbn [length] in Hn. specialize (H n ltac:(lia)). exact H.
        -- intros H n Hn. specialize (H (S n)). cbn [length] in H. apply H. lia.
      * intros H. rewrite (IH2 H). reflexivity.
    + split; [|intros H; exfalso; apply H; reflexivity]. split; [intros H; exfalso; apply H; reflexivity|].
      intros H. exfalso. specialize (H 0%nat). cbn [length] in H. specialize (H ltac:(lia)).
      cbn [firstn set_all fold_left fst snd] in H.
      assert (Hn : @None assignment <> None); [apply Hs1; exact H|apply Hn; reflexivity].
Qed.

Theorem level_check_general T kvs :
  (level_check T kvs <> None
   <-> forall n, (n < length kvs)%nat ->
       exists e, In e T /\ matches e (dict_of (firstn n kvs)) = true
                 /\ matches e (dict_of (firstn (S n) kvs)) = true)
  /\ (level_check T kvs <> None -> level_check T kvs = Some (dict_of kvs)).
Proof. exact (level_check_from_general T kvs []). Qed.

(* distinct keys: the dictionary of a sequence is the sequence *)
Lemma set_all_fresh kvs : forall cv, NoDup (keys cv ++ keys kvs) -> set_all cv kvs = cv ++ kvs.
Proof.
  induction kvs as [|[k v] rest IH]; intros cv Hnd; cbn [set_all fold_left fst snd].
  - rewrite app_nil_r. reflexivity.
  - fold (set_all (dict_set cv k v) rest).
    assert (Hk : ~ In k (keys cv)).
    { intros Hin. cbn in Hnd. apply NoDup_remove_2 in Hnd. apply Hnd. apply in_or_app. left. exact Hin. }
    rewrite (dict_set_fresh cv k v Hk). rewrite IH.
    + rewrite <- app_assoc. reflexivity.
    + unfold keys in *. rewrite map_app. cbn [map fst]. rewrite <- app_assoc. exact Hnd.
Qed.

Lemma dict_of_nodup kvs : NoDup (keys kvs) -> dict_of kvs = kvs.
Proof. intros H. unfold dict_of. apply (set_all_fresh kvs []). exact H. Qed.

Lemma nodup_app_l {A} (l1 l2 : list A) : NoDup (l1 ++ l2) -> NoDup l1.
Proof.
  induction l1 as [|x l1 IH]; intros H; [constructor|].
  cbn in H. inversion H as [|y l Hx Hr]; subst. constructor; [|apply IH, Hr].
  intros Hin. apply Hx. apply in_or_app. left. exact Hin.
Qed.

Lemma nodup_firstn {A} (l : list A) n : NoDup l -> NoDup (firstn n l).
Proof.
  intros H. rewrite <- (firstn_skipn n l) in H. apply nodup_app_l in H. exact H.
Qed.

(* incremental_iff *)
Theorem incremental_iff T kvs :
  no_catch_all T -> NoDup (keys kvs) ->
  (level_check T kvs <> None
   <-> forall n, (0 < n <= length kvs)%nat -> is_allowed_combination T (firstn n kvs) = true)
  /\ (level_check T kvs <> None -> level_check T kvs = Some kvs).
Proof.
  intros Hnc Hnd. destruct (level_check_general T kvs) as [H1 H2].
  assert (Hd : forall n, dict_of (firstn n kvs) = firstn n kvs).
  { intros n. apply dict_of_nodup. unfold keys. rewrite <- firstn_map. apply nodup_firstn, Hnd. }
  split.
  - rewrite H1. split.
    + intros H n [Hn0 Hn]. destruct n as [|n]; [lia|]. destruct (H n ltac:(lia)) as [e [HT [_ Hm]]].
      rewrite Hd in Hm. apply is_allowed_spec. exists e. auto.
    + intros H n Hn. specialize (H (S n) ltac:(lia)). apply is_allowed_spec in H.
      destruct H as [e [HT [Hm|He]]]; [|exfalso; exact (Hnc e HT He)].
      exists e. rewrite !Hd. split; [exact HT|]. split; [|exact Hm].
      assert (Hs : exists kv, firstn (S n) kvs = firstn n kvs ++ [kv]).
      { clear - Hn. revert n Hn. induction kvs as [|a l IH]; intros n Hn; cbn in Hn; [lia|].
        destruct n as [|n]; [exists a; reflexivity|].
        destruct (IH n ltac:(lia)) as [kv Hkv]. exists kv.
        change (firstn (S (S n)) (a :: l)) with (a :: firstn (S n) l). rewrite Hkv. reflexivity. }
      destruct Hs as [kv Hs]. rewrite Hs, matches_app in Hm. apply andb_true_iff in Hm. tauto.
  - intros H. rewrite (H2 H), dict_of_nodup; [reflexivity|exact Hnd].
Qed.

(* ... which is the whole-dictionary check *)
Theorem incremental_whole T kvs :
  no_catch_all T -> NoDup (keys kvs) ->
  (level_check T kvs <> None <-> kvs = [] \/ is_allowed_combination T kvs = true).
Proof.
  intros Hnc Hnd. destruct (incremental_iff T kvs Hnc Hnd) as [H _]. rewrite H. split.
  - intros Hp. destruct kvs as [|kv rest]; [left; reflexivity|right].
    specialize (Hp (length (kv :: rest)) ltac:(cbn; lia)). rewrite firstn_all in Hp. exact Hp.
  - intros [->|Ha] n Hn; [cbn in Hn; lia|].
    rewrite <- (firstn_skipn n kvs) in Ha. apply is_allowed_prefix in Ha. exact Ha.
Qed.

(* a repeated key (second sequence header, next picture): the one-at-a-time check is STRICTER
   than "every prefix dictionary is an allowed combination" *)
Lemma incremental_repeated_key_witness :
  let T : table := [[(0, VS (mkVS [1] [])); (1, VS (mkVS [5] []))];
                    [(0, VS (mkVS [2] [])); (1, VS (mkVS [5] []))]] in
  let kvs := [(0, 1); (1, 5); (0, 2)] in
  no_catch_all T
  /\ (forall n, (0 < n <= length kvs)%nat -> is_allowed_combination T (dict_of (firstn n kvs)) = true)
  /\ level_check T kvs = None.
Proof.
  cbv zeta. split; [intros e [<-|[<-|[]]]; discriminate|]. split; [|vm_compute; reflexivity].
  intros n [H0 Hn]. cbn [length] in Hn.
  destruct n as [|[|[|[|n]]]]; try lia; vm_compute; reflexivity.
Qed.

(* ======== read_constraints_from_csv ======== *)
(* ---- read_constraints_from_csv: what the cells written in the file mean -------------- *)
Inductive sem := SAny | SSet (P : Z -> Prop).

Definition item_den (it : item) (v : Z) : Prop :=
  match it with
  | IVal z => v = z
  | IRange a b => a <= v <= b
  | IBool b => v = Z.b2z b
  end.

(* a ditto cell means what the cell to its left means *)
Definition cell_sem (left : sem) (c : cell) : sem :=
  match c with
  | Ditto => left
  | CAny => SAny
  | Items l => SSet (fun v => exists it, In it l /\ item_den it v)
  end.

Fixpoint resolve (left : sem) (cells : list cell) : list sem :=
  match cells with
  | [] => []
  | c :: cs => let s := cell_sem left c in s :: resolve s cs
  end.

(* left of the first cell there is nothing *)
Definition row_sems (cells : list cell) : list sem := resolve (SSet (fun _ => False)) cells.

(* column i, key k: the cell of the LAST row for k that reaches column i *)
Definition spec_upd (i : nat) (k : key) (acc : option sem) (r : row) : option sem :=
  if fst r =? k then match nth_error (row_sems (snd r)) i with Some s => Some s | None => acc end else acc.
Definition spec_cell (rows : list row) (i : nat) (k : key) : option sem :=
  fold_left (spec_upd i k) rows None.

Definition has_sem (a : vset) (s : sem) : Prop :=
  match s with
  | SAny => a = Any
  | SSet P => a <> Any /\ forall v, contains a v = true <-> P v
  end.

Definition cell_rel (o : option vset) (s : option sem) : Prop :=
  match o, s with
  | Some a, Some s => has_sem a s
  | None, None => True
  | _, _ => False
  end.

Lemma fold_add_item_sem l : forall s v,
  st_contains (fold_left add_item l s) v = true
  <-> st_contains s v = true \/ exists it, In it l /\ item_den it v.
Proof.
  induction l as [|it l IH]; intros s v; cbn [fold_left].
  - split; [auto|]. intros [H|[it [[] _]]]. exact H.
  - rewrite IH. assert (Hi : st_contains (add_item s it) v = true <-> st_contains s v = true \/ item_den it v).
    { destruct it; cbn [add_item item_den]; [apply add_value_sem|apply add_range_sem|apply add_value_sem]. }
    rewrite Hi. split.
    + intros [[H|H]|[it' [Hin H]]]; [auto|right; exists it; split; [left; reflexivity|exact H]|right; exists it'; split; [right; exact Hin|exact H]].
    + intros [H|[it' [[<-|Hin] H]]]; [auto|auto|right; exists it'; auto].
Qed.

Lemma cell_value_sem last ls c : has_sem last ls -> has_sem (cell_value last c) (cell_sem ls c).
Proof.
  intros Hl. destruct c as [| |l]; cbn [cell_value cell_sem].
  - destruct ls as [|P]; cbn [has_sem] in *.
    + subst last. reflexivity.
    + destruct Hl as [Hn Hc]. destruct last as [s|]; [|exfalso; apply Hn; reflexivity].
      split; [discriminate|]. intros v. rewrite <- Hc, union_sem. cbn [contains]. rewrite st_contains_empty. reflexivity.
  - reflexivity.
  - split; [discriminate|]. intros v. cbn [contains]. rewrite fold_add_item_sem, st_contains_empty.
    split; [intros [H|H]; [discriminate|exact H]|auto].
Qed.

Lemma lookup_dict_set {A} (d : list (key * A)) k x k' :
  lookup (dict_set d k x) k' = if k =? k' then Some x else lookup d k'.
Proof.
  induction d as [|[k0 y] d IH]; cbn [dict_set lookup].
  - destruct (k =? k'); reflexivity.
  - destruct (k0 =? k) eqn:E; cbn [lookup].
    + apply Z.eqb_eq in E. subst k0. destruct (k =? k'); reflexivity.
    + rewrite IH. destruct (k0 =? k') eqn:E2; [|reflexivity].
      destruct (k =? k') eqn:E3; [lia|reflexivity].
Qed.

Lemma dict_set_not_nil {A} (d : list (key * A)) k x : dict_set d k x <> [].
Proof. destruct d as [|[k0 y] d]; cbn [dict_set]; [discriminate|destruct (k0 =? k); discriminate]. Qed.

Lemma nth_extend out n i : nth i (extend out n) [] = nth i out ([] : entry).
Proof.
  unfold extend. destruct (Nat.lt_ge_cases i (length out)) as [H|H].
  - apply app_nth1. exact H.
  - rewrite app_nth2 by exact H. rewrite (nth_overflow out) by exact H.
    set (m := (n - length out)%nat). generalize (i - length out)%nat as j. induction m as [|m IHm]; intros j; destruct j; cbn; auto.
Qed.

Lemma length_extend out n : length (extend out n) = Nat.max (length out) n.
Proof. unfold extend. rewrite app_length, repeat_length. lia. Qed.

(* the cells of one row *)
Lemma put_row_spec k cells : forall last ls out,
  has_sem last ls -> (length cells <= length out)%nat ->
  length (put_row k cells last out) = length out
  /\ forall i,
      ((i < length cells)%nat ->
         exists a s, nth_error (resolve ls cells) i = Some s /\ has_sem a s
                     /\ nth i (put_row k cells last out) [] = dict_set (nth i out []) k a)
      /\ ((length cells <= i)%nat -> nth_error (resolve ls cells) i = None
                                   /\ nth i (put_row k cells last out) [] = nth i out []).
Proof.
  induction cells as [|c cs IH]; intros last ls out Hl Hlen; cbn [put_row resolve length].
  - split; [reflexivity|]. intros i. split; [lia|]. intros _. destruct i; auto.
  - destruct out as [|e es]; [cbn in Hlen; lia|]. cbn [length] in *.
    pose proof (cell_value_sem last ls c Hl) as Hv.
    destruct (IH (cell_value last c) (cell_sem ls c) es Hv ltac:(lia)) as [IHlen IHi].
    split; [cbn [length]; rewrite IHlen; reflexivity|].
    intros [|i].
    + split; [|lia]. intros _. exists (cell_value last c), (cell_sem ls c). cbn. auto.
    + destruct (IHi i) as [H1 H2]. split.
      * intros Hi. apply H1. lia.
      * intros Hi. apply H2. lia.
Qed.

Lemma nth_error_overflow {A} (l : list A) i : (length l <= i)%nat -> nth_error l i = None.
Proof. apply nth_error_None. Qed.

(* one row *)
Lemma read_row_spec out r :
  length (read_row out r) = Nat.max (length out) (length (snd r))
  /\ forall i k (acc : option sem),
       cell_rel (lookup (nth i out []) k) acc ->
       cell_rel (lookup (nth i (read_row out r) []) k) (spec_upd i k acc r).
Proof.
  unfold read_row. destruct r as [kr cells]. cbn [fst snd].
  assert (He : has_sem (VS vs_empty) (SSet (fun _ => False))).
  { split; [discriminate|]. intros v. cbn. split; [discriminate|tauto]. }
  destruct (put_row_spec kr cells (VS vs_empty) (SSet (fun _ => False)) (extend out (length cells)) He
              ltac:(rewrite length_extend; lia)) as [Hlen Hi].
  split; [rewrite Hlen; apply length_extend|].
  intros i k acc Hrel. unfold spec_upd, row_sems. cbn [fst snd].
  destruct (Hi i) as [H1 H2].
  destruct (Nat.lt_ge_cases i (length cells)) as [Hlt|Hge].
  - destruct (H1 Hlt) as [a [s [Hs [Has Hn]]]]. rewrite Hn, lookup_dict_set, Hs, nth_extend.
    destruct (kr =? k); [exact Has|exact Hrel].
  - destruct (H2 Hge) as [Hs Hn]. rewrite Hn, Hs, nth_extend. destruct (kr =? k); exact Hrel.
Qed.

Lemma read_rows_gen rows : forall out,
  length (fold_left read_row rows out) = fold_left (fun m r => Nat.max m (length (snd r))) rows (length out)
  /\ forall i k acc,
       cell_rel (lookup (nth i out []) k) acc ->
       cell_rel (lookup (nth i (fold_left read_row rows out) []) k) (fold_left (spec_upd i k) rows acc).
Proof.
  induction rows as [|r rows IH]; intros out; cbn [fold_left].
  - split; [reflexivity|auto].
  - destruct (read_row_spec out r) as [Hl Hc]. destruct (IH (read_row out r)) as [IHl IHc].
    split; [rewrite IHl, Hl; reflexivity|]. intros i k acc Hrel. apply IHc, Hc, Hrel.
Qed.

(* csv_sem *)
Theorem csv_sem rows :
  length (read_rows rows) = fold_left (fun m r => Nat.max m (length (snd r))) rows 0%nat
  /\ forall i k, cell_rel (lookup (nth i (read_rows rows) []) k) (spec_cell rows i k).
Proof.
  destruct (read_rows_gen rows []) as [Hl Hc]. split; [exact Hl|].
  intros i k. apply Hc. destruct i; exact I.
Qed.

(* a table read from CSV never has a 'catch all' column *)
Lemma read_row_nonempty out r :
  (forall e, In e out -> e <> []) -> forall e, In e (read_row out r) -> e <> [].
Proof.
  intros Hout e Hin. apply (@In_nth entry _ _ []) in Hin. destruct Hin as [i [Hi <-]].
  unfold read_row in *. destruct r as [kr cells]. cbn [fst snd] in *.
  assert (He : has_sem (VS vs_empty) (SSet (fun _ => False))).
  { split; [discriminate|]. intros v. cbn. split; [discriminate|tauto]. }
  destruct (put_row_spec kr cells (VS vs_empty) (SSet (fun _ => False)) (extend out (length cells)) He
              ltac:(rewrite length_extend; lia)) as [Hlen Hs].
  destruct (Hs i) as [H1 H2].
  destruct (Nat.lt_ge_cases i (length cells)) as [Hlt|Hge].
  - destruct (H1 Hlt) as [a [s [_ [_ Hn]]]]. rewrite Hn. apply dict_set_not_nil.
  - destruct (H2 Hge) as [_ Hn]. rewrite Hn, nth_extend. apply Hout. apply nth_In.
    rewrite Hlen, length_extend in Hi. lia.
Qed.

Theorem csv_no_catch_all rows : no_catch_all (read_rows rows).
Proof.
  unfold read_rows, no_catch_all.
  assert (H : forall out, (forall e, In e out -> e <> []) -> forall e, In e (fold_left read_row rows out) -> e <> []).
  { induction rows as [|r rows IH]; intros out Hout; cbn [fold_left]; [exact Hout|].
    apply IH. apply read_row_nonempty, Hout. }
  apply H. intros e [].
Qed.
