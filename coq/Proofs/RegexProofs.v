(* The parser of Model/Regex.v: the fuel is always enough, and parsing the printed
   form of an AST gives the AST back (up to `x ()` = x, which the parser cannot
   represent) - with the same language. *)
From Coq Require Import ZArith List Bool Lia.
From VC2 Require Import Model.Regex.
Import ListNotations.

Ltac inv H := inversion H; subst; clear H.

(* ---- fuel ---------------------------------------------------------------------- *)
Lemma parse_expr_mono f : forall ast md toks res f',
  parse_expr f ast md toks = res -> res <> inl EFuel -> f <= f' -> parse_expr f' ast md toks = res.
Proof.
  induction f as [| f IH]; intros ast md toks res f' H Hne Hle.
  - simpl in H. congruence.
  - destruct f' as [| f']; [lia |]. assert (Hle' : f <= f') by lia.
    simpl in *. destruct toks as [| t toks]; auto.
    destruct t; auto.
    + destruct md; auto.
    + destruct md; auto.
      destruct (parse_expr f Empty None toks) as [e | [l t']] eqn:E1.
      * assert (E2 : parse_expr f' Empty None toks = inl e) by (eapply IH; eauto; congruence).
        rewrite E2. auto.
      * assert (E2 : parse_expr f' Empty None toks = inr (l, t')) by (eapply IH; eauto; discriminate).
        rewrite E2. eapply IH; eauto.
    + destruct (parse_expr f Empty None toks) as [e | [l t']] eqn:E1.
      * assert (E2 : parse_expr f' Empty None toks = inl e) by (eapply IH; eauto; congruence).
        rewrite E2. auto.
      * assert (E2 : parse_expr f' Empty None toks = inr (l, t')) by (eapply IH; eauto; discriminate).
        rewrite E2. destruct t'; auto.
Qed.

Lemma parse_expr_fuel f : forall ast md toks, length toks < f ->
  parse_expr f ast md toks <> inl EFuel /\
  forall a t', parse_expr f ast md toks = inr (a, t') -> length t' <= length toks.
Proof.
  induction f as [| f IH]; intros ast md toks Hf; [lia |].
  assert (Fin : (match md with
                 | Some _ => match toks with [] => inl EModifierAtStart | _ => inl EModifierBeforeLP end
                 | None => inr (ast, toks)
                 end : perr + (re * list token)) <> inl EFuel /\
                forall a t', match md with
                 | Some _ => match toks with [] => inl EModifierAtStart | _ => inl EModifierBeforeLP end
                 | None => inr (ast, toks)
                 end = inr (a, t') -> length t' <= length toks).
  { destruct md; [destruct toks |]; split; try discriminate; intros a t' H; inv H; auto. }
  simpl. destruct toks as [| t toks]; auto.
  simpl in Hf.
  destruct t; auto.
  - destruct (IH (push (apply_mod md (Sym s)) ast) None toks) as (N1 & L1); [lia |].
    split; auto. intros a t' H. apply L1 in H. simpl. lia.
  - destruct (IH (push (apply_mod md Any) ast) None toks) as (N1 & L1); [lia |].
    split; auto. intros a t' H. apply L1 in H. simpl. lia.
  - destruct (IH (push (apply_mod md Eos) ast) None toks) as (N1 & L1); [lia |].
    split; auto. intros a t' H. apply L1 in H. simpl. lia.
  - destruct md; [split; discriminate |].
    destruct (IH ast (Some m) toks) as (N1 & L1); [lia |].
    split; auto. intros a t' H. apply L1 in H. simpl. lia.
  - destruct md; [split; discriminate |].
    destruct (IH Empty None toks) as (N1 & L1); [lia |].
    destruct (parse_expr f Empty None toks) as [e | [l t1]] eqn:E1.
    + split; [congruence | discriminate].
    + specialize (L1 _ _ eq_refl).
      destruct (IH (Alt l ast) None t1) as (N2 & L2); [lia |].
      split; auto. intros a t' H. apply L2 in H. simpl. lia.
  - destruct (IH Empty None toks) as (N1 & L1); [lia |].
    destruct (parse_expr f Empty None toks) as [e | [l t1]] eqn:E1.
    + split; [congruence | discriminate].
    + specialize (L1 _ _ eq_refl).
      destruct t1 as [| x t2]; [split; discriminate |]. simpl in L1.
      destruct (IH (push (apply_mod md l) ast) None t2) as (N2 & L2); [lia |].
      split; auto. intros a t' H. apply L2 in H. simpl. lia.
Qed.

Theorem parse_fuel_enough toks : parse_regex toks <> inl EFuel.
Proof.
  unfold parse_regex.
  destruct (parse_expr_fuel (S (length toks)) Empty None (rev toks)) as (N1 & _).
  { rewrite rev_length. lia. }
  destruct (parse_expr _ _ _ _) as [e | [a [| x t]]]; congruence.
Qed.

(* ---- evaluation with enough fuel --------------------------------------------------- *)
Definition evals (ast : re) (md : option modifier) (toks : list token) (res : perr + (re * list token)) :=
  exists f0, forall f, f0 <= f -> parse_expr f ast md toks = res.

Definition stops (toks : list token) : Prop :=
  match toks with [] => True | TLP :: _ => True | _ => False end.

Lemma evals_finish ast toks : stops toks -> evals ast None toks (inr (ast, toks)).
Proof.
  intros S. exists 1. intros f Hf. destruct f as [| f]; [lia |]. simpl.
  destruct toks as [| t toks]; auto. destruct t; simpl in S; try contradiction. auto.
Qed.

Lemma evals_leaf ast md t x res tok :
  (tok = TDot /\ x = Any) \/ (tok = TDollar /\ x = Eos) \/ (exists s, tok = TStr s /\ x = Sym s) ->
  evals (push (apply_mod md x) ast) None t res -> evals ast md (tok :: t) res.
Proof.
  intros Hk (f0 & H). exists (S f0). intros f Hf. destruct f as [| f]; [lia |]. simpl.
  destruct Hk as [[-> ->] | [[-> ->] | (s & -> & ->)]]; apply H; lia.
Qed.

Lemma evals_mod ast m t res : evals ast (Some m) t res -> evals ast None (TMod m :: t) res.
Proof.
  intros (f0 & H). exists (S f0). intros f Hf. destruct f as [| f]; [lia |]. simpl. apply H. lia.
Qed.

Lemma evals_bar ast t l t' res :
  evals Empty None t (inr (l, t')) -> evals (Alt l ast) None t' res -> evals ast None (TBar :: t) res.
Proof.
  intros (f1 & H1) (f2 & H2). exists (S (Nat.max f1 f2)). intros f Hf. destruct f as [| f]; [lia |]. simpl.
  rewrite H1 by lia. apply H2. lia.
Qed.

Lemma evals_rp ast md t inner x t'' res :
  evals Empty None t (inr (inner, x :: t'')) -> evals (push (apply_mod md inner) ast) None t'' res ->
  evals ast md (TRP :: t) res.
Proof.
  intros (f1 & H1) (f2 & H2). exists (S (Nat.max f1 f2)). intros f Hf. destruct f as [| f]; [lia |]. simpl.
  rewrite H1 by lia. apply H2. lia.
Qed.

(* ---- printing then parsing ---------------------------------------------------------- *)
Fixpoint norm (r : re) : re :=
  match r with
  | Cat a b => push (norm a) (norm b)
  | Alt a b => Alt (norm a) (norm b)
  | Star a => Star (norm a)
  | x => x
  end.

Lemma push_empty x : push x Empty = x.
Proof. reflexivity. Qed.

Lemma group_evals r ast md rest res :
  (forall stop, stops stop -> evals Empty None (rev (print r) ++ stop) (inr (norm r, stop))) ->
  evals (push (apply_mod md (norm r)) ast) None rest res ->
  evals ast md (TRP :: rev (print r) ++ TLP :: rest) res.
Proof.
  intros C H. eapply evals_rp; [apply (C (TLP :: rest)); exact I | exact H].
Qed.

Lemma rev_print_cat a b stop :
  rev (print (Cat a b)) ++ stop = TRP :: rev (print b) ++ TLP :: TRP :: rev (print a) ++ TLP :: stop.
Proof.
  simpl. repeat (rewrite rev_app_distr; simpl). repeat (rewrite <- app_assoc; simpl). reflexivity.
Qed.

Lemma rev_print_alt a b stop :
  rev (print (Alt a b)) ++ stop = TRP :: rev (print b) ++ TLP :: TBar :: TRP :: rev (print a) ++ TLP :: stop.
Proof.
  simpl. repeat (rewrite rev_app_distr; simpl). repeat (rewrite <- app_assoc; simpl). reflexivity.
Qed.

Lemma rev_print_star a stop :
  rev (print (Star a)) ++ stop = TMod MStar :: TRP :: rev (print a) ++ TLP :: stop.
Proof.
  simpl. repeat (rewrite rev_app_distr; simpl). repeat (rewrite <- app_assoc; simpl). reflexivity.
Qed.

Lemma content_evals r : forall stop, stops stop ->
  evals Empty None (rev (print r) ++ stop) (inr (norm r, stop)).
Proof.
  induction r; intros stop S.
  - simpl. eapply evals_rp; [apply (evals_finish Empty (TLP :: stop)); exact I |].
    simpl. apply evals_finish; auto.
  - simpl. eapply evals_leaf; [right; right; eauto |]. simpl. apply evals_finish; auto.
  - simpl. eapply evals_leaf; [left; eauto |]. simpl. apply evals_finish; auto.
  - simpl. eapply evals_leaf; [right; left; eauto |]. simpl. apply evals_finish; auto.
  - rewrite rev_print_cat.
    apply group_evals; auto. simpl apply_mod. rewrite push_empty.
    apply group_evals; auto. simpl. apply evals_finish; auto.
  - rewrite rev_print_alt.
    apply group_evals; auto. simpl apply_mod. rewrite push_empty.
    eapply evals_bar.
    + apply group_evals; auto. simpl apply_mod. rewrite push_empty. apply evals_finish; auto.
    + simpl. apply evals_finish; auto.
  - rewrite rev_print_star.
    apply evals_mod. apply group_evals; auto. simpl. apply evals_finish; auto.
Qed.

Theorem parse_print r : parse_regex (print r) = inr (norm r).
Proof.
  unfold parse_regex.
  destruct (content_evals r [] I) as (f0 & H). rewrite app_nil_r in H.
  destruct (parse_expr_fuel (S (length (print r))) Empty None (rev (print r))) as (N1 & _).
  { rewrite rev_length. lia. }
  pose proof (parse_expr_mono _ _ _ _ _ (Nat.max f0 (S (length (print r)))) eq_refl N1 (Nat.le_max_r _ _)) as M.
  rewrite H in M by lia. rewrite <- M. reflexivity.
Qed.

(* norm only drops `()` on the right of a concatenation: same language *)
Lemma push_lang x y w : langE (push x y) w <-> langE (Cat x y) w.
Proof.
  unfold push. destruct y; simpl; try tauto. split.
  - intros H. rewrite <- (app_nil_r w). constructor; auto. constructor.
  - intros H. inv H. inv H4. rewrite app_nil_r. auto.
Qed.

Lemma star_congr a b : (forall w, langE a w <-> langE b w) -> forall w, langE (Star a) w -> langE (Star b) w.
Proof.
  intros Hab w H. remember (Star a) as s eqn:E. induction H; inv E.
  - constructor.
  - constructor; [apply Hab; auto | auto].
Qed.

Lemma norm_lang r : forall w, langE (norm r) w <-> langE r w.
Proof.
  induction r; intros w; simpl; try tauto.
  - rewrite push_lang. split; intros H; inv H; constructor; try apply IHr1; try apply IHr2; auto.
  - split; intros H; inv H; (apply LE_altl; apply IHr1; assumption) || (apply LE_altr; apply IHr2; assumption).
  - split; apply star_congr; intros; [| symmetry]; apply IHr.
Qed.

(* the printed form of every AST parses, to an AST with the same language *)
Theorem parse_print_lang r :
  exists r', parse_regex (print r) = inr r' /\ forall w, lang r' w <-> lang r w.
Proof.
  exists (norm r). split; [apply parse_print |].
  intros w. unfold lang. split; intros (k & H); exists k; apply norm_lang; auto.
Qed.
