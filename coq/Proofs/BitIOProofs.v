(* Proofs about Model/BitIO.v: property C20. *)
From Coq Require Import ZArith List Bool Lia ZifyBool.
From VC2 Require Import Base.PyZ Model.BitIO.
Import ListNotations.
Open Scope Z_scope.
Ltac Zify.zify_post_hook ::= Z.to_euclidean_division_equations.

(* ---- bounded blocks: what happens at and past the end ------------------- *)
Lemma r_read_past_end s k :
  r_rem s = Some k -> k <= 0 -> r_read_bit s = (r_set_rem s (Some (k - 1)), Ok 1).
Proof.
  intros Hr Hk. unfold r_read_bit. rewrite Hr.
  destruct (k - 1 <=? -1) eqn:E; [reflexivity|lia].
Qed.
