(* Proofs about Model/BitIO.v: property C20. *)
From Coq Require Import ZArith List Bool Lia ZifyBool.
From VC2 Require Import Base.PyZ Gen.ExpGolombLen Model.BitIO.
Import ListNotations.
Open Scope Z_scope.
Ltac Zify.zify_post_hook ::= Z.to_euclidean_division_equations.

(* ---------------------------------------------------------------- bit facts *)
Lemma land1_testbit c nb : 0 <= nb -> Z.land (Z.shiftr c nb) 1 = b2z (Z.testbit c nb).
Proof.
  intros H. change 1 with (Z.ones 1) at 1. rewrite Z.land_ones by lia.
  change (2 ^ 1) with 2. rewrite <- Z.bit0_mod. rewrite Z.shiftr_spec by lia.
  replace (0 + nb) with nb by lia. destruct (Z.testbit c nb); reflexivity.
Qed.

Lemma b2z_01 b : b2z b = 0 \/ b2z b = 1.
Proof. destruct b; cbn; lia. Qed.
Lemma z2b_b2z b : z2b (b2z b) = b.
Proof. destruct b; reflexivity. Qed.

Lemma nbits_list_length n v : length (nbits_list n v) = n.
Proof. induction n; cbn; congruence. Qed.

Lemma nbits_list_ext n x y :
  (forall i, 0 <= i -> Z.testbit x i = Z.testbit y i) -> nbits_list n x = nbits_list n y.
Proof. intros H. induction n; cbn; [reflexivity|]. rewrite IHn, H by lia. reflexivity. Qed.

Lemma nbits_list_snoc k x :
  nbits_list (S k) x = nbits_list k (Z.shiftr x 1) ++ [Z.testbit x 0].
Proof.
  induction k.
  - reflexivity.
  - change (nbits_list (S (S k)) x) with (Z.testbit x (Z.of_nat (S k)) :: nbits_list (S k) x).
    rewrite IHk. cbn [nbits_list app]. f_equal.
    rewrite Z.shiftr_spec by lia. f_equal. lia.
Qed.

Lemma bits_val_cons acc b l : bits_val acc (b :: l) = bits_val (2 * acc + b2z b) l.
Proof. reflexivity. Qed.

Lemma bits_val_app acc l1 l2 : bits_val acc (l1 ++ l2) = bits_val (bits_val acc l1) l2.
Proof. unfold bits_val. apply fold_left_app. Qed.

Lemma bits_val_nbits k x acc :
  bits_val acc (nbits_list k x) = acc * 2 ^ Z.of_nat k + x mod 2 ^ Z.of_nat k.
Proof.
  revert acc. induction k; intros acc.
  - cbn. rewrite Z.mod_1_r. lia.
  - cbn [nbits_list]. rewrite bits_val_cons, IHk.
    replace (Z.of_nat (S k)) with (Z.of_nat k + 1) by lia.
    rewrite Z.pow_add_r by lia. change (2 ^ 1) with 2.
    assert (Hp : 0 < 2 ^ Z.of_nat k) by (apply Z.pow_pos_nonneg; lia).
    rewrite (Z.rem_mul_r x (2 ^ Z.of_nat k) 2) by lia.
    assert (Hb : b2z (Z.testbit x (Z.of_nat k)) = (x / 2 ^ Z.of_nat k) mod 2).
    { rewrite <- (Z.testbit_spec' x (Z.of_nat k)) by lia.
      destruct (Z.testbit x (Z.of_nat k)); reflexivity. }
    rewrite Hb. ring.
Qed.

Lemma nbits_value n v : 0 <= v < 2 ^ Z.of_nat n -> bits_val 0 (nbits_list n v) = v.
Proof. intros H. rewrite bits_val_nbits. rewrite Z.mod_small by lia. lia. Qed.

Lemma bit_length_pos v : 0 < v -> bit_length v = Z.log2 v + 1.
Proof. destruct v; unfold bit_length; try lia; reflexivity. Qed.
Lemma bit_length_nonneg v : 0 <= bit_length v.
Proof. destruct v; unfold bit_length; try lia; pose proof (Z.log2_nonneg (Z.pos p)); lia. Qed.

Lemma uint_value v : 0 <= v ->
  bits_val 1 (nbits_list (Z.to_nat (bit_length (v + 1) - 1)) (v + 1)) - 1 = v.
Proof.
  intros H. rewrite bit_length_pos by lia.
  replace (Z.log2 (v + 1) + 1 - 1) with (Z.log2 (v + 1)) by lia.
  pose proof (Z.log2_nonneg (v + 1)) as Hl.
  pose proof (Z.log2_spec (v + 1) ltac:(lia)) as [L1 L2].
  rewrite bits_val_nbits, Z2Nat.id by lia.
  replace (Z.succ (Z.log2 (v + 1))) with (Z.log2 (v + 1) + 1) in L2 by lia.
  rewrite Z.pow_add_r in L2 by lia. change (2 ^ 1) with 2 in L2.
  set (p := 2 ^ Z.log2 (v + 1)) in *.
  assert (E : (v + 1) mod p = v + 1 - p).
  { symmetry. apply Z.mod_unique with (q := 1); lia. }
  rewrite E. lia.
Qed.

Lemma interleave0_length l : length (interleave0 l) = (2 * length l)%nat.
Proof. induction l; cbn; lia. Qed.

Lemma uint_bits_length v : 0 <= v -> Z.of_nat (length (uint_bits v)) = exp_golomb_length v.
Proof.
  intros H. unfold uint_bits, exp_golomb_length.
  rewrite app_length, interleave0_length, nbits_list_length. cbn [length].
  destruct (v <? 0) eqn:E; [lia|].
  pose proof (bit_length_pos (v + 1) ltac:(lia)). pose proof (Z.log2_nonneg (v + 1)). lia.
Qed.

Lemma sint_bits_length v : Z.of_nat (length (sint_bits v)) = signed_exp_golomb_length v.
Proof.
  unfold sint_bits, signed_exp_golomb_length. rewrite app_length, Nat2Z.inj_add.
  unfold py_abs. rewrite uint_bits_length by lia.
  destruct (v =? 0); cbn; lia.
Qed.

Lemma nbits_out_of_range n v :
  ((v <? 0) || (bit_length v >? n) = true) <-> (v < 0 \/ 2 ^ n <= v).
Proof.
  destruct (Z.ltb_spec v 0) as [Hv|Hv]; cbn [orb]; [split; [lia|reflexivity]|].
  pose proof (bit_length_nonneg v) as Hb.
  destruct (Z.ltb_spec n 0) as [Hn|Hn].
  - rewrite Z.pow_neg_r by lia. split; [lia|]. intros _. lia.
  - destruct (Z.eq_dec v 0) as [->|Hv0].
    + cbn. pose proof (Z.pow_pos_nonneg 2 n ltac:(lia) Hn). split; lia.
    + rewrite bit_length_pos by lia.
      pose proof (Z.log2_le_pow2 v n ltac:(lia)) as L.
      split; intros K.
      * right. apply L. lia.
      * destruct K as [K|K]; [lia|]. apply L in K. lia.
Qed.

(* ---------------------------------------------------------- generic loops *)
Section Generic.
  Context {St : Type}.
  Variable rb : St -> St * res Z.

  Inductive feeds : St -> list bool -> St -> Prop :=
  | feeds_nil s : feeds s [] s
  | feeds_cons s s1 s' b l : rb s = (s1, Ok (b2z b)) -> feeds s1 l s' -> feeds s (b :: l) s'.

  Lemma feeds_nil_inv s s' : feeds s [] s' -> s' = s.
  Proof. inversion 1; reflexivity. Qed.
  Lemma feeds_cons_inv s b l s' : feeds s (b :: l) s' -> exists s1, rb s = (s1, Ok (b2z b)) /\ feeds s1 l s'.
  Proof. inversion 1; subst; eauto. Qed.

  Lemma feeds_app s l1 l2 m s' : feeds s l1 m -> feeds m l2 s' -> feeds s (l1 ++ l2) s'.
  Proof. induction 1; intros; cbn; [assumption|]. econstructor; eauto. Qed.

  Lemma feeds_app_inv l1 : forall s l2 s', feeds s (l1 ++ l2) s' -> exists m, feeds s l1 m /\ feeds m l2 s'.
  Proof.
    induction l1; cbn; intros s l2 s' H.
    - exists s. split; [constructor|assumption].
    - inversion H; subst. destruct (IHl1 _ _ _ H5) as [m [A B]].
      exists m. split; [econstructor; eauto|assumption].
  Qed.

  Lemma g_nbits_feeds comb :
    (forall a b, comb (Z.shiftl a 1) (b2z b) = 2 * a + b2z b) ->
    forall l acc s s', feeds s l s' -> g_nbits rb comb (length l) acc s = (s', Ok (bits_val acc l)).
  Proof.
    intros Hc. induction l; intros acc s s' H; inversion H; subst; cbn [length g_nbits].
    - reflexivity.
    - rewrite H3. cbn [bind]. rewrite Hc. rewrite bits_val_cons. apply IHl. assumption.
  Qed.

  Lemma g_bitlist_feeds : forall l s s', feeds s l s' -> g_bitlist rb (length l) s = (s', Ok (map b2z l)).
  Proof.
    induction l; intros s s' H; inversion H; subst; cbn [length g_bitlist map].
    - reflexivity.
    - rewrite H3. cbn [bind]. rewrite (IHl _ _ H5). reflexivity.
  Qed.

  Lemma g_uint_feeds : forall l acc s s' extra,
    feeds s (interleave0 l ++ [true]) s' ->
    g_uint rb (S (length l + extra)) acc s = (s', Ok (bits_val acc l - 1)).
  Proof.
    induction l; intros acc s s' extra H.
    - cbn in H. inversion H; subst. inversion H5; subst.
      cbn [g_uint]. rewrite H3. cbn. reflexivity.
    - cbn [interleave0 app] in H. inversion H; subst. inversion H5; subst.
      cbn [length plus g_uint]. rewrite H3. cbn [bind b2z z2b Z.eqb negb].
      rewrite H4. cbn [bind]. rewrite bits_val_cons.
      rewrite Z.shiftl_mul_pow2 by lia. change (2 ^ 1) with 2.
      replace (acc * 2 + b2z a) with (2 * acc + b2z a) by lia.
      apply IHl. assumption.
  Qed.

  Lemma g_uint_mono : forall f v s s' r,
    g_uint rb f v s = (s', r) -> r <> Err EFuel -> forall f', (f <= f')%nat -> g_uint rb f' v s = (s', r).
  Proof.
    induction f; intros v s s' r H Hr f' Hf.
    - cbn in H. inversion H; subst. congruence.
    - destruct f' as [|f']; [lia|]. cbn [g_uint] in *.
      destruct (rb s) as [s1 [b|e]]; cbn [bind] in *; [|assumption].
      destruct (z2b b); [assumption|].
      destruct (rb s1) as [s2 [b2|e2]]; cbn [bind] in *; [|assumption].
      eapply IHf; eauto. lia.
  Qed.

  Lemma g_uint_fuel_irrelevant f1 f2 v s s1 r1 :
    g_uint rb f1 v s = (s1, r1) -> r1 <> Err EFuel -> snd (g_uint rb f2 v s) <> Err EFuel ->
    g_uint rb f2 v s = (s1, r1).
  Proof.
    intros H1 Hr1 H2. destruct (le_ge_dec f1 f2) as [L|L].
    - eapply g_uint_mono; eauto.
    - destruct (g_uint rb f2 v s) as [s2 r2] eqn:E. cbn in H2.
      pose proof (g_uint_mono _ _ _ _ _ E H2 f1 L) as K. congruence.
  Qed.

  Lemma g_sint_feeds v fuel s s' :
    feeds s (sint_bits v) s' ->
    (forall m, feeds s (uint_bits (Z.abs v)) m -> g_uint rb fuel 1 s = (m, Ok (Z.abs v))) ->
    g_sint rb fuel s = (s', Ok v).
  Proof.
    intros H Hu. unfold sint_bits in H. apply feeds_app_inv in H. destruct H as [m [A B]].
    unfold g_sint. rewrite (Hu _ A). cbn [bind].
    destruct (v =? 0) eqn:E.
    - apply feeds_nil_inv in B. subst. replace (Z.abs v =? 0) with true by lia. f_equal. f_equal. lia.
    - replace (Z.abs v =? 0) with false by lia. apply feeds_cons_inv in B. destruct B as [s2 [B1 B2]].
      apply feeds_nil_inv in B2. subst.
      rewrite B1. cbn [bind]. rewrite z2b_b2z. f_equal. f_equal.
      destruct (v <? 0) eqn:E2; lia.
  Qed.

  (* the exp-Golomb loop cannot run out of fuel when every 0 bit read consumes input *)
  Variable good : St -> Prop.
  Variable meas : St -> nat.
  Hypothesis Hstep : forall s s' b, good s -> rb s = (s', Ok b) ->
    good s' /\ (meas s' <= meas s)%nat /\ (b = 0 -> (meas s' < meas s)%nat).
  Hypothesis Hnofuel : forall s s' e, rb s = (s', Err e) -> e <> EFuel.

  Lemma g_uint_no_fuel : forall f v s, good s -> (meas s < f)%nat -> snd (g_uint rb f v s) <> Err EFuel.
  Proof.
    induction f; intros v s G M; [lia|]. cbn [g_uint].
    destruct (rb s) as [s1 [b|e]] eqn:E1; cbn [bind].
    - destruct (Hstep _ _ _ G E1) as [G1 [M1 Z1]].
      destruct (z2b b) eqn:Eb; [cbn; congruence|].
      assert (b = 0) by (unfold z2b in Eb; lia).
      destruct (rb s1) as [s2 [b2|e2]] eqn:E2; cbn [bind].
      + destruct (Hstep _ _ _ G1 E2) as [G2 [M2 _]]. apply IHf; [assumption|]. specialize (Z1 H). lia.
      + cbn. intros K. inversion K. eapply Hnofuel; eauto.
    - cbn. intros K. inversion K. eapply Hnofuel; eauto.
  Qed.

End Generic.

(* ------------------------------------------------------------ file lemmas *)
Lemma skipn_nth_some (f : list Z) n c :
  nth_error f n = Some c -> skipn n f = c :: skipn (S n) f.
Proof.
  revert f. induction n; intros [|x f] H; cbn in *; try discriminate.
  - inversion H; reflexivity.
  - apply IHn. assumption.
Qed.
Lemma skipn_nth_none (f : list Z) n : nth_error f n = None -> skipn n f = [].
Proof. intros H. apply skipn_all2. apply nth_error_None. assumption. Qed.

Lemma nth_z_some f i c : 0 <= i -> nth_z f i = Some c ->
  skipn (Z.to_nat i) f = c :: skipn (Z.to_nat (i + 1)) f.
Proof.
  intros Hi H. unfold nth_z in H. destruct (i <? 0) eqn:E; [lia|].
  replace (Z.to_nat (i + 1)) with (S (Z.to_nat i)) by lia. apply skipn_nth_some. assumption.
Qed.
Lemma nth_z_none f i : 0 <= i -> nth_z f i = None -> skipn (Z.to_nat i) f = [].
Proof.
  intros Hi H. unfold nth_z in H. destruct (i <? 0) eqn:E; [lia|]. apply skipn_nth_none. assumption.
Qed.

(* ------------------------------------------------------- BitstreamReader *)
Definition r_wf (s : rst) : Prop := 0 <= r_nb s <= 7 /\ 0 <= r_off s.

Lemma r_get_spec s : r_wf s ->
  match r_view s with
  | [] => r_get s = (s, Err EEof)
  | b :: t => exists s', r_get s = (s', Ok (b2z b)) /\ r_view s' = t /\ r_wf s' /\ r_rem s' = r_rem s
                         /\ r_bitpos s' = r_bitpos s + 1 /\ r_file s' = r_file s /\ (t = [] -> r_nb s' = 7)
  end.
Proof.
  destruct s as [f off nb cur rem]. unfold r_wf, r_view, r_get, r_bitpos, to_bit_offset. cbn [r_nb r_off r_cur r_file r_rem].
  intros [Hnb Hoff]. destruct cur as [c|]; [|reflexivity].
  replace (Z.to_nat (nb + 1)) with (S (Z.to_nat nb)) by lia.
  cbn [nbits_list app]. rewrite Z2Nat.id by lia.
  rewrite land1_testbit by lia.
  destruct (nb - 1 <? 0) eqn:E.
  - assert (nb = 0) by lia. subst nb. cbn [Z.to_nat nbits_list app].
    unfold r_read_byte. cbn [r_nb r_off r_cur r_file r_rem].
    eexists. split; [reflexivity|]. cbn [r_nb r_off r_cur r_file r_rem].
    split.
    + destruct (nth_z f off) as [c'|] eqn:En.
      * rewrite (nth_z_some _ _ _ Hoff En). reflexivity.
      * rewrite (nth_z_none _ _ Hoff En). reflexivity.
    + repeat split; lia.
  - eexists. split; [reflexivity|]. cbn [r_nb r_off r_cur r_file r_rem].
    replace (Z.to_nat (nb - 1 + 1)) with (Z.to_nat nb) by lia.
    repeat split; try lia.
    intros K. exfalso. replace (Z.to_nat nb) with (S (Z.to_nat (nb - 1))) in K by lia. cbn in K. discriminate.
Qed.

Lemma r_read_bit_unb s : r_rem s = None -> r_read_bit s = r_get s.
Proof. intros H. unfold r_read_bit. rewrite H. reflexivity. Qed.

Lemma r_feeds_unb : forall l s rest, r_wf s -> r_rem s = None -> r_view s = l ++ rest ->
  exists s', feeds r_read_bit s l s' /\ r_wf s' /\ r_rem s' = None /\ r_view s' = rest
             /\ r_bitpos s' = r_bitpos s + Z.of_nat (length l) /\ r_file s' = r_file s.
Proof.
  induction l; intros s rest W R V.
  - exists s. cbn in *. repeat split; try assumption; try constructor; try apply W; lia.
  - pose proof (r_get_spec s W) as G. rewrite V in G. cbn [app] in G.
    destruct G as [s1 [G1 [G2 [G3 [G4 [G5 [G6 _]]]]]]].
    destruct (IHl s1 rest G3 ltac:(congruence) G2) as [s' [F [W' [R' [V' [P' F']]]]]].
    exists s'. repeat split; try assumption; try apply W'.
    + econstructor; [|exact F]. rewrite r_read_bit_unb by assumption. exact G1.
    + cbn [length]. lia.
    + congruence.
Qed.

Lemma lor_comb a b : Z.lor (Z.shiftl a 1) (b2z b) = 2 * a + b2z b.
Proof.
  rewrite Z.shiftl_mul_pow2 by lia. change (2 ^ 1) with 2.
  destruct b; cbn [b2z].
  - assert (L : Z.land (a * 2) 1 = 0).
    { change 1 with (Z.ones 1). rewrite Z.land_ones by lia. change (2 ^ 1) with 2.
      apply Z.mod_mul. lia. }
    rewrite <- Z.lxor_lor by exact L. rewrite <- Z.add_nocarry_lxor by exact L. lia.
  - rewrite Z.lor_0_r. lia.
Qed.
Lemma add_comb a b : Z.add (Z.shiftl a 1) (b2z b) = 2 * a + b2z b.
Proof. rewrite Z.shiftl_mul_pow2 by lia. change (2 ^ 1) with 2. lia. Qed.

(* good/measure instance for the fuel of read_uint: bounded or not *)
Lemma r_read_bit_step s s' b : r_wf s -> r_read_bit s = (s', Ok b) ->
  r_wf s' /\ (length (r_view s') <= length (r_view s))%nat /\ (b = 0 -> (length (r_view s') < length (r_view s))%nat).
Proof.
  intros W H. unfold r_read_bit in H.
  assert (G : forall s0, r_wf s0 -> r_get s0 = (s', Ok b) ->
              r_wf s' /\ (length (r_view s') < length (r_view s0))%nat).
  { intros s0 W0 H0. pose proof (r_get_spec s0 W0) as G. destruct (r_view s0) as [|x t].
    - congruence.
    - destruct G as [s1 [G1 [G2 [G3 _]]]]. rewrite G1 in H0. inversion H0; subst. cbn [length]. split; [assumption|lia]. }
  destruct (r_rem s) as [r|] eqn:R.
  - destruct (r - 1 <=? -1).
    + inversion H; subst. split; [exact W|]. split; [reflexivity|]. intros K; discriminate.
    + destruct (G (r_set_rem s (Some (r - 1))) W H) as [A B]. split; [assumption|].
      change (r_view (r_set_rem s (Some (r - 1)))) with (r_view s) in B. split; lia.
  - destruct (G s W H) as [A B]. split; [assumption|]. split; lia.
Qed.
Lemma r_read_bit_nofuel s s' e : r_read_bit s = (s', Err e) -> e <> EFuel.
Proof.
  unfold r_read_bit, r_get. intros H.
  destruct (r_rem s) as [r|].
  - destruct (r - 1 <=? -1); [discriminate|].
    cbn [r_cur r_set_rem] in H. destruct (r_cur s); inversion H; discriminate.
  - destruct (r_cur s); inversion H; discriminate.
Qed.

Lemma r_read_uint_no_fuel s : r_wf s -> snd (r_read_uint s) <> Err EFuel.
Proof.
  intros W. unfold r_read_uint, r_fuel.
  apply (g_uint_no_fuel r_read_bit r_wf (fun s => length (r_view s))).
  - intros. apply r_read_bit_step; assumption.
  - apply r_read_bit_nofuel.
  - assumption.
  - lia.
Qed.

(* round trips: BitstreamReader, outside bounded blocks *)
Definition r_reads {A} (m : rst * res A) (s : rst) (v : A) (n : nat) (rest : list bool) : Prop :=
  exists s', m = (s', Ok v) /\ r_view s' = rest /\ r_wf s' /\ r_rem s' = None
             /\ r_bitpos s' = r_bitpos s + Z.of_nat n /\ r_file s' = r_file s.

Lemma r_nbits_roundtrip n v s rest : r_wf s -> r_rem s = None -> 0 <= n -> 0 <= v < 2 ^ n ->
  r_view s = nbits_list (Z.to_nat n) v ++ rest ->
  r_reads (r_read_nbits n s) s v (Z.to_nat n) rest.
Proof.
  intros W R Hn Hv V. destruct (r_feeds_unb _ _ _ W R V) as [s' [F [W' [R' [V' [P' F']]]]]].
  exists s'. rewrite nbits_list_length in P'. repeat split; try assumption; try apply W'.
  unfold r_read_nbits. pose proof (g_nbits_feeds r_read_bit Z.lor lor_comb _ 0 _ _ F) as G.
  rewrite nbits_list_length in G. rewrite G. rewrite nbits_value; [reflexivity|].
  rewrite Z2Nat.id by lia. assumption.
Qed.

Lemma r_uint_roundtrip v s rest : r_wf s -> r_rem s = None -> 0 <= v ->
  r_view s = uint_bits v ++ rest ->
  r_reads (r_read_uint s) s v (length (uint_bits v)) rest.
Proof.
  intros W R Hv V. destruct (r_feeds_unb _ _ _ W R V) as [s' [F [W' [R' [V' [P' F']]]]]].
  exists s'. repeat split; try assumption; try apply W'.
  unfold r_read_uint. unfold uint_bits in F.
  pose proof (g_uint_feeds r_read_bit _ 1 _ _ 0%nat F) as G.
  rewrite uint_value in G by assumption.
  eapply g_uint_fuel_irrelevant; [exact G|discriminate|].
  apply r_read_uint_no_fuel. assumption.
Qed.

Lemma r_sint_roundtrip v s rest : r_wf s -> r_rem s = None ->
  r_view s = sint_bits v ++ rest ->
  r_reads (r_read_sint s) s v (length (sint_bits v)) rest.
Proof.
  intros W R V. destruct (r_feeds_unb _ _ _ W R V) as [s' [F [W' [R' [V' [P' F']]]]]].
  exists s'. repeat split; try assumption; try apply W'.
  unfold r_read_sint. apply g_sint_feeds with (v := v); [assumption|].
  intros m Fm. unfold uint_bits in Fm.
  pose proof (g_uint_feeds r_read_bit _ 1 _ _ 0%nat Fm) as G.
  rewrite uint_value in G by lia.
  eapply g_uint_fuel_irrelevant; [exact G|discriminate|].
  apply r_read_uint_no_fuel. assumption.
Qed.

Lemma r_bitarray_roundtrip (l : list bool) s rest : r_wf s -> r_rem s = None ->
  r_view s = l ++ rest ->
  r_reads (r_read_bitarray (Z.of_nat (length l)) s) s (map b2z l) (length l) rest.
Proof.
  intros W R V. destruct (r_feeds_unb _ _ _ W R V) as [s' [F [W' [R' [V' [P' F']]]]]].
  exists s'. repeat split; try assumption; try apply W'.
  unfold r_read_bitarray. rewrite Nat2Z.id. apply g_bitlist_feeds. assumption.
Qed.

Lemma bits_to_bytes_spec (l : list Z) :
  Forall (fun b => 0 <= b < 256) l ->
  bits_to_bytes (map b2z (flat_map (nbits_list 8) l)) = l.
Proof.
  induction 1 as [|b l Hb Hl IH]; [reflexivity|].
  cbn [flat_map]. change (nbits_list 8 b) with
    [Z.testbit b 7; Z.testbit b 6; Z.testbit b 5; Z.testbit b 4; Z.testbit b 3; Z.testbit b 2; Z.testbit b 1; Z.testbit b 0].
  cbn [app map bits_to_bytes]. rewrite IH. f_equal.
  pose proof (nbits_value 8 b) as N. change (2 ^ Z.of_nat 8) with 256 in N. specialize (N Hb).
  change (nbits_list 8 b) with
    [Z.testbit b 7; Z.testbit b 6; Z.testbit b 5; Z.testbit b 4; Z.testbit b 3; Z.testbit b 2; Z.testbit b 1; Z.testbit b 0] in N.
  unfold bits_val in N. cbn [fold_left] in N. lia.
Qed.

Lemma r_bytes_roundtrip (l : list Z) s rest : r_wf s -> r_rem s = None ->
  Forall (fun b => 0 <= b < 256) l ->
  r_view s = flat_map (nbits_list 8) l ++ rest ->
  r_reads (r_read_bytes (Z.of_nat (length l)) s) s l (8 * length l) rest.
Proof.
  intros W R Hl V.
  assert (Len : length (flat_map (nbits_list 8) l) = (8 * length l)%nat).
  { clear. induction l; [reflexivity|]. cbn [flat_map length]. rewrite app_length, nbits_list_length. lia. }
  destruct (r_bitarray_roundtrip _ _ _ W R V) as [s' [E [V' [W' [R' [P' F']]]]]].
  exists s'. rewrite Len in *. repeat split; try assumption; try apply W'.
  unfold r_read_bytes. replace (Z.of_nat (length l) * 8) with (Z.of_nat (8 * length l)) by lia.
  rewrite E. cbn [bind]. rewrite bits_to_bytes_spec by assumption. reflexivity.
Qed.

(* ---------------------------------------------------------- decoder reader *)
Definition d_wf (s : dst) : Prop := 0 <= d_nb s <= 7 /\ 0 <= d_pos s.

Lemma d_read_bit_spec s : d_wf s ->
  match d_view s with
  | [] => d_read_bit s = (s, Err EUnexpectedEOS)
  | b :: t => exists s', d_read_bit s = (s', Ok (b2z b)) /\ d_view s' = t /\ d_wf s' /\ d_left s' = d_left s
                         /\ d_bitpos s' = d_bitpos s + 1 /\ d_file s' = d_file s
  end.
Proof.
  destruct s as [f pos nb cur left rec]. unfold d_wf, d_view, d_read_bit, d_bitpos, d_tell, to_bit_offset.
  cbn [d_nb d_pos d_cur d_file d_left d_rec fst snd].
  intros [Hnb Hpos]. destruct cur as [c|]; [|reflexivity].
  replace (Z.to_nat (nb + 1)) with (S (Z.to_nat nb)) by lia.
  cbn [nbits_list app]. rewrite Z2Nat.id by lia.
  rewrite land1_testbit by lia.
  destruct (nb - 1 <? 0) eqn:E.
  - assert (nb = 0) by lia. subst nb. cbn [Z.to_nat nbits_list app].
    unfold d_read_byte. cbn [d_nb d_pos d_cur d_file d_left d_rec].
    destruct (nth_z f pos) as [c'|] eqn:En.
    + eexists. split; [reflexivity|]. cbn [d_nb d_pos d_cur d_file d_left d_rec fst snd].
      rewrite (nth_z_some _ _ _ Hpos En). repeat split; lia.
    + eexists. split; [reflexivity|]. cbn [d_nb d_pos d_cur d_file d_left d_rec fst snd].
      rewrite (nth_z_none _ _ Hpos En). repeat split; lia.
  - eexists. split; [reflexivity|]. cbn [d_nb d_pos d_cur d_file d_left d_rec fst snd].
    replace (Z.to_nat (nb - 1 + 1)) with (Z.to_nat nb) by lia.
    repeat split; lia.
Qed.

Lemma d_feeds_unb : forall l s rest, d_wf s -> d_view s = l ++ rest ->
  exists s', feeds d_read_bit s l s' /\ d_wf s' /\ d_left s' = d_left s /\ d_view s' = rest
             /\ d_bitpos s' = d_bitpos s + Z.of_nat (length l) /\ d_file s' = d_file s.
Proof.
  induction l; intros s rest W V.
  - exists s. cbn in *. repeat split; try assumption; try constructor; try apply W; lia.
  - pose proof (d_read_bit_spec s W) as G. rewrite V in G. cbn [app] in G.
    destruct G as [s1 [G1 [G2 [G3 [G4 [G5 G6]]]]]].
    destruct (IHl s1 rest G3 G2) as [s' [F [W' [R' [V' [P' F']]]]]].
    exists s'. repeat split; try assumption; try apply W'.
    + econstructor; [exact G1|exact F].
    + congruence.
    + cbn [length]. lia.
    + congruence.
Qed.

Lemma d_read_bitb_step s s' b : d_wf s -> d_read_bitb s = (s', Ok b) ->
  d_wf s' /\ (length (d_view s') <= length (d_view s))%nat /\ (b = 0 -> (length (d_view s') < length (d_view s))%nat).
Proof.
  intros W H. unfold d_read_bitb in H. destruct (d_left s =? 0).
  - inversion H; subst. split; [exact W|]. split; [reflexivity|discriminate].
  - set (s0 := d_set_left s (d_left s - 1)) in *.
    assert (W0 : d_wf s0) by exact W.
    pose proof (d_read_bit_spec s0 W0) as G. change (d_view s0) with (d_view s) in G.
    destruct (d_view s) as [|x t]; [congruence|].
    destruct G as [s1 [G1 [G2 [G3 _]]]]. rewrite G1 in H. inversion H; subst. cbn [length]. split; [assumption|]. split; lia.
Qed.
Lemma d_read_bit_step s s' b : d_wf s -> d_read_bit s = (s', Ok b) ->
  d_wf s' /\ (length (d_view s') <= length (d_view s))%nat /\ (b = 0 -> (length (d_view s') < length (d_view s))%nat).
Proof.
  intros W H. pose proof (d_read_bit_spec s W) as G.
  destruct (d_view s) as [|x t]; [congruence|].
  destruct G as [s1 [G1 [G2 [G3 _]]]]. rewrite G1 in H. inversion H; subst. cbn [length]. split; [assumption|]. split; lia.
Qed.
Lemma d_read_bit_nofuel s s' e : d_read_bit s = (s', Err e) -> e <> EFuel.
Proof. unfold d_read_bit. destruct (d_cur s); intros H; inversion H; discriminate. Qed.
Lemma d_read_bitb_nofuel s s' e : d_read_bitb s = (s', Err e) -> e <> EFuel.
Proof. unfold d_read_bitb. destruct (d_left s =? 0); [discriminate|]. apply d_read_bit_nofuel. Qed.

Lemma d_read_uint_no_fuel s : d_wf s -> snd (d_read_uint s) <> Err EFuel.
Proof.
  intros W. unfold d_read_uint, d_fuel.
  apply (g_uint_no_fuel d_read_bit d_wf (fun s => length (d_view s))).
  - intros. apply d_read_bit_step; assumption.
  - apply d_read_bit_nofuel.
  - assumption.
  - lia.
Qed.
Lemma d_read_uintb_no_fuel s : d_wf s -> snd (d_read_uintb s) <> Err EFuel.
Proof.
  intros W. unfold d_read_uintb, d_fuel.
  apply (g_uint_no_fuel d_read_bitb d_wf (fun s => length (d_view s))).
  - intros. apply d_read_bitb_step; assumption.
  - apply d_read_bitb_nofuel.
  - assumption.
  - lia.
Qed.

Definition d_reads {A} (m : dst * res A) (s : dst) (v : A) (n : nat) (rest : list bool) : Prop :=
  exists s', m = (s', Ok v) /\ d_view s' = rest /\ d_wf s' /\ d_left s' = d_left s
             /\ d_bitpos s' = d_bitpos s + Z.of_nat n /\ d_file s' = d_file s.

Lemma d_nbits_roundtrip n v s rest : d_wf s -> 0 <= n -> 0 <= v < 2 ^ n ->
  d_view s = nbits_list (Z.to_nat n) v ++ rest ->
  d_reads (d_read_nbits n s) s v (Z.to_nat n) rest.
Proof.
  intros W Hn Hv V. destruct (d_feeds_unb _ _ _ W V) as [s' [F [W' [R' [V' [P' F']]]]]].
  exists s'. rewrite nbits_list_length in P'. repeat split; try assumption; try apply W'.
  unfold d_read_nbits. pose proof (g_nbits_feeds d_read_bit Z.add add_comb _ 0 _ _ F) as G.
  rewrite nbits_list_length in G. rewrite G. rewrite nbits_value; [reflexivity|].
  rewrite Z2Nat.id by lia. assumption.
Qed.

Lemma d_uint_roundtrip v s rest : d_wf s -> 0 <= v ->
  d_view s = uint_bits v ++ rest ->
  d_reads (d_read_uint s) s v (length (uint_bits v)) rest.
Proof.
  intros W Hv V. destruct (d_feeds_unb _ _ _ W V) as [s' [F [W' [R' [V' [P' F']]]]]].
  exists s'. repeat split; try assumption; try apply W'.
  unfold d_read_uint. unfold uint_bits in F.
  pose proof (g_uint_feeds d_read_bit _ 1 _ _ 0%nat F) as G.
  rewrite uint_value in G by assumption.
  eapply g_uint_fuel_irrelevant; [exact G|discriminate|].
  apply d_read_uint_no_fuel. assumption.
Qed.

Lemma d_sint_roundtrip v s rest : d_wf s ->
  d_view s = sint_bits v ++ rest ->
  d_reads (d_read_sint s) s v (length (sint_bits v)) rest.
Proof.
  intros W V. destruct (d_feeds_unb _ _ _ W V) as [s' [F [W' [R' [V' [P' F']]]]]].
  exists s'. repeat split; try assumption; try apply W'.
  unfold d_read_sint. apply g_sint_feeds with (v := v); [assumption|].
  intros m Fm. unfold uint_bits in Fm.
  pose proof (g_uint_feeds d_read_bit _ 1 _ _ 0%nat Fm) as G.
  rewrite uint_value in G by lia.
  eapply g_uint_fuel_irrelevant; [exact G|discriminate|].
  apply d_read_uint_no_fuel. assumption.
Qed.

(* ------------------------------------------- bounded blocks: the end of a block *)
Lemma r_read_past_end s k :
  r_rem s = Some k -> k <= 0 -> r_read_bit s = (r_set_rem s (Some (k - 1)), Ok 1).
Proof.
  intros Hr Hk. unfold r_read_bit. rewrite Hr.
  destruct (k - 1 <=? -1) eqn:E; [reflexivity|lia].
Qed.
Lemma r_read_inside s k :
  r_rem s = Some k -> 0 < k -> r_read_bit s = r_get (r_set_rem s (Some (k - 1))).
Proof.
  intros Hr Hk. unfold r_read_bit. rewrite Hr.
  destruct (k - 1 <=? -1) eqn:E; [lia|reflexivity].
Qed.
Lemma w_write_past_end s k b :
  w_rem s = Some k -> k <= 0 ->
  w_write_bit b s = (w_set_rem s (Some (k - 1)), if b then None else Some EValue).
Proof.
  intros Hr Hk. unfold w_write_bit. rewrite Hr.
  destruct (k - 1 <=? -1) eqn:E; [reflexivity|lia].
Qed.
Lemma w_write_inside s k b :
  w_rem s = Some k -> 0 < k -> w_write_bit b s = (w_put b (w_set_rem s (Some (k - 1))), None).
Proof.
  intros Hr Hk. unfold w_write_bit. rewrite Hr.
  destruct (k - 1 <=? -1) eqn:E; [lia|reflexivity].
Qed.
Lemma d_read_past_end s : d_left s = 0 -> d_read_bitb s = (s, Ok 1).
Proof. intros H. unfold d_read_bitb. rewrite H. reflexivity. Qed.
Lemma d_read_inside s : d_left s <> 0 -> d_read_bitb s = d_read_bit (d_set_left s (d_left s - 1)).
Proof. intros H. unfold d_read_bitb. destruct (d_left s =? 0) eqn:E; [lia|reflexivity]. Qed.

(* past the end every primitive of BitstreamReader sees only 1s and moves nothing but the counter *)
Lemma r_feeds_past_end : forall n s k, r_rem s = Some k -> k <= 0 ->
  feeds r_read_bit s (repeat true n) (r_set_rem s (Some (k - Z.of_nat n))).
Proof.
  induction n; intros s k R K.
  - cbn [repeat]. replace (k - Z.of_nat 0) with k by lia.
    replace (r_set_rem s (Some k)) with s; [constructor|]. destruct s; unfold r_set_rem; cbn in *; subst; reflexivity.
  - cbn [repeat]. econstructor.
    + apply r_read_past_end; eassumption.
    + specialize (IHn (r_set_rem s (Some (k - 1))) (k - 1) eq_refl ltac:(lia)).
      replace (k - Z.of_nat (S n)) with (k - 1 - Z.of_nat n) by lia. exact IHn.
Qed.

Lemma r_uint_past_end s k : r_wf s -> r_rem s = Some k -> k <= 0 ->
  r_read_uint s = (r_set_rem s (Some (k - 1)), Ok 0).
Proof.
  intros W R K. unfold r_read_uint, r_fuel. cbn [g_uint].
  rewrite (r_read_past_end _ _ R K). reflexivity.
Qed.
Lemma block_end_value_r s k : r_rem s = Some k -> r_block_end s = (r_set_rem s None, Ok (Z.max 0 k)).
Proof. intros H. unfold r_block_end. rewrite H. reflexivity. Qed.
Lemma block_end_value_w s k : w_rem s = Some k -> w_block_end s = (w_set_rem s None, Ok (Z.max 0 k)).
Proof. intros H. unfold w_block_end. rewrite H. reflexivity. Qed.

(* negative block lengths: the two readers differ (decoder tests == 0) *)
Lemma readers_differ_negative :
  exists f len body, len < 0 /\ r_run [PBlock len body] (r_init f 0) <> d_run [PBlock len body] (d_init f 0).
Proof. exists [0], (-1), [BBit]. split; [lia|]. vm_compute. discriminate. Qed.

(* the validator only ever opens blocks with these lengths (decoder/transform_data_syntax.py) *)
Lemma g_nbits_nonneg {St} (rb : St -> St * res Z) comb
  (Hc : forall a b, 0 <= a -> 0 <= b -> 0 <= comb (Z.shiftl a 1) b)
  (Hb : forall s s' b, rb s = (s', Ok b) -> 0 <= b) :
  forall n acc s s' v, 0 <= acc -> g_nbits rb comb n acc s = (s', Ok v) -> 0 <= v.
Proof.
  induction n; intros acc s s' v Ha H; cbn [g_nbits] in H.
  - inversion H; subst; assumption.
  - destruct (rb s) as [s1 [b|e]] eqn:E; cbn [bind] in H; [|discriminate].
    eapply IHn; [|exact H]. apply Hc; [assumption|]. eapply Hb; eauto.
Qed.
Lemma d_read_bit_nonneg s s' b : d_read_bit s = (s', Ok b) -> 0 <= b.
Proof.
  unfold d_read_bit. destruct (d_cur s); intros H; inversion H; subst.
  apply Z.land_nonneg. right. lia.
Qed.
Lemma d_read_nbits_nonneg n s s' v : d_read_nbits n s = (s', Ok v) -> 0 <= v.
Proof.
  unfold d_read_nbits. apply g_nbits_nonneg; try lia.
  - intros a b Ha Hb. rewrite Z.shiftl_mul_pow2 by lia. lia.
  - apply d_read_bit_nonneg.
Qed.

(* ------------------------------------------------ the two readers agree *)
Definition sim_core (r : rst) (d : dst) : Prop :=
  r_wf r /\ d_wf d /\ r_view r = d_view d /\ r_bitpos r = d_bitpos d /\ (r_view r = [] -> r_nb r = 7).
Definition sim (r : rst) (d : dst) : Prop := sim_core r d /\ r_rem r = None.
Definition simb (r : rst) (d : dst) : Prop :=
  sim_core r d /\ exists k, r_rem r = Some k /\ d_left d = Z.max 0 k.

Definition rel_res {A} (Rel : rst -> dst -> Prop) (m1 : rst * res A) (m2 : dst * res A) : Prop :=
  match m1, m2 with
  | (s1, Ok a1), (s2, Ok a2) => a1 = a2 /\ Rel s1 s2
  | (s1, Err e1), (s2, Err e2) => eof_class e1 = eof_class e2 /\ r_bitpos s1 = d_bitpos s2
  | _, _ => False
  end.
Definition rel_bit (Rel : rst -> dst -> Prop) (m1 : rst * res Z) (m2 : dst * res Z) : Prop :=
  rel_res Rel m1 m2 /\ match m1 with (_, Ok a) => a = 0 \/ a = 1 | _ => True end.

Section Param.
  Variable rb1 : rst -> rst * res Z.
  Variable rb2 : dst -> dst * res Z.
  Variable Rel : rst -> dst -> Prop.
  Hypothesis Hpos : forall r d, Rel r d -> r_bitpos r = d_bitpos d.
  Hypothesis Hbit : forall r d, Rel r d -> rel_bit Rel (rb1 r) (rb2 d).

  Lemma par_nbits : forall n acc r d, Rel r d ->
    rel_res Rel (g_nbits rb1 Z.lor n acc r) (g_nbits rb2 Z.add n acc d).
  Proof.
    induction n; intros acc r d R; cbn [g_nbits].
    - cbn. split; [reflexivity|assumption].
    - destruct (Hbit _ _ R) as [H1 H2].
      destruct (rb1 r) as [r1 [a1|e1]], (rb2 d) as [d1 [a2|e2]]; cbn in H1; try contradiction; cbn [bind].
      + destruct H1 as [-> R1].
        assert (E : Z.lor (Z.shiftl acc 1) a2 = Z.shiftl acc 1 + a2).
        { destruct H2 as [->| ->].
          - pose proof (lor_comb acc false) as L. pose proof (add_comb acc false) as L2. cbn [b2z] in *. congruence.
          - pose proof (lor_comb acc true) as L. pose proof (add_comb acc true) as L2. cbn [b2z] in *. congruence. }
        rewrite E. apply IHn. assumption.
      + exact H1.
  Qed.

  Lemma par_uint : forall f v r d, Rel r d ->
    rel_res Rel (g_uint rb1 f v r) (g_uint rb2 f v d).
  Proof.
    induction f; intros v r d R; cbn [g_uint].
    - cbn. split; [reflexivity|]. apply Hpos; assumption.
    - destruct (Hbit _ _ R) as [H1 _].
      destruct (rb1 r) as [r1 [a1|e1]], (rb2 d) as [d1 [a2|e2]]; cbn in H1; try contradiction; cbn [bind].
      + destruct H1 as [-> R1]. destruct (z2b a2).
        * cbn. split; [reflexivity|assumption].
        * destruct (Hbit _ _ R1) as [K1 _].
          destruct (rb1 r1) as [r2 [b1|e1]], (rb2 d1) as [d2 [b2|e2]]; cbn in K1; try contradiction; cbn [bind].
          -- destruct K1 as [-> R2]. apply IHf. assumption.
          -- exact K1.
      + exact H1.
  Qed.

  Lemma par_sint : forall f r d, Rel r d -> rel_res Rel (g_sint rb1 f r) (g_sint rb2 f d).
  Proof.
    intros f r d R. unfold g_sint. pose proof (par_uint f 1 r d R) as U.
    destruct (g_uint rb1 f 1 r) as [r1 [a1|e1]], (g_uint rb2 f 1 d) as [d1 [a2|e2]]; cbn in U; try contradiction; cbn [bind].
    - destruct U as [-> R1]. destruct (a2 =? 0).
      + cbn. split; [reflexivity|assumption].
      + destruct (Hbit _ _ R1) as [K1 _].
        destruct (rb1 r1) as [r2 [b1|e1]], (rb2 d1) as [d2 [b2|e2]]; cbn in K1; try contradiction; cbn [bind].
        * destruct K1 as [-> R2]. cbn. split; [reflexivity|assumption].
        * exact K1.
    - exact U.
  Qed.
End Param.

Lemma sim_bit r d : sim r d -> rel_bit sim (r_read_bit r) (d_read_bit d).
Proof.
  intros [[Wr [Wd [V [P A]]]] R]. rewrite r_read_bit_unb by assumption.
  pose proof (r_get_spec r Wr) as Gr. pose proof (d_read_bit_spec d Wd) as Gd. rewrite <- V in Gd.
  destruct (r_view r) as [|b t].
  - rewrite Gr, Gd. cbn. split; [split; [reflexivity|assumption]|exact I].
  - destruct Gr as [r' [E1 [V1 [W1 [R1 [P1 [F1 A1]]]]]]]. destruct Gd as [d' [E2 [V2 [W2 [L2 [P2 F2]]]]]].
    rewrite E1, E2. cbn. split; [|apply b2z_01].
    split; [reflexivity|]. split; [|congruence]. repeat split; try assumption; try apply W1; try apply W2; try congruence; try lia.
    intros K. apply A1. congruence.
Qed.

Lemma simb_bit r d : simb r d -> rel_bit simb (r_read_bit r) (d_read_bitb d).
Proof.
  intros [[Wr [Wd [V [P A]]]] [k [R L]]].
  destruct (Z_le_gt_dec k 0) as [K|K].
  - rewrite (r_read_past_end _ _ R K). rewrite d_read_past_end by lia.
    cbn. split; [|right; reflexivity]. split; [reflexivity|].
    split; [repeat split; try assumption; try apply Wr; try apply Wd|].
    exists (k - 1). split; [reflexivity|lia].
  - rewrite (r_read_inside _ _ R) by lia. rewrite d_read_inside by lia.
    set (r0 := r_set_rem r (Some (k - 1))). set (d0 := d_set_left d (d_left d - 1)).
    assert (Wr0 : r_wf r0) by exact Wr. assert (Wd0 : d_wf d0) by exact Wd.
    pose proof (r_get_spec r0 Wr0) as Gr. pose proof (d_read_bit_spec d0 Wd0) as Gd.
    change (r_view r0) with (r_view r) in Gr. change (d_view d0) with (d_view d) in Gd. rewrite <- V in Gd.
    destruct (r_view r) as [|b t].
    + rewrite Gr, Gd. cbn. split; [split; [reflexivity|exact P]|exact I].
    + destruct Gr as [r' [E1 [V1 [W1 [R1 [P1 [F1 A1]]]]]]]. destruct Gd as [d' [E2 [V2 [W2 [L2 [P2 F2]]]]]].
      rewrite E1, E2. cbn. split; [|apply b2z_01].
      split; [reflexivity|]. split.
      * repeat split; try assumption; try apply W1; try apply W2; try congruence.
        -- change (r_bitpos r0) with (r_bitpos r) in P1. change (d_bitpos d0) with (d_bitpos d) in P2. lia.
        -- intros K0. apply A1. congruence.
      * exists (k - 1). split; [exact R1|]. rewrite L2. cbn [d0 d_set_left d_left]. lia.
Qed.

Lemma sim_pos r d : sim r d -> r_bitpos r = d_bitpos d.
Proof. intros [[_ [_ [_ [P _]]]] _]. exact P. Qed.
Lemma simb_pos r d : simb r d -> r_bitpos r = d_bitpos d.
Proof. intros [[_ [_ [_ [P _]]]] _]. exact P. Qed.

Lemma step_rel (Rel : rst -> dst -> Prop) m1 m2 k1 k2 :
  (forall r d, Rel r d -> r_bitpos r = d_bitpos d) ->
  rel_res Rel m1 m2 -> (forall r d, Rel r d -> k1 r = k2 d) ->
  step r_bitpos m1 k1 = step d_bitpos m2 k2.
Proof.
  intros Hp H K. destruct m1 as [r [a1|e1]], m2 as [d [a2|e2]]; cbn in H; try contradiction; cbn [step].
  - destruct H as [-> R]. rewrite (K _ _ R), (Hp _ _ R). reflexivity.
  - destruct H as [E Pp]. rewrite E, Pp. reflexivity.
Qed.

Lemma fuel_eq r d : r_view r = d_view d -> r_fuel r = d_fuel d.
Proof. unfold r_fuel, d_fuel. intros ->. reflexivity. Qed.

Lemma body_agree : forall body r d k1 k2, simb r d ->
  (forall r' d', simb r' d' -> k1 r' = k2 d') -> r_body body r k1 = d_body body d k2.
Proof.
  induction body as [|o t IH]; intros r d k1 k2 S K; cbn [r_body d_body].
  - apply K. assumption.
  - apply (step_rel simb); [exact simb_pos| |intros; apply IH; assumption].
    assert (F : r_fuel r = d_fuel d) by (apply fuel_eq; apply S).
    destruct o; cbn [r_bop d_bop].
    + apply simb_bit. assumption.
    + unfold r_read_uint, d_read_uintb. rewrite F. apply par_uint; [exact simb_pos|exact simb_bit|assumption].
    + unfold r_read_sint, d_read_sintb. rewrite F. apply par_sint; [exact simb_pos|exact simb_bit|assumption].
Qed.

Lemma close_rel : forall n r d, sim r d ->
  rel_res sim (zero_val (g_bitlist r_read_bit n r)) (opt_res (d_flush_n n d)).
Proof.
  induction n; intros r d S; cbn [g_bitlist d_flush_n].
  - cbn. split; [reflexivity|assumption].
  - destruct (sim_bit _ _ S) as [H _].
    destruct (r_read_bit r) as [r1 [a1|e1]], (d_read_bit d) as [d1 [a2|e2]]; cbn in H; try contradiction; cbn [bind].
    + destruct H as [-> S1].
      assert (S2 : sim r1 (d_set_left d1 (d_left d1 - 1))) by exact S1.
      specialize (IHn _ _ S2).
      destruct (g_bitlist r_read_bit n r1) as [r2 [l|e]]; cbn [bind zero_val] in *; exact IHn.
    + exact H.
Qed.

Lemma app_inv_len {A} (a a' b b' : list A) : length a = length a' -> a ++ b = a' ++ b' -> b = b'.
Proof.
  revert a'. induction a as [|y a IH]; intros a' L E; destruct a' as [|x a']; cbn in L, E.
  - exact E.
  - discriminate L.
  - discriminate L.
  - inversion E; subst. apply (IH a'); [lia|assumption].
Qed.

Lemma d_read_byte_view d : d_wf d ->
  d_view (d_read_byte d) = bytes_bits (skipn (Z.to_nat (d_pos d)) (d_file d)) /\
  d_wf (d_read_byte d) /\ d_bitpos (d_read_byte d) = 8 * d_pos d.
Proof.
  destruct d as [f pos nb cur left rec]. unfold d_wf, d_read_byte, d_view, d_bitpos, d_tell, to_bit_offset.
  cbn [d_nb d_pos d_cur d_file d_left d_rec]. intros [Hnb Hpos].
  destruct (nth_z f pos) as [b|] eqn:En; cbn [d_nb d_pos d_cur d_file d_left d_rec fst snd].
  - rewrite (nth_z_some _ _ _ Hpos En). repeat split; try lia; reflexivity.
  - rewrite (nth_z_none _ _ Hpos En). repeat split; try lia; reflexivity.
Qed.

Lemma align_rel r d : sim r d -> rel_res sim (r_align r) (d_byte_align d, Ok 0).
Proof.
  intros [[Wr [Wd [V [P A]]]] R].
  assert (Nb : r_nb r = d_nb d).
  { unfold r_bitpos, d_bitpos, d_tell, to_bit_offset in P. cbn [fst snd] in P.
    destruct Wr as [Wr1 Wr2], Wd as [Wd1 Wd2]. destruct (d_cur d); lia. }
  unfold r_align, d_byte_align. rewrite <- Nb.
  destruct (r_nb r =? 7) eqn:E.
  - cbn. split; [reflexivity|]. split; [|assumption]. repeat split; try assumption; try apply Wr; try apply Wd.
  - destruct (d_read_byte_view d Wd) as [DV [DW DP]].
    unfold r_view in V, A. destruct (r_cur r) as [c|] eqn:Ec; [|specialize (A eq_refl); lia].
    unfold d_view in V. destruct (d_cur d) as [c'|] eqn:Ec'.
    2:{ exfalso. apply (f_equal (@length bool)) in V. rewrite app_length, nbits_list_length in V. cbn in V.
        destruct Wr as [Wr1 Wr2]. lia. }
    assert (Vr : r_view r = nbits_list (Z.to_nat (r_nb r + 1)) c ++ bytes_bits (skipn (Z.to_nat (r_off r)) (r_file r))).
    { unfold r_view. rewrite Ec. reflexivity. }
    destruct (r_feeds_unb _ _ _ Wr R Vr) as [r' [F [W' [R' [V' [P' F']]]]]].
    pose proof (g_bitlist_feeds _ _ _ _ F) as G. rewrite nbits_list_length in G, P'.
    unfold r_read_bitarray. rewrite G. cbn [zero_val].
    assert (T : bytes_bits (skipn (Z.to_nat (r_off r)) (r_file r)) = bytes_bits (skipn (Z.to_nat (d_pos d)) (d_file d))).
    { eapply app_inv_len; [|exact V]. rewrite !nbits_list_length. rewrite Nb. reflexivity. }
    cbn. split; [reflexivity|]. split; [|assumption].
    assert (Pd : d_bitpos d = 8 * (d_pos d - 1) + 7 - d_nb d).
    { unfold d_bitpos, d_tell, to_bit_offset. rewrite Ec'. cbn [fst snd]. lia. }
    assert (Pe : r_bitpos r' = d_bitpos (d_read_byte d)).
    { rewrite P', DP, P, Pd. destruct Wr as [Wr1 Wr2]. lia. }
    repeat split; try assumption; try apply W'; try apply DW.
    + rewrite V', DV. exact T.
    + intros _. unfold r_bitpos, to_bit_offset in Pe. rewrite DP in Pe. destruct W' as [W1 W2]. lia.
Qed.

Fixpoint blocks_nonneg (p : list rop) : Prop :=
  match p with
  | [] => True
  | PBlock len _ :: t => 0 <= len /\ blocks_nonneg t
  | _ :: t => blocks_nonneg t
  end.

Lemma run_agree : forall p r d, blocks_nonneg p -> sim r d -> r_run p r = d_run p d.
Proof.
  induction p as [|o t IH]; intros r d B S; cbn [r_run d_run].
  - rewrite (sim_pos _ _ S). reflexivity.
  - assert (F : r_fuel r = d_fuel d) by (apply fuel_eq; apply S).
    destruct o; cbn [blocks_nonneg] in B.
    + apply (step_rel sim); [exact sim_pos|apply sim_bit; assumption|intros; apply IH; assumption].
    + apply (step_rel sim); [exact sim_pos| |intros; apply IH; assumption].
      unfold r_read_nbits, d_read_nbits. apply par_nbits; [exact sim_bit|assumption].
    + apply (step_rel sim); [exact sim_pos| |intros; apply IH; assumption].
      unfold r_read_uint_lit, d_read_uint_lit, r_read_nbits, d_read_nbits.
      replace (n * 8) with (8 * n) by lia. apply par_nbits; [exact sim_bit|assumption].
    + apply (step_rel sim); [exact sim_pos| |intros; apply IH; assumption].
      unfold r_read_uint, d_read_uint. rewrite F. apply par_uint; [exact sim_pos|exact sim_bit|assumption].
    + apply (step_rel sim); [exact sim_pos| |intros; apply IH; assumption].
      unfold r_read_sint, d_read_sint. rewrite F. apply par_sint; [exact sim_pos|exact sim_bit|assumption].
    + apply (step_rel sim); [exact sim_pos|apply align_rel; assumption|intros; apply IH; assumption].
    + destruct B as [Hlen B]. destruct S as [C R].
      apply (step_rel simb); [exact simb_pos| |].
      * unfold r_block_begin. rewrite R. cbn. split; [reflexivity|].
        split; [exact C|]. exists len. split; [reflexivity|]. cbn. lia.
      * intros r1 d1 S1. apply body_agree; [assumption|].
        intros r2 d2 [C2 [k [R2 L2]]].
        apply (step_rel sim); [exact sim_pos| |intros; apply IH; assumption].
        unfold r_close, r_block_end, d_flush_inputb. rewrite R2, L2.
        unfold r_read_bitarray. apply close_rel. split; [exact C2|reflexivity].
Qed.

Lemma init_sim f : sim (r_init f 0) (d_init f 0).
Proof.
  unfold sim, sim_core, r_init, d_init, r_read_byte, d_read_byte, r_wf, d_wf, r_view, d_view, r_bitpos, d_bitpos, d_tell, to_bit_offset.
  cbn [r_nb r_off r_cur r_file r_rem d_nb d_pos d_cur d_file d_left d_rec fst snd].
  destruct (nth_z f 0) as [c|]; cbn [d_nb d_pos d_cur d_file d_left d_rec fst snd]; repeat split; try lia; reflexivity.
Qed.

Lemma readers_agree f p : blocks_nonneg p -> r_run p (r_init f 0) = d_run p (d_init f 0).
Proof. intros B. apply run_agree; [assumption|apply init_sim]. Qed.

(* ------------------------------------------------------------------ writer *)
Lemma put_bit_testbit c nb b i : 0 <= nb -> 0 <= i ->
  Z.testbit (put_bit c nb b) i = if i =? nb then b else Z.testbit c i.
Proof.
  intros Hnb Hi. unfold put_bit. rewrite Z.shiftl_1_l.
  destruct b.
  - rewrite Z.lor_spec, Z.land_spec, Z.lnot_spec, Z.pow2_bits_eqb by lia.
    destruct (Z.eqb_spec nb i); destruct (Z.eqb_spec i nb); try lia; destruct (Z.testbit c i); reflexivity.
  - rewrite Z.land_spec, Z.lnot_spec, Z.pow2_bits_eqb by lia.
    destruct (Z.eqb_spec nb i); destruct (Z.eqb_spec i nb); try lia; destruct (Z.testbit c i); reflexivity.
Qed.

Definition w_wf (s : wst) : Prop := 0 <= w_nb s <= 7 /\ 0 <= w_pos s <= flen (w_file s).

Lemma bytes_bits_app a b : bytes_bits (a ++ b) = bytes_bits a ++ bytes_bits b.
Proof. unfold bytes_bits. apply flat_map_app. Qed.

Lemma fwrite_prefix f pos c : 0 <= pos <= flen f ->
  firstn (Z.to_nat (pos + 1)) (fwrite f pos c) = firstn (Z.to_nat pos) f ++ [c] /\
  flen (fwrite f pos c) = Z.max (flen f) (pos + 1) /\
  firstn (Z.to_nat pos) (fwrite f pos c) = firstn (Z.to_nat pos) f.
Proof.
  intros H. unfold fwrite, flen in *. destruct (pos <=? Z.of_nat (length f)) eqn:E; [|lia].
  assert (L : length (firstn (Z.to_nat pos) f) = Z.to_nat pos) by (apply firstn_length_le; lia).
  split; [|split].
  - replace (Z.to_nat (pos + 1)) with (length (firstn (Z.to_nat pos) f) + 1)%nat by lia.
    rewrite firstn_app_2. reflexivity.
  - rewrite app_length, L. cbn [length]. rewrite skipn_length. lia.
  - replace (Z.to_nat pos) with (length (firstn (Z.to_nat pos) f) + 0)%nat at 1 by lia.
    rewrite firstn_app_2. cbn. apply app_nil_r.
Qed.

Lemma w_put_spec b s : w_wf s ->
  w_view (w_put b s) = w_view s ++ [b] /\ w_wf (w_put b s) /\
  w_bitpos (w_put b s) = w_bitpos s + 1 /\ w_rem (w_put b s) = w_rem s.
Proof.
  destruct s as [f pos nb cur rem]. unfold w_wf, w_put, w_view, w_bitpos, to_bit_offset.
  cbn [w_file w_pos w_nb w_cur w_rem]. intros [Hnb Hpos].
  set (c' := put_bit cur nb b).
  assert (Hhi : nbits_list (Z.to_nat (7 - nb)) (Z.shiftr c' (nb + 1)) = nbits_list (Z.to_nat (7 - nb)) (Z.shiftr cur (nb + 1))).
  { apply nbits_list_ext. intros i Hi. rewrite !Z.shiftr_spec by lia. unfold c'. rewrite put_bit_testbit by lia.
    destruct (Z.eqb_spec (i + (nb + 1)) nb); [lia|reflexivity]. }
  assert (Hlo : Z.testbit c' nb = b).
  { unfold c'. rewrite put_bit_testbit by lia. rewrite Z.eqb_refl. reflexivity. }
  destruct (nb - 1 <? 0) eqn:E.
  - assert (nb = 0) by lia. subst nb. unfold w_write_byte. cbn [w_file w_pos w_nb w_cur w_rem].
    destruct (fwrite_prefix f pos c' Hpos) as [F1 [F2 F3]].
    split; [|repeat split; lia].
    rewrite F1, bytes_bits_app.
    replace (Z.to_nat (7 - 7)) with 0%nat by reflexivity. cbn [nbits_list]. rewrite app_nil_r.
    rewrite <- app_assoc. f_equal.
    unfold bytes_bits. cbn [flat_map]. rewrite app_nil_r. unfold bits8.
    change 8%nat with (S 7). rewrite nbits_list_snoc. rewrite Hlo.
    replace (Z.to_nat (7 - 0)) with 7%nat in * by reflexivity. replace (0 + 1) with 1 in * by reflexivity.
    rewrite Hhi. reflexivity.
  - cbn [w_file w_pos w_nb w_cur w_rem]. split; [|repeat split; lia].
    rewrite <- app_assoc. f_equal.
    replace (Z.to_nat (7 - (nb - 1))) with (S (Z.to_nat (7 - nb))) by lia.
    rewrite nbits_list_snoc. replace (nb - 1 + 1) with nb by lia.
    rewrite Z.shiftr_shiftr by lia. rewrite Z.shiftr_spec by lia. replace (0 + nb) with nb by lia.
    rewrite Hlo, Hhi. reflexivity.
Qed.

Definition w_writes (m : wst * option err) (s : wst) (l : list bool) : Prop :=
  exists s', m = (s', None) /\ w_view s' = w_view s ++ l /\ w_wf s' /\ w_rem s' = None
             /\ w_bitpos s' = w_bitpos s + Z.of_nat (length l).

Lemma w_write_bits_unb : forall l s, w_wf s -> w_rem s = None -> w_writes (w_write_bits l s) s l.
Proof.
  induction l; intros s W R.
  - exists s. cbn. rewrite app_nil_r. repeat split; try assumption; try apply W; lia.
  - cbn [w_write_bits]. unfold w_write_bit. rewrite R.
    destruct (w_put_spec a s W) as [V1 [W1 [P1 R1]]].
    destruct (IHl (w_put a s) W1 ltac:(congruence)) as [s' [E [V' [W' [R' P']]]]].
    exists s'. split; [exact E|]. repeat split; try assumption; try apply W'.
    + rewrite V', V1, <- app_assoc. reflexivity.
    + rewrite P', P1. cbn [length]. lia.
Qed.

Lemma w_nbits_writes n v s : w_wf s -> w_rem s = None -> 0 <= n -> 0 <= v < 2 ^ n ->
  w_writes (w_write_nbits n v s) s (nbits_list (Z.to_nat n) v).
Proof.
  intros W R Hn Hv. unfold w_write_nbits.
  destruct ((v <? 0) || (bit_length v >? n)) eqn:E.
  - apply nbits_out_of_range in E. lia.
  - apply w_write_bits_unb; assumption.
Qed.
Lemma w_uint_writes v s : w_wf s -> w_rem s = None -> 0 <= v ->
  w_writes (w_write_uint v s) s (uint_bits v).
Proof.
  intros W R Hv. unfold w_write_uint. destruct (v <? 0) eqn:E; [lia|]. apply w_write_bits_unb; assumption.
Qed.
Lemma w_sint_writes v s : w_wf s -> w_rem s = None ->
  w_writes (w_write_sint v s) s (sint_bits v).
Proof.
  intros W R. unfold w_write_sint, sint_bits.
  destruct (w_uint_writes (Z.abs v) s W R ltac:(lia)) as [s1 [E [V1 [W1 [R1 P1]]]]].
  rewrite E. destruct (v =? 0).
  - exists s1. rewrite app_nil_r. repeat split; try assumption; apply W1.
  - destruct (w_write_bits_unb [v <? 0] s1 W1 R1) as [s2 [E2 [V2 [W2 [R2 P2]]]]].
    cbn [w_write_bits] in E2. destruct (w_write_bit (v <? 0) s1) as [s2' [e|]] eqn:E3; [discriminate|].
    inversion E2; subst. exists s2. split; [reflexivity|]. repeat split; try assumption; try apply W2.
    + rewrite V2, V1, app_assoc. reflexivity.
    + rewrite P2, P1, app_length, Nat2Z.inj_add. cbn [length]. lia.
Qed.
Lemma w_bitarray_writes n (l : list bool) s : w_wf s -> w_rem s = None -> Z.of_nat (length l) <= n ->
  w_writes (w_write_bitarray n l s) s (bitarray_bits n l) /\ Z.of_nat (length (bitarray_bits n l)) = n.
Proof.
  intros W R H. unfold w_write_bitarray. destruct (Z.of_nat (length l) >? n) eqn:E; [lia|].
  split; [apply w_write_bits_unb; assumption|].
  unfold bitarray_bits. rewrite app_length, repeat_length. lia.
Qed.
Lemma w_each_byte_writes : forall l s, w_wf s -> w_rem s = None -> Forall (fun b => 0 <= b < 256) l ->
  w_writes (w_write_each_byte l s) s (flat_map (nbits_list 8) l).
Proof.
  induction l; intros s W R H.
  - exists s. cbn. rewrite app_nil_r. repeat split; try assumption; try apply W; lia.
  - inversion H; subst. cbn [w_write_each_byte flat_map].
    destruct (w_nbits_writes 8 a s W R ltac:(lia) ltac:(change (2 ^ 8) with 256; lia)) as [s1 [E [V1 [W1 [R1 P1]]]]].
    rewrite E. destruct (IHl s1 W1 R1 H3) as [s2 [E2 [V2 [W2 [R2 P2]]]]].
    exists s2. split; [exact E2|]. repeat split; try assumption; try apply W2.
    + rewrite V2, V1, app_assoc. reflexivity.
    + rewrite P2, P1, app_length, Nat2Z.inj_add. change (Z.to_nat 8) with 8%nat. lia.
Qed.
Lemma w_bytes_writes n (l : list Z) s : w_wf s -> w_rem s = None -> Z.of_nat (length l) <= n ->
  Forall (fun b => 0 <= b < 256) l ->
  w_writes (w_write_bytes n l s) s (flat_map (nbits_list 8) (bytes_padded n l)) /\
  Z.of_nat (length (bytes_padded n l)) = n.
Proof.
  intros W R H F. unfold w_write_bytes. destruct (Z.of_nat (length l) >? n) eqn:E; [lia|].
  split.
  - apply w_each_byte_writes; try assumption. unfold bytes_padded. apply Forall_app. split; [assumption|].
    apply Forall_forall. intros x Hx. apply repeat_spec in Hx. lia.
  - unfold bytes_padded. rewrite app_length, repeat_length. lia.
Qed.

(* out-of-range values: OutOfRangeError, state (file, position, counters) untouched *)
Lemma w_nbits_out_of_range n v s : v < 0 \/ 2 ^ n <= v -> w_write_nbits n v s = (s, Some EOutOfRange).
Proof.
  intros H. unfold w_write_nbits. apply nbits_out_of_range in H. rewrite H. reflexivity.
Qed.
Lemma w_uint_out_of_range v s : v < 0 -> w_write_uint v s = (s, Some EOutOfRange).
Proof. intros H. unfold w_write_uint. destruct (v <? 0) eqn:E; [reflexivity|lia]. Qed.
Lemma w_bitarray_out_of_range n l s : n < Z.of_nat (length l) -> w_write_bitarray n l s = (s, Some EOutOfRange).
Proof. intros H. unfold w_write_bitarray. destruct (Z.of_nat (length l) >? n) eqn:E; [reflexivity|lia]. Qed.
Lemma w_bytes_out_of_range n l s : n < Z.of_nat (length l) -> w_write_bytes n l s = (s, Some EOutOfRange).
Proof. intros H. unfold w_write_bytes. destruct (Z.of_nat (length l) >? n) eqn:E; [reflexivity|lia]. Qed.
Lemma w_uint_lit_out_of_range n v s : v < 0 \/ 2 ^ (n * 8) <= v -> w_write_uint_lit n v s = (s, Some EOutOfRange).
Proof. apply w_nbits_out_of_range. Qed.

(* what a write-only writer leaves in the file is what a reader opened on it sees *)
Lemma w_init_wf : w_wf (w_init [] 0) /\ w_view (w_init [] 0) = [] /\ w_rem (w_init [] 0) = None.
Proof. unfold w_wf, w_init, w_view. cbn. repeat split; lia. Qed.

Definition low_bits_zero (s : wst) : Prop := forall i, 0 <= i <= w_nb s -> Z.testbit (w_cur s) i = false.

Lemma r_init_view f : r_view (r_init f 0) = bytes_bits f.
Proof.
  unfold r_init, r_read_byte, r_view. cbn [r_nb r_off r_cur r_file r_rem].
  destruct f as [|c f]; [reflexivity|]. cbn. reflexivity.
Qed.
Lemma d_init_view f : d_view (d_init f 0) = bytes_bits f.
Proof.
  unfold d_init, d_read_byte, d_view. cbn [d_nb d_pos d_cur d_file d_left d_rec].
  destruct f as [|c f]; [reflexivity|]. cbn. reflexivity.
Qed.

Lemma firstn_all_z (f : list Z) pos : pos = flen f -> firstn (Z.to_nat pos) f = f.
Proof. intros ->. unfold flen. rewrite Nat2Z.id. apply firstn_all. Qed.

Lemma nbits_list_split a k x :
  nbits_list (a + k) x = nbits_list a (Z.shiftr x (Z.of_nat k)) ++ nbits_list k x.
Proof.
  induction a; [reflexivity|]. cbn [plus nbits_list app]. rewrite IHa. f_equal.
  rewrite Z.shiftr_spec by lia. f_equal. lia.
Qed.

Lemma flushed_file_view s : w_wf s -> w_pos s = flen (w_file s) ->
  exists pad, bytes_bits (w_file (w_flush s)) = w_view s ++ pad /\ (length pad < 8)%nat /\
              (low_bits_zero s -> Forall (fun b => b = false) pad).
Proof.
  destruct s as [f pos nb cur rem]. unfold w_wf, w_flush, w_view, low_bits_zero. cbn [w_file w_pos w_nb w_cur w_rem].
  intros [Hnb Hpos] Hend. destruct (nb =? 7) eqn:E.
  - assert (nb = 7) by lia. subst nb. exists []. cbn [w_file]. change (Z.to_nat (7 - 7)) with 0%nat. cbn [nbits_list].
    rewrite firstn_all_z by assumption. rewrite !app_nil_r. repeat split; [cbn; lia|constructor].
  - cbn [w_file]. exists (nbits_list (Z.to_nat (nb + 1)) cur).
    rewrite nbits_list_length. split; [|split; [lia|]].
    + unfold fwrite. destruct (pos <=? flen f) eqn:E2; [|lia].
      rewrite firstn_all_z by assumption. rewrite skipn_all2 by (unfold flen in *; lia).
      rewrite bytes_bits_app. rewrite <- app_assoc. f_equal. unfold bytes_bits. cbn [flat_map]. rewrite app_nil_r.
      unfold bits8. replace 8%nat with (Z.to_nat (7 - nb) + Z.to_nat (nb + 1))%nat by lia.
      rewrite nbits_list_split. rewrite Z2Nat.id by lia. reflexivity.
    + intros Hz. apply Forall_forall. intros x Hx.
      assert (G : forall k, (k <= Z.to_nat (nb + 1))%nat -> forall y, In y (nbits_list k cur) -> y = false).
      { induction k; intros Hk y Hy; cbn in Hy; [contradiction|]. destruct Hy as [<-|Hy]; [apply Hz; lia|apply IHk; [lia|assumption]]. }
      eapply G; [apply Nat.le_refl|exact Hx].
Qed.

(* ------------------------------------------------------------ uint_lit *)
Lemma r_uint_lit_roundtrip n v s rest : r_wf s -> r_rem s = None -> 0 <= n -> 0 <= v < 2 ^ (n * 8) ->
  r_view s = nbits_list (Z.to_nat (n * 8)) v ++ rest ->
  r_reads (r_read_uint_lit n s) s v (Z.to_nat (n * 8)) rest.
Proof. intros. unfold r_read_uint_lit. apply r_nbits_roundtrip; try assumption; lia. Qed.
Lemma d_uint_lit_roundtrip n v s rest : d_wf s -> 0 <= n -> 0 <= v < 2 ^ (n * 8) ->
  d_view s = nbits_list (Z.to_nat (n * 8)) v ++ rest ->
  d_reads (d_read_uint_lit n s) s v (Z.to_nat (n * 8)) rest.
Proof.
  intros W Hn Hv V. unfold d_read_uint_lit. replace (8 * n) with (n * 8) by lia.
  apply d_nbits_roundtrip; try assumption; lia.
Qed.
Lemma w_uint_lit_writes n v s : w_wf s -> w_rem s = None -> 0 <= n -> 0 <= v < 2 ^ (n * 8) ->
  w_writes (w_write_uint_lit n v s) s (nbits_list (Z.to_nat (n * 8)) v).
Proof. intros. unfold w_write_uint_lit. apply w_nbits_writes; try assumption; lia. Qed.

(* ------------------------------------------------------------ tell / seek *)
Lemma offsets_inverse bytes bits : 0 <= bits <= 7 ->
  from_bit_offset (to_bit_offset bytes bits) = (bytes, bits).
Proof. intros H. unfold from_bit_offset, to_bit_offset. f_equal; lia. Qed.
Lemma offsets_inverse' t : let '(by_, bi) := from_bit_offset t in to_bit_offset by_ bi = t /\ 0 <= bi <= 7.
Proof. unfold from_bit_offset, to_bit_offset. lia. Qed.

(* the position where the current bounded block ends is invariant under seek *)
Lemma seek_adjust_law r cur new :
  match seek_adjust (Some r) cur new with
  | Ok (Some r') => new + Z.max 0 r' = cur + Z.max 0 r
  | Ok None => False
  | Err e => e = EExc /\ cur < new /\ cur + r < new
  end.
Proof.
  unfold seek_adjust.
  destruct ((new - cur >? 0) && (r - (new - cur) <? 0)) eqn:E1; [split; [reflexivity|lia]|].
  destruct ((r <=? 0) && (new - cur =? 0)) eqn:E2; [lia|].
  destruct ((r <? 0) && (new - cur <? 0)) eqn:E3; lia.
Qed.
Lemma seek_adjust_none cur new : seek_adjust None cur new = Ok None.
Proof. reflexivity. Qed.

(* BitstreamReader: the extra invariant that current_byte is the byte before _byte_offset *)
Definition r_sync (s : rst) : Prop := r_cur s = nth_z (r_file s) (r_off s - 1) /\ 1 <= r_off s.

Lemma r_init_sync f : r_sync (r_init f 0) /\ r_wf (r_init f 0).
Proof. unfold r_sync, r_wf, r_init, r_read_byte. cbn. repeat split; lia. Qed.

Lemma r_seek_tell_id s : r_wf s -> r_sync s ->
  r_seek (fst (r_tell s)) (snd (r_tell s)) s = (s, None).
Proof.
  destruct s as [f off nb cur rem]. unfold r_wf, r_sync, r_seek, r_tell, r_bitpos.
  cbn [r_nb r_off r_cur r_file r_rem fst snd]. intros [Hnb Hoff] [Hc Ho].
  destruct ((0 <=? nb) && (nb <=? 7)) eqn:E; [|lia]. cbn [negb].
  assert (A : seek_adjust rem (to_bit_offset (off - 1) nb) (to_bit_offset (off - 1) nb) = Ok rem).
  { destruct rem as [r|]; [|reflexivity]. unfold seek_adjust.
    replace (to_bit_offset (off - 1) nb - to_bit_offset (off - 1) nb) with 0 by lia.
    cbn [Z.gtb Z.compare andb]. destruct (r <=? 0) eqn:E1; cbn [andb Z.eqb]; [reflexivity|].
    rewrite andb_false_r. f_equal. f_equal. lia. }
  rewrite A. destruct (off - 1 <? 0) eqn:E2; [lia|].
  replace (off - 1 + 1) with off by lia. rewrite <- Hc. reflexivity.
Qed.

Lemma skipn_bytes_bits n f : skipn (8 * n) (bytes_bits f) = bytes_bits (skipn n f).
Proof.
  revert f. induction n; intros f; [reflexivity|]. destruct f as [|c f]; [reflexivity|].
  cbn [skipn]. change (bytes_bits (c :: f)) with (bits8 c ++ bytes_bits f).
  rewrite skipn_app. unfold bits8 at 1 2. rewrite nbits_list_length.
  rewrite skipn_all2 by (rewrite nbits_list_length; lia).
  replace (8 * S n - 8)%nat with (8 * n)%nat by lia. cbn [app]. apply IHn.
Qed.

Lemma skipn_add {A} a b (l : list A) : skipn (a + b) l = skipn b (skipn a l).
Proof.
  revert l. induction a; intros l; [reflexivity|]. destruct l; cbn [plus skipn]; [destruct b; reflexivity|apply IHa].
Qed.

Lemma skipn_nbits_list a k x : skipn a (nbits_list (a + k) x) = nbits_list k x.
Proof. rewrite nbits_list_split. rewrite skipn_app, nbits_list_length, Nat.sub_diag, skipn_all2 by (rewrite nbits_list_length; lia). reflexivity. Qed.

(* after a successful seek (outside a block) tell() is the target and the reader sees the file from that bit on *)
Lemma r_seek_spec bytes bits s : r_rem s = None -> 0 <= bytes -> 0 <= bits <= 7 ->
  exists s', r_seek bytes bits s = (s', None) /\ r_tell s' = (bytes, bits) /\ r_wf s' /\ r_sync s' /\ r_rem s' = None /\
             r_file s' = r_file s /\
             r_view s' = skipn (Z.to_nat (to_bit_offset bytes bits)) (bytes_bits (r_file s)).
Proof.
  intros R Hb Hbi. unfold r_seek. rewrite R. cbn [seek_adjust].
  destruct ((0 <=? bits) && (bits <=? 7)) eqn:E; [|lia]. cbn [negb].
  destruct (bytes <? 0) eqn:E2; [lia|].
  eexists. split; [reflexivity|]. unfold r_tell, r_wf, r_sync, r_view. cbn [r_nb r_off r_cur r_file r_rem].
  replace (bytes + 1 - 1) with bytes by lia.
  repeat split; try lia.
  unfold to_bit_offset.
  replace (Z.to_nat (bytes * 8 + (7 - bits))) with (8 * Z.to_nat bytes + Z.to_nat (7 - bits))%nat by lia.
  rewrite skipn_add, skipn_bytes_bits.
  destruct (nth_z (r_file s) bytes) as [c|] eqn:En.
  - rewrite (nth_z_some _ _ _ Hb En). cbn [bytes_bits flat_map]. rewrite skipn_app.
    unfold bits8. replace 8%nat with (Z.to_nat (7 - bits) + Z.to_nat (bits + 1))%nat at 1 2 by lia.
    rewrite skipn_nbits_list. rewrite nbits_list_length.
    replace (Z.to_nat (7 - bits) - (Z.to_nat (7 - bits) + Z.to_nat (bits + 1)))%nat with 0%nat by lia.
    reflexivity.
  - rewrite (nth_z_none _ _ Hb En). cbn. rewrite skipn_nil. reflexivity.
Qed.

(* inside a block: seek keeps the position of the block's end, or refuses to go past it *)
Lemma r_seek_block bytes bits s k : r_rem s = Some k -> 0 <= bytes -> 0 <= bits <= 7 ->
  match r_seek bytes bits s with
  | (s', None) => exists k', r_rem s' = Some k' /\ r_tell s' = (bytes, bits) /\
                             r_bitpos s' + Z.max 0 k' = r_bitpos s + Z.max 0 k
  | (s', Some e) => s' = s /\ e = EExc /\ r_bitpos s + k < to_bit_offset bytes bits /\ r_bitpos s < to_bit_offset bytes bits
  end.
Proof.
  intros R Hb Hbi. unfold r_seek. rewrite R.
  destruct ((0 <=? bits) && (bits <=? 7)) eqn:E; [|lia]. cbn [negb].
  pose proof (seek_adjust_law k (r_bitpos s) (to_bit_offset bytes bits)) as L.
  destruct (seek_adjust (Some k) (r_bitpos s) (to_bit_offset bytes bits)) as [[k'|]|e]; [| contradiction |].
  - destruct (bytes <? 0) eqn:E2; [lia|]. exists k'. unfold r_tell, r_bitpos. cbn [r_nb r_off r_cur r_file r_rem].
    replace (bytes + 1 - 1) with bytes by lia. repeat split; try reflexivity. exact L.
  - destruct L as [-> [L1 L2]]. repeat split; lia.
Qed.

Lemma w_seek_block bytes bits s k : w_rem s = Some k -> 0 <= bytes -> 0 <= bits <= 7 ->
  match w_seek bytes bits s with
  | (s', None) => exists k', w_rem s' = Some k' /\ w_tell s' = (bytes, bits) /\
                             w_bitpos s' + Z.max 0 k' = w_bitpos s + Z.max 0 k
  | (s', Some e) => s' = s /\ e = EExc /\ w_bitpos s + k < to_bit_offset bytes bits /\ w_bitpos s < to_bit_offset bytes bits
  end.
Proof.
  intros R Hb Hbi. unfold w_seek. rewrite R.
  destruct ((0 <=? bits) && (bits <=? 7)) eqn:E; [|lia]. cbn [negb].
  pose proof (seek_adjust_law k (w_bitpos s) (to_bit_offset bytes bits)) as L.
  destruct (seek_adjust (Some k) (w_bitpos s) (to_bit_offset bytes bits)) as [[k'|]|e]; [| contradiction |].
  - destruct (bytes <? 0) eqn:E2; [lia|]. exists k'. unfold w_tell, w_bitpos. cbn [w_nb w_pos w_rem].
    repeat split; try reflexivity. exact L.
  - destruct L as [-> [L1 L2]]. repeat split; lia.
Qed.
Lemma w_seek_tell bytes bits s : w_rem s = None -> 0 <= bytes -> 0 <= bits <= 7 ->
  exists s', w_seek bytes bits s = (s', None) /\ w_tell s' = (bytes, bits) /\ w_rem s' = None /\
             w_file s' = w_file (w_flush s).
Proof.
  intros R Hb Hbi. unfold w_seek. rewrite R. cbn [seek_adjust].
  destruct ((0 <=? bits) && (bits <=? 7)) eqn:E; [|lia]. cbn [negb].
  destruct (bytes <? 0) eqn:E2; [lia|].
  eexists. split; [reflexivity|]. unfold w_tell. cbn [w_nb w_pos w_rem w_file]. repeat split.
  f_equal. destruct s; unfold w_set_rem; cbn in *; subst; reflexivity.
Qed.

(* ------------------------- round trips INSIDE bounded blocks (truncated codes) *)
(* from a `feeds` fact every primitive follows, whatever kind of source it is *)
Lemma r_uint_from_feeds v s s' : r_wf s -> 0 <= v -> feeds r_read_bit s (uint_bits v) s' ->
  r_read_uint s = (s', Ok v).
Proof.
  intros W Hv F. unfold r_read_uint. unfold uint_bits in F.
  pose proof (g_uint_feeds r_read_bit _ 1 _ _ 0%nat F) as G.
  rewrite uint_value in G by assumption.
  eapply g_uint_fuel_irrelevant; [exact G|discriminate|].
  apply r_read_uint_no_fuel. assumption.
Qed.
Lemma r_sint_from_feeds v s s' : r_wf s -> feeds r_read_bit s (sint_bits v) s' ->
  r_read_sint s = (s', Ok v).
Proof.
  intros W F. unfold r_read_sint. apply g_sint_feeds with (v := v); [assumption|].
  intros m Fm. apply r_uint_from_feeds; [assumption|lia|assumption].
Qed.
Lemma r_nbits_from_feeds n v s s' : 0 <= n -> 0 <= v < 2 ^ n ->
  feeds r_read_bit s (nbits_list (Z.to_nat n) v) s' -> r_read_nbits n s = (s', Ok v).
Proof.
  intros Hn Hv F. unfold r_read_nbits.
  pose proof (g_nbits_feeds r_read_bit Z.lor lor_comb _ 0 _ _ F) as G.
  rewrite nbits_list_length in G. rewrite G. rewrite nbits_value; [reflexivity|].
  rewrite Z2Nat.id by lia. assumption.
Qed.
Lemma d_uintb_from_feeds v s s' : d_wf s -> 0 <= v -> feeds d_read_bitb s (uint_bits v) s' ->
  d_read_uintb s = (s', Ok v).
Proof.
  intros W Hv F. unfold d_read_uintb. unfold uint_bits in F.
  pose proof (g_uint_feeds d_read_bitb _ 1 _ _ 0%nat F) as G.
  rewrite uint_value in G by assumption.
  eapply g_uint_fuel_irrelevant; [exact G|discriminate|].
  apply d_read_uintb_no_fuel. assumption.
Qed.
Lemma d_sintb_from_feeds v s s' : d_wf s -> feeds d_read_bitb s (sint_bits v) s' ->
  d_read_sintb s = (s', Ok v).
Proof.
  intros W F. unfold d_read_sintb. apply g_sint_feeds with (v := v); [assumption|].
  intros m Fm. apply d_uintb_from_feeds; [assumption|lia|assumption].
Qed.

Definition all_ones (l : list bool) : Prop := Forall (fun b => b = true) l.

(* the writer inside a block with k bits left: accepted iff everything past the end is 1;
   only the first max(k,0) bits reach the file; the counter always drops by the full length *)
Lemma w_write_bits_blk : forall l s k, w_wf s -> w_rem s = Some k ->
  all_ones (skipn (Z.to_nat k) l) ->
  exists s', w_write_bits l s = (s', None) /\ w_view s' = w_view s ++ firstn (Z.to_nat k) l /\ w_wf s' /\
             w_rem s' = Some (k - Z.of_nat (length l)) /\
             w_bitpos s' = w_bitpos s + Z.of_nat (length (firstn (Z.to_nat k) l)).
Proof.
  induction l as [|b l IH]; intros s k W R A.
  - exists s. cbn [w_write_bits length]. rewrite firstn_nil. cbn [length]. rewrite app_nil_r.
    repeat split; try assumption; try apply W; try lia. rewrite R. f_equal. lia.
  - cbn [w_write_bits]. destruct (Z_le_gt_dec k 0) as [K|K].
    + replace (Z.to_nat k) with 0%nat in * by lia. cbn [skipn firstn] in *.
      pose proof (Forall_inv A) as Hb. pose proof (Forall_inv_tail A) as A'. cbn beta in Hb. subst b.
      rewrite (w_write_past_end _ _ true R K).
      destruct (IH (w_set_rem s (Some (k - 1))) (k - 1) W eq_refl) as [s' [E [V [W' [R' P']]]]].
      { replace (Z.to_nat (k - 1)) with 0%nat by lia. exact A'. }
      replace (Z.to_nat (k - 1)) with 0%nat in * by lia. cbn [firstn length] in *.
      exists s'. split; [exact E|]. repeat split; try assumption; try apply W'.
      rewrite R'. f_equal. cbn [length]. lia.
    + rewrite (w_write_inside _ _ b R) by lia.
      set (s0 := w_set_rem s (Some (k - 1))).
      destruct (w_put_spec b s0 W) as [V1 [W1 [P1 R1]]].
      replace (Z.to_nat k) with (S (Z.to_nat (k - 1))) in * by lia. cbn [skipn firstn] in *.
      destruct (IH (w_put b s0) (k - 1) W1 ltac:(rewrite R1; reflexivity) A) as [s' [E [V [W' [R' P']]]]].
      exists s'. split; [exact E|]. repeat split; try assumption; try apply W'.
      * rewrite V, V1. change (w_view s0) with (w_view s). rewrite <- app_assoc. reflexivity.
      * rewrite R'. f_equal. cbn [length]. lia.
      * rewrite P', P1. change (w_bitpos s0) with (w_bitpos s). cbn [length]. lia.
Qed.
(* ... and a 0 past the end is rejected with ValueError *)
Lemma w_write_bits_blk_reject : forall l s k, w_rem s = Some k ->
  ~ all_ones (skipn (Z.to_nat k) l) -> exists s', w_write_bits l s = (s', Some EValue).
Proof.
  induction l as [|b l IH]; intros s k R A.
  - exfalso. apply A. rewrite skipn_nil. constructor.
  - cbn [w_write_bits]. destruct (Z_le_gt_dec k 0) as [K|K].
    + replace (Z.to_nat k) with 0%nat in * by lia. cbn [skipn] in A.
      rewrite (w_write_past_end _ _ b R K). destruct b.
      * apply (IH (w_set_rem s (Some (k - 1))) (k - 1) eq_refl). replace (Z.to_nat (k - 1)) with 0%nat by lia. cbn [skipn].
        intros H. apply A. constructor; [reflexivity|assumption].
      * eexists. reflexivity.
    + rewrite (w_write_inside _ _ b R) by lia.
      apply (IH _ (k - 1)).
      * unfold w_put, w_write_byte. cbn. destruct (w_nb s - 1 <? 0); reflexivity.
      * replace (Z.to_nat k) with (S (Z.to_nat (k - 1))) in A by lia. exact A.
Qed.

(* BitstreamReader inside a block with k bits left *)
Lemma r_feeds_blk : forall l s k rest, r_wf s -> r_rem s = Some k ->
  r_view s = firstn (Z.to_nat k) l ++ rest -> all_ones (skipn (Z.to_nat k) l) ->
  exists s', feeds r_read_bit s l s' /\ r_wf s' /\ r_rem s' = Some (k - Z.of_nat (length l)) /\ r_view s' = rest /\
             r_bitpos s' = r_bitpos s + Z.of_nat (length (firstn (Z.to_nat k) l)) /\ r_file s' = r_file s.
Proof.
  induction l as [|b l IH]; intros s k rest W R V A.
  - exists s. rewrite firstn_nil in *. cbn [length app] in *. repeat split; try assumption; try constructor; try apply W; try lia.
    rewrite R. f_equal. lia.
  - destruct (Z_le_gt_dec k 0) as [K|K].
    + replace (Z.to_nat k) with 0%nat in * by lia. cbn [skipn firstn app] in *.
      pose proof (Forall_inv A) as Hb. pose proof (Forall_inv_tail A) as A'. cbn beta in Hb. subst b.
      destruct (IH (r_set_rem s (Some (k - 1))) (k - 1) rest W eq_refl) as [s' [F [W' [R' [V' [P' F']]]]]].
      { replace (Z.to_nat (k - 1)) with 0%nat by lia. exact V. }
      { replace (Z.to_nat (k - 1)) with 0%nat by lia. exact A'. }
      replace (Z.to_nat (k - 1)) with 0%nat in * by lia. cbn [firstn length] in *.
      exists s'. repeat split; try assumption; try apply W'.
      * apply (feeds_cons r_read_bit s (r_set_rem s (Some (k - 1))) s' true l); [|exact F].
        apply r_read_past_end; assumption.
      * rewrite R'. f_equal. cbn [length]. lia.
    + replace (Z.to_nat k) with (S (Z.to_nat (k - 1))) in * by lia. cbn [skipn firstn app] in *.
      set (s0 := r_set_rem s (Some (k - 1))).
      assert (W0 : r_wf s0) by exact W.
      pose proof (r_get_spec s0 W0) as G. change (r_view s0) with (r_view s) in G. rewrite V in G.
      destruct G as [s1 [G1 [G2 [G3 [G4 [G5 [G6 _]]]]]]].
      destruct (IH s1 (k - 1) rest G3 ltac:(rewrite G4; reflexivity) G2 A) as [s' [F [W' [R' [V' [P' F']]]]]].
      exists s'. repeat split; try assumption; try apply W'.
      * apply (feeds_cons r_read_bit s s1 s' b l); [|exact F].
        rewrite (r_read_inside _ _ R) by lia. exact G1.
      * rewrite R'. f_equal. cbn [length]. lia.
      * rewrite P', G5. change (r_bitpos s0) with (r_bitpos s). cbn [length]. lia.
      * rewrite F', G6. reflexivity.
Qed.

(* the validator's reader inside a block with k >= 0 bits left *)
Lemma d_feeds_blk : forall l s k rest, d_wf s -> d_left s = k -> 0 <= k ->
  d_view s = firstn (Z.to_nat k) l ++ rest -> all_ones (skipn (Z.to_nat k) l) ->
  exists s', feeds d_read_bitb s l s' /\ d_wf s' /\ d_left s' = Z.max 0 (k - Z.of_nat (length l)) /\ d_view s' = rest /\
             d_bitpos s' = d_bitpos s + Z.of_nat (length (firstn (Z.to_nat k) l)) /\ d_file s' = d_file s.
Proof.
  induction l as [|b l IH]; intros s k rest W L Hk V A.
  - exists s. rewrite firstn_nil in *. cbn [length app] in *. repeat split; try assumption; try constructor; try apply W; try lia.
  - destruct (Z.eq_dec k 0) as [K|K].
    + subst k. rewrite K in *. cbn [Z.to_nat skipn firstn app] in *.
      pose proof (Forall_inv A) as Hb. pose proof (Forall_inv_tail A) as A'. cbn beta in Hb. subst b.
      destruct (IH s 0 rest W K ltac:(lia) V A') as [s' [F [W' [R' [V' [P' F']]]]]].
      cbn [Z.to_nat firstn length] in *.
      exists s'. repeat split; try assumption; try apply W'.
      * apply (feeds_cons d_read_bitb s s s' true l); [|exact F]. apply d_read_past_end; assumption.
      * rewrite R'. cbn [length]. lia.
    + replace (Z.to_nat k) with (S (Z.to_nat (k - 1))) in * by lia. cbn [skipn firstn app] in *.
      set (s0 := d_set_left s (d_left s - 1)).
      assert (W0 : d_wf s0) by exact W.
      pose proof (d_read_bit_spec s0 W0) as G. change (d_view s0) with (d_view s) in G. rewrite V in G.
      destruct G as [s1 [G1 [G2 [G3 [G4 [G5 G6]]]]]].
      destruct (IH s1 (k - 1) rest G3 ltac:(rewrite G4; cbn [s0 d_set_left d_left]; lia) ltac:(lia) G2 A) as [s' [F [W' [R' [V' [P' F']]]]]].
      exists s'. repeat split; try assumption; try apply W'.
      * apply (feeds_cons d_read_bitb s s1 s' b l); [|exact F].
        rewrite d_read_inside by lia. exact G1.
      * rewrite R'. cbn [length]. lia.
      * rewrite P', G5. change (d_bitpos s0) with (d_bitpos s). cbn [length]. lia.
      * rewrite F', G6. reflexivity.
Qed.

Lemma w_write_bits_app l1 l2 s :
  w_write_bits (l1 ++ l2) s = match w_write_bits l1 s with (s1, None) => w_write_bits l2 s1 | r => r end.
Proof.
  revert s. induction l1 as [|b l1 IH]; intros s; cbn [app w_write_bits].
  - destruct (w_write_bits l2 s) as [s1 [e|]]; reflexivity.
  - destruct (w_write_bit b s) as [s1 [e|]]; [reflexivity|]. apply IH.
Qed.
Lemma w_write_sint_bits v s : w_write_sint v s = w_write_bits (sint_bits v) s.
Proof.
  unfold w_write_sint, sint_bits, w_write_uint. destruct (Z.abs v <? 0) eqn:E0; [lia|].
  rewrite w_write_bits_app. destruct (w_write_bits (uint_bits (Z.abs v)) s) as [s1 [e|]]; [reflexivity|].
  destruct (v =? 0); [reflexivity|]. cbn [w_write_bits].
  destruct (w_write_bit (v <? 0) s1) as [s2 [e|]]; reflexivity.
Qed.

(* The bounded-block round trip: whatever exp-Golomb code the writer ACCEPTED in a block with
   k bits left (so its tail past the end is all 1s and never reached the file), both readers,
   in a block with k bits left, read back the same value, consume only the bits that are in
   the file, and drop their counters by the full code length; a code with a 0 past the end
   is rejected with ValueError. *)
Lemma blk_sint_roundtrip v k :
  all_ones (skipn (Z.to_nat k) (sint_bits v)) ->
  (forall w, w_wf w -> w_rem w = Some k ->
     exists w', w_write_sint v w = (w', None) /\ w_view w' = w_view w ++ firstn (Z.to_nat k) (sint_bits v) /\
                w_rem w' = Some (k - Z.of_nat (length (sint_bits v)))) /\
  (forall r rest, r_wf r -> r_rem r = Some k -> r_view r = firstn (Z.to_nat k) (sint_bits v) ++ rest ->
     exists r', r_read_sint r = (r', Ok v) /\ r_view r' = rest /\ r_rem r' = Some (k - Z.of_nat (length (sint_bits v))) /\
                r_bitpos r' = r_bitpos r + Z.of_nat (length (firstn (Z.to_nat k) (sint_bits v)))) /\
  (0 <= k -> forall d rest, d_wf d -> d_left d = k -> d_view d = firstn (Z.to_nat k) (sint_bits v) ++ rest ->
     exists d', d_read_sintb d = (d', Ok v) /\ d_view d' = rest /\ d_left d' = Z.max 0 (k - Z.of_nat (length (sint_bits v))) /\
                d_bitpos d' = d_bitpos d + Z.of_nat (length (firstn (Z.to_nat k) (sint_bits v)))).
Proof.
  intros A. split; [|split].
  - intros w W R. rewrite w_write_sint_bits.
    destruct (w_write_bits_blk _ _ _ W R A) as [w' [E [V [W' [R' P']]]]]. exists w'. auto.
  - intros r rest W R V.
    destruct (r_feeds_blk _ _ _ _ W R V A) as [r' [F [W' [R' [V' [P' F']]]]]].
    exists r'. split; [apply r_sint_from_feeds; assumption|auto].
  - intros Hk d rest W L V.
    destruct (d_feeds_blk _ _ _ _ W L Hk V A) as [d' [F [W' [R' [V' [P' F']]]]]].
    exists d'. split; [apply d_sintb_from_feeds; assumption|auto].
Qed.
Lemma blk_sint_reject v k s : w_rem s = Some k -> ~ all_ones (skipn (Z.to_nat k) (sint_bits v)) ->
  exists s', w_write_sint v s = (s', Some EValue).
Proof. intros R A. rewrite w_write_sint_bits. eapply w_write_bits_blk_reject; eauto. Qed.

Lemma exp_golomb_length_dom_ok v : 0 <= v -> exp_golomb_length_dom v = true.
Proof. intros H. unfold exp_golomb_length_dom. destruct (v <? 0) eqn:E; [lia|reflexivity]. Qed.
Lemma signed_exp_golomb_length_dom_ok v : signed_exp_golomb_length_dom v = true.
Proof.
  unfold signed_exp_golomb_length_dom. rewrite exp_golomb_length_dom_ok by (unfold py_abs; lia).
  destruct (negb (v =? 0)); reflexivity.
Qed.

Lemma d_block_lengths_nonneg n s s' y left :
  d_read_nbits n s = (s', Ok y) -> (y >? left) = false -> 0 <= y /\ 0 <= left - y.
Proof. intros H G. pose proof (d_read_nbits_nonneg n s s' y H). lia. Qed.

Lemma flushed_file_reader_view s : w_wf s -> w_pos s = flen (w_file s) ->
  exists pad, r_view (r_init (w_file (w_flush s)) 0) = w_view s ++ pad /\
              d_view (d_init (w_file (w_flush s)) 0) = w_view s ++ pad /\ (length pad < 8)%nat /\
              (low_bits_zero s -> Forall (fun b => b = false) pad).
Proof.
  intros W E. destruct (flushed_file_view s W E) as [pad [A [B C]]].
  exists pad. rewrite r_init_view, d_init_view. auto.
Qed.

Lemma uint_lit_roundtrip n v : 0 <= n -> 0 <= v < 2 ^ (n * 8) ->
  (forall s, w_wf s -> w_rem s = None -> w_writes (w_write_uint_lit n v s) s (nbits_list (Z.to_nat (n * 8)) v)) /\
  (forall s rest, r_wf s -> r_rem s = None -> r_view s = nbits_list (Z.to_nat (n * 8)) v ++ rest ->
                  r_reads (r_read_uint_lit n s) s v (Z.to_nat (n * 8)) rest) /\
  (forall s rest, d_wf s -> d_view s = nbits_list (Z.to_nat (n * 8)) v ++ rest ->
                  d_reads (d_read_uint_lit n s) s v (Z.to_nat (n * 8)) rest).
Proof.
  intros Hn Hv. repeat split; intros.
  - apply w_uint_lit_writes; assumption.
  - apply r_uint_lit_roundtrip; assumption.
  - apply d_uint_lit_roundtrip; assumption.
Qed.
