(* Lemmas about Model/FileFormat.v (raw picture file packing / unpacking). *)
From Coq Require Import ZArith List Bool Lia ZifyBool.
From VC2 Require Import Base.PyZ Gen.VC2Math Model.FileFormat.
Import ListNotations.
Open Scope Z_scope.
Ltac Zify.zify_post_hook ::= Z.to_euclidean_division_equations.

(* ---- intlog2 / bytes_per_sample -------------------------------------------------------- *)

Lemma bit_length_nonneg : forall x, 0 <= bit_length x.
Proof.
  intros [|p|p]; cbn [bit_length]; try lia;
    pose proof (Z.log2_nonneg (Z.pos p)); lia.
Qed.

Lemma bit_length_upper : forall x, 0 <= x -> x < 2 ^ bit_length x.
Proof.
  intros [|p|p] Hx; cbn [bit_length]; [reflexivity | | lia].
  pose proof (Z.log2_spec (Z.pos p) ltac:(lia)) as H.
  replace (Z.log2 (Z.pos p) + 1) with (Z.succ (Z.log2 (Z.pos p))) by lia. lia.
Qed.

Lemma bit_length_lower : forall x, 0 < x -> 2 ^ (bit_length x - 1) <= x.
Proof.
  intros [|p|p] Hx; cbn [bit_length]; [lia | | lia].
  pose proof (Z.log2_spec (Z.pos p) ltac:(lia)) as H.
  replace (Z.log2 (Z.pos p) + 1 - 1) with (Z.log2 (Z.pos p)) by lia. lia.
Qed.

Lemma intlog2_nonneg : forall n, 0 <= intlog2 n.
Proof. intros n. unfold intlog2. apply bit_length_nonneg. Qed.

(* intlog2 n = ceil(log2 n): smallest power of two >= n *)
Lemma intlog2_upper : forall n, 1 <= n -> n <= 2 ^ intlog2 n.
Proof.
  intros n Hn. unfold intlog2.
  pose proof (bit_length_upper (n - 1) ltac:(lia)). lia.
Qed.

Lemma intlog2_lower : forall n, 2 <= n -> 2 ^ (intlog2 n - 1) < n.
Proof.
  intros n Hn. unfold intlog2.
  pose proof (bit_length_lower (n - 1) ltac:(lia)). lia.
Qed.

Lemma bytes_per_sample_pow2 : forall depth,
  bytes_per_sample depth = 2 ^ intlog2 ((depth + 7) / 8).
Proof.
  intros depth. unfold bytes_per_sample, py_shl, py_div.
  rewrite Z.shiftl_1_l. reflexivity.
Qed.

Lemma bytes_per_sample_pos : forall depth, 0 < bytes_per_sample depth.
Proof.
  intros depth. rewrite bytes_per_sample_pow2.
  apply Z.pow_pos_nonneg; [lia | apply intlog2_nonneg].
Qed.

(* enough bytes for the depth *)
Lemma bytes_per_sample_enough : forall depth, 1 <= depth -> depth <= 8 * bytes_per_sample depth.
Proof.
  intros depth Hd. rewrite bytes_per_sample_pow2.
  pose proof (intlog2_upper ((depth + 7) / 8) ltac:(lia)). lia.
Qed.

(* ... and the smallest power of two with that property (for depth > 8) *)
Lemma bytes_per_sample_smallest : forall depth, 9 <= depth ->
  8 * (bytes_per_sample depth / 2) < depth.
Proof.
  intros depth Hd. rewrite bytes_per_sample_pow2.
  pose proof (intlog2_lower ((depth + 7) / 8) ltac:(lia)) as H.
  pose proof (intlog2_nonneg ((depth + 7) / 8)) as Hn.
  assert (Hk : 1 <= intlog2 ((depth + 7) / 8)).
  { destruct (Z.eq_dec (intlog2 ((depth + 7) / 8)) 0) as [E|E]; [|lia].
    pose proof (intlog2_upper ((depth + 7) / 8) ltac:(lia)) as H2. rewrite E in H2.
    change (2 ^ 0) with 1 in H2. lia. }
  replace (intlog2 ((depth + 7) / 8)) with (Z.succ (intlog2 ((depth + 7) / 8) - 1)) at 1 by lia.
  rewrite Z.pow_succ_r by lia.
  set (p := 2 ^ (intlog2 ((depth + 7) / 8) - 1)) in *.
  replace (2 * p / 2) with p by (rewrite Z.mul_comm, Z.div_mul; lia).
  lia.
Qed.

Lemma bytes_per_sample_small : forall depth, 1 <= depth <= 8 -> bytes_per_sample depth = 1.
Proof.
  intros depth Hd. unfold bytes_per_sample, py_div.
  replace ((depth + 7) / 8) with 1 by lia. reflexivity.
Qed.

(* ---- little-endian value of a byte list ------------------------------------------------ *)

Fixpoint le_sum (bs : list Z) : Z :=
  match bs with
  | [] => 0
  | b :: r => b + 256 * le_sum r
  end.

Lemma le_value_sum : forall bs, le_value bs = le_sum bs.
Proof.
  unfold le_value. induction bs as [|b r IH]; [reflexivity|].
  cbn [rev le_sum]. rewrite fold_left_app. cbn [fold_left].
  rewrite IH. unfold py_shl. rewrite Z.shiftl_mul_pow2 by lia.
  change (2 ^ 8) with 256. lia.
Qed.

Definition is_byte (b : Z) : Prop := 0 <= b < 256.

Lemma le_bytes_length : forall n v, length (le_bytes n v) = n.
Proof. induction n as [|k IH]; intros v; cbn [le_bytes length]; [reflexivity | now rewrite IH]. Qed.

Lemma land_255 : forall v, Z.land v 255 = v mod 256.
Proof. intros v. change 255 with (Z.ones 8). rewrite Z.land_ones by lia. reflexivity. Qed.

Lemma le_bytes_bytes : forall n v, Forall is_byte (le_bytes n v).
Proof.
  induction n as [|k IH]; intros v; cbn [le_bytes]; constructor; [|apply IH].
  unfold is_byte. rewrite land_255. lia.
Qed.

Lemma le_sum_le_bytes : forall n v, le_sum (le_bytes n v) = v mod 256 ^ Z.of_nat n.
Proof.
  induction n as [|k IH]; intros v.
  - cbn [le_bytes le_sum]. change (256 ^ Z.of_nat 0) with 1. now rewrite Z.mod_1_r.
  - cbn [le_bytes le_sum]. rewrite IH, land_255. unfold py_shr.
    rewrite Z.shiftr_div_pow2 by lia. change (2 ^ 8) with 256.
    rewrite Nat2Z.inj_succ, Z.pow_succ_r by lia.
    assert (Hp : 0 < 256 ^ Z.of_nat k) by (apply Z.pow_pos_nonneg; lia).
    rewrite (Z.rem_mul_r v 256 (256 ^ Z.of_nat k)) by lia. reflexivity.
Qed.

Lemma le_sum_bounds : forall bs, Forall is_byte bs -> 0 <= le_sum bs < 256 ^ Z.of_nat (length bs).
Proof.
  induction 1 as [|b r Hb Hr IH].
  - cbn. lia.
  - cbn [le_sum length]. rewrite Nat2Z.inj_succ, Z.pow_succ_r by lia.
    unfold is_byte in Hb. lia.
Qed.

(* ---- masking ------------------------------------------------------------------------------ *)

Lemma le_sum_mask_zero : forall depth bs i, depth - 8 * i <= 0 ->
  le_sum (mask_at depth i bs) = 0.
Proof.
  intros depth bs. induction bs as [|b r IH]; intros i Hd; [reflexivity|].
  cbn [mask_at le_sum]. rewrite (IH (i + 1)) by lia. unfold py_div.
  destruct (i >? (depth + 7) / 8 - 1) eqn:E; [lia|]. exfalso. lia.
Qed.

Lemma land_mask_mod : forall b r, 0 <= r -> Z.land b (py_shl 1 r - 1) = b mod 2 ^ r.
Proof.
  intros b r Hr. unfold py_shl. rewrite Z.shiftl_1_l.
  rewrite <- Z.land_ones by lia. rewrite Z.ones_equiv. reflexivity.
Qed.

Lemma mod_pow2_split : forall b x d, 0 <= b < 256 -> 8 <= d ->
  (b + 256 * x) mod 2 ^ d = b + 256 * (x mod 2 ^ (d - 8)).
Proof.
  intros b x d Hb Hd.
  replace d with (8 + (d - 8)) at 1 by lia.
  rewrite Z.pow_add_r by lia. change (2 ^ 8) with 256.
  assert (Hp : 0 < 2 ^ (d - 8)) by (apply Z.pow_pos_nonneg; lia).
  rewrite Z.rem_mul_r by lia.
  replace ((b + 256 * x) mod 256) with b by lia.
  replace ((b + 256 * x) / 256) with x by lia. reflexivity.
Qed.

Lemma mod_pow2_low : forall b x d, 0 <= d <= 8 ->
  (b + 256 * x) mod 2 ^ d = b mod 2 ^ d.
Proof.
  intros b x d Hd.
  assert (Hp : 0 < 2 ^ d) by (apply Z.pow_pos_nonneg; lia).
  replace 256 with (2 ^ d * 2 ^ (8 - d)).
  2:{ rewrite <- Z.pow_add_r by lia. replace (d + (8 - d)) with 8 by lia. reflexivity. }
  replace (b + 2 ^ d * 2 ^ (8 - d) * x) with (b + (2 ^ (8 - d) * x) * 2 ^ d) by lia.
  apply Z.mod_add. lia.
Qed.

Lemma le_sum_mask : forall depth bs i, Forall is_byte bs -> 0 < depth - 8 * i ->
  le_sum (mask_at depth i bs) = le_sum bs mod 2 ^ (depth - 8 * i).
Proof.
  intros depth bs. induction bs as [|b r IH]; intros i Hb Hd.
  - cbn [mask_at le_sum]. now rewrite Z.mod_0_l by (apply Z.pow_nonzero; lia).
  - inversion Hb as [|? ? Hb1 Hbr]; subst. unfold is_byte in Hb1.
    cbn [mask_at le_sum]. unfold py_div, py_mod.
    destruct (i >? (depth + 7) / 8 - 1) eqn:E1; [exfalso; lia|].
    destruct (Z_lt_le_dec (depth - 8 * i) 8) as [Hlt|Hge].
    + (* top byte, partial *)
      assert (Ei : i = (depth + 7) / 8 - 1) by lia.
      assert (Em : depth mod 8 = depth - 8 * i) by lia.
      replace ((i =? (depth + 7) / 8 - 1) && negb (depth mod 8 =? 0)) with true by lia.
      rewrite (le_sum_mask_zero depth r (i + 1)) by lia.
      rewrite land_mask_mod by lia. rewrite Em.
      rewrite mod_pow2_low by lia. lia.
    + destruct (Z.eq_dec (depth - 8 * i) 8) as [E8|N8].
      * (* top byte, whole *)
        replace ((i =? (depth + 7) / 8 - 1) && negb (depth mod 8 =? 0)) with false by lia.
        rewrite (le_sum_mask_zero depth r (i + 1)) by lia.
        rewrite E8. rewrite mod_pow2_low by lia. change (2 ^ 8) with 256.
        rewrite Z.mod_small by lia. lia.
      * replace ((i =? (depth + 7) / 8 - 1) && negb (depth mod 8 =? 0)) with false by lia.
        rewrite (IH (i + 1)) by (auto; lia).
        rewrite mod_pow2_split by lia.
        replace (depth - 8 * (i + 1)) with (depth - 8 * i - 8) by lia. reflexivity.
Qed.

(* reading keeps exactly the low `depth` bits of the little-endian word: the padding
   bits of the file are ignored *)
Lemma unpack_mod : forall depth bs, 1 <= depth -> Forall is_byte bs ->
  unpack depth bs = le_sum bs mod 2 ^ depth.
Proof.
  intros depth bs Hd Hb. unfold unpack, mask_bytes. rewrite le_value_sum.
  rewrite le_sum_mask by (auto; lia). f_equal. f_equal. lia.
Qed.

(* ---- sample round trip -------------------------------------------------------------------- *)

Lemma pack_length : forall depth v, length (pack depth v) = Z.to_nat (bytes_per_sample depth).
Proof. intros. unfold pack. apply le_bytes_length. Qed.

Lemma pack_bytes : forall depth v, Forall is_byte (pack depth v).
Proof. intros. unfold pack. apply le_bytes_bytes. Qed.

Lemma pow256 : forall n, 0 <= n -> 256 ^ n = 2 ^ (8 * n).
Proof. intros n Hn. rewrite Z.pow_mul_r by lia. reflexivity. Qed.

(* any integer (also out of range / negative) is stored modulo 2^depth *)
Lemma unpack_pack_mod : forall depth v, 1 <= depth -> unpack depth (pack depth v) = v mod 2 ^ depth.
Proof.
  intros depth v Hd. rewrite unpack_mod by (auto using pack_bytes).
  unfold pack. rewrite le_sum_le_bytes.
  pose proof (bytes_per_sample_pos depth) as Hp.
  pose proof (bytes_per_sample_enough depth Hd) as He.
  rewrite Z2Nat.id by lia. rewrite pow256 by lia.
  set (n := 8 * bytes_per_sample depth) in *.
  replace n with (depth + (n - depth)) by lia.
  rewrite Z.pow_add_r by lia.
  assert (H1 : 0 < 2 ^ depth) by (apply Z.pow_pos_nonneg; lia).
  assert (H2 : 0 < 2 ^ (n - depth)) by (apply Z.pow_pos_nonneg; lia).
  rewrite Z.rem_mul_r by lia.
  rewrite Z.mul_comm, Z.mod_add by lia. apply Z.mod_mod. lia.
Qed.

Lemma sample_roundtrip : forall depth v, 1 <= depth -> 0 <= v < 2 ^ depth ->
  unpack depth (pack depth v) = v.
Proof. intros depth v Hd Hv. rewrite unpack_pack_mod by assumption. apply Z.mod_small. lia. Qed.

(* ---- component and picture round trip ----------------------------------------------------- *)

Lemma sample_ok_spec : forall depth v, sample_ok depth v = true <-> 0 <= v < 2 ^ depth.
Proof. intros. unfold sample_ok. lia. Qed.

Lemma read_samples_write : forall depth vs rest, 1 <= depth ->
  forallb (sample_ok depth) vs = true ->
  read_samples depth (length vs) (write_component depth vs ++ rest) = Some (vs, rest).
Proof.
  intros depth vs rest Hd. induction vs as [|v vs IH]; intros Hok; [reflexivity|].
  cbn [forallb] in Hok. apply andb_true_iff in Hok as [Hv Hvs].
  cbn [length read_samples write_component flat_map].
  fold (write_component depth vs).
  rewrite <- app_assoc.
  set (bps := Z.to_nat (bytes_per_sample depth)).
  assert (Hl : length (pack depth v) = bps) by apply pack_length.
  replace (length (pack depth v ++ write_component depth vs ++ rest) <? bps)%nat with false.
  2:{ symmetry. apply Nat.ltb_ge. rewrite app_length. lia. }
  rewrite <- Hl at 1. rewrite skipn_app, skipn_all, Nat.sub_diag. cbn [skipn app].
  rewrite (IH Hvs).
  rewrite <- Hl. rewrite firstn_app, firstn_all, Nat.sub_diag. cbn [firstn]. rewrite app_nil_r.
  rewrite sample_roundtrip by (auto; now apply sample_ok_spec). reflexivity.
Qed.

Lemma read_samples_length : forall depth n bytes vs rest,
  read_samples depth n bytes = Some (vs, rest) -> length vs = n.
Proof.
  intros depth n. induction n as [|k IH]; intros bytes vs rest H; cbn [read_samples] in H.
  - now inversion H.
  - destruct (length bytes <? Z.to_nat (bytes_per_sample depth))%nat; [discriminate|].
    destruct (read_samples depth k _) as [[vs' rest']|] eqn:E; [|discriminate].
    inversion H; subst. cbn [length]. f_equal. eapply IH; eauto.
Qed.

Lemma Forall_skipn_ : forall (A : Type) (P : A -> Prop) n l, Forall P l -> Forall P (skipn n l).
Proof.
  intros A P n. induction n as [|k IH]; intros l H; [exact H|].
  destruct l as [|x l]; [constructor|]. cbn [skipn]. inversion H; subst. now apply IH.
Qed.

Lemma Forall_firstn_ : forall (A : Type) (P : A -> Prop) n l, Forall P l -> Forall P (firstn n l).
Proof.
  intros A P n. induction n as [|k IH]; intros l H; [constructor|].
  destruct l as [|x l]; [constructor|]. cbn [firstn]. inversion H; subst. constructor; auto.
Qed.

(* whatever is in the file (byte values), the samples read are within the depth *)
Lemma read_samples_in_range : forall depth n bytes vs rest, 1 <= depth -> Forall is_byte bytes ->
  read_samples depth n bytes = Some (vs, rest) ->
  Forall (fun v => 0 <= v < 2 ^ depth) vs /\ Forall is_byte rest.
Proof.
  intros depth n. induction n as [|k IH]; intros bytes vs rest Hd Hb H; cbn [read_samples] in H.
  - inversion H; subst. auto.
  - destruct (length bytes <? Z.to_nat (bytes_per_sample depth))%nat; [discriminate|].
    destruct (read_samples depth k _) as [[vs' rest']|] eqn:E; [|discriminate].
    inversion H; subst.
    assert (Hs : Forall is_byte (skipn (Z.to_nat (bytes_per_sample depth)) bytes)).
    { now apply Forall_skipn_. }
    destruct (IH _ _ _ Hd Hs E) as [H1 H2]. split; [|assumption].
    constructor; [|assumption].
    rewrite unpack_mod; auto.
    + apply Z.mod_pos_bound. apply Z.pow_pos_nonneg; lia.
    + now apply Forall_firstn_.
Qed.

Definition depths_ok (ds : list dims) : Prop := Forall (fun d => 1 <= d_depth d) ds.

Lemma picture_roundtrip : forall ds pic rest, depths_ok ds -> picture_ok ds pic = true ->
  read_picture ds (write_picture ds pic ++ rest) = Some (pic, rest).
Proof.
  intros ds. induction ds as [|d ds IH]; intros pic rest Hd Hok.
  - destruct pic; [reflexivity | discriminate].
  - destruct pic as [|c pic]; [discriminate|].
    cbn [picture_ok] in Hok. apply andb_true_iff in Hok as [Hok Hrest].
    apply andb_true_iff in Hok as [Hlen Hc].
    apply Nat.eqb_eq in Hlen. inversion Hd as [|? ? Hd1 Hds]; subst.
    cbn [write_picture read_picture]. rewrite <- app_assoc, <- Hlen.
    rewrite read_samples_write by assumption.
    rewrite (IH pic rest Hds Hrest). reflexivity.
Qed.

Lemma write_component_length : forall depth vs,
  length (write_component depth vs) = (length vs * Z.to_nat (bytes_per_sample depth))%nat.
Proof.
  intros depth vs. induction vs as [|v vs IH]; [reflexivity|].
  cbn [write_component flat_map length]. fold (write_component depth vs).
  rewrite app_length, pack_length, IH. lia.
Qed.

(* ---- dimensions ---------------------------------------------------------------------------- *)

Lemma depth_of_excursion_ok : forall exc, 1 <= exc -> 1 <= depth_of_excursion exc.
Proof.
  intros exc H. unfold depth_of_excursion.
  destruct (Z.eq_dec (intlog2 (exc + 1)) 0) as [E|E].
  - pose proof (intlog2_upper (exc + 1) ltac:(lia)) as H2. rewrite E in H2. change (2 ^ 0) with 1 in H2. lia.
  - pose proof (intlog2_nonneg (exc + 1)). lia.
Qed.

(* every value 0..excursion fits the depth, and the depth is the least such *)
Lemma depth_of_excursion_fits : forall exc, 1 <= exc -> exc < 2 ^ depth_of_excursion exc.
Proof.
  intros exc H. unfold depth_of_excursion.
  pose proof (intlog2_upper (exc + 1) ltac:(lia)). lia.
Qed.

Lemma depth_of_excursion_least : forall exc, 1 <= exc -> 2 ^ (depth_of_excursion exc - 1) <= exc.
Proof.
  intros exc H. unfold depth_of_excursion.
  pose proof (intlog2_lower (exc + 1) ltac:(lia)). lia.
Qed.

Lemma compute_depths_ok : forall f pcm, 1 <= luma_excursion f -> 1 <= color_diff_excursion f ->
  depths_ok (compute_dimensions_and_depths f pcm).
Proof.
  intros f pcm Hl Hc. unfold compute_dimensions_and_depths, depths_ok, mk_dims.
  repeat constructor; cbn [d_depth]; now apply depth_of_excursion_ok.
Qed.
