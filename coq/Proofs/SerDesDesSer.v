(* Proofs about Model/SerDes.v (C06): deserialise, then serialise the resulting description with
   the same program -- the serialiser writes exactly the consumed bits and ends with the same
   description; re-deserialising yields the same description.
   Method: every intermediate deserialiser state "can still become" the final description G ([Fut],
   proved backwards along the run: used targets are sealed, lists only grow); the serialiser holds G,
   and because both nests of dictionaries reference their children in the same slots, what G seals
   in a slot is what the deserialiser has just put there ([link], [post_link]). *)
From Coq Require Import ZArith List Bool Lia.
From VC2 Require Import Model.SerDes Model.SerDesVC2 Proofs.SerDesBits Proofs.SerDesWf Proofs.SerDesSim Proofs.SerDesProofs Proofs.SerDesConverse.
Import ListNotations.
Open Scope Z_scope.

(* ====================================================================== *)
(* [FutC ix f g]: dictionary g is a possible later version of the dictionary f being built with
   index bookkeeping ix: untouched targets are absent from f (g may hold anything there); used
   targets are SEALED (g holds exactly what f holds); a list being filled only gets longer *)
Definition FutC (ixs : indices) (f g : fields) : Prop :=
  forall t, match alookup t ixs with
            | None => alookup t f = None
            | Some Used => alookup t g = alookup t f
            | Some (Nxt _) => exists l more, alookup t f = Some (VL l) /\ alookup t g = Some (VL (l ++ more))
            end.

(* the enclosing dictionaries: each holds (sealed) the final version of the dictionary nested in it *)
Fixpoint DesK (stack : list frame) (g : fields) (G : val) : Prop :=
  match stack with
  | [] => exists ty, G = VC ty g
  | fr :: rest => exists ty g', FutC (fr_ix fr) (plug (VC ty g) (fr_f fr)) g' /\ DesK rest g' G
  end.

Definition Fut (s : st) (G : val) : Prop :=
  exists g, FutC (c_ix s) (c_f s) g /\ DesK (stk s) g G.

Lemma FutC_refl ixs f : dinv_c f ixs -> FutC ixs f f.
Proof.
  intros I t. destruct (I t) as [I1 I2]. destruct (alookup t ixs) as [[|i]|] eqn:E; auto.
  destruct (I2 i eq_refl) as (l & F & _). exists l, []. rewrite app_nil_r. auto.
Qed.

Lemma FutC_lookup_eq ixs f g g' : (forall t, alookup t g' = alookup t g) -> FutC ixs f g -> FutC ixs f g'.
Proof.
  intros H F t. specialize (F t). rewrite H. exact F.
Qed.

(* one fresh key / one appended element less *)
Lemma FutC_undo_fresh t v ixs f g : alookup t ixs = None -> alookup t f = None ->
  FutC (aupd t Used ixs) (aupd t v f) g -> FutC ixs f g.
Proof.
  intros E F H t'. specialize (H t'). rewrite !alookup_dec in H. destruct (t' =? t) eqn:Et; auto.
  apply Z.eqb_eq in Et. subst. rewrite E. auto.
Qed.

Lemma FutC_undo_append t v l ixs f g : alookup t ixs = Some (Nxt (length l)) -> alookup t f = Some (VL l) ->
  FutC (aupd t (Nxt (S (length l))) ixs) (aupd t (VL (l ++ [v])) f) g -> FutC ixs f g.
Proof.
  intros E F H t'. specialize (H t'). rewrite !alookup_dec in H. destruct (t' =? t) eqn:Et; auto.
  apply Z.eqb_eq in Et. subst. rewrite E. destruct H as (l0 & more & H1 & H2). inv H1.
  exists l, (v :: more). rewrite <- app_assoc in H2. auto.
Qed.

Lemma FutC_undo_declare t ixs f g : alookup t ixs = None -> alookup t f = None ->
  FutC (aupd t (Nxt 0) ixs) (aupd t (VL []) f) g -> FutC ixs f g.
Proof.
  intros E F H t'. specialize (H t'). rewrite !alookup_dec in H. destruct (t' =? t) eqn:Et; auto.
  apply Z.eqb_eq in Et. subst. rewrite E. auto.
Qed.

Lemma Fut_set_io s w G : Fut (set_io s w) G <-> Fut s G.
Proof. unfold Fut. simpl. tauto. Qed.

Lemma set_value_Fut t v s s' G : dinv s -> set_value t v s = Ok s' -> Fut s' G -> Fut s G.
Proof.
  intros [Ic Is] H (g & Hg & Hk).
  destruct (set_value_fresh _ _ _ _ Ic H) as [(E & F & ->) | (l & E & F & ->)]; simpl in *; exists g; split; auto.
  - eapply FutC_undo_fresh; eauto.
  - eapply FutC_undo_append; eauto.
Qed.

Lemma des_prim_Fut k t s v s' G : dinv s -> des_prim k t s = Ok (v, s') -> Fut s' G -> Fut s G.
Proof.
  intros I H HF. unfold des_prim in H. apply rbind_ok in H. destruct H as ([v1 r1] & _ & H).
  apply rbind_ok in H. destruct H as (s1 & H2 & H). inv H.
  apply (proj1 (Fut_set_io s r1 G)). eapply set_value_Fut; [apply dinv_set_io; auto|exact H2|exact HF].
Qed.

Lemma declare_list_Fut t s s' G : dinv s -> declare_list t s = Ok s' -> Fut s' G -> Fut s G.
Proof.
  intros [Ic Is] H (g & Hg & Hk). unfold declare_list in H. destruct (alookup t (c_ix s)) eqn:E; [discriminate|].
  destruct (Ic t) as [I1 _]. rewrite (I1 E) in H. inv H. simpl in *. exists g. split; auto.
  eapply FutC_undo_declare; eauto.
Qed.

Lemma enter_Fut t s s' G : dinv s -> wf s -> subcontext_enter t s = Ok s' -> Fut s' G -> Fut s G.
Proof.
  intros [Ic Is] W H (gc & _ & Hk). pose proof (wf_nh _ W) as Nf.
  unfold subcontext_enter in H. apply rbind_ok in H. destruct H as ([[v lc] s1] & H1 & H).
  destruct (Ic t) as [I1 I2]. apply setdefault_spec in H1.
  destruct H1 as [(E & -> & [[F _] | (F & -> & ->)]) | (i & l & E & F & -> & [(-> & -> & ->) | (N & _)])].
  - rewrite (I1 E) in F. discriminate.
  - inv H. simpl in Hk. destruct Hk as (ty & g' & Hg' & Hk). exists g'. split; auto.
    rewrite aupd_aupd, plug_aupd, plug_nohole in Hg' by auto. cbn [plug1] in Hg'.
    eapply FutC_undo_fresh; eauto.
  - inv H. simpl in Hk. destruct Hk as (ty & g' & Hg' & Hk). exists g'. split; auto.
    rewrite alookup_aupd_same, aupd_aupd, list_set_app_last in Hg'.
    assert (Nl : Forall nohole l) by (apply nohole_VL; exact (nohole_f_lookup _ _ _ Nf F)).
    rewrite plug_aupd, plug_nohole in Hg' by auto. cbn [plug1] in Hg'.
    rewrite map_app, map_hole_id in Hg' by auto. cbn [map] in Hg'.
    eapply FutC_undo_append; eauto.
  - destruct (I2 _ E) as (l0 & F0 & Hlen). rewrite F in F0. inv F0.
    assert (length l0 < length l0)%nat by (apply nth_error_Some; congruence). lia.
Qed.

Lemma leave_Fut s s' G : dinv s -> subcontext_leave s = Ok s' -> Fut s' G -> Fut s G.
Proof.
  intros [Ic Is] H (g1 & Hg1 & Hk). unfold subcontext_leave in H. apply rbind_ok in H. destruct H as (u & _ & H).
  destruct (stk s) as [|fr rest] eqn:Es; [discriminate|]. inv H. simpl in *.
  exists (c_f s). split; [apply FutC_refl; auto|]. rewrite Es. simpl. exists (c_ty s), g1. auto.
Qed.

(* backward step: what the state after a step can still become, the state before could become *)
Lemma des_step_Fut o s r s' G : dinv s -> wf s -> des_step o s = Ok (r, s') -> Fut s' G -> Fut s G.
Proof.
  intros I W H HF. unfold des_step in H.
  destruct o; simpl in H; try (eapply des_prim_Fut; eauto; fail).
  - apply unitr_ok in H. destruct H as (v & H). eapply des_prim_Fut; eauto.
  - destruct (rem (sio s)); inv H. apply (proj1 (Fut_set_io _ _ _)) in HF. auto.
  - destruct (rem (sio s)); [|discriminate]. apply unitr_ok in H. destruct H as (v & H).
    apply (proj1 (Fut_set_io s (mkio (bits (sio s)) (pos (sio s)) None) G)).
    eapply des_prim_Fut; [|exact H|exact HF]. apply dinv_set_io; auto.
  - apply unitst_ok in H. eapply declare_list_Fut; eauto.
  - apply unitst_ok in H. eapply enter_Fut; eauto.
  - apply unitst_ok in H. eapply leave_Fut; eauto.
  - apply unitst_ok in H. rewrite set_context_type_wf in H by auto. inv H. exact HF.
  - apply unitst_ok in H. eapply set_value_Fut; eauto.
  - apply rbind_ok in H. destruct H as (b & _ & H). inv H. auto.
Qed.

Lemma des_run_Fut A (p : prog A) : prog_ok p ->
  forall s a s' G, dinv s -> wf s -> run des_step p s = Ok (a, s') -> Fut s' G -> Fut s G.
Proof.
  induction 1 as [a0 | o k Hok Hk IH]; intros s a s' G I W H HF; simpl in H.
  - inv H. auto.
  - apply rbind_ok in H. destruct H as ([r s1] & Hs & Hr).
    destruct (des_step_never_overwrites _ _ _ _ I W Hs) as [I1 _].
    assert (W1 : wf s1).
    { eapply (step_wf des_prim); [|exact W|exact Hok|exact Hs]. intros; eapply des_prim_wf; eauto. }
    eapply des_step_Fut; eauto.
Qed.

Lemma Fut_final s : dinv s -> stk s = [] -> Fut s (root s).
Proof.
  intros [Ic Is] Es. exists (c_f s). split; [apply FutC_refl; auto|].
  rewrite Es. simpl. exists (c_ty s). unfold root. rewrite Es. reflexivity.
Qed.

(* ====================================================================== *)
Lemma aupd_same {V} t (v : V) f : alookup t f = Some v -> aupd t v f = f.
Proof.
  induction f as [|[k x] f IH]; simpl; intros H; [discriminate|].
  destruct (k =? t) eqn:E.
  - inv H. reflexivity.
  - rewrite IH; auto.
Qed.

Lemma nth_error_list_set {V} n (x : V) l : (n < length l)%nat -> nth_error (list_set n x l) n = Some x.
Proof. revert n. induction l; intros n H; simpl in H; [lia|]. destruct n; simpl; auto. apply IHl. lia. Qed.

Lemma nth_error_snoc_mid {V} (l : list V) v more : nth_error ((l ++ [v]) ++ more) (length l) = Some v.
Proof. rewrite <- app_assoc. rewrite nth_error_app2 by lia. rewrite Nat.sub_diag. reflexivity. Qed.

(* frames of the two interpreters: same bookkeeping, the serialiser's enclosing dictionary is a later
   version of the deserialiser's, whatever is plugged into the (common) slot *)
Definition FrR (frs frd : frame) : Prop :=
  fr_ix frs = fr_ix frd /\ fr_tgt frs = fr_tgt frd /\
  forall x, FutC (fr_ix frd) (plug x (fr_f frd)) (plug x (fr_f frs)).

(* the serialiser's nest of dictionaries IS the final description G, except that the types of the
   dictionaries on the open path may still be the final ones ([ty]) where the program has not set them yet *)
Fixpoint K (ss sd : list frame) (ty : Z) (cf : fields) (G : val) : Prop :=
  match ss, sd with
  | [], [] => G = VC ty cf
  | frs :: rs, frd :: rd =>
      FrR frs frd /\
      exists ty', (fr_ty frs = fr_ty frd \/ fr_ty frs = ty') /\ K rs rd ty' (plug (VC ty cf) (fr_f frs)) G
  | _, _ => False
  end.

(* both frames reference their child in the same slot: what is sealed there is the same *)
Lemma hole_eq frs frd X Y g' :
  wf_frame frs -> wf_frame frd -> fr_ix frs = fr_ix frd -> fr_tgt frs = fr_tgt frd ->
  FutC (fr_ix frd) (plug X (fr_f frd)) g' ->
  (forall t, alookup t g' = alookup t (plug Y (fr_f frs))) -> X = Y.
Proof.
  intros Ws Wd Ei Et HF HL.
  destruct (plug_wf_frame frs Y Ws) as (f0s & _ & _ & Cs).
  destruct (plug_wf_frame frd X Wd) as (f0d & _ & _ & Cd).
  specialize (HF (fr_tgt frd)). specialize (HL (fr_tgt frd)). rewrite Ei, Et in Cs.
  destruct Cd as [(Ud & _ & Pd) | (n & ld & Id & Fd & Ld & _ & Pd)];
    destruct Cs as [(Us & _ & Ps) | (n' & ls & Is & Fs & Ls & _ & Ps)]; try congruence.
  - rewrite Ud, Pd, alookup_aupd_same in HF. rewrite Ps, alookup_aupd_same in HL. congruence.
  - rewrite Id in Is. inv Is. rewrite Id, Pd, alookup_aupd_same in HF.
    destruct HF as (l & more & H1 & H2). inv H1. rewrite Ps, alookup_aupd_same, H2 in HL. inv HL.
    assert (N1 : nth_error (list_set n' X ld ++ more) n' = Some X).
    { rewrite nth_error_app1 by (rewrite list_set_length; auto). apply nth_error_list_set; auto. }
    rewrite H0 in N1. rewrite nth_error_list_set in N1 by auto. congruence.
Qed.

Lemma link ss : forall sd ty cf G g,
  K ss sd ty cf G -> Forall wf_frame ss -> Forall wf_frame sd -> DesK sd g G ->
  forall t, alookup t g = alookup t cf.
Proof.
  induction ss as [|frs rs IH]; intros [|frd rd] ty cf G g HK Ws Wd HD; simpl in HK; try contradiction.
  - simpl in HD. destruct HD as (ty' & E). subst G. inv E. auto.
  - destruct HK as ((Ei & Et & HFr) & ty' & _ & HK). simpl in HD. destruct HD as (tyd & g' & HF & HD).
    pose proof (Forall_inv Ws) as Wfs. pose proof (Forall_inv_tail Ws) as Wrs.
    pose proof (Forall_inv Wd) as Wfd. pose proof (Forall_inv_tail Wd) as Wrd.
    pose proof (IH _ _ _ _ _ HK Wrs Wrd HD) as HL.
    assert (E : VC tyd g = VC ty cf) by (exact (hole_eq frs frd _ _ g' Wfs Wfd Ei Et HF HL)). inv E. auto.
Qed.

(* the serialiser state [ss] (holding the final description G) and the deserialiser state [sd] *)
Record Comp (G : val) (ss sd : st) : Prop := mkComp {
  cp_ix : c_ix ss = c_ix sd;
  cp_f : FutC (c_ix sd) (c_f sd) (c_f ss);
  cp_k : exists ty, (c_ty ss = c_ty sd \/ c_ty ss = ty) /\ K (stk ss) (stk sd) ty (c_f ss) G;
  cp_pos : pos (sio ss) = pos (sio sd);
  cp_rem : rem (sio ss) = rem (sio sd) }.

(* knowing what the deserialiser's NEXT state can become tells what the serialiser's dictionary holds *)
Lemma post_link G ss sd sd1 : Comp G ss sd -> wf ss -> wf sd -> stk sd1 = stk sd -> Fut sd1 G ->
  FutC (c_ix sd1) (c_f sd1) (c_f ss).
Proof.
  intros C Ws Wd Es (g1 & Hg & Hk). destruct (cp_k _ _ _ C) as (ty & _ & HK). rewrite Es in Hk.
  eapply FutC_lookup_eq; [|exact Hg]. intros t. symmetry.
  eapply link; eauto. apply (wf_stk _ Ws). apply (wf_stk _ Wd).
Qed.

Lemma io_wr (w r : io) : pos w = pos r -> rem w = rem r -> w = wr_of r (bits w).
Proof. destruct w, r; simpl; intros -> ->. reflexivity. Qed.

(* ---- value primitives ---- *)
Lemma comp_prim G D k t ss sd v sd1 :
  Comp G ss sd -> wf ss -> wf sd -> dinv sd -> kind_ok k ->
  des_prim k t sd = Ok (v, sd1) -> Fut sd1 G ->
  exists ss1 X, ser_prim D k t ss = Ok (v, ss1) /\ Comp G ss1 sd1 /\
                bits (sio sd) = X ++ bits (sio sd1) /\ bits (sio ss1) = bits (sio ss) ++ X.
Proof.
  intros C Ws Wd I Hk H HF. unfold des_prim in H. apply rbind_ok in H. destruct H as ([v1 r'] & Hr & H).
  apply rbind_ok in H. destruct H as (s1 & Hs & H). inv H.
  destruct (read_val_write_val _ _ _ _ Hk Hr) as (X & EX & HW).
  pose proof (io_wr _ _ (cp_pos _ _ _ C) (cp_rem _ _ _ C)) as Hio.
  assert (Ic : dinv_c (c_f (set_io sd r')) (c_ix (set_io sd r'))) by (apply (dinv_cur _ I)).
  destruct (set_value_fresh _ _ _ _ Ic Hs) as [(E & F & ->) | (l & E & F & ->)]; simpl in E, F.
  - assert (PL : FutC (aupd t Used (c_ix sd)) (aupd t v (c_f sd)) (c_f ss)).
    { apply (post_link G ss sd (set_fix (set_io sd r') (aupd t v (c_f sd)) (aupd t Used (c_ix sd)))); auto. }
    pose proof (PL t) as Pt. rewrite !alookup_aupd_same in Pt.
    eexists _, X. split.
    + unfold ser_prim, ser_get. rewrite (cp_ix _ _ _ C), E, Pt. cbn [rbind]. simpl sio.
      rewrite Hio, HW. reflexivity.
    + split; [|split; [exact EX|reflexivity]].
      destruct C as [Cix Cf Ck Cp Cr]. constructor; simpl; auto; try (rewrite Cix; reflexivity).
  - assert (PL : FutC (aupd t (Nxt (S (length l))) (c_ix sd)) (aupd t (VL (l ++ [v])) (c_f sd)) (c_f ss)).
    { apply (post_link G ss sd (set_fix (set_io sd r') (aupd t (VL (l ++ [v])) (c_f sd)) (aupd t (Nxt (S (length l))) (c_ix sd)))); auto. }
    pose proof (PL t) as Pt. rewrite !alookup_aupd_same in Pt. destruct Pt as (l0 & more & P1 & P2). inv P1.
    eexists _, X. split.
    + unfold ser_prim, ser_get. rewrite (cp_ix _ _ _ C), E, P2, nth_error_snoc_mid. cbn [rbind]. simpl sio.
      rewrite Hio, HW. reflexivity.
    + split; [|split; [exact EX|reflexivity]].
      destruct C as [Cix Cf Ck Cp Cr]. constructor; simpl; auto; try (rewrite Cix; reflexivity).
Qed.

(* ====================================================================== *)
Lemma comp_set_value G t v ss sd sd1 :
  Comp G ss sd -> wf ss -> wf sd -> dinv sd ->
  set_value t v sd = Ok sd1 -> Fut sd1 G ->
  exists ss1, set_value t v ss = Ok ss1 /\ Comp G ss1 sd1 /\ sio ss1 = sio ss /\ sio sd1 = sio sd.
Proof.
  intros C Ws Wd I Hs HF.
  destruct (set_value_fresh _ _ _ _ (dinv_cur _ I) Hs) as [(E & F & ->) | (l & E & F & ->)].
  - assert (PL : FutC (aupd t Used (c_ix sd)) (aupd t v (c_f sd)) (c_f ss)).
    { apply (post_link G ss sd (set_fix sd (aupd t v (c_f sd)) (aupd t Used (c_ix sd)))); auto. }
    pose proof (PL t) as Pt. rewrite !alookup_aupd_same in Pt.
    eexists. split.
    + unfold set_value. rewrite (cp_ix _ _ _ C), E. reflexivity.
    + split; [|split; reflexivity]. rewrite (aupd_same _ _ _ Pt).
      destruct C as [Cix Cf Ck Cp Cr]. constructor; simpl; auto; try (rewrite Cix; reflexivity).
  - assert (PL : FutC (aupd t (Nxt (S (length l))) (c_ix sd)) (aupd t (VL (l ++ [v])) (c_f sd)) (c_f ss)).
    { apply (post_link G ss sd (set_fix sd (aupd t (VL (l ++ [v])) (c_f sd)) (aupd t (Nxt (S (length l))) (c_ix sd)))); auto. }
    pose proof (PL t) as Pt. rewrite !alookup_aupd_same in Pt. destruct Pt as (l0 & more & P1 & P2). inv P1.
    assert (N : nth_error ((l ++ [v]) ++ more) (length l) = Some v) by apply nth_error_snoc_mid.
    assert (Hlt : (length l < length ((l ++ [v]) ++ more))%nat) by (apply nth_error_Some; congruence).
    eexists. split.
    + unfold set_value. rewrite (cp_ix _ _ _ C), E, P2.
      replace (Nat.eqb (length ((l ++ [v]) ++ more)) (length l)) with false by (symmetry; apply Nat.eqb_neq; lia).
      replace (Nat.ltb (length l) (length ((l ++ [v]) ++ more))) with true by (symmetry; apply Nat.ltb_lt; lia).
      reflexivity.
    + split; [|split; reflexivity]. rewrite (list_set_nth _ _ _ N), (aupd_same _ _ _ P2).
      destruct C as [Cix Cf Ck Cp Cr]. constructor; simpl; auto; try (rewrite Cix; reflexivity).
Qed.

Lemma comp_declare G t ss sd sd1 :
  Comp G ss sd -> wf ss -> wf sd -> dinv sd ->
  declare_list t sd = Ok sd1 -> Fut sd1 G ->
  exists ss1, declare_list t ss = Ok ss1 /\ Comp G ss1 sd1 /\ sio ss1 = sio ss /\ sio sd1 = sio sd.
Proof.
  intros C Ws Wd I Hs HF. unfold declare_list in Hs. destruct (alookup t (c_ix sd)) eqn:E; [discriminate|].
  destruct (dinv_cur _ I t) as [I1 _]. rewrite (I1 E) in Hs. inv Hs.
  assert (PL : FutC (aupd t (Nxt 0) (c_ix sd)) (aupd t (VL []) (c_f sd)) (c_f ss)).
  { apply (post_link G ss sd (set_fix sd (aupd t (VL []) (c_f sd)) (aupd t (Nxt 0) (c_ix sd)))); auto. }
  pose proof (PL t) as Pt. rewrite !alookup_aupd_same in Pt. destruct Pt as (l0 & more & P1 & P2). inv P1.
  eexists. split.
  - unfold declare_list. rewrite (cp_ix _ _ _ C), E, P2. reflexivity.
  - split; [|split; reflexivity].
    destruct C as [Cix Cf Ck Cp Cr]. constructor; simpl; auto; try (rewrite Cix; reflexivity).
Qed.

Lemma FutC_reslot_key t a x ixs f g :
  FutC (aupd t Used ixs) (aupd t a f) g -> FutC (aupd t Used ixs) (aupd t x f) (aupd t x g).
Proof.
  intros H t'. specialize (H t'). rewrite !alookup_dec in *. destruct (t' =? t); auto.
Qed.

Lemma list_set_mid {V} (l : list V) a x more : list_set (length l) x ((l ++ [a]) ++ more) = (l ++ [x]) ++ more.
Proof. induction l; simpl; auto. rewrite IHl. reflexivity. Qed.

Lemma FutC_reslot_list t n a x l ixs f g more :
  alookup t g = Some (VL ((l ++ [a]) ++ more)) ->
  FutC (aupd t (Nxt n) ixs) (aupd t (VL (l ++ [a])) f) g ->
  FutC (aupd t (Nxt n) ixs) (aupd t (VL (l ++ [x])) f) (aupd t (VL ((l ++ [x]) ++ more)) g).
Proof.
  intros Hg H t'. specialize (H t'). rewrite !alookup_dec in *. destruct (t' =? t); auto.
  eexists _, more. split; reflexivity.
Qed.

Lemma FutC_nil g : FutC [] [] g.
Proof. intros t. reflexivity. Qed.

Lemma comp_enter G t ss sd sd1 :
  Comp G ss sd -> wf ss -> wf sd -> dinv sd ->
  subcontext_enter t sd = Ok sd1 -> Fut sd1 G ->
  exists ss1, subcontext_enter t ss = Ok ss1 /\ Comp G ss1 sd1 /\ sio ss1 = sio ss /\ sio sd1 = sio sd.
Proof.
  intros C Ws Wd I Hs HF. pose proof (wf_nh _ Ws) as Nfs. pose proof (wf_nh _ Wd) as Nfd.
  destruct (cp_k _ _ _ C) as (tyP & TyP & HK).
  unfold subcontext_enter in Hs. apply rbind_ok in Hs. destruct Hs as ([[v lc] s1] & H1 & Hs).
  destruct (dinv_cur _ I t) as [I1 I2]. apply setdefault_spec in H1.
  destruct H1 as [(E & -> & [[F _] | (F & -> & ->)]) | (i & l & E & F & -> & [(-> & -> & ->) | (N & _)])].
  - rewrite (I1 E) in F. discriminate.
  - (* plain target *)
    inv Hs. destruct HF as (gc & _ & HD). simpl in HD. destruct HD as (ty & g' & Hg' & HD).
    rewrite aupd_aupd, plug_aupd, plug_nohole in Hg' by auto. cbn [plug1] in Hg'.
    assert (PL : FutC (aupd t Used (c_ix sd)) (aupd t (VC ty gc) (c_f sd)) (c_f ss)).
    { eapply FutC_lookup_eq; [|exact Hg']. intros t'. symmetry.
      eapply link; eauto. apply (wf_stk _ Ws). apply (wf_stk _ Wd). }
    pose proof (PL t) as Pt. rewrite !alookup_aupd_same in Pt.
    eexists. split.
    + unfold subcontext_enter, setdefault. rewrite (cp_ix _ _ _ C), E, Pt. cbn [rbind]. reflexivity.
    + split; [|split; reflexivity]. simpl. constructor; simpl.
      * reflexivity.
      * apply FutC_nil.
      * exists ty. split; [right; reflexivity|]. split.
        -- split; [simpl; try rewrite (cp_ix _ _ _ C); reflexivity|]. split; [reflexivity|]. simpl. intros x.
           rewrite aupd_aupd, !plug_aupd, !plug_nohole by auto. cbn [plug1].
           rewrite <- (aupd_same t (VC ty gc) (c_f ss) Pt) at 1. rewrite aupd_aupd.
           eapply FutC_reslot_key; eauto.
        -- exists tyP. split; [exact TyP|]. simpl.
           rewrite plug_aupd, plug_nohole by auto. cbn [plug1]. rewrite (aupd_same _ _ _ Pt). exact HK.
      * apply (cp_pos _ _ _ C).
      * apply (cp_rem _ _ _ C).
  - (* list target *)
    inv Hs. destruct HF as (gc & _ & HD). simpl in HD. destruct HD as (ty & g' & Hg' & HD).
    assert (Nl : Forall nohole l) by (apply nohole_VL; exact (nohole_f_lookup _ _ _ Nfd F)).
    rewrite alookup_aupd_same, aupd_aupd, list_set_app_last, plug_aupd, plug_nohole in Hg' by auto.
    cbn [plug1] in Hg'. rewrite map_app, map_hole_id in Hg' by auto. cbn [map] in Hg'.
    assert (PL : FutC (aupd t (Nxt (S (length l))) (c_ix sd)) (aupd t (VL (l ++ [VC ty gc])) (c_f sd)) (c_f ss)).
    { eapply FutC_lookup_eq; [|exact Hg']. intros t'. symmetry.
      eapply link; eauto. apply (wf_stk _ Ws). apply (wf_stk _ Wd). }
    pose proof (PL t) as Pt. rewrite !alookup_aupd_same in Pt. destruct Pt as (l0 & more & P1 & P2). inv P1.
    assert (N : nth_error ((l ++ [VC ty gc]) ++ more) (length l) = Some (VC ty gc)) by apply nth_error_snoc_mid.
    assert (Nls : Forall nohole ((l ++ [VC ty gc]) ++ more)) by (apply nohole_VL; exact (nohole_f_lookup _ _ _ Nfs P2)).
    eexists. split.
    + unfold subcontext_enter, setdefault. rewrite (cp_ix _ _ _ C), E, P2.
      replace (Nat.eqb (length l) (length ((l ++ [VC ty gc]) ++ more))) with false
        by (symmetry; apply Nat.eqb_neq; rewrite !app_length; simpl; lia).
      rewrite N. cbn [rbind]. reflexivity.
    + split; [|split; reflexivity]. simpl. rewrite P2. constructor; simpl.
      * reflexivity.
      * apply FutC_nil.
      * exists ty. split; [right; reflexivity|]. split.
        -- split; [simpl; try rewrite (cp_ix _ _ _ C); reflexivity|]. split; [reflexivity|]. simpl. intros x.
           rewrite alookup_aupd_same, aupd_aupd, list_set_app_last, !plug_aupd, !plug_nohole by auto.
           cbn [plug1]. rewrite map_app, map_hole_id by auto. cbn [map].
           rewrite map_hole_list_set by auto. rewrite list_set_mid.
           eapply FutC_reslot_list; eauto.
        -- exists tyP. split; [exact TyP|]. simpl.
           rewrite plug_aupd, plug_nohole by auto. cbn [plug1]. rewrite map_hole_list_set by auto.
           rewrite (list_set_nth _ _ _ N), (aupd_same _ _ _ P2). exact HK.
      * apply (cp_pos _ _ _ C).
      * apply (cp_rem _ _ _ C).
  - destruct (I2 _ E) as (l0 & F0 & Hlen). rewrite F in F0. inv F0.
    assert (length l0 < length l0)%nat by (apply nth_error_Some; congruence). lia.
Qed.

(* ====================================================================== *)
Lemma comp_leave G ss sd sd1 :
  Comp G ss sd -> wf ss -> wf sd -> dinv sd ->
  subcontext_leave sd = Ok sd1 -> Fut sd1 G ->
  exists ss1, subcontext_leave ss = Ok ss1 /\ Comp G ss1 sd1 /\ sio ss1 = sio ss /\ sio sd1 = sio sd.
Proof.
  intros C Ws Wd I Hs HF. destruct (cp_k _ _ _ C) as (ty & Ty & HK).
  unfold subcontext_leave in Hs. apply rbind_ok in Hs. destruct Hs as (u & Hv & Hs). destruct u.
  destruct (stk sd) as [|frd rd] eqn:Esd; [discriminate|]. inv Hs.
  destruct (stk ss) as [|frs rs] eqn:Ess; simpl in HK; [contradiction|].
  destruct HK as ((Ei & Et & HFr) & ty' & Ty' & HK).
  pose proof (wf_stk _ Ws) as Wss. rewrite Ess in Wss. pose proof (wf_stk _ Wd) as Wsd. rewrite Esd in Wsd.
  destruct HF as (g1 & Hg1 & HD). simpl in Hg1, HD.
  pose proof (link _ _ _ _ _ _ HK (Forall_inv_tail Wss) (Forall_inv_tail Wsd) HD) as HL.
  assert (E : VC (c_ty sd) (c_f sd) = VC ty (c_f ss))
    by (exact (hole_eq frs frd _ _ g1 (Forall_inv Wss) (Forall_inv Wsd) Ei Et Hg1 HL)).
  injection E as Ety Ef. subst ty.
  assert (Tys : c_ty ss = c_ty sd) by (destruct Ty; auto).
  eexists. split.
  - unfold subcontext_leave, verify_ctx.
    rewrite (cp_ix _ _ _ C).
    rewrite <- Ef.
    unfold verify_ctx in Hv.
    rewrite Hv.
    cbn [rbind]. rewrite Ess. reflexivity.
  - split; [|split; reflexivity]. constructor; simpl.
    + exact Ei.
    + rewrite Tys. try rewrite <- Ef. apply HFr.
    + exists ty'. split; [exact Ty'|]. rewrite Tys. try rewrite Ef. exact HK.
    + apply (cp_pos _ _ _ C).
    + apply (cp_rem _ _ _ C).
Qed.

Lemma comp_set_type G tyN ss sd sd1 :
  Comp G ss sd -> wf ss -> wf sd ->
  set_context_type tyN sd = Ok sd1 ->
  exists ss1, set_context_type tyN ss = Ok ss1 /\ Comp G ss1 sd1 /\ sio ss1 = sio ss /\ sio sd1 = sio sd.
Proof.
  intros C Ws Wd Hs. rewrite set_context_type_wf in Hs by auto. inv Hs.
  rewrite set_context_type_wf by auto. eexists. split; [reflexivity|]. split; [|split; reflexivity].
  destruct C as [Cix Cf (ty & Ty & HK) Cp Cr]. constructor; simpl; auto. exists ty. auto.
Qed.

Lemma Comp_set_io G ss sd w r : Comp G ss sd -> pos w = pos r -> rem w = rem r ->
  Comp G (set_io ss w) (set_io sd r).
Proof. intros [Cix Cf Ck Cp Cr] H1 H2. constructor; auto. Qed.

(* operations whose length argument is not negative *)
Definition op_len_ok (o : op) : Prop :=
  match o with
  | ONBits _ n | OUintLit _ n | OBitArr _ n | OBytes _ n => 0 <= n
  | _ => True
  end.

Lemma comp_step G D o ss sd r sd1 :
  op_sym o -> op_len_ok o ->
  Comp G ss sd -> wf ss -> wf sd -> dinv sd ->
  des_step o sd = Ok (r, sd1) -> Fut sd1 G ->
  exists ss1 X, ser_step D o ss = Ok (r, ss1) /\ Comp G ss1 sd1 /\
                bits (sio sd) = X ++ bits (sio sd1) /\ bits (sio ss1) = bits (sio ss) ++ X.
Proof.
  intros Hsym Hlen C Ws Wd I H HF. unfold des_step, ser_step in *.
  destruct o; cbn [step] in *; simpl in Hlen; try contradiction;
    try (eapply comp_prim; eauto; simpl; auto; fail).
  - (* byte_align *)
    apply unitr_ok in H. destruct H as (v & H). rewrite <- (cp_pos _ _ _ C) in H.
    assert (Hk : kind_ok (KBitArr (- pos (sio ss) mod 8))) by (simpl; apply Z.mod_pos_bound; lia).
    destruct (comp_prim G D _ _ _ _ _ _ C Ws Wd I Hk H HF) as (ss1 & X & H1 & C1 & B1 & B2).
    destruct r. exists ss1, X. rewrite H1. simpl. auto.
  - (* bounded_block_begin *)
    rewrite (cp_rem _ _ _ C). destruct (rem (sio sd)) eqn:Er; inv H.
    eexists _, []. split; [reflexivity|]. simpl. rewrite app_nil_r. split; auto.
    apply Comp_set_io; auto. simpl. apply (cp_pos _ _ _ C).
  - (* bounded_block_end *)
    rewrite (cp_rem _ _ _ C). destruct (rem (sio sd)) eqn:Er; [|discriminate].
    apply unitr_ok in H. destruct H as (v & H).
    assert (C0 : Comp G (set_io ss (mkio (bits (sio ss)) (pos (sio ss)) None))
                        (set_io sd (mkio (bits (sio sd)) (pos (sio sd)) None))).
    { apply Comp_set_io; auto. simpl. apply (cp_pos _ _ _ C). }
    assert (Hk : kind_ok (KBitArr (Z.max 0 z))) by (simpl; lia).
    destruct (comp_prim G D _ _ _ _ _ _ C0 (wf_set_io _ _ Ws) (wf_set_io _ _ Wd) (dinv_set_io _ _ I)
                Hk H HF) as (ss1 & X & H1 & C1 & B1 & B2).
    destruct r. exists ss1, X. rewrite H1. simpl. auto.
  - apply unitst_ok in H. destruct (comp_declare _ _ _ _ _ C Ws Wd I H HF) as (ss1 & H1 & C1 & Io1 & Io2).
    destruct r. exists ss1, []. rewrite H1, Io1, Io2, app_nil_r. simpl. auto.
  - apply unitst_ok in H. destruct (comp_enter _ _ _ _ _ C Ws Wd I H HF) as (ss1 & H1 & C1 & Io1 & Io2).
    destruct r. exists ss1, []. rewrite H1, Io1, Io2, app_nil_r. simpl. auto.
  - apply unitst_ok in H. destruct (comp_leave _ _ _ _ C Ws Wd I H HF) as (ss1 & H1 & C1 & Io1 & Io2).
    destruct r. exists ss1, []. rewrite H1, Io1, Io2, app_nil_r. simpl. auto.
  - apply unitst_ok in H. destruct (comp_set_type _ _ _ _ _ C Ws Wd H) as (ss1 & H1 & C1 & Io1 & Io2).
    destruct r. exists ss1, []. rewrite H1, Io1, Io2, app_nil_r. simpl. auto.
  - apply unitst_ok in H. destruct (comp_set_value _ _ _ _ _ _ C Ws Wd I H HF) as (ss1 & H1 & C1 & Io1 & Io2).
    destruct r. exists ss1, []. rewrite H1, Io1, Io2, app_nil_r. simpl. auto.
Qed.

(* the programs covered: no is_target_complete (it asks the serialiser's question), no negative
   length arguments, computed values free of the model-only reference marker *)
Inductive conv_ok {A} : prog A -> Prop :=
| conv_ret a : conv_ok (Ret a)
| conv_op o k : op_sym o -> op_len_ok o -> op_ok o -> (forall r, conv_ok (k r)) -> conv_ok (Op o k).

Lemma conv_prog_ok A (p : prog A) : conv_ok p -> prog_ok p.
Proof. induction 1; constructor; auto. Qed.

Lemma comp_run G D A (p : prog A) : conv_ok p ->
  forall ss sd a sdF, Comp G ss sd -> wf ss -> wf sd -> dinv sd ->
  run des_step p sd = Ok (a, sdF) -> Fut sdF G ->
  exists ssF X, run (ser_step D) p ss = Ok (a, ssF) /\ Comp G ssF sdF /\
                bits (sio sd) = X ++ bits (sio sdF) /\ bits (sio ssF) = bits (sio ss) ++ X.
Proof.
  induction 1 as [a0 | o k Hs Hl Hok Hk IH]; intros ss sd a sdF C Ws Wd I H HF; simpl in H.
  - inv H. exists ss, []. simpl. rewrite app_nil_r. auto.
  - apply rbind_ok in H. destruct H as ([r sd1] & Hstep & Hrun).
    destruct (des_step_never_overwrites _ _ _ _ I Wd Hstep) as [I1 _].
    assert (Wd1 : wf sd1).
    { eapply (step_wf des_prim); [|exact Wd|exact Hok|exact Hstep]. intros; eapply des_prim_wf; eauto. }
    assert (HF1 : Fut sd1 G).
    { eapply des_run_Fut; [apply conv_prog_ok; apply Hk|exact I1|exact Wd1|exact Hrun|exact HF]. }
    destruct (comp_step G D o ss sd r sd1 Hs Hl C Ws Wd I Hstep HF1) as (ss1 & X1 & H1 & C1 & B1 & B2).
    assert (Ws1 : wf ss1).
    { eapply (step_wf (ser_prim D)); [|exact Ws|exact Hok|exact H1]. intros; eapply ser_prim_wf; eauto. }
    destruct (IH r ss1 sd1 a sdF C1 Ws1 Wd1 I1 Hrun HF) as (ssF & X2 & H2 & C2 & B3 & B4).
    exists ssF, (X1 ++ X2). cbn [run]. rewrite H1. cbn [rbind]. split; [exact H2|].
    split; auto. split.
    + rewrite B1, B3, app_assoc. reflexivity.
    + rewrite B4, B2, app_assoc. reflexivity.
Qed.

(* C06: deserialise, then serialise the resulting description with the same program *)
Theorem des_ser D A (p : prog A) bs a sdF :
  conv_ok p ->
  run_des p bs = Ok (a, sdF) -> verify_complete sdF = Ok tt ->
  exists ssF X,
    bs = X ++ bits (sio sdF) /\
    run_ser D p (c_ty sdF) (c_f sdF) = Ok (a, ssF) /\
    bits (sio ssF) = X /\
    verify_complete ssF = Ok tt /\
    root ssF = root sdF.
Proof.
  intros Hp Hr Hv. unfold run_des in Hr.
  assert (Es : stk sdF = []).
  { unfold verify_complete in Hv. apply rbind_ok in Hv. destruct Hv as (u & _ & Hv).
    destruct (stk sdF); [reflexivity|discriminate]. }
  assert (IF : dinv sdF /\ wf sdF).
  { split.
    - eapply des_never_overwrites; [apply conv_prog_ok; exact Hp|apply init_dinv|apply (init_wf 0 [] bs I)|exact Hr].
    - eapply (run_wf des_prim); [|apply conv_prog_ok; exact Hp|apply (init_wf 0 [] bs I)|exact Hr].
      intros; eapply des_prim_wf; eauto. }
  destruct IF as [IF WF].
  set (G := root sdF).
  assert (C0 : Comp G (init_st (c_ty sdF) (c_f sdF) []) (init_st 0 [] bs)).
  { constructor; simpl; auto. apply FutC_nil. exists (c_ty sdF). split; auto.
    subst G. unfold root. rewrite Es. reflexivity. }
  assert (W0 : wf (init_st (c_ty sdF) (c_f sdF) [])).
  { apply init_wf. apply nohole_VC. apply (wf_nh _ WF). }
  destruct (comp_run G D A p Hp _ _ _ _ C0 W0 (init_wf 0 [] bs I) (init_dinv bs) Hr (Fut_final _ IF Es))
    as (ssF & X & H1 & C & B1 & B2).
  exists ssF, X. simpl in B1, B2. split; [exact B1|]. split; [exact H1|]. split; [exact B2|].
  destruct (cp_k _ _ _ C) as (ty & Ty & HK). rewrite Es in HK.
  destruct (stk ssF) eqn:Ess; simpl in HK; [|contradiction].
  subst G. unfold root in HK. rewrite Es in HK. simpl in HK. injection HK as Ety Ef. subst ty.
  assert (Tys : c_ty ssF = c_ty sdF) by (destruct Ty; auto).
  split.
  - unfold verify_complete, verify_ctx in *. rewrite Ess, (cp_ix _ _ _ C), <- Ef, (cp_rem _ _ _ C). rewrite Es in Hv. exact Hv.
  - unfold root. rewrite Ess, Es. simpl. rewrite Tys, <- Ef. reflexivity.
Qed.

(* ====================================================================== *)
Definition reio (r : io) (bs : list bool) : io := mkio bs (pos r) (rem r).
Definition rebits (s : st) (bs : list bool) : st := set_io s (reio (sio s) bs).

Lemma read_val_suffix k r v r' : kind_ok k -> read_val k r = Ok (v, r') ->
  exists X, bits r = X ++ bits r' /\ forall R, read_val k (reio r (X ++ R)) = Ok (v, reio r' R).
Proof.
  intros Hk H. destruct (read_val_write_val _ _ _ _ Hk H) as (X & EX & W).
  exists X. split; auto. specialize (W []). simpl in W.
  destruct (write_val_read_val _ _ _ _ W) as (X' & v' & E' & Hd & HR).
  simpl in E'. subst X'.
  assert (v' = v).
  { specialize (HR (bits r')). unfold rd_of, wr_of in HR. simpl in HR. rewrite <- EX in HR.
    rewrite <- (io_eta r) in HR. rewrite H in HR. inv HR. reflexivity. }
  subst v'. intros R. specialize (HR R). unfold rd_of, wr_of in HR. simpl in HR. exact HR.
Qed.

(* operations that do not touch the bit stream commute with replacing it *)
Lemma set_value_io t v s w : set_value t v (set_io s w) = rbind (set_value t v s) (fun s' => Ok (set_io s' w)).
Proof.
  unfold set_value. simpl. destruct (alookup t (c_ix s)) as [[|i]|]; auto.
  destruct (alookup t (c_f s)) as [[| | | |l| |]|]; auto.
  destruct (Nat.eqb (length l) i); auto. destruct (Nat.ltb i (length l)); auto.
Qed.
Lemma declare_list_io t s w : declare_list t (set_io s w) = rbind (declare_list t s) (fun s' => Ok (set_io s' w)).
Proof.
  unfold declare_list. simpl. destruct (alookup t (c_ix s)); auto.
  destruct (alookup t (c_f s)) as [[| | | |l| |]|]; auto.
Qed.
Lemma enter_io t s w : subcontext_enter t (set_io s w) = rbind (subcontext_enter t s) (fun s' => Ok (set_io s' w)).
Proof.
  unfold subcontext_enter, setdefault. simpl. destruct (alookup t (c_ix s)) as [[|i]|]; auto.
  - destruct (alookup t (c_f s)) as [[| | | |l| |]|]; auto.
    destruct (Nat.eqb i (length l)); simpl; auto.
    destruct (nth_error l i) as [[| | | | | |]|]; auto.
  - destruct (alookup t (c_f s)) as [[| | | | | |]|]; auto.
Qed.
Lemma leave_io s w : subcontext_leave (set_io s w) = rbind (subcontext_leave s) (fun s' => Ok (set_io s' w)).
Proof.
  unfold subcontext_leave, verify_ctx. simpl. destruct (verify_fields (c_ix s) (c_f s)); auto. simpl.
  destruct (stk s); auto.
Qed.
Lemma set_type_io ty s w : set_context_type ty (set_io s w) = rbind (set_context_type ty s) (fun s' => Ok (set_io s' w)).
Proof.
  unfold set_context_type. simpl. destruct (c_ty s =? ty); auto. destruct (stk s); auto.
  destruct (patch_parent f _); auto.
Qed.
Lemma is_complete_io t s w : is_target_complete t (set_io s w) = is_target_complete t s.
Proof. reflexivity. Qed.

Lemma des_prim_suffix k t s v s1 : kind_ok k -> des_prim k t s = Ok (v, s1) ->
  exists X, bits (sio s) = X ++ bits (sio s1) /\
    forall R, des_prim k t (rebits s (X ++ R)) = Ok (v, rebits s1 R).
Proof.
  intros Hk H. unfold des_prim in H. apply rbind_ok in H. destruct H as ([v1 r'] & Hr & H).
  apply rbind_ok in H. destruct H as (s' & Hs & H). inv H.
  destruct (read_val_suffix _ _ _ _ Hk Hr) as (X & EX & HR).
  assert (Io : sio s1 = r').
  { apply set_value_spec in Hs. destruct Hs as [[_ ->] | (i & l & l2 & _ & _ & _ & ->)]; reflexivity. }
  exists X. rewrite Io. split; auto. intros R. unfold des_prim, rebits. simpl. rewrite HR. cbn [rbind].
  replace (set_io (set_io s (reio (sio s) (X ++ R))) (reio r' R)) with (set_io s (reio r' R)) by reflexivity.
  rewrite set_value_io. rewrite set_value_io in Hs.
  destruct (set_value t v s) as [s2|]; simpl in *; [|discriminate]. inv Hs. reflexivity.
Qed.

Lemma rebits_same s : rebits s (bits (sio s)) = s.
Proof. unfold rebits, reio. destruct s as [a b c d [x y z]]; reflexivity. Qed.

Lemma des_step_suffix o s r s1 : op_len_ok o -> des_step o s = Ok (r, s1) ->
  exists X, bits (sio s) = X ++ bits (sio s1) /\
    forall R, des_step o (rebits s (X ++ R)) = Ok (r, rebits s1 R).
Proof.
  intros Hl H. unfold des_step in *.
  destruct o; cbn [step] in *; simpl in Hl;
    try (eapply des_prim_suffix; eauto; simpl; auto; fail).
  - apply unitr_ok in H. destruct H as (v & H).
    assert (Hk : kind_ok (KBitArr (- pos (sio s) mod 8))) by (simpl; apply Z.mod_pos_bound; lia).
    destruct (des_prim_suffix _ _ _ _ _ Hk H) as (X & EX & HR). exists X. split; auto.
    intros R. simpl. rewrite HR. destruct r. reflexivity.
  - destruct (rem (sio s)) eqn:Er; inv H. exists []. simpl. split; auto. intros R. rewrite Er. reflexivity.
  - destruct (rem (sio s)) eqn:Er; [|discriminate]. apply unitr_ok in H. destruct H as (v & H).
    assert (Hk : kind_ok (KBitArr (Z.max 0 z))) by (simpl; lia).
    destruct (des_prim_suffix _ _ _ _ _ Hk H) as (X & EX & HR). exists X. simpl in EX. split; auto.
    intros R. simpl. rewrite Er. specialize (HR R).
    match goal with |- unitr ?a = _ =>
      replace a with (des_prim (KBitArr (Z.max 0 z)) t
                        (rebits (set_io s (mkio (bits (sio s)) (pos (sio s)) None)) (X ++ R))) by reflexivity end.
    rewrite HR. destruct r. reflexivity.
  - apply unitst_ok in H. exists []. simpl.
    assert (Io : sio s1 = sio s).
    { unfold declare_list in H. destruct (alookup t (c_ix s)); [discriminate|].
      destruct (alookup t (c_f s)) as [[| | | |l| |]|]; inv H; reflexivity. }
    rewrite Io. split; auto. intros R. unfold rebits. rewrite declare_list_io, H, Io. destruct r. reflexivity.
  - apply unitst_ok in H. exists []. simpl.
    assert (Io : sio s1 = sio s).
    { unfold subcontext_enter in H. apply rbind_ok in H. destruct H as ([[v lc] s'] & H1 & H).
      destruct v; try discriminate. inv H. simpl. apply setdefault_spec in H1.
      destruct H1 as [(_ & _ & [[_ ->] | (_ & _ & ->)]) | (i & l & _ & _ & _ & [(_ & _ & ->) | (_ & ->)])]; reflexivity. }
    rewrite Io. split; auto. intros R. unfold rebits. rewrite enter_io, H, Io. destruct r. reflexivity.
  - apply unitst_ok in H. exists []. simpl.
    assert (Io : sio s1 = sio s).
    { unfold subcontext_leave in H. apply rbind_ok in H. destruct H as (u & _ & H).
      destruct (stk s); inv H. reflexivity. }
    rewrite Io. split; auto. intros R. unfold rebits. rewrite leave_io, H, Io. destruct r. reflexivity.
  - apply unitst_ok in H. exists []. simpl.
    assert (Io : sio s1 = sio s).
    { unfold set_context_type in H. destruct (c_ty s =? ty); [inv H; reflexivity|].
      destruct (stk s); [inv H; reflexivity|]. apply rbind_ok in H. destruct H as (f' & _ & H). inv H. reflexivity. }
    rewrite Io. split; auto. intros R. unfold rebits. rewrite set_type_io, H, Io. destruct r. reflexivity.
  - apply unitst_ok in H. exists []. simpl.
    assert (Io : sio s1 = sio s).
    { apply set_value_spec in H. destruct H as [[_ ->] | (i & l & l2 & _ & _ & _ & ->)]; reflexivity. }
    rewrite Io. split; auto. intros R. unfold rebits. rewrite set_value_io, H, Io. destruct r. reflexivity.
  - apply rbind_ok in H. destruct H as (b & Hb & H). inv H. exists []. simpl. split; auto.
    intros R. unfold rebits. rewrite is_complete_io, Hb. reflexivity.
Qed.

Inductive lens_ok {A} : prog A -> Prop :=
| lens_ret a : lens_ok (Ret a)
| lens_op o k : op_len_ok o -> (forall r, lens_ok (k r)) -> lens_ok (Op o k).

Lemma conv_lens_ok A (p : prog A) : conv_ok p -> lens_ok p.
Proof. induction 1; constructor; auto. Qed.

Lemma rebits_rebits s a b : rebits (rebits s a) b = rebits s b.
Proof. reflexivity. Qed.

Theorem des_run_suffix A (p : prog A) : lens_ok p ->
  forall s a s', run des_step p s = Ok (a, s') ->
  exists X, bits (sio s) = X ++ bits (sio s') /\
    forall R, run des_step p (rebits s (X ++ R)) = Ok (a, rebits s' R).
Proof.
  induction 1 as [a0 | o k Hl Hk IH]; intros s a s' H; simpl in H.
  - inv H. exists []. simpl. split; auto.
  - apply rbind_ok in H. destruct H as ([r s1] & Hs & Hr).
    destruct (des_step_suffix _ _ _ _ Hl Hs) as (X1 & E1 & R1).
    destruct (IH _ _ _ _ Hr) as (X2 & E2 & R2).
    exists (X1 ++ X2). split. { rewrite E1, E2, app_assoc. reflexivity. }
    intros R. cbn [run]. rewrite <- app_assoc, R1. cbn [rbind]. apply R2.
Qed.

(* C06, second half: re-deserialising what the serialiser wrote, followed by ANY bits (e.g. the zero
   bits flush() adds), yields the same result and the same description *)
Theorem redes D A (p : prog A) bs a sdF :
  conv_ok p ->
  run_des p bs = Ok (a, sdF) -> verify_complete sdF = Ok tt ->
  exists ssF, run_ser D p (c_ty sdF) (c_f sdF) = Ok (a, ssF) /\
    forall R, exists sd2, run_des p (bits (sio ssF) ++ R) = Ok (a, sd2) /\
                          root sd2 = root sdF /\ bits (sio sd2) = R /\ verify_complete sd2 = Ok tt.
Proof.
  intros Hp Hr Hv. destruct (des_ser D A p bs a sdF Hp Hr Hv) as (ssF & X & EX & Hs & EB & _ & _).
  exists ssF. split; auto. intros R. rewrite EB.
  unfold run_des in *. destruct (des_run_suffix A p (conv_lens_ok _ _ Hp) _ _ _ Hr) as (X' & E' & HR).
  simpl in E'. assert (X' = X). { rewrite EX in E'. apply app_inv_tail in E'. auto. } subst X'.
  exists (rebits sdF R). split; [exact (HR R)|]. split; [reflexivity|]. split; [reflexivity|].
  unfold verify_complete in *. simpl. exact Hv.
Qed.


(* ---- instances ---- *)
(* the repaired padding / auxiliary-data unit of vc2.py is in the covered class (the un-repaired one is
   not: its length next_parse_offset - 13 can be negative) *)
Lemma unit_prog_clamped_ok : conv_ok (unit_prog true).
Proof.
  unfold unit_prog.
  repeat (apply conv_op; [exact I | simpl; try exact I; try lia | simpl; auto | intros ?]).
  apply conv_ret.
Qed.

Lemma ex_prog_conv_ok : conv_ok ex_prog.
Proof.
  unfold ex_prog.
  repeat (apply conv_op; [exact I | simpl; try exact I; try lia | simpl; auto | intros ?]).
  destruct r0 as [z| | | | | |]; try apply conv_ret.
  destruct z as [|[[|[]|]|[|[]|]|]|]; try apply conv_ret.
  apply conv_op; [exact I | simpl; lia | simpl; auto | intros; apply conv_ret].
Qed.

(* ---- the vc2.py descriptions of Model/SerDesVC2.v are in the covered class ---- *)
Lemma conv_pseq A (p : prog unit) (q : prog A) : conv_ok p -> conv_ok q -> conv_ok (pseq p q).
Proof. induction 1; simpl; intros Hq; auto. constructor; auto. Qed.

Lemma conv_prep n body : conv_ok body -> conv_ok (prep n body).
Proof. intros H. induction n; simpl; [constructor|]. apply conv_pseq; auto. Qed.

Lemma conv_pseqs l : Forall conv_ok l -> conv_ok (pseqs l).
Proof. induction 1; simpl; [constructor|]. apply conv_pseq; auto. Qed.

Lemma conv_pop o : op_sym o -> op_len_ok o -> op_ok o -> conv_ok (pop o).
Proof. intros. unfold pop. constructor; auto. intros; constructor. Qed.

Lemma conv_puint t : conv_ok (puint t).
Proof. unfold puint. constructor; simpl; auto. intros; constructor. Qed.

Lemma conv_psub t ty body : conv_ok body -> conv_ok (psub t ty body).
Proof.
  intros H. unfold psub. constructor; simpl; auto. intros _. constructor; simpl; auto. intros _.
  apply conv_pseq; auto. constructor; simpl; auto. intros; constructor.
Qed.

Lemma conv_pflag t body : conv_ok body -> conv_ok (pflag t body).
Proof. intros H. unfold pflag. constructor; simpl; auto. intros b. destruct (val_bool b); auto. constructor. Qed.

Lemma conv_pindex body : conv_ok body -> conv_ok (pindex body).
Proof. intros H. unfold pindex. constructor; simpl; auto. intros i. destruct (val_int i =? 0); auto. constructor. Qed.

Ltac conv_tac :=
  repeat first
    [ apply conv_psub | apply conv_pflag | apply conv_pindex | apply conv_puint
    | apply conv_pseqs; repeat (apply Forall_cons || apply Forall_nil)
    | apply conv_pseq | apply conv_prep
    | apply conv_pop; simpl; auto; try lia ].

Lemma sequence_header_prog_ok : conv_ok sequence_header_prog.
Proof. unfold sequence_header_prog. apply conv_op; [exact I|exact I|exact I|intros _]. conv_tac. Qed.

Lemma fragment_header_prog_ok : conv_ok fragment_header_prog.
Proof.
  unfold fragment_header_prog.
  repeat (apply conv_op; [exact I | simpl; try exact I; try lia | simpl; auto | intros ?]).
  destruct (val_int r2 =? 0); [constructor|].
  repeat (apply conv_op; [exact I | simpl; try exact I; try lia | simpl; auto | intros ?]). constructor.
Qed.

Lemma hq_component_ok a b c scaler n : conv_ok (hq_component a b c scaler n).
Proof.
  unfold hq_component. apply conv_op; [exact I|simpl; lia|exact I|intros len].
  apply conv_op; [exact I|exact I|exact I|intros _]. conv_tac.
Qed.

Lemma hq_slice_prog_ok prefix scaler ny nc1 nc2 sx sy : 0 <= prefix ->
  conv_ok (hq_slice_prog prefix scaler ny nc1 nc2 sx sy).
Proof.
  intros H. unfold hq_slice_prog. apply conv_pseqs.
  repeat (apply Forall_cons || apply Forall_nil); try apply hq_component_ok; try (apply conv_pop; simpl; auto; lia).
Qed.

Lemma ld_slice_prog_ok sb length_bits ny nc sx sy : 0 <= length_bits ->
  conv_ok (ld_slice_prog sb length_bits ny nc sx sy).
Proof.
  intros H. unfold ld_slice_prog. apply conv_pseq; [apply conv_pop; simpl; auto|].
  apply conv_pseq; [apply conv_pop; simpl; auto; lia|].
  apply conv_op; [exact I|simpl; lia|exact I|intros ylen]. conv_tac.
Qed.
