(* Proofs about Model/SerDes.v, part 3: serialiser/deserialiser simulation, round trip (C21). *)
From Coq Require Import ZArith List Bool Lia.
From VC2 Require Import Model.SerDes Proofs.SerDesBits Proofs.SerDesWf.
Import ListNotations.
Open Scope Z_scope.

(* ====================================================================== *)
(* a value that came from default_values: the deserialised value is that default read back *)
Definition from_default (D : defaults) (t : Z) (b : val) : Prop :=
  exists ty d, dlookup D ty t = Some d /\ dle d b.

(* [vle D a b]: description [b] (deserialised) is description [a] (the serialiser's, after it ran)
   with bit/byte strings padded to their coded length, values absent from [a] filled from the
   defaults, default-derived elements inserted in lists, dictionaries of a type the program never
   set being plain dicts (type 0). *)
Inductive vle (D : defaults) : val -> val -> Prop :=
| vle_leaf a b : dle a b -> vle D a b
| vle_same v : vle D v v
| vle_dict ty ty' f f' :
    (ty' = ty \/ ty' = 0) ->
    (forall t, tle D t (alookup t f) (alookup t f')) ->
    vle D (VC ty f) (VC ty' f')
with lle (D : defaults) : Z -> list val -> list val -> Prop :=
| lle_nil t : lle D t [] []
| lle_cons t a b l l' : vle D a b -> lle D t l l' -> lle D t (a :: l) (b :: l')
| lle_extra t b l l' : from_default D t b -> lle D t l l' -> lle D t l (b :: l')
with tle (D : defaults) : Z -> option val -> option val -> Prop :=
| tle_none t : tle D t None None
| tle_val t v v' : vle D v v' -> tle D t (Some v) (Some v')
| tle_list t l l' : lle D t l l' -> tle D t (Some (VL l)) (Some (VL l'))
| tle_dflt t v' : from_default D t v' -> tle D t None (Some v').

Lemma lle_snoc_both D t l l' a b : lle D t l l' -> vle D a b -> lle D t (l ++ [a]) (l' ++ [b]).
Proof.
  induction 1; intros Hx; simpl.
  - constructor; auto. constructor.
  - constructor; auto.
  - apply lle_extra; auto.
Qed.
Lemma lle_snoc_extra D t l l' b : lle D t l l' -> from_default D t b -> lle D t l (l' ++ [b]).
Proof.
  induction 1; intros Hx; simpl.
  - apply lle_extra; auto. constructor.
  - constructor; auto.
  - apply lle_extra; auto.
Qed.

(* ---- per-target relation between a serialiser context and the deserialiser context ---- *)
Definition tsim (D : defaults) (t : Z) (is id : option ix) (vs vd : option val) : Prop :=
  match is with
  | None => id = None /\ vd = None
  | Some Used => id = Some Used /\ vd <> None /\ tle D t vs vd
  | Some (Nxt i) =>
      exists l l', vs = Some (VL l) /\ vd = Some (VL l') /\ id = Some (Nxt (length l')) /\
                   (i <= length l)%nat /\ lle D t (firstn i l) l'
  end.

Definition csim D (fs : fields) (is : indices) (fd : fields) (id : indices) : Prop :=
  forall t, tsim D t (alookup t is) (alookup t id) (alookup t fs) (alookup t fd).

Definition fsim D (frs frd : frame) : Prop :=
  fr_tgt frd = fr_tgt frs /\ (fr_ty frd = fr_ty frs \/ fr_ty frd = 0) /\
  forall cs cd, vle D cs cd ->
    csim D (plug cs (fr_f frs)) (fr_ix frs) (plug cd (fr_f frd)) (fr_ix frd).

Record sim D (ss sd : st) : Prop := mksim {
  sim_ty : c_ty sd = c_ty ss \/ c_ty sd = 0;
  sim_c : csim D (c_f ss) (c_ix ss) (c_f sd) (c_ix sd);
  sim_stk : Forall2 (fsim D) (stk ss) (stk sd);
  sim_pos : pos (sio sd) = pos (sio ss);
  sim_rem : rem (sio sd) = rem (sio ss) }.

(* updating one target on both sides *)
Lemma csim_upd D fs is fd id t is' id' vs' vd' :
  csim D fs is fd id ->
  tsim D t (Some is') (Some id') (Some vs') (Some vd') ->
  csim D (aupd t vs' fs) (aupd t is' is) (aupd t vd' fd) (aupd t id' id).
Proof.
  intros H Ht t'. rewrite !alookup_dec. destruct (t' =? t) eqn:E.
  - apply Z.eqb_eq in E. subst. auto.
  - apply H.
Qed.

(* same, the serialiser's value unchanged *)
Lemma csim_upd_keep D fs is fd id t is' id' vd' :
  csim D fs is fd id ->
  tsim D t (Some is') (Some id') (alookup t fs) (Some vd') ->
  csim D fs (aupd t is' is) (aupd t vd' fd) (aupd t id' id).
Proof.
  intros H Ht t'. rewrite !alookup_dec. destruct (t' =? t) eqn:E.
  - apply Z.eqb_eq in E. subst. auto.
  - apply H.
Qed.

(* ---- verification ---- *)
Lemma in_keys_lookup {V} t (f : list (Z * V)) : In t (map fst f) -> exists v, alookup t f = Some v.
Proof.
  induction f as [|[k x] f IH]; simpl; intros H; [contradiction|].
  destruct (k =? t) eqn:E; eauto. destruct H as [H|H]; auto.
  subst. rewrite Z.eqb_refl in E. discriminate.
Qed.
Lemma lookup_in_keys {V} t (v : V) f : alookup t f = Some v -> In t (map fst f).
Proof.
  induction f as [|[k x] f IH]; simpl; intros H; [discriminate|].
  destruct (k =? t) eqn:E; auto. apply Z.eqb_eq in E. auto.
Qed.

Lemma verify_keys_ok ixs f ks : verify_keys ixs f ks = Ok tt ->
  forall t v, In t ks -> alookup t f = Some v -> target_complete ixs t v = Ok true.
Proof.
  induction ks as [|k ks IH]; simpl; intros H t v Hin E; [contradiction|].
  destruct Hin as [->|Hin].
  - rewrite E in H. apply rbind_ok in H. destruct H as (b & Hb & H). destruct b; [auto|discriminate].
  - destruct (alookup k f); [|eauto]. apply rbind_ok in H. destruct H as (b & Hb & H).
    destruct b; [eauto|discriminate].
Qed.
Lemma verify_keys_intro ixs f ks :
  (forall t v, alookup t f = Some v -> target_complete ixs t v = Ok true) -> verify_keys ixs f ks = Ok tt.
Proof.
  intros H. induction ks as [|k ks IH]; simpl; auto.
  destruct (alookup k f) eqn:E; auto. rewrite (H _ _ E). simpl. auto.
Qed.
Lemma verify_fields_ok ixs f : verify_fields ixs f = Ok tt ->
  forall t v, alookup t f = Some v -> target_complete ixs t v = Ok true.
Proof. intros H t v E. eapply verify_keys_ok; eauto. eapply lookup_in_keys; eauto. Qed.

(* a verified serialiser context and its simulated deserialiser context are related as
   descriptions, and the deserialiser's context verifies too *)
Lemma csim_verified D fs is fd id :
  csim D fs is fd id -> verify_fields is fs = Ok tt ->
  forall t, tle D t (alookup t fs) (alookup t fd).
Proof.
  intros H V t. specialize (H t). pose proof (verify_fields_ok _ _ V t) as Vt.
  unfold tsim in H. destruct (alookup t is) as [[|i]|] eqn:E.
  - destruct H as (_ & _ & H). auto.
  - destruct H as (l & l' & Hs & Hd & _ & Hi & Hl). rewrite Hs, Hd.
    specialize (Vt _ Hs). unfold target_complete in Vt. rewrite E in Vt. inv Vt.
    apply Nat.eqb_eq in H0. subst i. rewrite firstn_all in Hl. apply tle_list; auto.
  - destruct H as (_ & ->). destruct (alookup t fs) eqn:F; [|constructor].
    specialize (Vt _ eq_refl). unfold target_complete in Vt. rewrite E in Vt. discriminate.
Qed.

Lemma csim_verify_des D fs is fd id : csim D fs is fd id -> verify_fields id fd = Ok tt.
Proof.
  intros H. apply verify_keys_intro. intros t v E.
  specialize (H t). unfold tsim, target_complete in *.
  destruct (alookup t is) as [[|i]|].
  - destruct H as (-> & _). reflexivity.
  - destruct H as (l & l' & _ & Hd & -> & _). rewrite Hd in E. inv E. rewrite Nat.eqb_refl. reflexivity.
  - destruct H as (_ & Hd). congruence.
Qed.

(* ====================================================================== *)
Lemma sim_cur D ss sd fs' is' fd' id' :
  sim D ss sd -> csim D fs' is' fd' id' -> sim D (set_fix ss fs' is') (set_fix sd fd' id').
Proof. intros [A B C P R] H. constructor; auto. Qed.

Lemma sim_io D ss sd w r :
  sim D ss sd -> pos r = pos w -> rem r = rem w -> sim D (set_io ss w) (set_io sd r).
Proof. intros [A B C P R] H1 H2. constructor; auto. Qed.

Lemma des_set_none t v sd : alookup t (c_ix sd) = None ->
  set_value t v sd = Ok (set_fix sd (aupd t v (c_f sd)) (aupd t Used (c_ix sd))).
Proof. intros E. unfold set_value. rewrite E. reflexivity. Qed.

Lemma des_set_list t v sd l' :
  alookup t (c_ix sd) = Some (Nxt (length l')) -> alookup t (c_f sd) = Some (VL l') ->
  set_value t v sd = Ok (set_fix sd (aupd t (VL (l' ++ [v])) (c_f sd)) (aupd t (Nxt (S (length l'))) (c_ix sd))).
Proof. intros E F. unfold set_value. rewrite E, F, Nat.eqb_refl. reflexivity. Qed.

Lemma len_snoc {A} (l : list A) x : length (l ++ [x]) = S (length l).
Proof. rewrite app_length. simpl. lia. Qed.

(* the three ways one target advances *)
Lemma csim_upd_ser_ix D fs is fd id t is' id' vd' :
  csim D fs is fd id ->
  tsim D t (Some is') (Some id') (alookup t fs) (Some vd') ->
  csim D fs (aupd t is' is) (aupd t vd' fd) (aupd t id' id).
Proof.
  intros H Ht t'. rewrite !alookup_dec. destruct (t' =? t) eqn:E.
  - apply Z.eqb_eq in E. subst. auto.
  - apply H.
Qed.
Lemma csim_upd_des_only D fs is fd id t id' vd' :
  csim D fs is fd id ->
  tsim D t (alookup t is) (Some id') (alookup t fs) (Some vd') ->
  csim D fs is (aupd t vd' fd) (aupd t id' id).
Proof.
  intros H Ht t'. rewrite !alookup_dec. destruct (t' =? t) eqn:E.
  - apply Z.eqb_eq in E. subst. auto.
  - apply H.
Qed.

(* computed_value *)
Lemma sim_set_value D t v ss sd ss' :
  sim D ss sd -> set_value t v ss = Ok ss' ->
  exists sd', set_value t v sd = Ok sd' /\ sim D ss' sd' /\ sio sd' = sio sd.
Proof.
  intros Sm H. pose proof (sim_c _ _ _ Sm t) as Ht. apply set_value_spec in H.
  destruct H as [[E ->] | (i & l & l2 & E & F & Hl & ->)]; rewrite E in Ht; simpl in Ht.
  - destruct Ht as (Ei & Ev). rewrite (des_set_none _ _ _ Ei). eexists. split; [reflexivity|]. split; auto.
    apply sim_cur; auto. apply csim_upd; [apply (sim_c _ _ _ Sm)|]. cbn [tsim].
    split; auto. split; [discriminate|]. constructor. apply vle_same.
  - destruct Ht as (l0 & l' & Hs & Hd & Hi & Hle & Hl'). rewrite F in Hs. inv Hs.
    rewrite (des_set_list _ _ _ _ Hi Hd). eexists. split; [reflexivity|]. split; auto.
    apply sim_cur; auto. apply csim_upd; [apply (sim_c _ _ _ Sm)|]. cbn [tsim].
    exists l2, (l' ++ [v]). rewrite len_snoc. repeat split; auto.
    + destruct Hl as [[-> ->] | [Hlt ->]]; [rewrite len_snoc|rewrite list_set_length]; lia.
    + destruct Hl as [[-> ->] | [Hlt ->]].
      * rewrite firstn_all in Hl'. rewrite firstn_all2 by (rewrite len_snoc; lia).
        apply lle_snoc_both; auto. apply vle_same.
      * rewrite firstn_list_set by auto. apply lle_snoc_both; auto. apply vle_same.
Qed.

Lemma io_eta (r : io) : r = mkio (bits r) (pos r) (rem r).
Proof. destruct r; reflexivity. Qed.

(* a value primitive *)
Lemma sim_prim D k t ss v ss' :
  ser_prim D k t ss = Ok (v, ss') ->
  exists X, bits (sio ss') = bits (sio ss) ++ X /\
    forall sd R, sim D ss sd -> bits (sio sd) = X ++ R ->
      exists v' sd', des_prim k t sd = Ok (v', sd') /\ dle v v' /\ bits (sio sd') = R /\ sim D ss' sd'.
Proof.
  intros H. unfold ser_prim in H. apply rbind_ok in H. destruct H as ([v1 s1] & H1 & H).
  apply rbind_ok in H. destruct H as (w & Hw & H). inv H.
  assert (Io : sio s1 = sio ss).
  { apply ser_get_spec in H1.
    destruct H1 as [(_ & -> & _) | (i & l & _ & _ & [[_ ->] | (_ & _ & ->)])]; reflexivity. }
  rewrite Io in Hw. destruct (write_val_read_val _ _ _ _ Hw) as (X & v' & EX & Hdle & HR).
  exists X. split; [exact EX|]. intros sd R Sm Hb.
  assert (Hio : sio sd = rd_of (sio ss) (X ++ R)).
  { rewrite (io_eta (sio sd)). unfold rd_of. rewrite Hb, (sim_pos _ _ _ Sm), (sim_rem _ _ _ Sm). reflexivity. }
  unfold des_prim. rewrite Hio, HR. cbn [rbind].
  pose proof (sim_c _ _ _ Sm t) as Ht.
  assert (S0 : sim D (set_io ss w) (set_io sd (rd_of w R))) by (apply sim_io; auto).
  apply ser_get_spec in H1.
  destruct H1 as [(E & -> & Hv) | (i & l & E & F & [[N ->] | (N & Dl & ->)])]; rewrite E in Ht; simpl in Ht.
  - destruct Ht as (Ei & Ev).
    rewrite (des_set_none t v' (set_io sd (rd_of w R))) by exact Ei. cbn [rbind].
    exists v', (set_fix (set_io sd (rd_of w R)) (aupd t v' (c_f sd)) (aupd t Used (c_ix sd))).
    split; [reflexivity|]. split; auto. split; [reflexivity|].
    apply (sim_cur D (set_io ss w) (set_io sd (rd_of w R)) (c_f ss) (aupd t Used (c_ix ss))); auto.
    apply csim_upd_ser_ix; [apply (sim_c _ _ _ Sm)|]. cbn [tsim]. split; auto. split; [discriminate|].
    destruct Hv as [Hv | [Hv Dl]]; rewrite Hv.
    + constructor. apply vle_leaf; auto.
    + apply tle_dflt. exists (c_ty ss), v. auto.
  - destruct Ht as (l0 & l' & Hs & Hd & Hi & Hle & Hl'). rewrite F in Hs. inv Hs.
    rewrite (des_set_list t v' (set_io sd (rd_of w R)) l') by auto. cbn [rbind].
    eexists v', _. split; [reflexivity|]. split; auto. split; [reflexivity|].
    apply (sim_cur D (set_io ss w) (set_io sd (rd_of w R)) (c_f ss) (aupd t (Nxt (S i)) (c_ix ss))); auto.
    apply csim_upd_ser_ix; [apply (sim_c _ _ _ Sm)|]. cbn [tsim].
    exists l0, (l' ++ [v']). rewrite len_snoc, F. repeat split; auto.
    + apply nth_error_Some. congruence.
    + rewrite (firstn_nth_error _ _ _ N). apply lle_snoc_both; auto. apply vle_leaf; auto.
  - destruct Ht as (l0 & l' & Hs & Hd & Hi & Hle & Hl'). rewrite F in Hs. inv Hs.
    rewrite (des_set_list t v' (set_io sd (rd_of w R)) l') by auto. cbn [rbind].
    eexists v', _. split; [reflexivity|]. split; auto. split; [reflexivity|].
    apply (sim_cur D (set_io ss w) (set_io sd (rd_of w R)) (c_f ss) (c_ix ss)); auto.
    apply csim_upd_des_only; [apply (sim_c _ _ _ Sm)|]. rewrite E, F. cbn [tsim].
    exists l0, (l' ++ [v']). rewrite len_snoc. repeat split; auto.
    apply lle_snoc_extra; auto. exists (c_ty ss), v. auto.
Qed.

(* ====================================================================== *)
Lemma sim_declare_list D t ss sd ss' :
  sim D ss sd -> declare_list t ss = Ok ss' ->
  exists sd', declare_list t sd = Ok sd' /\ sim D ss' sd' /\ sio sd' = sio sd.
Proof.
  intros Sm H. pose proof (sim_c _ _ _ Sm t) as Ht. unfold declare_list in *.
  destruct (alookup t (c_ix ss)) eqn:E; [discriminate|]. simpl in Ht. destruct Ht as (Ei & Ev).
  rewrite Ei, Ev. eexists. split; [reflexivity|]. split; [|reflexivity].
  destruct (alookup t (c_f ss)) as [[| | | |l| |]|] eqn:F; try discriminate; inv H.
  - apply (sim_cur D ss sd (c_f ss) (aupd t (Nxt 0) (c_ix ss))); auto.
    apply csim_upd_ser_ix; [apply (sim_c _ _ _ Sm)|]. cbn [tsim]. rewrite F.
    exists l, []. simpl. repeat split; auto. lia. constructor.
  - apply sim_cur; auto. apply csim_upd; [apply (sim_c _ _ _ Sm)|]. cbn [tsim].
    exists [], []. simpl. repeat split; auto. constructor.
Qed.

Lemma vle_empty D : vle D (VC 0 []) (VC 0 []).
Proof. apply vle_same. Qed.

Lemma csim_empty D fs fd : csim D fs [] fd [] -> True.
Proof. auto. Qed.

(* subcontext_enter *)
Lemma csim_slot_key D fs is fd id t cs cd :
  csim D fs is fd id -> vle D cs cd ->
  csim D (aupd t cs fs) (aupd t Used is) (aupd t cd fd) (aupd t Used id).
Proof.
  intros H Hc. apply csim_upd; auto. cbn [tsim]. split; auto. split; [discriminate|]. constructor. auto.
Qed.

Lemma sim_enter D t ss sd ss' :
  sim D ss sd -> wf ss -> wf sd -> subcontext_enter t ss = Ok ss' ->
  exists sd', subcontext_enter t sd = Ok sd' /\ sim D ss' sd' /\ sio sd' = sio sd.
Proof.
  intros Sm Ws Wd H. pose proof (sim_c _ _ _ Sm t) as Ht.
  pose proof (wf_nh _ Ws) as Nfs. pose proof (wf_nh _ Wd) as Nfd.
  unfold subcontext_enter in H. apply rbind_ok in H. destruct H as ([[v lc] s1] & H1 & H).
  destruct v as [| | | | |cty cf|]; try discriminate. inv H.
  apply setdefault_spec in H1.
  destruct H1 as [(E & -> & Hc) | (i & l & E & F & -> & Hc)]; rewrite E in Ht; simpl in Ht.
  - (* plain target *)
    destruct Ht as (Ei & Ev).
    unfold subcontext_enter, setdefault. rewrite Ei, Ev. cbn [rbind].
    eexists. split; [reflexivity|]. split; [|reflexivity].
    assert (Hstk : stk s1 = stk ss /\ c_ty s1 = c_ty ss /\ sio s1 = sio ss /\ c_ix s1 = aupd t Used (c_ix ss)).
    { destruct Hc as [[F ->] | (F & _ & ->)]; simpl; auto. }
    destruct Hstk as (Sk1 & Ty1 & Io1 & Ix1).
    constructor; simpl.
    + right. reflexivity.
    + intros t'. simpl. split; reflexivity.
    + rewrite Sk1. constructor; [|apply (sim_stk _ _ _ Sm)].
      split; [reflexivity|]. simpl. split; [rewrite Ty1; apply (sim_ty _ _ _ Sm)|].
      intros cs cd Hcd. rewrite Ix1. rewrite !plug_aupd. cbn [plug1]. rewrite aupd_aupd.
      rewrite (plug_nohole cd (c_f sd)) by auto.
      destruct Hc as [[F ->] | (F & _ & ->)]; simpl.
      * rewrite plug_nohole by auto. apply csim_slot_key; auto. apply (sim_c _ _ _ Sm).
      * rewrite plug_aupd, aupd_aupd, plug_nohole by auto. apply csim_slot_key; auto. apply (sim_c _ _ _ Sm).
    + rewrite Io1. apply (sim_pos _ _ _ Sm).
    + rewrite Io1. apply (sim_rem _ _ _ Sm).
  - (* list target *)
    destruct Ht as (l0 & l' & Hs & Hd & Hi & Hle & Hl'). rewrite F in Hs. inv Hs.
    unfold subcontext_enter, setdefault. rewrite Hi, Hd, Nat.eqb_refl. cbn [rbind].
    eexists. split; [reflexivity|]. split; [|reflexivity].
    assert (Nl0 : Forall nohole l0) by (apply nohole_VL; exact (nohole_f_lookup _ _ _ Nfs F)).
    assert (Nl' : Forall nohole l') by (apply nohole_VL; exact (nohole_f_lookup _ _ _ Nfd Hd)).
    assert (Hstk : stk s1 = stk ss /\ c_ty s1 = c_ty ss /\ sio s1 = sio ss /\ c_ix s1 = aupd t (Nxt (S i)) (c_ix ss)).
    { destruct Hc as [(-> & _ & ->) | (N & ->)]; simpl; auto. }
    destruct Hstk as (Sk1 & Ty1 & Io1 & Ix1).
    constructor; simpl.
    + right. reflexivity.
    + intros t'. simpl. split; reflexivity.
    + rewrite Sk1. constructor; [|apply (sim_stk _ _ _ Sm)].
      split; [reflexivity|]. simpl. split; [rewrite Ty1; apply (sim_ty _ _ _ Sm)|].
      intros cs cd Hcd. rewrite Ix1. rewrite alookup_aupd_same, aupd_aupd, list_set_app_last.
      rewrite plug_aupd. cbn [plug1]. rewrite map_app, map_hole_id by auto. cbn [map].
      rewrite (plug_nohole cd (c_f sd)) by auto.
      destruct Hc as [(-> & _ & ->) | (N & ->)]; simpl.
      * rewrite alookup_aupd_same, aupd_aupd, list_set_app_last.
        rewrite plug_aupd. cbn [plug1]. rewrite map_app, map_hole_id by auto. cbn [map].
        rewrite plug_nohole by auto.
        apply csim_upd; [apply (sim_c _ _ _ Sm)|]. cbn [tsim].
        exists (l0 ++ [cs]), (l' ++ [cd]). rewrite !len_snoc. repeat split; auto.
        rewrite firstn_all in Hl'. rewrite firstn_all2 by (rewrite len_snoc; lia).
        apply lle_snoc_both; auto.
      * rewrite F. rewrite plug_aupd. cbn [plug1]. rewrite map_hole_list_set by auto.
        rewrite plug_nohole by auto.
        assert (Hlt : (i < length l0)%nat) by (apply nth_error_Some; congruence).
        apply csim_upd; [apply (sim_c _ _ _ Sm)|]. cbn [tsim].
        exists (list_set i cs l0), (l' ++ [cd]). rewrite len_snoc, list_set_length. repeat split; auto.
        rewrite firstn_list_set by auto. apply lle_snoc_both; auto.
    + rewrite Io1. apply (sim_pos _ _ _ Sm).
    + rewrite Io1. apply (sim_rem _ _ _ Sm).
Qed.

Lemma sim_leave D ss sd ss' :
  sim D ss sd -> subcontext_leave ss = Ok ss' ->
  exists sd', subcontext_leave sd = Ok sd' /\ sim D ss' sd' /\ sio sd' = sio sd.
Proof.
  intros Sm H. unfold subcontext_leave in *. apply rbind_ok in H. destruct H as (u & Hv & H). destruct u.
  destruct (stk ss) as [|frs rs] eqn:Es; [discriminate|]. inv H.
  pose proof (sim_stk _ _ _ Sm) as Hst. rewrite Es in Hst.
  inversion Hst as [|frs' frd rs' rd Hfs Hrest E1 E2]. subst frs' rs'.
  destruct Hfs as (Ht & Hty & Hf).
  unfold verify_ctx. rewrite (csim_verify_des _ _ _ _ _ (sim_c _ _ _ Sm)). cbn [rbind].
  eexists. split; [reflexivity|]. split; [|reflexivity].
  constructor; simpl; auto.
  - apply Hf. apply vle_dict; [apply (sim_ty _ _ _ Sm)|].
    apply csim_verified with (is := c_ix ss) (id := c_ix sd); auto. apply (sim_c _ _ _ Sm).
  - apply (sim_pos _ _ _ Sm).
  - apply (sim_rem _ _ _ Sm).
Qed.

Lemma sim_set_type D ty ss sd ss' :
  sim D ss sd -> wf ss -> wf sd -> set_context_type ty ss = Ok ss' ->
  exists sd', set_context_type ty sd = Ok sd' /\ sim D ss' sd' /\ sio sd' = sio sd.
Proof.
  intros Sm Ws Wd H. rewrite set_context_type_wf in H by auto. inv H.
  rewrite set_context_type_wf by auto. eexists. split; [reflexivity|]. split; [|reflexivity].
  destruct Sm as [A B C P R]. constructor; simpl; auto.
Qed.

(* ---- results of the two interpreters ---- *)
Definition prim_rel (k : kind) (v v' : val) : Prop :=
  match k with KBitArr _ | KBytes _ => dle v v' | _ => v = v' end.

Lemma prim_rel_of k v w w' v' : write_val k v w = Ok w' -> dle v v' -> prim_rel k v v'.
Proof.
  destruct k, v; simpl; try discriminate; intros _ Hd; destruct v'; simpl in Hd; try contradiction;
    subst; auto.
Qed.

Lemma sim_prim' D k t ss v ss' :
  ser_prim D k t ss = Ok (v, ss') ->
  exists X, bits (sio ss') = bits (sio ss) ++ X /\
    forall sd R, sim D ss sd -> bits (sio sd) = X ++ R ->
      exists v' sd', des_prim k t sd = Ok (v', sd') /\ prim_rel k v v' /\ bits (sio sd') = R /\ sim D ss' sd'.
Proof.
  intros H. destruct (sim_prim D k t ss v ss' H) as (X & EX & HS). exists X. split; auto.
  intros sd R Sm Hb. destruct (HS sd R Sm Hb) as (v' & sd' & Hd & Hdle & Hbits & Sm').
  exists v', sd'. split; [auto|]. split; [|split; auto].
  unfold ser_prim in H. apply rbind_ok in H. destruct H as ([v1 s1] & H1 & H).
  apply rbind_ok in H. destruct H as (w & Hw & H). inv H. exact (prim_rel_of _ _ _ _ _ Hw Hdle).
Qed.

(* value primitives return the same value in both interpreters; bit and byte strings come back
   padded *)
Definition res_rel (o : op) : result o -> result o -> Prop :=
  match o return result o -> result o -> Prop with
  | OBitArr _ _ | OBytes _ _ => dle
  | OBool _ | ONBits _ _ | OUintLit _ _ | OUint _ | OSint _ => eq
  | OIsComplete _ => eq
  | _ => fun _ _ => True
  end.

(* operations whose answer does not depend on being serialiser or deserialiser *)
Definition op_sym (o : op) : Prop := match o with OIsComplete _ => False | _ => True end.

Lemma sim_step D o ss r ss' :
  op_sym o -> wf ss -> ser_step D o ss = Ok (r, ss') ->
  exists X, bits (sio ss') = bits (sio ss) ++ X /\
    forall sd R, sim D ss sd -> wf sd -> bits (sio sd) = X ++ R ->
      exists r' sd', des_step o sd = Ok (r', sd') /\ res_rel o r r' /\ bits (sio sd') = R /\ sim D ss' sd'.
Proof.
  intros Hsym Ws H. unfold ser_step, des_step in *.
  destruct o; cbn [step res_rel] in *; try contradiction;
    try (destruct (sim_prim' _ _ _ _ _ _ H) as (X & EX & HS); exists X; split; [exact EX|];
         intros sd R Sm Wd Hb; destruct (HS sd R Sm Hb) as (v' & sd' & Hd & Hr & Hbits & Sm');
         exists v', sd'; auto; fail).
  - (* byte_align *)
    apply unitr_ok in H. destruct H as (v & H).
    destruct (sim_prim' _ _ _ _ _ _ H) as (X & EX & HS). exists X. split; [exact EX|].
    intros sd R Sm Wd Hb. destruct (HS sd R Sm Hb) as (v' & sd' & Hd & Hr & Hbits & Sm').
    rewrite (sim_pos _ _ _ Sm), Hd. exists tt, sd'. simpl. auto.
  - (* bounded_block_begin *)
    destruct (rem (sio ss)) eqn:Er; inv H. exists []. simpl. rewrite app_nil_r. split; auto.
    intros sd R Sm Wd Hb. rewrite (sim_rem _ _ _ Sm), Er. eexists tt, _. split; [reflexivity|].
    split; auto. split; [exact Hb|]. apply sim_io; auto. simpl. apply (sim_pos _ _ _ Sm).
  - (* bounded_block_end *)
    destruct (rem (sio ss)) eqn:Er; [|discriminate]. apply unitr_ok in H. destruct H as (v & H).
    destruct (sim_prim' _ _ _ _ _ _ H) as (X & EX & HS). exists X. split; [exact EX|].
    intros sd R Sm Wd Hb. rewrite (sim_rem _ _ _ Sm), Er.
    assert (Sm0 : sim D (set_io ss (mkio (bits (sio ss)) (pos (sio ss)) None))
                        (set_io sd (mkio (bits (sio sd)) (pos (sio sd)) None))).
    { apply sim_io; auto. simpl. apply (sim_pos _ _ _ Sm). }
    destruct (HS _ R Sm0 Hb) as (v' & sd' & Hd & Hr & Hbits & Sm').
    rewrite Hd. exists tt, sd'. simpl. auto.
  - (* declare_list *)
    apply unitst_ok in H. destruct (declare_list_wf _ _ _ Ws H) as (_ & Io & _).
    exists []. rewrite Io, app_nil_r. split; auto. intros sd R Sm Wd Hb.
    destruct (sim_declare_list _ _ _ _ _ Sm H) as (sd' & Hd & Sm' & Io'). rewrite Hd.
    exists tt, sd'. simpl. rewrite Io'. auto.
  - (* subcontext_enter *)
    apply unitst_ok in H. destruct (subcontext_enter_wf _ _ _ Ws H) as (_ & Io).
    exists []. rewrite Io, app_nil_r. split; auto. intros sd R Sm Wd Hb.
    destruct (sim_enter _ _ _ _ _ Sm Ws Wd H) as (sd' & Hd & Sm' & Io'). rewrite Hd.
    exists tt, sd'. simpl. rewrite Io'. auto.
  - (* subcontext_leave *)
    apply unitst_ok in H. destruct (subcontext_leave_wf _ _ Ws H) as (_ & Io).
    exists []. rewrite Io, app_nil_r. split; auto. intros sd R Sm Wd Hb.
    destruct (sim_leave _ _ _ _ Sm H) as (sd' & Hd & Sm' & Io'). rewrite Hd.
    exists tt, sd'. simpl. rewrite Io'. auto.
  - (* set_context_type *)
    apply unitst_ok in H. exists []. rewrite app_nil_r.
    split. { rewrite set_context_type_wf in H by auto. inv H. reflexivity. }
    intros sd R Sm Wd Hb.
    destruct (sim_set_type _ _ _ _ _ Sm Ws Wd H) as (sd' & Hd & Sm' & Io'). rewrite Hd.
    exists tt, sd'. simpl. rewrite Io'. auto.
  - (* computed_value *)
    apply unitst_ok in H.
    assert (Io : sio ss' = sio ss).
    { apply set_value_spec in H. destruct H as [[_ ->] | (i & l & l2 & _ & _ & _ & ->)]; reflexivity. }
    exists []. rewrite Io, app_nil_r. split; auto. intros sd R Sm Wd Hb.
    destruct (sim_set_value _ _ _ _ _ _ Sm H) as (sd' & Hd & Sm' & Io'). rewrite Hd.
    exists tt, sd'. simpl. rewrite Io'. auto.
Qed.

(* ====================================================================== *)
(* Programs whose control flow is, by design of the framework, the same when serialising and when
   deserialising: no [is_target_complete] (it answers "is there more to serialise", which a
   deserialiser cannot know), and continuations that do not inspect the zero padding a bit/byte
   string acquires when it is shorter than its coded length.  ([op_ok]: computed values do not
   contain the model-only reference marker.) *)
Inductive sym {A} : prog A -> Prop :=
| sym_ret a : sym (Ret a)
| sym_op o k :
    op_sym o -> op_ok o ->
    (forall r, sym (k r)) ->
    (forall r r', res_rel o r r' -> k r = k r') ->
    sym (Op o k).

Lemma run_sim D A (p : prog A) : sym p ->
  forall ss a ss', wf ss -> run (ser_step D) p ss = Ok (a, ss') ->
  exists X, bits (sio ss') = bits (sio ss) ++ X /\
    forall sd R, sim D ss sd -> wf sd -> bits (sio sd) = X ++ R ->
      exists sd', run des_step p sd = Ok (a, sd') /\ bits (sio sd') = R /\ sim D ss' sd' /\ wf sd'.
Proof.
  induction 1 as [a0 | o k Hs Hok Hk IH Hres]; intros ss a ss' Ws H.
  - simpl in H. inv H. exists []. rewrite app_nil_r. split; auto.
    intros sd R Sm Wd Hb. exists sd. simpl. auto.
  - simpl in H. apply rbind_ok in H. destruct H as ([r s1] & Hstep & Hrun).
    assert (Ws1 : wf s1).
    { eapply (step_wf (ser_prim D)); [|exact Ws|exact Hok|exact Hstep].
      intros; eapply ser_prim_wf; eauto. }
    destruct (sim_step D o ss r s1 Hs Ws Hstep) as (X1 & E1 & HS1).
    destruct (IH r s1 a ss' Ws1 Hrun) as (X2 & E2 & HS2).
    exists (X1 ++ X2). split. { rewrite E2, E1, app_assoc. reflexivity. }
    intros sd R Sm Wd Hb. rewrite <- app_assoc in Hb.
    destruct (HS1 sd (X2 ++ R) Sm Wd Hb) as (r' & sd1 & Hd & Hr & Hb1 & Sm1).
    assert (Wd1 : wf sd1).
    { eapply (step_wf des_prim); [|exact Wd|exact Hok|exact Hd].
      intros; eapply des_prim_wf; eauto. }
    destruct (HS2 sd1 R Sm1 Wd1 Hb1) as (sd' & Hrun' & Hb' & Sm' & Wd').
    exists sd'. cbn [run]. rewrite Hd. cbn [rbind].
    rewrite <- (Hres r r' Hr). auto.
Qed.

Lemma init_sim D ty f bs : sim D (init_st ty f []) (init_st 0 [] bs).
Proof.
  constructor; simpl; auto. intros t. simpl. auto.
Qed.

(* C21: serialise a complete description, deserialise the bits (followed by anything, e.g. the
   zero bits flush() adds) with the same program: same result, same bits consumed, the description
   read back is the serialiser's description up to [vle]. *)
Theorem roundtrip D A (p : prog A) ty f a ss' :
  sym p -> nohole (VC ty f) ->
  run_ser D p ty f = Ok (a, ss') -> verify_complete ss' = Ok tt ->
  forall R, exists sd',
    run_des p (bits (sio ss') ++ R) = Ok (a, sd') /\
    bits (sio sd') = R /\ pos (sio sd') = pos (sio ss') /\
    verify_complete sd' = Ok tt /\
    vle D (root ss') (root sd').
Proof.
  intros Hs Hn Hrun Hv R. unfold run_ser in Hrun.
  destruct (run_sim D A p Hs _ _ _ (init_wf ty f [] Hn) Hrun) as (X & EX & HS).
  simpl in EX. rewrite EX.
  assert (Hn0 : nohole (VC 0 [])) by (simpl; auto).
  destruct (HS (init_st 0 [] (X ++ R)) R (init_sim D ty f _) (init_wf 0 [] _ Hn0) eq_refl)
    as (sd' & Hrun' & Hb & Sm & Wd).
  exists sd'. unfold run_des. split; auto. split; auto. split; [apply (sim_pos _ _ _ Sm)|].
  unfold verify_complete in *. apply rbind_ok in Hv. destruct Hv as (u & Hvc & Hv). destruct u.
  pose proof (sim_stk _ _ _ Sm) as Hst.
  destruct (stk ss') eqn:Es; [|discriminate].
  assert (Esd : stk sd' = []) by (inversion Hst; auto).
  destruct (rem (sio ss')) eqn:Er; [discriminate|].
  unfold verify_ctx in *. rewrite (csim_verify_des _ _ _ _ _ (sim_c _ _ _ Sm)). cbn [rbind].
  rewrite Esd, (sim_rem _ _ _ Sm), Er. split; auto.
  unfold root. rewrite Es, Esd. simpl.
  apply vle_dict; [apply (sim_ty _ _ _ Sm)|].
  apply csim_verified with (is := c_ix ss') (id := c_ix sd'); auto. apply (sim_c _ _ _ Sm).
Qed.

