(* Proofs about Model/EncoderSeq.v (property C03): the encoder's fragment split always
   satisfies the validator's fragment continuity rule, for every slice grid and fragment size. *)
From Coq Require Import ZArith List Bool Lia ZifyBool.
From VC2 Require Import Model.EncoderSeq.
Import ListNotations.
Open Scope Z_scope.

Section Split.
Variables (sx fsc : Z).
Hypothesis Hsx : 1 <= sx.
Hypothesis Hfsc : 1 <= fsc.

(* invariant on the REVERSED accumulator after k slices have been placed *)
Fixpoint good_rev (acc : list frag) (k : Z) : Prop :=
  match acc with
  | [] => k = 0
  | f :: t => 1 <= f_count f <= fsc /\ f_x f = (k - f_count f) mod sx /\ f_y f = (k - f_count f) / sx
              /\ good_rev t (k - f_count f)
  end.

Definition rem_ok (acc : list frag) (rem : Z) : Prop :=
  match acc with
  | [] => rem = 0
  | f :: _ => rem = fsc - f_count f
  end.

Lemma good_rev_nonneg acc k : good_rev acc k -> 0 <= k.
Proof.
  revert k. induction acc as [|f t IH]; intros k H; cbn [good_rev] in H; [lia|].
  destruct H as (Hc & _ & _ & Ht). specialize (IH _ Ht). lia.
Qed.

Lemma split_loop_inv todo : forall n rem acc,
  good_rev acc n -> rem_ok acc rem ->
  exists acc', split_loop sx fsc n todo rem acc = rev acc' /\ good_rev acc' (n + Z.of_nat todo).
Proof.
  induction todo as [|todo IH]; intros n rem acc Hg Hr.
  - exists acc. cbn [split_loop]. split; [reflexivity|]. rewrite Z.add_0_r. exact Hg.
  - cbn [split_loop].
    destruct (rem =? 0) eqn:E.
    + (* a new fragment is started at slice n *)
      cbv iota beta.
      cbn [f_count f_x f_y].
      edestruct (IH (n + 1) (fsc - 1) (mkfrag (0 + 1) (n mod sx) (n / sx) :: acc)) as (acc' & He & Hg').
      * cbn [good_rev f_count f_x f_y]. replace (n + 1 - (0 + 1)) with n by lia.
        repeat split; try lia. exact Hg.
      * cbn [rem_ok f_count]. lia.
      * exists acc'. split; [exact He|]. replace (n + Z.of_nat (S todo)) with (n + 1 + Z.of_nat todo) by lia. exact Hg'.
    + (* the current fragment receives one more slice *)
      cbv iota beta.
      destruct acc as [|f t].
      * cbn [rem_ok] in Hr. lia.
      * cbn [rem_ok] in Hr. cbn [good_rev] in Hg. destruct Hg as (Hc & Hx & Hy & Ht).
        edestruct (IH (n + 1) (rem - 1) (mkfrag (f_count f + 1) (f_x f) (f_y f) :: t)) as (acc' & He & Hg').
        -- cbn [good_rev f_count f_x f_y]. replace (n + 1 - (f_count f + 1)) with (n - f_count f) by lia.
           repeat split; try lia; assumption.
        -- cbn [rem_ok f_count]. lia.
        -- exists acc'. split; [exact He|]. replace (n + Z.of_nat (S todo)) with (n + 1 + Z.of_nat todo) by lia. exact Hg'.
Qed.

Lemma check_rev acc : forall k tail R,
  good_rev acc k -> k <= R ->
  frag_check sx (rev acc ++ tail) 0 R = frag_check sx tail k (R - k).
Proof.
  induction acc as [|f t IH]; intros k tail R Hg Hk.
  - cbn [good_rev] in Hg. subst k. cbn [rev app]. rewrite Z.sub_0_r. reflexivity.
  - cbn [good_rev] in Hg. destruct Hg as (Hc & Hx & Hy & Ht).
    cbn [rev]. rewrite <- app_assoc. cbn [app].
    rewrite (IH (k - f_count f) (f :: tail) R Ht ltac:(lia)).
    cbn [frag_check].
    replace (negb (f_count f =? 0)) with true by lia.
    replace (f_count f <=? R - (k - f_count f)) with true by lia.
    rewrite Hx, Hy, !Z.eqb_refl. cbn [andb].
    f_equal; lia.
Qed.
End Split.

Theorem frag_split_ok sx sy fsc :
  1 <= sx -> 0 <= sy -> 1 <= fsc ->
  frag_check sx (frag_split sx sy fsc) 0 (sx * sy) = true.
Proof.
  intros Hsx Hsy Hfsc. unfold frag_split.
  destruct (split_loop_inv sx fsc Hfsc (Z.to_nat (sx * sy)) 0 0 []) as (acc & He & Hg);
    [reflexivity|reflexivity|].
  rewrite He. rewrite Z2Nat.id in Hg by nia. rewrite Z.add_0_l in Hg.
  rewrite <- (app_nil_r (rev acc)).
  rewrite (check_rev sx fsc acc (sx * sy) [] (sx * sy) Hg ltac:(lia)).
  cbn [frag_check]. lia.
Qed.

(* every slice-carrying fragment holds between 1 and fragment_slice_count slices *)
Theorem frag_split_counts sx sy fsc :
  1 <= sx -> 0 <= sy -> 1 <= fsc ->
  Forall (fun f => 1 <= f_count f <= fsc) (frag_split sx sy fsc).
Proof.
  intros Hsx Hsy Hfsc. unfold frag_split.
  destruct (split_loop_inv sx fsc Hfsc (Z.to_nat (sx * sy)) 0 0 []) as (acc & He & Hg);
    [reflexivity|reflexivity|].
  rewrite He. apply Forall_rev.
  clear He. revert Hg. generalize (0 + Z.of_nat (Z.to_nat (sx * sy))).
  induction acc as [|f t IH]; intros k Hg; constructor.
  - cbn [good_rev] in Hg. tauto.
  - cbn [good_rev] in Hg. destruct Hg as (_ & _ & _ & Ht). exact (IH _ Ht).
Qed.

(* ---- lossless HQ slice length fields (Gen/EncLossless.v, extracted from
        make_transform_data_hq_lossless on every run) ------------------------------------ *)
From VC2 Require Import Base.PyZ Gen.EncLossless.
Ltac Zify.zify_post_hook ::= Z.to_euclidean_division_equations.

Theorem lossless_lengths_fit (minimum max_length len : Z) :
  0 <= len <= max_length ->
  let s := hq_lossless_slice_size_scaler minimum max_length in
  let f := hq_lossless_rescaled_length len s in
  1 <= s /\ minimum <= s /\ 0 <= f <= 255 /\ len <= f * s /\ f * s < len + s
  /\ hq_lossless_rescaled_length_dom len s = true.
Proof.
  intros Hl s f. unfold f, s, hq_lossless_slice_size_scaler, hq_lossless_rescaled_length,
    hq_lossless_rescaled_length_dom, py_max, py_div.
  set (q := (max_length + 254) / 255).
  assert (Hq : 255 * q >= max_length) by (unfold q; lia).
  set (sc := Z.max (Z.max 1 minimum) q).
  assert (Hs1 : 1 <= sc) by (unfold sc; lia).
  assert (Hsq : q <= sc) by (unfold sc; lia).
  assert (Hsm : minimum <= sc) by (unfold sc; lia).
  replace (negb (sc =? 0)) with true by lia.
  set (g := (len + (sc - 1)) / sc).
  assert (Hg : sc * g <= len + (sc - 1) < sc * g + sc).
  { unfold g. pose proof (Z.mul_div_le (len + (sc - 1)) sc ltac:(lia)).
    pose proof (Z.mul_succ_div_gt (len + (sc - 1)) sc ltac:(lia)). lia. }
  assert (Hg0 : 0 <= g) by (unfold g; apply Z.div_pos; lia).
  repeat split; try lia.
  (* g <= 255: sc*g <= len + sc - 1 <= 255*q + sc - 1 <= 255*sc + sc - 1 < 256*sc *)
  assert (sc * g < sc * 256) by nia.
  nia.
Qed.
