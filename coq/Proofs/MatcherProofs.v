(* The Matcher of Model/Matcher.v computes exactly the path semantics of the NFA
   (for either way of following empty transitions), and with `Directed` empty
   transitions it implements the language of the pattern. *)
From Coq Require Import ZArith List Bool Lia.
From VC2 Require Import Model.Regex Model.NFA Model.Matcher Proofs.NFAProofs.
Import ListNotations.

Lemma mem_In x l : mem x l = true <-> In x l.
Proof.
  unfold mem. rewrite existsb_exists. split.
  - intros (y & Hy & E). apply Nat.eqb_eq in E. subst; auto.
  - intros H. exists x. split; auto. apply Nat.eqb_refl.
Qed.

Lemma mem_nIn x l : mem x l = false <-> ~ In x l.
Proof.
  rewrite <- mem_In. destruct (mem x l); split; intros H; try congruence.
Qed.

(* ---- reachability by empty transitions -------------------------------------------- *)
Inductive estar (E : list (nat * nat)) : nat -> nat -> Prop :=
| es_refl p : estar E p p
| es_step p q r : In (p, q) E -> estar E q r -> estar E p r.

Lemma estar_trans E p q r : estar E p q -> estar E q r -> estar E p r.
Proof. induction 1; eauto using estar. Qed.

Lemma expand_spec E S0 x :
  In x (expand E S0) <-> In x S0 \/ exists p, In p S0 /\ In (p, x) E.
Proof.
  induction E as [| [p q] E IH]; simpl.
  - split; [auto | intros [H | (p & _ & [])]; auto].
  - destruct (mem p S0 && negb (mem q (expand E S0))) eqn:C.
    + simpl. rewrite IH. apply andb_true_iff in C as [C1 C2]. apply mem_In in C1.
      split.
      * intros [<- | [H | (p' & H1 & H2)]]; eauto 6.
      * intros [H | (p' & H1 & [H2 | H2])]; auto.
        -- inv H2. auto.
        -- right. right. eauto.
    + rewrite IH. split.
      * intros [H | (p' & H1 & H2)]; eauto 6.
      * intros [H | (p' & H1 & [H2 | H2])]; auto.
        -- inv H2. apply mem_In in H1. rewrite H1 in C. simpl in C.
           apply negb_false_iff in C. apply mem_In in C. apply IH in C. exact C.
        -- right. eauto.
Qed.

Lemma expand_app E S0 : exists l, expand E S0 = l ++ S0 /\ forall x, In x l -> ~ In x S0.
Proof.
  induction E as [| [p q] E (l & IH & Hl)]; simpl.
  - exists []. split; auto.
  - destruct (mem p S0 && negb (mem q (expand E S0))) eqn:C.
    + exists (q :: l). rewrite IH. split; auto.
      intros x [<- | Hx]; auto.
      apply andb_true_iff in C as [_ C]. apply negb_true_iff, mem_nIn in C.
      rewrite IH in C. intros Hq. apply C. apply in_or_app. auto.
    + exists l. auto.
Qed.

Definition unseen (n : nat) (S0 : list nat) : nat :=
  length (filter (fun q => negb (mem q S0)) (seq 0 n)).

Lemma filter_len_le {A} (f g : A -> bool) l :
  (forall x, In x l -> f x = true -> g x = true) ->
  length (filter f l) <= length (filter g l).
Proof.
  induction l as [| a l IH]; simpl; intros H; auto.
  assert (IH' := IH (fun x Hx => H x (or_intror Hx))).
  destruct (f a) eqn:Fa.
  - rewrite (H a (or_introl eq_refl) Fa). simpl. lia.
  - destruct (g a); simpl; lia.
Qed.

Lemma filter_len_lt {A} (f g : A -> bool) l :
  (forall x, In x l -> f x = true -> g x = true) ->
  (exists x, In x l /\ f x = false /\ g x = true) ->
  length (filter f l) < length (filter g l).
Proof.
  induction l as [| a l IH]; simpl; intros H (x & Hx & Fx & Gx).
  - destruct Hx.
  - assert (LE := filter_len_le f g l (fun x Hx => H x (or_intror Hx))).
    destruct Hx as [-> | Hx].
    + rewrite Fx, Gx. simpl. lia.
    + assert (IH' := IH (fun x Hx => H x (or_intror Hx)) (ex_intro _ x (conj Hx (conj Fx Gx)))).
      destruct (f a) eqn:Fa.
      * rewrite (H a (or_introl eq_refl) Fa). simpl. lia.
      * destruct (g a); simpl; lia.
Qed.

Lemma unseen_le n S0 : unseen n S0 <= n.
Proof.
  unfold unseen. rewrite <- (seq_length n 0) at 2.
  generalize (seq 0 n). induction l; simpl; auto. destruct (negb (mem a S0)); simpl; lia.
Qed.

Lemma unseen_lt n S0 S1 x :
  incl S0 S1 -> In x S1 -> ~ In x S0 -> x < n -> unseen n S1 < unseen n S0.
Proof.
  intros Hi H1 H0 Hn. unfold unseen. apply filter_len_lt.
  - intros y _ Hy. apply negb_true_iff, mem_nIn in Hy. apply negb_true_iff, mem_nIn. auto.
  - exists x. split; [apply in_seq; lia |]. split.
    + apply negb_false_iff, mem_In. auto.
    + apply negb_true_iff, mem_nIn. auto.
Qed.

Lemma saturate_spec E n : (forall p q, In (p, q) E -> q < n) ->
  forall fuel S0, unseen n S0 < fuel ->
  let R := saturate fuel E S0 in
  incl S0 R /\ (forall p q, In p R -> In (p, q) E -> In q R)
  /\ (forall x, In x R -> exists p, In p S0 /\ estar E p x).
Proof.
  intros WF. induction fuel as [| f IH]; intros S0 Hf; [lia |].
  simpl. destruct (expand_app E S0) as (l & El & Hl).
  destruct (Nat.eqb (length (expand E S0)) (length S0)) eqn:Q.
  - apply Nat.eqb_eq in Q. rewrite El, app_length in Q.
    assert (l = []) by (destruct l; simpl in *; [auto | lia]). subst l. simpl in El.
    split; [apply incl_refl |]. split.
    + intros p q Hp Hq. rewrite <- El. apply expand_spec. eauto.
    + intros x Hx. exists x. split; auto. constructor.
  - apply Nat.eqb_neq in Q. rewrite El, app_length in Q.
    destruct l as [| x l]; [simpl in Q; lia |].
    assert (Hx1 : In x (expand E S0)) by (rewrite El; left; reflexivity).
    assert (Hx0 : ~ In x S0) by (apply Hl; left; reflexivity).
    assert (Hxn : x < n).
    { apply expand_spec in Hx1. destruct Hx1 as [? | (p & _ & Hp)]; [contradiction | eauto]. }
    assert (Hinc : incl S0 (expand E S0)) by (intros y Hy; apply expand_spec; auto).
    assert (Hlt := unseen_lt n S0 (expand E S0) x Hinc Hx1 Hx0 Hxn).
    destruct (IH (expand E S0)) as (I1 & I2 & I3); [lia |].
    split; [eapply incl_tran; eauto |]. split; auto.
    intros y Hy. destruct (I3 y Hy) as (p & Hp & Hs).
    apply expand_spec in Hp. destruct Hp as [Hp | (p0 & Hp0 & Hp)].
    + eauto.
    + exists p0. split; auto. econstructor; eauto.
Qed.

Definition eps_bounded (E : list (nat * nat)) (n : nat) := forall p q, In (p, q) E -> q < n.

Lemma closure_spec mode N S0 x : eps_bounded (eps_of mode N) (n_next N) ->
  In x (closure mode N S0) <-> exists p, In p S0 /\ estar (eps_of mode N) p x.
Proof.
  intros WF. unfold closure.
  destruct (saturate_spec (eps_of mode N) (n_next N) WF (S (n_next N)) S0) as (I1 & I2 & I3).
  { pose proof (unseen_le (n_next N) S0). lia. }
  split; [apply I3 |].
  intros (p & Hp & Hs). apply I1 in Hp. induction Hs; eauto.
Qed.

Lemma eps_bounded_build mode r n : eps_bounded (eps_of mode (build r n)) (n_next (build r n)).
Proof.
  destruct (build_wf r n). unfold in_range in *.
  intros p q H. destruct mode; simpl in H.
  - apply wf_eps in H. lia.
  - apply in_app_or in H. destruct H as [H | H].
    + apply wf_eps in H. lia.
    + apply in_map_iff in H. destruct H as ([a b] & E & H). inv E. apply wf_eps in H. simpl. lia.
Qed.

(* ---- paths again ------------------------------------------------------------------- *)
Lemma path_nil_estar E D p q : path E D p [] q <-> estar E p q.
Proof.
  split.
  - intros H. remember [] as w eqn:Ew. induction H; try discriminate; eauto using estar.
  - induction 1; eauto using path.
Qed.

Lemma path_cons_inv E D p x w r :
  path E D p (x :: w) r <->
  exists p' l q, estar E p p' /\ In (p', l, q) D /\ lmatch l x = true /\ path E D q w r.
Proof.
  split.
  - intros H. remember (x :: w) as xw eqn:Ew. induction H; try discriminate.
    + destruct (IHpath Ew) as (p' & l & q' & S1 & I1 & M1 & P1).
      exists p', l, q'. eauto 6 using estar.
    + inv Ew. exists p, l, q. eauto 6 using estar.
  - intros (p' & l & q & S1 & I1 & M1 & P1).
    induction S1; eauto using path.
Qed.

(* rpath p w q : q is reached from p by w, ending right after the last symbol *)
Inductive rpath (E : list (nat * nat)) (D : list (nat * label * nat)) : nat -> list sym -> nat -> Prop :=
| rp_nil p : rpath E D p [] p
| rp_cons p p' l q s w r : estar E p p' -> In (p', l, q) D -> lmatch l (Real s) = true ->
                           rpath E D q w r -> rpath E D p (s :: w) r.

Lemma rpath_path E D w : forall p u f,
  path E D p (map Real w ++ u) f <-> exists q, rpath E D p w q /\ path E D q u f.
Proof.
  induction w as [| s w IH]; intros p u f; simpl.
  - split.
    + intros H. exists p. split; [constructor | auto].
    + intros (q & R & P). inv R. auto.
  - rewrite path_cons_inv. split.
    + intros (p' & l & q & S1 & I1 & M1 & P1). apply IH in P1. destruct P1 as (q' & R & P).
      exists q'. split; auto. econstructor; eauto.
    + intros (q' & R & P). inv R. exists p', l, q. repeat split; auto. apply IH. eauto.
Qed.

(* ---- the Matcher operations, for either eps_mode ----------------------------------- *)
Lemma targets_spec D C want q :
  In q (targets D C want) <-> exists p l, In (p, l, q) D /\ In p C /\ want l = true.
Proof.
  induction D as [| [[p l] q'] D IH]; simpl.
  - split; [intros [] | intros (p & l & [] & _)].
  - destruct (mem p C && want l && negb (mem q' (targets D C want))) eqn:Cd.
    + simpl. rewrite IH.
      apply andb_true_iff in Cd as [Cd _]. apply andb_true_iff in Cd as [C1 C2]. apply mem_In in C1.
      split.
      * intros [<- | (p0 & l0 & H0 & H1 & H2)]; [exists p, l; auto | exists p0, l0; auto].
      * intros (p0 & l0 & [H0 | H0] & H1 & H2); [inv H0; auto | right; eauto].
    + rewrite IH. split.
      * intros (p0 & l0 & H0 & H1 & H2). exists p0, l0; auto.
      * intros (p0 & l0 & [H0 | H0] & H1 & H2); [| eauto].
        inv H0. apply mem_In in H1. rewrite H1, H2 in Cd. simpl in Cd.
        apply negb_false_iff, mem_In, IH in Cd. exact Cd.
Qed.

Lemma out_labels_spec D C l :
  In l (out_labels D C) <-> exists p q, In (p, l, q) D /\ In p C.
Proof.
  induction D as [| [[p l'] q'] D IH]; simpl.
  - split; [intros [] | intros (p & q & [] & _)].
  - destruct (mem p C) eqn:Cd.
    + simpl. rewrite IH. apply mem_In in Cd. split.
      * intros [<- | (p0 & q0 & H0 & H1)]; [exists p, q'; auto | exists p0, q0; auto].
      * intros (p0 & q0 & [H0 | H0] & H1); [inv H0; auto | right; eauto].
    + rewrite IH. apply mem_nIn in Cd. split.
      * intros (p0 & q0 & H0 & H1). exists p0, q0; auto.
      * intros (p0 & q0 & [H0 | H0] & H1); [inv H0; contradiction | eauto].
Qed.

Section MatcherSpec.
  Variables (mode : eps_mode) (N : nfa).
  Hypothesis WF : eps_bounded (eps_of mode N) (n_next N).
  Let E := eps_of mode N.
  Let D := n_edges N.
  Let M := mkMatcher mode N.

  Lemma m_closure_spec cur x : In x (m_closure (M cur)) <-> exists p, In p cur /\ estar E p x.
  Proof. unfold m_closure; simpl. apply closure_spec. exact WF. Qed.

  Lemma next_states_spec cur s q :
    In q (next_states (M cur) s) <-> exists p, In p cur /\ rpath E D p [s] q.
  Proof.
    unfold next_states. cbn [m_nfa M]. rewrite targets_spec. split.
    - intros (p' & l & H0 & H1 & H2). apply m_closure_spec in H1. destruct H1 as (p & Hp & Hs).
      exists p. split; auto. econstructor; eauto. constructor.
    - intros (p & Hp & R). inv R. inv H6. exists p', l. repeat split; auto.
      apply m_closure_spec. eauto.
  Qed.

  Lemma rpath_snoc p w q s r : rpath E D p w q -> rpath E D q [s] r -> rpath E D p (w ++ [s]) r.
  Proof. induction 1; simpl; intros; eauto using rpath. Qed.

  Lemma rpath_app_inv w1 : forall p w2 r, rpath E D p (w1 ++ w2) r ->
    exists q, rpath E D p w1 q /\ rpath E D q w2 r.
  Proof.
    induction w1 as [| s w1 IH]; simpl; intros p w2 r H.
    - exists p. split; [constructor | auto].
    - inv H. apply IH in H7. destruct H7 as (q' & R1 & R2). exists q'. split; auto.
      econstructor; eauto.
  Qed.

  Lemma feed_from_some w : forall cur m', feed_from (M cur) w = Some m' ->
    exists cur', m' = M cur' /\ (cur <> [] -> cur' <> []) /\
                 forall q, In q cur' <-> exists p, In p cur /\ rpath E D p w q.
  Proof.
    induction w as [| s w IH]; simpl; intros cur m' H.
    - inv H. exists cur. split; auto. split; auto. intros q. split.
      + intros Hq. exists q. split; auto. constructor.
      + intros (p & Hp & R). inv R. auto.
    - unfold match_symbol in H. destruct (next_states (M cur) s) as [| x new] eqn:Nx; [discriminate |].
      cbn [m_mode m_nfa M] in H. apply IH in H. destruct H as (cur' & -> & Hne & Hq).
      exists cur'. split; auto. split.
      + intros _. apply Hne. discriminate.
      + intros q. rewrite Hq. split.
        * intros (p & Hp & R). rewrite <- Nx in Hp. apply next_states_spec in Hp.
          destruct Hp as (p0 & Hp0 & R0). exists p0. split; auto.
          inv R0. inv H6. econstructor; eauto.
        * intros (p & Hp & R). inv R. exists q0. split; auto.
          rewrite <- Nx. apply next_states_spec. exists p. split; auto.
          econstructor; eauto. constructor.
  Qed.

  Lemma feed_from_none w : forall cur, feed_from (M cur) w = None ->
    forall p q, In p cur -> ~ rpath E D p w q.
  Proof.
    induction w as [| s w IH]; simpl; intros cur H p q Hp R.
    - discriminate.
    - unfold match_symbol in H. destruct (next_states (M cur) s) as [| x new] eqn:Nx.
      + inv R. assert (Hq : In q0 (next_states (M cur) s)).
        { apply next_states_spec. exists p. split; auto. econstructor; eauto. constructor. }
        rewrite Nx in Hq. destruct Hq.
      + cbn [m_mode m_nfa M] in H. inv R.
        eapply (IH _ H q0); eauto.
        rewrite <- Nx. apply next_states_spec. exists p. split; auto.
        econstructor; eauto. constructor.
  Qed.

  Lemma is_complete_spec cur :
    is_complete (M cur) = true <->
    exists p, In p cur /\ (estar E p (n_final N) \/ exists p' q, estar E p p' /\ In (p', LEos, q) D).
  Proof.
    unfold is_complete. cbn [m_nfa M]. rewrite orb_true_iff, mem_In, m_closure_spec, existsb_exists.
    split.
    - intros [(p & Hp & Hs) | ([[p' l] q] & Hin & Hc)]; [eauto |].
      apply andb_true_iff in Hc as [Hc Hl]. apply mem_In, m_closure_spec in Hc.
      destruct Hc as (p & Hp & Hs). destruct l; try discriminate. exists p. split; eauto.
    - intros (p & Hp & [Hs | (p' & q & Hs & Hin)]); [left; eauto |].
      right. exists (p', LEos, q). split; auto.
      apply andb_true_iff. split; auto. apply mem_In, m_closure_spec. eauto.
  Qed.

  Lemma valid_next_spec cur l :
    In l (valid_next (M cur)) <->
    (exists p p' q, In p cur /\ estar E p p' /\ In (p', l, q) D)
    \/ (l = LEos /\ is_complete (M cur) = true).
  Proof.
    unfold valid_next. cbn [m_nfa M]. rewrite in_app_iff, out_labels_spec. split.
    - intros [(p' & q & Hin & Hc) | H].
      + apply m_closure_spec in Hc. destruct Hc as (p & Hp & Hs). left. exists p, p', q. auto.
      + destruct (is_complete (M cur)); [| destruct H]. destruct H as [<- | []]. auto.
    - intros [(p & p' & q & Hp & Hs & Hin) | [-> Hc]].
      + left. exists p', q. split; auto. apply m_closure_spec. eauto.
      + right. rewrite Hc. left. reflexivity.
  Qed.
End MatcherSpec.

(* ---- facts about the automaton of a pattern ------------------------------------------ *)
Lemma word_app w v k : word (w ++ v) k = map Real w ++ word v k.
Proof. unfold word. rewrite map_app, app_assoc. reflexivity. Qed.

Lemma word_0 w : word w 0 = map Real w.
Proof. unfold word. simpl. apply app_nil_r. Qed.

Lemma word_plus w k j : word w (k + j) = word w k ++ repeat End j.
Proof. unfold word. rewrite repeat_app, app_assoc. reflexivity. Qed.

Lemma path_snoc_eps E D p u q r : path E D p u q -> In (q, r) E -> path E D p u r.
Proof.
  intros P H. rewrite <- (app_nil_r u). eapply path_app; eauto. eapply path_eps; eauto. constructor.
Qed.

Lemma nullE_ends r : nullE r = true -> exists j, langE r (repeat End j).
Proof.
  induction r; simpl; intros H; try discriminate.
  - exists 0. constructor.
  - exists 1. constructor.
  - apply andb_true_iff in H as [H1 H2].
    destruct (IHr1 H1) as (j1 & L1). destruct (IHr2 H2) as (j2 & L2).
    exists (j1 + j2). rewrite repeat_app. constructor; auto.
  - apply orb_true_iff in H as [H | H].
    + destruct (IHr1 H) as (j & L). exists j. apply LE_altl; auto.
    + destruct (IHr2 H) as (j & L). exists j. apply LE_altr; auto.
  - exists 0. constructor.
Qed.

Ltac lift P := eapply path_mono; [ | | exact P]; incl_tac.

(* every node can still reach the final node, by symbols followed by end markers *)
Lemma good_states r : eos_ok r = true -> forall n q, n <= q < n_next (build r n) ->
  exists v k, npath (build r n) q (word v k) (n_final (build r n)) /\ (k = 0 \/ has_eos r = true).
Proof.
  unfold npath.
  induction r; intros Hok n q Hq.
  - simpl in *. assert (q = n) by lia. subst. exists [], 0. split; [constructor | auto].
  - simpl in *. assert (q = n \/ q = S n) as [-> | ->] by lia.
    + exists [s], 0. split; auto.
      eapply path_step; [left; reflexivity | apply lmatch_sym | constructor].
    + exists [], 0. split; [constructor | auto].
  - simpl in *. assert (q = n \/ q = S n) as [-> | ->] by lia.
    + exists [0%Z], 0. split; auto.
      eapply path_step; [left; reflexivity | reflexivity | constructor].
    + exists [], 0. split; [constructor | auto].
  - simpl in *. assert (q = n \/ q = S n) as [-> | ->] by lia.
    + exists [], 1. split; auto.
      eapply path_step; [left; reflexivity | reflexivity | constructor].
    + exists [], 0. split; [constructor | auto].
  - cbn [eos_ok] in Hok. apply andb_true_iff in Hok as [Hok Hc]. apply andb_true_iff in Hok as [Ok1 Ok2].
    cbn [build n_eps n_edges n_start n_final n_next has_eos] in *.
    set (A := build r1 n) in *. set (B := build r2 (n_next A)) in *.
    pose proof (build_wf r1 n) as WA. pose proof (build_wf r2 (n_next A)) as WB.
    fold A in WA. fold B in WB. destruct WA, WB. unfold in_range in *.
    destruct (Nat.lt_ge_cases q (n_next A)) as [HA | HB].
    + destruct (IHr1 Ok1 n q) as (v & k & PA & Hk); [fold A; lia |]. fold A in PA.
      destruct Hk as [-> | He].
      * destruct (IHr2 Ok2 (n_next A) (n_start B)) as (v' & k' & PB & Hk'); [fold B; lia |]. fold B in PB.
        exists (v ++ v'), k'. split.
        -- rewrite word_app. rewrite word_0 in PA.
           eapply path_app; [lift PA |]. eapply path_eps; [left; reflexivity |]. lift PB.
        -- destruct Hk' as [-> | ->]; auto. right. apply orb_true_r.
      * rewrite He in Hc. simpl in Hc. destruct (nullE_ends r2 Hc) as (j & Lj).
        pose proof (build_complete r2 (n_next A) _ Lj) as PB. fold B in PB. unfold npath in PB.
        exists v, (k + j). split; [| right; rewrite He; reflexivity].
        rewrite word_plus.
        eapply path_app; [lift PA |]. eapply path_eps; [left; reflexivity |]. lift PB.
    + destruct (IHr2 Ok2 (n_next A) q) as (v & k & PB & Hk); [fold B; lia |]. fold B in PB.
      exists v, k. split; [lift PB |].
      destruct Hk as [-> | ->]; auto. right. apply orb_true_r.
  - cbn [eos_ok] in Hok. apply andb_true_iff in Hok as [Ok1 Ok2].
    cbn [build n_eps n_edges n_start n_final n_next has_eos] in *.
    set (A := build r1 (S (S n))) in *. set (B := build r2 (n_next A)) in *.
    pose proof (build_wf r1 (S (S n))) as WA. pose proof (build_wf r2 (n_next A)) as WB.
    fold A in WA. fold B in WB. destruct WA, WB. unfold in_range in *.
    assert (GA : forall q, S (S n) <= q < n_next A -> exists v k,
      path ((n, n_start A) :: (n, n_start B) :: (n_final A, S n) :: (n_final B, S n) :: n_eps A ++ n_eps B)
           (n_edges A ++ n_edges B) q (word v k) (S n) /\ (k = 0 \/ has_eos r1 || has_eos r2 = true)).
    { intros q' Hq'. destruct (IHr1 Ok1 (S (S n)) q') as (v & k & PA & Hk); [fold A; lia |]. fold A in PA.
      exists v, k. split.
      - eapply path_snoc_eps; [lift PA | right; right; left; reflexivity].
      - destruct Hk as [-> | ->]; auto. }
    destruct (Nat.eq_dec q n) as [-> | Hn]; [| destruct (Nat.eq_dec q (S n)) as [-> | Hn']].
    + destruct (GA (n_start A)) as (v & k & P & Hk); [lia |].
      exists v, k. split; auto. eapply path_eps; [left; reflexivity | exact P].
    + exists [], 0. split; [constructor | auto].
    + destruct (Nat.lt_ge_cases q (n_next A)) as [HA | HB].
      * apply GA. lia.
      * destruct (IHr2 Ok2 (n_next A) q) as (v & k & PB & Hk); [fold B; lia |]. fold B in PB.
        exists v, k. split.
        -- eapply path_snoc_eps; [lift PB | right; right; right; left; reflexivity].
        -- destruct Hk as [-> | ->]; auto. right. apply orb_true_r.
  - cbn [eos_ok] in Hok.
    cbn [build n_eps n_edges n_start n_final n_next has_eos] in *.
    set (A := build r (S (S n))) in *.
    pose proof (build_wf r (S (S n))) as WA. fold A in WA. destruct WA. unfold in_range in *.
    destruct (Nat.eq_dec q n) as [-> | Hn]; [| destruct (Nat.eq_dec q (S n)) as [-> | Hn']].
    + exists [], 0. split; auto. eapply path_eps; [left; reflexivity | constructor].
    + exists [], 0. split; [constructor | auto].
    + destruct (IHr Hok (S (S n)) q) as (v & k & PA & Hk); [fold A; lia |]. fold A in PA.
      exists v, k. split; auto.
      eapply path_snoc_eps; [lift PA | right; right; right; left; reflexivity].
Qed.

Lemma eos_edge_has_eos r : forall n p q, In (p, LEos, q) (n_edges (build r n)) -> has_eos r = true.
Proof.
  induction r; intros n p q H; simpl in *; in_cases; auto.
  - erewrite IHr1; eauto.
  - erewrite IHr2; eauto. apply orb_true_r.
  - erewrite IHr1; eauto.
  - erewrite IHr2; eauto. apply orb_true_r.
  - eauto.
Qed.

(* after a `$` transition the final node is reachable by end markers only *)
Lemma eos_edge_tail r : eos_ok r = true -> forall n p q, In (p, LEos, q) (n_edges (build r n)) ->
  exists j, npath (build r n) q (repeat End j) (n_final (build r n)).
Proof.
  unfold npath.
  induction r; intros Hok n p q H.
  - destruct H.
  - simpl in H. in_cases.
  - simpl in H. in_cases.
  - simpl in H. in_cases. exists 0. constructor.
  - cbn [eos_ok] in Hok. apply andb_true_iff in Hok as [Hok Hc]. apply andb_true_iff in Hok as [Ok1 Ok2].
    cbn [build n_eps n_edges n_start n_final n_next] in *.
    set (A := build r1 n) in *. set (B := build r2 (n_next A)) in *.
    in_cases.
    + destruct (IHr1 Ok1 n p q H) as (j1 & PA). fold A in PA.
      apply eos_edge_has_eos in H. rewrite H in Hc. simpl in Hc.
      destruct (nullE_ends r2 Hc) as (j2 & Lj).
      pose proof (build_complete r2 (n_next A) _ Lj) as PB. fold B in PB. unfold npath in PB.
      exists (j1 + j2). rewrite repeat_app.
      eapply path_app; [lift PA |]. eapply path_eps; [left; reflexivity |]. lift PB.
    + destruct (IHr2 Ok2 _ p q H) as (j & PB). fold B in PB. exists j. lift PB.
  - cbn [eos_ok] in Hok. apply andb_true_iff in Hok as [Ok1 Ok2].
    cbn [build n_eps n_edges n_start n_final n_next] in *.
    set (A := build r1 (S (S n))) in *. set (B := build r2 (n_next A)) in *.
    in_cases.
    + destruct (IHr1 Ok1 _ p q H) as (j & PA). fold A in PA. exists j.
      eapply path_snoc_eps; [lift PA | right; right; left; reflexivity].
    + destruct (IHr2 Ok2 _ p q H) as (j & PB). fold B in PB. exists j.
      eapply path_snoc_eps; [lift PB | right; right; right; left; reflexivity].
  - cbn [eos_ok] in Hok.
    cbn [build n_eps n_edges n_start n_final n_next] in *.
    set (A := build r (S (S n))) in *.
    destruct (IHr Hok _ p q H) as (j & PA). fold A in PA. exists j.
    eapply path_snoc_eps; [lift PA | right; right; right; left; reflexivity].
Qed.

(* the symbols on the transitions are those of the pattern *)
Fixpoint maxsym (r : re) : Z :=
  match r with
  | Sym s => s
  | Cat a b | Alt a b => Z.max (maxsym a) (maxsym b)
  | Star a => maxsym a
  | _ => 0%Z
  end.

Lemma edge_sym_le r : forall n p s q, In (p, LSym s, q) (n_edges (build r n)) -> (s <= maxsym r)%Z.
Proof.
  induction r; intros n p s0 q H; simpl in *; in_cases; try lia.
  - apply IHr1 in H. lia.
  - apply IHr2 in H. lia.
  - apply IHr1 in H. lia.
  - apply IHr2 in H. lia.
  - eauto.
Qed.

Lemma rpath_range r n p w q :
  rpath (n_eps (build r n)) (n_edges (build r n)) p w q ->
  n <= p < n_next (build r n) -> n <= q < n_next (build r n).
Proof.
  destruct (build_wf r n) as [_ _ _ _ We _ _]. unfold in_range in *.
  induction 1; intros; auto. apply IHrpath. apply We in H0. lia.
Qed.

(* ---- the Matcher against the language ------------------------------------------------- *)
Section Main.
  Variable r : re.
  Let N := from_ast r.

  Lemma WFm mode : eps_bounded (eps_of mode N) (n_next N).
  Proof. apply eps_bounded_build. Qed.

  Lemma feed_alive mode w :
    feed mode r w <> None <-> exists q, rpath (eps_of mode N) (n_edges N) (n_start N) w q.
  Proof.
    unfold feed, new_matcher. fold N. split.
    - destruct (feed_from _ w) as [m |] eqn:F; [intros _ | congruence].
      apply (feed_from_some mode N (WFm mode)) in F. destruct F as (cur' & _ & Hne & Hq).
      destruct cur' as [| q cur']; [exfalso; apply Hne; [discriminate | reflexivity] |].
      destruct (proj1 (Hq q) (or_introl eq_refl)) as (p & [<- | []] & R). eauto.
    - intros (q & R) F. eapply (feed_from_none mode N (WFm mode)); eauto. left. reflexivity.
  Qed.

  Lemma feed_cur mode w m : feed mode r w = Some m ->
    m_mode m = mode /\ m_nfa m = N /\
    forall q, In q (m_cur m) <-> rpath (eps_of mode N) (n_edges N) (n_start N) w q.
  Proof.
    unfold feed, new_matcher. fold N. intros F.
    apply (feed_from_some mode N (WFm mode)) in F. destruct F as (cur' & -> & _ & Hq).
    split; auto. split; auto. intros q. rewrite Hq. split.
    - intros (p & [<- | []] & R). auto.
    - intros R. exists (n_start N). split; auto. left. reflexivity.
  Qed.

  Lemma matcher_eta m : m = mkMatcher (m_mode m) (m_nfa m) (m_cur m).
  Proof. destruct m; reflexivity. Qed.

  (* language -> Matcher, for either mode (the Symmetric code over-approximates) *)
  Lemma lang_prefix_alive mode w v : lang r (w ++ v) -> feed mode r w <> None.
  Proof.
    intros (k & L). apply feed_alive.
    apply (thompson_correct r) in L. fold N in L. rewrite word_app in L.
    assert (L' : path (eps_of mode N) (n_edges N) (n_start N) (map Real w ++ word v k) (n_final N)).
    { eapply path_mono; [ | apply incl_refl | exact L]. destruct mode; simpl; [apply incl_refl | apply incl_appl, incl_refl]. }
    apply rpath_path in L'. destruct L' as (q & R & _). eauto.
  Qed.

  Lemma lang_complete mode w m : feed mode r w = Some m -> lang r w -> is_complete m = true.
  Proof.
    intros F (k & L). apply feed_cur in F. destruct F as (Em & En & Hq).
    rewrite (matcher_eta m), Em, En. apply (is_complete_spec mode N (WFm mode)).
    apply (thompson_correct r) in L. fold N in L. unfold word in L.
    assert (L' : path (eps_of mode N) (n_edges N) (n_start N) (map Real w ++ repeat End k) (n_final N)).
    { eapply path_mono; [ | apply incl_refl | exact L]. destruct mode; simpl; [apply incl_refl | apply incl_appl, incl_refl]. }
    apply rpath_path in L'. destruct L' as (q & R & P).
    exists q. split; [apply Hq; auto |].
    destruct k as [| k]; simpl in P.
    - left. apply path_nil_estar in P. auto.
    - right. apply path_cons_inv in P. destruct P as (p' & l & q' & S1 & I1 & M1 & _).
      destruct l; try discriminate. eauto.
  Qed.

  Hypothesis Hok : eos_ok r = true.

  Theorem accepts_iff_viable_prefix w :
    feed Directed r w <> None <-> exists v, lang r (w ++ v).
  Proof.
    split.
    - intros H. apply feed_alive in H. destruct H as (q & R). simpl in R.
      assert (Hq : 0 <= q < n_next N).
      { apply (rpath_range r 0 _ _ _ R). destruct (build_wf r 0) as [_ ? _ _ _ _ _]. exact wf_start. }
      destruct (good_states r Hok 0 q Hq) as (v & k & P & _). fold (from_ast r) in P. fold N in P.
      exists v, k. apply thompson_correct. fold N. rewrite word_app.
      apply rpath_path. eauto.
    - intros (v & L). eapply lang_prefix_alive; eauto.
  Qed.

  Theorem complete_iff_match w m :
    feed Directed r w = Some m -> (is_complete m = true <-> lang r w).
  Proof.
    intros F. split; [| apply (lang_complete Directed w m F)].
    intros C. apply feed_cur in F. destruct F as (Em & En & Hq).
    rewrite (matcher_eta m), Em, En in C. apply (is_complete_spec Directed N (WFm Directed)) in C.
    destruct C as (p & Hp & C). apply Hq in Hp. simpl in Hp, C.
    destruct C as [S1 | (p' & q & S1 & I1)].
    - exists 0. apply thompson_correct. fold N. unfold word. apply rpath_path.
      exists p. split; auto. apply path_nil_estar. auto.
    - destruct (eos_edge_tail r Hok 0 p' q I1) as (j & P). fold (from_ast r) in P. fold N in P.
      exists (S j). apply thompson_correct. fold N. unfold word. apply rpath_path.
      exists p. split; auto. simpl. apply path_cons_inv. exists p', LEos, q. auto.
  Qed.
End Main.

Section ValidNext.
  Variable r : re.
  Let N := from_ast r.
  Hypothesis Hok : eos_ok r = true.

  (* what valid_next_symbols() lists, in terms of the automaton *)
  Lemma valid_next_edges w m l : feed Directed r w = Some m ->
    (In l (valid_next m) <->
     (exists p p' q, rpath (n_eps N) (n_edges N) (n_start N) w p /\ estar (n_eps N) p p' /\ In (p', l, q) (n_edges N))
     \/ (l = LEos /\ is_complete m = true)).
  Proof.
    intros F. apply feed_cur in F. fold N in F. destruct F as (Em & En & Hq).
    rewrite (matcher_eta m), Em, En. rewrite (valid_next_spec Directed N (WFm r Directed)). simpl.
    split; (intros [(p & p' & q & H1 & H2 & H3) | H]; [left | right; auto]);
      exists p, p', q; repeat split; auto; apply Hq; auto.
  Qed.

  Lemma edge_continues w p p' l q x :
    rpath (n_eps N) (n_edges N) (n_start N) w p -> estar (n_eps N) p p' -> In (p', l, q) (n_edges N) ->
    lmatch l (Real x) = true -> exists v, lang r (w ++ x :: v).
  Proof.
    intros R S1 I1 M1.
    assert (Hq : 0 <= q < n_next N).
    { destruct (build_wf r 0) as [_ _ _ _ We _ _]. apply We in I1. exact (proj2 I1). }
    destruct (good_states r Hok 0 q Hq) as (v & k & P & _). fold (from_ast r) in P. fold N in P.
    exists v, k. apply thompson_correct. fold N. rewrite word_app. apply rpath_path.
    exists p. split; auto. change (word (x :: v) k) with (Real x :: word v k).
    apply path_cons_inv. exists p', l, q. auto.
  Qed.

  (* a listed symbol keeps a match possible *)
  Theorem valid_next_sym_sound w m s : feed Directed r w = Some m ->
    In (LSym s) (valid_next m) -> exists v, lang r (w ++ s :: v).
  Proof.
    intros F H. apply (valid_next_edges w m _ F) in H.
    destruct H as [(p & p' & q & R & S1 & I1) | [E _]]; [| discriminate].
    eapply edge_continues; eauto. apply lmatch_sym.
  Qed.

  (* WILDCARD listed -> every symbol keeps a match possible *)
  Theorem valid_next_any_sound w m : feed Directed r w = Some m ->
    In LAny (valid_next m) -> forall s, exists v, lang r (w ++ s :: v).
  Proof.
    intros F H s. apply (valid_next_edges w m _ F) in H.
    destruct H as [(p & p' & q & R & S1 & I1) | [E _]]; [| discriminate].
    eapply edge_continues; eauto.
  Qed.

  (* every symbol that keeps a match possible is listed, itself or as WILDCARD *)
  Theorem valid_next_complete w m s : feed Directed r w = Some m ->
    (exists v, lang r (w ++ s :: v)) -> In (LSym s) (valid_next m) \/ In LAny (valid_next m).
  Proof.
    intros F (v & k & L).
    apply thompson_correct in L. fold N in L. rewrite word_app in L.
    apply rpath_path in L. destruct L as (p & R & P).
    change (word (s :: v) k) with (Real s :: word v k) in P.
    apply path_cons_inv in P. destruct P as (p' & l & q & S1 & I1 & M1 & _).
    destruct l as [t | |]; simpl in M1; try discriminate.
    - apply Z.eqb_eq in M1. subst t. left. apply (valid_next_edges w m _ F). left. eauto 6.
    - right. apply (valid_next_edges w m _ F). left. eauto 6.
  Qed.

  (* WILDCARD is listed exactly when every symbol keeps a match possible *)
  Theorem valid_next_any_iff w m : feed Directed r w = Some m ->
    (In LAny (valid_next m) <-> forall s, exists v, lang r (w ++ s :: v)).
  Proof.
    intros F. split; [apply valid_next_any_sound; auto |].
    intros H. destruct (valid_next_complete w m (maxsym r + 1)%Z F (H _)) as [Hs | Ha]; auto.
    apply (valid_next_edges w m _ F) in Hs.
    destruct Hs as [(p & p' & q & _ & _ & I1) | [E _]]; [| discriminate].
    apply edge_sym_le in I1. lia.
  Qed.

  (* a symbol keeps a match possible exactly when it or WILDCARD is listed *)
  Theorem valid_next_sym_iff w m s : feed Directed r w = Some m ->
    (In (LSym s) (valid_next m) \/ In LAny (valid_next m) <-> exists v, lang r (w ++ s :: v)).
  Proof.
    intros F. split; [| apply valid_next_complete; auto].
    intros [H | H]; [eapply valid_next_sym_sound; eauto | eapply valid_next_any_sound; eauto].
  Qed.

  (* END_OF_SEQUENCE is listed exactly when the sequence so far matches *)
  Theorem valid_next_eos_iff w m : feed Directed r w = Some m ->
    (In LEos (valid_next m) <-> lang r w).
  Proof.
    intros F. rewrite <- (complete_iff_match r Hok w m F). rewrite (valid_next_edges w m _ F).
    split; [| auto].
    intros [(p & p' & q & R & S1 & I1) | [_ C]]; auto.
    pose proof (feed_cur r Directed w m F) as (Em & En & Hq).
    rewrite (matcher_eta m), Em, En. apply (is_complete_spec Directed (from_ast r) (WFm r Directed)).
    exists p. split; [apply Hq; auto |]. right. eauto.
  Qed.
End ValidNext.

(* ---- the pinned code (Symmetric) -------------------------------------------------- *)
Definition ex_opt_a_then_b : re := Cat (Alt (Sym 1%Z) Empty) (Sym 2%Z).   (* a? b *)

Lemma refuted_symmetric :
  exists r w, eos_ok r = true /\ feed Symmetric r w <> None /\ ~ exists v, lang r (w ++ v).
Proof.
  exists ex_opt_a_then_b, [1%Z; 1%Z]. split; [reflexivity |]. split.
  - vm_compute. discriminate.
  - intros H. apply (accepts_iff_viable_prefix ex_opt_a_then_b eq_refl) in H.
    apply H. vm_compute. reflexivity.
Qed.

(* without the hypothesis on `$` the code's is_complete is wrong: `$ a` *)
Lemma eos_hypothesis_needed :
  exists r m, eos_ok r = false /\ feed Directed r [] = Some m /\ is_complete m = true /\ ~ lang r [].
Proof.
  exists (Cat Eos (Sym 1%Z)), (new_matcher Directed (Cat Eos (Sym 1%Z))).
  split; [reflexivity |]. split; [reflexivity |]. split; [vm_compute; reflexivity |].
  intros (k & L). unfold word in L. simpl in L.
  inversion L as [ | | | | a b u v La Lb E1 E2 | | | | ]; subst.
  inv La. inv Lb. simpl in E2. destruct k as [| [| k]]; simpl in E2; discriminate.
Qed.

(* ---- match_symbol, one symbol at a time --------------------------------------------- *)
Lemma feed_from_app w1 : forall m w2,
  feed_from m (w1 ++ w2) = match feed_from m w1 with Some m' => feed_from m' w2 | None => None end.
Proof.
  induction w1 as [| s w1 IH]; simpl; intros m w2; auto.
  destruct (match_symbol m s) as [[|] m']; auto.
Qed.

Lemma feed_snoc mode r w s m : feed mode r w = Some m ->
  feed mode r (w ++ [s]) = (if fst (match_symbol m s) then Some (snd (match_symbol m s)) else None).
Proof.
  unfold feed. intros F. rewrite feed_from_app, F. simpl.
  destruct (match_symbol m s) as [[|] m']; reflexivity.
Qed.

Lemma match_symbol_rejected m s : fst (match_symbol m s) = false -> snd (match_symbol m s) = m.
Proof. unfold match_symbol. destruct (next_states m s); simpl; [auto | discriminate]. Qed.

Theorem match_symbol_iff r w m s : eos_ok r = true -> feed Directed r w = Some m ->
  (fst (match_symbol m s) = true <-> exists v, lang r (w ++ s :: v)).
Proof.
  intros Hok F.
  assert (E : forall v, w ++ s :: v = (w ++ [s]) ++ v) by (intros; rewrite <- app_assoc; reflexivity).
  split.
  - intros H. destruct (proj1 (accepts_iff_viable_prefix r Hok (w ++ [s]))) as (v & L).
    + rewrite (feed_snoc _ _ _ _ _ F), H. discriminate.
    + exists v. rewrite E. auto.
  - intros (v & L). rewrite E in L.
    pose proof (proj2 (accepts_iff_viable_prefix r Hok (w ++ [s])) (ex_intro _ v L)) as H.
    rewrite (feed_snoc _ _ _ _ _ F) in H. destruct (fst (match_symbol m s)); congruence.
Qed.
