From Coq Require Import ZArith List Bool Lia.
From VC2 Require Import Model.Cli.
Import ListNotations.
Open Scope Z_scope.

Section Files.
Context {pic name : Type}.
Variable fmt : Z -> name.

Lemma fold_output (pics : list pic) : forall i acc,
  fold_left (output_picture fmt) pics (i, acc)
  = (i + Z.of_nat (length pics), rev (numbered_from fmt i pics) ++ acc).
Proof.
  induction pics as [|p r IH]; intros i acc.
  - cbn. f_equal. lia.
  - cbn [fold_left]. unfold output_picture at 2. cbn [fst snd].
    rewrite IH. cbn [numbered_from rev length]. rewrite <- app_assoc. cbn [app].
    f_equal. lia.
Qed.

Theorem files_written_numbered (pics : list pic) :
  files_written fmt pics = numbered_from fmt 0 pics.
Proof.
  unfold files_written, cb_init. rewrite fold_output. cbn [snd].
  rewrite app_nil_r, rev_involutive. reflexivity.
Qed.

Lemma numbered_length (pics : list pic) i : length (numbered_from fmt i pics) = length pics.
Proof. revert i. induction pics as [|p r IH]; intros i; cbn; [reflexivity|]. rewrite IH. reflexivity. Qed.

Lemma numbered_nth (pics : list pic) : forall i k p,
  nth_error pics k = Some p -> nth_error (numbered_from fmt i pics) k = Some (fmt (i + Z.of_nat k), p).
Proof.
  induction pics as [|q r IH]; intros i k p H.
  - destruct k; discriminate.
  - destruct k as [|k].
    + cbn in *. inversion H. subst. rewrite Z.add_0_r. reflexivity.
    + cbn [nth_error numbered_from] in *. rewrite (IH (i + 1) k p H). replace (i + Z.of_nat (S k)) with (i + 1 + Z.of_nat k) by lia. reflexivity.
Qed.

(* no file is written twice when the pattern is injective on indices *)
Lemma numbered_names_from (pics : list pic) : forall i nm p,
  In (nm, p) (numbered_from fmt i pics) -> exists k, i <= k < i + Z.of_nat (length pics) /\ nm = fmt k.
Proof.
  induction pics as [|q r IH]; intros i nm p H; cbn in H; [contradiction|].
  destruct H as [H|H].
  - inversion H. subst. exists i. cbn [length]. split; [lia|reflexivity].
  - destruct (IH _ _ _ H) as (k & Hk & He). exists k. cbn [length]. split; [lia|exact He].
Qed.

Theorem numbered_nodup (pics : list pic) i :
  (forall a b, fmt a = fmt b -> a = b) -> NoDup (map fst (numbered_from fmt i pics)).
Proof.
  intros Hinj. revert i. induction pics as [|q r IH]; intros i; cbn; constructor.
  - intros Hin. apply in_map_iff in Hin. destruct Hin as ((nm, p) & He & Hin). cbn in He. subst nm.
    destruct (numbered_names_from _ _ _ _ Hin) as (k & Hk & He). apply Hinj in He. lia.
  - apply IH.
Qed.
End Files.

Theorem validator_exit0_iff o : validator_exit o = 0 <-> o = VAccept.
Proof. destruct o; cbn; split; intros H; try discriminate; reflexivity. Qed.

Theorem validator_exit2_iff o : validator_exit o = 2 <-> o = VConformanceError.
Proof. destruct o; cbn; split; intros H; try discriminate; reflexivity. Qed.

Theorem validator_never_internal o : o <> VOtherException -> validator_exit o <> 3.
Proof. destruct o; cbn; intros H; try discriminate. contradiction. Qed.

Theorem viewer_internal_iff o : viewer_exit o = 255 <-> o = WViewerException.
Proof. destruct o; cbn; split; intros H; try discriminate; reflexivity. Qed.

Theorem viewer_status_set o : o <> WViewerException -> In (viewer_exit o) [0; 1; 2; 3; 4].
Proof. destruct o; cbn; intros H; try contradiction; tauto. Qed.

(* an exception whose innermost relevant frame is in bitstream/vc2.py is never classed internal *)
Theorem not_internal_when_last_frame_in_vc2 pre post :
  (forall f, In f post -> f = FOther) -> is_internal_error (pre ++ FVc2 :: post) = false.
Proof.
  intros Hpost. unfold is_internal_error. rewrite fold_left_app. cbn [fold_left].
  generalize (fold_left (fun acc f => match f with FViewer => true | FVc2 => false | FOther => acc end) pre false).
  intros _. induction post as [|f r IH]; [reflexivity|].
  cbn [fold_left]. rewrite (Hpost f (or_introl eq_refl)). apply IH. intros g Hg. apply Hpost. right. exact Hg.
Qed.
