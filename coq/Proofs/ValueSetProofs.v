(* Proofs about Model/ValueSet.v (property C17). *)
From Coq Require Import ZArith List Bool Lia ZifyBool Permutation.
From VC2 Require Import Model.ValueSet.
Import ListNotations.
Open Scope Z_scope.

(* ---- membership helpers ------------------------------------------------------- *)
Lemma zmem_In v l : zmem v l = true <-> In v l.
Proof.
  unfold zmem. rewrite existsb_exists. split.
  - intros [x [Hin He]]. apply Z.eqb_eq in He. subst. exact Hin.
  - intros Hin. exists v. split; [exact Hin|apply Z.eqb_refl].
Qed.

Lemma pair_eqb_eq a b : pair_eqb a b = true <-> a = b.
Proof.
  unfold pair_eqb. destruct a as [a1 a2], b as [b1 b2]. cbn [fst snd].
  rewrite andb_true_iff, !Z.eqb_eq. split; [intros [-> ->]; reflexivity|intros H; inversion H; auto].
Qed.

Lemma rmem_In r l : rmem r l = true <-> In r l.
Proof.
  unfold rmem. rewrite existsb_exists. split.
  - intros [x [Hin He]]. apply pair_eqb_eq in He. subst. exact Hin.
  - intros Hin. exists r. split; [exact Hin|apply pair_eqb_eq; reflexivity].
Qed.

Lemma in_range_spec v r : in_range v r = true <-> fst r <= v <= snd r.
Proof. unfold in_range. lia. Qed.

Definition in_ranges (v : Z) (rs : list (Z * Z)) : Prop := exists r, In r rs /\ fst r <= v <= snd r.

Lemma existsb_in_ranges v rs : existsb (in_range v) rs = true <-> in_ranges v rs.
Proof.
  rewrite existsb_exists. unfold in_ranges.
  split; intros [r [Hin H]]; exists r; (split; [exact Hin|apply in_range_spec; exact H]).
Qed.

Lemma st_contains_spec s v :
  st_contains s v = true <-> In v (vs_values s) \/ in_ranges v (vs_ranges s).
Proof. unfold st_contains. rewrite orb_true_iff, zmem_In, existsb_in_ranges. reflexivity. Qed.

Lemma in_ranges_cons v r rs : in_ranges v (r :: rs) <-> fst r <= v <= snd r \/ in_ranges v rs.
Proof.
  unfold in_ranges. split.
  - intros [r' [[-> | Hin] H]]; [left; exact H|right; exists r'; auto].
  - intros [H|[r' [Hin H]]]; [exists r; split; [left; reflexivity|exact H]|exists r'; split; [right; exact Hin|exact H]].
Qed.

Lemma in_ranges_nil v : in_ranges v [] <-> False.
Proof. unfold in_ranges. split; [intros [r [H _]]; destruct H|intros H; destruct H]. Qed.

(* ---- add_value ------------------------------------------------------------------ *)
Lemma add_value_sem s x v :
  st_contains (add_value s x) v = true <-> st_contains s v = true \/ v = x.
Proof.
  unfold add_value. destruct (st_contains s x) eqn:E.
  - split; [auto|]. intros [H | ->]; assumption.
  - rewrite !st_contains_spec. cbn [vs_values vs_ranges]. cbn [In]. intuition.
Qed.

(* ---- add_range: the single merging pass ---------------------------------------- *)
Lemma merge_pass_sem rs : forall lo hi l h kept v,
  merge_pass rs lo hi = (l, h, kept) ->
  (l <= v <= h \/ in_ranges v kept) <-> (lo <= v <= hi \/ in_ranges v rs).
Proof.
  induction rs as [|[ol oh] rest IH]; intros lo hi l h kept v Hm; cbn [merge_pass] in Hm.
  - inversion Hm; subst. reflexivity.
  - destruct ((lo <=? oh) && (ol <=? hi)) eqn:E.
    + rewrite (IH _ _ _ _ _ v Hm), in_ranges_cons. cbn [fst snd].
      assert (Ha : Z.min lo ol <= v <= Z.max hi oh <-> (lo <= v <= hi \/ ol <= v <= oh)) by lia.
      tauto.
    + destruct (merge_pass rest lo hi) as [[l' h'] k'] eqn:E2. inversion Hm; subst.
      rewrite !in_ranges_cons. cbn [fst snd]. specialize (IH _ _ _ _ _ v E2). tauto.
Qed.

Lemma range_set_add_sem r l v : in_ranges v (range_set_add r l) <-> fst r <= v <= snd r \/ in_ranges v l.
Proof.
  unfold range_set_add. destruct (rmem r l) eqn:E.
  - apply rmem_In in E. split; [auto|]. intros [H|H]; [exists r; auto|exact H].
  - apply in_ranges_cons.
Qed.

Lemma add_range_sem s lo hi v :
  st_contains (add_range s lo hi) v = true <-> st_contains s v = true \/ lo <= v <= hi.
Proof.
  unfold add_range. destruct (merge_pass (vs_ranges s) lo hi) as [[l h] kept] eqn:E.
  rewrite !st_contains_spec. cbn [vs_values vs_ranges].
  rewrite range_set_add_sem. cbn [fst snd]. rewrite filter_In.
  pose proof (merge_pass_sem _ _ _ _ _ _ v E) as Hm.
  destruct (Z_le_dec lo v), (Z_le_dec v hi); try (assert (Hn : negb ((lo <=? v) && (v <=? hi)) = true) by lia; rewrite Hn); tauto || (assert (Hn : negb ((lo <=? v) && (v <=? hi)) = false) by lia; rewrite Hn; intuition (try discriminate; try lia)).
Qed.

(* ---- folds, union --------------------------------------------------------------- *)
Lemma fold_add_value_sem l : forall s v,
  st_contains (fold_left add_value l s) v = true <-> st_contains s v = true \/ In v l.
Proof.
  induction l as [|x l IH]; intros s v; cbn [fold_left In].
  - tauto.
  - rewrite IH, add_value_sem. intuition.
Qed.

Lemma fold_add_range_sem l : forall s v,
  st_contains (fold_left (fun s r => add_range s (fst r) (snd r)) l s) v = true
  <-> st_contains s v = true \/ in_ranges v l.
Proof.
  induction l as [|r l IH]; intros s v; cbn [fold_left].
  - rewrite in_ranges_nil. tauto.
  - rewrite IH, add_range_sem, in_ranges_cons. tauto.
Qed.

Lemma st_contains_empty v : st_contains vs_empty v = false.
Proof. reflexivity. Qed.

Lemma st_union_sem a b v :
  st_contains (st_union a b) v = true <-> st_contains a v = true \/ st_contains b v = true.
Proof.
  unfold st_union. rewrite !fold_add_range_sem, !fold_add_value_sem, st_contains_empty.
  rewrite !st_contains_spec. intuition discriminate.
Qed.

Lemma union_sem a b v : contains (union a b) v = contains a v || contains b v.
Proof.
  destruct a as [sa|], b as [sb|]; cbn [union contains]; try reflexivity.
  - apply eq_true_iff_eq. rewrite orb_true_iff. apply st_union_sem.
  - rewrite orb_true_r. reflexivity.
Qed.

Lemma union_any a b : union a b = Any <-> a = Any \/ b = Any.
Proof. destruct a, b; cbn [union]; intuition discriminate. Qed.

(* ---- reachable states, for EVERY iteration order of the two Python sets -------- *)
Definition st_perm (s s' : vstate) : Prop :=
  Permutation (vs_values s) (vs_values s') /\ Permutation (vs_ranges s) (vs_ranges s').

Inductive vs_perm : vset -> vset -> Prop :=
| vp_any : vs_perm Any Any
| vp_vs s s' : st_perm s s' -> vs_perm (VS s) (VS s').

Lemma st_contains_perm s s' v : st_perm s s' -> st_contains s v = st_contains s' v.
Proof.
  intros [Hv Hr]. apply eq_true_iff_eq. rewrite !st_contains_spec. unfold in_ranges.
  split; (intros [H|[r [Hin H]]]; [left|right; exists r; split; [|exact H]]).
  - eapply Permutation_in; eauto.
  - eapply Permutation_in; eauto.
  - eapply Permutation_in; [apply Permutation_sym|]; eauto.
  - eapply Permutation_in; [apply Permutation_sym|]; eauto.
Qed.

Lemma contains_perm a a' v : vs_perm a a' -> contains a v = contains a' v.
Proof. intros [|s s' H]; [reflexivity|apply st_contains_perm; exact H]. Qed.

(* `builds e a` : evaluating the operation sequence e can leave the object in state a,
   for some iteration order of the sets at every step *)
Inductive builds : vexpr -> vset -> Prop :=
| b_empty : builds EEmpty (VS vs_empty)
| b_any : builds EAny Any
| b_addv e a v : builds e a -> builds (EAddV e v) (add_value_vs a v)
| b_addr e a lo hi : builds e a -> builds (EAddR e lo hi) (add_range_vs a lo hi)
| b_union ea eb a b : builds ea a -> builds eb b -> builds (EUnion ea eb) (union a b)
| b_perm e a a' : builds e a -> vs_perm a a' -> builds e a'.

Lemma builds_build e : builds e (build e).
Proof. induction e; cbn [build]; constructor; assumption. Qed.

(* what was added: the union of the listed values and inclusive ranges
   (everything, once an AnyValue is involved) *)
Fixpoint denotes (e : vexpr) (v : Z) : Prop :=
  match e with
  | EEmpty => False
  | EAny => True
  | EAddV e x => denotes e v \/ v = x
  | EAddR e lo hi => denotes e v \/ lo <= v <= hi
  | EUnion a b => denotes a v \/ denotes b v
  end.

Fixpoint has_any (e : vexpr) : bool :=
  match e with
  | EEmpty => false
  | EAny => true
  | EAddV e _ => has_any e
  | EAddR e _ _ => has_any e
  | EUnion a b => has_any a || has_any b
  end.

Theorem vs_sem e a v : builds e a -> (contains a v = true <-> denotes e v).
Proof.
  intros Hb. induction Hb as [| |e a x Hb IH|e a lo hi Hb IH|ea eb a b Ha IHa Hb IHb|e a a' Hb IH Hp];
    cbn [denotes].
  - cbn. split; [discriminate|tauto].
  - cbn. tauto.
  - destruct a as [s|]; cbn [add_value_vs contains] in *.
    + rewrite add_value_sem. tauto.
    + tauto.
  - destruct a as [s|]; cbn [add_range_vs contains] in *.
    + rewrite add_range_sem. tauto.
    + tauto.
  - rewrite union_sem, orb_true_iff. tauto.
  - rewrite <- (contains_perm _ _ v Hp). exact IH.
Qed.

Theorem builds_any e a : builds e a -> (a = Any <-> has_any e = true).
Proof.
  intros Hb. induction Hb as [| |e a x Hb IH|e a lo hi Hb IH|ea eb a b Ha IHa Hb IHb|e a a' Hb IH Hp];
    cbn [has_any].
  - split; discriminate.
  - tauto.
  - destruct a; cbn [add_value_vs]; [split; [discriminate|intros H; apply IH in H; discriminate]|tauto].
  - destruct a; cbn [add_range_vs]; [split; [discriminate|intros H; apply IH in H; discriminate]|tauto].
  - rewrite union_any, orb_true_iff. tauto.
  - destruct Hp; [exact IH|]. split; [discriminate|]. intros H0. apply IH in H0. discriminate.
Qed.
