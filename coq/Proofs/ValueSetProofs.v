(* Proofs about Model/ValueSet.v (property C17). *)
From Coq Require Import ZArith List Bool Lia ZifyBool Permutation.
From VC2 Require Import Model.ValueSet.
Import ListNotations.
Open Scope Z_scope.

(* ---- membership helpers ------------------------------------------------------- *)
Lemma zmem_In v l : zmem v l = true <-> In v l.
Proof.
  unfold zmem. rewrite existsb_exists. split.
  - intros [x [Hin He]]. apply Z.eqb_eq in He. subst. exact Hin.
  - intros Hin. exists v. split; [exact Hin|apply Z.eqb_refl].
Qed.

Lemma pair_eqb_eq a b : pair_eqb a b = true <-> a = b.
Proof.
  unfold pair_eqb. destruct a as [a1 a2], b as [b1 b2]. cbn [fst snd].
  rewrite andb_true_iff, !Z.eqb_eq. split; [intros [-> ->]; reflexivity|intros H; inversion H; auto].
Qed.

Lemma rmem_In r l : rmem r l = true <-> In r l.
Proof.
  unfold rmem. rewrite existsb_exists. split.
  - intros [x [Hin He]]. apply pair_eqb_eq in He. subst. exact Hin.
  - intros Hin. exists r. split; [exact Hin|apply pair_eqb_eq; reflexivity].
Qed.

Lemma in_range_spec v r : in_range v r = true <-> fst r <= v <= snd r.
Proof. unfold in_range. lia. Qed.

Definition in_ranges (v : Z) (rs : list (Z * Z)) : Prop := exists r, In r rs /\ fst r <= v <= snd r.

Lemma existsb_in_ranges v rs : existsb (in_range v) rs = true <-> in_ranges v rs.
Proof.
  rewrite existsb_exists. unfold in_ranges.
  split; intros [r [Hin H]]; exists r; (split; [exact Hin|apply in_range_spec; exact H]).
Qed.

Lemma st_contains_spec s v :
  st_contains s v = true <-> In v (vs_values s) \/ in_ranges v (vs_ranges s).
Proof. unfold st_contains. rewrite orb_true_iff, zmem_In, existsb_in_ranges. reflexivity. Qed.

Lemma in_ranges_cons v r rs : in_ranges v (r :: rs) <-> fst r <= v <= snd r \/ in_ranges v rs.
Proof.
  unfold in_ranges. split.
  - intros [r' [[-> | Hin] H]]; [left; exact H|right; exists r'; auto].
  - intros [H|[r' [Hin H]]]; [exists r; split; [left; reflexivity|exact H]|exists r'; split; [right; exact Hin|exact H]].
Qed.

Lemma in_ranges_nil v : in_ranges v [] <-> False.
Proof. unfold in_ranges. split; [intros [r [H _]]; destruct H|intros H; destruct H]. Qed.

(* ---- add_value ------------------------------------------------------------------ *)
Lemma add_value_sem s x v :
  st_contains (add_value s x) v = true <-> st_contains s v = true \/ v = x.
Proof.
  unfold add_value. destruct (st_contains s x) eqn:E.
  - split; [auto|]. intros [H | ->]; assumption.
  - rewrite !st_contains_spec. cbn [vs_values vs_ranges]. cbn [In]. intuition.
Qed.

(* ---- add_range: the single merging pass ---------------------------------------- *)
Lemma merge_pass_sem rs : forall lo hi l h kept v,
  merge_pass rs lo hi = (l, h, kept) ->
  (l <= v <= h \/ in_ranges v kept) <-> (lo <= v <= hi \/ in_ranges v rs).
Proof.
  induction rs as [|[ol oh] rest IH]; intros lo hi l h kept v Hm; cbn [merge_pass] in Hm.
  - inversion Hm; subst. reflexivity.
  - destruct ((lo <=? oh) && (ol <=? hi)) eqn:E.
    + rewrite (IH _ _ _ _ _ v Hm), in_ranges_cons. cbn [fst snd].
      assert (Ha : Z.min lo ol <= v <= Z.max hi oh <-> (lo <= v <= hi \/ ol <= v <= oh)) by lia.
      tauto.
    + destruct (merge_pass rest lo hi) as [[l' h'] k'] eqn:E2. inversion Hm; subst.
      rewrite !in_ranges_cons. cbn [fst snd]. specialize (IH _ _ _ _ _ v E2). tauto.
Qed.

Lemma range_set_add_sem r l v : in_ranges v (range_set_add r l) <-> fst r <= v <= snd r \/ in_ranges v l.
Proof.
  unfold range_set_add. destruct (rmem r l) eqn:E.
  - apply rmem_In in E. split; [auto|]. intros [H|H]; [exists r; auto|exact H].
  - apply in_ranges_cons.
Qed.

Lemma add_range_sem s lo hi v :
  st_contains (add_range s lo hi) v = true <-> st_contains s v = true \/ lo <= v <= hi.
Proof.
  unfold add_range. destruct (merge_pass (vs_ranges s) lo hi) as [[l h] kept] eqn:E.
  rewrite !st_contains_spec. cbn [vs_values vs_ranges].
  rewrite range_set_add_sem. cbn [fst snd]. rewrite filter_In.
  pose proof (merge_pass_sem _ _ _ _ _ _ v E) as Hm.
  destruct (Z_le_dec lo v), (Z_le_dec v hi); try (assert (Hn : negb ((lo <=? v) && (v <=? hi)) = true) by lia; rewrite Hn); tauto || (assert (Hn : negb ((lo <=? v) && (v <=? hi)) = false) by lia; rewrite Hn; intuition (try discriminate; try lia)).
Qed.

(* ---- folds, union --------------------------------------------------------------- *)
Lemma fold_add_value_sem l : forall s v,
  st_contains (fold_left add_value l s) v = true <-> st_contains s v = true \/ In v l.
Proof.
  induction l as [|x l IH]; intros s v; cbn [fold_left In].
  - tauto.
  - rewrite IH, add_value_sem. intuition.
Qed.

Lemma fold_add_range_sem l : forall s v,
  st_contains (fold_left (fun s r => add_range s (fst r) (snd r)) l s) v = true
  <-> st_contains s v = true \/ in_ranges v l.
Proof.
  induction l as [|r l IH]; intros s v; cbn [fold_left].
  - rewrite in_ranges_nil. tauto.
  - rewrite IH, add_range_sem, in_ranges_cons. tauto.
Qed.

Lemma st_contains_empty v : st_contains vs_empty v = false.
Proof. reflexivity. Qed.

Lemma st_union_sem a b v :
  st_contains (st_union a b) v = true <-> st_contains a v = true \/ st_contains b v = true.
Proof.
  unfold st_union. rewrite !fold_add_range_sem, !fold_add_value_sem, st_contains_empty.
  rewrite !st_contains_spec. intuition discriminate.
Qed.

Lemma union_sem a b v : contains (union a b) v = contains a v || contains b v.
Proof.
  destruct a as [sa|], b as [sb|]; cbn [union contains]; try reflexivity.
  - apply eq_true_iff_eq. rewrite orb_true_iff. apply st_union_sem.
  - rewrite orb_true_r. reflexivity.
Qed.

Lemma union_any a b : union a b = Any <-> a = Any \/ b = Any.
Proof. destruct a, b; cbn [union]; intuition discriminate. Qed.

(* ---- reachable states, for EVERY iteration order of the two Python sets -------- *)
Definition st_perm (s s' : vstate) : Prop :=
  Permutation (vs_values s) (vs_values s') /\ Permutation (vs_ranges s) (vs_ranges s').

Inductive vs_perm : vset -> vset -> Prop :=
| vp_any : vs_perm Any Any
| vp_vs s s' : st_perm s s' -> vs_perm (VS s) (VS s').

Lemma st_contains_perm s s' v : st_perm s s' -> st_contains s v = st_contains s' v.
Proof.
  intros [Hv Hr]. apply eq_true_iff_eq. rewrite !st_contains_spec. unfold in_ranges.
  split; (intros [H|[r [Hin H]]]; [left|right; exists r; split; [|exact H]]).
  - eapply Permutation_in; eauto.
  - eapply Permutation_in; eauto.
  - eapply Permutation_in; [apply Permutation_sym|]; eauto.
  - eapply Permutation_in; [apply Permutation_sym|]; eauto.
Qed.

Lemma contains_perm a a' v : vs_perm a a' -> contains a v = contains a' v.
Proof. intros [|s s' H]; [reflexivity|apply st_contains_perm; exact H]. Qed.

(* `builds e a` : evaluating the operation sequence e can leave the object in state a,
   for some iteration order of the sets at every step *)
Inductive builds : vexpr -> vset -> Prop :=
| b_empty : builds EEmpty (VS vs_empty)
| b_any : builds EAny Any
| b_addv e a v : builds e a -> builds (EAddV e v) (add_value_vs a v)
| b_addr e a lo hi : builds e a -> builds (EAddR e lo hi) (add_range_vs a lo hi)
| b_union ea eb a b : builds ea a -> builds eb b -> builds (EUnion ea eb) (union a b)
| b_perm e a a' : builds e a -> vs_perm a a' -> builds e a'.

Lemma builds_build e : builds e (build e).
Proof. induction e; cbn [build]; constructor; assumption. Qed.

(* what was added: the union of the listed values and inclusive ranges
   (everything, once an AnyValue is involved) *)
Fixpoint denotes (e : vexpr) (v : Z) : Prop :=
  match e with
  | EEmpty => False
  | EAny => True
  | EAddV e x => denotes e v \/ v = x
  | EAddR e lo hi => denotes e v \/ lo <= v <= hi
  | EUnion a b => denotes a v \/ denotes b v
  end.

Fixpoint has_any (e : vexpr) : bool :=
  match e with
  | EEmpty => false
  | EAny => true
  | EAddV e _ => has_any e
  | EAddR e _ _ => has_any e
  | EUnion a b => has_any a || has_any b
  end.

Theorem vs_sem e a v : builds e a -> (contains a v = true <-> denotes e v).
Proof.
  intros Hb. induction Hb as [| |e a x Hb IH|e a lo hi Hb IH|ea eb a b Ha IHa Hb IHb|e a a' Hb IH Hp];
    cbn [denotes].
  - cbn. split; [discriminate|tauto].
  - cbn. tauto.
  - destruct a as [s|]; cbn [add_value_vs contains] in *.
    + rewrite add_value_sem. tauto.
    + tauto.
  - destruct a as [s|]; cbn [add_range_vs contains] in *.
    + rewrite add_range_sem. tauto.
    + tauto.
  - rewrite union_sem, orb_true_iff. tauto.
  - rewrite <- (contains_perm _ _ v Hp). exact IH.
Qed.

Theorem builds_any e a : builds e a -> (a = Any <-> has_any e = true).
Proof.
  intros Hb. induction Hb as [| |e a x Hb IH|e a lo hi Hb IH|ea eb a b Ha IHa Hb IHb|e a a' Hb IH Hp];
    cbn [has_any].
  - split; discriminate.
  - tauto.
  - destruct a; cbn [add_value_vs]; [split; [discriminate|intros H; apply IH in H; discriminate]|tauto].
  - destruct a; cbn [add_range_vs]; [split; [discriminate|intros H; apply IH in H; discriminate]|tauto].
  - rewrite union_any, orb_true_iff. tauto.
  - destruct Hp; [exact IH|]. split; [discriminate|]. intros H0. apply IH in H0. discriminate.
Qed.
(* ---- well-formed ranges (lo <= hi): "inclusive ranges" -------------------------- *)
Definition wf (s : vstate) : Prop := Forall (fun r => fst r <= snd r) (vs_ranges s).
Definition wf_vs (a : vset) : Prop := match a with Any => True | VS s => wf s end.

Lemma merge_pass_wf rs : forall lo hi l h kept,
  merge_pass rs lo hi = (l, h, kept) -> lo <= hi -> Forall (fun r => fst r <= snd r) rs ->
  l <= h /\ Forall (fun r => fst r <= snd r) kept.
Proof.
  induction rs as [|[ol oh] rest IH]; intros lo hi l h kept Hm Hle Hrs; cbn [merge_pass] in Hm.
  - inversion Hm; subst. auto.
  - inversion Hrs as [|x y Hx Hrest]; subst. cbn [fst snd] in Hx.
    destruct ((lo <=? oh) && (ol <=? hi)) eqn:E.
    + apply (IH _ _ _ _ _ Hm); [lia|exact Hrest].
    + destruct (merge_pass rest lo hi) as [[l' h'] k'] eqn:E2. inversion Hm; subst.
      destruct (IH _ _ _ _ _ E2 Hle Hrest) as [H1 H2]. split; [exact H1|constructor; [exact Hx|exact H2]].
Qed.

Lemma add_value_wf s v : wf s -> wf (add_value s v).
Proof. unfold add_value, wf. destruct (st_contains s v); auto. Qed.

Lemma add_range_wf s lo hi : lo <= hi -> wf s -> wf (add_range s lo hi).
Proof.
  unfold add_range, wf. intros Hle Hs.
  destruct (merge_pass (vs_ranges s) lo hi) as [[l h] kept] eqn:E.
  destruct (merge_pass_wf _ _ _ _ _ _ E Hle Hs) as [H1 H2].
  cbn [vs_ranges]. unfold range_set_add. destruct (rmem (l, h) kept); [exact H2|constructor; [exact H1|exact H2]].
Qed.

Lemma fold_add_value_wf l : forall s, wf s -> wf (fold_left add_value l s).
Proof. induction l as [|x l IH]; intros s Hs; cbn [fold_left]; [exact Hs|apply IH, add_value_wf, Hs]. Qed.

Lemma fold_add_range_wf l : forall s, Forall (fun r => fst r <= snd r) l -> wf s ->
  wf (fold_left (fun s r => add_range s (fst r) (snd r)) l s).
Proof.
  induction l as [|r l IH]; intros s Hl Hs; cbn [fold_left]; [exact Hs|].
  inversion Hl; subst. apply IH; [assumption|apply add_range_wf; assumption].
Qed.

Lemma st_union_wf a b : wf a -> wf b -> wf (st_union a b).
Proof.
  intros Ha Hb. unfold st_union.
  apply fold_add_range_wf; [exact Hb|]. apply fold_add_range_wf; [exact Ha|].
  apply fold_add_value_wf, fold_add_value_wf. constructor.
Qed.

Fixpoint expr_wf (e : vexpr) : Prop :=
  match e with
  | EEmpty | EAny => True
  | EAddV e _ => expr_wf e
  | EAddR e lo hi => expr_wf e /\ lo <= hi
  | EUnion a b => expr_wf a /\ expr_wf b
  end.

Lemma builds_wf e a : builds e a -> expr_wf e -> wf_vs a.
Proof.
  intros Hb. induction Hb as [| |e a x Hb IH|e a lo hi Hb IH|ea eb a b Ha IHa Hb IHb|e a a' Hb IH Hp];
    cbn [expr_wf]; intros Hw.
  - constructor.
  - exact I.
  - destruct a; cbn; [apply add_value_wf, IH, Hw|exact I].
  - destruct a; cbn; [apply add_range_wf; [apply Hw|apply IH, Hw]|exact I].
  - destruct a, b; cbn; try exact I. apply st_union_wf; [apply IHa, Hw|apply IHb, Hw].
  - specialize (IH Hw). destruct Hp as [|s s' [_ Hr]]; [exact I|]. cbn in *. unfold wf in *.
    eapply Permutation_Forall; eassumption.
Qed.

(* ---- is_disjoint ------------------------------------------------------------------ *)
Lemma st_disjoint_correct a b : wf a -> wf b ->
  (st_disjoint a b = true <-> forall v, ~ (st_contains a v = true /\ st_contains b v = true)).
Proof.
  intros Ha Hb. unfold st_disjoint. rewrite !andb_true_iff, !forallb_forall. split.
  - intros [[[H1 H2] H3] H4] v [Hca Hcb].
    pose proof Hca as Hca'. pose proof Hcb as Hcb'.
    apply st_contains_spec in Hca. apply st_contains_spec in Hcb.
    destruct Hca as [Hva|[ra [Hra Hia]]].
    { specialize (H1 v Hva). rewrite Hcb' in H1. discriminate. }
    destruct Hcb as [Hvb|[rb [Hrb Hib]]].
    { specialize (H2 v Hvb). rewrite Hca' in H2. discriminate. }
    destruct (Z_le_dec (fst rb) (fst ra)) as [Hle|Hgt].
    + specialize (H3 ra Hra). apply andb_true_iff in H3. destruct H3 as [H3 _].
      assert (Hc : st_contains b (fst ra) = true)
        by (apply st_contains_spec; right; exists rb; split; [exact Hrb|lia]).
      rewrite Hc in H3. discriminate.
    + specialize (H4 rb Hrb). apply andb_true_iff in H4. destruct H4 as [H4 _].
      assert (Hc : st_contains a (fst rb) = true)
        by (apply st_contains_spec; right; exists ra; split; [exact Hra|lia]).
      rewrite Hc in H4. discriminate.
  - intros H.
    assert (Hin : forall s r, wf s -> In r (vs_ranges s) ->
              st_contains s (fst r) = true /\ st_contains s (snd r) = true).
    { intros s r Hs Hr. unfold wf in Hs. rewrite Forall_forall in Hs. specialize (Hs r Hr).
      split; apply st_contains_spec; right; exists r; (split; [exact Hr|lia]). }
    assert (Hv : forall s x, In x (vs_values s) -> st_contains s x = true).
    { intros s x Hx. apply st_contains_spec. left. exact Hx. }
    repeat split.
    + intros x Hx. destruct (st_contains b x) eqn:E; [exfalso; apply (H x); split; [apply Hv, Hx|exact E]|reflexivity].
    + intros x Hx. destruct (st_contains a x) eqn:E; [exfalso; apply (H x); split; [exact E|apply Hv, Hx]|reflexivity].
    + intros r Hr. destruct (Hin a r Ha Hr) as [Hf Hs].
      destruct (st_contains b (fst r)) eqn:E1; [exfalso; apply (H (fst r)); auto|].
      destruct (st_contains b (snd r)) eqn:E2; [exfalso; apply (H (snd r)); auto|]. reflexivity.
    + intros r Hr. destruct (Hin b r Hb Hr) as [Hf Hs].
      destruct (st_contains a (fst r)) eqn:E1; [exfalso; apply (H (fst r)); auto|].
      destruct (st_contains a (snd r)) eqn:E2; [exfalso; apply (H (snd r)); auto|]. reflexivity.
Qed.

Lemma st_is_empty_correct s : wf s -> (st_is_empty s = true <-> forall v, st_contains s v = false).
Proof.
  intros Hs. unfold st_is_empty. destruct s as [vals rs]. cbn [vs_values vs_ranges]. split.
  - destruct vals, rs; try discriminate. intros _ v. reflexivity.
  - intros H. destruct vals as [|x vals].
    + destruct rs as [|r rs]; [reflexivity|]. exfalso.
      unfold wf in Hs. cbn in Hs. inversion Hs; subst.
      specialize (H (fst r)). assert (Hc : st_contains (mkVS [] (r :: rs)) (fst r) = true)
        by (apply st_contains_spec; right; exists r; split; [left; reflexivity|lia]).
      rewrite Hc in H. discriminate.
    + exfalso. specialize (H x).
      assert (Hc : st_contains (mkVS (x :: vals) rs) x = true)
        by (apply st_contains_spec; left; left; reflexivity).
      rewrite Hc in H. discriminate.
Qed.

Theorem disjoint_correct a b : wf_vs a -> wf_vs b ->
  (is_disjoint a b = true <-> ~ exists v, contains a v = true /\ contains b v = true).
Proof.
  intros Ha Hb. destruct a as [sa|], b as [sb|]; cbn [is_disjoint contains wf_vs] in *.
  - rewrite (st_disjoint_correct sa sb Ha Hb). split.
    + intros H [v Hv]. exact (H v Hv).
    + intros H v Hv. apply H. exists v. exact Hv.
  - rewrite (st_is_empty_correct sa Ha). split.
    + intros H [v [Hv _]]. rewrite H in Hv. discriminate.
    + intros H v. destruct (st_contains sa v) eqn:E; [exfalso; apply H; exists v; auto|reflexivity].
  - rewrite (st_is_empty_correct sb Hb). split.
    + intros H [v [_ Hv]]. rewrite H in Hv. discriminate.
    + intros H v. destruct (st_contains sb v) eqn:E; [exfalso; apply H; exists v; auto|reflexivity].
  - split; [discriminate|]. intros H. exfalso. apply H. exists 0. auto.
Qed.

(* what an inverted range does: it holds nothing, yet is_disjoint looks at its end points *)
Lemma disjoint_inverted_witness :
  let a := build (EAddR EEmpty 5 3) in
  let b := build (EAddV EEmpty 5) in
  is_disjoint a b = false /\ is_disjoint b a = false /\ is_disjoint a Any = false
  /\ forall v, contains a v = false.
Proof.
  cbn. repeat split. intros v. unfold st_contains. cbn. unfold in_range. cbn [fst snd]. lia.
Qed.

(* ---- representation invariant: the single merging pass is enough ----------------- *)
(* the overlap test of add_range, negated *)
Definition no_overlap (a b : Z * Z) : Prop := ~ (fst a <= snd b /\ fst b <= snd a).

Definition pairwise_apart (rs : list (Z * Z)) : Prop :=
  NoDup rs /\ forall r1 r2, In r1 rs -> In r2 rs -> r1 <> r2 -> no_overlap r1 r2.

(* ranges lo <= hi, duplicate free, pairwise non-overlapping; no listed value inside a range *)
Definition inv (s : vstate) : Prop :=
  wf s /\ NoDup (vs_values s) /\ pairwise_apart (vs_ranges s)
  /\ forall v, In v (vs_values s) -> ~ in_ranges v (vs_ranges s).
Definition inv_vs (a : vset) : Prop := match a with Any => True | VS s => inv s end.

Lemma merge_pass_kept rs : forall lo hi l h kept,
  merge_pass rs lo hi = (l, h, kept) -> (forall r, In r kept -> In r rs) /\ (NoDup rs -> NoDup kept).
Proof.
  induction rs as [|[ol oh] rest IH]; intros lo hi l h kept Hm; cbn [merge_pass] in Hm.
  - inversion Hm; subst. split; [auto|auto].
  - destruct ((lo <=? oh) && (ol <=? hi)).
    + destruct (IH _ _ _ _ _ Hm) as [H1 H2]. split.
      * intros r Hr. right. apply H1, Hr.
      * intros Hnd. inversion Hnd; subst. apply H2. assumption.
    + destruct (merge_pass rest lo hi) as [[l' h'] k'] eqn:E2. inversion Hm; subst.
      destruct (IH _ _ _ _ _ E2) as [H1 H2]. split.
      * intros r [<-|Hr]; [left; reflexivity|right; apply H1, Hr].
      * intros Hnd. inversion Hnd as [|x y Hx Hr]; subst. constructor; [|apply H2, Hr].
        intros Hin. apply Hx, H1, Hin.
Qed.

(* an interval apart from the new range and from every existing range is apart from the merged range *)
Lemma merge_pass_avoid q rs : forall lo hi l h kept,
  merge_pass rs lo hi = (l, h, kept) ->
  fst q <= snd q -> lo <= hi -> Forall (fun r => fst r <= snd r) rs ->
  no_overlap q (lo, hi) -> Forall (no_overlap q) rs -> no_overlap q (l, h).
Proof.
  induction rs as [|[ol oh] rest IH]; intros lo hi l h kept Hm Hq Hle Hwf Hq0 Hqr; cbn [merge_pass] in Hm.
  - inversion Hm; subst. exact Hq0.
  - inversion Hwf as [|x y Hx Hwf']; subst. inversion Hqr as [|x y Hqx Hqr']; subst.
    cbn [fst snd] in Hx. destruct ((lo <=? oh) && (ol <=? hi)) eqn:E.
    + apply (IH _ _ _ _ _ Hm Hq); [lia|exact Hwf'| |exact Hqr'].
      unfold no_overlap in *. cbn [fst snd] in *. lia.
    + destruct (merge_pass rest lo hi) as [[l' h'] k'] eqn:E2. inversion Hm; subst.
      apply (IH _ _ _ _ _ E2 Hq Hle Hwf' Hq0 Hqr').
Qed.

Lemma merge_pass_apart rs : forall lo hi l h kept,
  merge_pass rs lo hi = (l, h, kept) ->
  lo <= hi -> Forall (fun r => fst r <= snd r) rs -> pairwise_apart rs ->
  Forall (fun r => no_overlap r (l, h)) kept.
Proof.
  induction rs as [|[ol oh] rest IH]; intros lo hi l h kept Hm Hle Hwf Hpw; cbn [merge_pass] in Hm.
  - inversion Hm; subst. constructor.
  - inversion Hwf as [|x y Hx Hwf']; subst. cbn [fst snd] in Hx.
    destruct Hpw as [Hnd Hpw]. inversion Hnd as [|x y Hnin Hnd']; subst.
    assert (Hpw' : pairwise_apart rest).
    { split; [exact Hnd'|]. intros r1 r2 H1 H2 Hne. apply Hpw; [right; exact H1|right; exact H2|exact Hne]. }
    destruct ((lo <=? oh) && (ol <=? hi)) eqn:E.
    + apply (IH _ _ _ _ _ Hm); [lia|exact Hwf'|exact Hpw'].
    + destruct (merge_pass rest lo hi) as [[l' h'] k'] eqn:E2. inversion Hm; subst.
      constructor; [|apply (IH _ _ _ _ _ E2 Hle Hwf' Hpw')].
      apply (merge_pass_avoid (ol, oh) rest _ _ _ _ _ E2); [exact Hx|exact Hle|exact Hwf'| |].
      * unfold no_overlap. cbn [fst snd]. lia.
      * apply Forall_forall. intros r Hr. apply Hpw; [left; reflexivity|right; exact Hr|].
        intros Heq. apply Hnin. rewrite Heq. exact Hr.
Qed.

Lemma no_overlap_sym a b : no_overlap a b -> no_overlap b a.
Proof. unfold no_overlap. tauto. Qed.

Lemma add_value_inv s v : inv s -> inv (add_value s v).
Proof.
  intros [Hw [Hv [Hp Hout]]]. unfold add_value. destruct (st_contains s v) eqn:E; [exact (conj Hw (conj Hv (conj Hp Hout)))|].
  assert (Hn : ~ (In v (vs_values s) \/ in_ranges v (vs_ranges s))).
  { intros H. apply st_contains_spec in H. rewrite H in E. discriminate. }
  repeat split; cbn [vs_values vs_ranges]; try assumption; try apply Hp.
  - constructor; [tauto|exact Hv].
  - intros x [<-|Hx]; [tauto|apply Hout, Hx].
Qed.

Lemma add_range_inv s lo hi : lo <= hi -> inv s -> inv (add_range s lo hi).
Proof.
  intros Hle [Hw [Hv [Hp Hout]]]. pose proof (add_range_wf s lo hi Hle Hw) as Hw'.
  unfold add_range in *. destruct (merge_pass (vs_ranges s) lo hi) as [[l h] kept] eqn:E.
  destruct (merge_pass_kept _ _ _ _ _ _ E) as [Hsub Hnd].
  destruct (merge_pass_wf _ _ _ _ _ _ E Hle Hw) as [Hlh Hkwf].
  pose proof (merge_pass_apart _ _ _ _ _ _ E Hle Hw Hp) as Hap. rewrite Forall_forall in Hap.
  assert (Hpk : pairwise_apart kept).
  { split; [apply Hnd, Hp|]. intros r1 r2 H1 H2. apply Hp; apply Hsub; assumption. }
  split; [exact Hw'|]. cbn [vs_values vs_ranges]. split; [apply NoDup_filter, Hv|]. split.
  - unfold range_set_add. destruct (rmem (l, h) kept) eqn:Em; [exact Hpk|].
    assert (Hnin : ~ In (l, h) kept) by (intros H; apply rmem_In in H; rewrite H in Em; discriminate).
    split; [constructor; [exact Hnin|apply Hpk]|].
    intros r1 r2 [<-|H1] [<-|H2] Hne.
    + exfalso. apply Hne. reflexivity.
    + apply no_overlap_sym, Hap, H2.
    + apply Hap, H1.
    + apply Hpk; assumption.
  - intros v Hvin Hr. apply filter_In in Hvin. destruct Hvin as [Hvin Hnot].
    apply range_set_add_sem in Hr. cbn [fst snd] in Hr.
    pose proof (merge_pass_sem _ _ _ _ _ _ v E) as Hs.
    assert (Hc : lo <= v <= hi \/ in_ranges v (vs_ranges s)) by (apply Hs; exact Hr).
    destruct Hc as [Hc|Hc]; [lia|exact (Hout v Hvin Hc)].
Qed.

Lemma fold_add_value_inv l : forall s, inv s -> inv (fold_left add_value l s).
Proof. induction l as [|x l IH]; intros s Hs; cbn [fold_left]; [exact Hs|apply IH, add_value_inv, Hs]. Qed.

Lemma fold_add_range_inv l : forall s, Forall (fun r => fst r <= snd r) l -> inv s ->
  inv (fold_left (fun s r => add_range s (fst r) (snd r)) l s).
Proof.
  induction l as [|r l IH]; intros s Hl Hs; cbn [fold_left]; [exact Hs|].
  inversion Hl; subst. apply IH; [assumption|apply add_range_inv; assumption].
Qed.

Lemma inv_empty : inv vs_empty.
Proof.
  repeat split; cbn; try constructor.
  - intros r1 r2 [].
  - intros v [].
Qed.

Lemma st_union_inv a b : wf a -> wf b -> inv (st_union a b).
Proof.
  intros Ha Hb. unfold st_union.
  apply fold_add_range_inv; [exact Hb|]. apply fold_add_range_inv; [exact Ha|].
  apply fold_add_value_inv, fold_add_value_inv, inv_empty.
Qed.

Lemma inv_perm s s' : st_perm s s' -> inv s -> inv s'.
Proof.
  intros [Pv Pr] [Hw [Hv [[Hnd Hp] Hout]]]. repeat split.
  - unfold wf in *. eapply Permutation_Forall; eassumption.
  - eapply Permutation_NoDup; eassumption.
  - eapply Permutation_NoDup; eassumption.
  - intros r1 r2 H1 H2. apply Hp; (eapply Permutation_in; [apply Permutation_sym; eassumption|assumption]).
  - intros v Hvin [r [Hr Hin]]. apply (Hout v).
    + eapply Permutation_in; [apply Permutation_sym; eassumption|assumption].
    + exists r. split; [eapply Permutation_in; [apply Permutation_sym; eassumption|assumption]|exact Hin].
Qed.

Theorem builds_inv e a : builds e a -> expr_wf e -> inv_vs a.
Proof.
  intros Hb. induction Hb as [| |e a x Hb IH|e a lo hi Hb IH|ea eb a b Ha IHa Hb IHb|e a a' Hb IH Hp];
    cbn [expr_wf]; intros Hw.
  - exact inv_empty.
  - exact I.
  - destruct a; cbn; [apply add_value_inv, IH, Hw|exact I].
  - destruct a; cbn; [apply add_range_inv; [apply Hw|apply IH, Hw]|exact I].
  - destruct a as [sa|], b as [sb|]; cbn; try exact I.
    apply st_union_inv; [apply (IHa (proj1 Hw))|apply (IHb (proj2 Hw))].
  - specialize (IH Hw). destruct Hp as [|s s' Hp]; [exact I|]. cbn in *. eapply inv_perm; eassumption.
Qed.

(* ---- iter_values ------------------------------------------------------------------- *)
Lemma zrange_In n : forall lo v, In v (zrange lo n) <-> lo <= v < lo + Z.of_nat n.
Proof.
  induction n as [|n IH]; intros lo v; cbn [zrange In].
  - lia.
  - rewrite IH. lia.
Qed.

Theorem iter_values_sem s v : In v (st_iter_values s) <-> st_contains s v = true.
Proof.
  unfold st_iter_values. rewrite in_app_iff, in_flat_map, st_contains_spec. unfold in_ranges.
  split; (intros [H|[r [Hr Hin]]]; [left; exact H|right; exists r; split; [exact Hr|]]).
  - apply zrange_In in Hin. lia.
  - apply zrange_In. lia.
Qed.


(* ---- the result of add_range does not depend on the iteration order ------------------ *)
Definition overlapb (lo hi : Z) (r : Z * Z) : bool := (lo <=? snd r) && (fst r <=? hi).

(* under the invariant, the one pass removes exactly the ranges overlapping the ORIGINAL new
   range and the merged range is the hull of those and the new range *)
Lemma merge_pass_canonical rs : forall lo hi l h kept,
  merge_pass rs lo hi = (l, h, kept) ->
  lo <= hi -> Forall (fun r => fst r <= snd r) rs -> pairwise_apart rs ->
  kept = filter (fun r => negb (overlapb lo hi r)) rs
  /\ l = fold_right Z.min lo (map fst (filter (overlapb lo hi) rs))
  /\ h = fold_right Z.max hi (map snd (filter (overlapb lo hi) rs)).
Proof.
  induction rs as [|[ol oh] rest IH]; intros lo hi l h kept Hm Hle Hwf Hpw; cbn [merge_pass] in Hm.
  - inversion Hm; subst. cbn. auto.
  - inversion Hwf as [|x y Hx Hwf']; subst. cbn [fst snd] in Hx.
    destruct Hpw as [Hnd Hpw]. inversion Hnd as [|x y Hnin Hnd']; subst.
    assert (Hpw' : pairwise_apart rest).
    { split; [exact Hnd'|]. intros r1 r2 H1 H2 Hne. apply Hpw; [right; exact H1|right; exact H2|exact Hne]. }
    assert (Hap : forall r, In r rest -> no_overlap (ol, oh) r /\ fst r <= snd r).
    { intros r Hr. split.
      - apply Hpw; [left; reflexivity|right; exact Hr|]. intros Heq. apply Hnin. rewrite Heq. exact Hr.
      - rewrite Forall_forall in Hwf'. apply Hwf', Hr. }
    assert (Eo : overlapb lo hi (ol, oh) = (lo <=? oh) && (ol <=? hi)) by reflexivity.
    cbn [filter]. rewrite !Eo.
    destruct ((lo <=? oh) && (ol <=? hi)) eqn:E; cbn [negb].
    + destruct (IH _ _ _ _ _ Hm ltac:(lia) Hwf' Hpw') as [Hk [Hl Hh]].
      assert (Hext : forall r, In r rest -> overlapb (Z.min lo ol) (Z.max hi oh) r = overlapb lo hi r).
      { intros r Hr. destruct (Hap r Hr) as [Hno Hw]. unfold no_overlap in Hno. cbn [fst snd] in Hno.
        unfold overlapb. lia. }
      assert (Hf : filter (overlapb (Z.min lo ol) (Z.max hi oh)) rest = filter (overlapb lo hi) rest)
        by (apply filter_ext_in; exact Hext).
      assert (Hfn : filter (fun r => negb (overlapb (Z.min lo ol) (Z.max hi oh) r)) rest
                    = filter (fun r => negb (overlapb lo hi r)) rest)
        by (apply filter_ext_in; intros r Hr; rewrite (Hext r Hr); reflexivity).
      rewrite Hf in Hl, Hh. rewrite Hfn in Hk. split; [exact Hk|]. cbn [map fold_right fst snd].
      assert (Hmin : forall l0 a b, fold_right Z.min (Z.min a b) l0 = Z.min b (fold_right Z.min a l0))
        by (induction l0 as [|x l0 IHl]; intros a b; cbn [fold_right]; [lia|rewrite IHl; lia]).
      assert (Hmax : forall l0 a b, fold_right Z.max (Z.max a b) l0 = Z.max b (fold_right Z.max a l0))
        by (induction l0 as [|x l0 IHl]; intros a b; cbn [fold_right]; [lia|rewrite IHl; lia]).
      rewrite Hl, Hh, Hmin, Hmax. auto.
    + destruct (merge_pass rest lo hi) as [[l' h'] k'] eqn:E2. inversion Hm; subst.
      destruct (IH _ _ _ _ _ E2 Hle Hwf' Hpw') as [Hk [Hl Hh]]. subst k'. auto.
Qed.

Lemma perm_filter {A} (f : A -> bool) l l' : Permutation l l' -> Permutation (filter f l) (filter f l').
Proof.
  induction 1 as [|x l l' Hp IH|x y l|l l' l'' H1 IH1 H2 IH2]; cbn [filter].
  - constructor.
  - destruct (f x); [constructor; exact IH|exact IH].
  - destruct (f x), (f y); try apply Permutation_refl; apply perm_swap.
  - eapply Permutation_trans; [exact IH1|exact IH2].
Qed.

Lemma fold_min_perm a l l' : Permutation l l' -> fold_right Z.min a l = fold_right Z.min a l'.
Proof. induction 1; cbn [fold_right]; lia. Qed.
Lemma fold_max_perm a l l' : Permutation l l' -> fold_right Z.max a l = fold_right Z.max a l'.
Proof. induction 1; cbn [fold_right]; lia. Qed.

Theorem add_range_order_independent s s' lo hi :
  inv s -> lo <= hi -> st_perm s s' -> st_perm (add_range s lo hi) (add_range s' lo hi).
Proof.
  intros Hi Hle Hp. pose proof (inv_perm s s' Hp Hi) as Hi'. destruct Hp as [Pv Pr].
  assert (Hres : forall t, inv t -> exists l h,
            add_range t lo hi = mkVS (filter (fun v => negb ((lo <=? v) && (v <=? hi))) (vs_values t))
                                     ((l, h) :: filter (fun r => negb (overlapb lo hi r)) (vs_ranges t))
            /\ l = fold_right Z.min lo (map fst (filter (overlapb lo hi) (vs_ranges t)))
            /\ h = fold_right Z.max hi (map snd (filter (overlapb lo hi) (vs_ranges t)))).
  { intros t [Hw [Hv [Hpw Hout]]]. unfold add_range.
    destruct (merge_pass (vs_ranges t) lo hi) as [[l h] kept] eqn:E.
    destruct (merge_pass_canonical _ _ _ _ _ _ E Hle Hw Hpw) as [Hk [Hl Hh]].
    pose proof (merge_pass_apart _ _ _ _ _ _ E Hle Hw Hpw) as Hap. rewrite Forall_forall in Hap.
    destruct (merge_pass_wf _ _ _ _ _ _ E Hle Hw) as [Hlh _].
    exists l, h. split; [|auto]. unfold range_set_add. destruct (rmem (l, h) kept) eqn:Em.
    - exfalso. apply rmem_In in Em. specialize (Hap _ Em). unfold no_overlap in Hap. cbn [fst snd] in Hap. lia.
    - rewrite Hk. reflexivity. }
  destruct (Hres s Hi) as [l [h [Hs [Hl Hh]]]]. destruct (Hres s' Hi') as [l' [h' [Hs' [Hl' Hh']]]].
  assert (Pf : Permutation (filter (overlapb lo hi) (vs_ranges s)) (filter (overlapb lo hi) (vs_ranges s')))
    by (apply perm_filter, Pr).
  assert (l = l') by (rewrite Hl, Hl'; apply fold_min_perm, Permutation_map, Pf).
  assert (h = h') by (rewrite Hh, Hh'; apply fold_max_perm, Permutation_map, Pf).
  subst l' h'. rewrite Hs, Hs'. split; cbn [vs_values vs_ranges].
  - apply perm_filter, Pv.
  - rewrite <- H, <- H0. apply perm_skip. apply perm_filter, Pr.
Qed.

Lemma add_value_order_independent s s' v : st_perm s s' -> st_perm (add_value s v) (add_value s' v).
Proof.
  intros Hp. unfold add_value. rewrite <- (st_contains_perm s s' v Hp).
  destruct (st_contains s v); [exact Hp|]. destruct Hp as [Pv Pr]. split; cbn [vs_values vs_ranges]; [apply perm_skip; exact Pv|exact Pr].
Qed.
