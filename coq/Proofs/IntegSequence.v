(* Integration C03 x C19 x C18 x C07 x C01: the structure of the data-unit sequence make_sequence + autofill
   produce (Model/IntegSeq.v make_sequence_units), against the validator model with its pattern automata
   instantiated by the C18 Matcher. *)
From Coq Require Import ZArith List Bool Lia ZifyBool.
From VC2 Require Import Base.PyZ Model.Regex Model.NFA Model.Matcher Model.MatchSeq Model.EncoderSeq Proofs.EncoderSeqProofs
  Model.Stream Proofs.StreamProofs Proofs.StreamRefine Proofs.StreamLift Proofs.IntegEncoder
  Model.IntegSeq Proofs.MatchSeqProofs Proofs.IntegPatterns Proofs.IntegVersion.
Import ListNotations.
Open Scope Z_scope.

(* ---------------------------------------------------------------- A. rules that only look at picture data units *)
Definition is_picfrag_unit (u : dunit) : bool := is_picfrag_kind (u_kind u).

Lemma map_filter_kind : forall us, map u_kind (filter is_picfrag_unit us) = filter is_picfrag_kind (map u_kind us).
Proof. induction us as [|u r IH]; [reflexivity|]. cbn [map filter]. unfold is_picfrag_unit at 1. destruct (is_picfrag_kind (u_kind u)); cbn [map]; rewrite IH; reflexivity. Qed.

Lemma frags_filter : forall us o, frags_from o us = frags_from o (filter is_picfrag_unit us).
Proof.
  induction us as [|u r IH]; intros o; [reflexivity|]. cbn [filter]. unfold is_picfrag_unit at 1, is_picfrag_kind.
  destruct (u_kind u) eqn:E; cbn [is_picture_kind is_fragment_kind orb frags_from]; unfold frag_step; rewrite E;
    try (destruct o as [[[[? ?] ?] ?]|]); try apply IH; try reflexivity.
  all: match goal with |- context [if ?c then _ else _] => destruct c end; try apply IH; reflexivity.
Qed.

Lemma picnums_filter fields : forall us last idx,
  picnums_from fields last idx us = picnums_from fields last idx (filter is_picfrag_unit us).
Proof.
  induction us as [|u r IH]; intros last idx; [reflexivity|]. cbn [filter]. unfold is_picfrag_unit at 1, is_picfrag_kind.
  destruct (u_kind u) eqn:E; cbn [is_picture_kind is_fragment_kind orb picnums_from]; rewrite E; rewrite ?IH; reflexivity.
Qed.

Lemma count_filter us : count_pictures us = count_pictures (filter is_picfrag_unit us).
Proof.
  unfold count_pictures. f_equal. f_equal. induction us as [|u r IH]; [reflexivity|]. cbn [filter].
  unfold is_picfrag_unit at 1, is_picfrag_kind, is_new_picture at 1.
  destruct (u_kind u) eqn:E; cbn [is_picture_kind is_fragment_kind orb filter]; unfold is_new_picture at 2; rewrite ?E, IH; reflexivity.
Qed.

Lemma neutral_symbol_allowed profile k : is_picfrag_kind k = false -> profile_allows profile (kind_symbol k) = true.
Proof. destruct k as [h|[|] n tp|[|] n tp|[|] n c x y| | |]; intros H; try discriminate; reflexivity. Qed.

Section Layout.
  Variable h : hdr.
  Variable start : Z.
  Variable ps : list pic_spec.
  Variable us : list dunit.
  (* the layout: the first data unit is the header h, every other sequence header is h too, the picture and
     fragment data units are those of the pictures, in order; whatever else (padding, auxiliary data, repeated
     headers) is in between; the end of sequence is the last data unit and only there *)
  Hypothesis Hfirst : first_hdr us = Some h.
  Hypothesis Hhdrs : Forall (fun u => forall h', u_kind u = KSeqHdr h' -> h' = h) us.
  Hypothesis Hpics : filter is_picfrag_kind (map u_kind us) = pics_kinds start ps.
  Hypothesis Heos : eos_only_last us = true.
  Hypothesis Hspecs : Forall spec_ok ps.
  Hypothesis Hfields : h_pcm h = 1 -> start mod 2 = 0 /\ Z.of_nat (length ps) mod 2 = 0.

  Let Hcanon : map u_kind (filter is_picfrag_unit us) = map u_kind (map cu (pics_kinds start ps)).
  Proof. rewrite map_filter_kind, Hpics, map_map. cbn [cu u_kind]. rewrite map_id. reflexivity. Qed.

  Lemma layout_ends : ends_ok us = true.
  Proof. unfold ends_ok. rewrite Hfirst. exact Heos. Qed.

  Lemma layout_headers : headers_identical us = true.
  Proof.
    unfold headers_identical. rewrite Hfirst. apply forallb_forall. intros u Hu. rewrite Forall_forall in Hhdrs.
    specialize (Hhdrs u Hu). destruct (u_kind u); try reflexivity. rewrite (Hhdrs _ eq_refl). apply Z.eqb_refl.
  Qed.

  Lemma layout_fragments : fragments_ok us = true.
  Proof.
    unfold fragments_ok. rewrite frags_filter, (frags_kinds _ _ None Hcanon).
    rewrite <- (app_nil_r (map cu _)), pics_frags by exact Hspecs. reflexivity.
  Qed.

  Lemma layout_picnums : picnums_ok us = true.
  Proof.
    unfold picnums_ok. rewrite Hfirst, picnums_filter, (picnums_kinds _ _ _ None 0 Hcanon).
    rewrite <- (app_nil_r (map cu _)). apply pics_picnums; [exact I| |intros; reflexivity].
    intros Hf. apply Z.eqb_eq in Hf. destruct (Hfields Hf) as (A & _). rewrite A. reflexivity.
  Qed.

  Lemma layout_whole_frames : whole_frames us = true.
  Proof.
    unfold whole_frames. rewrite Hfirst, count_filter, (count_kinds _ _ Hcanon).
    destruct (h_pcm h =? 1) eqn:E; [|reflexivity]. cbn [negb orb].
    rewrite <- (app_nil_r (map cu _)), pics_count. cbn. apply Z.eqb_eq in E. destruct (Hfields E) as (_ & B). lia.
  Qed.

  Lemma layout_codes : Forall (fun p => h_profile h = if ps_hq p then 3 else 0) ps -> codes_allowed_in_profile us = true.
  Proof.
    intros Hp. unfold codes_allowed_in_profile. rewrite Hfirst. apply forallb_forall. intros u Hu. unfold u_symbol.
    destruct (is_picfrag_kind (u_kind u)) eqn:E; [|apply neutral_symbol_allowed; exact E].
    assert (Hin : In (u_kind u) (pics_kinds start ps)).
    { rewrite <- Hpics. apply filter_In. split; [apply in_map; exact Hu|exact E]. }
    pose proof (pics_codes h ps start Hp) as C. rewrite forallb_forall in C.
    specialize (C (cu (u_kind u)) (in_map cu _ _ Hin)). exact C.
  Qed.
End Layout.

(* ---------------------------------------------------------------- B. data_unit_makers (weave) *)
Definition is_pic_name (z : sym) : bool := (3 <=? z) && (z <=? 6).
Definition npic (out : list sym) : nat := length (filter is_pic_name out).

Lemma picfrag_name k : is_picfrag_kind k = is_pic_name (sym_num (kind_symbol k)).
Proof. destruct k as [h|[|] n tp|[|] n tp|[|] n c x y| | |]; reflexivity. Qed.

Lemma symbol_eqb_eq a b : symbol_eqb a b = true -> a = b.
Proof. destruct a, b; intros H; try reflexivity; discriminate. Qed.

Section Weave.
  Variable h : hdr.
  Variable s0 : symbol.

  Lemma weave_facts : forall out pks ks,
    Forall (fun k => is_picfrag_kind k = true /\ kind_symbol k = s0) pks ->
    weave h (Some s0) out pks = Some ks ->
    map (fun k => sym_num (kind_symbol k)) ks = out /\
    filter is_picfrag_kind ks = firstn (npic out) pks /\ (npic out <= length pks)%nat /\
    Forall (fun k => forall h', k = KSeqHdr h' -> h' = h) ks.
  Proof.
    induction out as [|z r IH]; intros pks ks Hp Hw.
    - cbn in Hw. injection Hw as <-. repeat split; [apply Nat.le_0_l|constructor].
    - cbn [weave] in Hw. destruct (num_sym z) as [s|] eqn:Ez; [|discriminate].
      apply num_sym_inv in Ez. subst z.
      assert (Neutral : forall k, is_picfrag_kind k = false -> kind_symbol k = s ->
                (forall h', k = KSeqHdr h' -> h' = h) ->
                option_map (cons k) (weave h (Some s0) r pks) = Some ks ->
                map (fun k => sym_num (kind_symbol k)) ks = sym_num s :: r /\
                filter is_picfrag_kind ks = firstn (npic (sym_num s :: r)) pks /\ (npic (sym_num s :: r) <= length pks)%nat /\
                Forall (fun k => forall h', k = KSeqHdr h' -> h' = h) ks).
      { intros k Hk Hs Hh Hw'. destruct (weave h (Some s0) r pks) as [ks'|] eqn:E; [|discriminate].
        injection Hw' as <-. destruct (IH pks ks' Hp E) as (A & B & C & D).
        subst s. unfold npic. cbn [map filter]. rewrite <- picfrag_name, Hk. fold (npic r).
        rewrite A. repeat split; try assumption. constructor; assumption. }
      destruct s.
      + apply (Neutral (KSeqHdr h)); [reflexivity|reflexivity| |exact Hw]. intros h' E. injection E as <-. reflexivity.
      + apply (Neutral KEos); [reflexivity|reflexivity| |exact Hw]. discriminate.
      + apply (Neutral KAux); [reflexivity|reflexivity| |exact Hw]. discriminate.
      + apply (Neutral KPad); [reflexivity|reflexivity| |exact Hw]. discriminate.
      + destruct (symbol_eqb s0 SLdPic) eqn:Es; [|discriminate]. apply symbol_eqb_eq in Es.
        destruct pks as [|k pks']; [discriminate|]. destruct (weave h (Some s0) r pks') as [ks'|] eqn:E; [|discriminate].
        injection Hw as <-. inversion Hp as [|? ? (Hk1 & Hk2) Hp']; subst. destruct (IH pks' ks' Hp' E) as (A & B & C & D).
        unfold npic. cbn [map filter is_pic_name sym_num]. rewrite Hk1, Hk2, A. cbn. fold (npic r). rewrite B.
        repeat split; [lia|]. constructor; [|exact D]. intros h' Eh. subst k. discriminate.
      + destruct (symbol_eqb s0 SHqPic) eqn:Es; [|discriminate]. apply symbol_eqb_eq in Es.
        destruct pks as [|k pks']; [discriminate|]. destruct (weave h (Some s0) r pks') as [ks'|] eqn:E; [|discriminate].
        injection Hw as <-. inversion Hp as [|? ? (Hk1 & Hk2) Hp']; subst. destruct (IH pks' ks' Hp' E) as (A & B & C & D).
        unfold npic. cbn [map filter is_pic_name sym_num]. rewrite Hk1, Hk2, A. cbn. fold (npic r). rewrite B.
        repeat split; [lia|]. constructor; [|exact D]. intros h' Eh. subst k. discriminate.
      + destruct (symbol_eqb s0 SLdFrag) eqn:Es; [|discriminate]. apply symbol_eqb_eq in Es.
        destruct pks as [|k pks']; [discriminate|]. destruct (weave h (Some s0) r pks') as [ks'|] eqn:E; [|discriminate].
        injection Hw as <-. inversion Hp as [|? ? (Hk1 & Hk2) Hp']; subst. destruct (IH pks' ks' Hp' E) as (A & B & C & D).
        unfold npic. cbn [map filter is_pic_name sym_num]. rewrite Hk1, Hk2, A. cbn. fold (npic r). rewrite B.
        repeat split; [lia|]. constructor; [|exact D]. intros h' Eh. subst k. discriminate.
      + destruct (symbol_eqb s0 SHqFrag) eqn:Es; [|discriminate]. apply symbol_eqb_eq in Es.
        destruct pks as [|k pks']; [discriminate|]. destruct (weave h (Some s0) r pks') as [ks'|] eqn:E; [|discriminate].
        injection Hw as <-. inversion Hp as [|? ? (Hk1 & Hk2) Hp']; subst. destruct (IH pks' ks' Hp' E) as (A & B & C & D).
        unfold npic. cbn [map filter is_pic_name sym_num]. rewrite Hk1, Hk2, A. cbn. fold (npic r). rewrite B.
        repeat split; [lia|]. constructor; [|exact D]. intros h' Eh. subst k. discriminate.
  Qed.
End Weave.

Lemma subseq_npic a b : subseq a b -> (npic a <= npic b)%nat.
Proof.
  induction 1 as [|s init out _ IH|c init out _ IH]; unfold npic in *; cbn [filter].
  - apply Nat.le_refl.
  - destruct (is_pic_name s); cbn [length]; lia.
  - destruct (is_pic_name c); cbn [length]; lia.
Qed.

Lemma npic_names pks : Forall (fun k => is_picfrag_kind k = true) pks -> npic (picture_names pks) = length pks.
Proof.
  unfold npic, picture_names. induction 1 as [|k r Hk _ IH]; [reflexivity|]. cbn [map filter].
  rewrite <- picfrag_name, Hk. cbn [length]. rewrite IH. reflexivity.
Qed.

(* ---------------------------------------------------------------- C. autofill *)
Lemma set_major_symbol v k : kind_symbol (set_major v k) = kind_symbol k.
Proof. destruct k; reflexivity. Qed.

Lemma set_major_filter v : forall ks, filter is_picfrag_kind (map (set_major v) ks) = filter is_picfrag_kind ks.
Proof.
  induction ks as [|k r IH]; [reflexivity|]. cbn [map filter].
  destruct k; cbn [set_major is_picfrag_kind is_picture_kind is_fragment_kind orb]; rewrite IH; reflexivity.
Qed.

Lemma set_major_version d sh v ks : autofilled_version d sh (map (set_major v) ks) = autofilled_version d sh ks.
Proof.
  unfold autofilled_version. rewrite map_map. f_equal. apply map_ext. intros k. destruct k; reflexivity.
Qed.

Lemma fill_offsets_eq : forall kl prev, fill_offsets prev kl = with_offsets prev kl.
Proof. induction kl as [|[k len] r IH]; intros prev; [reflexivity|]. cbn [fill_offsets with_offsets]. rewrite IH. reflexivity. Qed.

Lemma fill_offsets_kinds ks : forall lens, length lens = length ks -> map u_kind (fill_offsets 0 (combine ks lens)) = ks.
Proof.
  intros lens Hl. rewrite fill_offsets_eq, with_offsets_kinds. revert lens Hl.
  induction ks as [|k r IH]; intros [|x lens] Hl; try discriminate; [reflexivity|]. cbn [combine map fst]. rewrite IH; [reflexivity|].
  cbn in Hl. lia.
Qed.

(* ---------------------------------------------------------------- D. first and last data unit *)
(* a sequence the generic pattern matches starts with a sequence header *)
Lemma generic_first_hdr us : Mgeneric_ok us = true -> exists h, first_hdr us = Some h.
Proof.
  unfold Mgeneric_ok, generic_pattern_ok. destruct us as [|u r]; [vm_compute; discriminate|].
  cbn [map automaton_accepts first_hdr]. destruct (mstep gstart_m (u_symbol u)) as [m|] eqn:E; [|discriminate]. intros _.
  pose proof generic_first_is_seqhdr as G. unfold gen_first_is_seqhdr_b in G. rewrite forallb_forall in G.
  assert (Hin : In (u_symbol u) all_symbols) by (destruct (u_symbol u); cbn; tauto).
  specialize (G _ Hin). rewrite E in G. apply symbol_eqb_eq in G. unfold u_symbol in G.
  destruct (u_kind u) as [h|[|] n tp|[|] n tp|[|] n c x y| | |]; try discriminate. exists h. reflexivity.
Qed.

Lemma weave_no_pictures h : forall out ks, weave h None out [] = Some ks -> weave h (Some SHqPic) out [] = Some ks.
Proof.
  induction out as [|z r IH]; intros ks Hw; [exact Hw|]. cbn [weave] in *.
  destruct (num_sym z) as [s|]; [|discriminate].
  destruct s; try discriminate;
    (destruct (weave h None r []) as [ks'|] eqn:E; [|discriminate]; rewrite (IH ks' eq_refl); exact Hw).
Qed.

Definition pic_symbol (hq whole : bool) : symbol :=
  if whole then (if hq then SHqPic else SLdPic) else (if hq then SHqFrag else SLdFrag).

Lemma pics_kinds_uniform hq whole : forall ps n, Forall (fun p => ps_hq p = hq /\ (ps_fsc p =? 0) = whole) ps ->
  Forall (fun k => is_picfrag_kind k = true /\ kind_symbol k = pic_symbol hq whole) (pics_kinds n ps).
Proof.
  induction ps as [|p r IH]; intros n H; [constructor|]. inversion H as [|? ? (Hq & Hw) Hr]; subst.
  cbn [pics_kinds]. apply Forall_app. split; [|apply IH; exact Hr].
  unfold pic_kinds. destruct (ps_fsc p =? 0).
  - constructor; [|constructor]. split; reflexivity.
  - constructor; [split; reflexivity|]. apply Forall_forall. intros k Hk. apply in_map_iff in Hk. destruct Hk as (f & <- & _).
    split; reflexivity.
Qed.

Lemma first_symbol_uniform s0 pks : Forall (fun k => is_picfrag_kind k = true /\ kind_symbol k = s0) pks ->
  pks <> [] -> first_symbol pks = Some s0.
Proof. intros H Hn. destruct pks as [|k r]; [contradiction|]. inversion H as [|? ? (_ & Hk) _]; subst. reflexivity. Qed.

(* what the picture data units of well-formed picture specifications carry *)
Lemma pics_kinds_in : forall ps n k, Forall spec_ok ps -> In k (pics_kinds n ps) ->
  match k with
  | KPic _ _ tp | KFragFirst _ _ tp => 0 < tp_sx tp /\ 0 < tp_sy tp
  | KFragData _ _ c _ _ => 1 <= c
  | _ => True
  end.
Proof.
  induction ps as [|p r IH]; intros n k Hs Hin; [contradiction|]. inversion Hs as [|? ? (Hx & Hy & Hf) Hr]; subst.
  cbn [pics_kinds] in Hin. apply in_app_or in Hin. destruct Hin as [Hin|Hin]; [|exact (IH _ _ Hr Hin)].
  unfold pic_kinds in Hin. destruct (ps_fsc p =? 0) eqn:E0.
  - destruct Hin as [<-|[]]. split; assumption.
  - destruct Hin as [<-|Hin]; [split; assumption|]. apply in_map_iff in Hin. destruct Hin as (f & <- & Hf').
    unfold frag_kind.
    pose proof (frag_split_counts (tp_sx (ps_tp p)) (tp_sy (ps_tp p)) (ps_fsc p)) as C. rewrite Forall_forall in C.
    specialize (C ltac:(lia) ltac:(lia) ltac:(lia) f Hf'). lia.
Qed.

Lemma fill_offsets_lens (P : Z -> Prop) : forall ks lens prev, Forall P lens ->
  Forall (fun u => P (u_len u)) (fill_offsets prev (combine ks lens)).
Proof.
  induction ks as [|k r IH]; intros [|x lens] prev H; try constructor.
  - inversion H; assumption.
  - apply IH. inversion H; assumption.
Qed.

Lemma hdr_eqb_refl h : hdr_eqb h h = true.
Proof. unfold hdr_eqb. rewrite !Z.eqb_refl. reflexivity. Qed.


(* ---------------------------------------------------------------- E. the structure theorem *)
Section MakeSequence.
  Variable lvl_re : Z -> re.            (* the level table of ordering patterns *)
  Variable level_known : Z -> bool.
  Variable d : Autofill.defaults.       (* autofill's default-value table *)
  Variable sh : Autofill.seqhdr.        (* the preset fields of the sequence header *)

  Theorem make_sequence_accepted (fuel : nat) (extra : list re) (h : hdr) (start : Z) (ps : list pic_spec) (hq whole : bool)
          (ks : list kind) (lens : list Z) :
    let us := fill_offsets 0 (combine ks lens) in
    (* every pattern uses `$` only where nothing mandatory follows (C18/C19's hypothesis) *)
    eos_ok (lvl_re (h_level h)) = true -> all_ok extra ->
    (* the pictures: one codec configuration *)
    Forall spec_ok ps -> Forall (fun p => ps_hq p = hq /\ (ps_fsc p =? 0) = whole) ps ->
    (h_pcm h = 1 -> start mod 2 = 0 /\ Z.of_nat (length ps) mod 2 = 0) ->
    Forall (fun p => h_profile h = if ps_hq p then 3 else 0) ps ->
    (* h_pvmin abstracts the header's presets *)
    h_pvmin h = hdr_pvmin d sh ->
    (* make_sequence returned these data units; one serialised length per data unit *)
    make_sequence_kinds fuel lvl_re extra d sh h (pics_kinds start ps) = Some ks -> length lens = length ks ->
    (* every data unit is at least its parse_info long; profile and level of the header are of the enums *)
    Forall (fun l => 13 <= l) lens -> profile_known (h_profile h) = true -> level_known (h_level h) = true ->
    (* no end_of_sequence before the last data unit: guaranteed by the shape of the level's pattern (`... end_of_sequence`
       with no other end_of_sequence, wildcard or `$`: every level but 0), otherwise STILL A HYPOTHESIS *)
    (ends_with_eos (lvl_re (h_level h)) = true \/ eos_only_last us = true) ->
    map u_kind us = ks /\ units_valid level_known us = true /\
    ends_ok us = true /\ offsets_ok us = true /\ headers_identical us = true /\ codes_allowed_in_profile us = true /\
    version_ok us = true /\ picnums_ok us = true /\ whole_frames us = true /\ fragments_ok us = true /\
    Mlevel_ok lvl_re us = true /\ Mgeneric_ok us = true /\
    Mrun lvl_re level_known us = Accept.
  Proof.
    intros us Hlok Hxok Hspecs Hunif Hfields Hprof Hpv Hmk Hlen Hl13 Hpk Hlk Heos'.
    assert (Hk : map u_kind us = ks) by (apply fill_offsets_kinds; exact Hlen).
    split; [exact Hk|].
    unfold make_sequence_kinds, make_sequence_names in Hmk.
    destruct (make_seq fuel (picture_names (pics_kinds start ps)) (generic_re :: lvl_re (h_level h) :: extra) MS_DEPTH_LIMIT MS_PRIORITY)
      as [out| |] eqn:Ems; try discriminate.
    destruct (weave h (first_symbol (pics_kinds start ps)) out (pics_kinds start ps)) as [ks0|] eqn:Ew; [|discriminate].
    injection Hmk as Hks. set (v := autofilled_version d sh ks0) in *.
    (* C19: the names match every pattern and contain the picture names in order *)
    assert (Hall : all_ok (generic_re :: lvl_re (h_level h) :: extra)) by (constructor; [reflexivity|constructor; assumption]).
    destruct (make_seq_sound _ MS_PRIORITY MS_DEPTH_LIMIT Hall fuel _ out Ems) as (Hsub & Hlang).
    pose proof (Forall_inv Hlang) as Lgen. pose proof (Forall_inv (Forall_inv_tail Hlang)) as Llvl. cbv beta in Lgen, Llvl. clear Hlang.
    (* the makers *)
    pose proof (pics_kinds_uniform hq whole ps start Hunif) as Hu.
    assert (Hw : weave h (Some (pic_symbol hq whole)) out (pics_kinds start ps) = Some ks0).
    { destruct (pics_kinds start ps) as [|k0 r0] eqn:Epk.
      - destruct whole, hq; cbn [pic_symbol]; cbn [first_symbol] in Ew.
        all: revert Ew; generalize ks0; clear; induction out as [|z r IH]; intros ks0 Hw; [exact Hw|]; cbn [weave] in *;
          destruct (num_sym z) as [s|]; [|discriminate]; destruct s; try discriminate;
          (destruct (weave h None r []) as [ks'|] eqn:E; [|discriminate]; rewrite (IH ks' eq_refl); exact Hw).
      - rewrite (first_symbol_uniform _ _ Hu) in Ew; [exact Ew|discriminate]. }
    destruct (weave_facts h _ out _ ks0 Hu Hw) as (W1 & W2 & W3 & W4).
    assert (Hpf : Forall (fun k => is_picfrag_kind k = true) (pics_kinds start ps)).
    { eapply Forall_impl; [|exact Hu]. cbv beta. intros k [A _]. exact A. }
    assert (W2' : filter is_picfrag_kind ks0 = pics_kinds start ps).
    { rewrite W2. apply firstn_all2. pose proof (subseq_npic _ _ Hsub) as Hn. rewrite (npic_names _ Hpf) in Hn. exact Hn. }
    (* the symbols of the final data units are the names *)
    assert (Hsyms : map sym_num (map u_symbol us) = out).
    { rewrite <- W1. unfold u_symbol. rewrite map_map. rewrite <- (map_map u_kind (fun k => sym_num (kind_symbol k))), Hk, <- Hks, map_map.
      apply map_ext. intros k. rewrite set_major_symbol. reflexivity. }
    assert (Rgen : Mgeneric_ok us = true) by (apply generic_ok_iff; rewrite Hsyms; exact Lgen).
    assert (Heos : eos_only_last us = true).
    { destruct Heos' as [He|He]; [|exact He]. destruct (ends_with_eos_names _ _ Llvl He) as (w' & Ewn & Hn).
      apply (names_eos_only_last us w'); [rewrite Hsyms; exact Ewn|exact Hn]. }
    (* the header *)
    set (h' := with_major v h).
    assert (Hhdrs : Forall (fun u => forall h'', u_kind u = KSeqHdr h'' -> h'' = h') us).
    { apply Forall_forall. intros u Hin h'' E. pose proof (in_map u_kind _ _ Hin) as Hin'. rewrite Hk, <- Hks in Hin'.
      apply in_map_iff in Hin'. destruct Hin' as (k & Ek & Hin0). rewrite E in Ek. rewrite Forall_forall in W4.
      destruct k; try discriminate. cbn [set_major] in Ek. injection Ek as <-. rewrite (W4 _ Hin0 _ eq_refl). reflexivity. }
    assert (Hfirst : first_hdr us = Some h').
    { destruct (generic_first_hdr us Rgen) as (h'' & Hf). rewrite Hf. f_equal.
      destruct us as [|u r]; [discriminate|]. cbn [first_hdr] in Hf. inversion Hhdrs as [|? ? Hu0 _]; subst.
      destruct (u_kind u) eqn:E; try discriminate. injection Hf as <-. apply Hu0. reflexivity. }
    assert (Hpics : filter is_picfrag_kind (map u_kind us) = pics_kinds start ps).
    { rewrite Hk, <- Hks, set_major_filter. exact W2'. }
    assert (Rlvl : Mlevel_ok lvl_re us = true) by (apply (level_ok_iff lvl_re us h' Hfirst Hlok); rewrite Hsyms; exact Llvl).
    pose proof (layout_ends h' us Hfirst Heos) as R1.
    assert (R2 : offsets_ok us = true) by (unfold us; rewrite fill_offsets_eq; apply with_offsets_ok).
    pose proof (layout_headers h' us Hfirst Hhdrs) as R3.
    pose proof (layout_codes h' start ps us Hfirst Hpics Hprof) as R4.
    pose proof (layout_picnums h' start ps us Hfirst Hpics Hfields) as R6.
    pose proof (layout_whole_frames h' start ps us Hfirst Hpics Hfields) as R7.
    pose proof (layout_fragments start ps us Hpics Hspecs) as R8.
    (* C07: the version *)
    assert (Hnz : Forall (unit_nz) us).
    { apply Forall_forall. intros u Hin. unfold unit_nz, kind_nz. destruct (u_kind u) as [|? ? ?|? ? ?|q n c x y| | |] eqn:E; try exact I.
      assert (Hin' : In (KFragData q n c x y) (pics_kinds start ps)).
      { rewrite <- Hpics. apply filter_In. split; [rewrite <- E; apply in_map; exact Hin|reflexivity]. }
      pose proof (pics_kinds_in _ _ _ Hspecs Hin') as C. cbv beta iota in C. lia. }
    assert (R5c : version_ok us = true /\ Forall (tp_codable (h_major h')) us).
    { apply (autofilled_version_ok d sh h' Hpv us Hfirst Hnz).
      - eapply Forall_impl; [|exact Hhdrs]. cbv beta. intros u Hu0 h'' E. rewrite (Hu0 _ E). reflexivity.
      - rewrite Hk, <- Hks, set_major_version. reflexivity. }
    destruct R5c as (R5 & Hcod).
    (* individually valid data units *)
    assert (Hval : units_valid level_known us = true).
    { unfold units_valid. rewrite Hfirst. apply forallb_forall. intros u Hin. unfold unit_valid.
      pose proof (fill_offsets_lens (fun l => 13 <= l) ks lens 0 Hl13) as HL. fold us in HL. rewrite Forall_forall in HL, Hhdrs, Hcod.
      apply andb_true_intro. split; [apply Z.leb_le; exact (HL u Hin)|].
      specialize (Hcod u Hin). unfold tp_codable in Hcod.
      destruct (u_kind u) as [h''|q n tp|q n tp|q n c x y| | |] eqn:E; try reflexivity.
      - rewrite (Hhdrs u Hin _ E). cbn [with_major h' h_profile h_level]. rewrite Hpk, Hlk, hdr_eqb_refl, orb_true_r. reflexivity.
      - assert (Hin' : In (KPic q n tp) (pics_kinds start ps)).
        { rewrite <- Hpics. apply filter_In. split; [rewrite <- E; apply in_map; exact Hin|reflexivity]. }
        pose proof (pics_kinds_in _ _ _ Hspecs Hin') as C. cbv beta iota in C. unfold tp_valid. lia.
      - assert (Hin' : In (KFragFirst q n tp) (pics_kinds start ps)).
        { rewrite <- Hpics. apply filter_In. split; [rewrite <- E; apply in_map; exact Hin|reflexivity]. }
        pose proof (pics_kinds_in _ _ _ Hspecs Hin') as C. cbv beta iota in C. unfold tp_valid. lia.
      - assert (Hin' : In (KFragData q n c x y) (pics_kinds start ps)).
        { rewrite <- Hpics. apply filter_In. split; [rewrite <- E; apply in_map; exact Hin|reflexivity]. }
        pose proof (pics_kinds_in _ _ _ Hspecs Hin') as C. cbv beta iota in C. lia. }
    repeat (split; [assumption|]).
    apply (iff_one_sequence matcher gstart_m mstep is_complete matcher (lstart_m lvl_re) lstep_m lcomplete_m level_known
             generic_first_is_seqhdr us Hval).
    - apply eos_only_last_one_sequence. exact Heos.
    - unfold rules_ok. fold (Mlevel_ok lvl_re us). fold (Mgeneric_ok us).
      rewrite R1, R2, R3, R4, R5, R6, R7, R8, Rlvl, Rgen. reflexivity.
  Qed.
End MakeSequence.
