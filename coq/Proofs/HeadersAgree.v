(* Proofs/HeadersAgree.v -- header part of C08 "deserialiser and validator read identical content".

   Two independent models of the two readers of a sequence header:
     validator     Model/Headers.v      sequence_header (bit reader of decoder/io.py, checks in code order)
     deserialiser  Model/SerDesVC2.v    sequence_header_prog run by the SerDes interpreter of Model/SerDes.v
   Common ground: `sdesc`, the small fragment of the description language used by the header programs, with
   its obvious meaning `sem` ("read the values, append them to the context dictionary").
     (B) des_refines:  the Deserialiser interpreter (subcontext stack, holes, set_context_type patching,
         index bookkeeping, verification on leaving a context) run on `compile d` does what `sem d` says, for
         every well-formed description -- generic, by induction on d.
     (A) top_sequence_header:  every SUCCESSFUL run of the validator's sequence_header performs the reads of
         `sem D_top` on the same bits (partial-correctness calculus `pc` over the validator's monad, one
         lemma per syntax function), and its _level_constrained_values dictionary -- in which
         assert_level_constraint records EVERY coded field -- is the dictionary obtained by inserting the
         deserialised fields under their level-constraint names.
   sequence_header_agree combines the two.  All bit strings, all tables, all level predicates, any fuel. *)
From Coq Require Import ZArith List Bool Lia.
From VC2 Require Import Model.SerDes Model.SerDesVC2.
Import ListNotations.
Open Scope Z_scope.

(* ---- simple descriptions: the fragment of the description language used by the header programs ---- *)
Inductive sdesc :=
| SNil
| SSeq (a b : sdesc)
| SUint (t : Z)
| SUintLit (t n : Z)
| SFlag (t : Z) (body : sdesc)
| SIndex (body : sdesc)
| SSub (t ty : Z) (body : sdesc).

Fixpoint compile (d : sdesc) : prog unit :=
  match d with
  | SNil => Ret tt
  | SSeq a b => pseq (compile a) (compile b)
  | SUint t => puint t
  | SUintLit t n => Op (OUintLit t n) (fun _ => Ret tt)
  | SFlag t b => pflag t (compile b)
  | SIndex b => pindex (compile b)
  | SSub t ty b => psub t ty (compile b)
  end.

Definition app1 (F : fields) (t : Z) (v : val) : fields := F ++ [(t, v)].

(* the obvious meaning: read the values, append them to the dictionary of the current context *)
Fixpoint sem (d : sdesc) (F : fields) (r : io) : option (fields * io) :=
  match d with
  | SNil => Some (F, r)
  | SSeq a b => match sem a F r with Some (F1, r1) => sem b F1 r1 | None => None end
  | SUint t => match read_val KUint r with Ok (v, r') => Some (app1 F t v, r') | Err _ => None end
  | SUintLit t n => match read_val (KUintLit n) r with Ok (v, r') => Some (app1 F t v, r') | Err _ => None end
  | SFlag t b =>
      match read_val KBool r with
      | Ok (v, r') => if val_bool v then sem b (app1 F t v) r' else Some (app1 F t v, r')
      | Err _ => None
      end
  | SIndex b =>
      match read_val KUint r with
      | Ok (v, r') => if val_int v =? 0 then sem b (app1 F 120 v) r' else Some (app1 F 120 v, r')
      | Err _ => None
      end
  | SSub t ty b =>
      match sem b [] r with Some (G, r') => Some (app1 F t (VC ty G), r') | None => None end
  end.

(* targets a description may set in its own context *)
Fixpoint targets (d : sdesc) : list Z :=
  match d with
  | SNil => []
  | SSeq a b => targets a ++ targets b
  | SUint t | SUintLit t _ => [t]
  | SFlag t b => t :: targets b
  | SIndex b => 120 :: targets b
  | SSub t _ _ => [t]
  end.
Definition zin (t : Z) (l : list Z) : bool := existsb (Z.eqb t) l.
Fixpoint nodupb (l : list Z) : bool := match l with [] => true | x :: r => negb (zin x r) && nodupb r end.
Fixpoint wfd (d : sdesc) : bool :=
  match d with
  | SNil | SUint _ | SUintLit _ _ => true
  | SSeq a b => wfd a && wfd b
  | SFlag _ b | SIndex b | SSub _ _ b => wfd b
  end.
(* well formed: no target is set twice in one context (on any path) *)
Fixpoint wf (d : sdesc) : bool :=
  nodupb (targets d) &&
  match d with
  | SSeq a b => wf a && wf b
  | SFlag _ b | SIndex b | SSub _ _ b => wf b
  | _ => true
  end.

Definition ix_of (F : fields) : indices := map (fun kv => (fst kv, Used)) F.
Definition plain (v : val) : Prop := match v with VHole | VL _ => False | _ => True end.
Definition simple (F : fields) : Prop := Forall (fun kv => plain (snd kv)) F.
Definition keys (F : fields) : list Z := map fst F.

Lemma alookup_none_keys {V} t (F : list (Z * V)) : ~ In t (map fst F) -> alookup t F = None.
Proof.
  induction F as [|[k v] F IH]; cbn; [reflexivity|]. intros H.
  destruct (Z.eqb_spec k t); [exfalso; apply H; left; assumption|]. apply IH. intros X. apply H. right. exact X.
Qed.
Lemma aupd_fresh {V} t (v : V) F : ~ In t (map fst F) -> aupd t v F = F ++ [(t, v)].
Proof.
  induction F as [|[k x] F IH]; cbn; [reflexivity|]. intros H.
  destruct (Z.eqb_spec k t); [exfalso; apply H; left; assumption|]. f_equal. apply IH. intros X. apply H. right. exact X.
Qed.
Lemma aupd_last {V} t (v w : V) F : ~ In t (map fst F) -> aupd t w (F ++ [(t, v)]) = F ++ [(t, w)].
Proof.
  induction F as [|[k x] F IH]; cbn; [rewrite Z.eqb_refl; reflexivity|]. intros H.
  destruct (Z.eqb_spec k t); [exfalso; apply H; left; assumption|]. f_equal. apply IH. intros X. apply H. right. exact X.
Qed.
Lemma alookup_last {V} t (v : V) F : ~ In t (map fst F) -> alookup t (F ++ [(t, v)]) = Some v.
Proof.
  induction F as [|[k x] F IH]; cbn; [rewrite Z.eqb_refl; reflexivity|]. intros H.
  destruct (Z.eqb_spec k t); [exfalso; apply H; left; assumption|]. apply IH. intros X. apply H. right. exact X.
Qed.
Lemma keys_ix F : map fst (ix_of F) = keys F.
Proof. unfold ix_of, keys. rewrite map_map. reflexivity. Qed.
Lemma ix_app F t v : ix_of (F ++ [(t, v)]) = ix_of F ++ [(t, Used)].
Proof. unfold ix_of. rewrite map_app. reflexivity. Qed.
Lemma keys_app F t v : keys (F ++ [(t, v)]) = keys F ++ [t].
Proof. unfold keys. rewrite map_app. reflexivity. Qed.

Lemma plug_simple x F : simple F -> plug x F = F.
Proof.
  induction 1 as [|[k v] F Hv HF IH]; cbn; [reflexivity|]. unfold plug in IH. rewrite IH. f_equal.
  destruct v; cbn in *; try reflexivity; contradiction.
Qed.
Lemma plug_app x F G : plug x (F ++ G) = plug x F ++ plug x G.
Proof. unfold plug. apply map_app. Qed.

Lemma verify_all_used F : verify_fields (ix_of F) F = Ok tt.
Proof.
  unfold verify_fields.
  assert (H : forall ks, incl ks (keys F) -> verify_keys (ix_of F) F ks = Ok tt).
  { induction ks as [|t ks IH]; intros Hi; cbn; [reflexivity|].
    assert (Ht : In t (keys F)) by (apply Hi; left; reflexivity).
    assert (HU : alookup t (ix_of F) = Some Used).
    { clear -Ht. induction F as [|[k v] F IH]; cbn in *; [contradiction|].
      destruct (Z.eqb_spec k t); [reflexivity|]. apply IH. destruct Ht; [contradiction | assumption]. }
    destruct (alookup t F) as [v|]; [|apply IH; intros x Hx; apply Hi; right; exact Hx].
    unfold target_complete. rewrite HU. cbn. apply IH. intros x Hx. apply Hi. right. exact Hx. }
  apply H. apply incl_refl.
Qed.

Lemma run_pseq stp A (p : prog unit) (q : prog A) s :
  run stp (pseq p q) s = match run stp p s with Ok (_, s') => run stp q s' | Err e => Err e end.
Proof.
  revert s. induction p as [a|o k IH]; intros s; cbn; [reflexivity|].
  destruct (stp o s) as [[r s']|e]; cbn; [apply IH | reflexivity].
Qed.

(* the state of a Deserialiser in the middle of a context whose targets so far are all used *)
Definition mk (ty : Z) (F : fields) (stk : list frame) (r : io) : st := mkst ty F (ix_of F) stk r.

Lemma des_prim_fresh k t ty F stk r v r' :
  ~ In t (keys F) -> read_val k r = Ok (v, r') ->
  des_prim k t (mk ty F stk r) = Ok (v, mk ty (app1 F t v) stk r').
Proof.
  intros Hf E. unfold des_prim, mk. cbn. rewrite E. cbn. unfold set_value. cbn.
  rewrite alookup_none_keys by (rewrite keys_ix; exact Hf). unfold set_fix. cbn.
  rewrite !aupd_fresh by (try rewrite keys_ix; exact Hf). unfold app1. rewrite ix_app. reflexivity.
Qed.

Lemma in_app_l {A} (x : A) l1 l2 : In x l1 -> In x (l1 ++ l2). Proof. intros; apply in_or_app; auto. Qed.

Lemma zin_false t l : zin t l = false -> ~ In t l.
Proof.
  unfold zin. intros H X. assert (existsb (Z.eqb t) l = true); [|congruence].
  apply existsb_exists. exists t. split; [exact X | apply Z.eqb_refl].
Qed.
Lemma nodupb_app l1 l2 : nodupb (l1 ++ l2) = true -> nodupb l1 = true /\ nodupb l2 = true /\ (forall x, In x l1 -> ~ In x l2).
Proof.
  induction l1 as [|a l1 IH]; cbn; intros H; [repeat split; auto|].
  apply andb_true_iff in H. destruct H as [H1 H2]. destruct (IH H2) as (A1 & A2 & A3).
  apply negb_true_iff in H1. pose proof (zin_false _ _ H1) as N.
  repeat split; auto.
  - apply andb_true_iff. split; [|exact A1]. apply negb_true_iff.
    destruct (zin a l1) eqn:E; [|reflexivity]. exfalso. apply N. apply in_or_app. left.
    unfold zin in E. apply existsb_exists in E. destruct E as (x & Hx & Ex). apply Z.eqb_eq in Ex. subst. exact Hx.
  - intros x Hx. destruct Hx as [E|Hx]; [subst; intros X; apply N; apply in_or_app; right; exact X | apply A3; exact Hx].
Qed.

(* what sem adds are targets of the description *)
Lemma sem_keys d : forall F r F' r', sem d F r = Some (F', r') ->
  exists G, F' = F ++ G /\ incl (keys G) (targets d).
Proof.
  induction d; intros F r F' r' H; cbn [sem] in H.
  - inversion H; subst. exists []. rewrite app_nil_r. split; [reflexivity | intros x []].
  - destruct (sem d1 F r) as [[F1 r1]|] eqn:E1; [|discriminate].
    destruct (IHd1 _ _ _ _ E1) as (G1 & -> & I1). destruct (IHd2 _ _ _ _ H) as (G2 & -> & I2).
    exists (G1 ++ G2). rewrite app_assoc. split; [reflexivity|]. unfold keys in *. rewrite map_app. cbn.
    intros x Hx. apply in_app_or in Hx. apply in_or_app. destruct Hx; [left; apply I1 | right; apply I2]; assumption.
  - destruct (read_val KUint r) as [[v r1]|]; [|discriminate]. inversion H; subst. exists [(t, v)]. split; [reflexivity|]. cbn. intros x Hx. exact Hx.
  - destruct (read_val (KUintLit n) r) as [[v r1]|]; [|discriminate]. inversion H; subst. exists [(t, v)]. split; [reflexivity|]. cbn. intros x Hx. exact Hx.
  - destruct (read_val KBool r) as [[v r1]|]; [|discriminate]. destruct (val_bool v).
    + destruct (IHd _ _ _ _ H) as (G & -> & I). exists ((t, v) :: G). unfold app1. rewrite <- app_assoc. split; [reflexivity|].
      cbn. intros x Hx. destruct Hx as [E|Hx]; [left; exact E | right; apply I; exact Hx].
    + inversion H; subst. exists [(t, v)]. split; [reflexivity|]. cbn. intros x Hx. destruct Hx as [E|[]]. left; exact E.
  - destruct (read_val KUint r) as [[v r1]|]; [|discriminate]. destruct (val_int v =? 0).
    + destruct (IHd _ _ _ _ H) as (G & -> & I). exists ((120, v) :: G). unfold app1. rewrite <- app_assoc. split; [reflexivity|].
      cbn. intros x Hx. destruct Hx as [E|Hx]; [left; exact E | right; apply I; exact Hx].
    + inversion H; subst. exists [(120, v)]. split; [reflexivity|]. cbn. intros x Hx. destruct Hx as [E|[]]. left; exact E.
  - destruct (sem d [] r) as [[G r1]|]; [|discriminate]. inversion H; subst. exists [(t, VC ty G)]. split; [reflexivity|].
    cbn. intros x Hx. exact Hx.
Qed.

Lemma read_bit_rem r b r' : SerDes.read_bit r = Ok (b, r') -> rem r = None -> rem r' = None.
Proof.
  unfold SerDes.read_bit. intros H E. rewrite E in H. destruct (bits r); [discriminate|]. inversion H; subst. reflexivity.
Qed.
Lemma read_bits_rem n : forall r l r', read_bits n r = Ok (l, r') -> rem r = None -> rem r' = None.
Proof.
  induction n as [|n IH]; intros r l r' H E; cbn in H; [inversion H; subst; exact E|].
  destruct (SerDes.read_bit r) as [[b r1]|] eqn:E1; cbn in H; [|discriminate].
  destruct (read_bits n r1) as [[l1 r2]|] eqn:E2; cbn in H; [|discriminate]. inversion H; subst.
  eapply IH; [exact E2 | eapply read_bit_rem; eassumption].
Qed.
Lemma read_uint_loop_rem f : forall a r v r', SerDes.read_uint_loop f a r = Ok (v, r') -> rem r = None -> rem r' = None.
Proof.
  induction f as [|f IH]; intros a r v r' H E; cbn in H; [discriminate|].
  destruct (SerDes.read_bit r) as [[b r1]|] eqn:E1; cbn in H; [|discriminate].
  pose proof (read_bit_rem _ _ _ E1 E) as R1. destruct b; [inversion H; subst; exact R1|].
  destruct (SerDes.read_bit r1) as [[c r2]|] eqn:E2; cbn in H; [|discriminate].
  eapply IH; [exact H | eapply read_bit_rem; eassumption].
Qed.
Definition hkind (k : kind) : Prop := match k with KBool | KUint | KUintLit _ => True | _ => False end.
Lemma read_val_ok k r v r' : hkind k -> read_val k r = Ok (v, r') -> rem r = None -> rem r' = None /\ plain v.
Proof.
  intros Hk H E. destruct k; try contradiction; cbn [read_val] in H.
  - destruct (SerDes.read_bit r) as [[b r1]|] eqn:E1; cbn [rbind] in H; [|discriminate]. inversion H; subst.
    split; [eapply read_bit_rem; eassumption | exact I].
  - destruct (read_bits (Z.to_nat (n * 8)) r) as [[l r1]|] eqn:E1; cbn [rbind] in H; [|discriminate]. inversion H; subst.
    split; [eapply read_bits_rem; eassumption | exact I].
  - destruct (SerDes.read_uint r) as [[z r1]|] eqn:E1; cbn [rbind] in H; [|discriminate].
    inversion H; subst. unfold SerDes.read_uint in E1. split; [eapply read_uint_loop_rem; eassumption | exact I].
Qed.

Lemma simple_app1 F t v : simple F -> plain v -> simple (app1 F t v).
Proof. intros H P. unfold simple, app1. apply Forall_app. split; [exact H | constructor; [exact P | constructor]]. Qed.

Lemma not_in_app1 t F t' v : ~ In t (keys F) -> t <> t' -> ~ In t (keys (app1 F t' v)).
Proof. intros H N. unfold app1. rewrite keys_app. intros X. apply in_app_or in X. destruct X as [X|[X|[]]]; [apply H; exact X | apply N; symmetry; exact X]. Qed.

Lemma prim_step k t ty F stk r v r' (o : op) :
  ~ In t (keys F) -> read_val k r = Ok (v, r') ->
  des_prim k t (mk ty F stk r) = Ok (v, mk ty (app1 F t v) stk r').
Proof. apply des_prim_fresh. Qed.

Theorem des_refines d : forall ty F stk r F' r',
  wf d = true -> (forall t, In t (targets d) -> ~ In t (keys F)) -> simple F -> rem r = None ->
  sem d F r = Some (F', r') ->
  run des_step (compile d) (mk ty F stk r) = Ok (tt, mk ty F' stk r') /\ simple F' /\ rem r' = None.
Proof.
  induction d; intros ty0 F stk r F' r' W D S R H; cbn [sem] in H; cbn [wf targets] in W, D.
  - inversion H; subst. cbn. auto.
  - apply andb_true_iff in W. destruct W as [N W]. apply andb_true_iff in W. destruct W as [W1 W2].
    apply nodupb_app in N. destruct N as (_ & _ & N).
    destruct (sem d1 F r) as [[F1 r1]|] eqn:E1; [|discriminate].
    destruct (IHd1 ty0 F stk r F1 r1 W1) as (X1 & S1 & R1); auto.
    { intros t Ht. apply D. apply in_or_app. left. exact Ht. }
    destruct (sem_keys _ _ _ _ _ E1) as (G & -> & IG).
    destruct (IHd2 ty0 (F ++ G) stk r1 F' r' W2) as (X2 & S2 & R2); auto.
    { intros t Ht X. unfold keys in X. rewrite map_app in X. apply in_app_or in X. destruct X as [X|X].
      - apply (D t); [apply in_or_app; right; exact Ht | exact X].
      - apply (N t); [apply IG; exact X | exact Ht]. }
    cbn [compile]. rewrite run_pseq, X1. auto.
  - destruct (read_val KUint r) as [[v r1]|] eqn:E; [|discriminate]. inversion H; subst.
    destruct (read_val_ok KUint _ _ _ I E R) as [R1 P].
    cbn. unfold des_step, step. rewrite (des_prim_fresh KUint t ty0 F stk r v r'); [|apply D; left; reflexivity | exact E].
    cbn. split; [reflexivity | split; [apply simple_app1; assumption | exact R1]].
  - destruct (read_val (KUintLit n) r) as [[v r1]|] eqn:E; [|discriminate]. inversion H; subst.
    destruct (read_val_ok (KUintLit n) _ _ _ I E R) as [R1 P].
    cbn. unfold des_step, step. rewrite (des_prim_fresh (KUintLit n) t ty0 F stk r v r'); [|apply D; left; reflexivity | exact E].
    cbn. split; [reflexivity | split; [apply simple_app1; assumption | exact R1]].
  - apply andb_true_iff in W. destruct W as [N W]. cbn [nodupb] in N. apply andb_true_iff in N. destruct N as [N _].
    apply negb_true_iff in N. apply zin_false in N.
    destruct (read_val KBool r) as [[v r1]|] eqn:E; [|discriminate].
    destruct (read_val_ok KBool _ _ _ I E R) as [R1 P].
    cbn [compile pflag run]. unfold des_step at 1, step. rewrite (des_prim_fresh KBool t ty0 F stk r v r1); [|apply D; left; reflexivity | exact E].
    cbn [rbind]. destruct (val_bool v).
    + apply IHd; auto.
      * intros t' Ht'. apply not_in_app1; [apply D; right; exact Ht' | intros ->; contradiction].
      * apply simple_app1; assumption.
    + inversion H; subst. cbn. split; [reflexivity | split; [apply simple_app1; assumption | exact R1]].
  - apply andb_true_iff in W. destruct W as [N W]. cbn [nodupb] in N. apply andb_true_iff in N. destruct N as [N _].
    apply negb_true_iff in N. apply zin_false in N.
    destruct (read_val KUint r) as [[v r1]|] eqn:E; [|discriminate].
    destruct (read_val_ok KUint _ _ _ I E R) as [R1 P].
    cbn [compile pindex run]. unfold des_step at 1, step. rewrite (des_prim_fresh KUint 120 ty0 F stk r v r1); [|apply D; left; reflexivity | exact E].
    cbn [rbind]. destruct (val_int v =? 0).
    + apply IHd; auto.
      * intros t' Ht'. apply not_in_app1; [apply D; right; exact Ht' | intros ->; contradiction].
      * apply simple_app1; assumption.
    + inversion H; subst. cbn. split; [reflexivity | split; [apply simple_app1; assumption | exact R1]].
  - apply andb_true_iff in W. destruct W as [_ W].
    destruct (sem d [] r) as [[G r1]|] eqn:E; [|discriminate]. inversion H; subst.
    assert (Ft : ~ In t (keys F)) by (apply D; left; reflexivity).
    set (fr := mkframe ty0 (F ++ [(t, VHole)]) (ix_of F ++ [(t, Used)]) t).
    destruct (IHd ty [] (fr :: stk) r G r' W (fun t' _ X => X) (Forall_nil _) R E) as (X & SG & RG).
    cbn [compile psub run].
    (* enter *)
    assert (EN : des_step (OSubEnter t) (mk ty0 F stk r) = Ok (tt, mk 0 [] (fr :: stk) r)).
    { unfold des_step, step, unitst, subcontext_enter, setdefault, mk. cbn.
      rewrite !alookup_none_keys by (try rewrite keys_ix; exact Ft). cbn.
      unfold put_hole. rewrite (aupd_fresh t (VC 0 []) F Ft). rewrite aupd_last by exact Ft.
      rewrite aupd_fresh by (rewrite keys_ix; exact Ft). reflexivity. }
    rewrite EN. cbn [rbind].
    assert (ST : des_step (OSetType ty) (mk 0 [] (fr :: stk) r) = Ok (tt, mk ty [] (fr :: stk) r)).
    { unfold des_step, step, unitst, set_context_type, mk. cbn [c_ty SerDes.stk].
      destruct (Z.eqb_spec 0 ty) as [<-|NE]; [reflexivity|].
      unfold patch_parent. unfold fr. cbn [fr_tgt fr_ix fr_f fr_ty c_f c_ty c_ix sio SerDes.stk].
      rewrite plug_app, (plug_simple _ F S). cbn [plug map fst snd plug1 app].
      rewrite alookup_last by (rewrite keys_ix; exact Ft). cbn. rewrite aupd_last by exact Ft. reflexivity. }
    rewrite ST. cbn [rbind]. rewrite run_pseq, X. cbn [run].
    unfold des_step, step, unitst, subcontext_leave, verify_ctx, mk. cbn [c_f c_ix c_ty sio SerDes.stk].
    rewrite verify_all_used. cbn [rbind]. unfold fr. cbn [fr_tgt fr_ix fr_f fr_ty].
    rewrite plug_app, (plug_simple _ F S). cbn [plug map fst snd plug1 app]. unfold app1. rewrite ix_app.
    split; [reflexivity | split; [|exact RG]]. apply simple_app1; [exact S | exact I].
Qed.

(* =====================================================================================================
   The validator side (Model/Headers.v)
   ===================================================================================================== *)
From VC2 Require Import Base.PyZ.
From VC2 Require Import Model.Headers Proofs.HeadersProofs.

Definition io_of (r : rd) : io := mkio (r_bits r) (r_pos r) None.

Lemma hb_read_bit r b r' : Headers.read_bit r = HOk (b, r') -> SerDes.read_bit (io_of r) = Ok (b, io_of r').
Proof.
  unfold Headers.read_bit, SerDes.read_bit, io_of. cbn. destruct (r_bits r) as [|x t]; [discriminate|].
  intros H. inversion H; subst. reflexivity.
Qed.

Lemma hb_read_uint_loop f1 : forall f2 a r v r', (length (r_bits r) < f2)%nat ->
  Headers.read_uint_loop f1 a r = HOk (v, r') -> SerDes.read_uint_loop f2 a (io_of r) = Ok (v, io_of r').
Proof.
  induction f1 as [|f1 IH]; intros f2 a r v r' L H; cbn [Headers.read_uint_loop] in H; [discriminate|].
  destruct f2 as [|f2]; [lia|]. cbn [SerDes.read_uint_loop].
  destruct (Headers.read_bit r) as [[b r1]| | | |] eqn:E1; try discriminate.
  rewrite (hb_read_bit _ _ _ E1). cbn [rbind].
  assert (L1 : S (length (r_bits r1)) = length (r_bits r)).
  { unfold Headers.read_bit in E1. destruct (r_bits r); [discriminate|]. inversion E1; subst. reflexivity. }
  destruct b; [inversion H; subst; reflexivity|].
  destruct (Headers.read_bit r1) as [[c r2]| | | |] eqn:E2; try discriminate.
  rewrite (hb_read_bit _ _ _ E2). cbn [rbind].
  assert (L2 : S (length (r_bits r2)) = length (r_bits r1)).
  { unfold Headers.read_bit in E2. destruct (r_bits r1); [discriminate|]. inversion E2; subst. reflexivity. }
  assert (EA : (if c then py_shl a 1 + 1 else py_shl a 1) = 2 * a + Z.b2z c).
  { unfold py_shl. rewrite Z.shiftl_mul_pow2 by lia. destruct c; cbn [Z.b2z]; lia. }
  rewrite EA in H. apply IH; [unfold io_of; cbn; lia | exact H].
Qed.

Lemma hb_read_uint fuel r v r' :
  Headers.read_uint fuel r = HOk (v, r') -> read_val KUint (io_of r) = Ok (VI v, io_of r').
Proof.
  unfold Headers.read_uint. intros H. cbn [read_val]. unfold SerDes.read_uint.
  rewrite (hb_read_uint_loop fuel _ 1 r v r'); [reflexivity | unfold io_of; cbn; lia | exact H].
Qed.
Lemma hb_read_bool r b r' : Headers.read_bit r = HOk (b, r') -> read_val KBool (io_of r) = Ok (VB b, io_of r').
Proof. intros H. cbn [read_val]. rewrite (hb_read_bit _ _ _ H). reflexivity. Qed.

(* ---- partial correctness of the validator's monad: what holds of a SUCCESSFUL run ---- *)
Definition pc {A} (m : M A) (Q : A -> St -> Prop) (s : St) : Prop := forall a s', m s = HOk (a, s') -> Q a s'.

Lemma pc_ret {A} (a : A) (Q : A -> St -> Prop) s : Q a s -> pc (ret a) Q s.
Proof. intros H a' s' E. inversion E; subst. exact H. Qed.
Lemma pc_bind {A B} (m : M A) (k : A -> M B) (Q : B -> St -> Prop) s :
  pc m (fun a s1 => pc (k a) Q s1) s -> pc (Headers.bind m k) Q s.
Proof.
  unfold pc, Headers.bind. intros H b s' E. destruct (m s) as [[a s1]| | | |] eqn:Em; try discriminate.
  exact (H a s1 eq_refl b s' E).
Qed.
Lemma pc_fail {A} (m : M A) (Q : A -> St -> Prop) s : (forall x, m s <> HOk x) -> pc m Q s.
Proof. intros H a s' E. exfalso. exact (H _ E). Qed.
Lemma pc_raise {A} e (Q : A -> St -> Prop) s : pc (raise e) Q s.
Proof. apply pc_fail. intros x; discriminate. Qed.
Lemma pc_crash {A} c (Q : A -> St -> Prop) s : pc (crash c) Q s.
Proof. apply pc_fail. intros x; discriminate. Qed.
Lemma pc_raise_if c e (Q : unit -> St -> Prop) s : (c = false -> Q tt s) -> pc (raise_if c e) Q s.
Proof. unfold raise_if. destruct c; [intros; apply pc_raise | intros H; apply pc_ret; apply H; reflexivity]. Qed.
Lemma pc_pure {A} (f : St -> A) (g : St -> St) (m : M A) (Q : A -> St -> Prop) s :
  (forall s, m s = HOk (f s, g s)) -> Q (f s) (g s) -> pc m Q s.
Proof. intros Hm H a s' E. rewrite Hm in E. inversion E; subst. exact H. Qed.
Lemma pc_get_state k (Q : Z -> St -> Prop) s : (forall v, Q v s) -> pc (get_state k) Q s.
Proof. intros H a s' E. unfold get_state in E. destruct (s_st s k); inversion E; subst. apply H. Qed.
Lemma pc_has_state k (Q : bool -> St -> Prop) s : (forall v, Q v s) -> pc (has_state k) Q s.
Proof. intros H a s' E. inversion E; subst. apply H. Qed.
Lemma pc_get_state_default k d (Q : Z -> St -> Prop) s : (forall v, Q v s) -> pc (get_state_default k d) Q s.
Proof. intros H a s' E. inversion E; subst. apply H. Qed.
Lemma pc_set_state k v (Q : unit -> St -> Prop) s : Q tt (st_upd s k v) -> pc (set_state k v) Q s.
Proof. intros H a s' E. inversion E; subst. exact H. Qed.
Lemma pc_get_vp k (Q : Z -> St -> Prop) s : (forall v, Q v s) -> pc (get_vp k) Q s.
Proof. intros H a s' E. inversion E; subst. apply H. Qed.
Lemma pc_set_vpk k v (Q : unit -> St -> Prop) s : Q tt (vp_upd s k v) -> pc (set_vpk k v) Q s.
Proof. intros H a s' E. inversion E; subst. exact H. Qed.
Lemma pc_read_bool (Q : bool -> St -> Prop) s :
  (forall b r', read_val KBool (io_of (s_rd s)) = Ok (VB b, io_of r') -> Q b (set_rd s r')) -> pc m_read_bool Q s.
Proof.
  intros H a s' E. unfold m_read_bool, lift_rd in E.
  destruct (Headers.read_bit (s_rd s)) as [[b r']| | | |] eqn:Er; inversion E; subst. apply H. apply hb_read_bool. exact Er.
Qed.
Lemma pc_read_uint fuel (Q : Z -> St -> Prop) s :
  (forall v r', read_val KUint (io_of (s_rd s)) = Ok (VI v, io_of r') -> Q v (set_rd s r')) -> pc (m_read_uint fuel) Q s.
Proof.
  intros H a s' E. unfold m_read_uint, lift_rd in E.
  destruct (Headers.read_uint fuel (s_rd s)) as [[b r']| | | |] eqn:Er; inversion E; subst. apply H. eapply hb_read_uint. exact Er.
Qed.
Lemma pc_subscript {A} (d : list (Z * A)) k (Q : A -> St -> Prop) s : (forall x, Q x s) -> pc (subscript d k) Q s.
Proof. intros H a s' E. unfold subscript in E. destruct (Headers.lookup d k); inversion E; subst. apply H. Qed.
Lemma pc_checked_mod a b (Q : Z -> St -> Prop) s : (forall x, Q x s) -> pc (checked_mod a b) Q s.
Proof. intros H x s' E. unfold checked_mod in E. destruct (b =? 0); inversion E; subst. apply H. Qed.
Lemma pc_pos (Q : Z -> St -> Prop) s : (forall x, Q x s) -> pc m_pos Q s.
Proof. intros H a s' E. inversion E; subst. apply H. Qed.
Lemma pc_get_rd (Q : rd -> St -> Prop) s : (forall x, Q x s) -> pc m_get_rd Q s.
Proof. intros H a s' E. inversion E; subst. apply H. Qed.
Lemma pc_finish_recording r0 (Q : unit -> St -> Prop) s : (forall b, Q tt (set_hdr s (Some b))) -> pc (finish_recording r0) Q s.
Proof.
  intros H a s' E. unfold finish_recording in E. destruct (s_hdr s); [destruct (bits_eqb _ _)|]; inversion E; subst; apply H.
Qed.

Definition lcvh (s : St) : hist := match s_lcv s with Some h => h | None => [] end.
Lemma pc_alc lvl k v (Q : unit -> St -> Prop) s :
  Q tt (set_lcv s (Some (hset (lcvh s) k v))) -> pc (assert_level_constraint lvl k v) Q s.
Proof.
  intros H a s' E. unfold assert_level_constraint in E. fold (lcvh s) in E.
  destruct (lvl (lcvh s) k v); inversion E; subst. exact H.
Qed.
Lemma pc_assert_in_enum v enum e (Q : unit -> St -> Prop) s : Q tt s -> pc (assert_in_enum v enum e) Q s.
Proof. intros H. unfold assert_in_enum. apply pc_raise_if. intros _. exact H. Qed.

Ltac norm_in H := cbn [s_rd s_lcv s_st s_vp s_qm s_hdr set_rd set_lcv set_st set_vp set_qm set_hdr st_upd vp_upd lcvh] in H.
Ltac norm := cbn [s_rd s_lcv s_st s_vp s_qm s_hdr set_rd set_lcv set_st set_vp set_qm set_hdr st_upd vp_upd lcvh].

Ltac pc_step_base :=
  lazymatch goal with
  | |- pc (Headers.bind _ _) _ _ => apply pc_bind
  | |- pc (ret _) _ _ => apply pc_ret
  | |- pc m_read_bool _ _ => apply pc_read_bool; let H := fresh "RB" in intros ? ? H; norm_in H
  | |- pc (m_read_uint _) _ _ => apply pc_read_uint; let H := fresh "RU" in intros ? ? H; norm_in H
  | |- pc (set_vpk _ _) _ _ => apply pc_set_vpk
  | |- pc (set_state _ _) _ _ => apply pc_set_state
  | |- pc (get_vp _) _ _ => apply pc_get_vp; intros ?
  | |- pc (has_state _) _ _ => apply pc_has_state; intros ?
  | |- pc (get_state_default _ _) _ _ => apply pc_get_state_default; intros ?
  | |- pc (get_state _) _ _ => apply pc_get_state; intros ?
  | |- pc (assert_level_constraint _ _ _) _ _ => apply pc_alc
  | |- pc (raise_if _ _) _ _ => apply pc_raise_if; intros ?
  | |- pc (raise _) _ _ => apply pc_raise
  | |- pc (crash _) _ _ => apply pc_crash
  | |- pc (assert_in_enum _ _ _) _ _ => apply pc_assert_in_enum
  | |- pc (subscript _ _) _ _ => apply pc_subscript; intros ?
  | |- pc (checked_mod _ _) _ _ => apply pc_checked_mod; intros ?
  | |- pc m_pos _ _ => apply pc_pos; intros ?
  | |- pc m_get_rd _ _ => apply pc_get_rd; intros ?
  | |- pc (finish_recording _) _ _ => apply pc_finish_recording; intros ?
  | |- pc (version_check _ _) _ _ => unfold version_check
  | |- pc (log_version_lower_bound _) _ _ => unfold log_version_lower_bound
  | |- pc (let '(_, _) := ?p in _) _ _ => destruct p
  end.
Ltac pc_step :=
  first [ pc_step_base
        | lazymatch goal with |- pc (if ?c then _ else _) _ _ => destruct c eqn:? end ].
Ltac pc_steps := repeat pc_step.

(* ---- the deserialised fields under their level-constraint names ---- *)
Definition key_of (parent t : Z) : Z :=
  if t =? 101 then K_major_version else if t =? 102 then K_minor_version
  else if t =? 103 then K_profile else if t =? 104 then K_level
  else if t =? 105 then K_base_video_format else if t =? 107 then K_picture_coding_mode
  else if t =? 109 then K_custom_dimensions_flag else if t =? 110 then K_frame_width else if t =? 111 then K_frame_height
  else if t =? 113 then K_custom_color_diff_format_flag else if t =? 114 then K_color_diff_format_index
  else if t =? 116 then K_custom_scan_format_flag else if t =? 117 then K_source_sampling
  else if t =? 119 then K_custom_frame_rate_flag else if t =? 121 then K_frame_rate_numer else if t =? 122 then K_frame_rate_denom
  else if t =? 124 then K_custom_pixel_aspect_ratio_flag
  else if t =? 125 then K_pixel_aspect_ratio_numer else if t =? 126 then K_pixel_aspect_ratio_denom
  else if t =? 128 then K_custom_clean_area_flag else if t =? 129 then K_clean_width else if t =? 130 then K_clean_height
  else if t =? 131 then K_left_offset else if t =? 132 then K_top_offset
  else if t =? 134 then K_custom_signal_range_flag else if t =? 135 then K_luma_offset else if t =? 136 then K_luma_excursion
  else if t =? 137 then K_color_diff_offset else if t =? 138 then K_color_diff_excursion
  else if t =? 140 then K_custom_color_spec_flag else if t =? 142 then K_custom_color_primaries_flag
  else if t =? 144 then K_custom_color_matrix_flag else if t =? 146 then K_custom_transfer_function_flag
  else if t =? 120 then
    (if parent =? 118 then K_frame_rate_index else if parent =? 123 then K_pixel_aspect_ratio_index
     else if parent =? 133 then K_custom_signal_range_index else if parent =? 139 then K_color_spec_index
     else if parent =? 141 then K_color_primaries_index else if parent =? 143 then K_color_matrix_index
     else if parent =? 145 then K_transfer_function_index else -1)
  else -1.

Fixpoint keyed_val (parent t : Z) (v : val) {struct v} : list (Z * Z) :=
  match v with
  | VI z => [(key_of parent t, z)]
  | VB b => [(key_of parent t, b2z b)]
  | VC _ f => (fix go (l : list (Z * val)) : list (Z * Z) :=
                 match l with
                 | [] => []
                 | (t', v') :: r => keyed_val t t' v' ++ go r
                 end) f
  | _ => []
  end.
Fixpoint keyed_fields (parent : Z) (f : fields) : list (Z * Z) :=
  match f with
  | [] => []
  | (t', v') :: r => keyed_val parent t' v' ++ keyed_fields parent r
  end.
Lemma keyed_val_VC parent t ty f : keyed_val parent t (VC ty f) = keyed_fields t f.
Proof. cbn [keyed_val]. induction f as [|[t' v'] f IH]; cbn [keyed_fields]; [reflexivity|]. rewrite IH. reflexivity. Qed.

Definition hset' (h : hist) (kv : Z * Z) : hist := hset h (fst kv) (snd kv).

(* a stretch of the validator's reads, seen as a description continuing the context F whose fields are under P:
   from reader r and level history h to reader r' and history h' *)
Definition SeqV (d : sdesc) (P : Z) (F : fields) (r : rd) (h : hist) (r' : rd) (h' : hist) : Prop :=
  exists G, sem d F (io_of r) = Some (F ++ G, io_of r') /\ h' = fold_left hset' (keyed_fields P G) h.
Definition SeqR (d : sdesc) (P : Z) (F : fields) (s s' : St) : Prop :=
  SeqV d P F (s_rd s) (lcvh s) (s_rd s') (lcvh s').
(* a block of the validator = the body of one subcontext of the deserialiser *)
Definition BlockR (d : sdesc) (P : Z) (s s' : St) : Prop := SeqR d P [] s s'.

Ltac use_reads :=
  repeat match goal with
         | H : read_val _ ?r = Ok _ |- context [read_val _ ?r] => rewrite H; clear H
         end.
Ltac finish_block :=
  unfold BlockR, SeqR, SeqV; norm; eexists; split;
  [ cbn [sem app1 app]; repeat (use_reads; cbn [sem app1 app val_bool val_int]; try match goal with H : (_ =? 0) = _ |- _ => rewrite H end); reflexivity
  | reflexivity ].

Definition seq4 a b c d := SSeq (SUint a) (SSeq (SUint b) (SSeq (SUint c) (SSeq (SUint d) SNil))).
Definition B_frame_size := SFlag 109 (SSeq (SUint 110) (SSeq (SUint 111) SNil)).
Definition B_cdf := SFlag 113 (SUint 114).
Definition B_scan := SFlag 116 (SUint 117).
Definition B_frame_rate := SFlag 119 (SIndex (SSeq (SUint 121) (SSeq (SUint 122) SNil))).
Definition B_par := SFlag 124 (SIndex (SSeq (SUint 125) (SSeq (SUint 126) SNil))).
Definition B_clean := SFlag 128 (seq4 129 130 131 132).
Definition B_signal := SFlag 134 (SIndex (seq4 135 136 137 138)).
Definition B_primaries := SFlag 142 (SUint 120).
Definition B_matrix := SFlag 144 (SUint 120).
Definition B_transfer := SFlag 146 (SUint 120).
Definition B_color_spec := SFlag 140 (SIndex
  (SSeq (SSub 141 21 B_primaries) (SSeq (SSub 143 22 B_matrix) (SSeq (SSub 145 23 B_transfer) SNil)))).

Ltac unfold_blocks := cbv [B_frame_size B_cdf B_scan B_frame_rate B_par B_clean B_signal B_primaries B_matrix B_transfer
                            B_color_spec seq4].
Ltac finish_block ::=
  unfold BlockR, SeqR, SeqV; unfold_blocks; norm; eexists; split;
  [ cbn [sem app1 app]; repeat (use_reads; cbn [sem app1 app val_bool val_int]; try match goal with H : (_ =? 0) = _ |- _ => rewrite H end); reflexivity
  | reflexivity ].

Section Blocks.
  Variable T : tables.
  Variable lvl : hist -> Z -> Z -> bool.
  Variable fuel : nat.

  Lemma blk_frame_size s : pc (frame_size lvl fuel) (fun _ s' => BlockR B_frame_size 108 s s') s.
  Proof. unfold frame_size. pc_steps; finish_block. Qed.
  Lemma blk_cdf s : pc (color_diff_sampling_format T lvl fuel) (fun _ s' => BlockR B_cdf 112 s s') s.
  Proof. unfold color_diff_sampling_format. pc_steps; finish_block. Qed.
  Lemma blk_scan s : pc (scan_format T lvl fuel) (fun _ s' => BlockR B_scan 115 s s') s.
  Proof. unfold scan_format. pc_steps; finish_block. Qed.
  Lemma blk_frame_rate s : pc (frame_rate T lvl fuel) (fun _ s' => BlockR B_frame_rate 118 s s') s.
  Proof. unfold frame_rate. pc_steps; finish_block. Qed.
  Lemma blk_par s : pc (pixel_aspect_ratio T lvl fuel) (fun _ s' => BlockR B_par 123 s s') s.
  Proof. unfold pixel_aspect_ratio. pc_steps; finish_block. Qed.
  Lemma blk_clean s : pc (clean_area lvl fuel) (fun _ s' => BlockR B_clean 127 s s') s.
  Proof. unfold clean_area. pc_steps; finish_block. Qed.
  Lemma blk_signal s : pc (signal_range T lvl fuel) (fun _ s' => BlockR B_signal 133 s s') s.
  Proof. unfold signal_range. pc_steps; finish_block. Qed.
  Lemma blk_primaries s : pc (color_primaries T lvl fuel) (fun _ s' => BlockR B_primaries 141 s s') s.
  Proof. unfold color_primaries. pc_steps; finish_block. Qed.
  Lemma blk_matrix s : pc (color_matrix T lvl fuel) (fun _ s' => BlockR B_matrix 143 s s') s.
  Proof. unfold color_matrix. pc_steps; finish_block. Qed.
  Lemma blk_transfer s : pc (transfer_function T lvl fuel) (fun _ s' => BlockR B_transfer 145 s s') s.
  Proof. unfold transfer_function. pc_steps; finish_block. Qed.

  Lemma pc_bind_with {A B} (m : M A) (k : A -> M B) (R : A -> St -> Prop) (Q : B -> St -> Prop) s :
    pc m R s -> (forall a s1, R a s1 -> pc (k a) Q s1) -> pc (Headers.bind m k) Q s.
  Proof.
    intros H1 H2. apply pc_bind. intros a s1 E. apply H2. exact (H1 a s1 E).
  Qed.
  Lemma pc_conseq {A} (m : M A) (R Q : A -> St -> Prop) s :
    pc m R s -> (forall a s1, R a s1 -> Q a s1) -> pc m Q s.
  Proof. intros H1 H2 a s1 E. apply H2. exact (H1 a s1 E). Qed.

  Lemma keyed_fields_app P F G : keyed_fields P (F ++ G) = keyed_fields P F ++ keyed_fields P G.
  Proof. induction F as [|[t v] F IH]; cbn [keyed_fields app]; [reflexivity|]. rewrite IH, app_assoc. reflexivity. Qed.

  Lemma SeqV_nil P F r h : SeqV SNil P F r h r h.
  Proof. exists []. cbn. rewrite app_nil_r. split; reflexivity. Qed.
  Lemma SeqV_cons_sub b t ty rest P F r h r1 h1 r2 h2 :
    SeqV b t [] r h r1 h1 -> (forall G, SeqV rest P (F ++ [(t, VC ty G)]) r1 h1 r2 h2) ->
    SeqV (SSeq (SSub t ty b) rest) P F r h r2 h2.
  Proof.
    intros (G & H1 & H2) HR. destruct (HR G) as (G' & H3 & H4). cbn [app] in H1.
    exists ((t, VC ty G) :: G'). cbn [sem]. rewrite H1. unfold app1. rewrite H3. rewrite <- app_assoc. split; [reflexivity|].
    cbn [keyed_fields]. rewrite keyed_val_VC, fold_left_app, <- H2. exact H4.
  Qed.
  Lemma SeqV_cons_uint t rest P F r h r1 r2 h2 v :
    read_val KUint (io_of r) = Ok (VI v, io_of r1) ->
    SeqV rest P (F ++ [(t, VI v)]) r1 (hset h (key_of P t) v) r2 h2 ->
    SeqV (SSeq (SUint t) rest) P F r h r2 h2.
  Proof.
    intros H1 (G' & H3 & H4). exists ((t, VI v) :: G'). cbn [sem]. rewrite H1. unfold app1. rewrite H3, <- app_assoc.
    split; [reflexivity|]. cbn [keyed_fields keyed_val app fold_left]. exact H4.
  Qed.
  Lemma SeqV_flag_true t body P F r h r1 r2 h2 :
    read_val KBool (io_of r) = Ok (VB true, io_of r1) ->
    SeqV body P (F ++ [(t, VB true)]) r1 (hset h (key_of P t) 1) r2 h2 ->
    SeqV (SFlag t body) P F r h r2 h2.
  Proof.
    intros H1 (G' & H3 & H4). exists ((t, VB true) :: G'). cbn [sem]. rewrite H1. cbn [val_bool]. unfold app1. rewrite H3, <- app_assoc.
    split; [reflexivity|]. cbn [keyed_fields keyed_val app fold_left]. exact H4.
  Qed.
  Lemma SeqV_index_zero body P F r h r1 r2 h2 v :
    read_val KUint (io_of r) = Ok (VI v, io_of r1) -> (v =? 0) = true ->
    SeqV body P (F ++ [(120, VI v)]) r1 (hset h (key_of P 120) v) r2 h2 ->
    SeqV (SIndex body) P F r h r2 h2.
  Proof.
    intros H1 Hz (G' & H3 & H4). exists ((120, VI v) :: G'). cbn [sem]. rewrite H1. cbn [val_int]. rewrite Hz. unfold app1. rewrite H3, <- app_assoc.
    split; [reflexivity|]. cbn [keyed_fields keyed_val app fold_left]. exact H4.
  Qed.

  Lemma blk_color_spec s : pc (color_spec T lvl fuel) (fun _ s' => BlockR B_color_spec 139 s s') s.
  Proof.
    unfold color_spec. repeat pc_step_base. pc_step; [|pc_steps; finish_block].
    repeat pc_step_base. pc_step.
    - (* index 0: the three custom blocks *)
      eapply pc_bind_with; [apply blk_primaries|]. intros u1 s1 A1. cbv beta in A1 |- *.
      eapply pc_bind_with; [apply blk_matrix|]. intros u2 s2 A2. cbv beta in A2 |- *.
      eapply pc_conseq; [apply blk_transfer|]. intros u3 s3 A3. cbv beta in A3.
      unfold BlockR, SeqR in *. norm_in A1. unfold B_color_spec.
      eapply SeqV_flag_true; [exact RB|]. eapply SeqV_index_zero; [exact RU | assumption |].
      eapply SeqV_cons_sub; [exact A1|]. intros G1.
      eapply SeqV_cons_sub; [exact A2|]. intros G2.
      eapply SeqV_cons_sub; [exact A3|]. intros G3. apply SeqV_nil.
    - unfold BlockR, SeqR, SeqV. unfold_blocks. pc_steps. norm. eexists. split.
      + cbn [sem app1 app]. rewrite RB. cbn [val_bool app1 app sem]. rewrite RU. cbn [val_int]. rewrite Heqb1. reflexivity.
      + reflexivity.
  Qed.
End Blocks.

Definition D_pp := seq4 101 102 103 104.
Definition D_sp :=
  SSeq (SSub 108 13 B_frame_size) (SSeq (SSub 112 14 B_cdf) (SSeq (SSub 115 15 B_scan) (SSeq (SSub 118 16 B_frame_rate)
  (SSeq (SSub 123 17 B_par) (SSeq (SSub 127 18 B_clean) (SSeq (SSub 133 19 B_signal) (SSeq (SSub 139 20 B_color_spec) SNil))))))).
Definition D_top := SSeq (SSub 100 11 D_pp) (SSeq (SUint 105) (SSeq (SSub 106 12 D_sp) (SSeq (SUint 107) SNil))).

Lemma sequence_header_prog_is : sequence_header_prog = Op (OSetType 10) (fun _ => compile D_top).
Proof. reflexivity. Qed.
Lemma D_top_wf : wf D_top = true.
Proof. vm_compute. reflexivity. Qed.

Section Top.
  Variable T : tables.
  Variable lvl : hist -> Z -> Z -> bool.
  Variable fuel : nat.

  Lemma pc_set_source_defaults v (Q : unit -> St -> Prop) s :
    (forall vp, Q tt (set_vp s vp)) -> pc (set_source_defaults T v) Q s.
  Proof.
    intros H. unfold set_source_defaults. pc_steps.
    intros a s' E. inversion E; subst. apply H.
  Qed.

  Lemma blk_source_parameters v s : pc (source_parameters T lvl fuel v) (fun _ s' => BlockR D_sp 106 s s') s.
  Proof.
    unfold source_parameters. pc_step. apply pc_set_source_defaults. intros vp.
    eapply pc_bind_with; [apply blk_frame_size|]. intros u1 s1 A1. cbv beta in A1 |- *.
    eapply pc_bind_with; [apply blk_cdf|]. intros u2 s2 A2. cbv beta in A2 |- *.
    eapply pc_bind_with; [apply blk_scan|]. intros u3 s3 A3. cbv beta in A3 |- *.
    eapply pc_bind_with; [apply blk_frame_rate|]. intros u4 s4 A4. cbv beta in A4 |- *.
    eapply pc_bind_with; [apply blk_par|]. intros u5 s5 A5. cbv beta in A5 |- *.
    eapply pc_bind_with; [apply blk_clean|]. intros u6 s6 A6. cbv beta in A6 |- *.
    eapply pc_bind_with; [apply blk_signal|]. intros u7 s7 A7. cbv beta in A7 |- *.
    eapply pc_conseq; [apply blk_color_spec|]. intros u8 s8 A8. cbv beta in A8.
    unfold BlockR, SeqR in *. norm_in A1. unfold D_sp.
    eapply SeqV_cons_sub; [exact A1|]. intros G1. eapply SeqV_cons_sub; [exact A2|]. intros G2.
    eapply SeqV_cons_sub; [exact A3|]. intros G3. eapply SeqV_cons_sub; [exact A4|]. intros G4.
    eapply SeqV_cons_sub; [exact A5|]. intros G5. eapply SeqV_cons_sub; [exact A6|]. intros G6.
    eapply SeqV_cons_sub; [exact A7|]. intros G7. eapply SeqV_cons_sub; [exact A8|]. intros G8. apply SeqV_nil.
  Qed.

  (* (11.2.1) parse_parameters: the four values are read in the order major, minor, profile, level and asserted
     against the level in the order level, profile, major_version, minor_version *)
  Definition PPR (s s' : St) : Prop :=
    exists a b c d,
      sem D_pp [] (io_of (s_rd s)) = Some ([(101, VI a); (102, VI b); (103, VI c); (104, VI d)], io_of (s_rd s')) /\
      lcvh s' = hset (hset (hset (hset (lcvh s) K_level d) K_profile c) K_major_version a) K_minor_version b /\
      s_st s' S_major_version = Some a /\ s_st s' S_minor_version = Some b /\
      s_st s' S_profile = Some c /\ s_st s' S_level = Some d.

  Lemma blk_parse_parameters s : pc (parse_parameters T lvl fuel) (fun _ s' => PPR s s') s.
  Proof.
    unfold parse_parameters. pc_steps.
    all: unfold PPR, D_pp, seq4; norm; do 4 eexists; split;
      [ cbn [sem app1 app]; repeat (use_reads; cbn [sem app1 app]); reflexivity
      | split; [reflexivity | repeat split; unfold upd; cbn; reflexivity] ].
  Qed.
End Top.

Section Final.
  Variable T : tables.
  Variable lvl : hist -> Z -> Z -> bool.
  Variable fuel : nat.

  (* the validator's `_level_constrained_values` after a sequence header, given the deserialised fields *)
  Definition seqhdr_level_values (a b c d bvf : Z) (Gsp : fields) (pcm : Z) : list (Z * Z) :=
    [(K_level, d); (K_profile, c); (K_major_version, a); (K_minor_version, b); (K_base_video_format, bvf)]
    ++ keyed_fields 106 Gsp ++ [(K_picture_coding_mode, pcm)].
  Definition seqhdr_context (a b c d bvf : Z) (Gsp : fields) (pcm : Z) : fields :=
    [(100, VC 11 [(101, VI a); (102, VI b); (103, VI c); (104, VI d)]); (105, VI bvf); (106, VC 12 Gsp); (107, VI pcm)].

  Definition TopR (s s' : St) : Prop :=
    exists a b c d bvf Gsp pcm,
      sem D_top [] (io_of (s_rd s)) = Some (seqhdr_context a b c d bvf Gsp pcm, io_of (s_rd s')) /\
      lcvh s' = fold_left hset' (seqhdr_level_values a b c d bvf Gsp pcm) (lcvh s) /\
      s_st s' S_picture_coding_mode = Some pcm.

  Lemma top_sequence_header s : pc (sequence_header T lvl fuel) (fun _ s' => TopR s s') s.
  Proof.
    unfold sequence_header. repeat pc_step_base. pc_step; [|pc_steps]. repeat pc_step_base.
    eapply pc_conseq; [apply blk_parse_parameters|]. intros u1 s1 (a & b & c & d & A1 & L1 & _). cbv beta.
    repeat pc_step_base.
    eapply pc_conseq; [apply blk_source_parameters|]. intros u2 s2 A2. cbv beta in A2 |- *.
    unfold BlockR, SeqR in A2. norm_in A2. destruct A2 as (Gsp & A2 & L2). cbn [app] in A2.
    unfold m_set_coding_parameters, picture_dimensions, video_depth.
    pc_steps.
    all: unfold TopR; exists a, b, c, d, v, Gsp, v0; unfold lcvh in *; norm; norm_in L1; norm_in L2; split;
      [ unfold D_top; cbn [sem]; rewrite A1; cbn [app1 app]; rewrite RU; cbn [app1 app]; rewrite A2; cbn [app1 app];
        rewrite RU0; reflexivity
      | split;
        [ unfold seqhdr_level_values; rewrite !fold_left_app; cbn [fold_left hset' fst snd]; rewrite L2, L1; reflexivity
        | unfold upd; cbn; reflexivity ] ].
  Qed.

  (* THE AGREEMENT THEOREM for (11.1) sequence_header *)
  Theorem sequence_header_agree s s' :
    sequence_header T lvl fuel s = HOk (tt, s') ->
    exists a b c d bvf Gsp pcm st',
      run des_step sequence_header_prog (mkst 0 [] [] [] (io_of (s_rd s))) = Ok (tt, st') /\
      sio st' = io_of (s_rd s') /\
      root st' = VC 10 (seqhdr_context a b c d bvf Gsp pcm) /\
      lcvh s' = fold_left hset' (seqhdr_level_values a b c d bvf Gsp pcm) (lcvh s) /\
      s_st s' S_picture_coding_mode = Some pcm.
  Proof.
    intros H. destruct (top_sequence_header s tt s' H) as (a & b & c & d & bvf & Gsp & pcm & HS & HL & HP).
    exists a, b, c, d, bvf, Gsp, pcm.
    destruct (des_refines D_top 10 [] [] (io_of (s_rd s)) _ _ D_top_wf (fun t _ X => X) (Forall_nil _) eq_refl HS) as (HR & _ & _).
    eexists. split; [|split; [|split; [|split; [exact HL | exact HP]]]].
    - rewrite sequence_header_prog_is. cbn [run]. unfold des_step at 1, step, unitst, set_context_type. cbn [c_ty SerDes.stk rbind].
      change (mkst 10 [] [] [] (io_of (s_rd s))) with (mk 10 [] [] (io_of (s_rd s))). exact HR.
    - reflexivity.
    - reflexivity.
  Qed.
End Final.

(* ---- corollaries ---- *)
(* with the real entry point run_des (a fresh Deserialiser on the bit list), for a validator positioned at bit 0 *)
Corollary sequence_header_agree_run_des T lvl fuel s s' :
  r_pos (s_rd s) = 0 ->
  sequence_header T lvl fuel s = HOk (tt, s') ->
  exists a b c d bvf Gsp pcm st',
    run_des sequence_header_prog (r_bits (s_rd s)) = Ok (tt, st') /\
    bits (sio st') = r_bits (s_rd s') /\ pos (sio st') = r_pos (s_rd s') /\
    root st' = VC 10 (seqhdr_context a b c d bvf Gsp pcm) /\
    lcvh s' = fold_left hset' (seqhdr_level_values a b c d bvf Gsp pcm) (lcvh s) /\
    s_st s' S_picture_coding_mode = Some pcm.
Proof.
  intros P0 H. destruct (sequence_header_agree T lvl fuel s s' H) as (a & b & c & d & bvf & Gsp & pcm & st' & R & I & Ro & L & Pm).
  exists a, b, c, d, bvf, Gsp, pcm, st'. unfold run_des, init_st. unfold io_of in R. rewrite P0 in R.
  rewrite R, I. cbn. repeat split; assumption.
Qed.

(* inserting pairs with distinct keys into a dictionary: every pair can be looked up afterwards *)
Lemma lookup_hset h k v k' : Headers.lookup (hset h k v) k' = if k =? k' then Some v else Headers.lookup h k'.
Proof.
  induction h as [|[k0 v0] h IH]; cbn [hset Headers.lookup].
  - reflexivity.
  - destruct (Z.eqb_spec k0 k) as [->|N]; cbn [Headers.lookup].
    + destruct (k =? k'); reflexivity.
    + rewrite IH. destruct (Z.eqb_spec k0 k') as [->|N']; [|reflexivity].
      destruct (Z.eqb_spec k k'); [congruence | reflexivity].
Qed.
Lemma lookup_fold_other L : forall h k, ~ In k (map fst L) -> Headers.lookup (fold_left hset' L h) k = Headers.lookup h k.
Proof.
  induction L as [|[k0 v0] L IH]; intros h k N; cbn [fold_left]; [reflexivity|].
  rewrite IH by (intros X; apply N; right; exact X). unfold hset'. cbn [fst snd]. rewrite lookup_hset.
  destruct (Z.eqb_spec k0 k); [exfalso; apply N; left; assumption | reflexivity].
Qed.
Lemma lookup_fold_in L : forall h k v, NoDup (map fst L) -> In (k, v) L -> Headers.lookup (fold_left hset' L h) k = Some v.
Proof.
  induction L as [|[k0 v0] L IH]; intros h k v N I; [contradiction|]. cbn [fold_left]. inversion N; subst.
  destruct I as [E|I].
  - inversion E; subst. rewrite lookup_fold_other by assumption. unfold hset'. cbn [fst snd]. rewrite lookup_hset, Z.eqb_refl. reflexivity.
  - apply IH; assumption.
Qed.

(* non-vacuity: the 16 bit header of HeadersProofs.toy_header_parses on both sides *)
Lemma agree_example :
  exists s' st',
    sequence_header (HeadersProofs.toy_tables true) (fun _ _ _ => true) (fuel_for (bits_of_bytes [62; 1]))
      (init_S [] None None (bits_of_bytes [62; 1]) 0) = HOk (tt, s') /\
    run_des sequence_header_prog (bits_of_bytes [62; 1]) = Ok (tt, st') /\
    root st' = VC 10 [(100, VC 11 [(101, VI 1); (102, VI 0); (103, VI 0); (104, VI 0)]); (105, VI 0);
                      (106, VC 12 [(108, VC 13 [(109, VB false)]); (112, VC 14 [(113, VB false)]); (115, VC 15 [(116, VB false)]);
                                   (118, VC 16 [(119, VB false)]); (123, VC 17 [(124, VB false)]); (127, VC 18 [(128, VB false)]);
                                   (133, VC 19 [(134, VB false)]); (139, VC 20 [(140, VB false)])]);
                      (107, VI 0)] /\
    pos (sio st') = 16 /\ r_pos (s_rd s') = 16 /\
    s_lcv s' = Some [(K_level, 0); (K_profile, 0); (K_major_version, 1); (K_minor_version, 0); (K_base_video_format, 0);
                     (K_custom_dimensions_flag, 0); (K_custom_color_diff_format_flag, 0); (K_custom_scan_format_flag, 0);
                     (K_custom_frame_rate_flag, 0); (K_custom_pixel_aspect_ratio_flag, 0); (K_custom_clean_area_flag, 0);
                     (K_custom_signal_range_flag, 0); (K_custom_color_spec_flag, 0); (K_picture_coding_mode, 0)].
Proof. eexists. eexists. vm_compute. repeat split; reflexivity. Qed.

(* =====================================================================================================
   (14.2) fragment_header
   ===================================================================================================== *)
Lemma hb_read_nbits_loop n : forall acc r v r',
  Headers.read_nbits_loop n acc r = HOk (v, r') ->
  exists l, read_bits n (io_of r) = Ok (l, io_of r') /\ z_of_bits acc l = v.
Proof.
  induction n as [|n IH]; intros acc r v r' H; cbn [Headers.read_nbits_loop] in H.
  - inversion H; subst. exists []. split; reflexivity.
  - destruct (Headers.read_bit r) as [[b r1]| | | |] eqn:E1; try discriminate.
    destruct (IH _ _ _ _ H) as (l & R & Z0). exists (b :: l). cbn [read_bits]. rewrite (hb_read_bit _ _ _ E1). cbn [rbind].
    rewrite R. cbn [rbind]. split; [reflexivity|]. cbn [z_of_bits]. rewrite <- Z0. f_equal.
Qed.
Lemma hb_read_uint_lit n r v r' :
  Headers.read_uint_lit n r = HOk (v, r') -> read_val (KUintLit n) (io_of r) = Ok (VI v, io_of r').
Proof.
  unfold Headers.read_uint_lit, Headers.read_nbits. intros H. destruct (hb_read_nbits_loop _ _ _ _ _ H) as (l & R & Z0).
  cbn [read_val]. replace (n * 8) with (8 * n) by lia. rewrite R. cbn [rbind]. rewrite Z0. reflexivity.
Qed.
Lemma pc_read_uint_lit n (Q : Z -> St -> Prop) s :
  (forall v r', read_val (KUintLit n) (io_of (s_rd s)) = Ok (VI v, io_of r') -> Q v (set_rd s r')) -> pc (m_read_uint_lit n) Q s.
Proof.
  intros H a s' E. unfold m_read_uint_lit, lift_rd in E.
  destruct (Headers.read_uint_lit n (s_rd s)) as [[b r']| | | |] eqn:Er; inversion E; subst. apply H. apply hb_read_uint_lit. exact Er.
Qed.
Lemma pc_checked_div a b (Q : Z -> St -> Prop) s : (forall x, Q x s) -> pc (checked_div a b) Q s.
Proof. intros H x s' E. unfold checked_div in E. destruct (b =? 0); inversion E; subst. apply H. Qed.

Ltac pc_stepf :=
  first
    [ pc_step
    | lazymatch goal with
      | |- pc (m_read_uint_lit _) _ _ => apply pc_read_uint_lit; let H := fresh "RL" in intros ? ? H; norm_in H
      | |- pc (checked_div _ _) _ _ => apply pc_checked_div; intros ?
      | |- pc (assert_picture_number_incremented_as_expected _) _ _ => unfold assert_picture_number_incremented_as_expected
      end ].

(* what the deserialiser stores for a fragment header, given the values read *)
Definition fragment_context (pn len cnt : Z) (xy : option (Z * Z)) : fields :=
  [(170, VI pn); (171, VI len); (172, VI cnt)] ++
  match xy with Some (x, y) => [(173, VI x); (174, VI y)] | None => [] end.

Definition FragR (s s' : St) : Prop :=
  exists pn len cnt r1 r2 r3,
    read_val (KUintLit 4) (io_of (s_rd s)) = Ok (VI pn, io_of r1) /\
    read_val (KUintLit 2) (io_of r1) = Ok (VI len, io_of r2) /\
    read_val (KUintLit 2) (io_of r2) = Ok (VI cnt, io_of r3) /\
    s_st s' S_picture_number = Some pn /\ s_st s' S_fragment_data_length = Some len /\
    s_st s' S_fragment_slice_count = Some cnt /\
    (((cnt =? 0) = true /\ s_rd s' = r3) \/
     ((cnt =? 0) = false /\ exists x y r4,
        read_val (KUintLit 2) (io_of r3) = Ok (VI x, io_of r4) /\
        read_val (KUintLit 2) (io_of r4) = Ok (VI y, io_of (s_rd s')) /\
        s_st s' S_fragment_x_offset = Some x /\ s_st s' S_fragment_y_offset = Some y)).

Lemma top_fragment_header T s : pc (fragment_header T) (fun _ s' => FragR s s') s.
Proof.
  unfold fragment_header. repeat pc_stepf.
  all: try match goal with H : negb true = true |- _ => discriminate H | H : negb false = false |- _ => discriminate H end.
  all: unfold FragR; norm; do 6 eexists;
    (split; [eassumption | split; [eassumption | split; [eassumption |]]]);
    (split; [unfold upd; cbn; reflexivity | split; [unfold upd; cbn; reflexivity | split; [unfold upd; cbn; reflexivity|]]]).
  all: first [ left; split; [assumption | reflexivity]
             | right; split; [match goal with H : negb (_ =? 0) = true |- _ => apply negb_true_iff in H; exact H
                                         | H : (_ =? 0) = false |- _ => exact H end|];
               do 3 eexists; split; [eassumption | split; [eassumption | split; unfold upd; cbn; reflexivity]]
             ].
Qed.

Theorem fragment_header_agree T s s' :
  fragment_header T s = HOk (tt, s') ->
  exists pn len cnt xy st',
    run des_step fragment_header_prog (mkst 0 [] [] [] (io_of (s_rd s))) = Ok (tt, st') /\
    sio st' = io_of (s_rd s') /\
    root st' = VC 32 (fragment_context pn len cnt xy) /\
    s_st s' S_picture_number = Some pn /\ s_st s' S_fragment_data_length = Some len /\
    s_st s' S_fragment_slice_count = Some cnt /\
    match xy with
    | None => cnt = 0
    | Some (x, y) => cnt <> 0 /\ s_st s' S_fragment_x_offset = Some x /\ s_st s' S_fragment_y_offset = Some y
    end.
Proof.
  intros H. destruct (top_fragment_header T s tt s' H) as (pn & len & cnt & r1 & r2 & r3 & R1 & R2 & R3 & E1 & E2 & E3 & C).
  assert (P : forall n t F r v r', ~ In t (keys F) -> read_val (KUintLit n) r = Ok (v, r') ->
              des_step (OUintLit t n) (mk 32 F [] r) = Ok (v, mk 32 (app1 F t v) [] r')).
  { intros n t F r v r' N E. unfold des_step, step. apply des_prim_fresh; assumption. }
  assert (S0 : des_step (OSetType 32) (mkst 0 [] [] [] (io_of (s_rd s))) = Ok (tt, mk 32 [] [] (io_of (s_rd s)))) by reflexivity.
  unfold fragment_header_prog. cbn [run]. rewrite S0. cbn [rbind].
  rewrite (P 4 170 [] _ _ _ (fun X => X) R1). cbn [rbind run app1 app].
  rewrite (P 2 171 [(170, VI pn)] _ _ _ ltac:(unfold keys; cbn; intuition discriminate) R2). cbn [rbind run app1 app].
  rewrite (P 2 172 [(170, VI pn); (171, VI len)] _ _ _ ltac:(unfold keys; cbn; intuition discriminate) R3). cbn [rbind run app1 app val_int].
  destruct C as [[Z0 ER] | [Z0 (x & y & r4 & R4 & R5 & E4 & E5)]]; rewrite Z0.
  - exists pn, len, cnt, None. eexists. cbn [run]. split; [reflexivity|]. rewrite ER.
    repeat split; try assumption; try reflexivity. apply Z.eqb_eq. exact Z0.
  - exists pn, len, cnt, (Some (x, y)). eexists. cbn [run].
    rewrite (P 2 173 [(170, VI pn); (171, VI len); (172, VI cnt)] _ _ _ ltac:(unfold keys; cbn; intuition discriminate) R4). cbn [rbind run app1 app].
    rewrite (P 2 174 [(170, VI pn); (171, VI len); (172, VI cnt); (173, VI x)] _ _ _ ltac:(unfold keys; cbn; intuition discriminate) R5). cbn [rbind run app1 app].
    split; [reflexivity|]. repeat split; try assumption; try reflexivity. apply Z.eqb_neq. exact Z0.
Qed.
