(* Proofs about Model/MatchSeq.v (make_matching_sequence): the queue loop is a breadth-first
   search; what it finds are the GREEDY completions; soundness; independence of the
   enumeration order of the candidate set; refutation of completeness / shortestness;
   the inserted symbols semantically; termination.
   The Matcher enters only through the C18 theorems (Props/C18.v) and feed_snoc. *)
From Coq Require Import ZArith List Bool Lia Permutation Sorted.
From VC2 Require Import Model.Regex Model.NFA Model.Matcher Model.MatchSeq Proofs.MatcherProofs Props.C18.
Import ListNotations.
Open Scope Z_scope.


(* ====================================================================================
   A. the queue loop is a breadth-first search of the tree spanned by `ex`
   ==================================================================================== *)
Section BFS.
  Variable ex : node -> xres.

  (* n' is in the subtree of n *)
  Inductive desc : node -> node -> Prop :=
  | d_refl n : desc n n
  | d_step n cs c n' : ex n = Children cs -> In c cs -> desc c n' -> desc n n'.

  (* the subtree of n contains a node at which the loop returns `out` *)
  Definition has_acc (n : node) (out : list sym) : Prop := exists n', desc n n' /\ ex n' = Found out.

  Lemma has_acc_inv n out : has_acc n out ->
    ex n = Found out \/ exists cs c, ex n = Children cs /\ In c cs /\ has_acc c out.
  Proof.
    intros (n' & D & F). destruct D as [n | n cs c n' E I D].
    - left. exact F.
    - right. exists cs, c. repeat split; auto. exists n'. auto.
  Qed.

  Lemma bfs_found : forall fuel q out, bfs ex fuel q = Seq out -> exists n, In n q /\ has_acc n out.
  Proof.
    induction fuel as [| f IH]; simpl; intros q out H; [discriminate |].
    destruct q as [| nd q]; [discriminate |].
    destruct (ex nd) as [o | cs] eqn:E.
    - inversion H; subst. exists nd. split; [left; auto |]. exists nd. split; [constructor | auto].
    - apply IH in H. destruct H as (n & I & A). apply in_app_or in I. destruct I as [I | I].
      + exists n. split; [right; auto | auto].
      + exists nd. split; [left; auto |]. destruct A as (n' & D & F). exists n'. split; auto.
        econstructor; eauto.
  Qed.

  Lemma bfs_impossible : forall fuel q, bfs ex fuel q = Impossible ->
    forall n out, In n q -> ~ has_acc n out.
  Proof.
    induction fuel as [| f IH]; simpl; intros q H n out I A; [discriminate |].
    destruct q as [| nd q]; [destruct I |].
    destruct (ex nd) as [o | cs] eqn:E; [discriminate |].
    destruct I as [<- | I].
    - apply has_acc_inv in A. destruct A as [F | (cs' & c & E' & I' & A)]; [congruence |].
      rewrite E in E'. inversion E'; subst cs'.
      eapply IH; eauto. apply in_or_app. right. exact I'.
    - eapply IH; eauto. apply in_or_app. left. exact I.
  Qed.

  (* every step appends one symbol: the queue holds the rest of one level, then the
     beginning of the next *)
  Variable len : node -> nat.
  Hypothesis ex_len : forall n cs c, ex n = Children cs -> In c cs -> len c = S (len n).
  Hypothesis found_len : forall n out, ex n = Found out -> length out = len n.

  Lemma desc_len n n' : desc n n' -> (len n <= len n')%nat.
  Proof. induction 1 as [| n cs c n' E I D IH]; [lia |]. rewrite (ex_len _ _ _ E I) in IH. lia. Qed.

  Definition layered (q : list node) : Prop :=
    exists L A B, q = A ++ B /\ Forall (fun n => len n = L) A /\ Forall (fun n => len n = S L) B.

  Lemma layered_step nd q cs : layered (nd :: q) -> ex nd = Children cs ->
    layered (q ++ cs) /\ Forall (fun n => (len nd <= len n)%nat) q.
  Proof.
    intros (L & A & B & E & HA & HB) X.
    assert (HC : Forall (fun n => len n = S (len nd)) cs).
    { apply Forall_forall. intros c I. eapply ex_len; eauto. }
    destruct A as [| a A].
    - simpl in E. subst B. inversion HB as [| ? ? Hn HB']; subst. split.
      + exists (S L), q, cs. rewrite Hn in HC. auto.
      + eapply Forall_impl; [| exact HB']. simpl. intros; lia.
    - simpl in E. inversion E; subst a q. inversion HA as [| ? ? Hn HA']; subst. split.
      + exists (len nd), A, (B ++ cs). rewrite app_assoc. split; auto. split; auto.
        apply Forall_app. auto.
      + apply Forall_app. split; (eapply Forall_impl; [| eassumption]); simpl; intros; lia.
  Qed.

  Lemma bfs_shortest : forall fuel q out, layered q -> bfs ex fuel q = Seq out ->
    forall n out', In n q -> has_acc n out' -> (length out <= length out')%nat.
  Proof.
    induction fuel as [| f IH]; simpl; intros q out Lq H n out' I A; [discriminate |].
    destruct q as [| nd q]; [discriminate |].
    destruct (ex nd) as [o | cs] eqn:E.
    - inversion H; subst o. clear H.
      assert (Hmin : (len nd <= len n)%nat).
      { destruct Lq as (L & A0 & B0 & E0 & HA & HB).
        assert (Hall : Forall (fun m => (L <= len m)%nat) (nd :: q)).
        { rewrite E0. apply Forall_app. split; (eapply Forall_impl; [| eassumption]); simpl; intros; lia. }
        assert (Hnd : (len nd <= S L)%nat /\ (L <= len nd)%nat).
        { inversion Hall; subst. split; auto.
          destruct A0; simpl in E0; [subst B0; inversion HB; subst; lia | inversion E0; subst; inversion HA; subst; lia]. }
        destruct A0 as [| a A0]; simpl in E0.
        - subst B0. rewrite Forall_forall in HB. rewrite (HB _ I), (HB nd (or_introl eq_refl)). lia.
        - inversion E0; subst a q. inversion HA; subst. rewrite Forall_forall in Hall. apply (Hall n I). }
      destruct A as (n' & D & F). apply desc_len in D.
      rewrite (found_len _ _ E), (found_len _ _ F). lia.
    - destruct (layered_step _ _ _ Lq E) as (Lq' & _).
      destruct I as [<- | I].
      + apply has_acc_inv in A. destruct A as [F | (cs' & c & E' & I' & A)]; [congruence |].
        rewrite E in E'. inversion E'; subst cs'.
        eapply (IH _ _ Lq' H c); eauto. apply in_or_app. right. exact I'.
      + eapply (IH _ _ Lq' H n); eauto. apply in_or_app. left. exact I.
  Qed.

  Lemma layered_single n : layered [n].
  Proof. exists (len n), [n], []. repeat split; auto. Qed.
End BFS.

Lemma bfs_ext ex1 ex2 : (forall n, ex1 n = ex2 n) -> forall fuel q, bfs ex1 fuel q = bfs ex2 fuel q.
Proof.
  intros H. induction fuel as [| f IH]; simpl; intros q; auto.
  destruct q as [| nd q]; auto. rewrite H. destruct (ex2 nd); auto.
Qed.


(* ====================================================================================
   B. sets of labels, the candidate order
   ==================================================================================== *)
Lemma label_eqb_eq a b : label_eqb a b = true <-> a = b.
Proof.
  destruct a, b; simpl; split; intros H; try discriminate; try reflexivity.
  - apply Z.eqb_eq in H. congruence.
  - inversion H. apply Z.eqb_refl.
Qed.

Lemma lmem_In x l : lmem x l = true <-> In x l.
Proof.
  unfold lmem. rewrite existsb_exists. split.
  - intros (y & I & E). apply label_eqb_eq in E. subst. auto.
  - intros I. exists x. split; auto. apply label_eqb_eq. auto.
Qed.

Lemma ladd_In x y l : In y (ladd x l) <-> y = x \/ In y l.
Proof.
  unfold ladd. destruct (lmem x l) eqn:E.
  - apply lmem_In in E. split; [auto | intros [-> | H]; auto].
  - rewrite in_app_iff. simpl. split; [intros [H | [H | []]]; auto | intros [-> | H]; auto].
Qed.

Lemma lunion_In b : forall a y, In y (lunion a b) <-> In y a \/ In y b.
Proof.
  unfold lunion. induction b as [| x b IH]; simpl; intros a y.
  - split; [auto | intros [H | []]; auto].
  - rewrite IH, ladd_In. split; [intros [[-> | H] | H]; auto | intros [H | [-> | H]]; auto].
Qed.

Lemma linter_In a b y : In y (linter a b) <-> In y a /\ In y b.
Proof. unfold linter. rewrite filter_In, lmem_In. reflexivity. Qed.

Lemma lremove_In x a y : In y (lremove x a) <-> In y a /\ y <> x.
Proof.
  unfold lremove. rewrite filter_In, negb_true_iff. split; intros (H1 & H2); split; auto.
  - intros ->. rewrite (proj2 (label_eqb_eq x x) eq_refl) in H2. discriminate.
  - destruct (label_eqb x y) eqn:E; auto. apply label_eqb_eq in E. congruence.
Qed.

Lemma vn_set_In m l : In l (vn_set m) <-> In l (valid_next m).
Proof. unfold vn_set. rewrite lunion_In. simpl. tauto. Qed.

Lemma accepts_next_spec m s :
  accepts_next m s = true <-> In (LSym s) (valid_next m) \/ In LAny (valid_next m).
Proof. unfold accepts_next. rewrite orb_true_iff, !lmem_In, !vn_set_In. reflexivity. Qed.

(* ---- the sort ---------------------------------------------------------------------- *)
Lemma index_of_some s l : forall k i, index_of s l k = Some i ->
  k <= i < k + Z.of_nat (length l) /\ nth_error l (Z.to_nat (i - k)) = Some s.
Proof.
  induction l as [| x l IH]; simpl; intros k i H; [discriminate |].
  destruct (Z.eqb s x) eqn:E.
  - inversion H; subst. apply Z.eqb_eq in E. subst. rewrite Z.sub_diag. simpl. split; [lia | auto].
  - apply IH in H. destruct H as (H1 & H2). split; [lia |].
    replace (Z.to_nat (i - k)) with (S (Z.to_nat (i - (k + 1)))) by lia. exact H2.
Qed.

Lemma sort_key_inj prio a b : sort_key prio a = sort_key prio b -> a = b.
Proof.
  unfold sort_key. destruct a as [s | |], b as [t | |]; try congruence;
    repeat match goal with
    | |- context [index_of ?s prio 0] =>
      let E := fresh "E" in destruct (index_of s prio 0) eqn:E; [apply index_of_some in E |]
    end; intros H; inversion H; subst; try lia; try congruence.
  destruct E as (_ & E), E0 as (_ & E0). congruence.
Qed.

Lemma key_leb_total a b : key_leb a b = false -> key_leb b a = true.
Proof. destruct a as [[a1 a2] a3], b as [[b1 b2] b3]. unfold key_leb. lia. Qed.

Lemma key_leb_trans a b c : key_leb a b = true -> key_leb b c = true -> key_leb a c = true.
Proof. destruct a as [[a1 a2] a3], b as [[b1 b2] b3], c as [[c1 c2] c3]. unfold key_leb. lia. Qed.

Lemma key_leb_antisym a b : key_leb a b = true -> key_leb b a = true -> a = b.
Proof.
  destruct a as [[a1 a2] a3], b as [[b1 b2] b3]. unfold key_leb. intros H1 H2.
  assert (a1 = b1 /\ a2 = b2 /\ a3 = b3) as (-> & -> & ->) by lia. reflexivity.
Qed.

Definition kle (prio : list sym) (a b : label) : Prop := key_leb (sort_key prio a) (sort_key prio b) = true.

Lemma insert_by_perm prio x l : Permutation (x :: l) (insert_by prio x l).
Proof.
  induction l as [| y l IH]; simpl; auto.
  destruct (key_leb _ _); auto.
  eapply perm_trans; [apply perm_swap |]. apply perm_skip. exact IH.
Qed.

Lemma sort_cands_perm prio l : Permutation l (sort_cands prio l).
Proof.
  unfold sort_cands. induction l as [| x l IH]; simpl; auto.
  eapply perm_trans; [| apply insert_by_perm]. apply perm_skip. exact IH.
Qed.

Lemma insert_by_sorted prio x l : StronglySorted (kle prio) l -> StronglySorted (kle prio) (insert_by prio x l).
Proof.
  induction 1 as [| y l S IH F]; simpl.
  - constructor; constructor.
  - destruct (key_leb (sort_key prio x) (sort_key prio y)) eqn:E.
    + constructor; [constructor; auto |]. constructor; [exact E |].
      eapply Forall_impl; [| exact F]. intros z Hz. eapply key_leb_trans; eauto.
    + constructor; auto.
      assert (P := insert_by_perm prio x l).
      apply Forall_forall. intros z Iz. apply (Permutation_in _ (Permutation_sym P)) in Iz.
      destruct Iz as [<- | Iz]; [apply key_leb_total; exact E |].
      rewrite Forall_forall in F. auto.
Qed.

Lemma sort_cands_sorted prio l : StronglySorted (kle prio) (sort_cands prio l).
Proof.
  unfold sort_cands. induction l as [| x l IH]; simpl; [constructor |]. apply insert_by_sorted. exact IH.
Qed.

Lemma sorted_perm_unique prio : forall l1 l2,
  StronglySorted (kle prio) l1 -> StronglySorted (kle prio) l2 -> Permutation l1 l2 -> l1 = l2.
Proof.
  induction l1 as [| a l1 IH]; intros l2 S1 S2 P.
  - apply Permutation_nil in P. auto.
  - destruct l2 as [| b l2]; [apply Permutation_sym, Permutation_nil in P; discriminate |].
    inversion S1 as [| ? ? S1' F1]; subst. inversion S2 as [| ? ? S2' F2]; subst.
    assert (a = b).
    { assert (Ia : In a (b :: l2)) by (eapply Permutation_in; [exact P | left; auto]).
      assert (Ib : In b (a :: l1)) by (eapply Permutation_in; [exact (Permutation_sym P) | left; auto]).
      destruct Ia as [-> | Ia]; auto. destruct Ib as [-> | Ib]; auto.
      rewrite Forall_forall in F1, F2.
      apply (sort_key_inj prio). apply key_leb_antisym; [apply F1 | apply F2]; auto. }
    subst b. f_equal. apply IH; auto. eapply Permutation_cons_inv; eauto.
Qed.

(* the candidate order does not depend on the order in which the set is enumerated *)
Lemma sort_cands_perm_eq prio l1 l2 : Permutation l1 l2 -> sort_cands prio l1 = sort_cands prio l2.
Proof.
  intros P. apply (sorted_perm_unique prio); try apply sort_cands_sorted.
  eapply perm_trans; [apply Permutation_sym, sort_cands_perm |].
  eapply perm_trans; [exact P | apply sort_cands_perm].
Qed.


(* ====================================================================================
   C. the matchers of a search state, through the C18 theorems
   ==================================================================================== *)
(* ms are the Matchers of pats after the symbols w (all accepted) *)
Definition fed (pats : list re) (w : list sym) (ms : list matcher) : Prop :=
  Forall2 (fun p m => feed Directed p w = Some m) pats ms.

Definition all_ok (pats : list re) : Prop := Forall (fun p => eos_ok p = true) pats.

(* every pattern can still be completed after w s *)
Definition all_viable (pats : list re) (w : list sym) (s : sym) : Prop :=
  Forall (fun p => exists v, lang p (w ++ s :: v)) pats.
(* every pattern matches w *)
Definition all_match (pats : list re) (w : list sym) : Prop := Forall (fun p => lang p w) pats.

Lemma fed_root pats : fed pats [] (map (new_matcher Directed) pats).
Proof. induction pats; constructor; auto. Qed.

Lemma fed_complete pats w ms : all_ok pats -> fed pats w ms ->
  (forallb is_complete ms = true <-> all_match pats w).
Proof.
  intros Hok F. induction F as [| p m pats ms Hpm F IH]; simpl.
  - split; [constructor | auto].
  - inversion Hok as [| ? ? Hp Hok']; subst. rewrite andb_true_iff, (IH Hok').
    rewrite (C18_complete_iff_match p w m Hp Hpm). unfold all_match.
    split; [intros (H1 & H2); constructor; auto | intros H; inversion H; auto].
Qed.

Lemma fed_accepts pats w ms s : all_ok pats -> fed pats w ms ->
  (forallb (fun m => accepts_next m s) ms = true <-> all_viable pats w s).
Proof.
  intros Hok F. induction F as [| p m pats ms Hpm F IH]; simpl.
  - split; [constructor | auto].
  - inversion Hok as [| ? ? Hp Hok']; subst. rewrite andb_true_iff, (IH Hok').
    rewrite accepts_next_spec.
    destruct (C18_valid_next p w m Hp Hpm) as (V & _). rewrite (V s). unfold all_viable.
    split; [intros (H1 & H2); constructor; auto | intros H; inversion H; auto].
Qed.

Lemma fed_advance pats w ms s : all_ok pats -> fed pats w ms -> all_viable pats w s ->
  fed pats (w ++ [s]) (advance ms s).
Proof.
  intros Hok F. induction F as [| p m pats ms Hpm F IH]; simpl; intros V; [constructor |].
  inversion Hok as [| ? ? Hp Hok']; subst. inversion V as [| ? ? Vp V']; subst.
  constructor; [| apply IH; auto].
  rewrite (feed_snoc _ _ _ _ _ Hpm).
  destruct (C18_match_symbol p w m s Hp Hpm) as (M & _). rewrite (proj2 M Vp). reflexivity.
Qed.

Lemma fed_fun pats w ms ms' : fed pats w ms -> fed pats w ms' -> ms = ms'.
Proof.
  intros F. revert ms'. induction F as [| p m pats ms Hpm F IH]; intros ms' F'; inversion F'; subst; auto.
  f_equal; [congruence | auto].
Qed.

(* ---- every candidate is accepted by every matcher (set reasoning only) ------------- *)
Definition lab_ok (m : matcher) (c : label) : Prop := In c (valid_next m) \/ In LAny (valid_next m).

Lemma cand_set_ok : forall ms done cand,
  (forall c, In c cand -> c <> LEos /\ Forall (fun m => lab_ok m c) done) ->
  (In LAny cand -> Forall (fun m => In LAny (valid_next m)) done) ->
  forall c, In c (fold_left (fun cand m => cand_step cand (lremove LEos (vn_set m))) ms cand) ->
    c <> LEos /\ Forall (fun m => lab_ok m c) (done ++ ms).
Proof.
  induction ms as [| m ms IH]; simpl; intros done cand H1 H2 c I.
  - rewrite app_nil_r. auto.
  - replace (done ++ m :: ms) with ((done ++ [m]) ++ ms) by (rewrite <- app_assoc; reflexivity).
    set (symbols := lremove LEos (vn_set m)) in *.
    assert (Hs : forall x, In x symbols <-> In x (valid_next m) /\ x <> LEos).
    { intros x. unfold symbols. rewrite lremove_In, vn_set_In. reflexivity. }
    apply (IH (done ++ [m]) (cand_step cand symbols)); auto; unfold cand_step.
    + intros x Ix.
      destruct (lmem LAny symbols) eqn:E1; destruct (lmem LAny cand) eqn:E2; simpl in Ix;
        try (apply lmem_In in E1; apply Hs in E1); try (apply lmem_In in E2).
      * apply lunion_In in Ix. destruct Ix as [Ix | Ix].
        -- destruct (H1 x Ix) as (N & Fx). split; auto. apply Forall_app. split; auto.
           constructor; auto. right. tauto.
        -- apply Hs in Ix. split; [tauto |]. apply Forall_app. split.
           ++ eapply Forall_impl; [| exact (H2 E2)]. intros; right; auto.
           ++ constructor; auto. left. tauto.
      * destruct (H1 x Ix) as (N & Fx). split; auto. apply Forall_app. split; auto.
        constructor; auto. right. tauto.
      * apply Hs in Ix. split; [tauto |]. apply Forall_app. split.
        -- eapply Forall_impl; [| exact (H2 E2)]. intros; right; auto.
        -- constructor; auto. left. tauto.
      * apply linter_In in Ix. destruct Ix as (Ix & Ix'). apply Hs in Ix'.
        destruct (H1 x Ix) as (N & Fx). split; auto. apply Forall_app. split; auto.
        constructor; auto. left. tauto.
    + intros Ix.
      destruct (lmem LAny symbols) eqn:E1; destruct (lmem LAny cand) eqn:E2; simpl in Ix;
        try (apply lmem_In in E1; apply Hs in E1); try (apply lmem_In in E2).
      * apply Forall_app. split; auto. constructor; auto. tauto.
      * exfalso. apply lmem_In in Ix. congruence.
      * exfalso. apply lmem_In in Ix. congruence.
      * apply linter_In in Ix. exfalso. destruct Ix as (Ix & _). apply lmem_In in Ix. congruence.
Qed.

Lemma candidates_ok enum prio ms c :
  (forall l, Permutation l (enum l)) ->
  In c (candidates enum prio ms) -> Forall (fun m => accepts_next m c = true) ms.
Proof.
  intros He. unfold candidates. rewrite in_map_iff. intros (l & <- & I).
  apply (Permutation_in _ (Permutation_sym (sort_cands_perm prio _))) in I.
  apply (Permutation_in _ (Permutation_sym (He _))) in I.
  assert (Hset : forall x, In x (cand_set ms) -> x <> LEos /\ Forall (fun m => lab_ok m x) ([] ++ ms)).
  { intros x. unfold cand_set. apply cand_set_ok.
    - intros y [<- | []]. split; [discriminate | constructor].
    - constructor. }
  simpl in Hset. unfold subst_wild in I.
  assert (Hl : l <> LEos /\ Forall (fun m => lab_ok m l) ms).
  { destruct (lmem LAny (cand_set ms) && negb (is_nil prio)) eqn:E; [| auto].
    apply andb_true_iff in E. destruct E as (E & _). apply lmem_In in E.
    apply lunion_In in I. destruct I as [I | I].
    - apply lremove_In in I. apply Hset. tauto.
    - apply in_map_iff in I. destruct I as (p & <- & _). split; [discriminate |].
      destruct (Hset _ E) as (_ & F). eapply Forall_impl; [| exact F].
      intros m [H | H]; right; auto. }
  destruct Hl as (N & F). eapply Forall_impl; [| exact F]. intros m Hm.
  apply accepts_next_spec. destruct l; simpl; [exact Hm | | congruence].
  right. destruct Hm; auto.
Qed.


(* ====================================================================================
   D. what the search computes: the greedy completions
   ==================================================================================== *)
Lemma feed_all_fed pats w : forall ms, feed_all pats w = Some ms <-> fed pats w ms.
Proof.
  induction pats as [| p pats IH]; simpl; intros ms.
  - split; [intros H; inversion H; constructor | intros H; inversion H; auto].
  - destruct (feed Directed p w) as [m |] eqn:E.
    + destruct (feed_all pats w) as [l |] eqn:E'.
      * split; [intros H; inversion H; subst; constructor; auto; apply IH; auto |].
        intros H. inversion H; subst. f_equal. f_equal; [congruence |].
        assert (Some l = Some l') by (apply IH; auto). congruence.
      * split; [discriminate |]. intros H. inversion H; subst.
        assert (None = Some l') by (apply IH; auto). discriminate.
    + split; [discriminate |]. intros H. inversion H; subst. congruence.
Qed.

(* `out` extends `init` by insertions only *)
Inductive subseq : list sym -> list sym -> Prop :=
| ss_nil : subseq [] []
| ss_take s init out : subseq init out -> subseq (s :: init) (s :: out)
| ss_ins c init out : subseq init out -> subseq init (c :: out).

Section GC.
  Variable pats : list re.
  Variable prio : list sym.
  Variable limit : Z.

  (* gc w rem d out: `out` is reached from the search state "w generated so far, rem still
     required, d more consecutive insertions allowed" by
       - stopping when nothing is required any more and every pattern matches,
       - taking the next required symbol whenever every pattern can still be completed after it
         (the number of insertions allowed is then reset to `limit`),
       - inserting a candidate symbol ONLY when neither applies. *)
  Inductive gc : list sym -> list sym -> Z -> list sym -> Prop :=
  | gc_done w d : all_match pats w -> gc w [] d w
  | gc_take w s rem d out : all_viable pats w s -> gc (w ++ [s]) rem limit out -> gc w (s :: rem) d out
  | gc_insert w rem d c out :
      (rem = [] -> ~ all_match pats w) ->
      (forall s rem', rem = s :: rem' -> ~ all_viable pats w s) ->
      0 < d -> In c (cands_at pats prio w) ->
      gc (w ++ [c]) rem (d - 1) out -> gc w rem d out.

  Hypothesis Hok : all_ok pats.

  Lemma gc_sound w rem d out : gc w rem d out ->
    exists t, out = w ++ t /\ subseq rem t /\ all_match pats out.
  Proof.
    induction 1 as [w d M | w s rem d out V G IH | w rem d c out N1 N2 Hd I G IH].
    - exists []. rewrite app_nil_r. repeat split; auto. constructor.
    - destruct IH as (t & -> & S & M). exists (s :: t). rewrite <- app_assoc. repeat split; auto.
      + constructor. auto.
      + rewrite <- app_assoc in M. exact M.
    - destruct IH as (t & -> & S & M). exists (c :: t). rewrite <- app_assoc. repeat split; auto.
      + constructor. auto.
      + rewrite <- app_assoc in M. exact M.
  Qed.

  Let ex := expand (fun l => l) prio limit.

  Definition ins (nd : node) : xres :=
    if n_d nd <=? 0 then Children []
    else Children (map (fun c => mkNode (n_sofar nd ++ [c]) (n_rem nd) (advance (n_ms nd) c) (n_d nd - 1))
                       (candidates (fun l => l) prio (n_ms nd))).

  Lemma ex_cases nd : ex nd =
    match n_rem nd with
    | [] => if forallb is_complete (n_ms nd) then Found (n_sofar nd) else ins nd
    | s :: rem' =>
      if forallb (fun m => accepts_next m s) (n_ms nd)
      then Children [mkNode (n_sofar nd ++ [s]) rem' (advance (n_ms nd) s) limit]
      else ins nd
    end.
  Proof. reflexivity. Qed.

  Lemma ins_not_found nd out : ins nd <> Found out.
  Proof. unfold ins. destruct (n_d nd <=? 0); discriminate. Qed.

  Lemma ins_child nd cs c : ins nd = Children cs -> In c cs ->
    0 < n_d nd /\ exists x, In x (candidates (fun l => l) prio (n_ms nd)) /\
      c = mkNode (n_sofar nd ++ [x]) (n_rem nd) (advance (n_ms nd) x) (n_d nd - 1).
  Proof.
    unfold ins. destruct (n_d nd <=? 0) eqn:E; intros H I; inversion H; subst; [destruct I |].
    split; [lia |]. apply in_map_iff in I. destruct I as (x & <- & I). eauto.
  Qed.

  Lemma cand_viable w ms x : fed pats w ms -> In x (candidates (fun l => l) prio ms) -> all_viable pats w x.
  Proof.
    intros F I. apply (fed_accepts pats w ms x Hok F). apply forallb_forall.
    apply Forall_forall. exact (candidates_ok (fun l => l) prio ms x (fun l => Permutation_refl l) I).
  Qed.

  Lemma cands_at_fed w ms : fed pats w ms -> cands_at pats prio w = candidates (fun l => l) prio ms.
  Proof. intros F. unfold cands_at. rewrite (proj2 (feed_all_fed pats w ms) F). reflexivity. Qed.

  Lemma acc_gc : forall nd nd', desc ex nd nd' -> forall out, ex nd' = Found out ->
    fed pats (n_sofar nd) (n_ms nd) -> gc (n_sofar nd) (n_rem nd) (n_d nd) out.
  Proof.
    induction 1 as [nd | nd cs c nd' E I D IH]; intros out F Fd.
    - rewrite ex_cases in F. destruct (n_rem nd) as [| s rem'].
      + destruct (forallb is_complete (n_ms nd)) eqn:C; [| exfalso; eapply ins_not_found; eauto].
        inversion F; subst. constructor. apply (fed_complete pats _ _ Hok Fd). exact C.
      + destruct (forallb _ (n_ms nd)); [discriminate | exfalso; eapply ins_not_found; eauto].
    - specialize (IH out F). rewrite ex_cases in E.
      assert (Hins : ins nd = Children cs ->
                (n_rem nd = [] -> ~ all_match pats (n_sofar nd)) ->
                (forall s rem', n_rem nd = s :: rem' -> ~ all_viable pats (n_sofar nd) s) ->
                gc (n_sofar nd) (n_rem nd) (n_d nd) out).
      { intros E' N1 N2. destruct (ins_child _ _ _ E' I) as (Hd & x & Ix & ->). simpl in IH.
        eapply gc_insert; eauto.
        - rewrite (cands_at_fed _ _ Fd). exact Ix.
        - apply IH. apply fed_advance; auto. eapply cand_viable; eauto. }
      destruct (n_rem nd) as [| s rem'] eqn:R.
      + destruct (forallb is_complete (n_ms nd)) eqn:C; [discriminate |].
        apply Hins; auto; [| discriminate].
        intros _ M. apply (fed_complete pats _ _ Hok Fd) in M. congruence.
      + destruct (forallb (fun m => accepts_next m s) (n_ms nd)) eqn:A.
        * inversion E; subst cs. destruct I as [<- | []]. simpl in IH.
          apply (fed_accepts pats _ _ s Hok Fd) in A.
          apply gc_take; auto. apply IH. apply fed_advance; auto.
        * apply Hins; auto; [discriminate |].
          intros s0 rem0 Eq V. inversion Eq; subst.
          apply (fed_accepts pats _ _ s0 Hok Fd) in V. congruence.
  Qed.

  Lemma gc_acc w rem d out : gc w rem d out ->
    forall ms, fed pats w ms -> has_acc ex (mkNode w rem ms d) out.
  Proof.
    induction 1 as [w d M | w s rem d out V G IH | w rem d c out N1 N2 Hd I G IH]; intros ms F.
    - exists (mkNode w [] ms d). split; [constructor |]. rewrite ex_cases. simpl.
      rewrite (proj2 (fed_complete pats w ms Hok F) M). reflexivity.
    - destruct (IH _ (fed_advance pats w ms s Hok F V)) as (n' & D & A).
      exists n'. split; auto.
      eapply (d_step ex _ [mkNode (w ++ [s]) rem (advance ms s) limit]); [| left; reflexivity | exact D].
      rewrite ex_cases. simpl. rewrite (proj2 (fed_accepts pats w ms s Hok F) V). reflexivity.
    - rewrite (cands_at_fed _ _ F) in I.
      destruct (IH _ (fed_advance pats w ms c Hok F (cand_viable _ _ _ F I))) as (n' & D & A).
      exists n'. split; auto.
      assert (Ei : ins (mkNode w rem ms d) =
                   Children (map (fun c => mkNode (w ++ [c]) rem (advance ms c) (d - 1)) (candidates (fun l => l) prio ms))).
      { unfold ins. simpl. destruct (d <=? 0) eqn:E; [lia | reflexivity]. }
      eapply (d_step ex _ (map (fun c => mkNode (w ++ [c]) rem (advance ms c) (d - 1)) (candidates (fun l => l) prio ms))); [| | exact D].
      + rewrite ex_cases. cbn [n_rem n_ms n_sofar n_d]. destruct rem as [| s rem'].
        * destruct (forallb is_complete ms) eqn:C; [| exact Ei].
          exfalso. apply N1; auto. apply (fed_complete pats w ms Hok F). exact C.
        * destruct (forallb (fun m => accepts_next m s) ms) eqn:C; [| exact Ei].
          exfalso. apply (N2 s rem' eq_refl). apply (fed_accepts pats w ms s Hok F). exact C.
      + apply in_map_iff. exists c. auto.
  Qed.

  (* the members of the search tree at which the loop returns = the greedy completions *)
  Definition greedy_completions (init : list sym) (out : list sym) : Prop := gc [] init limit out.

  Lemma root_acc_iff init out :
    has_acc ex (root init pats limit) out <-> greedy_completions init out.
  Proof.
    unfold greedy_completions, root. split.
    - intros (n' & D & A). apply (acc_gc _ _ D out A). simpl. apply fed_root.
    - intros G. apply (gc_acc _ _ _ _ G). apply fed_root.
  Qed.

  Definition nlen (nd : node) : nat := length (n_sofar nd).

  Lemma ex_len nd cs c : ex nd = Children cs -> In c cs -> nlen c = S (nlen nd).
  Proof.
    rewrite ex_cases. intros E I.
    assert (Hins : ins nd = Children cs -> nlen c = S (nlen nd)).
    { intros E'. destruct (ins_child _ _ _ E' I) as (_ & x & _ & ->). unfold nlen. simpl.
      rewrite app_length. simpl. lia. }
    destruct (n_rem nd) as [| s rem'].
    - destruct (forallb is_complete (n_ms nd)); [discriminate | auto].
    - destruct (forallb _ (n_ms nd)); [| auto].
      inversion E; subst cs. destruct I as [<- | []]. unfold nlen. simpl. rewrite app_length. simpl. lia.
  Qed.

  Lemma found_len nd out : ex nd = Found out -> length out = nlen nd.
  Proof.
    rewrite ex_cases. intros E. destruct (n_rem nd) as [| s rem'].
    - destruct (forallb is_complete (n_ms nd)); [inversion E; reflexivity | exfalso; eapply ins_not_found; eauto].
    - destruct (forallb _ (n_ms nd)); [discriminate | exfalso; eapply ins_not_found; eauto].
  Qed.

  (* ---- the theorems about make_seq -------------------------------------------------- *)
  Theorem make_seq_greedy fuel init out : make_seq fuel init pats limit prio = Seq out ->
    greedy_completions init out /\
    forall out', greedy_completions init out' -> (length out <= length out')%nat.
  Proof.
    unfold make_seq, make_seq_gen. fold ex. intros H. split.
    - apply bfs_found in H. destruct H as (n & [<- | []] & A). apply root_acc_iff. exact A.
    - intros out' G. apply root_acc_iff in G.
      eapply (bfs_shortest ex nlen ex_len found_len _ _ _ (layered_single nlen _) H); [left; reflexivity | exact G].
  Qed.

  Theorem make_seq_impossible fuel init : make_seq fuel init pats limit prio <> OutOfFuel ->
    (make_seq fuel init pats limit prio = Impossible <-> forall out, ~ greedy_completions init out).
  Proof.
    intros Hf. split.
    - unfold make_seq, make_seq_gen. fold ex. intros H out G. apply root_acc_iff in G.
      eapply bfs_impossible; eauto. left. reflexivity.
    - intros N. destruct (make_seq fuel init pats limit prio) as [out | |] eqn:E; auto; [| congruence].
      exfalso. apply (N out). apply (make_seq_greedy fuel init out E).
  Qed.

  Theorem make_seq_sound fuel init out : make_seq fuel init pats limit prio = Seq out ->
    subseq init out /\ all_match pats out.
  Proof.
    intros H. apply make_seq_greedy in H. destruct H as (G & _).
    apply gc_sound in G. destruct G as (t & -> & S & M). simpl in *. auto.
  Qed.
End GC.


(* ====================================================================================
   E. independence of the enumeration order of the candidate set
   ==================================================================================== *)
Lemma candidates_enum enum1 enum2 prio ms :
  (forall l, Permutation l (enum1 l)) -> (forall l, Permutation l (enum2 l)) ->
  candidates enum1 prio ms = candidates enum2 prio ms.
Proof.
  intros H1 H2. unfold candidates. f_equal. apply sort_cands_perm_eq.
  eapply perm_trans; [apply Permutation_sym, H1 | apply H2].
Qed.

Lemma make_seq_order_independent enum1 enum2 :
  (forall l, Permutation l (enum1 l)) -> (forall l, Permutation l (enum2 l)) ->
  forall fuel init pats limit prio,
    make_seq_gen enum1 fuel init pats limit prio = make_seq_gen enum2 fuel init pats limit prio.
Proof.
  intros H1 H2 fuel init pats limit prio. unfold make_seq_gen. apply bfs_ext.
  intros nd. unfold expand. rewrite (candidates_enum enum1 enum2 prio (n_ms nd) H1 H2). reflexivity.
Qed.

(* ====================================================================================
   F. the full statement and its refutation
   ==================================================================================== *)
(* out extends init by insertions only, never more than `limit` in a row
   (d = how many more may follow directly) *)
Inductive climit (limit : Z) : list sym -> Z -> list sym -> Prop :=
| cl_nil d : climit limit [] d []
| cl_take s init out d : climit limit init limit out -> climit limit (s :: init) d (s :: out)
| cl_ins c init out d : 0 < d -> climit limit init (d - 1) out -> climit limit init d (c :: out).

(* a completion within the permitted number of consecutive insertions *)
Definition completion (init : list sym) (pats : list re) (limit : Z) (out : list sym) : Prop :=
  climit limit init limit out /\ all_match pats out.

Lemma climit_subseq limit init d out : climit limit init d out -> subseq init out.
Proof. induction 1; constructor; auto. Qed.

(* a matching sequence, decided by running the Matcher *)
Lemma lang_by_matcher p w : eos_ok p = true ->
  match feed Directed p w with Some m => is_complete m | None => false end = true -> lang p w.
Proof.
  intros Hok H. destruct (feed Directed p w) as [m |] eqn:F; [| discriminate].
  apply (C18_complete_iff_match p w m Hok F). exact H.
Qed.

Definition wit1 : re := Alt (Cat (Sym 1) (Sym 3)) (Cat (Sym 4) (Cat (Sym 1) (Sym 2))).      (* (a c) | (x a b) *)
Definition wit2 : re :=                                                                   (* a x x x b | y a b *)
  Alt (Cat (Sym 1) (Cat (Sym 4) (Cat (Sym 4) (Cat (Sym 4) (Sym 2))))) (Cat (Sym 5) (Cat (Sym 1) (Sym 2))).

Lemma refute_complete :
  all_ok [wit1] /\ make_seq 10 [1; 2] [wit1] 3 [] = Impossible /\ completion [1; 2] [wit1] 3 [4; 1; 2].
Proof.
  split; [repeat constructor |]. split; [vm_compute; reflexivity |]. split.
  - apply cl_ins; [lia |]. apply cl_take. apply cl_take. apply cl_nil.
  - constructor; [| constructor]. apply lang_by_matcher; vm_compute; reflexivity.
Qed.

Lemma refute_shortest :
  all_ok [wit2] /\ make_seq 10 [1; 2] [wit2] 3 [] = Seq [1; 4; 4; 4; 2]
  /\ completion [1; 2] [wit2] 3 [5; 1; 2] /\ (length [5; 1; 2] < length [1; 4; 4; 4; 2])%nat.
Proof.
  split; [repeat constructor |]. split; [vm_compute; reflexivity |]. split; [| simpl; lia]. split.
  - apply cl_ins; [lia |]. apply cl_take. apply cl_take. apply cl_nil.
  - constructor; [| constructor]. apply lang_by_matcher; vm_compute; reflexivity.
Qed.


Lemma full_false :
  ~ (forall (fuel : nat) (init : list sym) (pats : list re) (limit : Z) (prio : list sym),
      all_ok pats ->
      (forall out, make_seq fuel init pats limit prio = Seq out ->
         (subseq init out /\ Forall (fun p => lang p out) pats)
         /\ forall out', completion init pats limit out' -> (length out <= length out')%nat)
      /\ (make_seq fuel init pats limit prio = Impossible -> forall out', ~ completion init pats limit out')).
Proof.
  intros H. destruct refute_complete as (Hok & E & C).
  destruct (H 10%nat [1; 2] [wit1] 3 [] Hok) as (_ & H2). exact (H2 E _ C).
Qed.

Lemma greedy_example : greedy_completions [Cat (Sym 4) (Sym 1)] [] 3 [1] [4; 1].
Proof.
  assert (Hok : all_ok [Cat (Sym 4) (Sym 1)]) by (repeat constructor).
  apply (make_seq_greedy _ _ _ Hok 100%nat [1] [4; 1]). vm_compute. reflexivity.
Qed.

(* ====================================================================================
   G. the inserted symbols, semantically
   ==================================================================================== *)
Lemma cands_at_viable pats prio w c : all_ok pats ->
  In c (cands_at pats prio w) -> Forall (fun p => exists v, lang p (w ++ c :: v)) pats.
Proof.
  intros Hok. unfold cands_at. destruct (feed_all pats w) as [ms |] eqn:E; [| intros []].
  apply feed_all_fed in E. intros I. exact (cand_viable pats prio Hok w ms c E I).
Qed.

Definition wildm (m : matcher) : Prop := In LAny (valid_next m).

Lemma cand_set_complete : forall ms done cand,
  (In LAny cand -> Forall wildm done) ->
  (~ In LAny cand -> Exists (fun m => ~ wildm m) done /\
                     forall l, l <> LEos -> Forall (fun m => lab_ok m l) done -> In l cand) ->
  let res := fold_left (fun cand m => cand_step cand (lremove LEos (vn_set m))) ms cand in
  ~ In LAny res -> forall l, l <> LEos -> Forall (fun m => lab_ok m l) (done ++ ms) -> In l res.
Proof.
  induction ms as [| m ms IH]; simpl; intros done cand H2 K NW l Nl Fl.
  - rewrite app_nil_r in Fl. apply K; auto.
  - replace (done ++ m :: ms) with ((done ++ [m]) ++ ms) in Fl by (rewrite <- app_assoc; reflexivity).
    set (symbols := lremove LEos (vn_set m)) in *.
    assert (Hs : forall x, In x symbols <-> In x (valid_next m) /\ x <> LEos).
    { intros x. unfold symbols. rewrite lremove_In, vn_set_In. reflexivity. }
    apply (IH (done ++ [m]) (cand_step cand symbols)); auto; unfold cand_step.
    + intros Ix.
      destruct (lmem LAny symbols) eqn:E1; destruct (lmem LAny cand) eqn:E2; simpl in Ix;
        try (apply lmem_In in E1; apply Hs in E1); try (apply lmem_In in E2).
      * apply Forall_app. split; auto. constructor; auto. unfold wildm. tauto.
      * exfalso. apply lmem_In in Ix. congruence.
      * exfalso. apply lmem_In in Ix. congruence.
      * apply linter_In in Ix. exfalso. destruct Ix as (Ix & _). apply lmem_In in Ix. congruence.
    + intros NW'.
      destruct (lmem LAny symbols) eqn:E1; destruct (lmem LAny cand) eqn:E2; simpl in NW';
        try (apply lmem_In in E1; apply Hs in E1); try (apply lmem_In in E2).
      * exfalso. apply NW'. apply lunion_In. auto.
      * assert (NC : ~ In LAny cand) by (intros X; apply lmem_In in X; congruence).
        destruct (K NC) as (Ex & Kl). split.
        -- apply Exists_app. auto.
        -- intros x Nx Fx. apply Forall_app in Fx. destruct Fx as (Fx & _). auto.
      * assert (NS : ~ wildm m).
        { unfold wildm. intros X. assert (In LAny symbols) by (apply Hs; split; [auto | discriminate]).
          apply lmem_In in H. congruence. }
        split.
        -- apply Exists_app. right. constructor. exact NS.
        -- intros x Nx Fx. apply Forall_app in Fx. destruct Fx as (_ & Fx). inversion Fx as [| ? ? Hm _]; subst.
           apply Hs. split; auto. destruct Hm as [Hm | Hm]; [auto | exfalso; apply NS; exact Hm].
      * assert (NC : ~ In LAny cand) by (intros X; apply lmem_In in X; congruence).
        assert (NS : ~ wildm m).
        { unfold wildm. intros X. assert (In LAny symbols) by (apply Hs; split; [auto | discriminate]).
          apply lmem_In in H. congruence. }
        destruct (K NC) as (Ex & Kl). split.
        -- apply Exists_app. auto.
        -- intros x Nx Fx. apply Forall_app in Fx. destruct Fx as (Fx & Fm). inversion Fm as [| ? ? Hm _]; subst.
           apply linter_In. split; [auto |]. apply Hs. split; auto.
           destruct Hm as [Hm | Hm]; [auto | exfalso; apply NS; exact Hm].
Qed.

Lemma cands_at_exact pats prio w ms c : all_ok pats -> feed_all pats w = Some ms ->
  Exists (fun p => ~ forall s, exists v, lang p (w ++ s :: v)) pats ->
  (In c (cands_at pats prio w) <-> Forall (fun p => exists v, lang p (w ++ c :: v)) pats).
Proof.
  intros Hok E Ex. split; [apply cands_at_viable; auto |]. intros V.
  unfold cands_at. rewrite E. apply feed_all_fed in E.
  (* a matcher that does not list WILDCARD *)
  assert (Exm : Exists (fun m => ~ wildm m) ms).
  { clear V. induction E as [| p m pats ms Hpm F IH]; [inversion Ex |].
    inversion Hok as [| ? ? Hp Hok']; subst.
    inversion Ex as [? ? Hx | ? ? Hx]; subst.
    - left. unfold wildm. intros X. apply Hx.
      destruct (C18_valid_next p w m Hp Hpm) as (_ & _ & A & _). apply A. exact X.
    - right. auto. }
  (* every matcher accepts c *)
  assert (Fc : Forall (fun m => lab_ok m (LSym c)) ms).
  { clear Ex Exm. induction E as [| p m pats ms Hpm F IH]; [constructor |].
    inversion Hok as [| ? ? Hp Hok']; subst. inversion V as [| ? ? Vp V']; subst.
    constructor; [| auto]. destruct (C18_valid_next p w m Hp Hpm) as (A & _). apply A. exact Vp. }
  assert (NW : ~ In LAny (cand_set ms)).
  { intros X.
    assert (Hset : LAny <> LEos /\ Forall (fun m => lab_ok m LAny) ([] ++ ms)).
    { unfold cand_set in X. revert X. apply cand_set_ok.
      - intros y [<- | []]. split; [discriminate | constructor].
      - constructor. }
    destruct Hset as (_ & Fw). simpl in Fw. apply Exists_exists in Exm. destruct Exm as (m & Im & Nm).
    rewrite Forall_forall in Fw. apply Nm. destruct (Fw m Im); auto. }
  assert (Ic : In (LSym c) (cand_set ms)).
  { unfold cand_set in *. apply (cand_set_complete ms [] [LAny]); simpl; auto; try discriminate.
    intros X. exfalso. apply X. left. reflexivity. }
  unfold candidates, subst_wild.
  assert (Em : lmem LAny (cand_set ms) = false).
  { destruct (lmem LAny (cand_set ms)) eqn:X; auto. apply lmem_In in X. contradiction. }
  rewrite Em. simpl. apply in_map_iff. exists (LSym c). split; [reflexivity |].
  eapply Permutation_in; [apply sort_cands_perm | exact Ic].
Qed.

(* ====================================================================================
   H. termination
   ==================================================================================== *)
Section Fin.
  Variable ex : node -> xres.

  (* the subtree of nd has at most N nodes *)
  Inductive fin : node -> nat -> Prop :=
  | fin_found nd out : ex nd = Found out -> fin nd 1
  | fin_children nd cs Ns : ex nd = Children cs -> Forall2 fin cs Ns -> fin nd (S (list_sum Ns)).

  Lemma bfs_fuel : forall fuel q Ns, Forall2 fin q Ns -> (list_sum Ns < fuel)%nat -> bfs ex fuel q <> OutOfFuel.
  Proof.
    induction fuel as [| f IH]; intros q Ns F L; [lia |]. simpl.
    destruct q as [| nd q]; [discriminate |].
    inversion F as [| ? N ? Ns' Hnd F']; subst. simpl in L.
    inversion Hnd as [? out E | ? cs Ms E Fc]; subst; rewrite E; [discriminate |].
    apply (IH _ (Ns' ++ Ms)).
    - apply Forall2_app; auto.
    - rewrite list_sum_app. lia.
  Qed.

  Lemma forall_fin cs : (forall c, In c cs -> exists N, fin c N) -> exists Ns, Forall2 fin cs Ns.
  Proof.
    induction cs as [| c cs IH]; intros H.
    - exists []. constructor.
    - destruct (H c (or_introl eq_refl)) as (N & HN).
      destruct IH as (Ns & HNs); [intros; apply H; right; auto |].
      exists (N :: Ns). constructor; auto.
  Qed.
End Fin.

Lemma expand_fin enum prio limit : forall r d nd,
  length (n_rem nd) = r -> Z.to_nat (n_d nd) = d -> exists N, fin (expand enum prio limit) nd N.
Proof.
  induction r as [r IHr] using lt_wf_ind. induction d as [d IHd] using lt_wf_ind. intros nd Hr Hd.
  set (ex := expand enum prio limit).
  assert (Hins : forall cs,
            (if n_d nd <=? 0 then Children []
             else Children (map (fun c => mkNode (n_sofar nd ++ [c]) (n_rem nd) (advance (n_ms nd) c) (n_d nd - 1))
                                (candidates enum prio (n_ms nd)))) = Children cs ->
            exists Ns, Forall2 (fin ex) cs Ns).
  { intros cs E. apply forall_fin. intros c I.
    destruct (n_d nd <=? 0) eqn:Ed; inversion E; subst cs; [destruct I |].
    apply in_map_iff in I. destruct I as (x & <- & _).
    apply (IHd (Z.to_nat (n_d nd - 1))); simpl; auto. lia. }
  destruct (ex nd) as [out | cs] eqn:E.
  - exists 1%nat. econstructor. exact E.
  - assert (exists Ns, Forall2 (fin ex) cs Ns) as (Ns & HNs).
    { unfold ex, expand in E. destruct (n_rem nd) as [| s rem'] eqn:R.
      - destruct (forallb is_complete (n_ms nd)); [discriminate | apply Hins; exact E].
      - destruct (forallb (fun m => accepts_next m s) (n_ms nd)); [| apply Hins; exact E].
        inversion E; subst cs. apply forall_fin. intros c [<- | []].
        apply (IHr (length rem')) with (d := Z.to_nat limit); simpl in *; auto. lia. }
    exists (S (list_sum Ns)). econstructor; eauto.
Qed.

Lemma make_seq_terminates init pats limit prio :
  exists fuel0, forall fuel, (fuel0 <= fuel)%nat -> make_seq fuel init pats limit prio <> OutOfFuel.
Proof.
  destruct (expand_fin (fun l => l) prio limit _ _ (root init pats limit) eq_refl eq_refl) as (N & F).
  exists (S N). intros fuel L. unfold make_seq, make_seq_gen.
  apply (bfs_fuel _ fuel _ [N]); [repeat constructor; auto | simpl; lia].
Qed.
