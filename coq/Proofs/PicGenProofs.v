(* Lemmas about Model/PicGen.v (integer tail and geometry of the picture generators). *)
From Coq Require Import ZArith List Bool Lia ZifyBool.
From VC2 Require Import Base.PyZ Gen.VC2Math Model.FileFormat Model.PicGen Proofs.FileFormatProofs.
Import ListNotations.
Open Scope Z_scope.
Ltac Zify.zify_post_hook ::= Z.to_euclidean_division_equations.

(* ---- clipping --------------------------------------------------------------------------------- *)

(* whatever integer reaches the clip, the result is within the component's depth *)
Lemma clip_in_depth : forall excursion a, 0 <= excursion ->
  0 <= clip_sample excursion a <= 2 ^ depth_of_excursion excursion - 1.
Proof.
  intros e a He. unfold clip_sample, clip, py_min, py_max, py_pow, depth_of_excursion.
  assert (0 < 2 ^ intlog2 (e + 1)) by (apply Z.pow_pos_nonneg; [lia | apply intlog2_nonneg]).
  lia.
Qed.

(* values already in range are not changed, the rest saturates *)
Lemma clip_sample_id : forall excursion a, 0 <= a <= 2 ^ depth_of_excursion excursion - 1 ->
  clip_sample excursion a = a.
Proof. intros e a H. unfold clip_sample, clip, py_min, py_max, py_pow, depth_of_excursion in *. lia. Qed.

Lemma clip_sample_low : forall excursion a, 0 <= excursion -> a <= 0 -> clip_sample excursion a = 0.
Proof.
  intros e a He H. unfold clip_sample, clip, py_min, py_max, py_pow.
  assert (0 < 2 ^ intlog2 (e + 1)) by (apply Z.pow_pos_nonneg; [lia | apply intlog2_nonneg]).
  lia.
Qed.

Lemma clip_sample_high : forall excursion a, 2 ^ depth_of_excursion excursion - 1 <= a ->
  0 <= excursion -> clip_sample excursion a = 2 ^ depth_of_excursion excursion - 1.
Proof.
  intros e a H He. unfold clip_sample, clip, py_min, py_max, py_pow, depth_of_excursion in *.
  assert (0 < 2 ^ intlog2 (e + 1)) by (apply Z.pow_pos_nonneg; [lia | apply intlog2_nonneg]).
  lia.
Qed.

(* the whole nominal range offset .. offset+excursion survives only if it fits the depth;
   the excursion itself always does *)
Lemma excursion_fits : forall excursion, 1 <= excursion -> clip_sample excursion excursion = excursion.
Proof.
  intros e He. apply clip_sample_id. pose proof (depth_of_excursion_fits e He). lia.
Qed.

Lemma mid_gray_in_depth : forall depth, 1 <= depth -> 0 <= mid_gray_value depth <= 2 ^ depth - 1.
Proof.
  intros d Hd. unfold mid_gray_value, py_shl. rewrite Z.shiftl_1_l.
  assert (E : 2 ^ d = 2 * 2 ^ (d - 1)).
  { replace d with (Z.succ (d - 1)) at 1 by lia. apply Z.pow_succ_r. lia. }
  assert (0 < 2 ^ (d - 1)) by (apply Z.pow_pos_nonneg; lia). lia.
Qed.

(* ---- line structure ----------------------------------------------------------------------------- *)
Section Lines.
  Context {R : Type}.
  Notation frame := (list R).

  Lemma every_other_length : forall (rows : frame) take,
    Z.of_nat (length (every_other take rows)) =
      (Z.of_nat (length rows) + (if take then 1 else 0)) / 2.
  Proof.
    induction rows as [|r rows IH]; intros take.
    - destruct take; reflexivity.
    - destruct take; cbn [every_other length]; rewrite ?Nat2Z.inj_succ, IH; lia.
  Qed.

  (* a field of a frame with an even number of lines has exactly half of them *)
  Lemma rows_from_length_even : forall first_row (f : frame), Z.of_nat (length f) mod 2 = 0 ->
    Z.of_nat (length (rows_from first_row f)) = Z.of_nat (length f) / 2.
  Proof.
    intros fr f H. unfold rows_from. rewrite every_other_length. destruct (fr =? 0); lia.
  Qed.

  Lemma to_interlaced_length : forall (frames : list frame) a b,
    length (to_interlaced_from a b frames) = length frames.
  Proof. induction frames as [|f fs IH]; intros a b; cbn [to_interlaced_from length]; [reflexivity | now rewrite IH]. Qed.

  Lemma progressive_to_interlaced_length : forall tff (frames : list frame),
    length (progressive_to_interlaced tff frames) = length frames.
  Proof. intros [] frames; unfold progressive_to_interlaced; cbn; apply to_interlaced_length. Qed.

  Lemma split_fields_length : forall tff (frames : list frame),
    length (progressive_to_split_fields tff frames) = (2 * length frames)%nat.
  Proof.
    intros tff frames. unfold progressive_to_split_fields. destruct (first_row_indices tff) as [a b].
    induction frames as [|f fs IH]; [reflexivity|]. cbn [flat_map app length]. rewrite IH. lia.
  Qed.

  Lemma list_pair_ind : forall (A : Type) (P : list A -> Prop),
    P [] -> (forall x, P [x]) -> (forall x y l, P l -> P (x :: y :: l)) -> forall l, P l.
  Proof.
    intros A P H0 H1 H2. fix IH 1. intros [|x [|y l]]; [exact H0 | apply H1 | apply H2, IH].
  Qed.

  Lemma interleave_length : forall tff (fields : list frame),
    length (interleave_fields tff fields) = Nat.div2 (length fields).
  Proof.
    intros tff fields. induction fields as [| |f1 f2 rest IH] using list_pair_ind; [reflexivity | reflexivity |].
    cbn [interleave_fields length Nat.div2]. now rewrite IH.
  Qed.

  (* number of pictures out of progressive_to_pictures depends only on the number of frames *)
  Lemma pictures_count : forall pcm interlaced tff (frames : list frame),
    Z.of_nat (length (progressive_to_pictures pcm interlaced tff frames)) =
      let n := Z.of_nat (length frames) in
      if pcm =? 0 then (if interlaced then n / 2 else n) else (if interlaced then n else 2 * n).
  Proof.
    intros pcm interlaced tff frames. unfold progressive_to_pictures.
    destruct (pcm =? 0); destruct interlaced; cbn zeta.
    - rewrite interleave_length, progressive_to_interlaced_length.
      rewrite Nat.div2_div, Nat2Z.inj_div. reflexivity.
    - reflexivity.
    - now rewrite progressive_to_interlaced_length.
    - rewrite split_fields_length. lia.
  Qed.

  Lemma weave_length : forall (t b : frame), length t = length b ->
    length (weave t b) = (2 * length t)%nat.
  Proof.
    induction t as [|x t IH]; intros [|y b] H; cbn [weave length] in *; try lia.
    rewrite IH; lia.
  Qed.

  (* heights: every picture has picture_height lines when every frame has h lines
     (h even whenever lines are split) *)
  Definition all_height (h : Z) (pics : list frame) : Prop :=
    Forall (fun p => Z.of_nat (length p) = h) pics.

  Lemma to_interlaced_height : forall h (frames : list frame) a b, h mod 2 = 0 ->
    all_height h frames -> all_height (h / 2) (to_interlaced_from a b frames).
  Proof.
    intros h frames. induction frames as [|f fs IH]; intros a b He H; cbn [to_interlaced_from]; [constructor|].
    inversion H as [|? ? Hf Hfs]; subst. constructor; [|now apply IH].
    rewrite rows_from_length_even; lia.
  Qed.

  Lemma split_fields_height : forall h tff (frames : list frame), h mod 2 = 0 ->
    all_height h frames -> all_height (h / 2) (progressive_to_split_fields tff frames).
  Proof.
    intros h tff frames He H. unfold progressive_to_split_fields. destruct (first_row_indices tff) as [a b].
    induction H as [|f fs Hf Hfs IH]; [constructor|]. cbn [flat_map app].
    constructor; [rewrite rows_from_length_even; lia|].
    constructor; [rewrite rows_from_length_even; lia|]. exact IH.
  Qed.

  Lemma interleave_height : forall k tff (fields : list frame),
    all_height k fields -> all_height (2 * k) (interleave_fields tff fields).
  Proof.
    intros k tff fields. induction fields as [| |f1 f2 rest IH] using list_pair_ind; intros H; [constructor | constructor |].
    inversion H as [|? ? H1 H']; subst. inversion H' as [|? ? H2 H'']; subst.
    cbn [interleave_fields]. constructor; [|now apply IH].
    destruct tff; rewrite weave_length by lia; lia.
  Qed.

  Lemma pictures_height : forall pcm interlaced tff h (frames : list frame),
    ((negb (pcm =? 0) || interlaced = true) -> h mod 2 = 0) ->
    all_height h frames ->
    all_height (picture_height pcm interlaced h) (progressive_to_pictures pcm interlaced tff frames).
  Proof.
    intros pcm interlaced tff h frames He H.
    unfold progressive_to_pictures, picture_height, py_div, progressive_to_interlaced.
    destruct (pcm =? 0) eqn:Ep; destruct interlaced; cbn [orb negb] in *.
    - assert (h mod 2 = 0) by (apply He; lia).
      replace (2 * (h / 2)) with (2 * (h / 2)) by reflexivity.
      apply interleave_height. destruct (first_row_indices tff); now apply to_interlaced_height.
    - exact H.
    - assert (h mod 2 = 0) by (apply He; lia).
      destruct (first_row_indices tff); now apply to_interlaced_height.
    - assert (h mod 2 = 0) by (apply He; lia). now apply split_fields_height.
  Qed.

  (* numbering *)
  Lemma number_from_fst : forall (pics : list frame) n,
    map fst (number_from n pics) = map (fun i => n + Z.of_nat i) (seq 0 (length pics)).
  Proof.
    induction pics as [|p ps IH]; intros n; [reflexivity|].
    cbn [number_from map length seq fst]. f_equal; [lia|].
    rewrite IH, <- seq_shift, map_map. apply map_ext. intros i. lia.
  Qed.

  Lemma numbering_from_zero : forall (pics : list frame),
    map fst (xyz_to_native pics) = map Z.of_nat (seq 0 (length pics)) /\
    map snd (xyz_to_native pics) = pics.
  Proof.
    intros pics. unfold xyz_to_native. split.
    - rewrite number_from_fst. apply map_ext. intros i. lia.
    - generalize 0. induction pics as [|p ps IH]; intros n; [reflexivity|].
      cbn [number_from map snd]. now rewrite IH.
  Qed.
End Lines.

(* ---- counts per generator ------------------------------------------------------------------------- *)

Lemma pictures_yielded_matches : forall g pcm interlaced tff num_frames (frames : list (list unit)),
  g <> MidGray -> g <> WhiteNoise ->
  Z.of_nat (length frames) = frames_yielded g interlaced num_frames ->
  Z.of_nat (length (progressive_to_pictures pcm interlaced tff frames)) = pictures_yielded g pcm interlaced num_frames.
Proof.
  intros g pcm interlaced tff nf frames H1 H2 Hn. rewrite pictures_count. cbn zeta. rewrite Hn.
  unfold pictures_yielded, py_div. destruct g; try congruence; reflexivity.
Qed.

(* at least one picture; an even number when pictures are fields *)
Lemma fields_even_count : forall g pcm interlaced num_frames, 1 <= num_frames -> (pcm = 0 \/ pcm = 1) ->
  1 <= pictures_yielded g pcm interlaced num_frames /\
  (pcm = 1 -> pictures_yielded g pcm interlaced num_frames mod 2 = 0).
Proof.
  intros g pcm interlaced nf Hn Hp. unfold pictures_yielded, frames_yielded, py_div.
  destruct Hp; subst pcm; change (0 =? 1) with false; change (0 =? 0) with true; change (1 =? 1) with true; change (1 =? 0) with false; cbv iota; destruct g; destruct interlaced; split; lia.
Qed.

(* ---- component dimensions ------------------------------------------------------------------------- *)

Lemma component_dims : forall f pcm interlaced, (pcm = 0 \/ pcm = 1) -> regular f pcm interlaced = true ->
  generated_dims f pcm interlaced = Some (luma_dims_wh f pcm, color_diff_dims_wh f pcm) /\
  0 < fst (luma_dims_wh f pcm) /\ 0 < snd (luma_dims_wh f pcm) /\
  0 < fst (color_diff_dims_wh f pcm) /\ 0 < snd (color_diff_dims_wh f pcm).
Proof.
  intros f pcm interlaced Hp Hr. unfold regular in Hr.
  repeat (apply andb_true_iff in Hr as [Hr ?]).
  assert (Hc : cdf_index f = 0 \/ cdf_index f = 1 \/ cdf_index f = 2) by lia.
  unfold generated_dims, from_444_dims, picture_height, luma_dims_wh, color_diff_dims_wh,
    py_div, py_mod, x_sub, y_sub in *.
  destruct Hc as [Hc|[Hc|Hc]]; rewrite Hc in *; destruct Hp; subst pcm; destruct interlaced;
    cbn [Z.eqb Pos.eqb orb andb fst snd] in *;
    repeat match goal with |- context [if ?c then _ else _] => let E := fresh "E" in destruct c eqn:E end;
    cbn [fst snd]; repeat split; try lia; try (repeat f_equal; lia).
Qed.
