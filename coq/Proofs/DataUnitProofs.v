(* Proofs/DataUnitProofs.v -- a whole picture data unit ends in a verdict (composition of HeadersProofs with
   the fuel lemma of the slice readers, SlicesProofs.d_slice_fuel_sufficient = C08_fuel_sufficient). *)
From Coq Require Import ZArith List Bool Lia.
From VC2 Require Import Base.PyZ Gen.StateRec Gen.SliceSizes Gen.ParseCodes.
From VC2 Require Model.Slices Proofs.SlicesProofs.
From VC2 Require Import Model.Headers Proofs.HeadersProofs Model.DataUnit.
Import ListNotations.
Open Scope Z_scope.

Lemma du_slices_fuel p coords : forall bs, du_slices p coords bs <> Slices.Err Slices.OutOfFuel.
Proof.
  induction coords as [|c rest IH]; intros bs; cbn [du_slices]; [discriminate|].
  pose proof (SlicesProofs.d_slice_fuel_sufficient (Slices.fuel_for bs) p (fst c) (snd c) bs) as HF.
  destruct (Slices.d_slice (Slices.fuel_for bs) p (fst c) (snd c) bs) as [o|e] eqn:E.
  - specialize (IH (Slices.d_rest o)).
    destruct (du_slices p rest (Slices.d_rest o)) as [[os bs']|e]; [discriminate|].
    intros H. apply IH. congruence.
  - intros H. apply HF; [unfold Slices.fuel_for; lia | congruence].
Qed.

Lemma transform_data_slices_verdict s : verdict (transform_data_slices s).
Proof.
  unfold transform_data_slices.
  pose proof (du_slices_fuel (sparams_of s) (Slices.slice_coords (Slices.sp_st (sparams_of s))) (r_bits (s_rd s))) as HF.
  destruct (du_slices _ _ _) as [[os bs']|[| |]]; cbn [of_slices]; unfold verdict; eauto.
  exfalso. apply HF. reflexivity.
Qed.

Theorem picture_data_unit_total T lvl fuel s :
  PIC s -> (length (r_bits (s_rd s)) < fuel)%nat -> verdict (picture_data_unit T lvl fuel s).
Proof.
  intros HP Hl. unfold picture_data_unit, bind.
  destruct (picture_parse_header_total T lvl fuel s HP Hl) as [[(a & E) | [(e & E) | E]] _]; rewrite E.
  - destruct a as [u s']. apply transform_data_slices_verdict.
  - right. left. eauto.
  - right. right. reflexivity.
Qed.
