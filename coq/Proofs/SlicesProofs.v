(* Proofs about Model/Slices.v: the validator's and the deserialiser's slice readers
   agree (property C08). *)
From Coq Require Import ZArith List Bool Lia ZifyBool.
From VC2 Require Import Base.PyZ Gen.StateRec Gen.VC2Math Gen.SliceSizes Gen.Quant Gen.ParseCodes Model.Slices.
Import ListNotations.
Open Scope Z_scope.
Ltac Zify.zify_post_hook ::= Z.to_euclidean_division_equations.

(* ---- generic simulation between two result-returning readers ------------------------ *)
Definition simG {S1 S2 A B} (RS : S1 -> S2 -> Prop) (R : A -> B -> Prop)
  (s : res (A * S1)) (d : res (B * S2)) : Prop :=
  match s, d with
  | Ok (a, s1), Ok (b, s2) => R a b /\ RS s1 s2
  | Err e, Err e' => e = e'
  | _, _ => False
  end.

Lemma simG_bind {S1 S2 A B S1' S2' A' B'} (RS : S1 -> S2 -> Prop) (R : A -> B -> Prop)
  (RS' : S1' -> S2' -> Prop) (R' : A' -> B' -> Prop) s d ks kd :
  simG RS R s d ->
  (forall a b s1 s2, R a b -> RS s1 s2 -> simG RS' R' (ks (a, s1)) (kd (b, s2))) ->
  simG RS' R' (bind s ks) (bind d kd).
Proof.
  intros H K. destruct s as [[a s1]|e], d as [[b s2]|e']; cbn in *; try contradiction.
  - destruct H as [Hr Hs]. apply K; assumption.
  - exact H.
Qed.

Lemma simG_bind_d {S1 S2 A B B'} (RS : S1 -> S2 -> Prop) (R : A -> B -> Prop)
  (R' : A -> B' -> Prop) (s : res (A * S1)) d kd :
  simG RS R s d ->
  (forall a b s1 s2, R a b -> RS s1 s2 -> simG RS R' (Ok (a, s1)) (kd (b, s2))) ->
  simG RS R' s (bind d kd).
Proof.
  intros H K. destruct s as [[a s1]|e], d as [[b s2]|e']; cbn in *; try contradiction.
  - destruct H as [Hr Hs]. apply (K a b s1 s2); assumption.
  - exact H.
Qed.

Lemma simG_weaken {S1 S2 A B} (RS : S1 -> S2 -> Prop) (R R' : A -> B -> Prop) s d :
  simG RS R s d -> (forall a b, R a b -> R' a b) -> simG RS R' s d.
Proof.
  intros H K. destruct s as [[a s1]|e], d as [[b s2]|e']; cbn in *; try contradiction; auto.
  destruct H; split; auto.
Qed.

(* element-wise relation between the input list and the two result lists of read_many *)
Inductive RelL {A B1 B2} (R : A -> B1 -> B2 -> Prop) : list A -> list B1 -> list B2 -> Prop :=
| RelL_nil : RelL R [] [] []
| RelL_cons a l b1 l1 b2 l2 : R a b1 b2 -> RelL R l l1 l2 -> RelL R (a :: l) (b1 :: l1) (b2 :: l2).

Lemma simG_read_many {S1 S2 A B1 B2} (RS : S1 -> S2 -> Prop) (R : A -> B1 -> B2 -> Prop)
  (steps : A -> S1 -> res (B1 * S1)) (stepd : A -> S2 -> res (B2 * S2)) l :
  (forall a s1 s2, In a l -> RS s1 s2 -> simG RS (R a) (steps a s1) (stepd a s2)) ->
  forall s1 s2, RS s1 s2 ->
  simG RS (RelL R l) (read_many steps l s1) (read_many stepd l s2).
Proof.
  induction l as [|a l IH]; intros Hstep s1 s2 Hs; cbn [read_many].
  - cbn. split; [constructor|assumption].
  - eapply simG_bind; [apply Hstep; [left; reflexivity|exact Hs]|].
    intros b1 b2 s1' s2' Hb Hs'. cbn beta iota.
    eapply simG_bind; [apply IH; [intros; apply Hstep; [right; assumption|assumption]|exact Hs']|].
    intros l1 l2 s1'' s2'' Hl Hs''. cbn. split; [constructor; assumption|assumption].
Qed.

(* ---- the state relation inside a bounded block: bits_left = max(0, _bits_remaining) ------ *)
Definition RSb (s d : rstate) : Prop := fst d = Z.max 0 (fst s) /\ snd d = snd s.

Lemma sim_bit s d : RSb s d -> simG RSb eq (s_read_bit s) (d_read_bitb d).
Proof.
  destruct s as [rem bs], d as [bl bs']. unfold RSb; cbn [fst snd]. intros [-> ->].
  unfold s_read_bit, d_read_bitb.
  destruct (rem - 1 <=? -1) eqn:E.
  - replace (Z.max 0 rem =? 0) with true by lia. cbn. split; [reflexivity|]. unfold RSb; cbn. split; [lia|reflexivity].
  - replace (Z.max 0 rem =? 0) with false by lia.
    destruct bs as [|b r]; cbn; [reflexivity|]. split; [reflexivity|]. unfold RSb; cbn. split; [lia|reflexivity].
Qed.

Lemma sim_uint_loop fuel : forall v s d, RSb s d ->
  simG RSb eq (s_read_uint_loop fuel v s) (d_read_uintb_loop fuel v d).
Proof.
  induction fuel as [|f IH]; intros v s d Hs; cbn [s_read_uint_loop d_read_uintb_loop].
  - cbn. reflexivity.
  - eapply simG_bind; [apply sim_bit; exact Hs|].
    intros b b' s1 d1 <- Hs1. cbn beta iota.
    destruct b.
    + cbn. split; [reflexivity|assumption].
    + eapply simG_bind; [apply sim_bit; exact Hs1|].
      intros b2 b2' s2 d2 <- Hs2. cbn beta iota.
      replace (if b2 then py_shl v 1 + 1 else py_shl v 1) with (py_shl v 1 + b2z b2)
        by (destruct b2; cbn; lia).
      apply IH; assumption.
Qed.

Lemma sim_sint fuel s d : RSb s d -> simG RSb eq (s_read_sint fuel s) (d_read_sintb fuel d).
Proof.
  intros Hs. unfold s_read_sint, d_read_sintb, s_read_uint, d_read_uintb.
  eapply simG_bind; [apply sim_uint_loop; exact Hs|].
  intros v v' s1 d1 <- Hs1. cbn beta iota.
  destruct (negb (v =? 0)).
  - eapply simG_bind; [apply sim_bit; exact Hs1|].
    intros b b' s2 d2 <- Hs2. cbn. split; [reflexivity|assumption].
  - cbn. split; [reflexivity|assumption].
Qed.

(* ---- dequantisation relation ------------------------------------------------------------ *)
Definition DQ (qz : Z -> orient -> Z) (slots : list slot) (vals : list Z) (ws : list write) : Prop :=
  length vals = length slots /\ ws = dequant qz slots vals.

Lemma combine_app {A B} (l1 l2 : list A) (v1 v2 : list B) :
  length v1 = length l1 -> combine (l1 ++ l2) (v1 ++ v2) = combine l1 v1 ++ combine l2 v2.
Proof.
  revert v1. induction l1 as [|a l1 IH]; intros [|b v1] H; cbn in *; try discriminate; [reflexivity|].
  f_equal. apply IH. lia.
Qed.

Lemma DQ_nil qz : DQ qz [] [] [].
Proof. split; reflexivity. Qed.

Lemma DQ_app qz s1 s2 v1 v2 w1 w2 :
  DQ qz s1 v1 w1 -> DQ qz s2 v2 w2 -> DQ qz (s1 ++ s2) (v1 ++ v2) (w1 ++ w2).
Proof.
  intros [L1 ->] [L2 ->]. split.
  - rewrite !app_length. lia.
  - unfold dequant. rewrite combine_app by exact L1. symmetry. apply map_app.
Qed.

Lemma DQ_concat {A} qz (slotsf : A -> list slot) l vss wss :
  RelL (fun a => DQ qz (slotsf a)) l vss wss ->
  DQ qz (flat_map slotsf l) (concat vss) (concat wss).
Proof.
  induction 1; cbn; [apply DQ_nil|]. apply DQ_app; assumption.
Qed.

Lemma DQ_single {A} qz (slotf : A -> slot) l vs ws :
  RelL (fun a v w => w = (slotf a, inverse_quant v (let '(lv, o) := slot_level_orient (slotf a) in qz lv o))) l vs ws ->
  DQ qz (map slotf l) vs ws.
Proof.
  induction 1 as [|a l v vs w ws Hw _ [IHl IHw]]; [apply DQ_nil|].
  split; cbn; [lia|]. subst w. unfold dequant in *. cbn. f_equal. exact IHw.
Qed.

(* ---- bands --------------------------------------------------------------------------------- *)
Lemma sim_slice_band fuel ps comp qz sx sy band s d : RSb s d ->
  simG RSb (DQ qz (band_slots ps comp sx sy band))
    (s_slice_band fuel ps comp sx sy band s) (d_slice_band fuel ps comp qz sx sy band d).
Proof.
  intros Hs. destruct band as [level o]. unfold s_slice_band, d_slice_band, band_slots.
  set (xs := zrange (slice_left ps sx comp level) (slice_right ps sx comp level)).
  set (ys := zrange (slice_top ps sy comp level) (slice_bottom ps sy comp level)).
  eapply simG_bind.
  - apply (simG_read_many RSb (fun y => DQ qz (map (fun x => (comp, level, o, y, x)) xs))); [|exact Hs].
    intros y s1 d1 _ Hs1.
    eapply simG_weaken.
    + apply (simG_read_many RSb (fun x v w => w = ((comp, level, o, y, x), inverse_quant v (qz level o)))); [|exact Hs1].
      intros x s2 d2 _ Hs2.
      eapply simG_bind_d; [apply sim_sint; exact Hs2|].
      intros v v' s3 d3 <- Hs3. cbn. split; [reflexivity|assumption].
    + intros vs ws H. apply (DQ_single qz (fun x => (comp, level, o, y, x))). exact H.
  - intros rows wrows s1 d1 Hrows Hs1. cbn. split; [|assumption].
    apply (DQ_concat qz (fun y => map (fun x => (comp, level, o, y, x)) xs)). exact Hrows.
Qed.

Lemma DQ_concat2 {A B} qz (f : A -> B -> list slot) (xs : list B) ys rows wrows :
  RelL (fun y vss wss => RelL (fun x => DQ qz (f y x)) xs vss wss) ys rows wrows ->
  DQ qz (flat_map (fun y => flat_map (f y) xs) ys) (concat (concat rows)) (concat (concat wrows)).
Proof.
  induction 1 as [|y ys vss rows wss wrows H _ IH]; cbn; [apply DQ_nil|].
  rewrite !concat_app. apply DQ_app; [|exact IH].
  apply (DQ_concat qz (f y)). exact H.
Qed.

Lemma sim_color_diff_slice_band fuel ps qz sx sy band s d : RSb s d ->
  simG RSb (DQ qz (chroma_band_slots ps sx sy band))
    (s_color_diff_slice_band fuel ps sx sy band s) (d_color_diff_slice_band fuel ps qz sx sy band d).
Proof.
  intros Hs. destruct band as [level o]. unfold s_color_diff_slice_band, d_color_diff_slice_band, chroma_band_slots.
  set (xs := zrange (slice_left ps sx Str_C1 level) (slice_right ps sx Str_C1 level)).
  set (ys := zrange (slice_top ps sy Str_C1 level) (slice_bottom ps sy Str_C1 level)).
  eapply simG_bind.
  - apply (simG_read_many RSb (fun y vss wss =>
       RelL (fun x => DQ qz [(Str_C1, level, o, y, x); (Str_C2, level, o, y, x)]) xs vss wss)); [|exact Hs].
    intros y s1 d1 _ Hs1.
    apply (simG_read_many RSb (fun x => DQ qz [(Str_C1, level, o, y, x); (Str_C2, level, o, y, x)])); [|exact Hs1].
    intros x s2 d2 _ Hs2.
    eapply simG_bind; [apply sim_sint; exact Hs2|].
    intros v1 v1' s3 d3 <- Hs3. cbn beta iota.
    eapply simG_bind; [apply sim_sint; exact Hs3|].
    intros v2 v2' s4 d4 <- Hs4. cbn. split; [|assumption].
    split; reflexivity.
  - intros rows wrows s1 d1 Hrows Hs1. cbn. split; [|assumption].
    apply (DQ_concat2 qz (fun y x => [(Str_C1, level, o, y, x); (Str_C2, level, o, y, x)])). exact Hrows.
Qed.

(* ---- blocks ------------------------------------------------------------------------------------ *)
Lemma sim_comp_bands fuel ps comp qz sx sy s d : RSb s d ->
  simG RSb (fun vss ws => DQ qz (comp_slots ps comp sx sy) (concat vss) ws)
    (read_many (s_slice_band fuel ps comp sx sy) (bands ps) s) (d_comp_bands fuel ps comp qz sx sy d).
Proof.
  intros Hs. unfold d_comp_bands.
  eapply simG_bind_d.
  - apply (simG_read_many RSb (fun band => DQ qz (band_slots ps comp sx sy band))); [|exact Hs].
    intros band s1 d1 _ Hs1. apply sim_slice_band. exact Hs1.
  - intros vss wss s1 d1 H Hs1. cbn. split; [|assumption].
    apply (DQ_concat qz (band_slots ps comp sx sy)). exact H.
Qed.

Lemma sim_chroma_bands fuel ps qz sx sy s d : RSb s d ->
  simG RSb (fun vss ws => DQ qz (chroma_slots ps sx sy) (concat vss) ws)
    (read_many (s_color_diff_slice_band fuel ps sx sy) (bands ps) s) (d_chroma_bands fuel ps qz sx sy d).
Proof.
  intros Hs. unfold d_chroma_bands.
  eapply simG_bind_d.
  - apply (simG_read_many RSb (fun band => DQ qz (chroma_band_slots ps sx sy band))); [|exact Hs].
    intros band s1 d1 _ Hs1. apply sim_color_diff_slice_band. exact Hs1.
  - intros vss wss s1 d1 H Hs1. cbn. split; [|assumption].
    apply (DQ_concat qz (chroma_band_slots ps sx sy)). exact H.
Qed.

Lemma block_end_flush s d : RSb s d ->
  match s_block_end s, d_flush_inputb d with
  | Ok (_, r), Ok r' => r = r'
  | Err e, Err e' => e = e'
  | _, _ => False
  end.
Proof.
  destruct s as [rem bs], d as [bl bs']. unfold RSb; cbn [fst snd]. intros [-> ->].
  unfold s_block_end, d_flush_inputb.
  destruct (take_bits (Z.to_nat (Z.max 0 rem)) bs) as [[pad r]|e]; cbn; reflexivity.
Qed.

Lemma sim_comp_block fuel ps comp qz sx sy len bs : 0 <= len ->
  simG eq (fun sv ws => DQ qz (comp_slots ps comp sx sy) (fst sv) ws)
    (s_comp_block fuel ps comp sx sy len bs) (d_comp_block fuel ps comp qz sx sy len bs).
Proof.
  intros Hlen. unfold s_comp_block, d_comp_block.
  assert (H0 : RSb (len, bs) (len, bs)) by (split; [cbn; lia|reflexivity]).
  pose proof (sim_comp_bands fuel ps comp qz sx sy (len, bs) (len, bs) H0) as H.
  destruct (read_many _ _ _) as [[vss st]|e]; destruct (d_comp_bands _ _ _ _ _ _ _) as [[ws st']|e'];
    cbn in H |- *; try contradiction; [|exact H].
  destruct H as [HDQ HRS].
  pose proof (block_end_flush st st' HRS) as HF.
  destruct (s_block_end st) as [[pad r]|e]; destruct (d_flush_inputb st') as [r'|e'];
    cbn in HF |- *; try contradiction; [|exact HF].
  split; [exact HDQ|exact HF].
Qed.

Lemma sim_chroma_block fuel ps qz sx sy len bs : 0 <= len ->
  simG eq (fun sv ws => DQ qz (chroma_slots ps sx sy) (fst sv) ws)
    (s_chroma_block fuel ps sx sy len bs) (d_chroma_block fuel ps qz sx sy len bs).
Proof.
  intros Hlen. unfold s_chroma_block, d_chroma_block.
  assert (H0 : RSb (len, bs) (len, bs)) by (split; [cbn; lia|reflexivity]).
  pose proof (sim_chroma_bands fuel ps qz sx sy (len, bs) (len, bs) H0) as H.
  destruct (read_many _ _ _) as [[vss st]|e]; destruct (d_chroma_bands _ _ _ _ _ _) as [[ws st']|e'];
    cbn in H |- *; try contradiction; [|exact H].
  destruct H as [HDQ HRS].
  pose proof (block_end_flush st st' HRS) as HF.
  destruct (s_block_end st) as [[pad r]|e]; destruct (d_flush_inputb st') as [r'|e'];
    cbn in HF |- *; try contradiction; [|exact HF].
  split; [exact HDQ|exact HF].
Qed.

(* ---- fixed-width reads ---------------------------------------------------------------------------- *)
Lemma lor_shl_bit v b : Z.lor (py_shl v 1) (b2z b) = py_shl v 1 + b2z b.
Proof.
  unfold py_shl. destruct b; cbn [b2z]; [|rewrite Z.lor_0_r; lia].
  rewrite Z.shiftl_mul_pow2 by lia. change (2 ^ 1) with 2.
  assert (HL : Z.land (v * 2) 1 = 0).
  { change 1 with (Z.ones 1) at 1. rewrite Z.land_ones by lia. change (2 ^ 1) with 2. apply Z.mod_mul. lia. }
  rewrite <- Z.lxor_lor by exact HL. symmetry. apply Z.add_nocarry_lxor. exact HL.
Qed.

Lemma read_nbits_loop_eq n : forall v bs, s_read_nbits_loop n v bs = d_read_nbits_loop n v bs.
Proof.
  induction n as [|n IH]; intros v bs; cbn [s_read_nbits_loop d_read_nbits_loop]; [reflexivity|].
  destruct bs as [|b r]; cbn [read_bit bind]; [reflexivity|]. rewrite lor_shl_bit. apply IH.
Qed.
Lemma read_nbits_eq n bs : s_read_nbits n bs = d_read_nbits n bs.
Proof. apply read_nbits_loop_eq. Qed.

Lemma d_read_nbits_loop_nonneg n : forall v bs v' r, 0 <= v ->
  d_read_nbits_loop n v bs = Ok (v', r) -> 0 <= v'.
Proof.
  induction n as [|n IH]; intros v bs v' r Hv; cbn [d_read_nbits_loop].
  - intros [= <- _]. exact Hv.
  - destruct bs as [|b bs]; cbn [read_bit bind]; [discriminate|]. apply IH.
    unfold py_shl. rewrite Z.shiftl_mul_pow2 by lia. destruct b; cbn; lia.
Qed.
Lemma d_read_nbits_nonneg n bs v r : d_read_nbits n bs = Ok (v, r) -> 0 <= v.
Proof. apply d_read_nbits_loop_nonneg. lia. Qed.

(* ---- slices ------------------------------------------------------------------------------------------ *)
Definition out_rel (p : sparams) (slots : list slot) (s : s_slice_out) (d : d_slice_out) : Prop :=
  s_rest s = d_rest d /\ s_qindex s = d_qindex d /\ s_lengths s = d_lengths d /\
  length (concat (s_coeffs s)) = length slots /\
  d_writes d = dequant (slice_quantizers p (s_qindex s)) slots (concat (s_coeffs s)).

Definition simO (p : sparams) (slots : list slot) (s : res s_slice_out) (d : res d_slice_out) : Prop :=
  match s, d with
  | Ok s, Ok d => out_rel p slots s d
  | Err e, Err e' => e = e'
  | _, _ => False
  end.

Definition ld_slots (p : sparams) sx sy := comp_slots (sp_st p) Str_Y sx sy ++ chroma_slots (sp_st p) sx sy.
Definition hq_slots (p : sparams) sx sy :=
  comp_slots (sp_st p) Str_Y sx sy ++ comp_slots (sp_st p) Str_C1 sx sy ++ comp_slots (sp_st p) Str_C2 sx sy.

(* the bits available to the two LD blocks after the qindex and slice_y_length fields *)
Definition ld_bits_left (p : sparams) sx sy : Z :=
  8 * slice_bytes (sp_st p) sx sy - 7 - intlog2 (8 * slice_bytes (sp_st p) sx sy - 7).

Lemma ld_slice_sim fuel p sx sy bs :
  d_ld_slice fuel p sx sy bs <> Err BadYLen ->
  simO p (ld_slots p sx sy) (s_ld_slice fuel p sx sy bs) (d_ld_slice fuel p sx sy bs).
Proof.
  unfold d_ld_slice, s_ld_slice. rewrite !read_nbits_eq.
  destruct (d_read_nbits 7 bs) as [[q bs1]|e] eqn:E1; cbn [bind]; [|intros _; reflexivity].
  rewrite !read_nbits_eq.
  destruct (d_read_nbits (intlog2 (8 * slice_bytes (sp_st p) sx sy - 7)) bs1) as [[syl bs2]|e] eqn:E2;
    cbn [bind]; [|intros _; reflexivity].
  set (sbl := 8 * slice_bytes (sp_st p) sx sy - 7 - intlog2 (8 * slice_bytes (sp_st p) sx sy - 7)).
  destruct (syl >? sbl) eqn:EC; [intros H; exfalso; apply H; reflexivity|intros _].
  pose proof (d_read_nbits_nonneg _ _ _ _ E2) as Hsyl.
  pose proof (sim_comp_block fuel (sp_st p) Str_Y (slice_quantizers p q) sx sy syl bs2 Hsyl) as HY.
  destruct (s_comp_block fuel (sp_st p) Str_Y sx sy syl bs2) as [[[yv ypad] bs3]|e];
    destruct (d_comp_block fuel (sp_st p) Str_Y (slice_quantizers p q) sx sy syl bs2) as [[yw bs3']|e'];
    cbn in HY |- *; try contradiction; [|exact HY].
  destruct HY as [HYDQ <-].
  assert (Hc : 0 <= sbl - syl) by lia.
  pose proof (sim_chroma_block fuel (sp_st p) (slice_quantizers p q) sx sy (sbl - syl) bs3 Hc) as HC.
  destruct (s_chroma_block fuel (sp_st p) sx sy (sbl - syl) bs3) as [[[cv cpad] bs4]|e];
    destruct (d_chroma_block fuel (sp_st p) (slice_quantizers p q) sx sy (sbl - syl) bs3) as [[cw bs4']|e'];
    cbn in HC |- *; try contradiction; [|exact HC].
  destruct HC as [HCDQ <-].
  unfold out_rel; cbn. repeat split; try reflexivity.
  - rewrite app_nil_r. destruct (DQ_app _ _ _ _ _ _ _ HYDQ HCDQ) as [HL _]. exact HL.
  - rewrite app_nil_r. destruct (DQ_app _ _ _ _ _ _ _ HYDQ HCDQ) as [_ HW]. exact HW.
Qed.

Lemma sim_hq_comp fuel p qz sx sy comp bs : 0 <= sp_size_scaler p ->
  simG eq (fun s d => fst s = fst d /\ DQ qz (comp_slots (sp_st p) comp sx sy) (fst (snd s)) (snd d))
    (s_hq_comp fuel p sx sy comp bs) (d_hq_comp fuel p qz sx sy comp bs).
Proof.
  intros Hsc. unfold s_hq_comp, d_hq_comp. rewrite read_nbits_eq. change (1 * 8) with (8 * 1).
  destruct (d_read_nbits (8 * 1) bs) as [[lenb bs1]|e] eqn:E1; cbn [bind]; [|reflexivity].
  pose proof (d_read_nbits_nonneg _ _ _ _ E1) as Hl.
  assert (Hlen : 0 <= 8 * (sp_size_scaler p * lenb)) by nia.
  pose proof (sim_comp_block fuel (sp_st p) comp qz sx sy _ bs1 Hlen) as HB.
  destruct (s_comp_block _ _ _ _ _ _ bs1) as [[[v pad] bs2]|e];
    destruct (d_comp_block _ _ _ _ _ _ _ bs1) as [[w bs2']|e']; cbn in HB |- *; try contradiction; [|exact HB].
  destruct HB as [HDQ <-]. split; [split; [reflexivity|exact HDQ]|reflexivity].
Qed.

Lemma hq_comps_collect {C} qz (f : C -> list slot) l
  (cs : list (Z * (list Z * list bool))) (cs' : list (Z * list write)) :
  RelL (fun c s d => fst s = fst d /\ DQ qz (f c) (fst (snd s)) (snd d)) l cs cs' ->
  map fst cs = map fst cs' /\
  DQ qz (flat_map f l) (concat (map (fun c => fst (snd c)) cs)) (concat (map snd cs')).
Proof.
  induction 1 as [|c l s cs d cs' [Hf HDQ] _ [IHf IHDQ]]; cbn; [split; [reflexivity|apply DQ_nil]|].
  split; [congruence|]. apply DQ_app; assumption.
Qed.

Lemma hq_slice_sim fuel p sx sy bs : 0 <= sp_size_scaler p ->
  simO p (hq_slots p sx sy) (s_hq_slice fuel p sx sy bs) (d_hq_slice fuel p sx sy bs).
Proof.
  intros Hsc. unfold s_hq_slice, d_hq_slice.
  assert (HP : forall n bs0, match take_bits n bs0, d_read_nbits_loop n 0 bs0 with
                        | Ok (_, r), Ok (_, r') => r = r' | Err e, Err e' => e = e' | _, _ => False end).
  { assert (HG : forall n v bs0, match take_bits n bs0, d_read_nbits_loop n v bs0 with
                        | Ok (_, r), Ok (_, r') => r = r' | Err e, Err e' => e = e' | _, _ => False end).
    { induction n as [|n IH]; intros v bs0; cbn; [reflexivity|].
      destruct bs0 as [|b r]; cbn; [reflexivity|].
      specialize (IH (py_shl v 1 + b2z b) r).
      destruct (take_bits n r) as [[t r1]|e]; destruct (d_read_nbits_loop n _ r) as [[v' r1']|e'];
        cbn in *; try contradiction; exact IH. }
    intros n bs0. apply HG. }
  unfold d_read_nbits at 1. replace (Z.to_nat (8 * sp_prefix_bytes p)) with (Z.to_nat (sp_prefix_bytes p * 8)) by (f_equal; lia).
  specialize (HP (Z.to_nat (sp_prefix_bytes p * 8)) bs).
  destruct (take_bits _ bs) as [[prefix bs1]|e]; destruct (d_read_nbits_loop _ 0 bs) as [[pv bs1']|e'];
    cbn beta iota in HP; cbn [bind]; try contradiction; [|exact HP].
  subst bs1'. rewrite read_nbits_eq. change (1 * 8) with (8 * 1).
  destruct (d_read_nbits (8 * 1) bs1) as [[q bs2]|e] eqn:E1; cbn [bind]; [|reflexivity].
  pose proof (simG_read_many eq
     (fun c s d => fst s = fst d /\ DQ (slice_quantizers p q) (comp_slots (sp_st p) c sx sy) (fst (snd s)) (snd d))
     (s_hq_comp fuel p sx sy) (d_hq_comp fuel p (slice_quantizers p q) sx sy) [Str_Y; Str_C1; Str_C2]) as HM.
  specialize (HM (fun c s1 s2 _ E => eq_ind s1 (fun s2 => simG eq _ (s_hq_comp fuel p sx sy c s1) (d_hq_comp fuel p _ sx sy c s2))
                                   (sim_hq_comp fuel p _ sx sy c s1 Hsc) s2 E) bs2 bs2 eq_refl).
  destruct (read_many (s_hq_comp fuel p sx sy) _ bs2) as [[cs bs3]|e];
    destruct (read_many (d_hq_comp fuel p _ sx sy) _ bs2) as [[cs' bs3']|e'];
    cbn in HM |- *; try contradiction; [|exact HM].
  destruct HM as [HR <-].
  destruct (hq_comps_collect _ _ _ _ _ HR) as [Hlens HDQ].
  cbn [flat_map] in HDQ. rewrite app_nil_r in HDQ. destruct HDQ as [HL HW].
  unfold out_rel; cbn. repeat split; try reflexivity; assumption.
Qed.

Lemma slice_sim fuel p sx sy bs :
  0 <= sp_size_scaler p ->
  d_slice fuel p sx sy bs <> Err BadYLen ->
  simO p (slice_slots p sx sy) (s_slice fuel p sx sy bs) (d_slice fuel p sx sy bs).
Proof.
  intros Hsc. unfold d_slice, s_slice, slice_slots.
  destruct (is_ld (sp_st p)); [apply ld_slice_sim|].
  destruct (is_hq (sp_st p)); [intros _; apply hq_slice_sim; exact Hsc|].
  intros _. cbn. unfold out_rel; cbn. repeat split; reflexivity.
Qed.

(* the validator reads the slice  ==>  the deserialiser reads it identically *)
Lemma slices_agree fuel p sx sy bs d :
  0 <= sp_size_scaler p ->
  d_slice fuel p sx sy bs = Ok d ->
  exists s, s_slice fuel p sx sy bs = Ok s /\
            s_rest s = d_rest d /\
            length (concat (s_coeffs s)) = length (slice_slots p sx sy) /\
            s_dequantised p sx sy s = d_writes d.
Proof.
  intros Hsc Hd. pose proof (slice_sim fuel p sx sy bs Hsc) as H.
  rewrite Hd in H. specialize (H ltac:(discriminate)).
  destruct (s_slice fuel p sx sy bs) as [s|e]; cbn in H; [|contradiction].
  destruct H as (Hr & Hq & Hl & Hn & Hw). exists s. unfold s_dequantised. repeat split; auto.
Qed.

Lemma qindex_lengths_agree fuel p sx sy bs d :
  0 <= sp_size_scaler p ->
  d_slice fuel p sx sy bs = Ok d ->
  exists s, s_slice fuel p sx sy bs = Ok s /\ s_qindex s = d_qindex d /\ s_lengths s = d_lengths d.
Proof.
  intros Hsc Hd. pose proof (slice_sim fuel p sx sy bs Hsc) as H.
  rewrite Hd in H. specialize (H ltac:(discriminate)).
  destruct (s_slice fuel p sx sy bs) as [s|e]; cbn in H; [|contradiction].
  destruct H as (Hr & Hq & Hl & Hn & Hw). exists s. repeat split; auto.
Qed.

(* conversely: unless the validator rejects the slice_y_length, it fails exactly when the
   deserialiser fails (same error), and succeeds whenever the deserialiser does *)
Lemma slices_agree_converse fuel p sx sy bs :
  0 <= sp_size_scaler p ->
  d_slice fuel p sx sy bs <> Err BadYLen ->
  (forall s, s_slice fuel p sx sy bs = Ok s ->
     exists d, d_slice fuel p sx sy bs = Ok d /\ s_rest s = d_rest d /\ s_dequantised p sx sy s = d_writes d) /\
  (forall e, s_slice fuel p sx sy bs = Err e <-> d_slice fuel p sx sy bs = Err e).
Proof.
  intros Hsc Hnb. pose proof (slice_sim fuel p sx sy bs Hsc Hnb) as H.
  destruct (s_slice fuel p sx sy bs) as [s|e]; destruct (d_slice fuel p sx sy bs) as [d|e'];
    cbn in H; try contradiction.
  - split.
    + intros s0 [= <-]. exists d. destruct H as (Hr & Hq & Hl & Hn & Hw). unfold s_dequantised. repeat split; auto.
    + intros e. split; discriminate.
  - subst e'. split.
    + intros s0; discriminate.
    + intros e0. split; intros [= <-]; reflexivity.
Qed.

(* ---- prefix determinacy and fuel sufficiency of the validator's bounded readers ------------------ *)
(* a reader only looks at the bits it consumes; and it never runs out of fuel when fuel > #bits *)
Definition good {A} (f : nat) (rd : rstate -> res (A * rstate)) : Prop :=
  (forall bl bs a bl' bs', rd (bl, bs) = Ok (a, (bl', bs')) ->
     exists used, bs = used ++ bs' /\ forall tail, rd (bl, used ++ tail) = Ok (a, (bl', tail))) /\
  (forall bl bs, (length bs < f)%nat -> rd (bl, bs) <> Err OutOfFuel).

Lemma good_ret {A} f (a : A) : good f (fun st => Ok (a, st)).
Proof.
  split.
  - intros bl bs a' bl' bs' [= <- <- <-]. exists []. split; [reflexivity|]. intros tail. reflexivity.
  - intros; discriminate.
Qed.

Lemma good_bind {A B} f (m : rstate -> res (A * rstate)) (k : A -> rstate -> res (B * rstate)) :
  good f m -> (forall a, good f (k a)) ->
  good f (fun st => bind (m st) (fun x => let '(a, st1) := x in k a st1)).
Proof.
  intros [Hm1 Hm2] Hk. split.
  - intros bl bs b bl' bs' H.
    destruct (m (bl, bs)) as [[a [bl1 bs1]]|e] eqn:Em; cbn in H; [|discriminate].
    destruct (Hm1 _ _ _ _ _ Em) as (u1 & -> & Hu1).
    destruct (Hk a) as [Hk1 _]. destruct (Hk1 _ _ _ _ _ H) as (u2 & -> & Hu2).
    exists (u1 ++ u2). split; [apply app_assoc|].
    intros tail. rewrite <- app_assoc. rewrite Hu1. cbn. apply Hu2.
  - intros bl bs Hlen H.
    destruct (m (bl, bs)) as [[a [bl1 bs1]]|e] eqn:Em; cbn in H.
    + destruct (Hm1 _ _ _ _ _ Em) as (u1 & -> & _).
      destruct (Hk a) as [_ Hk2]. apply (Hk2 bl1 bs1); [|exact H].
      rewrite app_length in Hlen. lia.
    + apply (Hm2 bl bs Hlen). rewrite Em. injection H as ->. reflexivity.
Qed.

Lemma good_read_many {A B} f (step : A -> rstate -> res (B * rstate)) l :
  (forall a, good f (step a)) -> good f (read_many step l).
Proof.
  intros Hs. induction l as [|a l IH]; cbn [read_many].
  - apply (good_ret f []).
  - apply (good_bind f (step a) (fun b st1 => '(bs, st2) <- read_many step l st1 ;; Ok (b :: bs, st2))); [apply Hs|].
    intros b. apply (good_bind f (read_many step l) (fun bs st2 => Ok (b :: bs, st2))); [exact IH|].
    intros bs. apply good_ret.
Qed.

Lemma good_bitb f : good f d_read_bitb.
Proof.
  split.
  - intros bl bs a bl' bs'. unfold d_read_bitb.
    destruct (bl =? 0) eqn:E.
    + intros [= <- <- <-]. exists []. split; [reflexivity|]. intros tail. reflexivity.
    + destruct bs as [|b r]; cbn; [discriminate|]. intros [= <- <- <-]. exists [b]. split; [reflexivity|].
      intros tail. reflexivity.
  - intros bl bs _. unfold d_read_bitb. destruct (bl =? 0); [discriminate|]. destruct bs; cbn; discriminate.
Qed.

Lemma uint_loop_prefix fuel : forall v bl bs a bl' bs',
  d_read_uintb_loop fuel v (bl, bs) = Ok (a, (bl', bs')) ->
  exists used, bs = used ++ bs' /\ forall tail, d_read_uintb_loop fuel v (bl, used ++ tail) = Ok (a, (bl', tail)).
Proof.
  induction fuel as [|f IH]; intros v bl bs a bl' bs'; cbn [d_read_uintb_loop]; [discriminate|].
  intros H.
  destruct (d_read_bitb (bl, bs)) as [[b [bl1 bs1]]|e] eqn:E1; cbn [bind] in H; [|discriminate].
  destruct (proj1 (good_bitb O) _ _ _ _ _ E1) as (u1 & -> & Hu1).
  destruct b.
  - injection H as <- <- <-. exists u1. split; [reflexivity|]. intros tail. rewrite Hu1. reflexivity.
  - destruct (d_read_bitb (bl1, bs1)) as [[b2 [bl2 bs2]]|e] eqn:E2; cbn [bind] in H; [|discriminate].
    destruct (proj1 (good_bitb O) _ _ _ _ _ E2) as (u2 & -> & Hu2).
    destruct (IH _ _ _ _ _ _ H) as (u3 & -> & Hu3).
    exists (u1 ++ u2 ++ u3). split; [rewrite <- !app_assoc; reflexivity|].
    intros tail. rewrite <- !app_assoc. rewrite Hu1. cbn [bind]. rewrite Hu2. cbn [bind]. apply Hu3.
Qed.

Lemma uint_loop_fuel fuel : forall v bl bs, (length bs < fuel)%nat ->
  d_read_uintb_loop fuel v (bl, bs) <> Err OutOfFuel.
Proof.
  induction fuel as [|f IH]; intros v bl bs Hlen; [lia|]. cbn [d_read_uintb_loop].
  unfold d_read_bitb at 1.
  destruct (bl =? 0) eqn:E; [cbn; discriminate|].
  destruct bs as [|b r]; cbn [read_bit bind]; [discriminate|].
  destruct b; [discriminate|].
  destruct (d_read_bitb (bl - 1, r)) as [[b2 [bl2 bs2]]|e] eqn:E2; cbn [bind].
  - destruct (proj1 (good_bitb O) _ _ _ _ _ E2) as (u2 & -> & _).
    apply IH. cbn in Hlen. rewrite app_length in Hlen. lia.
  - intros [= ->]. revert E2. unfold d_read_bitb. destruct (bl - 1 =? 0); [discriminate|]. destruct r; cbn; discriminate.
Qed.

Lemma good_uintb fuel : good fuel (d_read_uintb fuel).
Proof. split; [apply uint_loop_prefix|apply uint_loop_fuel]. Qed.

Lemma good_sintb fuel : good fuel (d_read_sintb fuel).
Proof.
  unfold d_read_sintb.
  apply (good_bind fuel (d_read_uintb fuel)
    (fun value st1 => if negb (value =? 0) then '(b, st2) <- d_read_bitb st1 ;; Ok (if b then - value else value, st2)
                      else Ok (value, st1))); [apply good_uintb|].
  intros value. destruct (negb (value =? 0)).
  - apply (good_bind fuel d_read_bitb (fun (b : bool) st2 => Ok (if b then - value else value, st2))); [apply good_bitb|].
    intros b. apply good_ret.
  - apply good_ret.
Qed.

Lemma good_slice_band fuel ps comp qz sx sy band : good fuel (d_slice_band fuel ps comp qz sx sy band).
Proof.
  destruct band as [level o]. unfold d_slice_band.
  set (xs := zrange (slice_left ps sx comp level) (slice_right ps sx comp level)).
  set (ys := zrange (slice_top ps sy comp level) (slice_bottom ps sy comp level)).
  set (stepx := fun y : Z => fun (x : Z) (st : rstate) =>
        '(val, st1) <- d_read_sintb fuel st;; Ok ((comp, level, o, y, x, inverse_quant val (qz level o)), st1)).
  apply (good_bind fuel (read_many (fun y st => read_many (stepx y) xs st) ys)
           (fun rows st' => Ok (concat rows, st'))).
  - apply good_read_many. intros y. apply good_read_many. intros x. unfold stepx.
    apply (good_bind fuel (d_read_sintb fuel)
             (fun val st1 => Ok ((comp, level, o, y, x, inverse_quant val (qz level o)), st1))); [apply good_sintb|].
    intros val. apply good_ret.
  - intros rows. apply good_ret.
Qed.

Lemma good_color_diff_slice_band fuel ps qz sx sy band : good fuel (d_color_diff_slice_band fuel ps qz sx sy band).
Proof.
  destruct band as [level o]. unfold d_color_diff_slice_band.
  set (xs := zrange (slice_left ps sx Str_C1 level) (slice_right ps sx Str_C1 level)).
  set (ys := zrange (slice_top ps sy Str_C1 level) (slice_bottom ps sy Str_C1 level)).
  set (stepx := fun y : Z => fun (x : Z) (st : rstate) =>
        '(val1, st1) <- d_read_sintb fuel st;;
        '(val2, st2) <- d_read_sintb fuel st1;;
        Ok ([(Str_C1, level, o, y, x, inverse_quant val1 (qz level o));
             (Str_C2, level, o, y, x, inverse_quant val2 (qz level o))], st2)).
  apply (good_bind fuel (read_many (fun y st => read_many (stepx y) xs st) ys)
           (fun rows st' => Ok (concat (concat rows), st'))).
  - apply good_read_many. intros y. apply good_read_many. intros x. unfold stepx.
    apply (good_bind fuel (d_read_sintb fuel)
             (fun val1 st1 => '(val2, st2) <- d_read_sintb fuel st1;;
                Ok ([(Str_C1, level, o, y, x, inverse_quant val1 (qz level o));
                     (Str_C2, level, o, y, x, inverse_quant val2 (qz level o))], st2))); [apply good_sintb|].
    intros val1.
    apply (good_bind fuel (d_read_sintb fuel)
             (fun val2 st2 => Ok ([(Str_C1, level, o, y, x, inverse_quant val1 (qz level o));
                     (Str_C2, level, o, y, x, inverse_quant val2 (qz level o))], st2))); [apply good_sintb|].
    intros val2. apply good_ret.
  - intros rows. apply good_ret.
Qed.

Lemma good_comp_bands fuel ps comp qz sx sy : good fuel (d_comp_bands fuel ps comp qz sx sy).
Proof.
  unfold d_comp_bands.
  apply (good_bind fuel (read_many (d_slice_band fuel ps comp qz sx sy) (bands ps)) (fun ws st' => Ok (concat ws, st'))).
  - apply good_read_many. intros band. apply good_slice_band.
  - intros ws. apply good_ret.
Qed.

Lemma good_chroma_bands fuel ps qz sx sy : good fuel (d_chroma_bands fuel ps qz sx sy).
Proof.
  unfold d_chroma_bands.
  apply (good_bind fuel (read_many (d_color_diff_slice_band fuel ps qz sx sy) (bands ps)) (fun ws st' => Ok (concat ws, st'))).
  - apply good_read_many. intros band. apply good_color_diff_slice_band.
  - intros ws. apply good_ret.
Qed.

Lemma app_eq_len {A} (a1 a2 b1 b2 : list A) : a1 ++ b1 = a2 ++ b2 -> length a1 = length a2 -> a1 = a2 /\ b1 = b2.
Proof.
  revert a2. induction a1 as [|x a1 IH]; intros [|y a2] H Hl; cbn in *; try discriminate; [split; [reflexivity|exact H]|].
  injection H as -> H. destruct (IH a2 H ltac:(lia)) as [-> ->]. split; reflexivity.
Qed.

Lemma take_bits_spec n : forall bs t r, take_bits n bs = Ok (t, r) <-> bs = t ++ r /\ length t = n.
Proof.
  induction n as [|n IH]; intros bs t r; cbn [take_bits].
  - split.
    + intros [= <- <-]. split; reflexivity.
    + intros [-> Hl]. destruct t; [reflexivity|discriminate].
  - destruct bs as [|b bs]; cbn [read_bit bind].
    + split; [discriminate|]. intros [H Hl]. destruct t; cbn in *; discriminate.
    + destruct (take_bits n bs) as [[t1 r1]|e] eqn:E; cbn [bind].
      * apply IH in E. destruct E as [-> <-]. split.
        -- intros [= <- <-]. split; reflexivity.
        -- intros [H Hl]. destruct t as [|b' t]; [discriminate|]. cbn in H, Hl. injection H as <- H. injection Hl as Hl.
           destruct (app_eq_len _ _ _ _ H ltac:(lia)) as [-> ->]. reflexivity.
      * split; [discriminate|]. intros [H Hl]. destruct t as [|b' t]; [discriminate|]. cbn in H, Hl.
        injection H as <- H. injection Hl as Hl.
        assert (HX : take_bits n bs = Ok (t, r)) by (apply IH; split; assumption). congruence.
Qed.

(* ---- padding bits: the bits flushed at the end of a bounded block are irrelevant -------------------- *)
Definition d_block_of {A} (rd : rstate -> res (A * rstate)) (len : Z) (bs : list bool) : res (A * list bool) :=
  '(ws, st) <- rd (len, bs) ;; r <- d_flush_inputb st ;; Ok (ws, r).

Lemma block_padding_irrelevant {A} fuel (rd : rstate -> res (A * rstate)) :
  good fuel rd -> forall len bs ws rest,
  d_block_of rd len bs = Ok (ws, rest) ->
  exists used pad bl',
    bs = used ++ pad ++ rest /\
    rd (len, bs) = Ok (ws, (bl', pad ++ rest)) /\
    length pad = Z.to_nat bl' /\
    forall pad' rest', length pad' = length pad ->
      d_block_of rd len (used ++ pad' ++ rest') = Ok (ws, rest').
Proof.
  intros [Hp _] len bs ws rest H. unfold d_block_of in H.
  destruct (rd (len, bs)) as [[ws1 [bl' bs']]|e] eqn:E; cbn [bind] in H; [|discriminate].
  unfold d_flush_inputb in H.
  destruct (take_bits (Z.to_nat bl') bs') as [[pad r]|e] eqn:ET; cbn [bind] in H; [|discriminate].
  injection H as -> ->.
  apply take_bits_spec in ET. destruct ET as [-> HL].
  destruct (Hp _ _ _ _ _ E) as (used & -> & Hu).
  exists used, pad, bl'. repeat split; try assumption.
  intros pad' rest' HL'. unfold d_block_of. rewrite Hu. cbn [bind]. unfold d_flush_inputb.
  assert (HT : take_bits (Z.to_nat bl') (pad' ++ rest') = Ok (pad', rest')) by (apply take_bits_spec; split; [reflexivity|lia]).
  rewrite HT. reflexivity.
Qed.

Lemma padding_irrelevant_comp fuel ps comp qz sx sy len bs ws rest :
  d_comp_block fuel ps comp qz sx sy len bs = Ok (ws, rest) ->
  exists used pad bl',
    bs = used ++ pad ++ rest /\
    d_comp_bands fuel ps comp qz sx sy (len, bs) = Ok (ws, (bl', pad ++ rest)) /\
    length pad = Z.to_nat bl' /\
    forall pad' rest', length pad' = length pad ->
      d_comp_block fuel ps comp qz sx sy len (used ++ pad' ++ rest') = Ok (ws, rest').
Proof. apply (block_padding_irrelevant fuel (d_comp_bands fuel ps comp qz sx sy)). apply good_comp_bands. Qed.

Lemma padding_irrelevant_chroma fuel ps qz sx sy len bs ws rest :
  d_chroma_block fuel ps qz sx sy len bs = Ok (ws, rest) ->
  exists used pad bl',
    bs = used ++ pad ++ rest /\
    d_chroma_bands fuel ps qz sx sy (len, bs) = Ok (ws, (bl', pad ++ rest)) /\
    length pad = Z.to_nat bl' /\
    forall pad' rest', length pad' = length pad ->
      d_chroma_block fuel ps qz sx sy len (used ++ pad' ++ rest') = Ok (ws, rest').
Proof. apply (block_padding_irrelevant fuel (d_chroma_bands fuel ps qz sx sy)). apply good_chroma_bands. Qed.

(* ---- InvalidSliceYLength is raised by the validator's ld_slice only, and exactly on a too long slice_y_length ---- *)
Lemma bind_nb {A B} (r : res A) (k : A -> res B) :
  r <> Err BadYLen -> (forall a, k a <> Err BadYLen) -> bind r k <> Err BadYLen.
Proof. intros Hr Hk. destruct r as [a|e]; cbn; [apply Hk|]. intros [= ->]. apply Hr. reflexivity. Qed.

Lemma read_many_nb {S A B} (step : A -> S -> res (B * S)) l : forall st,
  (forall a st, step a st <> Err BadYLen) -> read_many step l st <> Err BadYLen.
Proof.
  induction l as [|a l IH]; intros st Hs; cbn [read_many]; [discriminate|].
  apply bind_nb; [apply Hs|]. intros [b st1]. apply bind_nb; [apply IH; exact Hs|]. intros [bs st2]. discriminate.
Qed.

Lemma read_bit_nb bs : read_bit bs <> Err BadYLen.
Proof. destruct bs; discriminate. Qed.

Lemma take_bits_nb n : forall bs, take_bits n bs <> Err BadYLen.
Proof.
  induction n as [|n IH]; intros bs; cbn [take_bits]; [discriminate|].
  apply bind_nb; [apply read_bit_nb|]. intros [b bs1]. apply bind_nb; [apply IH|]. intros [t bs2]. discriminate.
Qed.

Lemma d_read_nbits_loop_nb n : forall v bs, d_read_nbits_loop n v bs <> Err BadYLen.
Proof.
  induction n as [|n IH]; intros v bs; cbn [d_read_nbits_loop]; [discriminate|].
  apply bind_nb; [apply read_bit_nb|]. intros [b bs1]. apply IH.
Qed.

Lemma d_read_bitb_nb st : d_read_bitb st <> Err BadYLen.
Proof.
  destruct st as [bl bs]. unfold d_read_bitb. destruct (bl =? 0); [discriminate|].
  apply bind_nb; [apply read_bit_nb|]. intros [b r]. discriminate.
Qed.

Lemma s_read_bit_nb st : s_read_bit st <> Err BadYLen.
Proof.
  destruct st as [bl bs]. unfold s_read_bit. destruct (bl - 1 <=? -1); [discriminate|].
  apply bind_nb; [apply read_bit_nb|]. intros [b r]. discriminate.
Qed.

Lemma d_uint_loop_nb fuel : forall v st, d_read_uintb_loop fuel v st <> Err BadYLen.
Proof.
  induction fuel as [|f IH]; intros v st; cbn [d_read_uintb_loop]; [discriminate|].
  apply bind_nb; [apply d_read_bitb_nb|]. intros [b st1]. destruct b; [discriminate|].
  apply bind_nb; [apply d_read_bitb_nb|]. intros [b2 st2]. apply IH.
Qed.

Lemma s_uint_loop_nb fuel : forall v st, s_read_uint_loop fuel v st <> Err BadYLen.
Proof.
  induction fuel as [|f IH]; intros v st; cbn [s_read_uint_loop]; [discriminate|].
  apply bind_nb; [apply s_read_bit_nb|]. intros [b st1]. destruct b; [discriminate|].
  apply bind_nb; [apply s_read_bit_nb|]. intros [b2 st2]. apply IH.
Qed.

Lemma d_sint_nb fuel st : d_read_sintb fuel st <> Err BadYLen.
Proof.
  unfold d_read_sintb. apply bind_nb; [apply d_uint_loop_nb|]. intros [v st1].
  destruct (negb (v =? 0)); [|discriminate]. apply bind_nb; [apply d_read_bitb_nb|]. intros [b st2]. discriminate.
Qed.

Lemma s_sint_nb fuel st : s_read_sint fuel st <> Err BadYLen.
Proof.
  unfold s_read_sint. apply bind_nb; [apply s_uint_loop_nb|]. intros [v st1].
  destruct (negb (v =? 0)); [|discriminate]. apply bind_nb; [apply s_read_bit_nb|]. intros [b st2]. discriminate.
Qed.

Lemma d_comp_block_nb fuel ps comp qz sx sy len bs : d_comp_block fuel ps comp qz sx sy len bs <> Err BadYLen.
Proof.
  unfold d_comp_block, d_comp_bands. apply bind_nb.
  - apply bind_nb; [|intros [ws st]; discriminate]. apply read_many_nb. intros [level o] st. unfold d_slice_band.
    apply bind_nb; [|intros [rows st']; discriminate]. apply read_many_nb. intros y st1. apply read_many_nb. intros x st2.
    apply bind_nb; [apply d_sint_nb|]. intros [v st3]. discriminate.
  - intros [ws [bl bs']]. apply bind_nb; [|intros r; discriminate]. unfold d_flush_inputb.
    apply bind_nb; [apply take_bits_nb|]. intros [t r]. discriminate.
Qed.

Lemma d_chroma_block_nb fuel ps qz sx sy len bs : d_chroma_block fuel ps qz sx sy len bs <> Err BadYLen.
Proof.
  unfold d_chroma_block, d_chroma_bands. apply bind_nb.
  - apply bind_nb; [|intros [ws st]; discriminate]. apply read_many_nb. intros [level o] st. unfold d_color_diff_slice_band.
    apply bind_nb; [|intros [rows st']; discriminate]. apply read_many_nb. intros y st1. apply read_many_nb. intros x st2.
    apply bind_nb; [apply d_sint_nb|]. intros [v st3]. apply bind_nb; [apply d_sint_nb|]. intros [v2 st4]. discriminate.
  - intros [ws [bl bs']]. apply bind_nb; [|intros r; discriminate]. unfold d_flush_inputb.
    apply bind_nb; [apply take_bits_nb|]. intros [t r]. discriminate.
Qed.

Lemma s_comp_block_nb fuel ps comp sx sy len bs : s_comp_block fuel ps comp sx sy len bs <> Err BadYLen.
Proof.
  unfold s_comp_block. apply bind_nb.
  - apply read_many_nb. intros [level o] st. unfold s_slice_band.
    apply bind_nb; [|intros [rows st']; discriminate]. apply read_many_nb. intros y st1. apply read_many_nb. intros x st2.
    apply s_sint_nb.
  - intros [vs [rem bs']]. apply bind_nb; [|intros [pad r]; discriminate]. unfold s_block_end. apply take_bits_nb.
Qed.

Lemma s_chroma_block_nb fuel ps sx sy len bs : s_chroma_block fuel ps sx sy len bs <> Err BadYLen.
Proof.
  unfold s_chroma_block. apply bind_nb.
  - apply read_many_nb. intros [level o] st. unfold s_color_diff_slice_band.
    apply bind_nb; [|intros [rows st']; discriminate]. apply read_many_nb. intros y st1. apply read_many_nb. intros x st2.
    apply bind_nb; [apply s_sint_nb|]. intros [v st3]. apply bind_nb; [apply s_sint_nb|]. intros [v2 st4]. discriminate.
  - intros [vs [rem bs']]. apply bind_nb; [|intros [pad r]; discriminate]. unfold s_block_end. apply take_bits_nb.
Qed.

(* the deserialiser never raises it: it clamps *)
Lemma s_slice_never_bad_length fuel p sx sy bs : s_slice fuel p sx sy bs <> Err BadYLen.
Proof.
  unfold s_slice. destruct (is_ld (sp_st p)); [|destruct (is_hq (sp_st p)); [|discriminate]].
  - unfold s_ld_slice. rewrite read_nbits_eq. apply bind_nb; [apply d_read_nbits_loop_nb|]. intros [q bs1].
    rewrite read_nbits_eq. apply bind_nb; [apply d_read_nbits_loop_nb|]. intros [syl bs2].
    apply bind_nb; [apply s_comp_block_nb|]. intros [y bs3]. apply bind_nb; [apply s_chroma_block_nb|]. intros [c bs4]. discriminate.
  - unfold s_hq_slice. apply bind_nb; [apply take_bits_nb|]. intros [prefix bs1].
    rewrite read_nbits_eq. apply bind_nb; [apply d_read_nbits_loop_nb|]. intros [q bs2].
    apply bind_nb; [|intros [cs bs3]; discriminate]. apply read_many_nb. intros comp bs3. unfold s_hq_comp.
    rewrite read_nbits_eq. apply bind_nb; [apply d_read_nbits_loop_nb|]. intros [lenb bs4].
    apply bind_nb; [apply s_comp_block_nb|]. intros [r bs5]. discriminate.
Qed.

Lemma d_hq_slice_nb fuel p sx sy bs : d_hq_slice fuel p sx sy bs <> Err BadYLen.
Proof.
  unfold d_hq_slice. apply bind_nb; [apply d_read_nbits_loop_nb|]. intros [pv bs1].
  apply bind_nb; [apply d_read_nbits_loop_nb|]. intros [q bs2].
  apply bind_nb; [|intros [cs bs3]; discriminate]. apply read_many_nb. intros comp bs3. unfold d_hq_comp.
  apply bind_nb; [apply d_read_nbits_loop_nb|]. intros [lenb bs4].
  apply bind_nb; [apply d_comp_block_nb|]. intros [r bs5]. discriminate.
Qed.

(* the validator raises InvalidSliceYLength exactly when the two header fields are readable and
   slice_y_length exceeds the bits left in the slice -- which is exactly the deserialiser's clamp condition *)
Lemma d_ld_bad_length_iff fuel p sx sy bs :
  d_ld_slice fuel p sx sy bs = Err BadYLen <->
  exists q bs1 syl bs2,
    s_read_nbits 7 bs = Ok (q, bs1) /\
    s_read_nbits (intlog2 (8 * slice_bytes (sp_st p) sx sy - 7)) bs1 = Ok (syl, bs2) /\
    (syl >? ld_bits_left p sx sy) = true.
Proof.
  unfold d_ld_slice, ld_bits_left. rewrite !read_nbits_eq. split.
  - destruct (d_read_nbits 7 bs) as [[q bs1]|e] eqn:E1; cbn [bind].
    2:{ intros [= ->]. exfalso. exact (d_read_nbits_loop_nb _ _ _ E1). }
    destruct (d_read_nbits (intlog2 (8 * slice_bytes (sp_st p) sx sy - 7)) bs1) as [[syl bs2]|e] eqn:E2; cbn [bind].
    2:{ intros [= ->]. exfalso. exact (d_read_nbits_loop_nb _ _ _ E2). }
    destruct (syl >? _) eqn:EC.
    + intros _. exists q, bs1, syl, bs2. rewrite read_nbits_eq. repeat split; assumption.
    + intros H. exfalso. revert H. apply bind_nb; [apply d_comp_block_nb|]. intros [yw bs3].
      apply bind_nb; [apply d_chroma_block_nb|]. intros [cw bs4]. discriminate.
  - intros (q & bs1 & syl & bs2 & E1 & E2 & EC). rewrite read_nbits_eq in E2. rewrite E1. cbn [bind]. rewrite E2. cbn [bind].
    rewrite EC. reflexivity.
Qed.

(* ---- fuel: S (length bits) is always enough ------------------------------------------------------------ *)
Definition okL {A} (bs : list bool) (r : res (A * list bool)) : Prop :=
  r <> Err OutOfFuel /\ forall a bs', r = Ok (a, bs') -> (length bs' <= length bs)%nat.

Lemma bind_okL {A B} bs (r : res (A * list bool)) (k : A * list bool -> res (B * list bool)) :
  okL bs r -> (forall a bs', (length bs' <= length bs)%nat -> okL bs' (k (a, bs'))) -> okL bs (bind r k).
Proof.
  intros [Hr1 Hr2] Hk. destruct r as [[a bs']|e]; cbn [bind].
  - specialize (Hk a bs' (Hr2 a bs' eq_refl)). destruct Hk as [Hk1 Hk2]. split; [exact Hk1|].
    intros b bs'' H. specialize (Hk2 b bs'' H). specialize (Hr2 a bs' eq_refl). lia.
  - split; [intros [= ->]; apply Hr1; reflexivity|discriminate].
Qed.

Lemma bind_nof {A B} bs (r : res (A * list bool)) (k : A * list bool -> res B) :
  okL bs r -> (forall a bs', (length bs' <= length bs)%nat -> k (a, bs') <> Err OutOfFuel) -> bind r k <> Err OutOfFuel.
Proof.
  intros [Hr1 Hr2] Hk. destruct r as [[a bs']|e]; cbn [bind].
  - apply Hk. apply (Hr2 a bs' eq_refl).
  - intros [= ->]; apply Hr1; reflexivity.
Qed.

Lemma read_many_okL {A B} (step : A -> list bool -> res (B * list bool)) l : forall bs,
  (forall a bs', (length bs' <= length bs)%nat -> okL bs' (step a bs')) -> okL bs (read_many step l bs).
Proof.
  induction l as [|a l IH]; intros bs Hs; cbn [read_many].
  - split; [discriminate|]. intros a bs' [= _ <-]. lia.
  - apply bind_okL; [apply Hs; lia|]. intros b bs1 H1.
    apply bind_okL; [apply IH; intros a' bs2 H2; apply Hs; lia|].
    intros bl bs2 H2. split; [discriminate|]. intros x bs3 [= _ <-]. lia.
Qed.

Lemma d_read_nbits_loop_okL n : forall v bs, okL bs (d_read_nbits_loop n v bs).
Proof.
  induction n as [|n IH]; intros v bs; cbn [d_read_nbits_loop].
  - split; [discriminate|]. intros a bs' [= _ <-]. lia.
  - destruct bs as [|b r]; cbn [read_bit bind]; [split; discriminate|].
    destruct (IH (py_shl v 1 + b2z b) r) as [H1 H2]. split; [exact H1|].
    intros a bs' H. specialize (H2 a bs' H). cbn. lia.
Qed.

Lemma block_okL {A} fuel (rd : rstate -> res (A * rstate)) len bs :
  good fuel rd -> (length bs < fuel)%nat -> okL bs (d_block_of rd len bs).
Proof.
  intros [Hp Hf] Hlen. unfold d_block_of.
  destruct (rd (len, bs)) as [[ws [bl' bs']]|e] eqn:E; cbn [bind].
  - destruct (Hp _ _ _ _ _ E) as (used & -> & _). unfold d_flush_inputb.
    destruct (take_bits (Z.to_nat bl') bs') as [[pad r]|e] eqn:ET; cbn [bind].
    + apply take_bits_spec in ET. destruct ET as [-> _]. split; [discriminate|].
      intros a bs'' [= _ <-]. rewrite !app_length. lia.
    + split; [|discriminate]. intros [= ->]. revert ET. clear. revert bs'.
      induction (Z.to_nat bl') as [|n IH]; intros bs'; cbn [take_bits]; [discriminate|].
      destruct bs' as [|b r]; cbn [read_bit bind]; [discriminate|].
      destruct (take_bits n r) as [[t r1]|e] eqn:E; cbn [bind]; [discriminate|]. intros [= ->]. exact (IH r E).
  - split; [|discriminate]. intros [= ->]. exact (Hf len bs Hlen E).
Qed.

Lemma d_slice_fuel_sufficient fuel p sx sy bs :
  (length bs < fuel)%nat -> d_slice fuel p sx sy bs <> Err OutOfFuel.
Proof.
  intros Hlen. unfold d_slice. destruct (is_ld (sp_st p)); [|destruct (is_hq (sp_st p)); [|discriminate]].
  - unfold d_ld_slice.
    apply (bind_nof bs); [apply d_read_nbits_loop_okL|]. intros q bs1 H1.
    apply (bind_nof bs1); [apply d_read_nbits_loop_okL|]. intros syl bs2 H2.
    destruct (syl >? _); [discriminate|].
    apply (bind_nof bs2); [apply (block_okL fuel (d_comp_bands fuel (sp_st p) Str_Y _ sx sy)); [apply good_comp_bands|lia]|].
    intros yw bs3 H3.
    apply (bind_nof bs3); [apply (block_okL fuel (d_chroma_bands fuel (sp_st p) _ sx sy)); [apply good_chroma_bands|lia]|].
    intros cw bs4 H4. discriminate.
  - unfold d_hq_slice.
    apply (bind_nof bs); [apply d_read_nbits_loop_okL|]. intros pv bs1 H1.
    apply (bind_nof bs1); [apply d_read_nbits_loop_okL|]. intros q bs2 H2.
    apply (bind_nof bs2); [|intros; discriminate].
    apply read_many_okL. intros comp bs3 H3. unfold d_hq_comp.
    apply bind_okL; [apply d_read_nbits_loop_okL|]. intros lenb bs4 H4.
    apply bind_okL; [apply (block_okL fuel (d_comp_bands fuel (sp_st p) comp _ sx sy)); [apply good_comp_bands|lia]|].
    intros ws bs5 H5. split; [discriminate|]. intros a bs6 [= _ <-]. lia.
Qed.

Lemma s_slice_fuel_sufficient fuel p sx sy bs :
  0 <= sp_size_scaler p -> d_slice fuel p sx sy bs <> Err BadYLen ->
  (length bs < fuel)%nat -> s_slice fuel p sx sy bs <> Err OutOfFuel.
Proof.
  intros Hsc Hnb Hlen H.
  destruct (slices_agree_converse fuel p sx sy bs Hsc Hnb) as [_ HE].
  apply (d_slice_fuel_sufficient fuel p sx sy bs Hlen). apply HE. exact H.
Qed.

(* ---- a whole transform_data / fragment_data: the slices one after another -------------------------------- *)
Lemma slices_seq_agree fuel p : 0 <= sp_size_scaler p -> forall coords bs ds rest,
  d_slices fuel p coords bs = Ok (ds, rest) ->
  exists ss, s_slices fuel p coords bs = Ok (ss, rest) /\
             length ss = length coords /\
             map (fun cs => s_dequantised p (fst (fst cs)) (snd (fst cs)) (snd cs)) (combine coords ss) = map d_writes ds /\
             map s_qindex ss = map d_qindex ds /\ map s_lengths ss = map d_lengths ds.
Proof.
  intros Hsc. unfold d_slices, s_slices.
  induction coords as [|c coords IH]; intros bs ds rest; cbn [read_many].
  - intros [= <- <-]. exists []. repeat split; reflexivity.
  - destruct (d_slice fuel p (fst c) (snd c) bs) as [d|e] eqn:Ed; cbn [bind]; [|discriminate].
    destruct (slices_agree fuel p _ _ bs d Hsc Ed) as (s & Es & Hrest & _ & Hw).
    destruct (qindex_lengths_agree fuel p _ _ bs d Hsc Ed) as (s' & Es' & Hq & Hl).
    rewrite Es in Es'. injection Es' as <-.
    destruct (read_many _ coords (d_rest d)) as [[ds' rest']|e] eqn:Er; cbn [bind]; [|discriminate].
    intros [= <- <-].
    destruct (IH _ _ _ Er) as (ss & Ess & Hlen & Hws & Hqs & Hls).
    exists (s :: ss). rewrite Es. cbn [bind]. rewrite Hrest. rewrite Ess. cbn [bind].
    repeat split; cbn; congruence.
Qed.
