(* C14 -- Lossy encoding fills slices to the byte budget with the smallest qindex.
   Property theorems only; each closed by `exact <lemma>`.
   Model: Model/EncoderSlices.v (hand model of encoder/pictures.py, compared with the real
   functions on every run by tools/harness/C14.py) over Gen/Quant.v, Gen/ExpGolombLen.v,
   Gen/SliceSizes.v, Gen/EncBudget.v, Gen/VC2Math.v (regenerated from /repo: tie T).
   The model describes the REPAIRED encoder (fixes/C14-qindex-field-overflow.diff): a slice
   whose smallest fitting index does not fit the qindex field raises Insufficient*PictureBytesError. *)
From Coq Require Import ZArith List Bool Lia.
From VC2 Require Import Base.PyZ Gen.StateRec Gen.SliceSizes Gen.EncBudget Model.EncoderSlices
                        Proofs.SliceSizesProofs Proofs.EncoderSlicesProofs.
Import ListNotations.
Open Scope Z_scope.

(* quantize_to_fit is a LINEAR upward search: whatever it returns fits, is not below the
   requested minimum, and NO smaller admissible index fits.  Unbounded in the coefficient
   values, the number and length of the coefficient sets, target and alignment. *)
Theorem C14_fit_minimal : forall target_size coeff_sets align_bits minimum_qindex q qs,
  quantize_to_fit target_size coeff_sets align_bits minimum_qindex = Some (q, qs) ->
  minimum_qindex <= q /\
  fits target_size coeff_sets align_bits q = true /\
  qs = quantize_sets q coeff_sets /\
  (forall q', minimum_qindex <= q' < q -> fits target_size coeff_sets align_bits q' = false).
Proof. exact quantize_to_fit_spec. Qed.

(* the `for qindex in count(minimum_qindex)` loop terminates for every input the callers
   can produce (assert target_size >= 0; align_bits = 1 or 8*slice_size_scaler) *)
Theorem C14_search_terminates : forall target_size coeff_sets align_bits minimum_qindex,
  0 <= target_size -> 0 < align_bits ->
  exists q qs, quantize_to_fit target_size coeff_sets align_bits minimum_qindex = Some (q, qs).
Proof. exact quantize_to_fit_total. Qed.

(* ... and the index it finds is bounded by the coefficient magnitudes only *)
Theorem C14_qindex_upper_bound : forall target_size coeff_sets align_bits minimum_qindex q qs,
  0 <= target_size -> 0 < align_bits ->
  quantize_to_fit target_size coeff_sets align_bits minimum_qindex = Some (q, qs) ->
  q <= Z.max minimum_qindex (zero_qindex coeff_sets).
Proof. exact quantize_to_fit_upper. Qed.

(* "fits" is monotone in the index for this quantiser (magnitudes, hence code lengths, never
   grow with the index), so the linear search's answer is also THE threshold: every index at
   or above it fits, none below does.  (A bisection would have been exact too.) *)
Theorem C14_fits_monotone : forall target_size coeff_sets align_bits q q',
  0 < align_bits -> q <= q' ->
  fits target_size coeff_sets align_bits q = true -> fits target_size coeff_sets align_bits q' = true.
Proof. exact fits_monotone. Qed.

(* the search itself knows nothing about the width of the qindex field: the unrepaired
   encoder emitted such indices (serialisation then failed); see the fix *)
Theorem C14_search_qindex_7bit_refuted :
  exists t sets q qs, 0 <= t /\ quantize_to_fit t sets 1 0 = Some (q, qs) /\ 127 < q.
Proof. exact quantize_to_fit_exceeds_7_bits. Qed.

(* HQ lossy, per slice (in raster order, slice (sx, sy) paired with its coefficients):
   index in [minimum, 255], fits the slice's own budget 8*scaler*slice_bytes, no smaller
   admissible index fits, the lengths are those of the quantised coefficients, the three
   length fields add up to the slice's budget. *)
Theorem C14_hq_slices_minimal : forall picture_bytes rows minimum_qindex minimum_slice_size_scaler s slices,
  make_transform_data_hq_lossy picture_bytes rows minimum_qindex minimum_slice_size_scaler = Ok (s, slices) ->
  let st := budget_state (arr_width rows) (arr_height rows) (picture_bytes - arr_width rows * arr_height rows * 4)
                         (arr_width rows * arr_height rows * s) in
  Forall2 (fun c sl => hq_slice_ok st s minimum_qindex (fst (fst c)) (snd (fst c)) (snd c) sl) (hq_coords rows) slices.
Proof. exact hq_lossy_minimal. Qed.

(* every slice_{y,c1,c2}_length fits its 8-bit field, for ANY picture_bytes (>= 4 per slice,
   otherwise the function raises) and ANY minimum_slice_size_scaler override *)
Theorem C14_hq_length_fields_8bit : forall picture_bytes rows minimum_qindex minimum_slice_size_scaler s slices,
  1 <= arr_width rows * arr_height rows ->
  make_transform_data_hq_lossy picture_bytes rows minimum_qindex minimum_slice_size_scaler = Ok (s, slices) ->
  Forall (fun sl => 0 <= hq_y_length sl <= 255 /\ 0 <= hq_c1_length sl <= 255 /\ 0 <= hq_c2_length sl <= 255 /\
                    minimum_qindex <= hq_qindex sl <= 255 /\
                    hq_y_length sl = calculate_hq_length_field (hq_y sl) s /\
                    hq_c1_length sl = calculate_hq_length_field (hq_c1 sl) s /\
                    calculate_hq_length_field (hq_c2 sl) s <= hq_c2_length sl) slices.
Proof. exact hq_lossy_fields. Qed.

(* total HQ slice data = 4n + s*floor((picture_bytes-4n)/s): never above picture_bytes and
   less than slice_size_scaler below it *)
Theorem C14_hq_total : forall picture_bytes rows minimum_qindex minimum_slice_size_scaler s slices,
  rect rows -> 1 <= arr_width rows * arr_height rows ->
  make_transform_data_hq_lossy picture_bytes rows minimum_qindex minimum_slice_size_scaler = Ok (s, slices) ->
  let n := arr_width rows * arr_height rows in
  py_sum (map (hq_slice_stream_bytes s) slices) = 4 * n + s * ((picture_bytes - 4 * n) / s) /\
  0 <= picture_bytes - py_sum (map (hq_slice_stream_bytes s) slices) < s /\
  picture_bytes - py_sum (map (hq_slice_stream_bytes s) slices) = (picture_bytes - 4 * n) mod s.
Proof. exact hq_lossy_total. Qed.

(* LD: per slice: index in [minimum, 127], minimal, and the contents fit a slice of exactly
   slice_bytes(sx, sy) bytes: slice_y_length < 2^length_bits, luma block = slice_y_length
   bits, colour-difference coefficients within the remaining bits *)
Theorem C14_ld_exact : forall picture_bytes rows minimum_qindex slices,
  make_transform_data_ld_lossy picture_bytes rows minimum_qindex = Ok slices ->
  let st := budget_state (arr_width rows) (arr_height rows) picture_bytes (arr_width rows * arr_height rows) in
  Forall2 (fun c sl => ld_slice_ok st minimum_qindex (fst (fst c)) (snd (fst c)) (snd c) sl) (hq_coords rows) slices.
Proof. exact ld_lossy_slices. Qed.

(* ... these slice sizes add up to picture_bytes exactly ... *)
Theorem C14_ld_total : forall picture_bytes rows,
  rect rows -> 1 <= arr_width rows * arr_height rows ->
  let st := budget_state (arr_width rows) (arr_height rows) picture_bytes (arr_width rows * arr_height rows) in
  py_sum (map (fun c => slice_bytes st (fst (fst c)) (snd (fst c))) (hq_coords rows)) = picture_bytes.
Proof. exact ld_lossy_total. Qed.

(* ... and are the sizes the decoder computes from the REDUCED fraction in the stream *)
Theorem C14_ld_reduced_fraction : forall st g num den sx sy,
  0 < g -> 0 < den ->
  slice_bytes (set_st_slice_bytes_denominator (set_st_slice_bytes_numerator st (g * num)) (g * den)) sx sy =
  slice_bytes (set_st_slice_bytes_denominator (set_st_slice_bytes_numerator st num) den) sx sy.
Proof. exact slice_bytes_reduced. Qed.

(* non-vacuity: the packers do return slices *)
Example C14_example_hq :
  exists s slices, make_transform_data_hq_lossy 1040
     [[(([100; -37; 0; 5], [0; 1; 2; 3]), ([9; 0], [0; 0]), ([-300], [4]));
       (([1; 2; 3; 4], [0; 0; 0; 0]), ([], []), ([0], [0]))]] 2 1 = Ok (s, slices)
     /\ s = 3 /\ map hq_qindex slices = [2; 2] /\ length slices = 2%nat.
Proof. eexists. eexists. vm_compute. repeat split; reflexivity. Qed.

Example C14_example_ld :
  exists slices, make_transform_data_ld_lossy 5
     [[(([100; -37; 0; 5], [0; 1; 2; 3]), ([9; 0], [0; 0]), ([-300; 2], [4; 4]));
       (([1; 2; 3; 4], [0; 0; 0; 0]), ([], []), ([0], [0]))]] 0 = Ok slices
     /\ map ld_qindex slices = [31; 5].
Proof. eexists. vm_compute. split; reflexivity. Qed.
