(* C20 -- Bit-level readers and writers agree on every primitive.
   Property theorems only.  Model: Model/BitIO.v (hand model, tie C: tools/harness/C20.py). *)
From Coq Require Import ZArith List Bool Lia.
From VC2 Require Import Base.PyZ Model.BitIO Proofs.BitIOProofs.
Import ListNotations.
Open Scope Z_scope.

Theorem C20_read_past_end_bitstream_reader : forall s k,
  r_rem s = Some k -> k <= 0 -> r_read_bit s = (r_set_rem s (Some (k - 1)), Ok 1).
Proof. exact r_read_past_end. Qed.
