(* C20 -- Bit-level readers and writers agree on every primitive.
   Property theorems only; each closed by `exact <lemma>`.
   Model: Model/BitIO.v -- byte-level state machines mirroring BitstreamWriter,
   BitstreamReader (bitstream/io.py) and the validator's reader (decoder/io.py);
   hand model tied to the code on every run by tools/harness/C20.py (tie C).
   Gen/ExpGolombLen.v is REGENERATED from bitstream/exp_golomb.py on every run (tie T).

   Vocabulary: `r_view s` / `d_view s` = the bits still to be read (MSB first) from the
   reader state; `r_bitpos` / `d_bitpos` = to_bit_offset(tell()); `r_wf`/`d_wf` = the
   class invariant 0 <= next_bit <= 7, offset >= 0 (holds after construction, kept by every
   operation).  `r_reads m s v n rest`: m returns value v without exception, leaves
   exactly `rest` to be read, tell() advanced by exactly n bits, file untouched. *)
From Coq Require Import ZArith List Bool Lia.
From VC2 Require Import Base.PyZ Gen.ExpGolombLen Model.BitIO Proofs.BitIOProofs.
Import ListNotations.
Open Scope Z_scope.

(* ---- the exp-Golomb length functions equal the number of bits written (all v) ---- *)
Theorem C20_uint_len : forall v, 0 <= v ->
  Z.of_nat (length (uint_bits v)) = exp_golomb_length v /\ exp_golomb_length_dom v = true.
Proof. exact (fun v H => conj (uint_bits_length v H) (exp_golomb_length_dom_ok v H)). Qed.
Theorem C20_sint_len : forall v,
  Z.of_nat (length (sint_bits v)) = signed_exp_golomb_length v /\ signed_exp_golomb_length_dom v = true.
Proof. exact (fun v => conj (sint_bits_length v) (signed_exp_golomb_length_dom_ok v)). Qed.

(* ---- the writer: in-range values are accepted and append exactly these bits; tell() advances by
   exactly their number.  `w_writes m s l`: m raises nothing, the bits produced so far (`w_view`)
   grow by l, tell() advances by length l.  `w_wf` = class invariant (0 <= next_bit <= 7, the
   write position is inside or at the end of the file). ---- *)
Theorem C20_write_nbits : forall n v s, w_wf s -> w_rem s = None -> 0 <= n -> 0 <= v < 2 ^ n ->
  w_writes (w_write_nbits n v s) s (nbits_list (Z.to_nat n) v).
Proof. exact w_nbits_writes. Qed.
Theorem C20_write_uint : forall v s, w_wf s -> w_rem s = None -> 0 <= v ->
  w_writes (w_write_uint v s) s (uint_bits v).
Proof. exact w_uint_writes. Qed.
Theorem C20_write_sint : forall v s, w_wf s -> w_rem s = None ->
  w_writes (w_write_sint v s) s (sint_bits v).
Proof. exact w_sint_writes. Qed.
Theorem C20_write_bitarray : forall n (l : list bool) s, w_wf s -> w_rem s = None -> Z.of_nat (length l) <= n ->
  w_writes (w_write_bitarray n l s) s (bitarray_bits n l) /\ Z.of_nat (length (bitarray_bits n l)) = n.
Proof. exact w_bitarray_writes. Qed.
Theorem C20_write_bytes : forall n (l : list Z) s, w_wf s -> w_rem s = None -> Z.of_nat (length l) <= n ->
  Forall (fun b => 0 <= b < 256) l ->
  w_writes (w_write_bytes n l s) s (flat_map (nbits_list 8) (bytes_padded n l)) /\
  Z.of_nat (length (bytes_padded n l)) = n.
Proof. exact w_bytes_writes. Qed.

(* what an append-only writer has flushed is what a reader opened on the file sees (plus < 8 padding
   bits, all zero when the unused low bits of the current byte are zero, as after construction) *)
Theorem C20_flushed_file_is_view : forall s, w_wf s -> w_pos s = flen (w_file s) ->
  exists pad, r_view (r_init (w_file (w_flush s)) 0) = w_view s ++ pad /\
              d_view (d_init (w_file (w_flush s)) 0) = w_view s ++ pad /\ (length pad < 8)%nat /\
              (low_bits_zero s -> Forall (fun b => b = false) pad).
Proof. exact flushed_file_reader_view. Qed.

(* ---- out-of-range values: OutOfRangeError and NOTHING changes (file, position, block counter);
   exactly the out-of-range values (for every width n, negative widths included: 2^n = 0 then) ---- *)
Theorem C20_out_of_range_nbits : forall n v s,
  (v < 0 \/ 2 ^ n <= v) -> w_write_nbits n v s = (s, Some EOutOfRange).
Proof. exact w_nbits_out_of_range. Qed.
Theorem C20_out_of_range_uint_lit : forall n v s,
  (v < 0 \/ 2 ^ (n * 8) <= v) -> w_write_uint_lit n v s = (s, Some EOutOfRange).
Proof. exact w_uint_lit_out_of_range. Qed.
Theorem C20_out_of_range_uint : forall v s, v < 0 -> w_write_uint v s = (s, Some EOutOfRange).
Proof. exact w_uint_out_of_range. Qed.
Theorem C20_out_of_range_bitarray : forall n l s,
  n < Z.of_nat (length l) -> w_write_bitarray n l s = (s, Some EOutOfRange).
Proof. exact w_bitarray_out_of_range. Qed.
Theorem C20_out_of_range_bytes : forall n l s,
  n < Z.of_nat (length l) -> w_write_bytes n l s = (s, Some EOutOfRange).
Proof. exact w_bytes_out_of_range. Qed.

(* ---- BitstreamReader reads back what was written, at the same positions (all values) ---- *)
Theorem C20_nbits_roundtrip_bitstream_reader : forall n v s rest,
  r_wf s -> r_rem s = None -> 0 <= n -> 0 <= v < 2 ^ n ->
  r_view s = nbits_list (Z.to_nat n) v ++ rest -> r_reads (r_read_nbits n s) s v (Z.to_nat n) rest.
Proof. exact r_nbits_roundtrip. Qed.
Theorem C20_uint_roundtrip_bitstream_reader : forall v s rest,
  r_wf s -> r_rem s = None -> 0 <= v ->
  r_view s = uint_bits v ++ rest -> r_reads (r_read_uint s) s v (length (uint_bits v)) rest.
Proof. exact r_uint_roundtrip. Qed.
Theorem C20_sint_roundtrip_bitstream_reader : forall v s rest,
  r_wf s -> r_rem s = None ->
  r_view s = sint_bits v ++ rest -> r_reads (r_read_sint s) s v (length (sint_bits v)) rest.
Proof. exact r_sint_roundtrip. Qed.
Theorem C20_bitarray_roundtrip_bitstream_reader : forall (l : list bool) s rest,
  r_wf s -> r_rem s = None ->
  r_view s = l ++ rest -> r_reads (r_read_bitarray (Z.of_nat (length l)) s) s (map b2z l) (length l) rest.
Proof. exact r_bitarray_roundtrip. Qed.
Theorem C20_bytes_roundtrip_bitstream_reader : forall (l : list Z) s rest,
  r_wf s -> r_rem s = None -> Forall (fun b => 0 <= b < 256) l ->
  r_view s = flat_map (nbits_list 8) l ++ rest ->
  r_reads (r_read_bytes (Z.of_nat (length l)) s) s l (8 * length l) rest.
Proof. exact r_bytes_roundtrip. Qed.

(* ---- the validator's reader likewise ---- *)
Theorem C20_nbits_roundtrip_decoder_reader : forall n v s rest,
  d_wf s -> 0 <= n -> 0 <= v < 2 ^ n ->
  d_view s = nbits_list (Z.to_nat n) v ++ rest -> d_reads (d_read_nbits n s) s v (Z.to_nat n) rest.
Proof. exact d_nbits_roundtrip. Qed.
Theorem C20_uint_roundtrip_decoder_reader : forall v s rest,
  d_wf s -> 0 <= v ->
  d_view s = uint_bits v ++ rest -> d_reads (d_read_uint s) s v (length (uint_bits v)) rest.
Proof. exact d_uint_roundtrip. Qed.
Theorem C20_sint_roundtrip_decoder_reader : forall v s rest,
  d_wf s ->
  d_view s = sint_bits v ++ rest -> d_reads (d_read_sint s) s v (length (sint_bits v)) rest.
Proof. exact d_sint_roundtrip. Qed.

(* ---- the data-dependent exp-Golomb loops never exhaust the model's fuel ---- *)
Theorem C20_read_uint_fuel_sufficient : forall r d, r_wf r -> d_wf d ->
  snd (r_read_uint r) <> Err EFuel /\ snd (d_read_uint d) <> Err EFuel /\ snd (d_read_uintb d) <> Err EFuel.
Proof. exact (fun r d Wr Wd => conj (r_read_uint_no_fuel r Wr) (conj (d_read_uint_no_fuel d Wd) (d_read_uintb_no_fuel d Wd))). Qed.

(* ---- bounded blocks, for EVERY remaining count k <= 0 (zero and negative lengths included) ---- *)
Theorem C20_read_past_end_bitstream_reader : forall s k,
  r_rem s = Some k -> k <= 0 -> r_read_bit s = (r_set_rem s (Some (k - 1)), Ok 1).
Proof. exact r_read_past_end. Qed.
Theorem C20_read_uint_past_end_bitstream_reader : forall s k,
  r_wf s -> r_rem s = Some k -> k <= 0 -> r_read_uint s = (r_set_rem s (Some (k - 1)), Ok 0).
Proof. exact r_uint_past_end. Qed.
Theorem C20_write_past_end : forall s k b,
  w_rem s = Some k -> k <= 0 ->
  w_write_bit b s = (w_set_rem s (Some (k - 1)), if b then None else Some EValue).
Proof. exact w_write_past_end. Qed.
Theorem C20_read_past_end_decoder_reader : forall s, d_left s = 0 -> d_read_bitb s = (s, Ok 1).
Proof. exact d_read_past_end. Qed.
Theorem C20_bounded_block_end_value : forall r w k,
  (r_rem r = Some k -> r_block_end r = (r_set_rem r None, Ok (Z.max 0 k))) /\
  (w_rem w = Some k -> w_block_end w = (w_set_rem w None, Ok (Z.max 0 k))).
Proof. exact (fun r w k => conj (block_end_value_r r k) (block_end_value_w w k)). Qed.

(* ---- both readers agree: for EVERY byte string, every block length >= 0 and every program of
   primitive reads (bit, nbits n, uint_lit n, uint, sint, byte_align, bounded blocks read with the
   bounded primitives and closed as the validator [flush_inputb] / the deserialiser
   [bounded_block_end + read the unused bits] close them): same values, same tell() after
   every primitive, same EOF class, same final position.  `blocks_nonneg p` = all block lengths >= 0. ---- *)
Theorem C20_readers_agree : forall f p, blocks_nonneg p -> r_run p (r_init f 0) = d_run p (d_init f 0).
Proof. exact readers_agree. Qed.

(* ---- round trip INSIDE a bounded block with any k bits left (k zero or negative included for the
   writer and BitstreamReader; k >= 0 for the validator's reader): a signed exp-Golomb code is accepted
   iff everything past the end of the block is 1 (`all_ones`), only its first max(k,0) bits reach the
   file, and both readers in a block with k bits left read back the same value, consume only those bits
   and drop their counters by the full code length; otherwise the writer raises ValueError ---- *)
Theorem C20_bounded_sint_roundtrip : forall v k,
  all_ones (skipn (Z.to_nat k) (sint_bits v)) ->
  (forall w, w_wf w -> w_rem w = Some k ->
     exists w', w_write_sint v w = (w', None) /\ w_view w' = w_view w ++ firstn (Z.to_nat k) (sint_bits v) /\
                w_rem w' = Some (k - Z.of_nat (length (sint_bits v)))) /\
  (forall r rest, r_wf r -> r_rem r = Some k -> r_view r = firstn (Z.to_nat k) (sint_bits v) ++ rest ->
     exists r', r_read_sint r = (r', Ok v) /\ r_view r' = rest /\ r_rem r' = Some (k - Z.of_nat (length (sint_bits v))) /\
                r_bitpos r' = r_bitpos r + Z.of_nat (length (firstn (Z.to_nat k) (sint_bits v)))) /\
  (0 <= k -> forall d rest, d_wf d -> d_left d = k -> d_view d = firstn (Z.to_nat k) (sint_bits v) ++ rest ->
     exists d', d_read_sintb d = (d', Ok v) /\ d_view d' = rest /\ d_left d' = Z.max 0 (k - Z.of_nat (length (sint_bits v))) /\
                d_bitpos d' = d_bitpos d + Z.of_nat (length (firstn (Z.to_nat k) (sint_bits v)))).
Proof. exact blk_sint_roundtrip. Qed.
Theorem C20_bounded_sint_rejected : forall v k s, w_rem s = Some k ->
  ~ all_ones (skipn (Z.to_nat k) (sint_bits v)) -> exists s', w_write_sint v s = (s', Some EValue).
Proof. exact blk_sint_reject. Qed.
(* the same for an arbitrary bit sequence (every primitive is such a sequence of write_bit / read_bit calls) *)
Theorem C20_bounded_bits_writer : forall l s k, w_wf s -> w_rem s = Some k ->
  all_ones (skipn (Z.to_nat k) l) ->
  exists s', w_write_bits l s = (s', None) /\ w_view s' = w_view s ++ firstn (Z.to_nat k) l /\ w_wf s' /\
             w_rem s' = Some (k - Z.of_nat (length l)) /\
             w_bitpos s' = w_bitpos s + Z.of_nat (length (firstn (Z.to_nat k) l)).
Proof. exact w_write_bits_blk. Qed.

(* ---- negative block lengths: the readers differ (read_bitb tests bits_left == 0); the
   validator cannot produce one: its three assignments to bits_left are a read_nbits value,
   a difference guarded by InvalidSliceYLength, and 8 * scaler * read_uint_lit (harness AST scan) ---- *)
Theorem C20_readers_agree_negative_length_refuted :
  exists f len body, len < 0 /\ r_run [PBlock len body] (r_init f 0) <> d_run [PBlock len body] (d_init f 0).
Proof. exact readers_differ_negative. Qed.
Theorem C20_decoder_block_lengths_nonneg : forall n s s' y left,
  d_read_nbits n s = (s', Ok y) -> (y >? left) = false -> 0 <= y /\ 0 <= left - y.
Proof. exact d_block_lengths_nonneg. Qed.

(* ---- uint_lit ---- *)
Theorem C20_uint_lit_roundtrip : forall n v,
  0 <= n -> 0 <= v < 2 ^ (n * 8) ->
  (forall s, w_wf s -> w_rem s = None -> w_writes (w_write_uint_lit n v s) s (nbits_list (Z.to_nat (n * 8)) v)) /\
  (forall s rest, r_wf s -> r_rem s = None -> r_view s = nbits_list (Z.to_nat (n * 8)) v ++ rest ->
                  r_reads (r_read_uint_lit n s) s v (Z.to_nat (n * 8)) rest) /\
  (forall s rest, d_wf s -> d_view s = nbits_list (Z.to_nat (n * 8)) v ++ rest ->
                  d_reads (d_read_uint_lit n s) s v (Z.to_nat (n * 8)) rest).
Proof. exact uint_lit_roundtrip. Qed.

(* ---- tell / seek ---- *)
Theorem C20_offsets_inverse : forall bytes bits t, 0 <= bits <= 7 ->
  from_bit_offset (to_bit_offset bytes bits) = (bytes, bits) /\
  (let '(by_, bi) := from_bit_offset t in to_bit_offset by_ bi = t /\ 0 <= bi <= 7).
Proof. exact (fun bytes bits t H => conj (offsets_inverse bytes bits H) (offsets_inverse' t)). Qed.
(* seek(tell()) changes nothing, inside or outside a block (r_sync: current_byte is the byte at _byte_offset-1) *)
Theorem C20_seek_tell_identity : forall s, r_wf s -> r_sync s ->
  r_seek (fst (r_tell s)) (snd (r_tell s)) s = (s, None).
Proof. exact r_seek_tell_id. Qed.
(* after seek, tell() is the target and the reader sees the file from exactly that bit on *)
Theorem C20_seek_then_tell_and_view : forall bytes bits s, r_rem s = None -> 0 <= bytes -> 0 <= bits <= 7 ->
  exists s', r_seek bytes bits s = (s', None) /\ r_tell s' = (bytes, bits) /\ r_wf s' /\ r_sync s' /\ r_rem s' = None /\
             r_file s' = r_file s /\
             r_view s' = skipn (Z.to_nat (to_bit_offset bytes bits)) (bytes_bits (r_file s)).
Proof. exact r_seek_spec. Qed.
(* inside a bounded block a seek keeps the bit position at which the block ends (position + max(0,
   bits_remaining)), whatever the sign of bits_remaining, or raises exactly when the target lies past it *)
Theorem C20_seek_in_block_reader : forall bytes bits s k, r_rem s = Some k -> 0 <= bytes -> 0 <= bits <= 7 ->
  match r_seek bytes bits s with
  | (s', None) => exists k', r_rem s' = Some k' /\ r_tell s' = (bytes, bits) /\
                             r_bitpos s' + Z.max 0 k' = r_bitpos s + Z.max 0 k
  | (s', Some e) => s' = s /\ e = EExc /\ r_bitpos s + k < to_bit_offset bytes bits /\ r_bitpos s < to_bit_offset bytes bits
  end.
Proof. exact r_seek_block. Qed.
Theorem C20_seek_in_block_writer : forall bytes bits s k, w_rem s = Some k -> 0 <= bytes -> 0 <= bits <= 7 ->
  match w_seek bytes bits s with
  | (s', None) => exists k', w_rem s' = Some k' /\ w_tell s' = (bytes, bits) /\
                             w_bitpos s' + Z.max 0 k' = w_bitpos s + Z.max 0 k
  | (s', Some e) => s' = s /\ e = EExc /\ w_bitpos s + k < to_bit_offset bytes bits /\ w_bitpos s < to_bit_offset bytes bits
  end.
Proof. exact w_seek_block. Qed.
Theorem C20_seek_writer : forall bytes bits s, w_rem s = None -> 0 <= bytes -> 0 <= bits <= 7 ->
  exists s', w_seek bytes bits s = (s', None) /\ w_tell s' = (bytes, bits) /\ w_rem s' = None /\
             w_file s' = w_file (w_flush s).
Proof. exact w_seek_tell. Qed.

(* non-vacuity *)
Example C20_example :
  uint_bits 5 = [false; true; false; false; true] /\
  r_read_uint (r_init [72] 0) = (mkR [72] 1 2 (Some 72) None, Ok 5) /\
  d_read_sint (d_init [76] 0) = (mkD [76] 1 1 (Some 76) 0 None, Ok (-5)).
Proof. vm_compute. repeat split; reflexivity. Qed.
