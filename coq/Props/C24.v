(* C24 -- Test case generation is deterministic and schedule-independent.
   Logic core (Model/Sched.v): if no two worker commands write the same path, then EVERY execution
   of the same commands -- any serial order, any concurrent interleaving of their atomic writes, of
   any length -- leaves the same file system.  The hypothesis (pairwise path-disjoint write sets)
   and the determinism of each command's own write sequence across processes and hash seeds are
   MEASURED by tools/harness/C24.py on the real commands; process scheduling, pickle, the OS file
   system and hash randomisation are runtime behaviour the model cannot exhibit (PARTIAL). *)
From Coq Require Import ZArith List Bool.
From VC2 Require Import Model.Sched Proofs.SchedProofs.
Import ListNotations.
Open Scope Z_scope.

Theorem C24_schedule_independent_partial : forall (l1 l2 : list write) (f : fs),
  path_disjoint l1 -> path_disjoint l2 ->
  (forall i, of_cmd i l1 = of_cmd i l2) ->
  forall p, run l1 f p = run l2 f p.
Proof. exact schedule_independent. Qed.

(* non-vacuity: two commands, serial order vs an interleaving *)
Example C24_example :
  let a1 := mkw 1 10 7 in let a2 := mkw 1 11 8 in let b1 := mkw 2 20 9 in
  run [a1; a2; b1] (fun _ => None) 11 = run [b1; a1; a2] (fun _ => None) 11
  /\ run [a1; b1; a2] (fun _ => None) 20 = Some 9.
Proof. vm_compute. split; reflexivity. Qed.
