(* C11 -- Forward and inverse wavelet transforms reconstruct exactly; the forward
   transform's sub-band shapes are the ones the slice geometry uses.

   Property theorems only (each closed by `exact <lemma>`).
   Models: Model/Lifting.v, Model/Wavelet.v -- hand models of picture_decoding.py /
   picture_encoding.py / arrays.py, tied to the code by the differential run of
   tools/harness/C11.py (tie C); the padding sizes and the shape statement use
   Gen/SliceSizes.v, REGENERATED from /repo on every run (tie T).

   The filters are VARIABLES of every theorem: a filter is any bit shift and any list of
   stages, a stage any (lift_type, S, L, D, taps).  The statements therefore hold for every
   filter table, in particular for all 7 x 7 pairs of the live LIFTING_FILTERS.  Depths,
   picture sizes and sample values are unbounded. *)
From Coq Require Import ZArith List Bool.
From VC2 Require Import Base.PyZ Gen.StateRec Gen.SliceSizes Model.Lifting Model.Wavelet
  Proofs.LiftingProofs Proofs.WaveletProofs.
Import ListNotations.
Open Scope Z_scope.

(* every lifting stage -- ANY lift type, L, D, taps, S -- is undone by the lift of the
   swapped type (ANALYSIS_LIFTING_FUNCTION_TYPES), in both directions, on every array of
   even length and any integer content.  The model's lift is the sequential in-place loop. *)
Theorem C11_lift_inverse : forall t L D taps S A, Nat.even (length A) = true ->
  synthesis_lift t L D taps S (analysis_lift t L D taps S A) = A /\
  analysis_lift t L D taps S (synthesis_lift t L D taps S A) = A.
Proof. exact lift_inverse. Qed.

(* the loops never index outside the array (Python would raise IndexError; the model's [nth]
   defaults are never used): whenever an iteration n < len(A)//2 runs, the written position and
   every clamped tap position lie in 0..len(A)-1 *)
Theorem C11_lift_indices_in_range : forall (odd : bool) (A : list Z) (n : nat) (i : Z),
  (n < Nat.div2 (length A))%nat ->
  ((if odd then 2 * n + 1 else 2 * n) < length A)%nat /\
  0 <= tap_pos odd (Z.of_nat (length A)) (Z.of_nat n) i < Z.of_nat (length A).
Proof.
  exact (fun odd A n i H => conj (proj1 (write_pos_in_range odd A n H))
                              (tap_pos_in_range odd _ _ i (proj2 (write_pos_in_range odd A n H)))).
Qed.

(* every stage list (every filter of any table): oned_synthesis undoes oned_analysis *)
Theorem C11_oned_roundtrip : forall stages A, Nat.even (length A) = true ->
  oned_synthesis stages (oned_analysis stages A) = A.
Proof. exact oned_roundtrip. Qed.

(* one transform level, any array with even sides (2-D) / even width (horizontal only) *)
Theorem C11_vh_level_roundtrip : forall fv fh data h w, rect data (2 * h) (2 * w) ->
  let '(LL, HL, LH, HH) := vh_analysis fv fh data in
  vh_synthesis fv fh LL HL LH HH = data /\ rect LL h w /\ rect HL h w /\ rect LH h w /\ rect HH h w.
Proof. exact vh_roundtrip. Qed.

Theorem C11_h_level_roundtrip : forall fh data h w, rect data h (2 * w) ->
  let '(L, H) := h_analysis fh data in
  h_synthesis fh L H = data /\ rect L h w /\ rect H h w.
Proof. exact h_roundtrip. Qed.

(* all depths: idwt undoes dwt on every array whose sides are multiples of the transform scale *)
Theorem C11_idwt_dwt : forall fv fh d dh pic (h w : nat), 0 <= d -> 0 <= dh ->
  rect pic (2 ^ Z.to_nat d * h) (2 ^ Z.to_nat d * (2 ^ Z.to_nat dh * w)) ->
  idwt fv fh d dh (dwt fv fh d dh pic) = pic.
Proof. exact idwt_dwt. Qed.

(* THE PROPERTY.  For every vertical and horizontal filter, every dwt_depth and dwt_depth_ho >= 0,
   every component, every picture of ANY size w x h >= 1 x 1 (w, h = the component's dimensions
   in the state) and ANY integer samples:
     idwt_pad_removal (idwt (dwt (dwt_pad_addition pic))) = pic. *)
Theorem C11_roundtrip : forall (fv fh : filter) (st : pystate) (c : pystr),
  0 <= st_dwt_depth st -> 0 <= st_dwt_depth_ho st ->
  1 <= comp_width st c -> 1 <= comp_height st c ->
  forall pic : arr, has_shape pic (comp_height st c) (comp_width st c) ->
  idwt_pad_removal st c
    (idwt fv fh (st_dwt_depth st) (st_dwt_depth_ho st)
       (dwt fv fh (st_dwt_depth st) (st_dwt_depth_ho st) (dwt_pad_addition st c pic))) = pic.
Proof. exact round_trip_exact. Qed.

(* every sub-band produced by the forward transform has exactly the height and width the
   (generated) slice geometry computes for its level: level 0 = DC band, levels 1..dh = "H",
   levels dh+1..dh+d = "HL","LH","HH"; and there are exactly dh and d such levels. *)
Theorem C11_dwt_shapes : forall (fv fh : filter) (st : pystate) (c : pystr),
  0 <= st_dwt_depth st -> 0 <= st_dwt_depth_ho st ->
  1 <= comp_width st c -> 1 <= comp_height st c ->
  forall pic : arr, has_shape pic (comp_height st c) (comp_width st c) ->
  let cf := dwt fv fh (st_dwt_depth st) (st_dwt_depth_ho st) (dwt_pad_addition st c pic) in
  has_shape (c_dc cf) (subband_height st 0 c) (subband_width st 0 c) /\
  Z.of_nat (length (c_ho cf)) = st_dwt_depth_ho st /\
  Z.of_nat (length (c_vh cf)) = st_dwt_depth st /\
  (forall level, 1 <= level <= st_dwt_depth_ho st ->
     has_shape (nth (Z.to_nat (level - 1)) (c_ho cf) [])
       (subband_height st level c) (subband_width st level c)) /\
  (forall level, st_dwt_depth_ho st + 1 <= level <= st_dwt_depth_ho st + st_dwt_depth st ->
     vh3_shape (nth (Z.to_nat (level - st_dwt_depth_ho st - 1)) (c_vh cf) ([], [], []))
       (subband_height st level c) (subband_width st level c)).
Proof. exact dwt_shapes. Qed.

(* ---- non-vacuity -------------------------------------------------------------------------- *)
Definition ex_le_gall : filter := mk_filter 1 [mk_stage 2 2 2 0 [1; 1]; mk_stage 3 1 2 0 [1; 1]].
Definition ex_daub97 : filter :=
  mk_filter 1 [mk_stage 2 12 2 0 [1817; 1817]; mk_stage 4 12 2 0 [3616; 3616];
               mk_stage 1 12 2 0 [217; 217]; mk_stage 3 12 2 0 [6497; 6497]].
Definition ex_state : pystate :=
  set_st_dwt_depth_ho (set_st_dwt_depth (set_st_luma_height (set_st_luma_width empty_pystate 3) 2) 1) 1.
Definition ex_pic : arr := [[10; -20; 35]; [7; 1180591620717411303424; -3]].

Example C11_example_oned :
  oned_analysis (f_stages ex_le_gall) [10; 20; 35; 7] = [9; -3; 27; -28] /\
  oned_synthesis (f_stages ex_le_gall) [9; -3; 27; -28] = [10; 20; 35; 7].
Proof. vm_compute. split; reflexivity. Qed.

(* the hypotheses of C11_roundtrip are satisfiable, the transform really transforms, and the
   round trip gives the picture back (3x2 luma picture padded to 4x2, one 2-D + one horizontal level) *)
Example C11_example_roundtrip :
  has_shape ex_pic (comp_height ex_state Str_Y) (comp_width ex_state Str_Y) /\
  dwt_pad_addition ex_state Str_Y ex_pic = [[10; -20; 35; 35]; [7; 1180591620717411303424; -3; -3]] /\
  c_dc (dwt ex_daub97 ex_le_gall 1 1 (dwt_pad_addition ex_state Str_Y ex_pic)) = [[1089575624869788254227]] /\
  round_trip ex_daub97 ex_le_gall ex_state Str_Y ex_pic = ex_pic.
Proof.
  split; [split; [reflexivity|repeat constructor]|]. vm_compute. repeat split; reflexivity.
Qed.

(* the even-length hypothesis of C11_lift_inverse is needed: on 3 samples the odd-updating lift
   reads the sample it writes (the padding to a multiple of the scale is what rules this out) *)
Example C11_example_odd_length_not_inverted :
  analysis_lift 3 2 0 [1; 1] 1 (synthesis_lift 3 2 0 [1; 1] 1 [0; 2; 0]) <> [0; 2; 0].
Proof. vm_compute. discriminate. Qed.
