(* C06 -- Deserialising then serialising any parseable stream reproduces its bytes.
   Model: Model/SerDes.v (framework; tie C: tools/harness/C21.py) + Model/SerDesVC2.v (vc2.py
   descriptions as program terms; tie C: tools/harness/C06.py).
   STATUS: partial.  Proved: per primitive, writing back what was read reproduces exactly the consumed
   bits (incl. bits past the end of a bounded block and hence bounded-block / byte-align padding, which
   are bitarray primitives), for every non-negative length; the serialiser step on the value just
   deserialised; the refutation for negative lengths (the vc2.py padding/auxiliary_data defect).
   NOT proved: the composition over whole programs ([C06_des_ser]: needs the invariant that the final
   description extends every intermediate one, path-wise) -- that part rests on the differential run
   of tools/harness/C06.py against the real parse_stream. *)
From Coq Require Import ZArith List Bool.
From VC2 Require Import Model.SerDes Model.SerDesVC2 Proofs.SerDesBits Proofs.SerDesConverse.
Import ListNotations.
Open Scope Z_scope.

(* every value primitive (bool, nbits, uint_lit, bitarray, bytes, uint, sint; byte_align and
   bounded_block_end are bitarray reads of the computed length), any reader state (inside or outside
   a bounded block, before or past its end), any non-negative length: the value read, written by the
   writer standing where the reader stood, appends exactly the consumed bits X and leaves the writer
   where the reader now stands *)
Theorem C06_primitive_des_ser_partial : forall k r v r',
  kind_ok k -> read_val k r = Ok (v, r') ->
  exists X, bits r = X ++ bits r' /\
    forall out, write_val k v (wr_of r out) = Ok (wr_of r' (out ++ X)).
Proof. exact read_val_write_val. Qed.

(* hence the serialiser primitive that finds the deserialised value at its target *)
Theorem C06_step_des_ser_partial : forall D k t ss ss1 r v r' out,
  kind_ok k -> read_val k r = Ok (v, r') ->
  ser_get D t ss = Ok (v, ss1) -> sio ss1 = wr_of r out ->
  exists X, bits r = X ++ bits r' /\ ser_prim D k t ss = Ok (v, set_io ss1 (wr_of r' (out ++ X))).
Proof. exact ser_prim_reproduces. Qed.

(* the property is FALSE for descriptions that pass a negative length: vc2.py padding/auxiliary_data
   with next_parse_offset < 13 (un-clamped program, as on the unrepaired tree) *)
Theorem C06_refuted_padding :
  exists s, run_des (unit_prog false) (bytes_bits bad_unit) = Ok (tt, s) /\
            verify_complete s = Ok tt /\ bits (sio s) = [] /\
            run_ser [] (unit_prog false) 0 (root_fields s) = Err EOutOfRange.
Proof. exact unclamped_padding_refuted. Qed.

(* non-vacuity / the repaired description round-trips the same unit *)
Example C06_example_clamped : clamped_check = true.
Proof. exact clamped_check_true. Qed.
