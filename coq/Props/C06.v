(* C06 -- Deserialising then serialising any parseable stream reproduces its bytes.
   Model: Model/SerDes.v (the SerDes framework over a bit-list I/O model; tie C: tools/harness/C21.py)
   + Model/SerDesVC2.v (vc2.py descriptions as program terms; tie C: tools/harness/C06.py).

   Program class covered ([conv_ok p]): every description program of the free monad [prog] that
     - does not call is_target_complete (the serialiser's "is there more to write" question; the
       stream-level while loop of vc2.py parse_stream uses it together with io.is_end_of_stream and is
       therefore outside the class -- one iteration, i.e. everything below parse_sequence, is inside),
     - passes no negative length to nbits / uint_lit / bitarray / bytes ([op_len_ok]; a negative length
       reads nothing but cannot be written: C06_refuted_padding),
     - whose computed values do not contain the model-only reference marker ([op_ok]).
   All theorems are for ALL such programs, ALL bit strings, ALL default tables. *)
From Coq Require Import ZArith List Bool.
From VC2 Require Import Model.SerDes Model.SerDesVC2 Proofs.SerDesBits Proofs.SerDesWf Proofs.SerDesSim
  Proofs.SerDesProofs Proofs.SerDesConverse Proofs.SerDesDesSer.
Import ListNotations.
Open Scope Z_scope.

(* If deserialising bs with p succeeds (result a, final state sdF, X = the bits consumed) and
   verify_complete passes, then serialising the resulting description (type and fields of the root
   dictionary) with p succeeds with the same result, writes EXACTLY X -- bit for bit, including the bits
   read past the end of bounded blocks, bounded-block and byte-align padding -- verify_complete passes
   and the serialiser ends with the same description. *)
Theorem C06_des_ser : forall D A (p : prog A) bs a sdF,
  conv_ok p ->
  run_des p bs = Ok (a, sdF) -> verify_complete sdF = Ok tt ->
  exists ssF X,
    bs = X ++ bits (sio sdF) /\
    run_ser D p (c_ty sdF) (c_f sdF) = Ok (a, ssF) /\
    bits (sio ssF) = X /\
    verify_complete ssF = Ok tt /\
    root ssF = root sdF.
Proof. exact des_ser. Qed.

(* Re-deserialising that output, followed by ANY bits R (the zero bits of flush(), more data, ...),
   yields the same result and an EQUAL description. *)
Theorem C06_redes : forall D A (p : prog A) bs a sdF,
  conv_ok p ->
  run_des p bs = Ok (a, sdF) -> verify_complete sdF = Ok tt ->
  exists ssF, run_ser D p (c_ty sdF) (c_f sdF) = Ok (a, ssF) /\
    forall R, exists sd2, run_des p (bits (sio ssF) ++ R) = Ok (a, sd2) /\
                          root sd2 = root sdF /\ bits (sio sd2) = R /\ verify_complete sd2 = Ok tt.
Proof. exact redes. Qed.

(* a deserialiser run does not depend on the bits it does not consume *)
Theorem C06_des_suffix_independent : forall A (p : prog A), lens_ok p ->
  forall s a s', run des_step p s = Ok (a, s') ->
  exists X, bits (sio s) = X ++ bits (sio s') /\
    forall R, run des_step p (rebits s (X ++ R)) = Ok (a, rebits s' R).
Proof. exact des_run_suffix. Qed.

(* per primitive: any reader state (inside or outside a bounded block, before or past its end), any
   non-negative length: the value read, written by the writer standing where the reader stood, appends
   exactly the consumed bits X and leaves the writer where the reader now stands *)
Theorem C06_primitive_des_ser : forall k r v r',
  kind_ok k -> read_val k r = Ok (v, r') ->
  exists X, bits r = X ++ bits r' /\
    forall out, write_val k v (wr_of r out) = Ok (wr_of r' (out ++ X)).
Proof. exact read_val_write_val. Qed.

(* the invariant behind C06_des_ser: whatever an intermediate deserialiser state can still become,
   the state before could become -- used targets are sealed, lists only grow *)
Theorem C06_final_extends_every_intermediate : forall A (p : prog A), prog_ok p ->
  forall s a s' G, dinv s -> wf s -> run des_step p s = Ok (a, s') -> Fut s' G -> Fut s G.
Proof. exact des_run_Fut. Qed.

(* the repaired vc2.py padding / auxiliary-data unit is in the class, for every next_parse_offset *)
Theorem C06_padding_unit_repaired : forall D bs sdF,
  run_des (unit_prog true) bs = Ok (tt, sdF) -> verify_complete sdF = Ok tt ->
  exists ssF X,
    bs = X ++ bits (sio sdF) /\
    run_ser D (unit_prog true) (c_ty sdF) (c_f sdF) = Ok (tt, ssF) /\
    bits (sio ssF) = X /\ verify_complete ssF = Ok tt /\ root ssF = root sdF.
Proof. exact (fun D bs sdF => des_ser D unit (unit_prog true) bs tt sdF unit_prog_clamped_ok). Qed.

(* The vc2.py descriptions written as program terms (Model/SerDesVC2.v; compared with the real functions
   by tools/harness/C06.py) are in the covered class, for every parameter value the real code can
   pass: sequence_header with its "not in spec" index substitutions, fragment_header, hq_slice
   (slice_prefix_bytes >= 0, any slice_size_scaler, any coefficient counts), ld_slice with the clamped
   slice_y_length -- so C06_des_ser and C06_redes apply to them. *)
Theorem C06_vc2_descriptions_covered :
  conv_ok sequence_header_prog /\ conv_ok fragment_header_prog /\
  (forall prefix scaler ny nc1 nc2 sx sy, 0 <= prefix -> conv_ok (hq_slice_prog prefix scaler ny nc1 nc2 sx sy)) /\
  (forall sb length_bits ny nc sx sy, 0 <= length_bits -> conv_ok (ld_slice_prog sb length_bits ny nc sx sy)).
Proof.
  exact (conj sequence_header_prog_ok (conj fragment_header_prog_ok
          (conj hq_slice_prog_ok ld_slice_prog_ok))).
Qed.

(* ... and the statement is FALSE for the un-repaired unit (negative length when next_parse_offset < 13):
   the defect of vc2.py padding/auxiliary_data fixed by fixes/C06-padding-negative-length.diff *)
Theorem C06_refuted_padding :
  exists s, run_des (unit_prog false) (bytes_bits bad_unit) = Ok (tt, s) /\
            verify_complete s = Ok tt /\ bits (sio s) = [] /\
            run_ser [] (unit_prog false) 0 (root_fields s) = Err EOutOfRange.
Proof. exact unclamped_padding_refuted. Qed.

(* non-vacuity: the hypotheses of C06_des_ser hold for the repaired unit on a concrete stream, and for
   the C21 example program (typed subcontext with a list, bounded block, byte_align, computed value,
   data-dependent branch) *)
Example C06_example_clamped : conv_ok (unit_prog true) /\ clamped_check = true.
Proof. exact (conj unit_prog_clamped_ok clamped_check_true). Qed.
Example C06_example_program : conv_ok ex_prog.
Proof. exact ex_prog_conv_ok. Qed.

(* ------------------------------------------------------------------------------------------------
   Stream level (appended): parse_stream = sequence of sequences, each a list of data units
   (parse_info with its byte-align padding and "_offset" = io.tell()[0]; body chosen by the parse code;
   up to and including the end-of-sequence unit), until the end of the stream -- Model/SerDesStream.v,
   compared with the real parse_stream by tools/harness/C06.py.  vc2.py does NOT skip to
   next_parse_offset: the next parse_info simply follows the body, and so does the model.
   Loops run on explicit fuel ([ufuel] data units per sequence, [fuel] sequences); a run that exhausts
   its fuel is an error and thereby excluded by the hypothesis [stream_des ... = Ok sdF].
   Covered: every body function [body : parse_code -> next_parse_offset -> prog unit] all of whose
   programs are in the class of C06_des_ser ([conv_ok]); "_state" is modelled as a constant. *)
From VC2 Require Import Model.SerDesStream Proofs.SerDesStreamProofs.

(* If the deserialiser model of parse_stream yields final state sdF (description root sdF) and
   verify_complete passes, then the serialiser model of parse_stream on that description succeeds and
   writes EXACTLY the input bits, verify_complete passes, it ends with the same description, and
   re-deserialising its output yields sdF again. *)
Theorem C06_stream_des_ser : forall (body : Z -> Z -> prog unit),
  (forall c n, conv_ok (body c n)) ->
  forall ufuel D fuel bs sdF,
  stream_des body ufuel fuel bs = Ok sdF -> verify_complete sdF = Ok tt ->
  exists ssF,
    stream_ser D body ufuel fuel (c_ty sdF) (c_f sdF) = Ok ssF /\
    bits (sio ssF) = bs /\
    verify_complete ssF = Ok tt /\
    root ssF = root sdF /\
    stream_des body ufuel fuel (bits (sio ssF)) = Ok sdF.
Proof. exact stream_des_ser. Qed.

(* ... instantiated with the data-unit bodies of vc2.py: sequence_header (with its index
   substitutions), auxiliary data and padding (clamped length), no body for other parse codes; picture
   and fragment bodies are ANY programs of the covered class, chosen by the parse code.
   PARTIAL in this respect: the real picture/fragment descriptions depend on the decoder state set by
   the preceding sequence header (dimensions, version, slice geometry); they are covered as parameters
   (hq_slice, ld_slice, fragment_header are in the class: C06_vc2_descriptions_covered), not as
   functions of that state. *)
Theorem C06_vc2_stream_des_ser_partial : forall pic frag D ufuel fuel bs sdF,
  (forall c, conv_ok (pic c)) -> (forall c, conv_ok (frag c)) ->
  stream_des (vc2_body pic frag) ufuel fuel bs = Ok sdF -> verify_complete sdF = Ok tt ->
  exists ssF,
    stream_ser D (vc2_body pic frag) ufuel fuel (c_ty sdF) (c_f sdF) = Ok ssF /\
    bits (sio ssF) = bs /\
    verify_complete ssF = Ok tt /\
    root ssF = root sdF /\
    stream_des (vc2_body pic frag) ufuel fuel (bits (sio ssF)) = Ok sdF.
Proof. exact vc2_stream_des_ser. Qed.

(* the parse-code tests used by the model are the translated pseudocode functions (Gen/ParseCodes.v) *)
Theorem C06_code_tests_are_translated : forall (s : Gen.StateRec.pystate) (c : Z),
  let s' := Gen.StateRec.set_st_parse_code s c in
  code_seq_header c = Gen.ParseCodes.is_seq_header s' /\
  code_end_of_sequence c = Gen.ParseCodes.is_end_of_sequence s' /\
  code_auxiliary_data c = Gen.ParseCodes.is_auxiliary_data s' /\
  code_padding_data c = Gen.ParseCodes.is_padding_data s' /\
  code_picture c = Gen.ParseCodes.is_picture s' /\ code_fragment c = Gen.ParseCodes.is_fragment s'.
Proof. exact code_tests_are_translated. Qed.

(* non-vacuity: a two-sequence stream (padding unit with next_parse_offset 5, auxiliary data, end of
   sequence; sequence header, end of sequence) deserialises and verifies in the model, and the body
   function used is in the covered class *)
Example C06_stream_example :
  ex_stream_check = true /\ (forall c n, conv_ok (ex_body c n)).
Proof.
  exact (conj ex_stream_check_true
              (vc2_body_ok (fun _ => Ret tt) (fun _ => Ret tt) (fun _ => conv_ret tt) (fun _ => conv_ret tt))).
Qed.
