(* C15 -- Every generated sequence header encodes exactly the requested video format.
   Property theorems only.  Model: Model/SeqHeader.v (hand model of encoder/sequence_header.py,
   decoder/sequence_header.py source_parameters, pseudocode/video_parameters.py), tied to the
   code by the correspondence run of tools/harness/C15.py on the live tables.

   The data tables (BASE_VIDEO_FORMAT_PARAMETERS, the PRESET tables) and the level-constraints table are
   PARAMETERS: the theorems hold for every `tables` value whose preset dictionaries have distinct
   keys (a Python dict) and no key 0 in the three index-0-means-explicit tables (`tables_wf`),
   every constraint table (list of arbitrary decidable column predicates), every target format,
   both picture coding modes, every candidate list of base video formats. *)
From Coq Require Import ZArith List Bool.
From VC2 Require Import Model.SeqHeader Proofs.SeqHeaderProofs.
Import ListNotations.
Open Scope Z_scope.

(* each header the enumeration yields -- the compact first one and every alternative, on every
   admissible base video format -- decodes to exactly the configured video parameters and
   picture coding mode *)
Theorem C15_options_decode_to_target : forall (T : tables) (tbl : ctable) (cf : features) (cands : list Z) (h : header),
  tables_wf T ->
  In h (iter_sequence_headers T tbl cf cands) ->
  decode_header T h = Some (cf_video cf, cf_pcm cf).
Proof. exact options_decode_to_target. Qed.

(* ... and all the (key, value) pairs the validator checks against the level while parsing it
   (level, profile, base video format, every custom flag / index / explicit value, picture coding
   mode: `coded_keys`, compared with the validator's own record on every run) are admitted by ONE
   column of the level table, which also admits the configuration's other trivial constraints *)
Theorem C15_options_respect_column : forall (T : tables) (tbl : ctable) (cf : features) (cands : list Z) (h : header),
  In h (iter_sequence_headers T tbl cf cands) ->
  exists c : column, In c tbl
    /\ Forall (fun p => c (fst p) (snd p) = true) (trivial_level_constraints cf)
    /\ Forall (fun p => c (fst p) (snd p) = true) (coded_keys h).
Proof. exact options_respect_column. Qed.

(* the compact default (make_sequence_header) is one of them *)
Theorem C15_default_is_an_option : forall T tbl cf cands h,
  make_sequence_header T tbl cf cands = Some h -> In h (iter_sequence_headers T tbl cf cands).
Proof. exact make_sequence_header_in. Qed.

Theorem C15_base_format_is_allowed_candidate : forall T tbl cf cands h,
  In h (iter_sequence_headers T tbl cf cands) -> In (h_base h) cands.
Proof. exact header_base_is_candidate. Qed.

(* the model's zip_longest_repeating_final_value never runs out of fuel *)
Theorem C15_zip_fuel_sufficient : forall (A : Type) (fuel : nat) (its : list (list A)) last,
  (max_len its < fuel)%nat -> zlr (S fuel) its last = zlr fuel its last.
Proof. exact (fun A => @zlr_fuel_enough A). Qed.

(* ---- non-vacuity: a two-format, two-preset instance; an unconstrained column and one that
        forbids custom frame rates.  The 25 fps target differs from base format 1 (24 fps) ---- *)
Definition ex_T : tables :=
  mkTables [(1, mkBase 640 480 2 0 0 1 1 640 480 0 0 1 1); (2, mkBase 176 120 2 0 1 2 1 176 120 0 0 1 1)]
           [(1, [24; 1]); (2, [25; 1])] [(1, [1; 1])] [(1, [0; 255; 128; 255])] [(0, [0; 0; 0]); (1, [1; 1; 0])].
Definition ex_any : column := fun _ _ => true.
Definition ex_cf : features := mkFeatures 0 3 0 [] (mkVP (640, 480) 2 0 0 (25, 1) (1, 1) (640, 480, 0, 0) (0, 255, 128, 255) 1 1 0).

Example C15_tables_wf_example : tables_wf ex_T.
Proof.
  unfold tables_wf, presets_wf. cbn. repeat split; repeat constructor; cbn; intuition discriminate.
Qed.

Example C15_example :
  length (iter_sequence_headers ex_T [ex_any] ex_cf [1; 2]) = 4%nat
  /\ make_sequence_header ex_T [ex_any] ex_cf [1; 2]
     = Some (mkHeader 3 0 1 (mkSrc GDefault GDefault GDefault (GPreset 2) GDefault GDefault GDefault CSDefault) 0)
  /\ forallb (fun h => match decode_header ex_T h with
                       | Some (v, m) => zlist_eqb (vp_flat v) (vp_flat (cf_video ex_cf)) && (m =? 0)
                       | None => false end)
             (iter_sequence_headers ex_T [ex_any] ex_cf [1; 2]) = true
  (* a column forbidding the preset and the explicit frame rate leaves nothing *)
  /\ iter_sequence_headers ex_T [fun k v => negb (ckey_beq k K_custom_frame_rate_flag && (v =? 1))] ex_cf [1; 2] = [].
Proof. vm_compute. repeat split; reflexivity. Qed.
