(* C15 -- Every generated sequence header encodes exactly the requested video format.
   Property theorems only.  Model: Model/SeqHeader.v (hand model of encoder/sequence_header.py,
   decoder/sequence_header.py source_parameters, pseudocode/video_parameters.py), tied to the
   code by the correspondence run of tools/harness/C15.py on the live tables.

   The data tables (BASE_VIDEO_FORMAT_PARAMETERS, the PRESET tables) and the level-constraints table are
   PARAMETERS: the theorems hold for every `tables` value whose preset dictionaries have distinct
   keys (a Python dict) and no key 0 in the three index-0-means-explicit tables (`tables_wf`),
   every constraint table (list of arbitrary decidable column predicates), every target format,
   both picture coding modes, every candidate list of base video formats. *)
From Coq Require Import ZArith List Bool.
From VC2 Require Import Model.SeqHeader Proofs.SeqHeaderProofs.
From VC2 Require Import Model.SeqHeaderAccept Proofs.SeqHeaderAcceptProofs Model.LevelChoices.  (* addition: acceptance, below *)
Import ListNotations.
Open Scope Z_scope.

(* each header the enumeration yields -- the compact first one and every alternative, on every
   admissible base video format -- decodes to exactly the configured video parameters and
   picture coding mode *)
Theorem C15_options_decode_to_target : forall (T : tables) (tbl : ctable) (cf : features) (cands : list Z) (h : header),
  tables_wf T ->
  In h (iter_sequence_headers T tbl cf cands) ->
  decode_header T h = Some (cf_video cf, cf_pcm cf).
Proof. exact options_decode_to_target. Qed.

(* ... and all the (key, value) pairs the validator checks against the level while parsing it
   (level, profile, base video format, every custom flag / index / explicit value, picture coding
   mode: `coded_keys`, compared with the validator's own record on every run) are admitted by ONE
   column of the level table, which also admits the configuration's other trivial constraints *)
Theorem C15_options_respect_column : forall (T : tables) (tbl : ctable) (cf : features) (cands : list Z) (h : header),
  In h (iter_sequence_headers T tbl cf cands) ->
  exists c : column, In c tbl
    /\ Forall (fun p => c (fst p) (snd p) = true) (trivial_level_constraints cf)
    /\ Forall (fun p => c (fst p) (snd p) = true) (coded_keys h).
Proof. exact options_respect_column. Qed.

(* the compact default (make_sequence_header) is one of them *)
Theorem C15_default_is_an_option : forall T tbl cf cands h,
  make_sequence_header T tbl cf cands = Some h -> In h (iter_sequence_headers T tbl cf cands).
Proof. exact make_sequence_header_in. Qed.

Theorem C15_base_format_is_allowed_candidate : forall T tbl cf cands h,
  In h (iter_sequence_headers T tbl cf cands) -> In (h_base h) cands.
Proof. exact header_base_is_candidate. Qed.

(* the model's zip_longest_repeating_final_value never runs out of fuel *)
Theorem C15_zip_fuel_sufficient : forall (A : Type) (fuel : nat) (its : list (list A)) last,
  (max_len its < fuel)%nat -> zlr (S fuel) its last = zlr fuel its last.
Proof. exact (fun A => @zlr_fuel_enough A). Qed.

(* ---- non-vacuity: a two-format, two-preset instance; an unconstrained column and one that
        forbids custom frame rates.  The 25 fps target differs from base format 1 (24 fps) ---- *)
Definition ex_T : tables :=
  mkTables [(1, mkBase 640 480 2 0 0 1 1 640 480 0 0 1 1); (2, mkBase 176 120 2 0 1 2 1 176 120 0 0 1 1)]
           [(1, [24; 1]); (2, [25; 1])] [(1, [1; 1])] [(1, [0; 255; 128; 255])] [(0, [0; 0; 0]); (1, [1; 1; 0])].
Definition ex_any : column := fun _ _ => true.
Definition ex_cf : features := mkFeatures 0 3 0 [] (mkVP (640, 480) 2 0 0 (25, 1) (1, 1) (640, 480, 0, 0) (0, 255, 128, 255) 1 1 0).

Example C15_tables_wf_example : tables_wf ex_T.
Proof.
  unfold tables_wf, presets_wf. cbn. repeat split; repeat constructor; cbn; intuition discriminate.
Qed.

Example C15_example :
  length (iter_sequence_headers ex_T [ex_any] ex_cf [1; 2]) = 4%nat
  /\ make_sequence_header ex_T [ex_any] ex_cf [1; 2]
     = Some (mkHeader 3 0 1 (mkSrc GDefault GDefault GDefault (GPreset 2) GDefault GDefault GDefault CSDefault) 0)
  /\ forallb (fun h => match decode_header ex_T h with
                       | Some (v, m) => zlist_eqb (vp_flat v) (vp_flat (cf_video ex_cf)) && (m =? 0)
                       | None => false end)
             (iter_sequence_headers ex_T [ex_any] ex_cf [1; 2]) = true
  (* a column forbidding the preset and the explicit frame rate leaves nothing *)
  /\ iter_sequence_headers ex_T [fun k v => negb (ckey_beq k K_custom_frame_rate_flag && (v =? 1))] ex_cf [1; 2] = [].
Proof. vm_compute. repeat split; reflexivity. Qed.

(* ==== ADDITION: "is accepted by the validator" ===================================================
   Model/SeqHeaderAccept.v models decoder/sequence_header.py as the ordered list of checks the
   validator makes on one sequence header (level checks via assert_level_constraint AND everything
   else: enum membership, zero sizes / rates / ratios, clean area, excursions, version
   implications, picture dimensions); `header_accepts` runs the non-level ones, `header_check
   (level_ok tbl)` all of them.  tools/harness/C15.py compares the verdict (class of the first
   failing check) with the real validator on valid, invalid and mutated headers.

   `format_valid` / `config_valid` are predicates on the CONFIGURATION only; `enums_cover` (every
   key of a data table is a member of its vc2_data_tables enumeration) is checked on the live
   tables on every run.  `header_required_version h` is the largest bound of the validator's
   `...NotSupportedByVersion` tests on h (C15_autofilled_version_suffices: the version the
   autofill of C16's model writes is at least that). *)

(* every header of the enumeration passes every NON-level check of the validator.
   partial: (a) the level checks are the next theorem; (b) stream-level requirements on sequence
   headers (byte-identical repeats, the level's data-unit pattern, major_version minimal for the
   whole sequence: C22) are outside this statement. *)
Theorem C15_headers_accepted_partial : forall (T : tables) (E : enums) (tbl : ctable) (cf : features)
    (cands : list Z) (h : header) (major : Z),
  tables_wf T -> enums_cover T E = true -> config_valid E cf = true ->
  In h (iter_sequence_headers T tbl cf cands) ->
  header_required_version h <= major ->
  header_accepts T E major 0 h = Accept.
Proof. exact headers_accepted. Qed.

(* ... and every level check too (one column admits all of them: C15_options_respect_column),
   PROVIDED the columns admitting the configuration admit the version numbers written -- the encoder
   never looks at them (known finding encoder-ignores-level-major_version).
   partial: `level_ok tbl` is the incremental check on abstract columns ("some column admits
   everything recorded so far and the new value"); that the real assert_level_constraint /
   allowed_values_for on ValueSet tables computes exactly this is Props/C17.v C17_level_step_iff
   (C17_incremental_iff for the whole sequence of distinct keys), tied to the code by C17's and this
   check's correspondence runs. *)
Theorem C15_headers_accepted_under_level_partial : forall (T : tables) (E : enums) (tbl : ctable)
    (cf : features) (cands : list Z) (h : header) (major : Z),
  tables_wf T -> enums_cover T E = true -> config_valid E cf = true ->
  In h (iter_sequence_headers T tbl cf cands) ->
  header_required_version h <= major ->
  (forall c : column, In c tbl ->
     Forall (fun p => c (fst p) (snd p) = true) (trivial_level_constraints cf) ->
     c K_major_version major = true /\ c K_minor_version 0 = true) ->
  header_check T E (level_ok tbl) major 0 h = Accept.
Proof. exact headers_accepted_under_level. Qed.

(* the pairs checked against the level are exactly coded_keys (C15_options_respect_column) with
   the two version numbers inserted where parse_parameters checks them *)
Theorem C15_level_checked_pairs : forall T E tbl cf cands h major,
  tables_wf T -> enums_cover T E = true -> config_valid E cf = true ->
  In h (iter_sequence_headers T tbl cf cands) ->
  header_required_version h <= major ->
  level_kvs (header_checks T E major 0 h) = coded_keys_v major 0 h.
Proof. exact header_level_pairs. Qed.

(* the major_version C16's model of the autofill writes for a header (Model/LevelChoices.v
   header_version, the header's part of autofill_major_version) satisfies the version hypothesis *)
Theorem C15_autofilled_version_suffices : forall h : header,
  header_required_version h <= header_version h.
Proof. exact header_required_le_autofill. Qed.

(* format_valid is NECESSARY, not only sufficient: the encoding that codes every group explicitly
   (the last one the enumeration yields when the level leaves everything open, see the example) is
   accepted -- under any level -- only if the format is valid.  So it is the weakest condition on the
   configuration under which ALL encodings are accepted.  (The frame-size parity conditions of
   the generators of tools/harness/C15.py are stronger: a 3x3 4:4:4 frame coded as fields passes
   dims_ok, and the real validator accepts it.) *)
Theorem C15_format_valid_necessary : forall (T : tables) (E : enums) (lvl : level_oracle)
    (major minor prof level bvf : Z) (v : vparams) (pcm : Z),
  set_source_defaults T bvf <> None ->
  header_check T E lvl major minor (mkHeader prof level bvf (explicit_src v) pcm) = Accept ->
  format_valid E v pcm = true.
Proof. exact explicit_header_needs_format_valid. Qed.

(* ... and that encoding IS the last one the enumeration yields for a base video format when the
   table has a column leaving everything open (any_col, e.g. level 0 = unconstrained), for EVERY
   tables value and target: so, there, "all enumerated headers pass the non-level checks" implies
   format_valid -- the converse of C15_headers_accepted_partial. *)
Theorem C15_explicit_encoding_enumerated : forall (T : tables) (tbl : ctable) (cf : features) (cands : list Z)
    (bvf : Z) (base : vparams) (p0 m0 t0 : Z),
  In bvf (rank_base_video_format_similarity T (cf_video cf) cands) ->
  set_source_defaults T bvf = Some base ->
  assoc 0 (preset_color_specs T) = Some [p0; m0; t0] ->
  In any_col tbl ->
  In (mkHeader (cf_profile cf) (cf_level cf) bvf (explicit_src (cf_video cf)) (cf_pcm cf))
     (iter_sequence_headers T tbl cf cands).
Proof. exact explicit_header_enumerated. Qed.

Theorem C15_all_accepted_implies_format_valid : forall (T : tables) (E : enums) (tbl : ctable) (cf : features)
    (cands : list Z) (bvf : Z) (base : vparams) (p0 m0 t0 major minor : Z),
  In bvf (rank_base_video_format_similarity T (cf_video cf) cands) ->
  set_source_defaults T bvf = Some base ->
  assoc 0 (preset_color_specs T) = Some [p0; m0; t0] ->
  In any_col tbl ->
  (forall h, In h (iter_sequence_headers T tbl cf cands) -> header_accepts T E major minor h = Accept) ->
  format_valid E (cf_video cf) (cf_pcm cf) = true.
Proof. exact all_accepted_needs_format_valid. Qed.

(* whatever the level oracle says, an accepted header passed every non-level check *)
Theorem C15_accept_implies_nonlevel_accept : forall T E lvl major minor h,
  header_check T E lvl major minor h = Accept -> header_accepts T E major minor h = Accept.
Proof. exact accept_implies_nonlevel_accept. Qed.

(* ---- non-vacuity of the acceptance theorems: the instance above with its enumerations ---- *)
Definition ex_E : enums := mkEnums [0; 3] [0] [1; 2] [0; 1] [0; 1; 2] [0; 1] [1; 2] [1] [1] [0; 1] [0; 1] [0; 1] [0].
(* 481 lines coded as fields with 4:2:0, frame rate 25/0 *)
Definition ex_bad : features := mkFeatures 0 3 1 [] (mkVP (640, 481) 2 0 0 (25, 0) (1, 1) (640, 480, 0, 0) (0, 255, 128, 255) 1 1 0).
Definition ex_odd : features := mkFeatures 0 3 1 [] (mkVP (640, 481) 2 0 0 (25, 1) (1, 1) (640, 480, 0, 0) (0, 255, 128, 255) 1 1 0).

Example C15_accept_example :
  enums_cover ex_T ex_E = true /\ config_valid ex_E ex_cf = true
  (* all four headers need version 2 (high quality profile) and are accepted with it, level checks included *)
  /\ map (fun h => (header_required_version h, header_check ex_T ex_E (level_ok [ex_any]) 2 0 h))
         (iter_sequence_headers ex_T [ex_any] ex_cf [1; 2])
     = [(2, Accept); (2, Accept); (2, Accept); (2, Accept)]
  (* the last one is the all-explicit encoding of C15_format_valid_necessary *)
  /\ last (iter_sequence_headers ex_T [ex_any] ex_cf [1; 2]) (mkHeader 0 0 0 (explicit_src (cf_video ex_cf)) 0)
     = mkHeader 3 0 1 (explicit_src (cf_video ex_cf)) 0
  (* version 1: the profile's bound fails first *)
  /\ map (header_accepts ex_T ex_E 1 0) (iter_sequence_headers ex_T [ex_any] ex_cf [1; 2])
     = [Reject E_ProfileNotSupportedByVersion; Reject E_ProfileNotSupportedByVersion;
        Reject E_ProfileNotSupportedByVersion; Reject E_ProfileNotSupportedByVersion]
  (* a level forbidding major_version 2 *)
  /\ header_check ex_T ex_E (level_ok [fun k v => negb (ckey_beq k K_major_version && (v =? 2))]) 2 0
       (mkHeader 3 0 1 (explicit_src (cf_video ex_cf)) 0) = RejectLevel K_major_version
  (* invalid targets: the encoder still enumerates headers; each is rejected by its first failing check *)
  /\ config_valid ex_E ex_bad = false
  /\ map (header_accepts ex_T ex_E 2 0) (iter_sequence_headers ex_T [ex_any] ex_bad [1; 2])
     = [Reject E_FrameRateHasZeroDenominator; Reject E_FrameRateHasZeroDenominator;
        Reject E_FrameRateHasZeroDenominator; Reject E_FrameRateHasZeroDenominator]
  /\ config_valid ex_E ex_odd = false
  /\ map (header_accepts ex_T ex_E 2 0) (iter_sequence_headers ex_T [ex_any] ex_odd [1; 2])
     = [Reject E_PictureDimensionsNotMultipleOfFrameDimensions; Reject E_PictureDimensionsNotMultipleOfFrameDimensions;
        Reject E_PictureDimensionsNotMultipleOfFrameDimensions; Reject E_PictureDimensionsNotMultipleOfFrameDimensions].
Proof. vm_compute. repeat split; reflexivity. Qed.
