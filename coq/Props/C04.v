(* C04 -- Lossless and unquantised encodings reconstruct pictures exactly.
   Property theorems only; each closed by `exact <lemma>`.
   Model: Model/EncoderSlices.v (hand model of encoder/pictures.py and of the decoder's
   slice reading, compared with the real functions on every run by tools/harness/C04.py)
   over Gen/Quant.v, Gen/ExpGolombLen.v, Gen/SliceSizes.v, Gen/VC2Math.v (tie T). *)
From Coq Require Import ZArith List Bool Lia.
From VC2 Require Import Base.PyZ Gen.StateRec Gen.VC2Math Gen.Quant Gen.ExpGolombLen Gen.SliceSizes
                        Model.EncoderSlices Proofs.QuantProofs Proofs.SliceSizesProofs Proofs.EncoderSlicesProofs.
From VC2 Require Import Model.Lifting Model.Wavelet Proofs.IntegChainDefs Proofs.IntegChain.
Import ListNotations.
Open Scope Z_scope.

(* (13.4) the decoder's dc_prediction undoes the encoder's apply_dc_prediction, for every
   2-D band of every size (both are in-place raster / reverse raster sweeps using mean) *)
Theorem C04_dc_roundtrip : forall b : band, dc_prediction (apply_dc_prediction b) = b.
Proof. exact dc_roundtrip. Qed.

(* quantisation index 0 is the identity in both directions ... *)
Theorem C04_q0_lossless : forall c : Z, forward_quant c 0 = c /\ inverse_quant c 0 = c.
Proof. exact index0_lossless. Qed.

(* ... so a slice coded with qindex 0 carries its coefficients verbatim (matrix entries are
   unsigned, hence max(0, 0 - entry) = 0), and the decoder's inverse_quant(., 0) returns them *)
Theorem C04_quantize_coeffs_0 : forall cs qms,
  length qms = length cs -> Forall (fun m => 0 <= m) qms -> quantize_coeffs 0 cs qms = cs.
Proof. exact quantize_coeffs_0. Qed.

Theorem C04_inverse_quant_0 : forall cs, map (fun v => inverse_quant v 0) cs = cs.
Proof. exact inverse_quant_0_list. Qed.

(* the bit model writes exactly the number of bits the encoder counts with
   signed_exp_golomb_length (Gen/ExpGolombLen.v) ... *)
Theorem C04_write_sint_length : forall v, Z.of_nat (length (write_sint v)) = signed_exp_golomb_length v.
Proof. exact write_sint_length. Qed.

(* ... and a bounded block of ANY length >= calculate_coeffs_bits cs, filled from cs by the
   serialiser (codes in order, what does not fit is dropped, rest padded) and read back as
   length cs coefficients with 1-bits past the end, gives exactly cs: sizing blocks by
   calculate_coeffs_bits (which ignores trailing zeros) loses nothing *)
Theorem C04_coeff_bits_trailing_zeros : forall cs (len : nat),
  calculate_coeffs_bits cs <= Z.of_nat len ->
  read_coeffs (length cs) (block_bits len cs) = cs.
Proof. exact coeff_bits_trailing_zeros. Qed.

(* gathering (transform_and_slice_picture) and scattering (decoder slice_band) are inverse:
   for every component, every list of subbands whose arrays have the shapes the decoder
   allocates, every slice grid (C13 partition: Proofs/SliceSizesProofs.v cover_unique_x/y) *)
Theorem C04_gather_scatter : forall st comp bands,
  good_state st ->
  Forall (fun s => 0 <= sb_level s <= depth_sum st + 1) bands ->
  Forall (shape_ok st comp) bands ->
  scatter_all st comp (init_bands st comp (map (fun s => (sb_level s, sb_qm s)) bands))
    (map (fun sy => map (fun sx => fst (gather_component st comp bands sx sy)) (EncoderSlices.zrange 0 (st_slices_x st)))
         (EncoderSlices.zrange 0 (st_slices_y st)))
  = bands.
Proof. exact gather_scatter. Qed.

(* one slice through the wire with qindex 0: HQ slice of the lossless packer (any scaler),
   HQ / LD slice of the lossy search (facts hq_slice_ok / ld_slice_ok are C14's) *)
Theorem C04_lossless_slice_roundtrip : forall s sc,
  1 <= s -> cc_ok (sc_Y sc) -> cc_ok (sc_C1 sc) -> cc_ok (sc_C2 sc) ->
  hq_slice_roundtrip s sc (lossless_slice s sc) = (fst (sc_Y sc), fst (sc_C1 sc), fst (sc_C2 sc)).
Proof. exact lossless_slice_roundtrip. Qed.

Theorem C04_lossless_packer_slices : forall rows mins,
  let s := fst (make_transform_data_hq_lossless rows mins) in
  1 <= s /\ snd (make_transform_data_hq_lossless rows mins) = map (lossless_slice s) (concat rows).
Proof. exact lossless_packer_slices. Qed.

(* ... whose length fields all fit their 8-bit fields, for any minimum_slice_size_scaler *)
Theorem C04_lossless_fields_8bit : forall rows mins,
  Forall (fun sl => 0 <= hq_y_length sl <= 255 /\ 0 <= hq_c1_length sl <= 255 /\ 0 <= hq_c2_length sl <= 255 /\ hq_qindex sl = 0)
         (snd (make_transform_data_hq_lossless rows mins)).
Proof. exact lossless_fields_8bit. Qed.

Theorem C04_hq_lossy_q0_slice_roundtrip : forall st s minq sx sy sc sl,
  0 < s -> cc_ok (sc_Y sc) -> cc_ok (sc_C1 sc) -> cc_ok (sc_C2 sc) ->
  hq_slice_ok st s minq sx sy sc sl -> hq_qindex sl = 0 ->
  hq_slice_roundtrip s sc sl = (fst (sc_Y sc), fst (sc_C1 sc), fst (sc_C2 sc)).
Proof. exact hq_lossy_q0_roundtrip. Qed.

Theorem C04_ld_q0_slice_roundtrip : forall st minq sx sy sc sl,
  cc_ok (sc_Y sc) -> cc_ok (sc_C1 sc) -> cc_ok (sc_C2 sc) -> length (fst (sc_C1 sc)) = length (fst (sc_C2 sc)) ->
  ld_slice_ok st minq sx sy sc sl -> ld_qindex sl = 0 ->
  ld_slice_roundtrip (slice_bytes st sx sy) sc sl = (fst (sc_Y sc), fst (sc_C1 sc), fst (sc_C2 sc)).
Proof. exact ld_q0_roundtrip. Qed.

(* The composed chain.  `dwt` / `idwt` stand for picture_encode / picture_decode (padding,
   wavelet transform, offset, clipping): their round trip is property C11's and enters ONLY as
   the hypothesis idwt_dwt.  Everything between -- DC prediction, gathering into slices,
   index 0 quantisation, length fields, exp-Golomb blocks with implicit trailing zeros,
   reading, scattering, inverse DC prediction -- is proved.  The byte-level container
   around the slices (parse info, headers, fragments) is not modelled here. *)
Theorem C04_chain_hq_lossless :
  forall (Pic : Type) (dwt : Pic -> list subband * list subband * list subband)
         (idwt : list band * list band * list band -> Pic),
  (forall p, idwt (map sb_band (fst (fst (dwt p))), map sb_band (snd (fst (dwt p))), map sb_band (snd (dwt p))) = p) ->
  forall st, good_state st ->
  forall p s, pic_wf Pic dwt st p -> pic_qm_ok Pic dwt p -> 1 <= s ->
  decode_model Pic dwt idwt st p false
    (fun sx sy => hq_slice_roundtrip s (encoder_slice Pic dwt st p false sx sy)
                                     (lossless_slice s (encoder_slice Pic dwt st p false sx sy))) = p.
Proof. exact chain_hq_lossless. Qed.

Theorem C04_chain_hq_lossy_q0 :
  forall (Pic : Type) (dwt : Pic -> list subband * list subband * list subband)
         (idwt : list band * list band * list band -> Pic),
  (forall p, idwt (map sb_band (fst (fst (dwt p))), map sb_band (snd (fst (dwt p))), map sb_band (snd (dwt p))) = p) ->
  forall st, good_state st ->
  forall p bst s minq (SL : Z -> Z -> hq_slice), pic_wf Pic dwt st p -> pic_qm_ok Pic dwt p -> 0 < s ->
  (forall sx sy, 0 <= sx < st_slices_x st -> 0 <= sy < st_slices_y st ->
     hq_slice_ok bst s minq sx sy (encoder_slice Pic dwt st p false sx sy) (SL sx sy) /\ hq_qindex (SL sx sy) = 0) ->
  decode_model Pic dwt idwt st p false
    (fun sx sy => hq_slice_roundtrip s (encoder_slice Pic dwt st p false sx sy) (SL sx sy)) = p.
Proof. exact chain_hq_lossy_q0. Qed.

Theorem C04_chain_ld_lossy_q0 :
  forall (Pic : Type) (dwt : Pic -> list subband * list subband * list subband)
         (idwt : list band * list band * list band -> Pic),
  (forall p, idwt (map sb_band (fst (fst (dwt p))), map sb_band (snd (fst (dwt p))), map sb_band (snd (dwt p))) = p) ->
  forall st, good_state st ->
  forall p bst minq (SL : Z -> Z -> ld_slice), pic_wf Pic dwt st p -> pic_qm_ok Pic dwt p ->
  map sb_level (snd (fst (dwt p))) = map sb_level (snd (dwt p)) ->
  (forall sx sy, 0 <= sx < st_slices_x st -> 0 <= sy < st_slices_y st ->
     ld_slice_ok bst minq sx sy (encoder_slice Pic dwt st p true sx sy) (SL sx sy) /\ ld_qindex (SL sx sy) = 0) ->
  decode_model Pic dwt idwt st p true
    (fun sx sy => ld_slice_roundtrip (slice_bytes bst sx sy) (encoder_slice Pic dwt st p true sx sy) (SL sx sy)) = p.
Proof. exact chain_ld_lossy_q0. Qed.

(* non-vacuity *)
Example C04_example_dc :
  apply_dc_prediction [[10; 12; 9]; [11; 13; 8]] = [[10; 2; -3]; [1; 2; -3]] /\
  dc_prediction [[10; 2; -3]; [1; 2; -3]] = [[10; 12; 9]; [11; 13; 8]].
Proof. vm_compute. split; reflexivity. Qed.

Example C04_example_bits :
  calculate_coeffs_bits [5; -1; 0; 0] = 10 /\
  block_bits 12 [5; -1; 0; 0] = [false; true; false; false; true; false;  false; false; true; true;  true; true] /\
  read_coeffs 4 (block_bits 10 [5; -1; 0; 0]) = [5; -1; 0; 0].
Proof. vm_compute. repeat split; reflexivity. Qed.

(* the chain's hypotheses are satisfiable: a 2x2 luma / 1x1 chroma "picture" that is its own
   transform (depth 0), two slices side by side; evaluated end to end through the wire *)
Example C04_example_chain :
  let st := set_st_slices_y (set_st_slices_x (set_st_color_diff_height (set_st_color_diff_width
              (set_st_luma_height (set_st_luma_width empty_pystate 2) 2) 1) 1) 2) 1 in
  let yb := [(0, 0, [[7; -3]; [0; 250]])] in
  let cb := [(0, 0, [[-9]])] in
  decode_picture st (shape_of yb) (shape_of cb) (shape_of cb) false
    (fun sx sy => hq_slice_roundtrip 1 (gathered st yb cb cb sx sy) (lossless_slice 1 (gathered st yb cb cb sx sy)))
  = ([[[7; -3]; [0; 250]]], [[[-9]]], [[[-9]]]).
Proof. vm_compute. reflexivity. Qed.

(* ------------------------------------------------------------------------------------------
   END TO END: the chain with the CONCRETE transform of property C11 (integration C04 x C11,
   Proofs/IntegChainDefs.v + Proofs/IntegChain.v).  No abstract Pic / dwt / idwt any more:

     picture = (Y, C1, C2) arrays of integers;
     pic_encode fv fh st qm ld cd = picture_encode: remove_offset (v - 2^(depth-1)), dwt_pad_addition,
        dwt (Model/Wavelet.v, filters fv / fh), subbands listed in the order
        transform_and_slice_picture visits them (level 0 "LL"/"L"; 1..dh "H"; dh+1..dh+d "HL","LH","HH")
        each with its quantisation matrix entry qm level orientation;
     pic_decode fv fh st ld cd   = picture_decode: idwt, idwt_pad_removal, clip, offset.

   Quantified over: every vertical / horizontal filter (any shift, any stage list), every state
   (depths dwt_depth, dwt_depth_ho >= 0, slice grid >= 1 x 1, picture sizes >= 1 x 1: config_ok),
   bit depths ld, cd >= 1, every picture of the configured size whose samples lie in
   0 .. 2^depth - 1 (pic_ok), every slice_size_scaler s >= 1.
   Composed: C11_roundtrip + C11_dwt_shapes (wavelet round trip; subband shapes = slice geometry,
   which discharges pic_wf), C13 partition, and all of C04's slice-level lemmas above.
   Remaining hypothesis: qmat_ok -- the matrix has an unsigned entry for every (level,
   orientation) present (a function Z -> Z -> Z here; in Python a missing entry raises KeyError);
   C04_example_end_to_end shows it holds for a concrete matrix.
   Still outside: the byte-level container around the slices (as for the parametric chain). *)
Theorem C04_end_to_end_hq_lossless :
  forall (fv fh : filter) (st : pystate) (qm : Z -> Z -> Z) (ld cd : Z),
  config_ok st ld cd ->
  forall (p : picture) (s : Z), qmat_ok st qm -> pic_ok st ld cd p -> 1 <= s ->
  decode_model picture (pic_encode fv fh st qm ld cd) (pic_decode fv fh st ld cd) st p false
    (fun sx sy => hq_slice_roundtrip s (encoder_slice picture (pic_encode fv fh st qm ld cd) st p false sx sy)
                    (lossless_slice s (encoder_slice picture (pic_encode fv fh st qm ld cd) st p false sx sy))) = p.
Proof. exact end_to_end_hq_lossless. Qed.

Theorem C04_end_to_end_hq_lossy_q0 :
  forall (fv fh : filter) (st : pystate) (qm : Z -> Z -> Z) (ld cd : Z),
  config_ok st ld cd ->
  forall (p : picture) bst s minq (SL : Z -> Z -> hq_slice), qmat_ok st qm -> pic_ok st ld cd p -> 0 < s ->
  (forall sx sy, 0 <= sx < st_slices_x st -> 0 <= sy < st_slices_y st ->
     hq_slice_ok bst s minq sx sy (encoder_slice picture (pic_encode fv fh st qm ld cd) st p false sx sy) (SL sx sy) /\ hq_qindex (SL sx sy) = 0) ->
  decode_model picture (pic_encode fv fh st qm ld cd) (pic_decode fv fh st ld cd) st p false
    (fun sx sy => hq_slice_roundtrip s (encoder_slice picture (pic_encode fv fh st qm ld cd) st p false sx sy) (SL sx sy)) = p.
Proof. exact end_to_end_hq_lossy_q0. Qed.

(* LD: with DC prediction of the level-0 band; the hypothesis "C1 and C2 carry the same levels"
   of the parametric theorem is discharged (both transforms have the configured depths) *)
Theorem C04_end_to_end_ld_lossy_q0 :
  forall (fv fh : filter) (st : pystate) (qm : Z -> Z -> Z) (ld cd : Z),
  config_ok st ld cd ->
  forall (p : picture) bst minq (SL : Z -> Z -> ld_slice), qmat_ok st qm -> pic_ok st ld cd p ->
  (forall sx sy, 0 <= sx < st_slices_x st -> 0 <= sy < st_slices_y st ->
     ld_slice_ok bst minq sx sy (encoder_slice picture (pic_encode fv fh st qm ld cd) st p true sx sy) (SL sx sy) /\ ld_qindex (SL sx sy) = 0) ->
  decode_model picture (pic_encode fv fh st qm ld cd) (pic_decode fv fh st ld cd) st p true
    (fun sx sy => ld_slice_roundtrip (slice_bytes bst sx sy) (encoder_slice picture (pic_encode fv fh st qm ld cd) st p true sx sy) (SL sx sy)) = p.
Proof. exact end_to_end_ld_lossy_q0. Qed.

(* the two facts the instantiation rests on, in C04's vocabulary:
   the Section hypothesis idwt_dwt AT every well-formed picture (from C11_roundtrip; it does NOT
   hold for ragged / out-of-range pictures, which is why the end-to-end theorems are derived from
   the pointwise form IntegChain.chain_core_at of C04's chain_core) ... *)
Theorem C04_concrete_idwt_dwt :
  forall (fv fh : filter) (st : pystate) (qm : Z -> Z -> Z) (ld cd : Z), config_ok st ld cd ->
  forall p : picture, pic_ok st ld cd p ->
  pic_decode fv fh st ld cd
    (map sb_band (fst (fst (pic_encode fv fh st qm ld cd p))), map sb_band (snd (fst (pic_encode fv fh st qm ld cd p))),
     map sb_band (snd (pic_encode fv fh st qm ld cd p))) = p.
Proof. exact pic_decode_encode. Qed.

(* ... and pic_wf (every subband array has the shape the slice geometry / the decoder's
   initialize_wavelet_data uses) is a THEOREM for the concrete transform (from C11_dwt_shapes) *)
Theorem C04_concrete_pic_wf :
  forall (fv fh : filter) (st : pystate) (qm : Z -> Z -> Z) (ld cd : Z), config_ok st ld cd ->
  forall p : picture, pic_ok st ld cd p -> pic_wf picture (pic_encode fv fh st qm ld cd) st p.
Proof. exact pic_encode_wf. Qed.

(* the parametric chain is the special case "round trip at every p" of the pointwise one *)
Theorem C04_chain_core_pointwise :
  forall (Pic : Type) (dwt : Pic -> list subband * list subband * list subband)
         (idwt : list band * list band * list band -> Pic) st p dc V,
  good_state st ->
  idwt (map sb_band (fst (fst (dwt p))), map sb_band (snd (fst (dwt p))), map sb_band (snd (dwt p))) = p ->
  pic_wf Pic dwt st p ->
  (forall sx sy, 0 <= sx < st_slices_x st -> 0 <= sy < st_slices_y st ->
     V sx sy = (fst (sc_Y (encoder_slice Pic dwt st p dc sx sy)), fst (sc_C1 (encoder_slice Pic dwt st p dc sx sy)),
                fst (sc_C2 (encoder_slice Pic dwt st p dc sx sy)))) ->
  decode_model Pic dwt idwt st p dc V = p.
Proof. exact chain_core_at. Qed.

(* non-vacuity of the end-to-end statement: 3x2 luma, 2x1 colour difference, 8 bit, one 2-D and one
   horizontal-only level, LeGall (vertical) and a Haar-like (horizontal) filter, two slices, matrix
   4*level + orientation: every hypothesis holds, the transform really transforms, and the
   picture comes back through the wire *)
Definition C04_ex_legall : filter := mk_filter 1 [mk_stage 2 2 2 0 [1; 1]; mk_stage 3 1 2 0 [1; 1]].
Definition C04_ex_haar : filter := mk_filter 0 [mk_stage 2 1 1 1 [1]; mk_stage 3 0 1 0 [1]].
Definition C04_ex_state : pystate :=
  set_st_slices_y (set_st_slices_x (set_st_dwt_depth_ho (set_st_dwt_depth
    (set_st_color_diff_height (set_st_color_diff_width (set_st_luma_height (set_st_luma_width empty_pystate 3) 2) 2) 1) 1) 1) 2) 1.
Definition C04_ex_qm (l o : Z) : Z := 4 * l + o.
Definition C04_ex_pic : picture := ([[10; 200; 35]; [7; 255; 0]], [[128; 3]], [[0; 255]]).

Example C04_example_end_to_end :
  config_ok C04_ex_state 8 8 /\ qmat_ok C04_ex_state C04_ex_qm /\ pic_ok C04_ex_state 8 8 C04_ex_pic /\
  fst (fst (pic_encode C04_ex_legall C04_ex_haar C04_ex_state C04_ex_qm 8 8 C04_ex_pic))
    = [(0, 0, [[-60]]); (1, 6, [[-100]]); (2, 11, [[219; 0]]); (2, 12, [[26; -35]]); (2, 13, [[58; 0]])] /\
  let enc := pic_encode C04_ex_legall C04_ex_haar C04_ex_state C04_ex_qm 8 8 in
  decode_model picture enc (pic_decode C04_ex_legall C04_ex_haar C04_ex_state 8 8) C04_ex_state C04_ex_pic false
    (fun sx sy => hq_slice_roundtrip 1 (encoder_slice picture enc C04_ex_state C04_ex_pic false sx sy)
                                       (lossless_slice 1 (encoder_slice picture enc C04_ex_state C04_ex_pic false sx sy)))
  = C04_ex_pic.
Proof.
  split; [|split; [|split; [|split]]].
  - unfold config_ok, good_state. vm_compute. repeat split; discriminate.
  - intros l o H. unfold qm_present in H.
    change (st_dwt_depth_ho C04_ex_state) with 1 in H. change (st_dwt_depth C04_ex_state) with 1 in H.
    unfold dc_orient, o_L, o_LL, o_H, o_HL, o_HH in H. change (1 =? 0) with false in H. unfold C04_ex_qm. lia.
  - unfold pic_ok, comp_ok, in_range, has_shape. cbn [C04_ex_pic fst snd]. repeat split; repeat constructor; try lia.
  - vm_compute. reflexivity.
  - vm_compute. reflexivity.
Qed.

(* the in-range hypothesis is needed: a sample outside 0 .. 2^depth - 1 is clipped by picture_decode *)
Example C04_example_out_of_range_not_reconstructed :
  pic_decode C04_ex_legall C04_ex_haar C04_ex_state 8 8
    (let e := pic_encode C04_ex_legall C04_ex_haar C04_ex_state C04_ex_qm 8 8 ([[10; 300; 35]; [7; 255; 0]], [[128; 3]], [[0; 255]]) in
     (map sb_band (fst (fst e)), map sb_band (snd (fst e)), map sb_band (snd e)))
  = ([[10; 255; 35]; [7; 255; 0]], [[128; 3]], [[0; 255]]).
Proof. vm_compute. reflexivity. Qed.
