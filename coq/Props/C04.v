(* C04 -- Lossless and unquantised encodings reconstruct pictures exactly.
   Property theorems only; each closed by `exact <lemma>`.
   Model: Model/EncoderSlices.v (hand model of encoder/pictures.py and of the decoder's
   slice reading, compared with the real functions on every run by tools/harness/C04.py)
   over Gen/Quant.v, Gen/ExpGolombLen.v, Gen/SliceSizes.v, Gen/VC2Math.v (tie T). *)
From Coq Require Import ZArith List Bool Lia.
From VC2 Require Import Base.PyZ Gen.StateRec Gen.VC2Math Gen.Quant Gen.ExpGolombLen Gen.SliceSizes
                        Model.EncoderSlices Proofs.QuantProofs Proofs.SliceSizesProofs Proofs.EncoderSlicesProofs.
Import ListNotations.
Open Scope Z_scope.

(* (13.4) the decoder's dc_prediction undoes the encoder's apply_dc_prediction, for every
   2-D band of every size (both are in-place raster / reverse raster sweeps using mean) *)
Theorem C04_dc_roundtrip : forall b : band, dc_prediction (apply_dc_prediction b) = b.
Proof. exact dc_roundtrip. Qed.

(* quantisation index 0 is the identity in both directions ... *)
Theorem C04_q0_lossless : forall c : Z, forward_quant c 0 = c /\ inverse_quant c 0 = c.
Proof. exact index0_lossless. Qed.

(* ... so a slice coded with qindex 0 carries its coefficients verbatim (matrix entries are
   unsigned, hence max(0, 0 - entry) = 0), and the decoder's inverse_quant(., 0) returns them *)
Theorem C04_quantize_coeffs_0 : forall cs qms,
  length qms = length cs -> Forall (fun m => 0 <= m) qms -> quantize_coeffs 0 cs qms = cs.
Proof. exact quantize_coeffs_0. Qed.

Theorem C04_inverse_quant_0 : forall cs, map (fun v => inverse_quant v 0) cs = cs.
Proof. exact inverse_quant_0_list. Qed.

(* the bit model writes exactly the number of bits the encoder counts with
   signed_exp_golomb_length (Gen/ExpGolombLen.v) ... *)
Theorem C04_write_sint_length : forall v, Z.of_nat (length (write_sint v)) = signed_exp_golomb_length v.
Proof. exact write_sint_length. Qed.

(* ... and a bounded block of ANY length >= calculate_coeffs_bits cs, filled from cs by the
   serialiser (codes in order, what does not fit is dropped, rest padded) and read back as
   length cs coefficients with 1-bits past the end, gives exactly cs: sizing blocks by
   calculate_coeffs_bits (which ignores trailing zeros) loses nothing *)
Theorem C04_coeff_bits_trailing_zeros : forall cs (len : nat),
  calculate_coeffs_bits cs <= Z.of_nat len ->
  read_coeffs (length cs) (block_bits len cs) = cs.
Proof. exact coeff_bits_trailing_zeros. Qed.

(* non-vacuity *)
Example C04_example_dc :
  apply_dc_prediction [[10; 12; 9]; [11; 13; 8]] = [[10; 2; -3]; [1; 2; -3]] /\
  dc_prediction [[10; 2; -3]; [1; 2; -3]] = [[10; 12; 9]; [11; 13; 8]].
Proof. vm_compute. split; reflexivity. Qed.

Example C04_example_bits :
  calculate_coeffs_bits [5; -1; 0; 0] = 10 /\
  block_bits 12 [5; -1; 0; 0] = [false; true; false; false; true; false;  false; false; true; true;  true; true] /\
  read_coeffs 4 (block_bits 10 [5; -1; 0; 0]) = [5; -1; 0; 0].
Proof. vm_compute. repeat split; reflexivity. Qed.
