(* C05 -- Decoder test cases are conformant and decode to their intended pictures.
   Logic core proved here:
   * the literal picture-number lists of the picture_numbers test case generator (REGENERATED from
     the source text into Gen/TestCaseConsts.v on every run) obey the validator's numbering rule for
     the coding modes in which they are emitted, have the documented starts and length 8;
   * any consecutive (mod 2^32) numbering with an even first field obeys that rule (used by every
     generator that lets the encoder/autofill number the pictures).
   The metamorphic facts (second half of this file; integration with C08 / C01 / C10 / C15,
   Proofs/IntegTestCases.v + Proofs/IntegStream.v): slice padding bits, padding / auxiliary data
   units, repeated sequence headers, concatenation, absent next_parse_offset, alternative sequence
   header encodings do not change what the decoder models observe.  The remaining metamorphic
   classes (HQ slice prefix bytes' effect on the container, extended-transform flags, slice size
   scaler, picture CONTENT under stream-level edits) have no model carrying them and are covered by
   the differential run of tools/harness/C05.py only. *)
From Coq Require Import ZArith List Bool String.
From VC2 Require Import Model.PicNums Proofs.PicNumsProofs Gen.TestCaseConsts.
Import ListNotations.
Open Scope Z_scope.

Definition case_ok (fields : bool) (c : string * list Z) : bool :=
  picnums_ok fields (snd c) && (Z.of_nat (List.length (snd c)) =? 8).

Lemma picture_number_cases_ok :
  forallb (case_ok false) picture_numbers_cases_always = true /\
  forallb (case_ok true) picture_numbers_cases_always = true /\
  forallb (case_ok false) picture_numbers_cases_frames_only = true.
Proof. vm_compute. repeat split. Qed.

(* every emitted picture-number test case is accepted by the validator's numbering rule:
   the unconditional ones in both coding modes, the frames-only ones when pictures are frames *)
Theorem C05_picture_number_cases_conformant_partial :
  (forall fields c, In c picture_numbers_cases_always -> case_ok fields c = true) /\
  (forall c, In c picture_numbers_cases_frames_only -> case_ok false c = true).
Proof.
  destruct picture_number_cases_ok as (H1 & H2 & H3).
  split.
  - intros [|] c Hc; [exact (proj1 (forallb_forall _ _) H2 c Hc)|exact (proj1 (forallb_forall _ _) H1 c Hc)].
  - intros c Hc. exact (proj1 (forallb_forall _ _) H3 c Hc).
Qed.

Theorem C05_consecutive_numbering_conformant : forall fields start n,
  0 <= start < 4294967296 -> (fields = true -> n <> O -> start mod 2 = 0) ->
  picnums_ok fields (consecutive start n) = true.
Proof. exact consecutive_ok. Qed.

(* the documented wrap-around case really wraps *)
Example C05_wraps : In ("wrap_around"%string, consecutive 4294967292 8) picture_numbers_cases_always.
Proof. vm_compute. right. right. left. reflexivity. Qed.

(* ==========================================================================================
   Metamorphic lemmas over the existing decoder models (each closed by `exact`)
   ========================================================================================== *)
From VC2 Require Import Base.PyZ Gen.StateRec Gen.ParseCodes Corr.C08 Model.Slices Proofs.SlicesProofs Proofs.IntegTestCases.
From VC2 Require Import Model.SeqHeader Proofs.SeqHeaderProofs.
From VC2 Require Import Model.Stream Proofs.StreamLift Proofs.IntegStream.

(* (a) test case slice_padding_data.  Model/Slices.v d_slice = the validator's slice reader (C08).
   Whenever it reads a slice (LD or HQ, any parameters, any bits), the consumed bits split into
   segments -- Keep (interpreted: prefix bytes, qindex, length fields, coefficients) and Pad (the bits
   flushed at the end of each bounded block: 2 blocks per LD slice, 3 per HQ slice) -- such that
   replacing every Pad segment by ARBITRARY bits of the same length, and what follows the slice by
   anything, gives the same qindex, length fields and coefficient assignments (the transform arrays are
   a function of these assignments).  From C08's padding_bits_irrelevant / _chroma. *)
Theorem C05_slice_padding_bits_irrelevant : forall fuel p sx sy bs d,
  d_slice fuel p sx sy bs = Slices.Ok d ->
  exists segs,
    pad_count segs = (if is_ld (sp_st p) then 2%nat else if is_hq (sp_st p) then 3%nat else 0%nat) /\
    bs = flat segs ++ d_rest d /\
    forall segs' rest', segs_sim segs segs' ->
      d_slice fuel p sx sy (flat segs' ++ rest') = Slices.Ok (mk_d_out (d_qindex d) (d_lengths d) (d_writes d) rest').
Proof. exact slice_padding_irrelevant. Qed.

(* ... and for ALL the slices of a picture (coords = slice_coords) or of a fragment (fragment_coords),
   read one after the other: the level at which the generator fills every *_block_padding field *)
Theorem C05_picture_slice_padding_bits_irrelevant : forall fuel p coords bs ds rest,
  d_slices fuel p coords bs = Slices.Ok (ds, rest) ->
  exists segs,
    bs = flat segs ++ rest /\
    pad_count segs = (List.length coords * (if is_ld (sp_st p) then 2 else if is_hq (sp_st p) then 3 else 0))%nat /\
    forall segs' rest', segs_sim segs segs' ->
      exists ds', d_slices fuel p coords (flat segs' ++ rest') = Slices.Ok (ds', rest') /\
                  map d_writes ds' = map d_writes ds /\ map d_qindex ds' = map d_qindex ds /\
                  map d_lengths ds' = map d_lengths ds.
Proof. exact slices_padding_irrelevant. Qed.

(* non-vacuity: an HQ slice whose luma block is 3 bytes long holds its 16 coefficients in 16 bits;
   the 8 bits that follow are padding: 0x00 and 0xAB decode alike, whereas a changed coefficient bit
   does not *)
Example C05_example_slice_padding :
  let p := mk_case_params [8;4;8;4;1;0;2;1;0;1;232] [0;1] [[0];[0;0;0]] in
  let w bytes := let bs := bits_of_bytes bytes in
                 match d_slice (fuel_for bs) p 0 0 bs with Slices.Ok d => Some (d_writes d) | _ => None end in
  w [5;3;255;255;0;0;0] <> None /\ w [5;3;255;255;171;0;0] = w [5;3;255;255;0;0;0] /\
  w [5;3;255;127;0;0;0] <> w [5;3;255;255;0;0;0].
Proof. vm_compute. repeat split; discriminate. Qed.

(* (f) alternative sequence header encodings (test cases source_parameters_encodings): any two headers
   of the enumeration -- compact or not, on any admissible base video format -- decode to the same
   video parameters and picture coding mode.  From C15_options_decode_to_target. *)
Theorem C05_alternative_header_encodings_decode_identically :
  forall (T : tables) (tbl : ctable) (cf : features) (cands : list Z) (h1 h2 : header),
  tables_wf T ->
  In h1 (iter_sequence_headers T tbl cf cands) -> In h2 (iter_sequence_headers T tbl cf cands) ->
  decode_header T h1 = decode_header T h2.
Proof.
  exact (fun T tbl cf cands h1 h2 W H1 H2 =>
           eq_trans (options_decode_to_target T tbl cf cands h1 W H1)
                    (eq_sym (options_decode_to_target T tbl cf cands h2 W H2))).
Qed.

Section C05_stream.
  (* the stream-level validator model of C01/C10 (Model/Stream.v), for ANY generic / level pattern
     automata such that the generic pattern starts with a sequence header (as in C01) *)
  Variable gst : Type.
  Variable gstart : gst.
  Variable gstep : gst -> symbol -> option gst.
  Variable gcomplete : gst -> bool.
  Variable lst : Type.
  Variable lstart : Z -> lst.
  Variable lstep : Z -> lst -> symbol -> option lst.
  Variable lcomplete : Z -> lst -> bool.
  Variable level_known : Z -> bool.
  Hypothesis Hgen : gen_first_is_seqhdr_b gstart gstep = true.

  Notation Vrun := (run gst gstart gstep gcomplete lst lstart lstep lcomplete level_known false).
  Notation Vobs := (run_obs gst gstart gstep gcomplete lst lstart lstep lcomplete level_known false true
                            (init_state gst gstart lst)).

  (* (b) test cases padding_data / auxiliary_data (and, with x a repeat of the header, (b')).
     us = u0 :: a ++ u :: b is an accepted sequence with first unit the header h0; x is a padding or
     auxiliary data unit (or h0 again) of any length >= 13 with next_parse_offset = its length, put
     before u with u's previous_parse_offset; u's previous_parse_offset becomes x's length.  Then the
     new sequence is accepted and the observation run_obs = (verdict, sequences gone through, picture
     numbers output) is the same -- PROVIDED the level's and the generic data-unit ORDERING patterns
     allow the new parse code sequence (the automata are abstract here; whether a level's pattern
     allows padding at that place is C19's subject).  Picture CONTENT is not in this model's
     observation: `_partial`. *)
  Theorem C05_padding_and_aux_units_irrelevant_partial : forall u0 h0 a x u b,
    let us := u0 :: a ++ u :: b in
    let us' := u0 :: a ++ x :: set_ppo u (u_len x) :: b in
    u_kind u0 = KSeqHdr h0 ->
    (u_kind x = KPad \/ u_kind x = KAux) -> u_npo x = u_len x ->
    PARSE_INFO_HEADER_BYTES <= u_len x -> u_ppo x = u_ppo u ->
    units_valid level_known us = true -> one_sequence us = true -> Vrun us = Accept ->
    level_pattern_ok lst lstart lstep lcomplete us' = true -> generic_pattern_ok gst gstart gstep gcomplete us' = true ->
    Vrun us' = Accept /\ Vobs us' 0 [] = Vobs us 0 [] /\ eos_only_last us' = true.
  Proof.
    exact (fun u0 h0 a x u b Ek Hk Hn =>
             insert_neutral_irrelevant gst gstart gstep gcomplete lst lstart lstep lcomplete level_known Hgen u0 h0 a x u b Ek
               (conj (match Hk with or_introl e => or_introl e | or_intror e => or_intror (or_introl e) end) Hn)).
  Qed.

  (* (b') test case repeated_sequence_headers: the IDENTICAL header (same kind, i.e. same bytes id and
     fields; any length >= 13) repeated before any later data unit *)
  Theorem C05_repeated_sequence_header_irrelevant_partial : forall u0 h0 a x u b,
    let us := u0 :: a ++ u :: b in
    let us' := u0 :: a ++ x :: set_ppo u (u_len x) :: b in
    u_kind u0 = KSeqHdr h0 ->
    u_kind x = KSeqHdr h0 -> u_npo x = u_len x ->
    PARSE_INFO_HEADER_BYTES <= u_len x -> u_ppo x = u_ppo u ->
    units_valid level_known us = true -> one_sequence us = true -> Vrun us = Accept ->
    level_pattern_ok lst lstart lstep lcomplete us' = true -> generic_pattern_ok gst gstart gstep gcomplete us' = true ->
    Vrun us' = Accept /\ Vobs us' 0 [] = Vobs us 0 [] /\ eos_only_last us' = true.
  Proof.
    exact (fun u0 h0 a x u b Ek Hk Hn =>
             insert_neutral_irrelevant gst gstart gstep gcomplete lst lstart lstep lcomplete level_known Hgen u0 h0 a x u b Ek
               (conj (or_intror (or_intror Hk)) Hn)).
  Qed.

  (* (d) test case absent_next_parse_offset: next_parse_offset := 0 on every picture and fragment data
     unit of an accepted sequence: accepted, same observation.  No hypothesis on the patterns (the
     parse codes do not change).  From the offsets rule of Model/Stream.v via C01_iff. *)
  Theorem C05_absent_next_parse_offset_irrelevant : forall us,
    units_valid level_known us = true -> one_sequence us = true -> Vrun us = Accept ->
    Vrun (map zero_npo us) = Accept /\ Vobs (map zero_npo us) 0 [] = Vobs us 0 [] /\
    eos_only_last (map zero_npo us) = true.
  Proof. exact (zero_npo_irrelevant gst gstart gstep gcomplete lst lstart lstep lcomplete level_known Hgen). Qed.

  (* what an accepted sequence outputs is determined by its data units alone (pictures; slice fragments
     completing a fragmented picture): the fact (b), (b') and (d) rest on *)
  Theorem C05_accepted_sequence_observation : forall us,
    units_valid level_known us = true -> one_sequence us = true -> Vrun us = Accept ->
    Vobs us 0 [] = (Accept, 1, pics_from None (tl us)).
  Proof. exact (obs_sequence gst gstart gstep gcomplete lst lstart lstep lcomplete level_known Hgen). Qed.

  (* (b), (b'), (d) inside a stream of several sequences: replacing one sequence of an accepted stream by
     an accepted variant with the same output leaves the whole stream's observation unchanged (C10) *)
  Theorem C05_variant_inside_stream : forall before sq sq' after,
    Forall (fun s => eos_only_last s = true) (before ++ [sq] ++ after) ->
    Forall (fun s => Vrun s = Accept) (before ++ [sq] ++ after) ->
    eos_only_last sq' = true -> Vrun sq' = Accept -> Vobs sq' 0 [] = Vobs sq 0 [] ->
    Vobs (List.concat (before ++ [sq'] ++ after)) 0 [] = Vobs (List.concat (before ++ [sq] ++ after)) 0 [].
  Proof. exact (stream_replace gst gstart gstep gcomplete lst lstart lstep lcomplete level_known). Qed.

  (* (c) test case concatenated sequences: the validator goes through every sequence and outputs the
     concatenation of what each outputs alone.  = C10_pictures_are_concatenated. *)
  Theorem C05_concatenation_is_concatenation : forall seqs,
    Forall (fun s => eos_only_last s = true) seqs -> Forall (fun s => Vrun s = Accept) seqs ->
    Vobs (List.concat seqs) 0 [] =
    (Accept, Z.of_nat (List.length seqs),
     List.concat (List.map (pics_of gst gstart gstep gcomplete lst lstart lstep lcomplete level_known false) seqs)).
  Proof.
    exact (fun seqs Hl Ha => pictures_concat gst gstart gstep gcomplete lst lstart lstep lcomplete level_known false seqs Hl Ha 0 []).
  Qed.
End C05_stream.

(* non-vacuity on the concrete instance of Props/C01.v (generic automaton "sequence_header .* end_of_sequence",
   no level restriction): a fragmented picture; a padding unit inserted before the second fragment with
   corrected offsets; next_parse_offset zeroed -- all accepted, all output picture 7 *)
Definition C05_ex_gstep (s : Z) (sym : symbol) : option Z :=
  if s =? 0 then (match sym with SSeqHdr => Some 1 | _ => None end)
  else match sym with SEos => Some 2 | _ => Some 1 end.
Definition C05_ex_obs :=
  run_obs Z 0 C05_ex_gstep (fun s => s =? 2) unit (fun _ => tt) (fun _ _ _ => Some tt) (fun _ _ => true) (fun _ => true) false
          true (init_state Z 0 unit).
Example C05_example_stream :
  let hdr := mkUnit (KSeqHdr (mkHdr 1 3 3 0 0 1)) 20 20 0 in
  let tp := mkTp 4 4 0 2 1 in
  let us := [hdr; mkUnit (KFragFirst true 7 tp) 30 30 20; mkUnit (KFragData true 7 1 0 0) 40 40 30;
             mkUnit (KFragData true 7 1 1 0) 40 40 40; mkUnit KEos 13 0 40] in
  let us' := [hdr; mkUnit (KFragFirst true 7 tp) 30 30 20; mkUnit (KFragData true 7 1 0 0) 40 40 30;
              mkUnit KPad 17 17 40; mkUnit (KFragData true 7 1 1 0) 40 40 17; mkUnit KEos 13 0 40] in
  C05_ex_obs us 0 [] = (Accept, 1, [7]) /\ C05_ex_obs us' 0 [] = (Accept, 1, [7]) /\
  C05_ex_obs (map zero_npo us) 0 [] = (Accept, 1, [7]) /\
  map u_npo (map zero_npo us) = [20; 0; 0; 0; 0] /\ pics_from None (tl us) = [7].
Proof. vm_compute. repeat split; reflexivity. Qed.

(* ==========================================================================================
   (b), (b') for the CONCRETE generic ordering pattern (integration with C18; Proofs/IntegStreamPatterns.v;
   ADDED, nothing above changed).  The validator model's generic automaton is the C18 Matcher model of
   "sequence_header .* end_of_sequence" (Model/IntegSeq.v gstart_m / mstep; C03_generic_pattern_parse,
   C03_pattern_automaton_iff_lang); the level's automaton stays abstract.  A padding / auxiliary data unit or
   a repeat of the header inserted after the first data unit of an accepted sequence, before any later one
   (the last included), keeps the generic pattern matched (first unit still the header, last unit still
   the end of sequence), so the hypothesis `generic_pattern_ok us'` and the Section hypothesis Hgen of the
   theorems above are gone.  What remains: the LEVEL's pattern must allow the new parse-code sequence
   (level_pattern_ok us'), and picture content is not in the observation: still `_partial`.
   ========================================================================================== *)
From VC2 Require Import Model.Regex Model.Matcher Model.IntegSeq Proofs.IntegPatterns Proofs.IntegStreamPatterns.

Section C05_stream_generic.
  Variable lst : Type.
  Variable lstart : Z -> lst.
  Variable lstep : Z -> lst -> symbol -> option lst.
  Variable lcomplete : Z -> lst -> bool.
  Variable level_known : Z -> bool.

  Notation Grun := (run matcher gstart_m mstep is_complete lst lstart lstep lcomplete level_known false).
  Notation Gobs := (run_obs matcher gstart_m mstep is_complete lst lstart lstep lcomplete level_known false true
                            (init_state matcher gstart_m lst)).

  Theorem C05_padding_and_aux_units_irrelevant_generic_partial : forall u0 h0 a x u b,
    let us := u0 :: a ++ u :: b in
    let us' := u0 :: a ++ x :: set_ppo u (u_len x) :: b in
    u_kind u0 = KSeqHdr h0 ->
    (u_kind x = KPad \/ u_kind x = KAux) -> u_npo x = u_len x ->
    PARSE_INFO_HEADER_BYTES <= u_len x -> u_ppo x = u_ppo u ->
    units_valid level_known us = true -> one_sequence us = true -> Grun us = Accept ->
    level_pattern_ok lst lstart lstep lcomplete us' = true ->
    Grun us' = Accept /\ Gobs us' 0 [] = Gobs us 0 [] /\ eos_only_last us' = true /\ Mgeneric_ok us' = true.
  Proof.
    exact (fun u0 h0 a x u b Ek Hk Hn =>
             insert_neutral_irrelevant_generic lst lstart lstep lcomplete level_known u0 h0 a x u b Ek
               (conj (match Hk with or_introl e => or_introl e | or_intror e => or_intror (or_introl e) end) Hn)).
  Qed.

  Theorem C05_repeated_sequence_header_irrelevant_generic_partial : forall u0 h0 a x u b,
    let us := u0 :: a ++ u :: b in
    let us' := u0 :: a ++ x :: set_ppo u (u_len x) :: b in
    u_kind u0 = KSeqHdr h0 ->
    u_kind x = KSeqHdr h0 -> u_npo x = u_len x ->
    PARSE_INFO_HEADER_BYTES <= u_len x -> u_ppo x = u_ppo u ->
    units_valid level_known us = true -> one_sequence us = true -> Grun us = Accept ->
    level_pattern_ok lst lstart lstep lcomplete us' = true ->
    Grun us' = Accept /\ Gobs us' 0 [] = Gobs us 0 [] /\ eos_only_last us' = true /\ Mgeneric_ok us' = true.
  Proof.
    exact (fun u0 h0 a x u b Ek Hk Hn =>
             insert_neutral_irrelevant_generic lst lstart lstep lcomplete level_known u0 h0 a x u b Ek
               (conj (or_intror (or_intror Hk)) Hn)).
  Qed.
End C05_stream_generic.

(* both automata the C18 Matcher, ANY level table lvl_re: when the level's pattern is `.*` (level 0,
   unconstrained -- the level of most generated test cases) NO pattern hypothesis is left: padding,
   auxiliary data and repeated headers (x neutral: one of the three, next_parse_offset = length) inserted
   anywhere after the first data unit of an accepted sequence give an accepted sequence with the same output *)
Theorem C05_neutral_units_irrelevant_unconstrained_level_partial :
  forall (lvl_re : Z -> re) (level_known : Z -> bool) u0 h0 a x u b,
  let us := u0 :: a ++ u :: b in
  let us' := u0 :: a ++ x :: set_ppo u (u_len x) :: b in
  lvl_re (h_level h0) = Star Any ->
  u_kind u0 = KSeqHdr h0 ->
  ((u_kind x = KPad \/ u_kind x = KAux \/ u_kind x = KSeqHdr h0) /\ u_npo x = u_len x) ->
  PARSE_INFO_HEADER_BYTES <= u_len x -> u_ppo x = u_ppo u ->
  units_valid level_known us = true -> one_sequence us = true -> Mrun lvl_re level_known us = Accept ->
  Mrun lvl_re level_known us' = Accept /\
  run_obs matcher gstart_m mstep is_complete matcher (lstart_m lvl_re) lstep_m lcomplete_m level_known false true
          (init_state matcher gstart_m matcher) us' 0 [] =
  run_obs matcher gstart_m mstep is_complete matcher (lstart_m lvl_re) lstep_m lcomplete_m level_known false true
          (init_state matcher gstart_m matcher) us 0 [] /\
  eos_only_last us' = true.
Proof. exact insert_neutral_irrelevant_unconstrained. Qed.

(* non-vacuity with the Matcher as generic automaton (no level restriction): the fragmented picture of
   C05_example_stream with a padding unit before the second slice fragment, and with the header repeated
   before the end of sequence: accepted, picture 7 output *)
Example C05_example_stream_generic :
  let obs := run_obs matcher gstart_m mstep is_complete unit (fun _ => tt) (fun _ _ _ => Some tt) (fun _ _ => true) (fun _ => true)
                     false true (init_state matcher gstart_m unit) in
  let hdr := mkUnit (KSeqHdr (mkHdr 1 3 3 0 0 1)) 20 20 0 in
  let tp := mkTp 4 4 0 2 1 in
  let us := [hdr; mkUnit (KFragFirst true 7 tp) 30 30 20; mkUnit (KFragData true 7 1 0 0) 40 40 30;
             mkUnit (KFragData true 7 1 1 0) 40 40 40; mkUnit KEos 13 0 40] in
  let us' := [hdr; mkUnit (KFragFirst true 7 tp) 30 30 20; mkUnit (KFragData true 7 1 0 0) 40 40 30;
              mkUnit KPad 17 17 40; mkUnit (KFragData true 7 1 1 0) 40 40 17; mkUnit KEos 13 0 40] in
  let us'' := [hdr; mkUnit (KFragFirst true 7 tp) 30 30 20; mkUnit (KFragData true 7 1 0 0) 40 40 30;
               mkUnit (KFragData true 7 1 1 0) 40 40 40; mkUnit (KSeqHdr (mkHdr 1 3 3 0 0 1)) 20 20 40; mkUnit KEos 13 0 20] in
  obs us 0 [] = (Accept, 1, [7]) /\ obs us' 0 [] = (Accept, 1, [7]) /\ obs us'' 0 [] = (Accept, 1, [7]) /\
  Mgeneric_ok us' = true /\ Mgeneric_ok us'' = true /\ Mgeneric_ok (tl us') = false.
Proof. vm_compute. repeat split; reflexivity. Qed.
