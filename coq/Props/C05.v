(* C05 -- Decoder test cases are conformant and decode to their intended pictures.
   Logic core proved here:
   * the literal picture-number lists of the picture_numbers test case generator (REGENERATED from
     the source text into Gen/TestCaseConsts.v on every run) obey the validator's numbering rule for
     the coding modes in which they are emitted, have the documented starts and length 8;
   * any consecutive (mod 2^32) numbering with an even first field obeys that rule (used by every
     generator that lets the encoder/autofill number the pictures).
   The metamorphic facts (padding units/bits, prefix bytes, repeated headers, ... do not change the
   decoded pictures) are stated over the decoder models of C08/C10 as they land (see DESIGN.md 3 C05)
   and are otherwise covered by the differential run of tools/harness/C05.py. *)
From Coq Require Import ZArith List Bool String.
From VC2 Require Import Model.PicNums Proofs.PicNumsProofs Gen.TestCaseConsts.
Import ListNotations.
Open Scope Z_scope.

Definition case_ok (fields : bool) (c : string * list Z) : bool :=
  picnums_ok fields (snd c) && (Z.of_nat (List.length (snd c)) =? 8).

Lemma picture_number_cases_ok :
  forallb (case_ok false) picture_numbers_cases_always = true /\
  forallb (case_ok true) picture_numbers_cases_always = true /\
  forallb (case_ok false) picture_numbers_cases_frames_only = true.
Proof. vm_compute. repeat split. Qed.

(* every emitted picture-number test case is accepted by the validator's numbering rule:
   the unconditional ones in both coding modes, the frames-only ones when pictures are frames *)
Theorem C05_picture_number_cases_conformant_partial :
  (forall fields c, In c picture_numbers_cases_always -> case_ok fields c = true) /\
  (forall c, In c picture_numbers_cases_frames_only -> case_ok false c = true).
Proof.
  destruct picture_number_cases_ok as (H1 & H2 & H3).
  split.
  - intros [|] c Hc; [exact (proj1 (forallb_forall _ _) H2 c Hc)|exact (proj1 (forallb_forall _ _) H1 c Hc)].
  - intros c Hc. exact (proj1 (forallb_forall _ _) H3 c Hc).
Qed.

Theorem C05_consecutive_numbering_conformant : forall fields start n,
  0 <= start < 4294967296 -> (fields = true -> n <> O -> start mod 2 = 0) ->
  picnums_ok fields (consecutive start n) = true.
Proof. exact consecutive_ok. Qed.

(* the documented wrap-around case really wraps *)
Example C05_wraps : In ("wrap_around"%string, consecutive 4294967292 8) picture_numbers_cases_always.
Proof. vm_compute. right. right. left. reflexivity. Qed.
