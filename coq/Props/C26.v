(* C26 -- Bitstream viewer never reports an internal error.
   Logic core (Model/Cli.v): BitstreamViewer.run's classification of how parsing ended, and
   is_internal_error's traceback walk.  The hypothesis "the exception's innermost viewer/vc2 frame is
   in bitstream/vc2.py" (i.e. the display callback itself does not raise) is exactly what only the
   differential run can check (tools/harness/C26.py).  PARTIAL by nature (DESIGN.md section 6). *)
From Coq Require Import ZArith List Bool.
From VC2 Require Import Model.Cli Proofs.CliProofs.
Import ListNotations.
Open Scope Z_scope.

Theorem C26_internal_status_iff : forall o, viewer_exit o = 255 <-> o = WViewerException.
Proof. exact viewer_internal_iff. Qed.

Theorem C26_status_is_normal_eof_or_parse_failure_partial : forall o,
  o <> WViewerException -> In (viewer_exit o) [0; 1; 2; 3; 4].
Proof. exact viewer_status_set. Qed.

(* for tracebacks of ANY depth: if the innermost frame that lies in the viewer script or in
   bitstream/vc2.py is a vc2.py frame, the failure is classed as a parse failure, not internal *)
Theorem C26_vc2_frames_are_parse_failures : forall pre post,
  (forall f, In f post -> f = FOther) -> is_internal_error (pre ++ FVc2 :: post) = false.
Proof. exact not_internal_when_last_frame_in_vc2. Qed.

Example C26_example : is_internal_error [FOther; FViewer; FVc2; FOther] = false /\ is_internal_error [FVc2; FViewer] = true.
Proof. vm_compute. split; reflexivity. Qed.
