(* C23 -- Raw picture files round-trip and comparisons are exact.
   Property theorems only; each closed by `exact <lemma>`.
   Models: Model/FileFormat.v (file_format.py, dimensions_and_depths.py; intlog2 from
   Gen/VC2Math.v, regenerated from /repo on every run) and Model/Compare.v
   (scripts/vc2_picture_compare.py).  Tie: correspondence run tools/harness/C23.py
   (real files on disk, depths 1..64 and beyond).
   Not modelled (trusted): numpy element-wise arithmetic on object arrays, the json module,
   str()/int() of picture numbers, the file system, float PSNR/percentage formatting.
   Domain: every component has at least one sample (zero-sample components are not valid
   VC-2 formats); it is a hypothesis only where needed (`comps_nonempty`). *)
From Coq Require Import ZArith List Bool Lia.
From VC2 Require Import Base.PyZ Gen.StateRec Gen.VC2Math Gen.VideoParams Gen.BytesPerSample
  Model.FileFormat Model.Compare Proofs.FileFormatProofs Proofs.CompareProofs Proofs.DimsBridge.
Import ListNotations.
Open Scope Z_scope.

(* ---- samples: every depth >= 1, no upper bound ------------------------------------------------ *)
Theorem C23_sample_roundtrip : forall depth v : Z, 1 <= depth -> 0 <= v < 2 ^ depth ->
  unpack depth (pack depth v) = v.
Proof. exact sample_roundtrip. Qed.

Theorem C23_pack_length : forall depth v : Z,
  length (pack depth v) = Z.to_nat (bytes_per_sample depth) /\ Forall is_byte (pack depth v).
Proof. exact (fun depth v => conj (pack_length depth v) (pack_bytes depth v)). Qed.

(* bytes per sample: a power of two, enough for the depth, and the least such power *)
Theorem C23_bytes_per_sample : forall depth : Z, 1 <= depth ->
  bytes_per_sample depth = 2 ^ intlog2 ((depth + 7) / 8) /\
  depth <= 8 * bytes_per_sample depth /\
  (depth <= 8 -> bytes_per_sample depth = 1) /\
  (9 <= depth -> 8 * (bytes_per_sample depth / 2) < depth).
Proof.
  exact (fun depth H => conj (bytes_per_sample_pow2 depth)
          (conj (bytes_per_sample_enough depth H)
            (conj (fun H8 => bytes_per_sample_small depth (conj H H8)) (bytes_per_sample_smallest depth)))).
Qed.

(* reading masks the padding bits: only the low `depth` bits of the little-endian word count,
   whatever bytes the file holds; out-of-range values written are reduced modulo 2^depth *)
Theorem C23_unpack_masks_padding : forall depth bs, 1 <= depth -> Forall is_byte bs ->
  unpack depth bs = le_sum bs mod 2 ^ depth.
Proof. exact unpack_mod. Qed.

Theorem C23_out_of_range_wraps : forall depth v, 1 <= depth ->
  unpack depth (pack depth v) = v mod 2 ^ depth.
Proof. exact unpack_pack_mod. Qed.

(* ---- pictures -------------------------------------------------------------------------------------- *)
(* any list of component dimensions/depths (depths >= 1), any in-range picture of that shape,
   any following file content: reading returns the picture and leaves the rest unread *)
Theorem C23_picture_roundtrip : forall ds pic rest, depths_ok ds -> picture_ok ds pic = true ->
  read_picture ds (write_picture ds pic ++ rest) = Some (pic, rest).
Proof. exact picture_roundtrip. Qed.

(* with the dimensions the code computes from the video parameters (any excursions >= 1,
   i.e. any depth >= 1; any frame size, subsampling and coding mode) *)
Theorem C23_file_roundtrip : forall f pcm picnum pic,
  1 <= luma_excursion f -> 1 <= color_diff_excursion f ->
  let m := write_metadata f pcm picnum in
  picture_ok (dims_of m) pic = true ->
  read_metadata m = (f, pcm, picnum) /\
  read_whole m (write_picture (dims_of m) pic) = Some pic.
Proof.
  exact (fun f pcm picnum pic Hl Hc Hok =>
           conj eq_refl (read_whole_written (write_metadata f pcm picnum) pic
                           (compute_depths_ok f pcm Hl Hc) Hok)).
Qed.

(* picture numbers travel as decimal strings inside JSON: identity in the model (str/int/json trusted) *)
Theorem C23_picnum_string_roundtrip : forall n : Z, picnum_of_string (picnum_to_string n) = n.
Proof. exact (fun n => eq_refl). Qed.

(* whatever the file holds, samples read are within the component's depth *)
Theorem C23_read_in_range : forall depth n bytes vs rest, 1 <= depth -> Forall is_byte bytes ->
  read_samples depth n bytes = Some (vs, rest) ->
  Forall (fun v => 0 <= v < 2 ^ depth) vs /\ Forall is_byte rest.
Proof. exact read_samples_in_range. Qed.

(* ---- comparison tool --------------------------------------------------------------------------------- *)
(* two readable files with their own metadata: exit status 0 exactly when the metadata are
   equal and all samples are equal *)
Theorem C23_compare_identical_iff : forall a b fa fb pa pb,
  read_whole a fa = Some pa -> read_whole b fb = Some pb ->
  comps_nonempty (compute_dimensions_and_depths (m_format a) (m_pcm a)) ->
  (main_files (Some a) (Some b) (Some fa) (Some fb) = 0 <-> a = b /\ pa = pb).
Proof. exact compare_identical_iff. Qed.

(* the same for files produced by the writer from in-range pictures *)
Theorem C23_compare_written_identical_iff : forall a b pa pb,
  depths_ok (dims_of a) -> depths_ok (dims_of b) -> comps_nonempty (dims_of a) ->
  picture_ok (dims_of a) pa = true -> picture_ok (dims_of b) pb = true ->
  (main_files (Some a) (Some b) (Some (write_picture (dims_of a) pa)) (Some (write_picture (dims_of b) pb)) = 0
   <-> a = b /\ pa = pb).
Proof. exact compare_written_identical_iff. Qed.

(* exit 0 is never wrong, with no hypothesis at all (missing files, missing metadata, empty
   components included) *)
Theorem C23_compare_zero_sound : forall ma mb fa fb,
  main_files ma mb fa fb = 0 ->
  exists a b ba bb p, resolve_metadata ma mb = Some (a, b) /\ a = b /\
    fa = Some ba /\ fb = Some bb /\ read_whole a ba = Some p /\ read_whole b bb = Some p.
Proof. exact compare_zero_sound. Qed.

(* the per-component counts printed are the numbers of differing sample positions, they are all 0
   when the verdict is "identical" and at least one is positive when it is "different" *)
Theorem C23_compare_counts : forall a b fa fb rc counts,
  compare_pictures (Some a) (Some b) (Some fa) (Some fb) = Compared rc counts ->
  rc = 0 \/ rc = 4 ->
  exists pa pb, read_whole a fa = Some pa /\ read_whole b fb = Some pb /\
    m_format a = m_format b /\ m_pcm a = m_pcm b /\ m_picnum a = m_picnum b /\
    counts = picture_differing pa pb /\
    (rc = 0 -> Forall (fun c => c = 0) counts) /\
    (comps_nonempty (compute_dimensions_and_depths (m_format a) (m_pcm a)) ->
     rc = 4 -> Exists (fun c => 0 < c) counts).
Proof. exact compare_counts. Qed.

Theorem C23_differing_is_position_count : forall a b, length a = length b ->
  0 <= differing a b <= Z.of_nat (length a) /\ (differing a b = 0 <-> a = b).
Proof. exact (fun a b H => conj (differing_bounds a b) (differing_zero_iff a b H)). Qed.

(* a missing JSON file takes the other picture's metadata; both missing: exit 100 *)
Theorem C23_metadata_precedence : forall a fa fb,
  compare_pictures None (Some a) fa fb = compare_pictures (Some a) (Some a) fa fb /\
  compare_pictures (Some a) None fa fb = compare_pictures (Some a) (Some a) fa fb /\
  compare_pictures None None fa fb = Exit 100.
Proof. exact (fun a fa fb => conj eq_refl (conj eq_refl eq_refl)). Qed.

Theorem C23_exit_codes : forall ma mb fa fb,
  In (main_files ma mb fa fb) [0; 1; 2; 3; 4; 100; 101; 102].
Proof. exact compare_rc_values. Qed.

(* directory mode: exit 0 exactly when every pair compared identical; the summary counts add up *)
Theorem C23_directory_mode : forall rcs fin same diff, main_dirs rcs = (fin, same, diff) ->
  (fin = 0 <-> Forall (fun r => r = 0) rcs) /\ same + diff = Z.of_nat (length rcs) /\
  (fin = 0 <-> diff = 0).
Proof. exact main_dirs_zero_iff. Qed.

(* ---- tie T: the same statements over the functions TRANSLATED from the source on this run ------------------ *)
(* the model's component dimensions/depths/bytes-per-sample are exactly what compute_dimensions_and_depths
   computes through the translated pseudocode set_coding_parameters (Gen/VideoParams.v, from
   pseudocode/video_parameters.py) and its own bytes_per_sample statements (Gen/BytesPerSample.v), for every
   format and coding mode, and the translated code does not raise *)
Theorem C23_dimensions_match_source : forall f pcm,
  compute_dimensions_and_depths f pcm = source_dims f pcm /\
  set_coding_parameters_dom (state_of_pcm pcm) (vp_of_format f) = true.
Proof. exact dimensions_match_source. Qed.

Theorem C23_bytes_per_sample_matches_source : forall depth : Z,
  bytes_per_sample depth = bytes_per_sample_of_depth depth /\ bytes_per_sample_of_depth_dom depth = true.
Proof. exact bytes_per_sample_matches_source. Qed.

(* corollaries of C23_sample_roundtrip / C23_pack_length / C23_file_roundtrip over the translated definitions *)
Theorem C23_sample_roundtrip_source : forall depth v : Z, 1 <= depth -> 0 <= v < 2 ^ depth ->
  unpack depth (le_bytes (Z.to_nat (bytes_per_sample_of_depth depth)) v) = v.
Proof. exact sample_roundtrip_source. Qed.

Theorem C23_pack_length_source : forall depth v : Z,
  length (pack depth v) = Z.to_nat (bytes_per_sample_of_depth depth).
Proof. exact pack_length_source. Qed.

Theorem C23_file_roundtrip_source : forall f pcm pic rest,
  1 <= luma_excursion f -> 1 <= color_diff_excursion f ->
  picture_ok (source_dims f pcm) pic = true ->
  read_picture (source_dims f pcm) (write_picture (source_dims f pcm) pic ++ rest) = Some (pic, rest).
Proof. exact file_roundtrip_source. Qed.

(* ---- non-vacuity ---------------------------------------------------------------------------------------- *)
Example C23_example_pack :
  pack 10 1023 = [255; 3] /\ pack 17 65537 = [1; 0; 1; 0] /\ unpack 10 [255; 255] = 1023 /\
  bytes_per_sample 64 = 8 /\ bytes_per_sample 65 = 16 /\ bytes_per_sample 24 = 4.
Proof. vm_compute. repeat split; reflexivity. Qed.

Example C23_example_compare :
  let f := mkFormat 2 2 1 255 255 [] in
  let m := mkMeta f 0 7 in
  let ds := dims_of m in
  picture_ok ds [[1; 2; 3; 4]; [5; 6]; [7; 8]] = true /\
  compare_pictures (Some m) None (Some (write_picture ds [[1; 2; 3; 4]; [5; 6]; [7; 8]]))
                                 (Some (write_picture ds [[1; 2; 3; 4]; [5; 6]; [7; 8]])) = Compared 0 [0; 0; 0] /\
  compare_pictures (Some m) (Some m) (Some (write_picture ds [[1; 2; 3; 4]; [5; 6]; [7; 8]]))
                                 (Some (write_picture ds [[1; 0; 3; 0]; [5; 6]; [7; 9]])) = Compared 4 [2; 0; 1] /\
  main_dirs [0; 4; 0; 3; 0] = (3, 3, 2) /\
  map (fun d => [d_width d; d_height d; d_depth d; d_bps d]) (source_dims (mkFormat 8 4 2 1023 131071 []) 1)
    = [[8; 2; 10; 2]; [4; 1; 17; 4]; [4; 1; 17; 4]].
Proof. vm_compute. repeat split; reflexivity. Qed.
