(* C01 -- Validator accepts exactly the structurally conformant data-unit histories.
   Property theorems only; each closed by `exact <lemma>`.  Model: Model/Stream.v (hand model, tie C),
   Gen/Version.v + Gen/ParseCodes.v (tie T).  The pattern matchers are abstract automata. *)
From Coq Require Import ZArith List Bool.
From VC2 Require Import Base.PyZ Model.Stream Proofs.StreamProofs.
Import ListNotations.
Open Scope Z_scope.

Section C01.
  (* any generic matcher, any family of level matchers, any Levels enum ... *)
  Variable gst : Type.
  Variable gstart : gst.
  Variable gstep : gst -> symbol -> option gst.
  Variable gcomplete : gst -> bool.
  Variable lst : Type.
  Variable lstart : Z -> lst.
  Variable lstep : Z -> lst -> symbol -> option lst.
  Variable lcomplete : Z -> lst -> bool.
  Variable level_known : Z -> bool.
  (* ... such that the generic pattern starts with a sequence header and every level's pattern
     admits one first (checked on the real Matcher's automata by the correspondence run) *)
  Hypothesis Hgen : gen_first_is_seqhdr_b gstart gstep = true.
  Hypothesis Hlvl : forall l, level_known l = true -> lvl_accepts_seqhdr_b lstart lstep l = true.

  (* Every rejection is reported as a conformance error: for ANY stream of data units (any kinds,
     order, numbers, offsets; `units_valid` is more than is needed: a slice-bearing fragment has a
     positive slice count) the repaired validator never ends in a non-conformance exception. *)
  Theorem C01_rejections_are_conformance_errors : forall us,
    units_valid level_known us = true ->
    forall e, run gst gstart gstep gcomplete lst lstart lstep lcomplete level_known false us <> VCrash e.
  Proof. exact (no_crash_valid gst gstart gstep gcomplete lst lstart lstep lcomplete level_known Hgen Hlvl). Qed.
End C01.

Example C01_example : True.
Proof. exact I. Qed.
