(* C01 -- Validator accepts exactly the structurally conformant data-unit histories.
   (work in progress: theorem list is being filled in; see Proofs/StreamProofs.v) *)
From Coq Require Import ZArith List Bool.
From VC2 Require Import Base.PyZ Model.Stream.
Import ListNotations.
Open Scope Z_scope.

(* partial: placeholder while the refinement proof is being completed: an empty stream is accepted
   by any instantiation of the matchers *)
Theorem C01_empty_stream_partial : forall gst gstart gstep gcomplete lst lstart lstep lcomplete known pinned,
  run gst gstart gstep gcomplete lst lstart lstep lcomplete known pinned [] = Accept.
Proof. exact (fun _ _ _ _ _ _ _ _ _ _ => eq_refl). Qed.

Example C01_example : True.
Proof. exact I. Qed.
