(* C01 -- Validator accepts exactly the structurally conformant data-unit histories.
   Property theorems only; each closed by `exact <lemma>`.  Model: Model/Stream.v (hand model, tie C),
   Gen/Version.v + Gen/ParseCodes.v (tie T).  The pattern matchers are abstract automata. *)
From Coq Require Import ZArith List Bool.
From VC2 Require Import Base.PyZ Model.Stream Proofs.StreamProofs Proofs.StreamRefine Proofs.StreamLift.
Import ListNotations.
Open Scope Z_scope.

Section C01.
  (* any generic matcher, any family of level matchers, any Levels enum ... *)
  Variable gst : Type.
  Variable gstart : gst.
  Variable gstep : gst -> symbol -> option gst.
  Variable gcomplete : gst -> bool.
  Variable lst : Type.
  Variable lstart : Z -> lst.
  Variable lstep : Z -> lst -> symbol -> option lst.
  Variable lcomplete : Z -> lst -> bool.
  Variable level_known : Z -> bool.
  (* ... such that the generic pattern starts with a sequence header and every level's pattern
     admits one first (checked on the real Matcher's automata by the correspondence run) *)
  Hypothesis Hgen : gen_first_is_seqhdr_b gstart gstep = true.
  Hypothesis Hlvl : forall l, level_known l = true -> lvl_accepts_seqhdr_b lstart lstep l = true.

  (* The validator (repaired behaviour) accepts a sequence of individually valid data units if
     and only if all ten stream-structure rules hold -- for unit lists of ANY length.  `one_sequence`:
     the list is one sequence of a stream (non-empty, nothing follows an end of sequence); the
     stream-level statement is C01_stream_lift below. *)
  Theorem C01_iff : forall us,
    units_valid level_known us = true -> one_sequence us = true ->
    (run gst gstart gstep gcomplete lst lstart lstep lcomplete level_known false us = Accept <->
     rules_ok gst gstart gstep gcomplete lst lstart lstep lcomplete us = true).
  Proof. exact (iff_one_sequence gst gstart gstep gcomplete lst lstart lstep lcomplete level_known Hgen). Qed.

  (* Every rejection is reported as a conformance error: for ANY stream of data units (any kinds,
     order, numbers, offsets; `units_valid` is more than is needed: a slice-bearing fragment has a
     positive slice count) the repaired validator never ends in a non-conformance exception. *)
  Theorem C01_rejections_are_conformance_errors : forall us,
    units_valid level_known us = true ->
    forall e, run gst gstart gstep gcomplete lst lstart lstep lcomplete level_known false us <> VCrash e.
  Proof. exact (no_crash_valid gst gstart gstep gcomplete lst lstart lstep lcomplete level_known Hgen Hlvl). Qed.

  (* Streams: a concatenation of complete sequences (each ends with its only end-of-sequence unit) is
     accepted iff every sequence is accepted on its own ... *)
  Theorem C01_stream_lift : forall seqs, Forall (fun s => eos_only_last s = true) seqs ->
    (run_stream gst gstart gstep gcomplete lst lstart lstep lcomplete level_known false seqs = Accept <->
     Forall (fun s => run gst gstart gstep gcomplete lst lstart lstep lcomplete level_known false s = Accept) seqs).
  Proof. exact (stream_lift gst gstart gstep gcomplete lst lstart lstep lcomplete level_known false). Qed.

  (* ... i.e. iff every sequence obeys the ten rules *)
  Theorem C01_stream_iff : forall seqs,
    Forall (fun s => eos_only_last s = true) seqs -> Forall (fun s => units_valid level_known s = true) seqs ->
    (run_stream gst gstart gstep gcomplete lst lstart lstep lcomplete level_known false seqs = Accept <->
     Forall (fun s => rules_ok gst gstart gstep gcomplete lst lstart lstep lcomplete s = true) seqs).
  Proof. exact (stream_iff_rules gst gstart gstep gcomplete lst lstart lstep lcomplete level_known Hgen). Qed.
End C01.

(* ---- non-vacuity, and the pinned tree's two defects, on a small concrete instance:
   generic automaton = "sequence_header .* end_of_sequence", no level restriction *)
Definition ex_gstep (s : Z) (sym : symbol) : option Z :=
  if s =? 0 then (match sym with SSeqHdr => Some 1 | _ => None end)
  else match sym with SEos => Some 2 | _ => Some 1 end.
Definition ex_run (pinned : bool) :=
  run Z 0 ex_gstep (fun s => s =? 2) unit (fun _ => tt) (fun _ _ _ => Some tt) (fun _ _ => true) (fun _ => true) pinned.
Definition ex_rules :=
  rules_ok Z 0 ex_gstep (fun s => s =? 2) unit (fun _ => tt) (fun _ _ _ => Some tt) (fun _ _ => true).
Definition ex_hdr := mkUnit (KSeqHdr (mkHdr 1 3 3 0 0 1)) 20 20 0.
Definition ex_tp := mkTp 4 4 0 2 1.

(* a conformant fragmented picture is accepted, and all ten rules hold *)
Example C01_example_accept :
  let us := [ex_hdr; mkUnit (KFragFirst true 7 ex_tp) 30 30 20; mkUnit (KFragData true 7 1 0 0) 40 0 30;
             mkUnit (KFragData true 7 1 1 0) 40 40 40; mkUnit KEos 13 0 40] in
  units_valid (fun _ => true) us = true /\ one_sequence us = true /\ ex_run false us = Accept /\ ex_rules us = true.
Proof. vm_compute. repeat split. Qed.

(* dropping the second slice fragment is rejected, by the validator and by the rules *)
Example C01_example_reject :
  let us := [ex_hdr; mkUnit (KFragFirst true 7 ex_tp) 30 30 20; mkUnit (KFragData true 7 1 0 0) 40 0 30;
             mkUnit KEos 13 0 40] in
  units_valid (fun _ => true) us = true /\
  ex_run false us = VReject SequenceContainsIncompleteFragmentedPicture /\ ex_rules us = false.
Proof. vm_compute. repeat split. Qed.

(* the behaviour of the PINNED tree violates "every rejection is a conformance error" (defects repaired
   by fixes/C01-fragment-without-first.diff and fixes/C02-parse-info-unbound.diff) *)
Theorem C01_pinned_fragment_header_refuted : exists us,
  units_valid (fun _ => true) us = true /\ ex_run true us = VCrash KeyError_last_picture_number.
Proof. exists [ex_hdr; mkUnit (KFragData true 7 1 0 0) 40 40 20; mkUnit KEos 13 0 40]. vm_compute. split; reflexivity. Qed.

Theorem C01_pinned_parse_info_refuted : exists us,
  units_valid (fun _ => true) us = true /\ ex_run true us = VCrash UnboundLocalError_true_parse_offset.
Proof.
  exists [ex_hdr; mkUnit (KPic true 7 ex_tp) 30 0 20; mkUnit KEos 13 0 5]. vm_compute. split; reflexivity.
Qed.
