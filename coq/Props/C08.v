(* C08 -- Bitstream deserialiser and validator read identical content.
   Property theorems only.  Model: Model/Slices.v (both slice readers, hand model tied to the code by the
   correspondence run) over Gen/SliceSizes.v, Gen/Quant.v, Gen/VC2Math.v, Gen/ParseCodes.v (regenerated from
   /repo on every run).  d_ = validator (decoder/transform_data_syntax.py over decoder/io.py),
   s_ = deserialiser (bitstream/vc2.py over bitstream/io.py bounded blocks). *)
From Coq Require Import ZArith List Bool.
From VC2 Require Import Base.PyZ Gen.StateRec Gen.VC2Math Gen.SliceSizes Gen.Quant Gen.ParseCodes
  Model.Slices Proofs.SlicesProofs Corr.C08.
Import ListNotations.
Open Scope Z_scope.

(* For ALL bit strings, slice coordinates, slice parameters (dimensions, depths, slice counts, slice_bytes
   fraction, prefix bytes, quantisation matrix; slice_size_scaler >= 0 as any value read by read_uint is) and
   every fuel: when the validator's slice reader succeeds, the deserialiser's reader succeeds on the same
   bits, leaves the same unread bits (= consumes the same number), stores exactly one coefficient per slot of
   the slice, and its raw coefficients dequantised with max(qindex - matrix, 0) are the validator's
   assignments into y/c1/c2_transform (before DC prediction), in the same order. *)
Theorem C08_slices_agree : forall fuel p sx sy bs d,
  0 <= sp_size_scaler p ->
  d_slice fuel p sx sy bs = Ok d ->
  exists s, s_slice fuel p sx sy bs = Ok s /\
            s_rest s = d_rest d /\
            length (concat (s_coeffs s)) = length (slice_slots p sx sy) /\
            s_dequantised p sx sy s = d_writes d.
Proof. exact slices_agree. Qed.

Theorem C08_qindex_lengths_agree : forall fuel p sx sy bs d,
  0 <= sp_size_scaler p ->
  d_slice fuel p sx sy bs = Ok d ->
  exists s, s_slice fuel p sx sy bs = Ok s /\ s_qindex s = d_qindex d /\ s_lengths s = d_lengths d.
Proof. exact qindex_lengths_agree. Qed.

(* the other direction: unless the validator raises InvalidSliceYLength, the two readers succeed together
   and fail together with the same error (end of stream) *)
Theorem C08_slices_agree_converse : forall fuel p sx sy bs,
  0 <= sp_size_scaler p ->
  d_slice fuel p sx sy bs <> Err BadYLen ->
  (forall s, s_slice fuel p sx sy bs = Ok s ->
     exists d, d_slice fuel p sx sy bs = Ok d /\ s_rest s = d_rest d /\ s_dequantised p sx sy s = d_writes d) /\
  (forall e, s_slice fuel p sx sy bs = Err e <-> d_slice fuel p sx sy bs = Err e).
Proof. exact slices_agree_converse. Qed.

(* InvalidSliceYLength vs clamping: the deserialiser never raises it; the validator raises it exactly when
   the qindex and slice_y_length fields are readable and slice_y_length exceeds the bits left in the slice
   (8*slice_bytes - 7 - intlog2(8*slice_bytes - 7)) -- precisely the condition under which the deserialiser
   replaces slice_y_length by that number of bits.  High quality slices never raise it. *)
Theorem C08_bad_y_length_complementary : forall fuel p sx sy bs,
  s_slice fuel p sx sy bs <> Err BadYLen /\
  d_hq_slice fuel p sx sy bs <> Err BadYLen /\
  (d_ld_slice fuel p sx sy bs = Err BadYLen <->
   exists q bs1 syl bs2,
     s_read_nbits 7 bs = Ok (q, bs1) /\
     s_read_nbits (intlog2 (8 * slice_bytes (sp_st p) sx sy - 7)) bs1 = Ok (syl, bs2) /\
     (syl >? ld_bits_left p sx sy) = true).
Proof.
  exact (fun fuel p sx sy bs => conj (s_slice_never_bad_length fuel p sx sy bs)
           (conj (d_hq_slice_nb fuel p sx sy bs) (d_ld_bad_length_iff fuel p sx sy bs))).
Qed.

(* Bits after the last coefficient inside a bounded block do not affect the coefficients: if a block of the
   validator (bits_left := len; the bands of one component / of the two colour-difference components;
   flush_inputb) succeeds, the input splits as used ++ pad ++ rest where pad are exactly the bits_left bits
   flushed after the last coefficient, and replacing pad (and what follows) by ANY bits of the same length
   gives the same coefficients. *)
Theorem padding_bits_irrelevant : forall fuel ps comp qz sx sy len bs ws rest,
  d_comp_block fuel ps comp qz sx sy len bs = Ok (ws, rest) ->
  exists used pad bl',
    bs = used ++ pad ++ rest /\
    d_comp_bands fuel ps comp qz sx sy (len, bs) = Ok (ws, (bl', pad ++ rest)) /\
    length pad = Z.to_nat bl' /\
    forall pad' rest', length pad' = length pad ->
      d_comp_block fuel ps comp qz sx sy len (used ++ pad' ++ rest') = Ok (ws, rest').
Proof. exact padding_irrelevant_comp. Qed.

Theorem padding_bits_irrelevant_chroma : forall fuel ps qz sx sy len bs ws rest,
  d_chroma_block fuel ps qz sx sy len bs = Ok (ws, rest) ->
  exists used pad bl',
    bs = used ++ pad ++ rest /\
    d_chroma_bands fuel ps qz sx sy (len, bs) = Ok (ws, (bl', pad ++ rest)) /\
    length pad = Z.to_nat bl' /\
    forall pad' rest', length pad' = length pad ->
      d_chroma_block fuel ps qz sx sy len (used ++ pad' ++ rest') = Ok (ws, rest').
Proof. exact padding_irrelevant_chroma. Qed.

(* fuel: S (length bits) units always suffice (the out-of-fuel result of the model is never an artefact) *)
Theorem C08_fuel_sufficient : forall fuel p sx sy bs,
  (length bs < fuel)%nat ->
  d_slice fuel p sx sy bs <> Err OutOfFuel /\
  (0 <= sp_size_scaler p -> d_slice fuel p sx sy bs <> Err BadYLen -> s_slice fuel p sx sy bs <> Err OutOfFuel).
Proof.
  exact (fun fuel p sx sy bs H => conj (d_slice_fuel_sufficient fuel p sx sy bs H)
           (fun Hsc Hnb => s_slice_fuel_sufficient fuel p sx sy bs Hsc Hnb H)).
Qed.

(* a whole transform_data (coords = slice_coords) or fragment_data (coords = fragment_coords): when the
   validator reads all the slices, the deserialiser reads them from the same bits, ends at the same position,
   and slice by slice its dequantised coefficients are the validator's assignments.  The transform arrays
   (and dc_prediction of them) are the same function of these assignment lists on both sides. *)
Theorem C08_transform_data_agree : forall fuel p, 0 <= sp_size_scaler p -> forall coords bs ds rest,
  d_slices fuel p coords bs = Ok (ds, rest) ->
  exists ss, s_slices fuel p coords bs = Ok (ss, rest) /\
             length ss = length coords /\
             map (fun cs => s_dequantised p (fst (fst cs)) (snd (fst cs)) (snd cs)) (combine coords ss) = map d_writes ds /\
             map s_qindex ss = map d_qindex ds /\ map s_lengths ss = map d_lengths ds.
Proof. exact slices_seq_agree. Qed.

(* non-vacuity: an HQ slice (8x4 luma, 4:4:4, depth 1, 2x1 slices) with a coefficient, padding bits and a
   dangling value is read by both readers; the deserialiser stores -16 raw, the validator -41 dequantised *)
Example C08_example :
  let p := mk_case_params [8;4;8;4;1;0;2;1;0;1;232] [0;1] [[0];[0;0;0]] in
  let bs := bits_of_bytes [5;1;128;1;255;0] in
  exists d, d_slice (fuel_for bs) p 0 0 bs = Ok d /\ d_qindex d = 5 /\ d_lengths d = [1;1;0] /\ d_rest d = [] /\
            nth 1 (d_writes d) ((Str_Y, 0, LL, 0, 0), 0) = ((Str_Y, 0, LL, 0, 1), -41).
Proof. vm_compute. eexists. repeat split; reflexivity. Qed.

(* non-vacuity of the complementary case: a low-delay slice whose slice_y_length field (127) exceeds the
   66 bits left: the validator raises InvalidSliceYLength, the deserialiser clamps and reads on *)
Example C08_example_bad_length :
  let p := mk_case_params [8;4;8;4;1;0;2;1;10;1;200] [0;1] [[0];[0;0;0]] in
  let bs := bits_of_bytes [1;255;0;0;0;0;0;0;0;0] in
  d_slice (fuel_for bs) p 0 0 bs = Err BadYLen /\
  exists s, s_slice (fuel_for bs) p 0 0 bs = Ok s /\ s_lengths s = [127] /\ s_rest s = [].
Proof. vm_compute. split; [reflexivity|]. eexists. repeat split; reflexivity. Qed.

(* the hypothesis 0 <= slice_size_scaler of the theorems above cannot be dropped (it holds for every value
   the stream can carry: read_uint is non-negative): with a negative scaler the validator's bits_left starts
   negative and never reaches 0, whereas the deserialiser's block is simply empty *)
Example C08_refuted_for_negative_scaler :
  exists p sx sy bs d s, sp_size_scaler p < 0 /\ d_slice (fuel_for bs) p sx sy bs = Ok d /\
                         s_slice (fuel_for bs) p sx sy bs = Ok s /\ s_lengths s <> d_lengths d.
Proof.
  exists (mk_case_params [8;4;8;4;1;0;2;1;0;1;232] [0;-1] [[0];[0;0;0]]), 0, 0, (bits_of_bytes [0;1;255;255;0;0]).
  vm_compute. eexists. eexists. repeat split; try reflexivity. discriminate.
Qed.
