(* C08 -- Bitstream deserialiser and validator read identical content.
   Property theorems only.  Model: Model/Slices.v (both slice readers, hand model tied to the code by the
   correspondence run) over Gen/SliceSizes.v, Gen/Quant.v, Gen/VC2Math.v, Gen/ParseCodes.v (regenerated from
   /repo on every run).  d_ = validator (decoder/transform_data_syntax.py over decoder/io.py),
   s_ = deserialiser (bitstream/vc2.py over bitstream/io.py bounded blocks). *)
From Coq Require Import ZArith List Bool.
From VC2 Require Import Base.PyZ Gen.StateRec Gen.VC2Math Gen.SliceSizes Gen.Quant Gen.ParseCodes
  Model.Slices Proofs.SlicesProofs Corr.C08.
Import ListNotations.
Open Scope Z_scope.

(* For ALL bit strings, slice coordinates, slice parameters (dimensions, depths, slice counts, slice_bytes
   fraction, prefix bytes, quantisation matrix; slice_size_scaler >= 0 as any value read by read_uint is) and
   every fuel: when the validator's slice reader succeeds, the deserialiser's reader succeeds on the same
   bits, leaves the same unread bits (= consumes the same number), stores exactly one coefficient per slot of
   the slice, and its raw coefficients dequantised with max(qindex - matrix, 0) are the validator's
   assignments into y/c1/c2_transform (before DC prediction), in the same order. *)
Theorem C08_slices_agree : forall fuel p sx sy bs d,
  0 <= sp_size_scaler p ->
  d_slice fuel p sx sy bs = Ok d ->
  exists s, s_slice fuel p sx sy bs = Ok s /\
            s_rest s = d_rest d /\
            length (concat (s_coeffs s)) = length (slice_slots p sx sy) /\
            s_dequantised p sx sy s = d_writes d.
Proof. exact slices_agree. Qed.

Theorem C08_qindex_lengths_agree : forall fuel p sx sy bs d,
  0 <= sp_size_scaler p ->
  d_slice fuel p sx sy bs = Ok d ->
  exists s, s_slice fuel p sx sy bs = Ok s /\ s_qindex s = d_qindex d /\ s_lengths s = d_lengths d.
Proof. exact qindex_lengths_agree. Qed.

(* the other direction: unless the validator raises InvalidSliceYLength, the two readers succeed together
   and fail together with the same error (end of stream) *)
Theorem C08_slices_agree_converse : forall fuel p sx sy bs,
  0 <= sp_size_scaler p ->
  d_slice fuel p sx sy bs <> Err BadYLen ->
  (forall s, s_slice fuel p sx sy bs = Ok s ->
     exists d, d_slice fuel p sx sy bs = Ok d /\ s_rest s = d_rest d /\ s_dequantised p sx sy s = d_writes d) /\
  (forall e, s_slice fuel p sx sy bs = Err e <-> d_slice fuel p sx sy bs = Err e).
Proof. exact slices_agree_converse. Qed.

(* non-vacuity: an HQ slice (8x4 luma, 4:4:4, depth 1, 2x1 slices) with a coefficient, padding bits and a
   dangling value is read by both readers; the deserialiser stores -16 raw, the validator -41 dequantised *)
Example C08_example :
  let p := mk_case_params [8;4;8;4;1;0;2;1;0;1;232] [0;1] [[0];[0;0;0]] in
  let bs := bits_of_bytes [5;1;128;1;255;0] in
  exists d, d_slice (fuel_for bs) p 0 0 bs = Ok d /\ d_qindex d = 5 /\ d_lengths d = [1;1;0] /\ d_rest d = [] /\
            nth 1 (d_writes d) ((Str_Y, 0, LL, 0, 0), 0) = ((Str_Y, 0, LL, 0, 1), -41).
Proof. vm_compute. eexists. repeat split; reflexivity. Qed.
