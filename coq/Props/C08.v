(* C08 -- Bitstream deserialiser and validator read identical content.
   Property theorems only.  Model: Model/Slices.v (both slice readers, hand model tied to the code by the
   correspondence run) over Gen/SliceSizes.v, Gen/Quant.v, Gen/VC2Math.v, Gen/ParseCodes.v (regenerated from
   /repo on every run).  d_ = validator (decoder/transform_data_syntax.py over decoder/io.py),
   s_ = deserialiser (bitstream/vc2.py over bitstream/io.py bounded blocks). *)
From Coq Require Import ZArith List Bool.
From VC2 Require Import Base.PyZ Gen.StateRec Gen.VC2Math Gen.SliceSizes Gen.Quant Gen.ParseCodes
  Model.Slices Proofs.SlicesProofs Corr.C08.
Import ListNotations.
Open Scope Z_scope.

(* For ALL bit strings, slice coordinates, slice parameters (dimensions, depths, slice counts, slice_bytes
   fraction, prefix bytes, quantisation matrix; slice_size_scaler >= 0 as any value read by read_uint is) and
   every fuel: when the validator's slice reader succeeds, the deserialiser's reader succeeds on the same
   bits, leaves the same unread bits (= consumes the same number), stores exactly one coefficient per slot of
   the slice, and its raw coefficients dequantised with max(qindex - matrix, 0) are the validator's
   assignments into y/c1/c2_transform (before DC prediction), in the same order. *)
Theorem C08_slices_agree : forall fuel p sx sy bs d,
  0 <= sp_size_scaler p ->
  d_slice fuel p sx sy bs = Ok d ->
  exists s, s_slice fuel p sx sy bs = Ok s /\
            s_rest s = d_rest d /\
            length (concat (s_coeffs s)) = length (slice_slots p sx sy) /\
            s_dequantised p sx sy s = d_writes d.
Proof. exact slices_agree. Qed.

Theorem C08_qindex_lengths_agree : forall fuel p sx sy bs d,
  0 <= sp_size_scaler p ->
  d_slice fuel p sx sy bs = Ok d ->
  exists s, s_slice fuel p sx sy bs = Ok s /\ s_qindex s = d_qindex d /\ s_lengths s = d_lengths d.
Proof. exact qindex_lengths_agree. Qed.

(* the other direction: unless the validator raises InvalidSliceYLength, the two readers succeed together
   and fail together with the same error (end of stream) *)
Theorem C08_slices_agree_converse : forall fuel p sx sy bs,
  0 <= sp_size_scaler p ->
  d_slice fuel p sx sy bs <> Err BadYLen ->
  (forall s, s_slice fuel p sx sy bs = Ok s ->
     exists d, d_slice fuel p sx sy bs = Ok d /\ s_rest s = d_rest d /\ s_dequantised p sx sy s = d_writes d) /\
  (forall e, s_slice fuel p sx sy bs = Err e <-> d_slice fuel p sx sy bs = Err e).
Proof. exact slices_agree_converse. Qed.

(* InvalidSliceYLength vs clamping: the deserialiser never raises it; the validator raises it exactly when
   the qindex and slice_y_length fields are readable and slice_y_length exceeds the bits left in the slice
   (8*slice_bytes - 7 - intlog2(8*slice_bytes - 7)) -- precisely the condition under which the deserialiser
   replaces slice_y_length by that number of bits.  High quality slices never raise it. *)
Theorem C08_bad_y_length_complementary : forall fuel p sx sy bs,
  s_slice fuel p sx sy bs <> Err BadYLen /\
  d_hq_slice fuel p sx sy bs <> Err BadYLen /\
  (d_ld_slice fuel p sx sy bs = Err BadYLen <->
   exists q bs1 syl bs2,
     s_read_nbits 7 bs = Ok (q, bs1) /\
     s_read_nbits (intlog2 (8 * slice_bytes (sp_st p) sx sy - 7)) bs1 = Ok (syl, bs2) /\
     (syl >? ld_bits_left p sx sy) = true).
Proof.
  exact (fun fuel p sx sy bs => conj (s_slice_never_bad_length fuel p sx sy bs)
           (conj (d_hq_slice_nb fuel p sx sy bs) (d_ld_bad_length_iff fuel p sx sy bs))).
Qed.

(* Bits after the last coefficient inside a bounded block do not affect the coefficients: if a block of the
   validator (bits_left := len; the bands of one component / of the two colour-difference components;
   flush_inputb) succeeds, the input splits as used ++ pad ++ rest where pad are exactly the bits_left bits
   flushed after the last coefficient, and replacing pad (and what follows) by ANY bits of the same length
   gives the same coefficients. *)
Theorem padding_bits_irrelevant : forall fuel ps comp qz sx sy len bs ws rest,
  d_comp_block fuel ps comp qz sx sy len bs = Ok (ws, rest) ->
  exists used pad bl',
    bs = used ++ pad ++ rest /\
    d_comp_bands fuel ps comp qz sx sy (len, bs) = Ok (ws, (bl', pad ++ rest)) /\
    length pad = Z.to_nat bl' /\
    forall pad' rest', length pad' = length pad ->
      d_comp_block fuel ps comp qz sx sy len (used ++ pad' ++ rest') = Ok (ws, rest').
Proof. exact padding_irrelevant_comp. Qed.

Theorem padding_bits_irrelevant_chroma : forall fuel ps qz sx sy len bs ws rest,
  d_chroma_block fuel ps qz sx sy len bs = Ok (ws, rest) ->
  exists used pad bl',
    bs = used ++ pad ++ rest /\
    d_chroma_bands fuel ps qz sx sy (len, bs) = Ok (ws, (bl', pad ++ rest)) /\
    length pad = Z.to_nat bl' /\
    forall pad' rest', length pad' = length pad ->
      d_chroma_block fuel ps qz sx sy len (used ++ pad' ++ rest') = Ok (ws, rest').
Proof. exact padding_irrelevant_chroma. Qed.

(* fuel: S (length bits) units always suffice (the out-of-fuel result of the model is never an artefact) *)
Theorem C08_fuel_sufficient : forall fuel p sx sy bs,
  (length bs < fuel)%nat ->
  d_slice fuel p sx sy bs <> Err OutOfFuel /\
  (0 <= sp_size_scaler p -> d_slice fuel p sx sy bs <> Err BadYLen -> s_slice fuel p sx sy bs <> Err OutOfFuel).
Proof.
  exact (fun fuel p sx sy bs H => conj (d_slice_fuel_sufficient fuel p sx sy bs H)
           (fun Hsc Hnb => s_slice_fuel_sufficient fuel p sx sy bs Hsc Hnb H)).
Qed.

(* a whole transform_data (coords = slice_coords) or fragment_data (coords = fragment_coords): when the
   validator reads all the slices, the deserialiser reads them from the same bits, ends at the same position,
   and slice by slice its dequantised coefficients are the validator's assignments.  The transform arrays
   (and dc_prediction of them) are the same function of these assignment lists on both sides. *)
Theorem C08_transform_data_agree : forall fuel p, 0 <= sp_size_scaler p -> forall coords bs ds rest,
  d_slices fuel p coords bs = Ok (ds, rest) ->
  exists ss, s_slices fuel p coords bs = Ok (ss, rest) /\
             length ss = length coords /\
             map (fun cs => s_dequantised p (fst (fst cs)) (snd (fst cs)) (snd cs)) (combine coords ss) = map d_writes ds /\
             map s_qindex ss = map d_qindex ds /\ map s_lengths ss = map d_lengths ds.
Proof. exact slices_seq_agree. Qed.

(* non-vacuity: an HQ slice (8x4 luma, 4:4:4, depth 1, 2x1 slices) with a coefficient, padding bits and a
   dangling value is read by both readers; the deserialiser stores -16 raw, the validator -41 dequantised *)
Example C08_example :
  let p := mk_case_params [8;4;8;4;1;0;2;1;0;1;232] [0;1] [[0];[0;0;0]] in
  let bs := bits_of_bytes [5;1;128;1;255;0] in
  exists d, d_slice (fuel_for bs) p 0 0 bs = Ok d /\ d_qindex d = 5 /\ d_lengths d = [1;1;0] /\ d_rest d = [] /\
            nth 1 (d_writes d) ((Str_Y, 0, LL, 0, 0), 0) = ((Str_Y, 0, LL, 0, 1), -41).
Proof. vm_compute. eexists. repeat split; reflexivity. Qed.

(* non-vacuity of the complementary case: a low-delay slice whose slice_y_length field (127) exceeds the
   66 bits left: the validator raises InvalidSliceYLength, the deserialiser clamps and reads on *)
Example C08_example_bad_length :
  let p := mk_case_params [8;4;8;4;1;0;2;1;10;1;200] [0;1] [[0];[0;0;0]] in
  let bs := bits_of_bytes [1;255;0;0;0;0;0;0;0;0] in
  d_slice (fuel_for bs) p 0 0 bs = Err BadYLen /\
  exists s, s_slice (fuel_for bs) p 0 0 bs = Ok s /\ s_lengths s = [127] /\ s_rest s = [].
Proof. vm_compute. split; [reflexivity|]. eexists. repeat split; reflexivity. Qed.

(* the hypothesis 0 <= slice_size_scaler of the theorems above cannot be dropped (it holds for every value
   the stream can carry: read_uint is non-negative): with a negative scaler the validator's bits_left starts
   negative and never reaches 0, whereas the deserialiser's block is simply empty *)
Example C08_refuted_for_negative_scaler :
  exists p sx sy bs d s, sp_size_scaler p < 0 /\ d_slice (fuel_for bs) p sx sy bs = Ok d /\
                         s_slice (fuel_for bs) p sx sy bs = Ok s /\ s_lengths s <> d_lengths d.
Proof.
  exists (mk_case_params [8;4;8;4;1;0;2;1;0;1;232] [0;-1] [[0];[0;0;0]]), 0, 0, (bits_of_bytes [0;1;255;255;0;0]).
  vm_compute. eexists. eexists. repeat split; try reflexivity. discriminate.
Qed.

(* =====================================================================================================
   HEADER AGREEMENT (appended by the C02 stage-2 engineer).  Proofs/HeadersAgree.v.
   The validator's bit-level header reader (Model/Headers.v, property C02) and the deserialiser's description
   (Model/SerDesVC2.v sequence_header_prog, run by the SerDes interpreter of Model/SerDes.v, properties C21/C06)
   are two independently written models, each tied to its own Python code by its own correspondence run.
   COVERED: the whole (11.1) sequence_header = parse_parameters, base_video_format, all eight custom-override
   blocks of source_parameters (frame_size, color_diff_sampling_format, scan_format, frame_rate,
   pixel_aspect_ratio, clean_area, signal_range, color_spec with color_primaries / color_matrix /
   transfer_function), picture_coding_mode.
   and the (14.2) fragment_header (C08_fragment_header_agree at the end of this file).
   NOT COVERED (Model/SerDesVC2.v has no description of them): picture_header, transform_parameters
   (extended_transform_parameters, slice_parameters, quant_matrix); parse_info (the description exists inside
   unit_prog, not attempted) -- for these the header agreement stays oracle-only (tools/harness/C08.py).
   ===================================================================================================== *)
From VC2 Require Import Model.SerDes Model.SerDesVC2.
From VC2 Require Import Model.Headers Proofs.HeadersAgree.

(* For EVERY state s of the validator (any unread bit string, any position, any previous level history), all
   tables, all level predicates and any fuel: whenever the validator reads a sequence header without a
   conformance error (HOk), the Deserialiser run on the same unread bits (i) succeeds -- it never fails where the
   validator succeeds --, (ii) is left with the same unread bits at the same bit position (consumed the same
   number of bits), (iii) produces the context  SequenceHeader{parse_parameters{major, minor, profile, level},
   base_video_format, video_parameters = Gsp, picture_coding_mode}  and (iv) the validator's
   _level_constrained_values -- the dictionary in which assert_level_constraint records every coded field of the
   header: the four parse parameters, base_video_format, every custom_*_flag, every preset index, every custom
   value, picture_coding_mode -- is exactly the previous dictionary with the deserialised fields inserted under
   their level-constraint names (HeadersAgree.key_of), in stream order except that the validator asserts the parse
   parameters in the order level, profile, major_version, minor_version; (v) state["picture_coding_mode"] is the
   deserialised field. *)
Theorem C08_sequence_header_agree : forall T lvl fuel s s',
  Headers.sequence_header T lvl fuel s = Headers.HOk (tt, s') ->
  exists a b c d bvf Gsp pcm st',
    SerDes.run SerDes.des_step sequence_header_prog
      (SerDes.mkst 0 [] [] [] (HeadersAgree.io_of (Headers.s_rd s))) = SerDes.Ok (tt, st') /\
    SerDes.sio st' = HeadersAgree.io_of (Headers.s_rd s') /\
    SerDes.root st' = SerDes.VC 10 (HeadersAgree.seqhdr_context a b c d bvf Gsp pcm) /\
    HeadersAgree.lcvh s' =
      fold_left HeadersAgree.hset' (HeadersAgree.seqhdr_level_values a b c d bvf Gsp pcm) (HeadersAgree.lcvh s) /\
    Headers.s_st s' Headers.S_picture_coding_mode = Some pcm.
Proof. exact HeadersAgree.sequence_header_agree. Qed.

(* the same with the real entry point `run_des` (a fresh Deserialiser on the bit list), validator at bit 0 *)
Theorem C08_sequence_header_agree_run_des : forall T lvl fuel s s',
  Headers.r_pos (Headers.s_rd s) = 0 ->
  Headers.sequence_header T lvl fuel s = Headers.HOk (tt, s') ->
  exists a b c d bvf Gsp pcm st',
    SerDes.run_des sequence_header_prog (Headers.r_bits (Headers.s_rd s)) = SerDes.Ok (tt, st') /\
    SerDes.bits (SerDes.sio st') = Headers.r_bits (Headers.s_rd s') /\
    SerDes.pos (SerDes.sio st') = Headers.r_pos (Headers.s_rd s') /\
    SerDes.root st' = SerDes.VC 10 (HeadersAgree.seqhdr_context a b c d bvf Gsp pcm) /\
    HeadersAgree.lcvh s' =
      fold_left HeadersAgree.hset' (HeadersAgree.seqhdr_level_values a b c d bvf Gsp pcm) (HeadersAgree.lcvh s) /\
    Headers.s_st s' Headers.S_picture_coding_mode = Some pcm.
Proof. exact HeadersAgree.sequence_header_agree_run_des. Qed.

(* the generic half, reusable for further descriptions: on every well-formed simple description (uint, uint_lit,
   flag-guarded block, preset-index-guarded block, subcontext, sequence) the Deserialiser interpreter -- context
   stack, holes, set_context_type patching, index bookkeeping, verification when a context is left -- does what the
   obvious reading `sem` says *)
Theorem C08_deserialiser_refines_simple_descriptions : forall d ty F stk r F' r',
  HeadersAgree.wf d = true -> (forall t, In t (HeadersAgree.targets d) -> ~ In t (HeadersAgree.keys F)) ->
  HeadersAgree.simple F -> SerDes.rem r = None ->
  HeadersAgree.sem d F r = Some (F', r') ->
  SerDes.run SerDes.des_step (HeadersAgree.compile d) (HeadersAgree.mk ty F stk r) =
    SerDes.Ok (tt, HeadersAgree.mk ty F' stk r') /\ HeadersAgree.simple F' /\ SerDes.rem r' = None.
Proof. exact HeadersAgree.des_refines. Qed.

(* field-by-field reading of (iv): pairs with distinct keys inserted into a dictionary can each be looked up *)
Theorem C08_level_values_lookup : forall L h k v,
  NoDup (map fst L) -> In (k, v) L -> Headers.lookup (fold_left HeadersAgree.hset' L h) k = Some v.
Proof. exact HeadersAgree.lookup_fold_in. Qed.

(* non-vacuity: a 16 bit sequence header on both sides (context, bit position 16, the fourteen level values) *)
Example C08_header_agreement_example :
  exists s' st',
    Headers.sequence_header (HeadersProofs.toy_tables true) (fun _ _ _ => true)
      (Headers.fuel_for (Headers.bits_of_bytes [62; 1]))
      (Headers.init_S [] None None (Headers.bits_of_bytes [62; 1]) 0) = Headers.HOk (tt, s') /\
    SerDes.run_des sequence_header_prog (Headers.bits_of_bytes [62; 1]) = SerDes.Ok (tt, st') /\
    SerDes.root st' = SerDes.VC 10
      [(100, SerDes.VC 11 [(101, SerDes.VI 1); (102, SerDes.VI 0); (103, SerDes.VI 0); (104, SerDes.VI 0)]); (105, SerDes.VI 0);
       (106, SerDes.VC 12 [(108, SerDes.VC 13 [(109, SerDes.VB false)]); (112, SerDes.VC 14 [(113, SerDes.VB false)]);
                           (115, SerDes.VC 15 [(116, SerDes.VB false)]); (118, SerDes.VC 16 [(119, SerDes.VB false)]);
                           (123, SerDes.VC 17 [(124, SerDes.VB false)]); (127, SerDes.VC 18 [(128, SerDes.VB false)]);
                           (133, SerDes.VC 19 [(134, SerDes.VB false)]); (139, SerDes.VC 20 [(140, SerDes.VB false)])]);
       (107, SerDes.VI 0)] /\
    SerDes.pos (SerDes.sio st') = 16 /\ Headers.r_pos (Headers.s_rd s') = 16 /\
    Headers.s_lcv s' = Some [(Headers.K_level, 0); (Headers.K_profile, 0); (Headers.K_major_version, 1);
                             (Headers.K_minor_version, 0); (Headers.K_base_video_format, 0);
                             (Headers.K_custom_dimensions_flag, 0); (Headers.K_custom_color_diff_format_flag, 0);
                             (Headers.K_custom_scan_format_flag, 0); (Headers.K_custom_frame_rate_flag, 0);
                             (Headers.K_custom_pixel_aspect_ratio_flag, 0); (Headers.K_custom_clean_area_flag, 0);
                             (Headers.K_custom_signal_range_flag, 0); (Headers.K_custom_color_spec_flag, 0);
                             (Headers.K_picture_coding_mode, 0)].
Proof. exact HeadersAgree.agree_example. Qed.

(* (14.2) fragment_header.  Whenever the validator reads a fragment header without a conformance error (from any
   state: the picture-number / fragment-continuity checks it makes in between have passed), the Deserialiser run on the
   same unread bits succeeds, ends at the same position with the same unread bits, and its FragmentHeader context is
   picture_number, fragment_data_length, fragment_slice_count [, fragment_x_offset, fragment_y_offset] with exactly
   the values the validator stored in state[...]; the two offsets are present iff fragment_slice_count <> 0. *)
Theorem C08_fragment_header_agree : forall T s s',
  Headers.fragment_header T s = Headers.HOk (tt, s') ->
  exists pn len cnt xy st',
    SerDes.run SerDes.des_step fragment_header_prog
      (SerDes.mkst 0 [] [] [] (HeadersAgree.io_of (Headers.s_rd s))) = SerDes.Ok (tt, st') /\
    SerDes.sio st' = HeadersAgree.io_of (Headers.s_rd s') /\
    SerDes.root st' = SerDes.VC 32 (HeadersAgree.fragment_context pn len cnt xy) /\
    Headers.s_st s' Headers.S_picture_number = Some pn /\
    Headers.s_st s' Headers.S_fragment_data_length = Some len /\
    Headers.s_st s' Headers.S_fragment_slice_count = Some cnt /\
    match xy with
    | None => cnt = 0
    | Some (x, y) => cnt <> 0 /\ Headers.s_st s' Headers.S_fragment_x_offset = Some x /\
                     Headers.s_st s' Headers.S_fragment_y_offset = Some y
    end.
Proof. exact HeadersAgree.fragment_header_agree. Qed.

(* =====================================================================================================
   HEADER AGREEMENT, continued.  Proofs/HeadersAgree2.v; deserialiser descriptions: Model/SerDesVC2Headers.v
   (transcribed from bitstream/vc2.py and run against the real functions under a real Deserialiser by
   tools/harness/C08_headers.py, called from tools/harness/C08.py).
   COVERED NOW: (12.2) picture_header, (12.4.1) transform_parameters with (12.4.4.1) extended_transform_parameters,
   (12.4.5.2) slice_parameters (low delay, high quality, neither) and (12.4.5.3) quant_matrix including the
   custom-matrix loops (unbounded: any dwt_depth / dwt_depth_ho), (10.5.1) parse_info including byte alignment.
   Each: for EVERY validator state (any unread bit string, position, level history, tables, level predicate, fuel):
   validator reads without a conformance error  ==>  the deserialiser program is Ok on the same unread bits, ends
   with the same unread bits at the same position, and stores field for field what the validator stored.
   With C08_sequence_header_agree / C08_fragment_header_agree above, every header structure of a stream is covered.
   NOT covered: auxiliary_data / padding bodies (raw bytes, no validator model), the composition of the per-structure
   theorems into one statement about a whole data unit / stream (picture_parse's two byte_align paddings and the
   subcontext nesting of wavelet_transform), and the converse when the validator REJECTS (the deserialiser
   substitutes or clamps instead). *)
From VC2 Require Import Model.SerDesVC2Headers Proofs.HeadersAgree2.

(* (12.2) *)
Theorem C08_picture_header_agree : forall T s s',
  Headers.picture_header T s = Headers.HOk (tt, s') ->
  exists pn st',
    SerDes.run SerDes.des_step picture_header_prog
      (SerDes.mkst 0 [] [] [] (HeadersAgree.io_of (Headers.s_rd s))) = SerDes.Ok (tt, st') /\
    SerDes.sio st' = HeadersAgree.io_of (Headers.s_rd s') /\
    SerDes.root st' = SerDes.VC 40 [(200, SerDes.VI pn)] /\
    Headers.s_st s' Headers.S_picture_number = Some pn.
Proof. exact HeadersAgree2.picture_header_agree. Qed.

(* (12.4.1).  The program is parameterised, as the Python function is, by what it takes from `state`:
   major_version and is_ld / is_hq of the parse code.  Context: wavelet_index, dwt_depth,
   [extended_transform_parameters = Gext when major_version >= 3], slice_parameters = Gsl,
   quant_matrix {custom_quant_matrix = b [, quant_matrix = the list zs]}.  The validator's state holds the same
   wavelet_index, dwt_depth, wavelet_index_ho (= wavelet_index unless coded), dwt_depth_ho (= 0 unless coded),
   slices_x, slices_y, the slice size fields of the profile, and -- for a custom matrix -- state["quant_matrix"] is
   exactly the dictionary built by storing the deserialised list zs under the subband keys in coding order
   (level 0 LL or L, the horizontal-only levels H, then HL LH HH per level), zs having 1 + dwt_depth_ho +
   3 * dwt_depth entries. *)
Theorem C08_transform_parameters_agree : forall T lvl fuel mv pc0 s s',
  Headers.s_st s Headers.S_major_version = Some mv -> Headers.s_st s Headers.S_parse_code = Some pc0 ->
  Headers.transform_parameters T lvl fuel s = Headers.HOk (tt, s') ->
  exists wi d Gext Gsl b zs st',
    SerDes.run SerDes.des_step
      (transform_parameters_prog mv (HeadersAgree2.is_ld' pc0) (HeadersAgree2.is_hq' pc0))
      (SerDes.mkst 0 [] [] [] (HeadersAgree.io_of (Headers.s_rd s))) = SerDes.Ok (tt, st') /\
    SerDes.sio st' = HeadersAgree.io_of (Headers.s_rd s') /\
    SerDes.root st' = SerDes.VC 41 (HeadersAgree2.tp_context mv wi d Gext Gsl b zs) /\
    Headers.s_st s' Headers.S_wavelet_index = Some wi /\ Headers.s_st s' Headers.S_dwt_depth = Some d /\
    Headers.s_st s' Headers.S_wavelet_index_ho = Some (HeadersAgree2.wih_of wi Gext) /\
    Headers.s_st s' Headers.S_dwt_depth_ho = Some (HeadersAgree2.dh_of Gext) /\
    Headers.s_st s' Headers.S_slices_x = HeadersAgree2.fld 209 Gsl /\
    Headers.s_st s' Headers.S_slices_y = HeadersAgree2.fld 210 Gsl /\
    (HeadersAgree2.is_ld' pc0 = true ->
       Headers.s_st s' Headers.S_slice_bytes_numerator = HeadersAgree2.fld 211 Gsl /\
       Headers.s_st s' Headers.S_slice_bytes_denominator = HeadersAgree2.fld 212 Gsl) /\
    (HeadersAgree2.is_hq' pc0 = true ->
       Headers.s_st s' Headers.S_slice_prefix_bytes = HeadersAgree2.fld 213 Gsl /\
       Headers.s_st s' Headers.S_slice_size_scaler = HeadersAgree2.fld 214 Gsl) /\
    (b = true ->
       length zs = quant_matrix_count d (HeadersAgree2.dh_of Gext) /\
       HeadersAgree2.qmh s' =
         fold_left HeadersAgree2.qstore (combine (HeadersAgree2.qm_keys d (HeadersAgree2.dh_of Gext)) zs) []).
Proof. exact HeadersAgree2.transform_parameters_agree. Qed.

(* (10.5.1), for all answers of the validator's pattern matchers.  The deserialiser's `padding` is the bits the
   validator's byte_align skips, `_offset` the byte offset both compute after aligning. *)
Theorem C08_parse_info_agree : forall T generic_accepts level_accepts s s',
  Headers.parse_info T generic_accepts level_accepts s = Headers.HOk (tt, s') ->
  exists pad pfx pcd npo ppo st',
    SerDes.run SerDes.des_step (parse_info_prog (Headers.tell_byte (Headers.byte_align (Headers.s_rd s))))
      (SerDes.mkst 0 [] [] [] (HeadersAgree.io_of (Headers.s_rd s))) = SerDes.Ok (tt, st') /\
    SerDes.sio st' = HeadersAgree.io_of (Headers.s_rd s') /\
    SerDes.root st' = SerDes.VC 45
      (HeadersAgree2.parse_info_context pad (Headers.tell_byte (Headers.byte_align (Headers.s_rd s))) pfx pcd npo ppo) /\
    Headers.s_st s' Headers.S_parse_code = Some pcd /\ Headers.s_st s' Headers.S_next_parse_offset = Some npo /\
    Headers.s_st s' Headers.S_previous_parse_offset = Some ppo.
Proof. exact HeadersAgree2.parse_info_agree. Qed.

(* non-vacuity: concrete bit strings on both sides *)
Example C08_transform_parameters_example :
  exists s' st',
    Headers.transform_parameters (HeadersProofs.toy_tables true) (fun _ _ _ => true) (Headers.fuel_for HeadersAgree2.ex_tp_bits)
      (Headers.init_S HeadersAgree2.ex_state None None HeadersAgree2.ex_tp_bits 0) = Headers.HOk (tt, s') /\
    SerDes.run_des (transform_parameters_prog 3 false true) HeadersAgree2.ex_tp_bits = SerDes.Ok (tt, st') /\
    SerDes.root st' = SerDes.VC 41
      [(201, SerDes.VI 1); (202, SerDes.VI 1);
       (203, SerDes.VC 42 [(204, SerDes.VB false); (206, SerDes.VB true); (207, SerDes.VI 1)]);
       (208, SerDes.VC 43 [(209, SerDes.VI 1); (210, SerDes.VI 1); (213, SerDes.VI 0); (214, SerDes.VI 1)]);
       (215, SerDes.VC 44 [(216, SerDes.VB true);
                           (217, SerDes.VL [SerDes.VI 0; SerDes.VI 3; SerDes.VI 0; SerDes.VI 2; SerDes.VI 0])])] /\
    SerDes.pos (SerDes.sio st') = 33 /\ Headers.r_pos (Headers.s_rd s') = 33 /\
    Headers.s_qm s' = Some [((0, Headers.O_L), 0); ((1, Headers.O_H), 3); ((2, Headers.O_HL), 0);
                            ((2, Headers.O_LH), 2); ((2, Headers.O_HH), 0)] /\
    Headers.s_st s' Headers.S_dwt_depth_ho = Some 1 /\ Headers.s_st s' Headers.S_slice_size_scaler = Some 1.
Proof. exact HeadersAgree2.transform_parameters_example. Qed.

Example C08_picture_header_example :
  exists s' st',
    Headers.picture_header (HeadersProofs.toy_tables true)
      (Headers.init_S HeadersAgree2.ex_state None None (Headers.bits_of_bytes [0; 0; 1; 5; 255]) 0) = Headers.HOk (tt, s') /\
    SerDes.run_des picture_header_prog (Headers.bits_of_bytes [0; 0; 1; 5; 255]) = SerDes.Ok (tt, st') /\
    SerDes.root st' = SerDes.VC 40 [(200, SerDes.VI 261)] /\ SerDes.pos (SerDes.sio st') = 32 /\
    Headers.r_pos (Headers.s_rd s') = 32 /\ Headers.s_st s' Headers.S_picture_number = Some 261.
Proof. exact HeadersAgree2.picture_header_example. Qed.

Example C08_parse_info_example :
  exists s' st',
    Headers.parse_info (HeadersProofs.toy_tables true) (fun _ => true) (fun _ => true)
      (Headers.init_S [(Headers.S_generic_sequence_matcher, 1)] None None
         (Headers.bits_of_bytes [66; 66; 67; 68; 0; 0; 0; 0; 14; 0; 0; 0; 0; 9]) 0) = Headers.HOk (tt, s') /\
    SerDes.run_des (parse_info_prog 0) (Headers.bits_of_bytes [66; 66; 67; 68; 0; 0; 0; 0; 14; 0; 0; 0; 0; 9]) = SerDes.Ok (tt, st') /\
    SerDes.root st' = SerDes.VC 45 [(220, SerDes.VBits []); (221, SerDes.VI 0); (222, SerDes.VI 1111638852);
                                    (223, SerDes.VI 0); (224, SerDes.VI 14); (225, SerDes.VI 0)] /\
    SerDes.pos (SerDes.sio st') = 104 /\ Headers.r_pos (Headers.s_rd s') = 104 /\
    Headers.s_st s' Headers.S_next_parse_offset = Some 14.
Proof. exact HeadersAgree2.parse_info_example. Qed.
