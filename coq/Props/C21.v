(* C21 -- Serialiser/deserialiser framework round-trips arbitrary description programs.
   Property theorems only.  Model: Model/SerDes.v (hand model, tie C: tools/harness/C21.py). *)
From Coq Require Import ZArith List Bool.
From VC2 Require Import Model.SerDes Proofs.SerDesProofs.
Import ListNotations.
Open Scope Z_scope.

Theorem C21_second_write_is_ReusedTarget : forall t v s,
  alookup t (c_ix s) = Some Used -> set_value t v s = Err EReused.
Proof. exact set_value_reused. Qed.
