(* C21 -- Serialiser/deserialiser framework round-trips arbitrary description programs.
   Property theorems only; each closed by `exact <lemma>`.
   Model: Model/SerDes.v (hand model of bitstream/serdes.py over a bit-list model of the
   BitstreamWriter/BitstreamReader; tie C: tools/harness/C21.py).
   Programs are a dependent free monad [prog A]; all theorems quantify over ALL programs, ALL
   descriptions, ALL default tables (induction on the program / invariants of the interpreter). *)
From Coq Require Import ZArith List Bool.
From VC2 Require Import Model.SerDes Proofs.SerDesBits Proofs.SerDesWf Proofs.SerDesSim Proofs.SerDesProofs.
Import ListNotations.
Open Scope Z_scope.

(* Round trip.  [sym p]: the program does not call is_target_complete (which, by design, answers
   differently in a serialiser and a deserialiser) and does not branch on the zero padding of bit/byte
   strings; [nohole]: the description is an ordinary value (no model-only reference marker).
   Serialising description (ty, f) with defaults D succeeds with result a and verify_complete passes
   ==> deserialising the produced bits, followed by ANY further bits R, with the same program succeeds
   with the same result, consumes exactly the produced bits, verify_complete passes, and the description
   read back is related by [vle D] to the serialiser's description: equal, except bit/byte strings
   zero-padded to their coded length, values filled in from D, dictionaries whose type the program
   never sets being plain dicts.  (Python's == on descriptions ignores exactly the last point.) *)
Theorem C21_roundtrip : forall D A (p : prog A) ty f a ss',
  sym p -> nohole (VC ty f) ->
  run_ser D p ty f = Ok (a, ss') -> verify_complete ss' = Ok tt ->
  forall R, exists sd',
    run_des p (bits (sio ss') ++ R) = Ok (a, sd') /\
    bits (sio sd') = R /\ pos (sio sd') = pos (sio ss') /\
    verify_complete sd' = Ok tt /\
    vle D (root ss') (root sd').
Proof. exact roundtrip. Qed.

(* The serialiser's description [root ss'] in C21_roundtrip is the description it was given plus what
   it created: for programs without computed values every value of the given description is still
   there, unchanged ([vext]; computed values are the one thing a serialiser overwrites). *)
Theorem C21_serialiser_keeps_input : forall D A (p : prog A) ty f a s',
  computed_free p -> nohole (VC ty f) -> run_ser D p ty f = Ok (a, s') -> vexts (VC ty f) (root s').
Proof. exact ser_keeps_input. Qed.

(* ... in particular on the flushed byte stream *)
Theorem C21_roundtrip_flushed : forall D A (p : prog A) ty f a ss',
  sym p -> nohole (VC ty f) ->
  run_ser D p ty f = Ok (a, ss') -> verify_complete ss' = Ok tt ->
  exists sd',
    run_des p (flush_bits (bits (sio ss'))) = Ok (a, sd') /\
    pos (sio sd') = pos (sio ss') /\
    verify_complete sd' = Ok tt /\
    vle D (root ss') (root sd').
Proof. exact roundtrip_flushed. Qed.

(* each value primitive returns the same value in both interpreters (what keeps the control flow
   of the two runs together); bit/byte strings come back zero-padded *)
Theorem C21_primitive_roundtrip : forall k v w w',
  write_val k v w = Ok w' ->
  exists X v', bits w' = bits w ++ X /\ dle v v' /\
    forall R, read_val k (rd_of w (X ++ R)) = Ok (v', rd_of w' R).
Proof. exact write_val_read_val. Qed.

(* A provided value that nothing consumed, or a list not consumed to its end, in the dictionary
   being closed: UnusedTargetError, at the end of the run ... *)
Theorem unused_value_fails : forall D A (p : prog A) ty f a s,
  prog_ok p -> nohole (VC ty f) -> run_ser D p ty f = Ok (a, s) -> unused_in s ->
  verify_complete s = Err EUnused.
Proof. exact unused_value_fails. Qed.
(* ... and whenever a nested context is left *)
Theorem unused_value_fails_at_leave : forall s, wf s -> unused_in s -> subcontext_leave s = Err EUnused.
Proof. exact unused_fails_leave. Qed.

(* A needed value that is absent and has no default: KeyError; a list with no element left and no
   default: ListTargetExhaustedError -- for every value primitive, whatever follows. *)
Theorem missing_value_fails : forall D A o (kont : result o -> prog A) k t s,
  op_prim o = Some (k, t) -> dlookup D (c_ty s) t = None ->
  (alookup t (c_ix s) = None -> alookup t (c_f s) = None ->
     run (ser_step D) (Op o kont) s = Err EKey) /\
  (forall i l, alookup t (c_ix s) = Some (Nxt i) -> alookup t (c_f s) = Some (VL l) -> (length l <= i)%nat ->
     run (ser_step D) (Op o kont) s = Err EExhausted).
Proof. exact missing_value_fails. Qed.
(* ... unless a default exists, which is then the value written and returned *)
Theorem missing_value_default : forall D k t s d,
  alookup t (c_ix s) = None -> alookup t (c_f s) = None -> dlookup D (c_ty s) t = Some d ->
  ser_prim D k t s =
    rbind (write_val k d (sio s)) (fun w => Ok (d, set_io (set_ix s (aupd t Used (c_ix s))) w)).
Proof. exact missing_key_default. Qed.

(* The deserialiser never overwrites: from the empty description ([dinv], [init_dinv]) every
   step -- hence every run -- only extends the ROOT description ([vext]: every key and every list
   element present before is present, unchanged, afterwards; new keys / appended elements only);
   a write under the invariant creates a fresh key or appends, it never replaces. *)
Theorem des_never_overwrites : forall A (p : prog A), prog_ok p ->
  forall s a s', dinv s -> wf s -> run des_step p s = Ok (a, s') ->
  dinv s' /\ vexts (root s) (root s').
Proof. exact des_never_overwrites. Qed.
Theorem des_step_never_overwrites : forall o s r s',
  dinv s -> wf s -> des_step o s = Ok (r, s') -> dinv s' /\ vext (root s) (root s').
Proof. exact des_step_never_overwrites. Qed.
Theorem des_write_is_fresh : forall t v s s', dinv_c (c_f s) (c_ix s) -> set_value t v s = Ok s' ->
  (alookup t (c_ix s) = None /\ alookup t (c_f s) = None /\
     s' = set_fix s (aupd t v (c_f s)) (aupd t Used (c_ix s))) \/
  (exists l, alookup t (c_ix s) = Some (Nxt (length l)) /\ alookup t (c_f s) = Some (VL l) /\
     s' = set_fix s (aupd t (VL (l ++ [v])) (c_f s)) (aupd t (Nxt (S (length l))) (c_ix s))).
Proof. exact set_value_fresh. Qed.
Theorem des_initial_state_ok : forall bs, dinv (init_st 0 [] bs) /\ wf (init_st 0 [] bs).
Proof. exact (fun bs => conj (init_dinv bs) (init_wf 0 [] bs I)). Qed.

(* a second write to a plain target is ReusedTargetError (both interpreters) *)
Theorem C21_second_write_is_ReusedTarget : forall t v s,
  alookup t (c_ix s) = Some Used -> set_value t v s = Err EReused.
Proof. exact set_value_reused. Qed.

(* set_context_type on any reachable ([wf]) state, in either interpreter: no failure; the enclosing
   dictionaries are unchanged and reference the NEW, retyped dictionary in the slot their index
   bookkeeping designates (parent[target] or parent[target][index-1]) -- no stale alias; the root
   description is the old root with the current dictionary retyped in place *)
Theorem set_type_consistent : forall prim ty s u s', wf s ->
  step prim (OSetType ty) s = Ok (u, s') ->
  c_ty s' = ty /\ c_f s' = c_f s /\ stk s' = stk s /\ wf s' /\
  root s' = root_with (stk s) (VC ty (c_f s)).
Proof. exact set_type_consistent. Qed.
(* every state reached by a run from a well-formed state is well formed *)
Theorem C21_reachable_wf_ser : forall D A (p : prog A) s a s',
  prog_ok p -> wf s -> run (ser_step D) p s = Ok (a, s') -> wf s'.
Proof. exact (fun D A p s a s' Hp => run_wf (ser_prim D) A p (ser_prim_wf D) Hp s a s'). Qed.
Theorem C21_reachable_wf_des : forall A (p : prog A) s a s',
  prog_ok p -> wf s -> run des_step p s = Ok (a, s') -> wf s'.
Proof. exact (fun A p s a s' Hp => run_wf des_prim A p des_prim_wf Hp s a s'). Qed.

(* non-vacuity: a program with a typed subcontext holding a list, a default used inside the list, a
   bounded block with trailing padding, byte alignment, a computed value and a data-dependent
   branch satisfies the hypotheses of C21_roundtrip *)
Example C21_example :
  sym ex_prog /\ nohole (VC 0 ex_fields) /\
  exists s, run_ser ex_defaults ex_prog 0 ex_fields = Ok (tt, s) /\ verify_complete s = Ok tt /\
    length (bits (sio s)) = 28%nat /\
    exists s', run_des ex_prog (flush_bits (bits (sio s))) = Ok (tt, s') /\
      root s' = VC 1 [(0, VI 2); (1, VC 2 [(2, VL [VI 9; VI 4]); (3, VI 3)]); (4, VI (-1));
                      (5, VBits [false]); (6, VBits [true; false; true; false]);
                      (7, VBits [true; false; false; false])].
Proof.
  split; [exact ex_prog_sym|]. split; [simpl; tauto|].
  eexists. split; [vm_compute; reflexivity|]. split; [vm_compute; reflexivity|].
  split; [vm_compute; reflexivity|]. eexists. split; vm_compute; reflexivity.
Qed.
