(* C09 -- Every decoded picture is well-formed.
   Property theorems only.  Model: Model/Picture.v (hand model of picture_decoding.py's pad removal / clip /
   offset, video_parameters.py's dimensions and depths, and the picture_decode call sites of decoder/stream.py
   with the fragment counters of fragment_syntax.py), clip and intlog2 from Gen/VC2Math.v (regenerated from the
   source on every run).  The inverse wavelet transform is property C11: here its output is ARBITRARY. *)
From Coq Require Import ZArith List Bool.
From VC2 Require Import Base.PyZ Gen.StateRec Gen.VC2Math Gen.VideoParams Model.Picture Proofs.PictureProofs Proofs.PictureBridge.
Import ListNotations.
Open Scope Z_scope.

(* depth = intlog2(excursion + 1) is at least 1 for every excursion the validator admits (>= 1) *)
Theorem C09_depth : forall excursion, 1 <= excursion -> 1 <= intlog2 (excursion + 1).
Proof. exact intlog2_ge1. Qed.

(* for ARBITRARY integer arrays (rectangular, any size, any values): after clip_component and
   offset_component every sample lies in [0, 2^depth - 1] *)
Theorem C09_range : forall depth w (a : array2),
  1 <= depth -> rect w a ->
  Forall (Forall (fun v => 0 <= v <= 2 ^ depth - 1)) (offset_component depth (clip_component depth a)).
Proof. exact range_after_clip_offset. Qed.

(* idwt_pad_removal yields exactly height rows of exactly width samples for any array at least that large *)
Theorem C09_shape : forall d pic c,
  0 <= comp_width d c -> 0 <= comp_height d c ->
  comp_height d c <= Z.of_nat (length pic) ->
  Forall (fun r => comp_width d c <= Z.of_nat (length r)) pic ->
  length (idwt_pad_removal d pic c) = Z.to_nat (comp_height d c) /\
  rect (Z.to_nat (comp_width d c)) (idwt_pad_removal d pic c).
Proof. exact pad_removal_shape. Qed.

(* ... and the transform's padded size scale * ceil(size / scale) is at least that large *)
Theorem C09_padded_at_least_picture : forall w s, 0 < s -> w <= s * ((w + s - 1) / s).
Proof. exact padded_at_least. Qed.

(* the whole post-transform pipeline of picture_decode for one component: exact shape AND range *)
Theorem C09_component_well_formed : forall d c idwt_out,
  1 <= comp_depth d c ->
  0 <= comp_width d c -> 0 <= comp_height d c ->
  comp_height d c <= Z.of_nat (length idwt_out) ->
  Forall (fun r => comp_width d c <= Z.of_nat (length r)) idwt_out ->
  let out := finish_component d c idwt_out in
  length out = Z.to_nat (comp_height d c) /\
  rect (Z.to_nat (comp_width d c)) out /\
  Forall (Forall (fun v => 0 <= v <= 2 ^ comp_depth d c - 1)) out.
Proof. exact finish_component_well_formed. Qed.

(* picture_decode stamps the picture with state["picture_number"] *)
Theorem C09_picnum : forall d pn y c1 c2, pic_num (picture_decode d pn y c1 c2) = pn.
Proof. reflexivity. Qed.

(* Over ANY list of data units of a sequence the validator accepts (fragment counters as in fragment_data,
   rejections as in fragment_header / parse_sequence): the pictures handed to picture_decode, in order, carry
   exactly the coded picture numbers of the picture data units and of the (completed) fragmented pictures --
   so their number is #picture units + #fragmented pictures, each completed exactly once. *)
Theorem C09_count_and_numbers : forall us pics,
  Forall wf_unit us -> run us = Some pics -> pics = coded_pictures us.
Proof. exact run_spec. Qed.

Theorem C09_count : forall us pics,
  Forall wf_unit us -> run us = Some pics -> length pics = length (coded_pictures us).
Proof. exact (fun us pics H R => f_equal (@length Z) (run_spec us pics H R)). Qed.

(* ---- tie T: the same statements about the functions TRANSLATED from pseudocode/video_parameters.py
   (Gen/VideoParams.v, regenerated from the source on every run; an edit there breaks these obligations) ---- *)

(* the hand model of picture_dimensions / video_depth (mk_dims; colour-difference format 1 = 4:2:2, 2 = 4:2:0;
   picture_coding_mode 1 = fields) equals, for ALL states and video parameters, what the source's
   set_coding_parameters stores in luma_width/height, color_diff_width/height, luma_depth, color_diff_depth;
   and set_coding_parameters never raises *)
Theorem C09_dimensions_and_depth_match_source : forall st vp,
  mk_dims (st_frame_width vp) (st_frame_height vp) (st_color_diff_format_index vp) (st_picture_coding_mode st)
          (st_luma_excursion vp) (st_color_diff_excursion vp)
  = dims_of_state (VideoParams.set_coding_parameters st vp) /\
  VideoParams.set_coding_parameters_dom st vp = true.
Proof. exact (fun st vp => conj (mk_dims_matches_source st vp) (set_coding_parameters_dom_true st vp)). Qed.

(* C09_depth for the depths the source computes *)
Theorem C09_depth_source : forall st vp,
  1 <= st_luma_excursion vp -> 1 <= st_color_diff_excursion vp ->
  let s' := VideoParams.set_coding_parameters st vp in
  1 <= st_luma_depth s' /\ 1 <= st_color_diff_depth s'.
Proof. exact source_depths_ge1. Qed.

(* C09_shape + C09_range with the width, height and depth the SOURCE computes: for any frame size >= 0, any
   admitted excursions, any colour format / coding mode, any component and ANY transform output at least as
   large as the component: exactly height x width samples, each in [0, 2^depth - 1] *)
Theorem C09_component_well_formed_source : forall st vp c idwt_out,
  0 <= st_frame_width vp -> 0 <= st_frame_height vp ->
  1 <= st_luma_excursion vp -> 1 <= st_color_diff_excursion vp ->
  let d := dims_of_state (VideoParams.set_coding_parameters st vp) in
  comp_height d c <= Z.of_nat (length idwt_out) ->
  Forall (fun r => comp_width d c <= Z.of_nat (length r)) idwt_out ->
  let out := finish_component d c idwt_out in
  length out = Z.to_nat (comp_height d c) /\
  rect (Z.to_nat (comp_width d c)) out /\
  Forall (Forall (fun v => 0 <= v <= 2 ^ comp_depth d c - 1)) out.
Proof. exact component_well_formed_source. Qed.

(* non-vacuity *)
Example C09_example_units :
  run [UOther; UPicture 7; UFragFirst 8 4; UFragData 8 3; UOther; UFragData 8 1; UPicture 9] = Some [7; 8; 9] /\
  run [UFragFirst 8 4; UFragData 8 3] = None /\ run [UFragFirst 8 4; UFragData 8 3; UFragData 8 2] = None.
Proof. vm_compute. repeat split; reflexivity. Qed.

Example C09_example_component :
  let d := mk_dims 3 2 0 0 255 255 in
  finish_component d Str_Y [[1000; -1000; 5; 0]; [0; 1; 2; 3]; [9; 9; 9; 9]] = [[255; 0; 133]; [128; 129; 130]].
Proof. vm_compute. reflexivity. Qed.

Example C09_example_source :
  let vp := set_st_color_diff_excursion (set_st_luma_excursion (set_st_color_diff_format_index
              (set_st_frame_height (set_st_frame_width empty_pystate 7) 6) 2) 1023) 255 in
  let st := set_st_picture_coding_mode empty_pystate 1 in
  dims_list_of (dims_of_state (VideoParams.set_coding_parameters st vp)) = [7; 3; 3; 1; 10; 8].
Proof. vm_compute. reflexivity. Qed.
