(* C18 -- Data-unit pattern matcher implements its regular-expression language.
   Property theorems only; each closed by `exact <lemma>`.
   Model (tie C, tools/harness/C18.py): Model/Regex.v (AST, tokens, parse_expression,
   language), Model/NFA.v (NFA.from_ast), Model/Matcher.v (equivalent_nodes, Matcher).

   The theorems are about the `Directed` model = the REPAIRED code
   (fixes/C18-directed-epsilon.diff: empty transitions are followed only in the
   direction they were added).  The pinned code is the `Symmetric` model, for which the
   property is refuted below (C18_refuted_symmetric).

   Language: `lang r w` (Model/Regex.v): the symbols w followed by some number of end
   markers are in the regular language of r, where `$` consumes one end marker and
   symbols / wildcard only consume symbols - i.e. `$` matches only at the end.
   Hypothesis granted by the property ("`$` used only where nothing mandatory follows
   it"): `eos_ok r` - in every concatenation `a b` with a `$` inside `a`, `b` can match
   the empty sequence.  It is needed: C18_eos_hypothesis_needed. *)
From Coq Require Import ZArith List Bool.
From VC2 Require Import Model.Regex Model.NFA Model.Matcher Proofs.RegexProofs Proofs.NFAProofs Proofs.MatcherProofs.
Import ListNotations.

(* Thompson construction: the paths start -> final of NFA.from_ast(r) spell exactly
   the language of r (letters: symbols, and the end marker consumed by `$`).
   All patterns (incl. any use of `$`), all words. *)
Theorem C18_thompson_correct : forall (r : re) (w : list letter),
  npath (from_ast r) (n_start (from_ast r)) w (n_final (from_ast r)) <-> langE r w.
Proof. exact thompson_correct. Qed.

(* every symbol of w was accepted  <->  w is a prefix of some matching sequence *)
Theorem C18_accepts_iff_viable_prefix : forall (r : re) (w : list sym), eos_ok r = true ->
  (feed Directed r w <> None <-> exists v, lang r (w ++ v)).
Proof. exact (fun r w H => accepts_iff_viable_prefix r H w). Qed.

(* one step: after an accepted sequence w, match_symbol(s) returns True exactly when
   w s is still a prefix of a matching sequence; on False the Matcher is unchanged *)
Theorem C18_match_symbol : forall (r : re) (w : list sym) (m : matcher) (s : sym),
  eos_ok r = true -> feed Directed r w = Some m ->
  (fst (match_symbol m s) = true <-> exists v, lang r (w ++ s :: v))
  /\ (fst (match_symbol m s) = false -> snd (match_symbol m s) = m).
Proof.
  exact (fun r w m s H F => conj (match_symbol_iff r w m s H F) (match_symbol_rejected m s)).
Qed.

(* is_complete() <-> the whole sequence matches *)
Theorem C18_complete_iff_match : forall (r : re) (w : list sym) (m : matcher),
  eos_ok r = true -> feed Directed r w = Some m ->
  (is_complete m = true <-> lang r w).
Proof. exact (fun r w m H F => complete_iff_match r H w m F). Qed.

(* valid_next_symbols(), exactly as the code reports it: a symbol keeps a match
   possible iff it is listed or WILDCARD is listed; a listed symbol always does;
   WILDCARD is listed iff every symbol does; END_OF_SEQUENCE iff w matches *)
Theorem C18_valid_next : forall (r : re) (w : list sym) (m : matcher),
  eos_ok r = true -> feed Directed r w = Some m ->
  (forall s, In (LSym s) (valid_next m) \/ In LAny (valid_next m) <-> exists v, lang r (w ++ s :: v))
  /\ (forall s, In (LSym s) (valid_next m) -> exists v, lang r (w ++ s :: v))
  /\ (In LAny (valid_next m) <-> forall s, exists v, lang r (w ++ s :: v))
  /\ (In LEos (valid_next m) <-> lang r w).
Proof.
  exact (fun r w m H F =>
    conj (fun s => valid_next_sym_iff r H w m s F)
   (conj (fun s => valid_next_sym_sound r H w m s F)
   (conj (valid_next_any_iff r H w m F) (valid_next_eos_iff r H w m F)))).
Qed.

(* the pinned code (empty transitions followed both ways): the property is false,
   witness `a? b` accepts a a ... *)
Theorem C18_refuted_symmetric :
  exists r w, eos_ok r = true /\ feed Symmetric r w <> None /\ ~ exists v, lang r (w ++ v).
Proof. exact refuted_symmetric. Qed.

(* ... but it never rejects a good sequence (any pattern, any use of `$`) *)
Theorem C18_symmetric_over_approximates : forall (r : re) (w v : list sym),
  lang r (w ++ v) -> feed Symmetric r w <> None.
Proof. exact (fun r w v => lang_prefix_alive r Symmetric w v). Qed.

Theorem C18_symmetric_complete_over_approximates : forall (r : re) (w : list sym) (m : matcher),
  feed Symmetric r w = Some m -> lang r w -> is_complete m = true.
Proof. exact (fun r w m => lang_complete r Symmetric w m). Qed.

(* without the hypothesis on `$`: `$ a` is reported complete on the empty sequence *)
Theorem C18_eos_hypothesis_needed :
  exists r m, eos_ok r = false /\ feed Directed r [] = Some m /\ is_complete m = true /\ ~ lang r [].
Proof. exact eos_hypothesis_needed. Qed.

(* string-level syntax (token level): the parser model never runs out of fuel, and the
   fully parenthesised printed form of EVERY AST parses back to an AST with the same
   language (identical up to `x ()` = x, which parse_expression cannot represent) *)
Theorem C18_parse_fuel_enough : forall toks : list token, parse_regex toks <> inl EFuel.
Proof. exact parse_fuel_enough. Qed.

Theorem C18_parse_print : forall r : re,
  exists r', parse_regex (print r) = inr r' /\ forall w, lang r' w <-> lang r w.
Proof. exact parse_print_lang. Qed.

(* non-vacuity: the level 1-7 shape  h ( p-star | f-star ) e  (h=1 p=2 f=3 e=4): the repaired
   Matcher rejects a picture followed by a fragment, accepts and completes h p p e *)
Open Scope Z_scope.
Example C18_example :
  let r := Cat (Sym 1) (Cat (Alt (Star (Sym 2)) (Star (Sym 3))) (Sym 4)) in
  eos_ok r = true
  /\ feed Directed r [1; 2; 3] = None
  /\ feed Symmetric r [1; 2; 3] <> None
  /\ option_map is_complete (feed Directed r [1; 2; 2; 4]) = Some true
  /\ option_map (fun m => map (fun l => match l with LSym s => s | LAny => 0 | LEos => (-1) end) (valid_next m))
                (feed Directed r [1; 2]) = Some [2; 4].
Proof. vm_compute. repeat split; discriminate. Qed.

(* `+` is r r*, `?` is r | (), modifiers bind tightest, `|` loosest, parsed right to left *)
Example C18_parse_example :
  parse_regex [TStr 1; TMod MPlus; TStr 2; TMod MQuest; TBar; TStr 3; TStr 4; TBar; TLP; TStr 1; TStr 2; TRP; TMod MStar; TDollar]
  = inr (Alt (Alt (Cat (Cat (Sym 1) (Star (Sym 1))) (Alt (Sym 2) Empty)) (Cat (Sym 3) (Sym 4)))
             (Cat (Star (Cat (Sym 1) (Sym 2))) Eos))
  /\ parse_regex [TStr 1; TMod MStar; TMod MStar] = inl EMultipleModifiers
  /\ parse_regex [TLP; TStr 1] = inl EUnmatched.
Proof. vm_compute. repeat split. Qed.
