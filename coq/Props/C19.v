(* C19 -- Sequence completion is sound, complete and shortest.
   Property theorems only; each closed by `exact <lemma>` (Proofs/MatchSeqProofs.v).
   Model (tie C, tools/harness/C19.py): Model/MatchSeq.v = make_matching_sequence of
   vc2_conformance/symbol_re.py (queue-based search with the greedy `continue`, the
   insertion-limit reset on a match, candidate sets with WILDCARD handling, symbol_priority
   ordering) on top of the C18 Matcher model in `Directed` mode (the repaired code).

   make_seq fuel init pats limit prio  =  make_matching_sequence(init, *pats,
   depth_limit=limit, symbol_priority=prio); fuel = number of loop iterations allowed;
   results: Seq out | Impossible (ImpossibleSequenceError) | OutOfFuel (excluded by every
   statement; C19_terminates shows that enough fuel always exists).

   Hypothesis granted by the property (as for C18): `all_ok pats` = every pattern uses `$`
   only where nothing mandatory follows it (eos_ok).

   RESULT.  The unconditional part of the property (soundness) holds: C19_sound.
   Completeness and shortestness are FALSE for the code as written (known finding
   `make_matching_sequence:greedy-continue`): C19_full_refuted.  What the code does
   compute is proved instead: C19_greedy_shortest_partial. *)
From Coq Require Import ZArith List Bool Permutation.
From VC2 Require Import Model.Regex Model.NFA Model.Matcher Model.MatchSeq Proofs.MatchSeqProofs.
Import ListNotations.
Open Scope Z_scope.

(* Whenever the generator returns, the result contains the required symbols in order with
   only insertions (subseq) and every pattern matches it.  All required lists, all pattern
   sets, all insertion limits and priorities. *)
Theorem C19_sound : forall (fuel : nat) (init : list sym) (pats : list re) (limit : Z) (prio out : list sym),
  all_ok pats ->
  make_seq fuel init pats limit prio = Seq out ->
  subseq init out /\ Forall (fun p => lang p out) pats.
Proof. exact (fun fuel init pats limit prio out Hok => make_seq_sound pats prio limit Hok fuel init out). Qed.

(* PARTIAL (what is missing: the full statement quantifies over ALL completions, this one
   over the greedy ones).  `greedy_completions pats prio limit init` (inductive `gc` in
   Proofs/MatchSeqProofs.v) are the completions built by never inserting a symbol at a
   point where the next required symbol keeps every pattern completable (and by stopping
   as soon as everything required is placed and every pattern matches); inserted symbols
   come from `cands_at` and at most `limit` are inserted in a row.  The code returns a
   shortest greedy completion and reports impossibility exactly when there is none. *)
Theorem C19_greedy_shortest_partial :
  forall (fuel : nat) (init : list sym) (pats : list re) (limit : Z) (prio : list sym),
  all_ok pats ->
  (forall out, make_seq fuel init pats limit prio = Seq out ->
     greedy_completions pats prio limit init out /\
     forall out', greedy_completions pats prio limit init out' -> (length out <= length out')%nat)
  /\ (make_seq fuel init pats limit prio <> OutOfFuel ->
      (make_seq fuel init pats limit prio = Impossible <->
       forall out, ~ greedy_completions pats prio limit init out)).
Proof.
  exact (fun fuel init pats limit prio Hok =>
           conj (make_seq_greedy pats prio limit Hok fuel init)
                (make_seq_impossible pats prio limit Hok fuel init)).
Qed.

(* the inserted symbols of a greedy completion keep every pattern completable ... *)
Theorem C19_candidates_viable : forall (pats : list re) (prio w : list sym) (c : sym),
  all_ok pats -> In c (cands_at pats prio w) -> Forall (fun p => exists v, lang p (w ++ c :: v)) pats.
Proof. exact cands_at_viable. Qed.

(* ... and unless every pattern accepts every symbol after w, they are exactly those symbols *)
Theorem C19_candidates_exact : forall (pats : list re) (prio w : list sym) (ms : list matcher) (c : sym),
  all_ok pats -> feed_all pats w = Some ms ->
  Exists (fun p => ~ forall s, exists v, lang p (w ++ s :: v)) pats ->
  (In c (cands_at pats prio w) <-> Forall (fun p => exists v, lang p (w ++ c :: v)) pats).
Proof. exact cands_at_exact. Qed.

(* The search always ends: with enough fuel the result is not OutOfFuel. *)
Theorem C19_terminates : forall (init : list sym) (pats : list re) (limit : Z) (prio : list sym),
  exists fuel0, forall fuel, (fuel0 <= fuel)%nat -> make_seq fuel init pats limit prio <> OutOfFuel.
Proof. exact make_seq_terminates. Qed.

(* The result does not depend on the order in which Python iterates over the candidate SET
   (hash-seed dependent): any two enumerations give the same result, because `sorted`'s key
   is injective (sort_key_inj) and its order total. *)
Theorem C19_order_independent : forall (enum1 enum2 : list label -> list label),
  (forall l, Permutation l (enum1 l)) -> (forall l, Permutation l (enum2 l)) ->
  forall (fuel : nat) (init : list sym) (pats : list re) (limit : Z) (prio : list sym),
    make_seq_gen enum1 fuel init pats limit prio = make_seq_gen enum2 fuel init pats limit prio.
Proof. exact make_seq_order_independent. Qed.

(* ---- the full statement, kept visible, and its refutation ---------------------------- *)
(* `completion init pats limit out`: out extends init by insertions only, at most `limit`
   in a row, and every pattern matches out. *)
Definition C19_full : Prop :=
  forall (fuel : nat) (init : list sym) (pats : list re) (limit : Z) (prio : list sym),
  all_ok pats ->
  (forall out, make_seq fuel init pats limit prio = Seq out ->
     (subseq init out /\ Forall (fun p => lang p out) pats)
     /\ forall out', completion init pats limit out' -> (length out <= length out')%nat)
  /\ (make_seq fuel init pats limit prio = Impossible -> forall out', ~ completion init pats limit out').

(* witness 1 (completeness): pattern `(a c) | (x a b)`, required [a, b] (a=1 b=2 c=3 x=4):
   ImpossibleSequenceError although x a b qualifies;
   witness 2 (shortestness): `a x x x b | y a b`, required [a, b] (y=5): returns a x x x b
   (length 5) although y a b (length 3) qualifies. *)
Theorem C19_full_refuted :
  (exists fuel init pats limit prio out',
     all_ok pats /\ make_seq fuel init pats limit prio = Impossible /\ completion init pats limit out')
  /\ (exists fuel init pats limit prio out out',
        all_ok pats /\ make_seq fuel init pats limit prio = Seq out
        /\ completion init pats limit out' /\ (length out' < length out)%nat).
Proof.
  exact (conj (ex_intro _ 10%nat (ex_intro _ [1; 2] (ex_intro _ [wit1] (ex_intro _ 3 (ex_intro _ [] (ex_intro _ [4; 1; 2] refute_complete))))))
              (ex_intro _ 10%nat (ex_intro _ [1; 2] (ex_intro _ [wit2] (ex_intro _ 3 (ex_intro _ []
                 (ex_intro _ [1; 4; 4; 4; 2] (ex_intro _ [5; 1; 2] refute_shortest)))))))).
Qed.

Theorem C19_full_false : ~ C19_full.
Proof. exact full_false. Qed.

(* ---- non-vacuity ---------------------------------------------------------------------- *)
(* level-64 shape with the generic pattern (h=4 p=3 e=1, padding 2):
   `h .* e`, `(h p)* e`, required [p; p], priority [padding; h] -> h p h p e;
   `. a .`, required [a], no priority -> a a WILDCARD (greedy: the required a is used for the `.`); the two witnesses *)
Example C19_example :
  make_seq 100 [3; 3] [Cat (Sym 4) (Cat (Star Any) (Sym 1)); Cat (Star (Cat (Sym 4) (Sym 3))) (Sym 1)] 3 [2; 4]
    = Seq [4; 3; 4; 3; 1]
  /\ make_seq 100 [1] [Cat Any (Cat (Sym 1) Any)] 3 [] = Seq [1; 1; -1]
  /\ make_seq 100 [1; 2] [wit1] 3 [] = Impossible
  /\ make_seq 100 [1; 2] [wit2] 3 [] = Seq [1; 4; 4; 4; 2]
  /\ all_ok [Cat (Sym 4) (Cat (Star Any) (Sym 1)); Cat (Star (Cat (Sym 4) (Sym 3))) (Sym 1)].
Proof. repeat (split; [vm_compute; reflexivity |]). repeat constructor. Qed.

(* the hypotheses of C19_greedy_shortest_partial / C19_sound are satisfiable with a
   non-trivial conclusion: a greedy completion with an insertion exists *)
Example C19_greedy_nonempty :
  greedy_completions [Cat (Sym 4) (Sym 1)] [] 3 [1] [4; 1].
Proof. exact greedy_example. Qed.
