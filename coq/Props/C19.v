(* C19 -- Sequence completion is sound, complete and shortest.  (theorems being added) *)
From Coq Require Import ZArith List Bool.
From VC2 Require Import Model.Regex Model.NFA Model.Matcher Model.MatchSeq.
Import ListNotations.
Open Scope Z_scope.

(* the two witnesses of the known finding, on the model (a=1 b=2 c=3 x=4 y=5) *)
Example C19_witnesses :
  make_seq 1000 [1; 2] [Alt (Cat (Sym 1) (Sym 3)) (Cat (Sym 4) (Cat (Sym 1) (Sym 2)))] 3 [] = Impossible
  /\ make_seq 1000 [1; 2] [Alt (Cat (Sym 1) (Cat (Sym 4) (Cat (Sym 4) (Cat (Sym 4) (Sym 2))))) (Cat (Sym 5) (Cat (Sym 1) (Sym 2)))] 3 []
     = Seq [1; 4; 4; 4; 2].
Proof. vm_compute. split; reflexivity. Qed.
