(* C12 -- Quantisation reconstructs within one step and distinguishes indices.
   Property theorems only; each closed by `exact <lemma>`.  Model: Gen/Quant.v,
   Gen/VC2Math.v, Gen/Consts.v -- REGENERATED from /repo on every run (tie T). *)
From Coq Require Import ZArith Lia.
From VC2 Require Import Base.PyZ Gen.VC2Math Gen.Quant Gen.Consts Proofs.QuantProofs.
Open Scope Z_scope.

(* for every index >= 0 (all 0..255 the bitstream can express, and beyond) and
   EVERY integer coefficient: sign kept or zero, error strictly below one step *)
Theorem C12_sign_and_bound : forall idx c : Z, 0 <= idx ->
  let r := inverse_quant (forward_quant c idx) idx in
  (r = 0 \/ sign r = sign c) /\ 4 * Z.abs (c - r) < quant_factor idx.
Proof. exact (fun idx c H => recon_full c idx H). Qed.

(* neither function raises (no fall-through, no zero divisor, no negative exponent) *)
Theorem C12_no_exception : forall idx c : Z, 0 <= idx ->
  forward_quant_dom c idx = true /\ inverse_quant_dom c idx = true /\ quant_factor_dom idx = true.
Proof.
  exact (fun idx c H => conj (proj1 (quant_dom_ok c idx H))
                         (conj (proj2 (quant_dom_ok c idx H)) (quant_factor_dom_ok idx H))).
Qed.

Theorem C12_index0_lossless : forall c : Z, forward_quant c 0 = c /\ inverse_quant c 0 = c.
Proof. exact index0_lossless. Qed.

Theorem C12_factor_strictly_increasing : forall idx : Z, 0 <= idx ->
  quant_factor idx < quant_factor (idx + 1).
Proof. exact quant_factor_strict_mono. Qed.

(* the constant the lossless-quantisation test case relies on, read from the source *)
Theorem C12_inverse_quant_1_strictly_increasing : forall idx : Z, MINIMUM_DISTINCT_QINDEX <= idx ->
  inverse_quant 1 idx < inverse_quant 1 (idx + 1).
Proof. exact iq1_strict_mono. Qed.

Theorem C12_minimum_is_tight : inverse_quant 1 5 = inverse_quant 1 6.
Proof. exact (proj1 iq1_not_mono_below_7). Qed.

(* what the lossless-quantisation test case relies on: choosing
   qindex = (largest quantisation-matrix entry, over ALL subbands) + MINIMUM_DISTINCT_QINDEX, every subband is
   dequantised at an effective index max(qindex - entry, 0) >= MINIMUM_DISTINCT_QINDEX and different matrix
   entries dequantise 1 to different values -- for any matrix, of any size *)
Theorem C12_lossless_test_case_indices_distinct : forall vmax v1 v2 : Z,
  0 <= v1 <= vmax -> 0 <= v2 <= vmax -> v1 <> v2 ->
  let q := vmax + MINIMUM_DISTINCT_QINDEX in
  MINIMUM_DISTINCT_QINDEX <= Z.max (q - v1) 0 /\ MINIMUM_DISTINCT_QINDEX <= Z.max (q - v2) 0 /\
  inverse_quant 1 (Z.max (q - v1) 0) <> inverse_quant 1 (Z.max (q - v2) 0).
Proof. exact (fun vmax v1 v2 => distinct_for_matrix MINIMUM_DISTINCT_QINDEX vmax v1 v2 ltac:(vm_compute; discriminate)). Qed.

(* non-vacuity: concrete instances *)
Example C12_example : inverse_quant (forward_quant (-1000) 23) 23 = -995 /\ quant_factor 23 = 215.
Proof. vm_compute. split; reflexivity. Qed.
