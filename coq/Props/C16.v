(* C16 -- Encoder respects any level table it claims to satisfy.
   Property theorems only.  Models: Model/SeqHeader.v (sequence header enumeration, C15) and
   Model/LevelChoices.v (encoder/pictures.py decide_extended_transform_flag,
   make_extended_transform_parameters with fixes/C16-etp-values.diff, autofill's major_version),
   tied to the code by tools/harness/C16.py under synthetic level tables swapped in-process.

   What is PROVED: every level-constrained key whose value the encoder DECIDES (the sequence
   header encoding, the extended-transform flags and values) or takes from the configuration and
   filters on (level, profile, picture coding mode, wavelet_index, dwt_depth, slice counts, ...:
   `trivial_level_constraints`) is admitted by the column of a single-column level table, or the
   encoder raises its unsatisfiable-configuration error.
   What is REFUTED (genuine defects, recorded as known findings `encoder-ignores-level-<key>`):
   the keys the encoder never consults -- major_version / minor_version (autofill), qindex,
   total_slice_bytes, slice_size_scaler, quant_matrix_values -- and the empty-entry bodge of
   decide_extended_transform_flag in a version-3 stream; C16_major_version_refuted gives the
   model witness for the first, the harness finds the failing inputs for all of them. *)
From Coq Require Import ZArith List Bool.
From VC2 Require Import Base.PyZ Gen.Version Model.SeqHeader Model.LevelChoices
  Proofs.SeqHeaderProofs Proofs.LevelChoicesProofs.
Import ListNotations.
Open Scope Z_scope.

(* the flag choice: a returned flag is permitted by the level (or the level's entry is EMPTY and
   the flag is False -- the documented bodge) and is True whenever the transform requires it *)
Theorem C16_flag_choice_sound : forall (permitted : Z -> bool) (is_empty required : bool) (f : bool),
  decide_extended_transform_flag permitted is_empty required = Some f ->
  (permitted (bz f) = true \/ (is_empty = true /\ f = false)) /\ (required = true -> f = true).
Proof. exact flag_choice_sound. Qed.

(* ... and the unsatisfiable-configuration error is raised exactly when no flag value that can
   express the requirement is permitted *)
Theorem C16_flag_choice_none_iff_unsatisfiable : forall (permitted : Z -> bool) (is_empty required : bool),
  decide_extended_transform_flag permitted is_empty required = None <->
  (forall f : bool, (required = true -> f = true) ->
     ~ (permitted (bz f) = true \/ (is_empty = true /\ f = false))).
Proof. exact flag_choice_none_iff. Qed.

Theorem C16_flag_choice_prefers_false : forall permitted is_empty,
  permitted 0 = true \/ is_empty = true ->
  decide_extended_transform_flag permitted is_empty false = Some false.
Proof. exact flag_choice_prefers_false. Qed.

(* the coded extended transform parameters describe exactly the configured transform *)
Theorem C16_etp_encodes_transform : forall pi ei pa ea pw pd wi wiho dh e,
  make_extended_transform_parameters pi ei pa ea pw pd wi wiho dh = Some e ->
  decoded_wavelet_index_ho wi e = wiho /\ decoded_dwt_depth_ho e = dh.
Proof. exact etp_encodes_transform. Qed.

(* C16_keys: single-column level table [c] (the property's quantifier), any data tables, any
   configuration: if the encoder produces a sequence header and extended transform parameters,
   then all the trivial constraints of the configuration, every (key, value) of the header the
   validator checks, and every coded extended-transform (key, value) are admitted by c.
   (Entries of the two flags are non-empty: `false` arguments; the empty-entry case is the bodge
   recorded as a finding.) *)
Theorem C16_keys : forall (T : tables) (c : column) (cf : features) (cands : list Z) (h : header)
                          (wi wiho dh : Z) (e : etp),
  make_sequence_header T [c] cf cands = Some h ->
  make_extended_transform_parameters
    (allowed_for [c] (trivial_level_constraints cf) K_asym_transform_index_flag) false
    (allowed_for [c] (trivial_level_constraints cf) K_asym_transform_flag) false
    (allowed_for [c] (trivial_level_constraints cf) K_wavelet_index_ho)
    (allowed_for [c] (trivial_level_constraints cf) K_dwt_depth_ho) wi wiho dh = Some e ->
  Forall (fun p => c (fst p) (snd p) = true) (trivial_level_constraints cf ++ coded_keys h ++ coded_etp e).
Proof. exact keys_respect_single_column. Qed.

(* for an arbitrary (multi-column, e.g. the real) table the header keys are admitted by ONE column
   that also admits the trivial constraints: C15_options_respect_column *)
Theorem C16_header_keys_any_table : forall T tbl cf cands h,
  make_sequence_header T tbl cf cands = Some h ->
  exists c : column, In c tbl
    /\ Forall (fun p => c (fst p) (snd p) = true) (trivial_level_constraints cf)
    /\ Forall (fun p => c (fst p) (snd p) = true) (coded_keys h).
Proof.
  exact (fun T tbl cf cands h H => options_respect_column T tbl cf cands h (make_sequence_header_in T tbl cf cands h H)).
Qed.

Theorem C16_autofill_version_lower_bounds : forall fragments h wi e,
  (fragments = true -> 3 <= autofill_major_version fragments h wi e)
  /\ profile_version_implication (h_profile h) <= autofill_major_version fragments h wi e
  /\ 1 <= autofill_major_version fragments h wi e.
Proof. exact autofill_version_bounds. Qed.

(* ---- non-vacuity and the refutation witness ------------------------------------------------- *)
Definition ex_T : tables :=
  mkTables [(1, mkBase 640 480 2 0 0 1 1 640 480 0 0 1 1)]
           [(1, [24; 1]); (2, [25; 1])] [(1, [1; 1])] [(1, [0; 255; 128; 255])] [(0, [0; 0; 0]); (1, [1; 1; 0])].
(* a column that pins major_version = 2 and admits everything else
   (tests/alternative_level_constraints.csv widened to any dwt_depth_ho) *)
Definition ex_col : column := fun k v => if ckey_beq k K_major_version then v =? 2 else true.
Definition ex_cf : features :=
  mkFeatures 1 3 0 [(K_wavelet_index, 4); (K_dwt_depth, 1)]
             (mkVP (640, 480) 2 0 0 (25, 1) (1, 1) (640, 480, 0, 0) (0, 255, 128, 255) 1 1 0).
Definition ex_perm k := allowed_for [ex_col] (trivial_level_constraints ex_cf) k.

Example C16_example_flags :
  decide_extended_transform_flag (fun v => v =? 0) false false = Some false
  /\ decide_extended_transform_flag (fun v => v =? 0) false true = None
  /\ decide_extended_transform_flag (fun v => v =? 1) false false = Some true
  /\ decide_extended_transform_flag (fun _ => false) true false = Some false
  /\ make_extended_transform_parameters (fun _ => true) false (fun _ => true) false (fun w => w =? 1) (fun _ => true) 4 3 0 = None.
Proof. vm_compute. repeat split; reflexivity. Qed.

(* The encoder (model) succeeds for dwt_depth_ho = 1 under ex_col -- all the keys of C16_keys are
   admitted -- but the version autofill then writes (3: asymmetric transform) is NOT admitted:
   the level's major_version is never consulted.  Confirmed on the implementation by the harness
   (ValueNotAllowedInLevel major_version). *)
Theorem C16_major_version_refuted :
  exists (T : tables) (c : column) (cf : features) (cands : list Z) (h : header) (e : etp),
    make_sequence_header T [c] cf cands = Some h
    /\ make_extended_transform_parameters (ex_perm K_asym_transform_index_flag) false (ex_perm K_asym_transform_flag) false
         (ex_perm K_wavelet_index_ho) (ex_perm K_dwt_depth_ho) 4 4 1 = Some e
    /\ c K_major_version (autofill_major_version false h 4 e) = false.
Proof.
  exists ex_T, ex_col, ex_cf, [1],
    (mkHeader 3 1 1 (mkSrc GDefault GDefault GDefault (GPreset 2) GDefault GDefault GDefault CSDefault) 0),
    (mkEtp false None true (Some 1)).
  vm_compute. repeat split; reflexivity.
Qed.
