(* C25 -- Validator command reports verdicts and decoded pictures faithfully.
   Logic core (Model/Cli.v): exit status as a function of the decoder's outcome and the
   output-picture callback's counter.  That the decoder's outcome is only ever Accept or a
   ConformanceError is property C02; that the callback is invoked once per decoded picture in
   decode order is C09.  PARTIAL: file contents, argument parsing and the real main() are covered
   by the differential run (tools/harness/C25.py). *)
From Coq Require Import ZArith List Bool.
From VC2 Require Import Model.Cli Proofs.CliProofs.
Import ListNotations.
Open Scope Z_scope.

Theorem C25_exit0_iff_accept : forall o, validator_exit o = 0 <-> o = VAccept.
Proof. exact validator_exit0_iff. Qed.

Theorem C25_exit2_iff_conformance_error : forall o, validator_exit o = 2 <-> o = VConformanceError.
Proof. exact validator_exit2_iff. Qed.

Theorem C25_never_internal_error_status : forall o, o <> VOtherException -> validator_exit o <> 3.
Proof. exact validator_never_internal. Qed.

(* for ANY number of decoded pictures: picture k (decode order) is written to file pattern%k,
   numbering starts at 0, exactly one file per picture *)
Theorem C25_files_numbered_from_zero : forall (pic name : Type) (fmt : Z -> name) (pics : list pic),
  files_written fmt pics = numbered_from fmt 0 pics /\
  length (files_written fmt pics) = length pics /\
  (forall k p, nth_error pics k = Some p -> nth_error (files_written fmt pics) k = Some (fmt (Z.of_nat k), p)).
Proof.
  intros pic name fmt pics. rewrite files_written_numbered. split; [reflexivity|]. split.
  - apply numbered_length.
  - intros k p H. exact (numbered_nth fmt pics 0 k p H).
Qed.

Theorem C25_no_file_overwritten : forall (pic name : Type) (fmt : Z -> name) (pics : list pic),
  (forall a b, fmt a = fmt b -> a = b) -> NoDup (map fst (files_written fmt pics)).
Proof. intros. rewrite files_written_numbered. apply numbered_nodup. assumption. Qed.

Example C25_example : files_written (fun i => i * 10) [7; 8; 9] = [(0, 7); (10, 8); (20, 9)].
Proof. vm_compute. reflexivity. Qed.
