(* C03 -- Encoder output is always a conformant stream in the requested format.
   Proved here (logic core): the encoder's fragment splitting (Model/EncoderSeq.v, tied to
   encoder/pictures.py by the correspondence run) always satisfies the validator's fragment
   continuity rule, for EVERY slice grid and EVERY fragment size.  The remaining structure
   (inserted data units: C19, numbering/offsets: C07, the validator's rules: C01) is composed in
   Props/C03 as those models land; field validity inside the data units is covered by the
   differential run only (DESIGN.md section 6). *)
From Coq Require Import ZArith List Bool.
From VC2 Require Import Base.PyZ Gen.EncLossless Model.EncoderSeq Proofs.EncoderSeqProofs.
Import ListNotations.
Open Scope Z_scope.

(* after the zero-slice first fragment (received = 0, remaining = slices_x*slices_y) every
   slice-carrying fragment is non-empty, never exceeds the remaining slices, starts at the
   raster position of the slices received so far, and the picture is complete at the end *)
Theorem C03_fragments_conformant_partial : forall slices_x slices_y fragment_slice_count : Z,
  1 <= slices_x -> 0 <= slices_y -> 1 <= fragment_slice_count ->
  frag_check slices_x (frag_split slices_x slices_y fragment_slice_count) 0 (slices_x * slices_y) = true.
Proof. exact frag_split_ok. Qed.

Theorem C03_fragment_sizes : forall slices_x slices_y fragment_slice_count : Z,
  1 <= slices_x -> 0 <= slices_y -> 1 <= fragment_slice_count ->
  Forall (fun f => 1 <= f_count f <= fragment_slice_count) (frag_split slices_x slices_y fragment_slice_count).
Proof. exact frag_split_counts. Qed.

(* lossless HQ pictures of ANY size: with the slice_size_scaler the encoder computes (arithmetic
   re-extracted from make_transform_data_hq_lossless on every run), every rescaled slice length
   field fits its 8-bit field and still covers the coefficient bytes, whatever the largest slice
   component and whatever minimum scaler is requested *)
Theorem C03_lossless_length_fields_fit : forall minimum max_length len : Z,
  0 <= len <= max_length ->
  let s := hq_lossless_slice_size_scaler minimum max_length in
  let f := hq_lossless_rescaled_length len s in
  1 <= s /\ minimum <= s /\ 0 <= f <= 255 /\ len <= f * s /\ f * s < len + s
  /\ hq_lossless_rescaled_length_dom len s = true.
Proof. exact lossless_lengths_fit. Qed.

Example C03_example : frag_split 3 2 4 = [mkfrag 4 0 0; mkfrag 2 1 1].
Proof. vm_compute. reflexivity. Qed.
