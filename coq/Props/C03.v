(* C03 -- Encoder output is always a conformant stream in the requested format.
   Proved here (logic core): the encoder's fragment splitting (Model/EncoderSeq.v, tied to
   encoder/pictures.py by the correspondence run) always satisfies the validator's fragment
   continuity rule, for EVERY slice grid and EVERY fragment size; and (C03_structure_partial, at the
   end of this file, Proofs/IntegEncoder.v) a whole sequence laid out the way the encoder does it
   satisfies seven of the ten stream-structure rules of the validator model Model/Stream.v (C01),
   the other three (version: C07, the two ordering patterns: C19) entering as hypotheses.
   Field validity inside the data units is covered by the differential run only (DESIGN.md section 6). *)
From Coq Require Import ZArith List Bool.
From VC2 Require Import Base.PyZ Gen.EncLossless Model.EncoderSeq Proofs.EncoderSeqProofs.
Import ListNotations.
Open Scope Z_scope.

(* after the zero-slice first fragment (received = 0, remaining = slices_x*slices_y) every
   slice-carrying fragment is non-empty, never exceeds the remaining slices, starts at the
   raster position of the slices received so far, and the picture is complete at the end *)
Theorem C03_fragments_conformant_partial : forall slices_x slices_y fragment_slice_count : Z,
  1 <= slices_x -> 0 <= slices_y -> 1 <= fragment_slice_count ->
  frag_check slices_x (frag_split slices_x slices_y fragment_slice_count) 0 (slices_x * slices_y) = true.
Proof. exact frag_split_ok. Qed.

Theorem C03_fragment_sizes : forall slices_x slices_y fragment_slice_count : Z,
  1 <= slices_x -> 0 <= slices_y -> 1 <= fragment_slice_count ->
  Forall (fun f => 1 <= f_count f <= fragment_slice_count) (frag_split slices_x slices_y fragment_slice_count).
Proof. exact frag_split_counts. Qed.

(* lossless HQ pictures of ANY size: with the slice_size_scaler the encoder computes (arithmetic
   re-extracted from make_transform_data_hq_lossless on every run), every rescaled slice length
   field fits its 8-bit field and still covers the coefficient bytes, whatever the largest slice
   component and whatever minimum scaler is requested *)
Theorem C03_lossless_length_fields_fit : forall minimum max_length len : Z,
  0 <= len <= max_length ->
  let s := hq_lossless_slice_size_scaler minimum max_length in
  let f := hq_lossless_rescaled_length len s in
  1 <= s /\ minimum <= s /\ 0 <= f <= 255 /\ len <= f * s /\ f * s < len + s
  /\ hq_lossless_rescaled_length_dom len s = true.
Proof. exact lossless_lengths_fit. Qed.

Example C03_example : frag_split 3 2 4 = [mkfrag 4 0 0; mkfrag 2 1 1].
Proof. vm_compute. reflexivity. Qed.

(* ------------------------------------------------------------------------------------------
   The structure of a whole sequence against the validator model (integration C03 x C01).

   Layout (Proofs/IntegEncoder.v seq_kinds): a sequence header h; then for each picture of the list ps
   either ONE picture data unit (fragment_slice_count = 0) or a first fragment followed by the
   slice-carrying fragments frag_split slices_x slices_y fragment_slice_count (the model of
   make_fragment_parse_data_units tied by tools/harness/C03.py); picture i carries the number
   (start + i) mod 2^32; then the end of sequence.  `us` is ANY list of data units with these kinds
   (any lengths) whose parse offsets satisfy the offsets rule -- C03_autofill_offsets: the offsets
   autofill computes (previous = length of the previous unit, next = own length, 0 at the end) do.
   spec_ok: at least one slice each way, fragment_slice_count >= 0.

   DISCHARGED (rule checkers of Model/Stream.v, written independently of the validator):
     ends_ok, headers_identical, codes_allowed_in_profile (HQ pictures in profile 3, LD in 0),
     picnums_ok (consecutive mod 2^32; when pictures are fields: start even), whole_frames (fields:
     an even number of pictures), fragments_ok (from C03_fragments_conformant_partial + C03_fragment_sizes),
     offsets_ok for autofill's offsets.
   HYPOTHESES (`_partial`):
     version_ok          -- major_version is the minimal one supporting what is used.  This is what
                            C07_major_version_agrees / C07_major_version_least prove for autofill's
                            version over C07's OWN sequence model (Model/Autofill*.v); that model and
                            Model/Stream.v's `hdr`/`tparams` abstraction are not connected by a theorem.
     level_pattern_ok, generic_pattern_ok -- the level's and the generic data-unit ordering patterns match the parse
                            codes: encoder/sequence.py obtains the sequence from make_matching_sequence,
                            whose result matches every pattern (C19_sound); the automata here are
                            abstract (C18 ties the real Matcher), so this is not composed formally.
     units_valid         -- individually valid data units (13 <= length, known profile/level, positive
                            slice counts, no extended transform parameters below version 3).
   CONCLUSION: the seven rules hold and, with the hypotheses, the validator model accepts (C01_iff). *)
From VC2 Require Import Model.Stream Proofs.StreamRefine Proofs.StreamLift Proofs.IntegEncoder.

Theorem C03_structure_partial :
  forall (gst : Type) (gstart : gst) (gstep : gst -> symbol -> option gst) (gcomplete : gst -> bool)
         (lst : Type) (lstart : Z -> lst) (lstep : Z -> lst -> symbol -> option lst) (lcomplete : Z -> lst -> bool)
         (level_known : Z -> bool),
  gen_first_is_seqhdr_b gstart gstep = true ->
  forall (h : hdr) (start : Z) (ps : list pic_spec) (us : list dunit),
  map u_kind us = seq_kinds h start ps -> Forall spec_ok ps ->
  (h_pcm h = 1 -> start mod 2 = 0 /\ Z.of_nat (length ps) mod 2 = 0) ->
  Forall (fun p => h_profile h = if ps_hq p then 3 else 0) ps ->
  offsets_ok us = true ->
  version_ok us = true ->
  level_pattern_ok lst lstart lstep lcomplete us = true -> generic_pattern_ok gst gstart gstep gcomplete us = true ->
  units_valid level_known us = true ->
  ends_ok us = true /\ headers_identical us = true /\ codes_allowed_in_profile us = true /\ picnums_ok us = true /\
  whole_frames us = true /\ fragments_ok us = true /\
  run gst gstart gstep gcomplete lst lstart lstep lcomplete level_known false us = Accept.
Proof. exact structure_accepted. Qed.

(* the fragment rule alone, with no hypothesis beyond the layout *)
Theorem C03_structure_fragments : forall (h : hdr) (start : Z) (ps : list pic_spec) (us : list dunit),
  map u_kind us = seq_kinds h start ps -> Forall spec_ok ps -> fragments_ok us = true.
Proof. exact structure_fragments. Qed.

Theorem C03_autofill_offsets : forall h start ps (lens : list Z),
  length lens = length (seq_kinds h start ps) ->
  let us := with_offsets 0 (combine (seq_kinds h start ps) lens) in
  map u_kind us = seq_kinds h start ps /\ offsets_ok us = true.
Proof. exact autofill_units. Qed.

(* non-vacuity: two HQ pictures -- one whole, one in fragments of 4 slices on a 3x2 grid -- numbered
   2^32-1, 0 (wrap-around); generic automaton "sequence_header .* end_of_sequence", no level restriction:
   every hypothesis of C03_structure_partial holds and the validator model accepts *)
Definition C03_ex_gstep (s : Z) (sym : symbol) : option Z :=
  if s =? 0 then (match sym with SSeqHdr => Some 1 | _ => None end)
  else match sym with SEos => Some 2 | _ => Some 1 end.
Example C03_example_structure :
  let h := mkHdr 1 3 3 0 0 1 in
  let ps := [mkPicSpec true (mkTp 4 4 0 3 2) 0; mkPicSpec true (mkTp 4 4 0 3 2) 4] in
  let ks := seq_kinds h 4294967295 ps in
  let us := with_offsets 0 (combine ks [20; 100; 30; 60; 40; 13]) in
  map u_kind us = [KSeqHdr h; KPic true 4294967295 (mkTp 4 4 0 3 2); KFragFirst true 0 (mkTp 4 4 0 3 2);
                   KFragData true 0 4 0 0; KFragData true 0 2 1 1; KEos] /\
  Forall spec_ok ps /\ offsets_ok us = true /\ version_ok us = true /\ units_valid (fun _ => true) us = true /\
  level_pattern_ok unit (fun _ => tt) (fun _ _ _ => Some tt) (fun _ _ => true) us = true /\
  generic_pattern_ok Z 0 C03_ex_gstep (fun s => s =? 2) us = true /\
  run Z 0 C03_ex_gstep (fun s => s =? 2) unit (fun _ => tt) (fun _ _ _ => Some tt) (fun _ _ => true) (fun _ => true) false us = Accept.
Proof.
  cbv zeta. split; [vm_compute; reflexivity|]. split.
  { unfold spec_ok. repeat constructor; cbn; try reflexivity; discriminate. }
  vm_compute. repeat split; reflexivity.
Qed.
