(* C03 -- Encoder output is always a conformant stream in the requested format.
   Proved here (logic core): the encoder's fragment splitting (Model/EncoderSeq.v, tied to
   encoder/pictures.py by the correspondence run) always satisfies the validator's fragment
   continuity rule, for EVERY slice grid and EVERY fragment size; and (C03_structure_partial, at the
   end of this file, Proofs/IntegEncoder.v) a whole sequence laid out the way the encoder does it
   satisfies seven of the ten stream-structure rules of the validator model Model/Stream.v (C01),
   the other three (version: C07, the two ordering patterns: C19) entering as hypotheses.
   Those three are DISCHARGED in the last part of this file (C03_structure): for the model of
   make_sequence + autofill (Model/IntegSeq.v: picture data units -> make_matching_sequence ->
   data_unit_makers -> autofilled version and offsets) the validator model, with its pattern
   automata instantiated by the C18 Matcher, accepts.
   Field validity inside the data units is covered by the differential run only (DESIGN.md section 6). *)
From Coq Require Import ZArith List Bool.
From VC2 Require Import Base.PyZ Gen.EncLossless Model.EncoderSeq Proofs.EncoderSeqProofs.
Import ListNotations.
Open Scope Z_scope.

(* after the zero-slice first fragment (received = 0, remaining = slices_x*slices_y) every
   slice-carrying fragment is non-empty, never exceeds the remaining slices, starts at the
   raster position of the slices received so far, and the picture is complete at the end *)
Theorem C03_fragments_conformant_partial : forall slices_x slices_y fragment_slice_count : Z,
  1 <= slices_x -> 0 <= slices_y -> 1 <= fragment_slice_count ->
  frag_check slices_x (frag_split slices_x slices_y fragment_slice_count) 0 (slices_x * slices_y) = true.
Proof. exact frag_split_ok. Qed.

Theorem C03_fragment_sizes : forall slices_x slices_y fragment_slice_count : Z,
  1 <= slices_x -> 0 <= slices_y -> 1 <= fragment_slice_count ->
  Forall (fun f => 1 <= f_count f <= fragment_slice_count) (frag_split slices_x slices_y fragment_slice_count).
Proof. exact frag_split_counts. Qed.

(* lossless HQ pictures of ANY size: with the slice_size_scaler the encoder computes (arithmetic
   re-extracted from make_transform_data_hq_lossless on every run), every rescaled slice length
   field fits its 8-bit field and still covers the coefficient bytes, whatever the largest slice
   component and whatever minimum scaler is requested *)
Theorem C03_lossless_length_fields_fit : forall minimum max_length len : Z,
  0 <= len <= max_length ->
  let s := hq_lossless_slice_size_scaler minimum max_length in
  let f := hq_lossless_rescaled_length len s in
  1 <= s /\ minimum <= s /\ 0 <= f <= 255 /\ len <= f * s /\ f * s < len + s
  /\ hq_lossless_rescaled_length_dom len s = true.
Proof. exact lossless_lengths_fit. Qed.

Example C03_example : frag_split 3 2 4 = [mkfrag 4 0 0; mkfrag 2 1 1].
Proof. vm_compute. reflexivity. Qed.

(* ------------------------------------------------------------------------------------------
   The structure of a whole sequence against the validator model (integration C03 x C01).

   Layout (Proofs/IntegEncoder.v seq_kinds): a sequence header h; then for each picture of the list ps
   either ONE picture data unit (fragment_slice_count = 0) or a first fragment followed by the
   slice-carrying fragments frag_split slices_x slices_y fragment_slice_count (the model of
   make_fragment_parse_data_units tied by tools/harness/C03.py); picture i carries the number
   (start + i) mod 2^32; then the end of sequence.  `us` is ANY list of data units with these kinds
   (any lengths) whose parse offsets satisfy the offsets rule -- C03_autofill_offsets: the offsets
   autofill computes (previous = length of the previous unit, next = own length, 0 at the end) do.
   spec_ok: at least one slice each way, fragment_slice_count >= 0.

   DISCHARGED (rule checkers of Model/Stream.v, written independently of the validator):
     ends_ok, headers_identical, codes_allowed_in_profile (HQ pictures in profile 3, LD in 0),
     picnums_ok (consecutive mod 2^32; when pictures are fields: start even), whole_frames (fields:
     an even number of pictures), fragments_ok (from C03_fragments_conformant_partial + C03_fragment_sizes),
     offsets_ok for autofill's offsets.
   HYPOTHESES (`_partial`):
     version_ok          -- major_version is the minimal one supporting what is used.  This is what
                            C07_major_version_agrees / C07_major_version_least prove for autofill's
                            version over C07's OWN sequence model (Model/Autofill*.v); that model and
                            Model/Stream.v's `hdr`/`tparams` abstraction are not connected by a theorem.
     level_pattern_ok, generic_pattern_ok -- the level's and the generic data-unit ordering patterns match the parse
                            codes: encoder/sequence.py obtains the sequence from make_matching_sequence,
                            whose result matches every pattern (C19_sound); the automata here are
                            abstract (C18 ties the real Matcher), so this is not composed formally.
     units_valid         -- individually valid data units (13 <= length, known profile/level, positive
                            slice counts, no extended transform parameters below version 3).
   CONCLUSION: the seven rules hold and, with the hypotheses, the validator model accepts (C01_iff). *)
From VC2 Require Import Model.Stream Proofs.StreamRefine Proofs.StreamLift Proofs.IntegEncoder.

Theorem C03_structure_partial :
  forall (gst : Type) (gstart : gst) (gstep : gst -> symbol -> option gst) (gcomplete : gst -> bool)
         (lst : Type) (lstart : Z -> lst) (lstep : Z -> lst -> symbol -> option lst) (lcomplete : Z -> lst -> bool)
         (level_known : Z -> bool),
  gen_first_is_seqhdr_b gstart gstep = true ->
  forall (h : hdr) (start : Z) (ps : list pic_spec) (us : list dunit),
  map u_kind us = seq_kinds h start ps -> Forall spec_ok ps ->
  (h_pcm h = 1 -> start mod 2 = 0 /\ Z.of_nat (length ps) mod 2 = 0) ->
  Forall (fun p => h_profile h = if ps_hq p then 3 else 0) ps ->
  offsets_ok us = true ->
  version_ok us = true ->
  level_pattern_ok lst lstart lstep lcomplete us = true -> generic_pattern_ok gst gstart gstep gcomplete us = true ->
  units_valid level_known us = true ->
  ends_ok us = true /\ headers_identical us = true /\ codes_allowed_in_profile us = true /\ picnums_ok us = true /\
  whole_frames us = true /\ fragments_ok us = true /\
  run gst gstart gstep gcomplete lst lstart lstep lcomplete level_known false us = Accept.
Proof. exact structure_accepted. Qed.

(* the fragment rule alone, with no hypothesis beyond the layout *)
Theorem C03_structure_fragments : forall (h : hdr) (start : Z) (ps : list pic_spec) (us : list dunit),
  map u_kind us = seq_kinds h start ps -> Forall spec_ok ps -> fragments_ok us = true.
Proof. exact structure_fragments. Qed.

Theorem C03_autofill_offsets : forall h start ps (lens : list Z),
  length lens = length (seq_kinds h start ps) ->
  let us := with_offsets 0 (combine (seq_kinds h start ps) lens) in
  map u_kind us = seq_kinds h start ps /\ offsets_ok us = true.
Proof. exact autofill_units. Qed.

(* non-vacuity: two HQ pictures -- one whole, one in fragments of 4 slices on a 3x2 grid -- numbered
   2^32-1, 0 (wrap-around); generic automaton "sequence_header .* end_of_sequence", no level restriction:
   every hypothesis of C03_structure_partial holds and the validator model accepts *)
Definition C03_ex_gstep (s : Z) (sym : symbol) : option Z :=
  if s =? 0 then (match sym with SSeqHdr => Some 1 | _ => None end)
  else match sym with SEos => Some 2 | _ => Some 1 end.
Example C03_example_structure :
  let h := mkHdr 1 3 3 0 0 1 in
  let ps := [mkPicSpec true (mkTp 4 4 0 3 2) 0; mkPicSpec true (mkTp 4 4 0 3 2) 4] in
  let ks := seq_kinds h 4294967295 ps in
  let us := with_offsets 0 (combine ks [20; 100; 30; 60; 40; 13]) in
  map u_kind us = [KSeqHdr h; KPic true 4294967295 (mkTp 4 4 0 3 2); KFragFirst true 0 (mkTp 4 4 0 3 2);
                   KFragData true 0 4 0 0; KFragData true 0 2 1 1; KEos] /\
  Forall spec_ok ps /\ offsets_ok us = true /\ version_ok us = true /\ units_valid (fun _ => true) us = true /\
  level_pattern_ok unit (fun _ => tt) (fun _ _ _ => Some tt) (fun _ _ => true) us = true /\
  generic_pattern_ok Z 0 C03_ex_gstep (fun s => s =? 2) us = true /\
  run Z 0 C03_ex_gstep (fun s => s =? 2) unit (fun _ => tt) (fun _ _ _ => Some tt) (fun _ _ => true) (fun _ => true) false us = Accept.
Proof.
  cbv zeta. split; [vm_compute; reflexivity|]. split.
  { unfold spec_ok. repeat constructor; cbn; try reflexivity; discriminate. }
  vm_compute. repeat split; reflexivity.
Qed.

(* ==========================================================================================
   C03_structure: the three hypotheses of C03_structure_partial discharged
   (integration C03 x C07 x C18 x C19 x C01; Model/IntegSeq.v, Proofs/IntegVersion.v, IntegPatterns.v,
   IntegSequence.v; ADDED to this file; above, only the file header comment was extended)
   ========================================================================================== *)
From VC2 Require Import Gen.Version Model.Regex Model.NFA Model.Matcher Model.MatchSeq Proofs.MatchSeqProofs
  Model.IntegSeq Proofs.IntegPatterns Proofs.IntegVersion Proofs.IntegSequence.

(* ---- 1. version_ok via C07 ---------------------------------------------------------------
   to_af sh (Model/IntegSeq.v) maps a Model/Stream.v data unit to a C07 data-unit description (parse code,
   picture / fragment numbers, fragment_slice_count, wavelet_index + a fully explicit
   extended_transform_parameters entry; sequence headers: the profile of the Stream header and the preset
   fields `sh` -- which Model/Stream.v abstracts to the single number h_pvmin = hdr_pvmin d sh, the largest
   version the VALIDATOR logs for the presets (AutofillSpec.val_header_logs)).
   The two formulations of the validator's version rule agree: Model/Stream.v `version_ok` (C01) holds iff
   AutofillSpec `val_version_ok` (C07) holds of the mapped sequence labelled with the header's major_version.
   Hypotheses: the first data unit is the header h0, every repeated header has its profile (C01's rule
   headers_identical gives more), slice-bearing fragments code a non-zero count (what makes them
   KFragData), and the pictures are codable under that label (below 3 no asymmetric transform: the
   tp_valid part of C01's units_valid = C07's etp_codable). *)
Theorem C03_version_rules_agree :
  forall (d : AF.defaults) (sh : AF.seqhdr) (h0 : hdr), h_pvmin h0 = hdr_pvmin d sh ->
  forall us : list dunit, first_hdr us = Some h0 -> Forall unit_nz us -> Forall (same_profile h0) us ->
  Forall (tp_codable (h_major h0)) us ->
  (version_ok us = true <-> AS.val_version_ok d (h_major h0) (map (to_af sh) us)).
Proof. exact version_rules_agree. Qed.

(* hence (C07_major_version_least): a sequence whose header carries the version autofill_major_version
   computes (Autofill.seq_version over the mapped data units) satisfies Model/Stream.v's version rule, and
   its pictures are codable under that label ... *)
Theorem C03_autofilled_version_ok :
  forall (d : AF.defaults) (sh : AF.seqhdr) (h0 : hdr), h_pvmin h0 = hdr_pvmin d sh ->
  forall us : list dunit, first_hdr us = Some h0 -> Forall unit_nz us -> Forall (same_profile h0) us ->
  h_major h0 = autofilled_version d sh (map u_kind us) ->
  version_ok us = true /\ Forall (tp_codable (h_major h0)) us.
Proof. exact autofilled_version_ok. Qed.

(* ... and no smaller label satisfies it *)
Theorem C03_autofilled_version_least :
  forall (d : AF.defaults) (sh : AF.seqhdr) (h0 : hdr), h_pvmin h0 = hdr_pvmin d sh ->
  forall us : list dunit, first_hdr us = Some h0 -> Forall unit_nz us -> Forall (same_profile h0) us ->
  Forall (tp_codable (h_major h0)) us -> version_ok us = true ->
  autofilled_version d sh (map u_kind us) <= h_major h0.
Proof. exact autofilled_version_least. Qed.

(* ---- 2. the ordering patterns via C18 -------------------------------------------------------
   Model/Stream.v's abstract automata instantiated with the C18 Matcher model (Directed = repaired code):
   state = Matcher, step = match_symbol on the parse-code name (sym_num: the eight names numbered in sorted
   order), complete = is_complete.  For ANY pattern r using `$` only where nothing mandatory follows, the
   automaton accepts a list of parse codes iff their names are in the language of r
   (C18_accepts_iff_viable_prefix + C18_complete_iff_match). *)
Theorem C03_pattern_automaton_iff_lang : forall (r : re) (syms : list symbol), eos_ok r = true ->
  (automaton_accepts matcher mstep is_complete (new_matcher Directed r) syms = true <-> lang r (map sym_num syms)).
Proof. exact matcher_automaton_accepts_iff_lang. Qed.

(* the generic pattern: the AST is C18's parse of "sequence_header .* end_of_sequence"; the rule holds for
   every data-unit list that starts with a sequence header and ends with an end of sequence; the automaton
   satisfies the Section hypothesis of C01 / C03_structure_partial / C05 (sequence header first) *)
Theorem C03_generic_pattern_parse : parse_regex generic_tokens = inr generic_re.
Proof. exact generic_re_parse. Qed.

Theorem C03_generic_pattern_ok : forall (u0 : dunit) (h0 : hdr) (mid : list dunit) (e : dunit),
  u_kind u0 = KSeqHdr h0 -> u_kind e = KEos -> Mgeneric_ok (u0 :: mid ++ [e]) = true.
Proof. exact generic_ok_ends. Qed.

Theorem C03_generic_first_is_seqhdr : gen_first_is_seqhdr_b gstart_m mstep = true.
Proof. exact generic_first_is_seqhdr. Qed.

(* the level's pattern, for an ARBITRARY level table lvl_re: the rule is `the names match the pattern`;
   and C01's second Section hypothesis holds for every level whose pattern lets a sequence start with a
   sequence header *)
Theorem C03_level_pattern_iff_lang : forall (lvl_re : Z -> re) (us : list dunit) (h0 : hdr),
  first_hdr us = Some h0 -> eos_ok (lvl_re (h_level h0)) = true ->
  (Mlevel_ok lvl_re us = true <-> lang (lvl_re (h_level h0)) (map sym_num (map u_symbol us))).
Proof. exact level_ok_iff. Qed.

Theorem C03_level_accepts_seqhdr : forall (lvl_re : Z -> re) (l : Z),
  eos_ok (lvl_re l) = true -> (exists v, lang (lvl_re l) (8 :: v)) ->
  lvl_accepts_seqhdr_b (lstart_m lvl_re) lstep_m l = true.
Proof. exact level_accepts_seqhdr. Qed.

(* ---- 3. the whole sequence ------------------------------------------------------------------
   Model/IntegSeq.v make_sequence_kinds = encoder/sequence.py make_sequence followed by autofill, at
   data-unit level:  the picture data units pics_kinds start ps (C03: one picture unit or first fragment +
   frag_split; numbers (start + i) mod 2^32 = C07_picnum_all_auto for start = 0) -> their parse-code names ->
   Model/MatchSeq.v make_seq (C19) with the generic pattern, the level's pattern lvl_re (h_level h), any
   extra patterns, symbol_priority [padding_data; sequence_header], depth_limit 3 -> data_unit_makers
   (weave: the header h for every "sequence_header", padding / auxiliary data / end of sequence units, pop(0)
   of the picture units under the first one's parse-code name; KeyError / IndexError = None) -> every header's
   major_version := C07's seq_version of the whole sequence -> fill_offsets (next = own length, 0 at the
   end; previous = length of the previous unit) for ANY serialised lengths `lens` >= 13.

   DISCHARGED: all ten rules of Model/Stream.v -- ends_ok (first header from the generic pattern), offsets_ok,
   headers_identical, codes_allowed_in_profile, version_ok (C07 via C03_autofilled_version_ok), picnums_ok,
   whole_frames, fragments_ok, level_pattern_ok and generic_pattern_ok (C19_sound + C18) -- and
   units_valid, hence (C01_iff) the validator model with the Matcher automata ACCEPTS.
   HYPOTHESES that remain:
     - make_sequence_kinds ... = Some ks: the search returned (C19_terminates: fuel; Impossible =
       IncompatibleLevelAndDataUnitError) and the makers knew every name;
     - no end_of_sequence data unit before the last one (eos_only_last us).  DISCHARGED when the level's pattern
       has the shape `<no end_of_sequence, no wildcard, no $> end_of_sequence` (ends_with_eos: levels 1-7 and
       64-66 of the real table -- evaluated on the live table by the bridge run), because the names match it.
       For level 0 (`.*`) it stays a hypothesis: `.` matches end_of_sequence, a caller's pattern such as
       `sequence_header end_of_sequence .*` forces one, and C19 proves soundness of the search, not that it
       avoids unforced insertions;
     - eos_ok of the level's pattern and of the extra patterns (C18/C19's hypothesis on `$`);
     - h_pvmin h = hdr_pvmin d sh (what h_pvmin MEANS), profile/level of the enums, lengths >= 13,
       one codec configuration for all pictures (same profile, all fragmented or none), the
       conditions of C03_structure_partial on the pictures (spec_ok, fields: even start and count).
   Payload validity (coefficients, slice sizes) is not in this model: differential run only. *)
Theorem C03_structure :
  forall (lvl_re : Z -> re) (level_known : Z -> bool) (d : AF.defaults) (sh : AF.seqhdr)
         (fuel : nat) (extra : list re) (h : hdr) (start : Z) (ps : list pic_spec) (hq whole : bool)
         (ks : list kind) (lens : list Z),
  let us := fill_offsets 0 (combine ks lens) in
  eos_ok (lvl_re (h_level h)) = true -> all_ok extra ->
  Forall spec_ok ps -> Forall (fun p => ps_hq p = hq /\ (ps_fsc p =? 0) = whole) ps ->
  (h_pcm h = 1 -> start mod 2 = 0 /\ Z.of_nat (length ps) mod 2 = 0) ->
  Forall (fun p => h_profile h = if ps_hq p then 3 else 0) ps ->
  h_pvmin h = hdr_pvmin d sh ->
  make_sequence_kinds fuel lvl_re extra d sh h (pics_kinds start ps) = Some ks -> length lens = length ks ->
  Forall (fun l => 13 <= l) lens -> profile_known (h_profile h) = true -> level_known (h_level h) = true ->
  (ends_with_eos (lvl_re (h_level h)) = true \/ eos_only_last us = true) ->
  map u_kind us = ks /\ units_valid level_known us = true /\
  ends_ok us = true /\ offsets_ok us = true /\ headers_identical us = true /\ codes_allowed_in_profile us = true /\
  version_ok us = true /\ picnums_ok us = true /\ whole_frames us = true /\ fragments_ok us = true /\
  Mlevel_ok lvl_re us = true /\ Mgeneric_ok us = true /\
  Mrun lvl_re level_known us = Accept.
Proof. exact make_sequence_accepted. Qed.

(* non-vacuity: level 66's pattern `(sequence_header high_quality_picture)* end_of_sequence` (any other
   level: `.*`), default-table of C07's example, header without presets.
   (1) two HQ pictures numbered 2^32-1, 0 at level 66: make_sequence interleaves headers, version 2;
   (2) a fragmented HQ picture (3x2 slices, 4 per fragment) at level 0: version 3;
   (3) an LD picture with the extra pattern `(. padding_data)* end_of_sequence`: padding inserted, version 1.
   Every hypothesis of C03_structure holds and the validator model accepts. *)
Definition C03_ex_lvl (l : Z) : re := if l =? 66 then Cat (Star (Cat (Sym 8) (Sym 3))) (Sym 2) else Star Any.
Definition C03_ex_d : AF.defaults :=
  AF.mk_defaults 16 None 3 (false, 3) (false, 1) (false, 3) (false, 0) (false, 0) (false, 0) 0 4 false 4 false 0 0 0.
Definition C03_ex_sh : AF.seqhdr :=
  let p := AF.mk_preset None None in AF.mk_seqhdr AF.Auto None p p p p p p.
Definition C03_ex_run (extra : list re) (h : hdr) (start : Z) (ps : list pic_spec) (lens : list Z) :=
  option_map (fun us => (map (fun u => sym_num (u_symbol u)) us, option_map h_major (first_hdr us),
                         eos_only_last us, Mrun C03_ex_lvl (fun _ => true) us))
             (make_sequence_units 100 C03_ex_lvl extra C03_ex_d C03_ex_sh h (pics_kinds start ps) lens).
Example C03_example_make_sequence :
  let tp := mkTp 4 4 0 3 2 in
  hdr_pvmin C03_ex_d C03_ex_sh = 1 /\
  C03_ex_run [] (mkHdr 1 0 3 66 0 1) 4294967295 [mkPicSpec true tp 0; mkPicSpec true tp 0] [20; 100; 20; 100; 13]
    = Some ([8; 3; 8; 3; 2], Some 2, true, Accept) /\
  C03_ex_run [] (mkHdr 1 0 3 0 0 1) 7 [mkPicSpec true tp 4] [20; 30; 60; 40; 13]
    = Some ([8; 4; 4; 4; 2], Some 3, true, Accept) /\
  C03_ex_run [Cat (Star (Cat Any (Sym 7))) (Sym 2)] (mkHdr 1 0 0 0 0 1) 7 [mkPicSpec false tp 0] [20; 13; 30; 13; 13]
    = Some ([8; 7; 5; 7; 2], Some 1, true, Accept).
Proof. vm_compute. repeat split; reflexivity. Qed.

(* the comparison function of the correspondence run (Model/IntegSeqCorr.v bridge_code: real data units =
   make_sequence_units on the same inputs, decidable hypotheses of C03_structure, the validator's logs) on a
   literal case of the kind tools/harness/C03.py writes: level 64 `(sequence_header low_delay_picture)* end_of_sequence`,
   one LD picture, frame-rate preset 16 (logged bound 3) *)
From VC2 Require Import Model.IntegSeqCorr.
Example C03_example_bridge_case :
  bridge_code (mkBCase [UL 0 1 3 0 64 0 3 23 23 0; UL 1 0 5 4 4 0 131073 40 40 23; UL 6 0 0 0 0 0 0 13 0 40]
                       [TLP; TStr 8; TStr 5; TRP; TMod MStar; TStr 2] []
                       (BD 16 None 3 (false, 3) (false, 1) (false, 3) (false, 0) (false, 0) (false, 0) 0 4 false 4 false 0 0 0)
                       (BH BA None (BP (Some true) (Some 16)) (BP (Some false) None) (BP (Some false) None) (BP None None) (BP None None) (BP None None))
                       (0, 64, 0, 3) 5 [(0, 4, 4, 0, 2, 1, 0)] 3 200) = 0.
Proof. vm_compute. reflexivity. Qed.

(* the bridge is not vacuous either: a fragmented HQ picture: autofill says 3, Model/Stream.v's version rule
   accepts the label 3 and rejects 2 (fragments need 3); an HQ picture: autofill says 2, label 3 is rejected
   (not minimal) *)
Example C03_example_version :
  let tp := mkTp 4 4 0 3 2 in
  let us v := [mkUnit (KSeqHdr (mkHdr 1 v 3 0 0 1)) 20 20 0; mkUnit (KFragFirst true 0 tp) 30 30 20;
               mkUnit (KFragData true 0 6 0 0) 100 100 30; mkUnit KEos 13 0 100] in
  let vs v := [mkUnit (KSeqHdr (mkHdr 1 v 3 0 0 1)) 20 20 0; mkUnit (KPic true 0 tp) 100 100 20; mkUnit KEos 13 0 100] in
  autofilled_version C03_ex_d C03_ex_sh (map u_kind (us 0)) = 3 /\ version_ok (us 3) = true /\ version_ok (us 2) = false /\
  autofilled_version C03_ex_d C03_ex_sh (map u_kind (vs 0)) = 2 /\ version_ok (vs 2) = true /\ version_ok (vs 3) = false.
Proof. vm_compute. repeat split; reflexivity. Qed.

(* the shape that discharges eos_only_last: level 66's pattern has it, level 0's `.*` does not *)
Example C03_example_level_shape : ends_with_eos (C03_ex_lvl 66) = true /\ ends_with_eos (C03_ex_lvl 0) = false.
Proof. vm_compute. split; reflexivity. Qed.
