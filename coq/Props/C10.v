(* C10 -- Concatenated sequences are validated and decoded independently.
   Model: Model/Stream.v (tie C) + the State field lists regenerated from pseudocode/state.py
   (Gen/StateFields.v, tie T). *)
From Coq Require Import ZArith List Bool String.
From VC2 Require Import Base.PyZ Gen.StateFields Model.Stream Model.StreamContent Proofs.StreamLift Proofs.StreamContentProofs.
Import ListNotations.
Open Scope Z_scope.

(* reset_state keeps only I/O plumbing: a field added to retained_state_fields in the source breaks
   this theorem on the next run *)
Theorem C10_retained_are_io_only :
  forallb (str_in io_only_entries) retained_state_fields = true.
Proof. exact retained_io_only. Qed.

(* every State entry the stream-level model reads or writes exists in State and is erased by
   reset_state -- which is what Model/Stream.v's `init_state` at each sequence start assumes *)
Theorem C10_modelled_entries_are_reset :
  forallb (str_in state_entry_names) modelled_state_entries = true /\
  forallb (fun f => negb (str_in retained_state_fields f)) modelled_state_entries = true.
Proof. exact (conj modelled_are_entries modelled_not_retained). Qed.

Section C10.
  Variable gst : Type.
  Variable gstart : gst.
  Variable gstep : gst -> symbol -> option gst.
  Variable gcomplete : gst -> bool.
  Variable lst : Type.
  Variable lstart : Z -> lst.
  Variable lstep : Z -> lst -> symbol -> option lst.
  Variable lcomplete : Z -> lst -> bool.
  Variable level_known : Z -> bool.

  (* for any list of complete sequences: accepted iff each is accepted alone *)
  Theorem C10_concatenation_accepted_iff_each : forall seqs, Forall (fun s => eos_only_last s = true) seqs ->
    (run_stream gst gstart gstep gcomplete lst lstart lstep lcomplete level_known false seqs = Accept <->
     Forall (fun s => run gst gstart gstep gcomplete lst lstart lstep lcomplete level_known false s = Accept) seqs).
  Proof. exact (stream_lift gst gstart gstep gcomplete lst lstart lstep lcomplete level_known false). Qed.

  (* appending or prepending conformant sequences never changes whether a sequence is accepted *)
  Theorem C10_independent : forall before sq after,
    Forall (fun s => eos_only_last s = true) before -> eos_only_last sq = true ->
    Forall (fun s => eos_only_last s = true) after ->
    Forall (fun s => run gst gstart gstep gcomplete lst lstart lstep lcomplete level_known false s = Accept) before ->
    Forall (fun s => run gst gstart gstep gcomplete lst lstart lstep lcomplete level_known false s = Accept) after ->
    (run_stream gst gstart gstep gcomplete lst lstart lstep lcomplete level_known false (before ++ [sq] ++ after) = Accept
     <-> run gst gstart gstep gcomplete lst lstart lstep lcomplete level_known false sq = Accept).
  Proof. exact (independent gst gstart gstep gcomplete lst lstart lstep lcomplete level_known false). Qed.

  (* ... and the validator outputs exactly the concatenation of the pictures each sequence produces
     alone (run_obs = verdict, number of sequences gone through, picture numbers output in order) *)
  Theorem C10_pictures_are_concatenated : forall seqs,
    Forall (fun s => eos_only_last s = true) seqs ->
    Forall (fun s => run gst gstart gstep gcomplete lst lstart lstep lcomplete level_known false s = Accept) seqs ->
    run_obs gst gstart gstep gcomplete lst lstart lstep lcomplete level_known false true
            (init_state gst gstart lst) (List.concat seqs) 0 [] =
    (Accept, Z.of_nat (List.length seqs),
     List.concat (List.map (pics_of gst gstart gstep gcomplete lst lstart lstep lcomplete level_known false) seqs)).
  Proof.
    exact (fun seqs Hl Ha =>
             pictures_concat gst gstart gstep gcomplete lst lstart lstep lcomplete level_known false seqs Hl Ha 0 []).
  Qed.
End C10.

(* C10_pictures_are_concatenated speaks about picture NUMBERS; the content-carrying statement is
   C10_content_is_concatenated below. *)

(* ------------------------------------------------------------------ picture CONTENT (Model/StreamContent.v) *)

(* The State entries regenerated from pseudocode/state.py are partitioned: every entry is either
   retained by reset_state -- and those are I/O plumbing only -- or abstracted by the sequence-local
   state `seq_state` of the content model; no entry of seq_state is retained.  (A field added to
   retained_state_fields, or a new State entry, breaks one of these on the next run.) *)
Theorem C10_state_entries_partition :
  forallb (str_mem retained_io_entries) retained_state_fields = true /\
  forallb (str_mem state_entry_names) seq_state_entries = true /\
  forallb (fun e => negb (str_mem retained_state_fields e)) seq_state_entries = true /\
  forallb (fun e => str_mem retained_state_fields e || str_mem seq_state_entries e) state_entry_names = true.
Proof. exact (conj retained_are_io (conj seq_entries_exist (conj seq_entries_not_retained state_entries_partition))). Qed.

Section C10_content.
  Variable gst : Type.
  Variable gstart : gst.
  Variable gstep : gst -> symbol -> option gst.
  Variable gcomplete : gst -> bool.
  Variable lst : Type.
  Variable lstart : Z -> lst.
  Variable lstep : Z -> lst -> symbol -> option lst.
  Variable lcomplete : Z -> lst -> bool.
  Variable level_known : Z -> bool.
  (* any payload and content types, ANY decoding function of the sequence-local state and the payload *)
  Variable payload : Type.
  Variable content : Type.
  Variable decode : seq_state gst lst payload -> payload -> content.

  (* reset_state, modelled entry by entry from the regenerated retained_state_fields, leaves the
     sequence-local state equal to the initial one: every sequence starts from the same state *)
  Theorem C10_sequence_starts_from_initial_state : forall st : seq_state gst lst payload,
    reset_seq gst gstart lst payload st = init_seq gst gstart lst payload.
  Proof. exact (reset_seq_is_init gst gstart lst payload). Qed.

  (* for any list of individually accepted complete sequences the validator accepts the concatenation,
     has gone through exactly that many sequences and outputs exactly the concatenation of what each
     sequence outputs alone: picture numbers AND contents *)
  Theorem C10_content_is_concatenated : forall seqs : list (list (cunit payload)),
    Forall (fun s => eos_only_last (List.map cu_unit s) = true) seqs ->
    Forall (fun s => cverdict gst gstart gstep gcomplete lst lstart lstep lcomplete level_known false
                              payload content decode s = Accept) seqs ->
    crun gst gstart gstep gcomplete lst lstart lstep lcomplete level_known false payload content decode
         (List.concat seqs) =
    (Accept, Z.of_nat (List.length seqs),
     List.concat (List.map (fun s => coutput gst gstart gstep gcomplete lst lstart lstep lcomplete level_known false
                                             payload content decode s) seqs)).
  Proof.
    exact (content_concat gst gstart gstep gcomplete lst lstart lstep lcomplete level_known false payload content decode).
  Qed.

  (* acceptance of a sequence is unchanged by prepending / appending accepted sequences *)
  Theorem C10_content_independent : forall before sq after,
    Forall (fun s => eos_only_last (List.map cu_unit s) = true) before ->
    eos_only_last (List.map cu_unit sq) = true ->
    Forall (fun s => eos_only_last (List.map cu_unit s) = true) after ->
    Forall (fun s => cverdict gst gstart gstep gcomplete lst lstart lstep lcomplete level_known false
                              payload content decode s = Accept) before ->
    Forall (fun s => cverdict gst gstart gstep gcomplete lst lstart lstep lcomplete level_known false
                              payload content decode s = Accept) after ->
    (cverdict gst gstart gstep gcomplete lst lstart lstep lcomplete level_known false payload content decode
              (List.concat (before ++ [sq] ++ after)) = Accept <->
     cverdict gst gstart gstep gcomplete lst lstart lstep lcomplete level_known false payload content decode sq = Accept).
  Proof.
    exact (content_independent gst gstart gstep gcomplete lst lstart lstep lcomplete level_known false payload content decode).
  Qed.
End C10_content.

(* non-vacuity: two different sequences, `decode` = (header id of the sequence, payload); the second
   sequence's picture is decoded with ITS header although the first sequence used another one *)
Definition ex10_gstep (s : Z) (sym : symbol) : option Z :=
  if s =? 0 then (match sym with SSeqHdr => Some 1 | _ => None end)
  else match sym with SEos => Some 2 | _ => Some 1 end.
Definition ex10_decode (st : seq_state Z unit Z) (p : Z) : Z * Z :=
  (match s_last_hdr (vh (ss_stream st)) with Some h => h | None => -1 end, p).
Definition ex10_run :=
  crun Z 0 ex10_gstep (fun s => s =? 2) unit (fun _ => tt) (fun _ _ _ => Some tt) (fun _ _ => true) (fun _ => true)
       false Z (Z * Z)%type ex10_decode.
Definition ex10_seq (hid picnum pid : Z) : list (cunit Z) :=
  [ mkCU (mkUnit (KSeqHdr (mkHdr hid 2 3 0 0 1)) 20 20 0) 0;
    mkCU (mkUnit (KPic true picnum (mkTp 4 4 0 2 1)) 30 30 20) pid;
    mkCU (mkUnit KEos 13 0 30) 0 ].
Example C10_example_content :
  ex10_run (ex10_seq 7 0 100 ++ ex10_seq 8 5 200) = (Accept, 2, [(0, (7, 100)); (5, (8, 200))]) /\
  ex10_run (ex10_seq 8 5 200) = (Accept, 1, [(5, (8, 200))]).
Proof. vm_compute. split; reflexivity. Qed.

Example C10_example : str_in retained_state_fields "_file" = true /\ str_in retained_state_fields "_last_picture_number" = false.
Proof. vm_compute. split; reflexivity. Qed.
