(* C10 -- Concatenated sequences are validated and decoded independently.
   Model: Model/Stream.v (tie C) + the State field lists regenerated from pseudocode/state.py
   (Gen/StateFields.v, tie T). *)
From Coq Require Import ZArith List Bool String.
From VC2 Require Import Base.PyZ Gen.StateFields Model.Stream Proofs.StreamLift.
Import ListNotations.
Open Scope Z_scope.

(* reset_state keeps only I/O plumbing: a field added to retained_state_fields in the source breaks
   this theorem on the next run *)
Theorem C10_retained_are_io_only :
  forallb (str_in io_only_entries) retained_state_fields = true.
Proof. exact retained_io_only. Qed.

(* every State entry the stream-level model reads or writes exists in State and is erased by
   reset_state -- which is what Model/Stream.v's `init_state` at each sequence start assumes *)
Theorem C10_modelled_entries_are_reset :
  forallb (str_in state_entry_names) modelled_state_entries = true /\
  forallb (fun f => negb (str_in retained_state_fields f)) modelled_state_entries = true.
Proof. exact (conj modelled_are_entries modelled_not_retained). Qed.

Section C10.
  Variable gst : Type.
  Variable gstart : gst.
  Variable gstep : gst -> symbol -> option gst.
  Variable gcomplete : gst -> bool.
  Variable lst : Type.
  Variable lstart : Z -> lst.
  Variable lstep : Z -> lst -> symbol -> option lst.
  Variable lcomplete : Z -> lst -> bool.
  Variable level_known : Z -> bool.

  (* for any list of complete sequences: accepted iff each is accepted alone *)
  Theorem C10_concatenation_accepted_iff_each : forall seqs, Forall (fun s => eos_only_last s = true) seqs ->
    (run_stream gst gstart gstep gcomplete lst lstart lstep lcomplete level_known false seqs = Accept <->
     Forall (fun s => run gst gstart gstep gcomplete lst lstart lstep lcomplete level_known false s = Accept) seqs).
  Proof. exact (stream_lift gst gstart gstep gcomplete lst lstart lstep lcomplete level_known false). Qed.

  (* appending or prepending conformant sequences never changes whether a sequence is accepted *)
  Theorem C10_independent : forall before sq after,
    Forall (fun s => eos_only_last s = true) before -> eos_only_last sq = true ->
    Forall (fun s => eos_only_last s = true) after ->
    Forall (fun s => run gst gstart gstep gcomplete lst lstart lstep lcomplete level_known false s = Accept) before ->
    Forall (fun s => run gst gstart gstep gcomplete lst lstart lstep lcomplete level_known false s = Accept) after ->
    (run_stream gst gstart gstep gcomplete lst lstart lstep lcomplete level_known false (before ++ [sq] ++ after) = Accept
     <-> run gst gstart gstep gcomplete lst lstart lstep lcomplete level_known false sq = Accept).
  Proof. exact (independent gst gstart gstep gcomplete lst lstart lstep lcomplete level_known false). Qed.

  (* ... and the validator outputs exactly the concatenation of the pictures each sequence produces
     alone (run_obs = verdict, number of sequences gone through, picture numbers output in order) *)
  Theorem C10_pictures_are_concatenated : forall seqs,
    Forall (fun s => eos_only_last s = true) seqs ->
    Forall (fun s => run gst gstart gstep gcomplete lst lstart lstep lcomplete level_known false s = Accept) seqs ->
    run_obs gst gstart gstep gcomplete lst lstart lstep lcomplete level_known false true
            (init_state gst gstart lst) (List.concat seqs) 0 [] =
    (Accept, Z.of_nat (List.length seqs),
     List.concat (List.map (pics_of gst gstart gstep gcomplete lst lstart lstep lcomplete level_known false) seqs)).
  Proof.
    exact (fun seqs Hl Ha =>
             pictures_concat gst gstart gstep gcomplete lst lstart lstep lcomplete level_known false seqs Hl Ha 0 []).
  Qed.
End C10.

(* Not modelled: the CONTENT of the decoded pictures (the model's picture list holds picture numbers);
   content, video parameters and picture coding mode handed to the callback are compared by the
   differential run of tools/harness/C10.py. *)

Example C10_example : str_in retained_state_fields "_file" = true /\ str_in retained_state_fields "_last_picture_number" = false.
Proof. vm_compute. split; reflexivity. Qed.
