(* C28 -- Codec-features CSV reading either succeeds in-domain or explains.
   Property theorems only; each closed by `exact <lemma>`.
   Model: Model/CsvFeatures.v (hand model of vc2_conformance/codec_features.py, tie C:
   tools/harness/C28.py runs it against read_codec_features_csv on every check).

   Quantification: ALL data tables T (enum member lists, base-video-format defaults) and ALL
   inputs: `inp = None` (csv.reader raised csv.Error) or `Some rows`, rows of cells, every
   cell carrying an arbitrary text and ARBITRARY results of the text-level primitives
   (int(), lower()=="default", the bool words, split()) -- so the statements hold whatever
   those primitives return, provided each returns a value or raises ValueError.
   The two hypotheses on T are boolean and are evaluated on the live tables on every run. *)
From Coq Require Import ZArith List String.
From VC2 Require Import Model.CsvFeatures Proofs.CsvFeaturesProofs.
Import ListNotations.
Open Scope Z_scope.

(* success => every configuration lies in its documented domain (enum members; dwt depths >= 0,
   slices >= 1, fragment_slice_count >= 0, the 20 video parameters within their enum / minimum;
   picture_bytes = None iff lossless and >= 1 otherwise; the quantisation matrix None or with
   exactly the levels and orientations of (dwt_depth, dwt_depth_ho)), and names are unique *)
Theorem C28_in_domain : forall (T : tables) (inp : option (list (list cell))) (cfgs : list config),
  defaults_in_domainb T = true ->
  read_model T inp = Ok cfgs ->
  Forall (in_domain T) cfgs /\ NoDup (map cf_name cfgs).
Proof. exact read_model_in_domain. Qed.

(* the result is a value or InvalidCodecFeaturesError, never another exception class
   (the model's third outcome `Crash` = KeyError outside pop's try block) *)
Theorem C28_total : forall (T : tables) (inp : option (list (list cell))),
  defaults_completeb T = true ->
  (exists cfgs, read_model T inp = Ok cfgs) \/
  (exists k field col, read_model T inp = Invalid k field col).
Proof. exact read_model_ok_or_invalid. Qed.

(* the matrix parser alone: any depths (even negative), any words *)
Theorem C28_matrix_shape : forall (d dh : Z) (c : cell) (m : matrix),
  parse_quantization_matrix d dh c = Some m -> matrix_shape d dh m.
Proof. exact parse_quantization_matrix_shape. Qed.

(* sanity of the shape specification: one entry for each level 0 .. dwt_depth_ho + dwt_depth *)
Theorem C28_shape_levels : forall d dh : Z, 0 <= d -> 0 <= dh ->
  map fst (expected_shape d dh) = zrange 0 (dh + d + 1).
Proof. exact expected_shape_levels. Qed.

(* well-formedness of the model's dictionaries: every column produced by the model of
   read_dict_list_csv has unique keys, and popping a key removes it altogether -- so the
   association lists behave as the Python dicts they stand for *)
Theorem C28_columns_are_dictionaries : forall rows : list (list cell),
  Forall (fun d => NoDup (map fst d)) (read_dict_list rows).
Proof. exact read_dict_list_unique. Qed.

(* non-vacuity: a two-column file is accepted (custom matrix for depths (1,1); default name
   column_C; picture_bytes only for the lossy column), on tables satisfying both hypotheses;
   every rejection class used above is reachable; and without the table hypothesis the third
   outcome IS reachable, so C28_total says something *)
Example C28_accepts : exists cfgs,
  read_model C28Example.T0 (Some C28Example.rows) = Ok cfgs /\
  map cf_name cfgs = ["hd"; "column_C"]%string /\
  map cf_picture_bytes cfgs = [Some 1000; None] /\
  map cf_quantization_matrix cfgs =
    [Some [(0, [(oL, 4)]); (1, [(oH, 2)]); (2, [(oHL, 1); (oLH, 1); (oHH, 0)])]; None].
Proof. exact C28Example.example_ok. Qed.

Example C28_tables_hypotheses_satisfiable :
  defaults_completeb C28Example.T0 = true /\ defaults_in_domainb C28Example.T0 = true.
Proof. exact C28Example.example_tables_ok. Qed.

Example C28_crash_reachable_without_hypothesis : exists w,
  read_model C28Example.T_bad (Some (map (fun r => firstn 2 r) C28Example.rows)) = Crash w.
Proof. exact C28Example.example_crash_without_tables. Qed.
