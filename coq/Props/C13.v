(* C13 -- Slices tile every subband and low-delay slice sizes sum exactly.
   Property theorems only; each closed by `exact <lemma>`.  Model: Gen/SliceSizes.v,
   Gen/StateRec.v -- REGENERATED from /repo/vc2_conformance/pseudocode/slice_sizes.py on
   every run (tie T).  Every theorem is for ALL integers (no size bound): any picture
   size >= 0, any depths >= 0, any slice counts >= 1, every component, every level
   0 .. dwt_depth_ho + dwt_depth + 1 (the last one is the padded picture itself, which
   dwt_pad_addition / idwt_pad_removal ask for). *)
From Coq Require Import ZArith List Bool Lia.
From VC2 Require Import Base.PyZ Gen.StateRec Gen.SliceSizes Proofs.SliceSizesProofs.
Import ListNotations.
Open Scope Z_scope.

(* the preconditions used below, spelled out *)
Theorem C13_preconditions : forall st,
  good_state st <->
  (1 <= st_slices_x st /\ 1 <= st_slices_y st /\
   0 <= st_luma_width st /\ 0 <= st_luma_height st /\
   0 <= st_color_diff_width st /\ 0 <= st_color_diff_height st /\
   0 <= st_dwt_depth st /\ 0 <= st_dwt_depth_ho st).
Proof. exact (fun st => iff_refl _). Qed.

(* ---- (a) slices partition every subband, per dimension ------------------------------- *)

Theorem C13_slice_partition_x : forall st c level,
  good_state st -> 0 <= level <= st_dwt_depth_ho st + st_dwt_depth st + 1 ->
  slice_left st 0 c level = 0 /\
  slice_right st (st_slices_x st - 1) c level = subband_width st level c /\
  forall sx, 0 <= sx < st_slices_x st ->
    0 <= slice_left st sx c level /\
    slice_left st sx c level <= slice_right st sx c level /\
    slice_right st sx c level <= subband_width st level c /\
    slice_right st sx c level = slice_left st (sx + 1) c level.
Proof. exact slice_partition_x. Qed.

Theorem C13_slice_partition_y : forall st c level,
  good_state st -> 0 <= level <= st_dwt_depth_ho st + st_dwt_depth st + 1 ->
  slice_top st 0 c level = 0 /\
  slice_bottom st (st_slices_y st - 1) c level = subband_height st level c /\
  forall sy, 0 <= sy < st_slices_y st ->
    0 <= slice_top st sy c level /\
    slice_top st sy c level <= slice_bottom st sy c level /\
    slice_bottom st sy c level <= subband_height st level c /\
    slice_bottom st sy c level = slice_top st (sy + 1) c level.
Proof. exact slice_partition_y. Qed.

(* in order, hence disjoint: an earlier slice ends where or before any later one starts *)
Theorem C13_slices_in_order : forall st c level a b,
  good_state st -> 0 <= level <= st_dwt_depth_ho st + st_dwt_depth st + 1 -> a < b ->
  slice_right st a c level <= slice_left st b c level /\
  slice_bottom st a c level <= slice_top st b c level.
Proof.
  exact (fun st c level a b Hg Hl Hab =>
           conj (slice_order_x st c level a b Hg Hl Hab) (slice_order_y st c level a b Hg Hl Hab)).
Qed.

(* every coordinate of the subband lies in exactly one slice range *)
Theorem C13_cover_unique_x : forall st c level x,
  good_state st -> 0 <= level <= st_dwt_depth_ho st + st_dwt_depth st + 1 ->
  0 <= x < subband_width st level c ->
  exists! sx, 0 <= sx < st_slices_x st /\ slice_left st sx c level <= x < slice_right st sx c level.
Proof. exact cover_unique_x. Qed.

Theorem C13_cover_unique_y : forall st c level y,
  good_state st -> 0 <= level <= st_dwt_depth_ho st + st_dwt_depth st + 1 ->
  0 <= y < subband_height st level c ->
  exists! sy, 0 <= sy < st_slices_y st /\ slice_top st sy c level <= y < slice_bottom st sy c level.
Proof. exact cover_unique_y. Qed.

(* 2-D: every coefficient of every subband belongs to exactly one slice rectangle *)
Theorem C13_cover_unique_2d : forall st c level x y,
  good_state st -> 0 <= level <= st_dwt_depth_ho st + st_dwt_depth st + 1 ->
  0 <= x < subband_width st level c -> 0 <= y < subband_height st level c ->
  exists! p : Z * Z,
    (0 <= fst p < st_slices_x st /\ 0 <= snd p < st_slices_y st) /\
    slice_left st (fst p) c level <= x < slice_right st (fst p) c level /\
    slice_top st (snd p) c level <= y < slice_bottom st (snd p) c level.
Proof. exact cover_unique_2d. Qed.

(* ---- (b) subband dimensions = padded picture / transform scale, exactly ---------------- *)

(* pw is THE least multiple of 2^(dh+d) that is >= the component width; level 0 divides it by
   2^(dh+d), level >= 1 by 2^(dh+d-level+1); the divisions are exact *)
Theorem C13_subband_width_padded : forall st level c,
  0 <= st_dwt_depth st -> 0 <= st_dwt_depth_ho st ->
  0 <= level <= st_dwt_depth_ho st + st_dwt_depth st + 1 ->
  let n := st_dwt_depth_ho st + st_dwt_depth st in
  let w := match c with Str_Y => st_luma_width st | _ => st_color_diff_width st end in
  exists pw,
    ((2 ^ n | pw) /\ w <= pw /\ forall m, (2 ^ n | m) -> w <= m -> pw <= m) /\
    let e := if level =? 0 then n else n - level + 1 in
    subband_width st level c = pw / 2 ^ e /\ subband_width st level c * 2 ^ e = pw /\ pw mod 2 ^ e = 0.
Proof. exact subband_width_padded. Qed.

(* heights only see dwt_depth: ph is the least multiple of 2^d >= the component height; levels
   0 .. dwt_depth_ho all have height ph / 2^d, later levels ph / 2^(dh+d-level+1); exact *)
Theorem C13_subband_height_padded : forall st level c,
  0 <= st_dwt_depth st -> 0 <= st_dwt_depth_ho st ->
  0 <= level <= st_dwt_depth_ho st + st_dwt_depth st + 1 ->
  let d := st_dwt_depth st in
  let h := match c with Str_Y => st_luma_height st | _ => st_color_diff_height st end in
  exists ph,
    ((2 ^ d | ph) /\ h <= ph /\ forall m, (2 ^ d | m) -> h <= m -> ph <= m) /\
    let e := if (level =? 0) || (level <=? st_dwt_depth_ho st) then d
             else st_dwt_depth_ho st + d - level + 1 in
    subband_height st level c = ph / 2 ^ e /\ subband_height st level c * 2 ^ e = ph /\ ph mod 2 ^ e = 0.
Proof. exact subband_height_padded. Qed.

(* closed forms without any rounding left: DC size = ceil(size / scale), times a power of two *)
Theorem C13_subband_dims_closed : forall st level c,
  0 <= st_dwt_depth st -> 0 <= st_dwt_depth_ho st ->
  0 <= level <= st_dwt_depth_ho st + st_dwt_depth st + 1 ->
  subband_width st level c =
    ceil_div (comp_width st c) (2 ^ (st_dwt_depth_ho st + st_dwt_depth st)) *
    2 ^ (if level =? 0 then 0 else level - 1) /\
  subband_height st level c =
    ceil_div (comp_height st c) (2 ^ st_dwt_depth st) *
    2 ^ (if level <=? st_dwt_depth_ho st then 0 else level - st_dwt_depth_ho st - 1).
Proof.
  exact (fun st level c Hd Hdh Hl =>
           conj (subband_width_closed st level c Hd Hdh Hl) (subband_height_closed st level c Hd Hdh Hl)).
Qed.

(* exactly the shapes the transform produces: synth_shape doubles the width for the first
   dwt_depth_ho levels and both dimensions afterwards, starting from the DC band; the band(s) of
   level n have the shape of the low-pass band after n-1 levels ... *)
Theorem C13_subband_dims_transform : forall st level c,
  0 <= st_dwt_depth st -> 0 <= st_dwt_depth_ho st ->
  0 <= level <= st_dwt_depth_ho st + st_dwt_depth st + 1 ->
  (subband_width st level c, subband_height st level c) =
  synth_shape (st_dwt_depth_ho st)
              (ceil_div (comp_width st c) (2 ^ (st_dwt_depth_ho st + st_dwt_depth st)))
              (ceil_div (comp_height st c) (2 ^ st_dwt_depth st))
              (Z.to_nat (level - 1)).
Proof. exact subband_dims_transform. Qed.

(* ... and after all levels the synthesis has the size of the padded picture, which is what
   the top level (dwt_depth_ho + dwt_depth + 1) reports *)
Theorem C13_transform_full_shape : forall st c,
  0 <= st_dwt_depth st -> 0 <= st_dwt_depth_ho st ->
  synth_shape (st_dwt_depth_ho st)
              (ceil_div (comp_width st c) (2 ^ (st_dwt_depth_ho st + st_dwt_depth st)))
              (ceil_div (comp_height st c) (2 ^ st_dwt_depth st))
              (Z.to_nat (st_dwt_depth_ho st + st_dwt_depth st)) =
  (subband_width st (st_dwt_depth_ho st + st_dwt_depth st + 1) c,
   subband_height st (st_dwt_depth_ho st + st_dwt_depth st + 1) c) /\
  subband_width st (st_dwt_depth_ho st + st_dwt_depth st + 1) c = padded_width st c /\
  subband_height st (st_dwt_depth_ho st + st_dwt_depth st + 1) c = padded_height st c.
Proof.
  exact (fun st c Hd Hdh =>
    conj (eq_trans (transform_full_shape st c Hd Hdh)
            (eq_sym (f_equal2 pair (proj1 (subband_top_is_padded st c Hd Hdh))
                                   (proj2 (subband_top_is_padded st c Hd Hdh)))))
         (subband_top_is_padded st c Hd Hdh)).
Qed.

(* per-level relations *)
Theorem C13_subband_level_relations : forall st level c,
  0 <= st_dwt_depth st -> 0 <= st_dwt_depth_ho st ->
  (1 <= level <= st_dwt_depth_ho st + st_dwt_depth st ->
     subband_width st 1 c = subband_width st 0 c /\
     subband_width st (level + 1) c = 2 * subband_width st level c) /\
  (0 <= level <= st_dwt_depth_ho st + st_dwt_depth st ->
     (level <= st_dwt_depth_ho st -> subband_height st (level + 1) c = subband_height st level c) /\
     (st_dwt_depth_ho st < level -> subband_height st (level + 1) c = 2 * subband_height st level c)).
Proof.
  exact (fun st level c Hd Hdh =>
           conj (subband_width_levels st level c Hd Hdh) (subband_height_levels st level c Hd Hdh)).
Qed.

(* ---- (c) the same-dimensions flag ------------------------------------------------------------- *)

Theorem C13_same_dims_iff : forall st, good_state st ->
  (slices_have_same_dimensions st = true <->
   forall c level sx sx' sy sy',
     0 <= level <= st_dwt_depth_ho st + st_dwt_depth st ->
     0 <= sx < st_slices_x st -> 0 <= sx' < st_slices_x st ->
     0 <= sy < st_slices_y st -> 0 <= sy' < st_slices_y st ->
     slice_right st sx c level - slice_left st sx c level =
     slice_right st sx' c level - slice_left st sx' c level /\
     slice_bottom st sy c level - slice_top st sy c level =
     slice_bottom st sy' c level - slice_top st sy' c level).
Proof. exact same_dims_iff. Qed.

(* stronger "->": with the flag set every slice is exactly (width/slices_x) x (height/slices_y),
   at every level including the padded picture, and the divisions are exact *)
Theorem C13_same_dims_true_exact : forall st c level sx sy,
  0 <= st_dwt_depth st -> 0 <= st_dwt_depth_ho st ->
  st_slices_x st <> 0 -> st_slices_y st <> 0 ->
  0 <= level <= st_dwt_depth_ho st + st_dwt_depth st + 1 ->
  slices_have_same_dimensions st = true ->
  slice_right st sx c level - slice_left st sx c level = subband_width st level c / st_slices_x st /\
  slice_bottom st sy c level - slice_top st sy c level = subband_height st level c / st_slices_y st /\
  subband_width st level c mod st_slices_x st = 0 /\
  subband_height st level c mod st_slices_y st = 0.
Proof. exact same_dims_true_exact. Qed.

(* stronger "<-": equal slice sizes in the DC bands of Y and C1 alone already force the flag
   (no hypothesis on sizes or depths at all) *)
Theorem C13_same_dims_dc_only : forall st,
  1 <= st_slices_x st -> 1 <= st_slices_y st ->
  (forall c, c = Str_Y \/ c = Str_C1 ->
     (forall sx sx', 0 <= sx < st_slices_x st -> 0 <= sx' < st_slices_x st ->
        slice_right st sx c 0 - slice_left st sx c 0 = slice_right st sx' c 0 - slice_left st sx' c 0) /\
     (forall sy sy', 0 <= sy < st_slices_y st -> 0 <= sy' < st_slices_y st ->
        slice_bottom st sy c 0 - slice_top st sy c 0 = slice_bottom st sy' c 0 - slice_top st sy' c 0)) ->
  slices_have_same_dimensions st = true.
Proof. exact same_dims_dc_only. Qed.

(* ---- (d) low-delay slice byte counts -------------------------------------------------------------- *)

Theorem C13_slice_bytes_nonneg : forall st sx sy,
  0 <= st_slice_bytes_numerator st -> 0 < st_slice_bytes_denominator st ->
  0 <= slice_bytes st sx sy.
Proof. exact slice_bytes_nonneg. Qed.

Theorem C13_slice_bytes_floor_or_ceil : forall st sx sy,
  0 < st_slice_bytes_denominator st ->
  st_slice_bytes_numerator st / st_slice_bytes_denominator st <= slice_bytes st sx sy
    <= st_slice_bytes_numerator st / st_slice_bytes_denominator st + 1.
Proof. exact slice_bytes_floor_or_ceil. Qed.

(* sum over sy = 0..slices_y-1 of the sum over sx = 0..slices_x-1 *)
Theorem C13_slice_bytes_sum : forall st,
  0 <= st_slices_x st -> 0 <= st_slices_y st ->
  zsum (fun sy => zsum (fun sx => slice_bytes st sx sy) (Z.to_nat (st_slices_x st)))
       (Z.to_nat (st_slices_y st)) =
  (st_slices_x st * st_slices_y st * st_slice_bytes_numerator st) / st_slice_bytes_denominator st.
Proof. exact slice_bytes_sum. Qed.

(* the same as a list of all slices of a picture in raster order *)
Theorem C13_slice_bytes_raster : forall st,
  0 <= st_slices_x st -> 0 <= st_slices_y st ->
  (py_len (slice_bytes_raster st) = st_slices_x st * st_slices_y st /\
   py_sum (slice_bytes_raster st) =
   (st_slices_x st * st_slices_y st * st_slice_bytes_numerator st) / st_slice_bytes_denominator st) /\
  forall n, 0 <= n < st_slices_x st * st_slices_y st ->
    nth (Z.to_nat n) (slice_bytes_raster st) 0 = slice_bytes st (n mod st_slices_x st) (n / st_slices_x st).
Proof.
  exact (fun st Hx Hy => conj (slice_bytes_raster_sum st Hx Hy)
                              (fun n Hn => slice_bytes_raster_nth st n Hn Hy)).
Qed.

(* ---- (e) no exception ------------------------------------------------------------------------------- *)

Theorem C13_no_exception : forall st, good_state st ->
  (forall level c s, 0 <= level <= st_dwt_depth_ho st + st_dwt_depth st + 1 ->
     subband_width_dom st level c = true /\ subband_height_dom st level c = true /\
     slice_left_dom st s c level = true /\ slice_right_dom st s c level = true /\
     slice_top_dom st s c level = true /\ slice_bottom_dom st s c level = true) /\
  slices_have_same_dimensions_dom st = true /\
  (forall sx sy, st_slice_bytes_denominator st <> 0 -> slice_bytes_dom st sx sy = true).
Proof. exact all_dom_ok. Qed.

(* ---- non-vacuity: concrete instances ----------------------------------------------------------------- *)

(* 1920x1080 4:2:2, dwt_depth 2 + 1 horizontal-only, 120 x 68 slices (not a divisor of the DC height),
   slice_bytes 1037/7 *)
Example C13_example_hd :
  let st := set_st_slice_bytes_denominator (set_st_slice_bytes_numerator
            (set_st_slices_y (set_st_slices_x (set_st_dwt_depth_ho (set_st_dwt_depth
            (set_st_color_diff_height (set_st_color_diff_width (set_st_luma_height
            (set_st_luma_width empty_pystate 1920) 1080) 960) 1080) 2) 1) 120) 68) 1037) 7 in
  good_state st /\
  map (fun l => (subband_width st l Str_Y, subband_height st l Str_Y)) [0; 1; 2; 3; 4] =
    [(240, 270); (240, 270); (480, 270); (960, 540); (1920, 1080)] /\
  (slice_left st 119 Str_C2 3, slice_right st 119 Str_C2 3) = (476, 480) /\
  map (fun sy => slice_bottom st sy Str_Y 0 - slice_top st sy Str_Y 0) [0; 1; 2; 3] = [3; 4; 4; 4] /\
  slices_have_same_dimensions st = false /\
  picture_slice_bytes st = 1208845 /\ (120 * 68 * 1037) / 7 = 1208845 /\
  map (fun sx => slice_bytes st sx 0) [0; 1; 2; 3; 4; 5; 6] = [148; 148; 148; 148; 148; 148; 149].
Proof. vm_compute. repeat split; intro; discriminate. Qed.

(* more slices than coefficients, size not a multiple of the scale: empty slices, still a partition *)
Example C13_example_tiny :
  let st := set_st_slices_y (set_st_slices_x (set_st_dwt_depth_ho (set_st_dwt_depth
            (set_st_color_diff_height (set_st_color_diff_width (set_st_luma_height
            (set_st_luma_width empty_pystate 11) 5) 6) 3) 1) 1) 8) 2 in
  good_state st /\
  map (fun sx => (slice_left st sx Str_Y 0, slice_right st sx Str_Y 0)) [0; 1; 2; 3; 4; 5; 6; 7] =
    [(0, 0); (0, 0); (0, 1); (1, 1); (1, 1); (1, 2); (2, 2); (2, 3)] /\
  subband_width st 3 Str_Y = 12 /\ subband_height st 3 Str_Y = 6 /\
  slices_have_same_dimensions st = false.
Proof. vm_compute. repeat split; intro; discriminate. Qed.

(* the flag can be true *)
Example C13_example_same_dims :
  let st := set_st_slices_y (set_st_slices_x (set_st_dwt_depth_ho (set_st_dwt_depth
            (set_st_color_diff_height (set_st_color_diff_width (set_st_luma_height
            (set_st_luma_width empty_pystate 64) 32) 32) 32) 2) 0) 4) 2 in
  good_state st /\ slices_have_same_dimensions st = true.
Proof. vm_compute. repeat split; intro; discriminate. Qed.
