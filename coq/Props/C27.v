(* C27 -- Fixed-entry dictionaries never hold undeclared keys and pickle faithfully.
   Property theorems only; each closed by `exact <lemma>`.  Model: Model/FixedDict.v (hand model of
   vc2_conformance/fixeddict.py, tied to the code by the differential run of tools/harness/C27.py).

   Everything is stated for EVERY key type with a boolean equality that decides equality (Python:
   hash/==), every value type, every class (= name + declared entry list), every accepted construction
   and every history `ops : list op` over
        d[k] = v | d.setdefault(k, v) | d.update(E, **F) | d |= E | d.copy() | copy.copy/deepcopy(d)
        | pickle round trip | del d[k] | d.pop(k) | d.popitem() | d.clear()
   where an operation that raises leaves the object alive and the history continues on what it retained.
   `IOrChecked` is the class with fixes/C27-ior.diff applied, `IOrUnchecked` the pinned class in which
   `d |= E` is the inherited dict.__ior__ (see C27_refuted_unchecked_ior). *)
From Coq Require Import List Bool String ZArith.
From VC2 Require Import Model.FixedDict Proofs.FixedDictProofs.
Import ListNotations.

Definition decides_eq {K : Type} (keqb : K -> K -> bool) : Prop := forall a b, keqb a b = true <-> a = b.

(* ---- only declared keys, after any history ------------------------------------------------------- *)
(* (a prefix of a history is a history, so this covers every intermediate state, including the states
   left behind by rejected operations; the class never changes; keys stay pairwise different) *)
Theorem C27_invariant :
  forall (K V : Type) (keqb : K -> K -> bool), decides_eq keqb ->
  forall (c : fdclass K) (e : option (source K V)) (f : items K V) (s0 : fd K V) (ops : list (op K V)),
  init keqb c e f = InitOk s0 ->
  let s := run keqb IOrChecked s0 ops in
  (forall k, In k (d_keys (fitems s)) -> In k (centries c)) /\ NoDup (d_keys (fitems s)) /\ fcls s = c.
Proof. exact history_inv. Qed.

(* ---- undeclared keys are rejected with the key error; what is retained ------------------------------ *)
(* construction: accepted exactly when all given keys are declared (then it holds what dict(E, **F) holds) ... *)
Theorem C27_construction_accepts_iff_all_declared :
  forall (K V : Type) (keqb : K -> K -> bool), decides_eq keqb ->
  forall (c : fdclass K) (e : option (source K V)) (f : items K V),
  (forall k, In k (d_keys (init_items keqb e f)) -> In k (centries c)) <->
  init keqb c e f = InitOk {| fcls := c; fitems := init_items keqb e f |}.
Proof. exact init_ok_iff. Qed.

(* ... otherwise no object is returned and the error names an undeclared key *)
Theorem C27_construction_rejects :
  forall (K V : Type) (keqb : K -> K -> bool), decides_eq keqb ->
  forall (c : fdclass K) (e : option (source K V)) (f : items K V) (k : K),
  In k (d_keys (init_items keqb e f)) -> ~ In k (centries c) ->
  exists k', init keqb c e f = InitErr k' /\ ~ In k' (centries c).
Proof. exact init_reject. Qed.

(* item assignment / setdefault with an undeclared key: the key error, object untouched
   (both variants of the class) *)
Theorem C27_setitem_rejects :
  forall (K V : Type) (keqb : K -> K -> bool), decides_eq keqb ->
  forall var (s : fd K V) k v, ~ In k (centries (fcls s)) ->
  step keqb var s (SetItem k v) = (s, RaisedFixedDictKeyError k).
Proof. exact setitem_reject. Qed.

Theorem C27_setdefault_rejects :
  forall (K V : Type) (keqb : K -> K -> bool), decides_eq keqb ->
  forall var (s : fd K V) k v, ~ In k (centries (fcls s)) ->
  step keqb var s (SetDefault k v) = (s, RaisedFixedDictKeyError k).
Proof. exact setdefault_reject. Qed.

(* update(E, **F): the first undeclared key in E-then-F order is reported; exactly the pairs before
   it have been stored (with dict.update semantics), nothing after it *)
Theorem C27_update_rejects :
  forall (K V : Type) (keqb : K -> K -> bool), decides_eq keqb ->
  forall var (s : fd K V) e f pre k v post,
  opt_source_pairs keqb e ++ f = pre ++ (k, v) :: post ->
  all_declared (fcls s) pre -> ~ In k (centries (fcls s)) ->
  step keqb var s (Update e f) = (with_items s (d_update keqb (fitems s) pre), RaisedFixedDictKeyError k).
Proof. exact update_reject. Qed.

(* d |= E on the repaired class: the same *)
Theorem C27_ior_rejects :
  forall (K V : Type) (keqb : K -> K -> bool), decides_eq keqb ->
  forall (s : fd K V) e pre k v post,
  source_pairs keqb e = pre ++ (k, v) :: post ->
  all_declared (fcls s) pre -> ~ In k (centries (fcls s)) ->
  step keqb IOrChecked s (IOr e) = (with_items s (d_update keqb (fitems s) pre), RaisedFixedDictKeyError k).
Proof. exact ior_reject. Qed.

(* every argument list either has declared keys only or splits at a first undeclared key, so the
   two theorems above and the two below cover every call *)
Theorem C27_update_cases :
  forall (K V : Type) (keqb : K -> K -> bool), decides_eq keqb ->
  forall (c : fdclass K) (ps : items K V),
  all_declared c ps \/
  exists pre k v post, ps = pre ++ (k, v) :: post /\ all_declared c pre /\ ~ In k (centries c).
Proof. exact first_undeclared. Qed.

(* no spurious rejection: declared keys only = plain dict.update / dict.__ior__ *)
Theorem C27_update_accepts :
  forall (K V : Type) (keqb : K -> K -> bool), decides_eq keqb ->
  forall var (s : fd K V) e f, all_declared (fcls s) (opt_source_pairs keqb e ++ f) ->
  step keqb var s (Update e f)
  = (with_items s (d_update keqb (fitems s) (opt_source_pairs keqb e ++ f)), Returned None).
Proof. exact update_accept. Qed.

Theorem C27_ior_accepts :
  forall (K V : Type) (keqb : K -> K -> bool), decides_eq keqb ->
  forall var (s : fd K V) e, all_declared (fcls s) (source_pairs keqb e) ->
  step keqb var s (IOr e) = (with_items s (d_update keqb (fitems s) (source_pairs keqb e)), Returned None).
Proof. exact ior_accept. Qed.

(* the key error is only ever raised for an undeclared key (in any reachable state, any operation) *)
Theorem C27_key_error_only_for_undeclared :
  forall (K V : Type) (keqb : K -> K -> bool), decides_eq keqb ->
  forall (c : fdclass K) (e : option (source K V)) (f : items K V) (s0 : fd K V) ops o k,
  init keqb c e f = InitOk s0 ->
  snd (step keqb IOrChecked (run keqb IOrChecked s0 ops) o) = RaisedFixedDictKeyError k ->
  ~ In k (centries c).
Proof. exact history_raised_undeclared. Qed.

(* ---- copies and pickling ------------------------------------------------------------------------------ *)
(* d.copy(), copy.copy/deepcopy(d) and the pickle round trip of any reachable object succeed and give
   an identical object: same class (hence same declared entries), same items in the same order *)
Theorem C27_copies_identical :
  forall (K V : Type) (keqb : K -> K -> bool), decides_eq keqb ->
  forall (c : fdclass K) (e : option (source K V)) (f : items K V) (s0 : fd K V) ops o,
  init keqb c e f = InitOk s0 ->
  o = CopyMethod \/ o = CopyModule \/ o = PickleRoundTrip ->
  step keqb IOrChecked (run keqb IOrChecked s0 ops) o = (run keqb IOrChecked s0 ops, Returned None).
Proof. exact history_copies. Qed.

(* the shape Python's pickle sees: __reduce__ = (type(self), (), dict(self)) ... *)
Theorem C27_reduce_shape :
  forall (K V : Type) (s : fd K V), reduce s = (fcls s, (None, []), fitems s).
Proof. exact (fun K V s => eq_refl). Qed.

(* ... and rebuilding from it (obj = cls(); obj.__setstate__(state), __setstate__ = update) is the identity *)
Theorem C27_pickle_roundtrip :
  forall (K V : Type) (keqb : K -> K -> bool), decides_eq keqb ->
  forall (c : fdclass K) (e : option (source K V)) (f : items K V) (s0 : fd K V) ops,
  init keqb c e f = InitOk s0 ->
  rebuild keqb (reduce (run keqb IOrChecked s0 ops)) = InitOk (run keqb IOrChecked s0 ops).
Proof. exact history_pickle. Qed.

(* whatever a (possibly hand-made) pickle carries as constructor arguments and state, an object that
   comes out of the rebuild is of the named class and holds declared, pairwise different keys only *)
Theorem C27_unpickle_never_yields_undeclared_keys :
  forall (K V : Type) (keqb : K -> K -> bool), decides_eq keqb ->
  forall (c : fdclass K) e f st (s : fd K V),
  rebuild keqb (c, (e, f), st) = InitOk s -> inv s /\ fcls s = c.
Proof. exact rebuild_safe. Qed.

(* ---- the pinned class: |= is a hole, and the only one ---------------------------------------------------- *)
(* REFUTED for the pinned tree (Python >= 3.9, no __ior__ override): a two-step history ends with an
   undeclared key stored.  Genuine defect, repaired by fixes/C27-ior.diff. *)
Theorem C27_refuted_unchecked_ior :
  exists (c : fdclass string) (s0 : fd string Z) (history : list (op string Z)) (k : string),
    init String.eqb c None [] = InitOk s0 /\
    In k (d_keys (fitems (run String.eqb IOrUnchecked s0 history))) /\ ~ In k (centries c).
Proof. exact unchecked_ior_witness. Qed.

Theorem C27_unchecked_ior_is_the_only_hole :
  forall (K V : Type) (keqb : K -> K -> bool), decides_eq keqb ->
  forall (c : fdclass K) (e : option (source K V)) (f : items K V) (s0 : fd K V) (ops : list (op K V)),
  init keqb c e f = InitOk s0 -> (forall o, In o ops -> forall e', o <> IOr e') ->
  let s := run keqb IOrUnchecked s0 ops in
  (forall k, In k (d_keys (fitems s)) -> In k (centries c)) /\ NoDup (d_keys (fitems s)) /\ fcls s = c.
Proof. exact history_inv_unchecked_without_ior. Qed.

(* the repair changes nothing for legal use *)
Theorem C27_fix_is_conservative :
  forall (K V : Type) (keqb : K -> K -> bool), decides_eq keqb ->
  forall (s : fd K V) e, all_declared (fcls s) (source_pairs keqb e) ->
  step keqb IOrChecked s (IOr e) = step keqb IOrUnchecked s (IOr e).
Proof. exact fix_conservative. Qed.

(* ---- non-vacuity: a concrete history on FrameSize (string keys, integer values) ------------------------- *)
Definition FrameSize : fdclass string :=
  {| cname := "FrameSize"; centries := ["custom_dimensions_flag"; "frame_width"; "frame_height"]%string |}.

Example C27_example :
  decides_eq String.eqb /\
  exists s0, init String.eqb FrameSize None [("frame_height", 1080)]%string%Z = InitOk s0 /\
  trace String.eqb IOrChecked s0
    [ SetItem "frame_width" 1920; SetItem "frame_widht" 1; SetDefault "frame_height" 7;
      Update (Some (Pairs [("custom_dimensions_flag", 1); ("bogus", 2); ("frame_width", 3)])) [];
      IOr (Mapping [("frame_width", 4); ("bogus", 5)]); PickleRoundTrip; CopyMethod ]%string%Z
  = [ (Returned None, [("frame_height", 1080); ("frame_width", 1920)]);
      (RaisedFixedDictKeyError "frame_widht", [("frame_height", 1080); ("frame_width", 1920)]);
      (Returned (Some 1080), [("frame_height", 1080); ("frame_width", 1920)]);
      (RaisedFixedDictKeyError "bogus", [("frame_height", 1080); ("frame_width", 1920); ("custom_dimensions_flag", 1)]);
      (RaisedFixedDictKeyError "bogus", [("frame_height", 1080); ("frame_width", 4); ("custom_dimensions_flag", 1)]);
      (Returned None, [("frame_height", 1080); ("frame_width", 4); ("custom_dimensions_flag", 1)]);
      (Returned None, [("frame_height", 1080); ("frame_width", 4); ("custom_dimensions_flag", 1)]) ]%string%Z
  /\ init String.eqb FrameSize (Some (Mapping [("frame_width", 1); ("bogus", 2)]%string%Z)) [] = InitErr "bogus"%string.
Proof.
  split; [exact String.eqb_eq|]. eexists. split; [reflexivity|]. split; vm_compute; reflexivity.
Qed.
