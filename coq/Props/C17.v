(* C17 -- Constraint-table queries follow set semantics.
   Property theorems only; each closed by `exact <lemma>`.
   Models: Model/ValueSet.v, Model/ConstraintTable.v (hand models of
   vc2_conformance/constraint_table.py and decoder/assertions.py assert_level_constraint; tie C). *)
From Coq Require Import ZArith List Bool Lia Permutation.
From VC2 Require Import Model.ValueSet Proofs.ValueSetProofs.
Import ListNotations.
Open Scope Z_scope.

(* A value set contains exactly the union of its listed values and inclusive ranges after ANY
   sequence of add_value / add_range / + operations (an expression tree, because the right
   operand of + is itself a built set), for EVERY iteration order Python may choose for its
   two internal sets at every step (`builds` is closed under permutation).
   No well-formedness hypothesis is needed: an inverted range (lo > hi) denotes the empty set
   on both sides. *)
Theorem C17_vs_sem : forall (e : vexpr) (a : vset) (v : Z),
  builds e a -> (contains a v = true <-> denotes e v).
Proof. exact vs_sem. Qed.

(* the deterministic model function is one of the reachable states *)
Theorem C17_build_reachable : forall e, builds e (build e).
Proof. exact builds_build. Qed.

(* the result is the AnyValue wildcard exactly when an AnyValue took part *)
Theorem C17_vs_any : forall e a, builds e a -> (a = Any <-> has_any e = true).
Proof. exact builds_any. Qed.

(* non-vacuity: a chain of overlapping and adjacent ranges, a swallowed value, a union *)
Example C17_example :
  let e := EUnion (EAddR (EAddR (EAddV (EAddR EEmpty 0 1) 4) 6 7) 1 6) (EAddV (EAddR EEmpty 9 10) 12) in
  build e = VS (mkVS [12] [(9, 10); (0, 7)]) /\ contains (build e) 4 = true /\ contains (build e) 8 = false.
Proof. vm_compute. repeat split; reflexivity. Qed.
