(* C17 -- Constraint-table queries follow set semantics.
   Property theorems only; each closed by `exact <lemma>`.
   Models: Model/ValueSet.v, Model/ConstraintTable.v (hand models of
   vc2_conformance/constraint_table.py and decoder/assertions.py assert_level_constraint; tie C). *)
From Coq Require Import ZArith List Bool Lia Permutation.
From VC2 Require Import Model.ValueSet Model.ConstraintTable Proofs.ValueSetProofs Proofs.ConstraintTableProofs.
Import ListNotations.
Open Scope Z_scope.

(* A value set contains exactly the union of its listed values and inclusive ranges after ANY
   sequence of add_value / add_range / + operations (an expression tree, because the right
   operand of + is itself a built set), for EVERY iteration order Python may choose for its
   two internal sets at every step (`builds` is closed under permutation).
   No well-formedness hypothesis is needed: an inverted range (lo > hi) denotes the empty set
   on both sides. *)
Theorem C17_vs_sem : forall (e : vexpr) (a : vset) (v : Z),
  builds e a -> (contains a v = true <-> denotes e v).
Proof. exact vs_sem. Qed.

(* the deterministic model function is one of the reachable states *)
Theorem C17_build_reachable : forall e, builds e (build e).
Proof. exact builds_build. Qed.

(* the result is the AnyValue wildcard exactly when an AnyValue took part *)
Theorem C17_vs_any : forall e a, builds e a -> (a = Any <-> has_any e = true).
Proof. exact builds_any. Qed.

(* Representation invariant behind add_range's SINGLE merging pass: whatever the operations
   and iteration orders, the ranges (all lo <= hi) stay duplicate free and pairwise
   non-overlapping, and no listed value lies inside a range (values are swallowed by ranges). *)
Theorem C17_vs_invariant : forall e a, builds e a -> expr_wf e -> inv_vs a.
Proof. exact builds_inv. Qed.

(* ... and therefore the outcome of add_range / add_value does not depend on the order in
   which Python iterates its sets: permuted states give permuted results (this is what lets
   the correspondence run compare internal states up to permutation). *)
Theorem C17_add_range_order_independent : forall s s' lo hi,
  inv s -> lo <= hi -> st_perm s s' -> st_perm (add_range s lo hi) (add_range s' lo hi).
Proof. exact add_range_order_independent. Qed.
Theorem C17_add_value_order_independent : forall s s' v,
  st_perm s s' -> st_perm (add_value s v) (add_value s' v).
Proof. exact add_value_order_independent. Qed.

(* iter_values() lists exactly the members *)
Theorem C17_iter_values_sem : forall s v, In v (st_iter_values s) <-> st_contains s v = true.
Proof. exact iter_values_sem. Qed.

(* every range lo <= hi ("inclusive ranges") stays so, whatever the operations *)
Theorem C17_wf_preserved : forall e a, builds e a -> expr_wf e -> wf_vs a.
Proof. exact builds_wf. Qed.

(* is_disjoint (both classes, both argument orders) answers correctly on sets whose ranges
   have lo <= hi -- in particular on every set built from such ranges (C17_wf_preserved) *)
Theorem C17_disjoint_correct : forall a b : vset, wf_vs a -> wf_vs b ->
  (is_disjoint a b = true <-> ~ exists v, contains a v = true /\ contains b v = true).
Proof. exact disjoint_correct. Qed.

(* RECORDED, outside the property (an inverted range is not an "inclusive range"): ValueSet((5, 3))
   holds nothing (C17_vs_sem covers that), yet is_disjoint inspects its end points and answers
   "not disjoint" against {5} and against AnyValue.  The real code behaves the same. *)
Theorem C17_disjoint_inverted_refuted : exists a b : vset,
  (forall v, contains a v = false) /\ is_disjoint a b = false /\ is_disjoint b a = false /\ is_disjoint a Any = false.
Proof.
  exists (build (EAddR EEmpty 5 3)), (build (EAddV EEmpty 5)).
  exact (let '(conj h1 (conj h2 (conj h3 h4))) := disjoint_inverted_witness in conj h4 (conj h1 (conj h2 h3))).
Qed.

(* ---- constraint tables ------------------------------------------------------------------
   'catch-all' in the code = a column that is the EMPTY dictionary (filter_constraint_table:
   `or len(allowed_combination) == 0  # Special case: 'catch all' rule`); no_catch_all T says
   no column of T is empty.  AnyValue cells are allowed everywhere. *)
Theorem C17_allowed_iff : forall (T : table) (k : key) (vals : assignment) (v : Z),
  no_catch_all T -> ~ In k (keys vals) ->
  (contains (allowed_values_for T k vals Any) v = true
   <-> is_allowed_combination T (dict_set vals k v) = true).
Proof. exact allowed_iff. Qed.

(* for EVERY table: the allowed values are those listed for the key by a column matching the chosen values *)
Theorem C17_allowed_values_exact : forall T k vals v,
  contains (allowed_values_for T k vals Any) v = true
  <-> exists e, In e T /\ matches e vals = true /\ entry_has e k v = true.
Proof. exact avf_contains. Qed.

(* the any_value argument is substituted exactly when a matching column holds AnyValue for the key *)
Theorem C17_allowed_any_value : forall T k vals av,
  (allowed_values_for T k vals Any = Any <->
     exists e, In e (filter_constraint_table T vals) /\ lookup e k = Some Any)
  /\ (allowed_values_for T k vals Any = Any -> allowed_values_for T k vals av = av)
  /\ (allowed_values_for T k vals Any <> Any -> allowed_values_for T k vals av = allowed_values_for T k vals Any).
Proof. exact avf_any_value. Qed.

(* both hypotheses of C17_allowed_iff are needed *)
Theorem C17_allowed_iff_needs_no_catch_all : exists T k vals v, ~ In k (keys vals) /\
  contains (allowed_values_for T k vals Any) v = false /\ is_allowed_combination T (dict_set vals k v) = true.
Proof.
  exists [[]; [(0, VS (mkVS [1] []))]], 0, [], 5.
  exact (conj (fun H : In 0 (keys (@nil (key * Z))) => H) allowed_iff_catch_all_witness).
Qed.
Theorem C17_allowed_iff_needs_fresh_key : exists T k vals v, no_catch_all T /\
  contains (allowed_values_for T k vals Any) v = false /\ is_allowed_combination T (dict_set vals k v) = true.
Proof. exists [[(0, VS (mkVS [1] []))]; [(0, VS (mkVS [2] []))]], 0, [(0, 1)], 2. exact allowed_iff_key_chosen_witness. Qed.

(* The validator (assert_level_constraint, one call per value in stream order): a sequence of
   DISTINCT keys is accepted exactly when every non-empty prefix is an allowed combination; it
   then has recorded exactly the sequence.  (The empty prefix is excluded: nothing is checked
   before the first value, while is_allowed_combination [] {} is False.) *)
Theorem C17_incremental_iff : forall (T : table) (kvs : list (key * Z)),
  no_catch_all T -> NoDup (keys kvs) ->
  (level_check T kvs <> None
   <-> forall n, (0 < n <= length kvs)%nat -> is_allowed_combination T (firstn n kvs) = true)
  /\ (level_check T kvs <> None -> level_check T kvs = Some kvs).
Proof. exact incremental_iff. Qed.

(* ... equivalently the whole-dictionary check *)
Theorem C17_incremental_whole : forall T kvs, no_catch_all T -> NoDup (keys kvs) ->
  (level_check T kvs <> None <-> kvs = [] \/ is_allowed_combination T kvs = true).
Proof. exact incremental_whole. Qed.

(* ANY sequence, keys may repeat (second sequence header, next picture), any table: each call
   returns normally exactly when ONE column allows both the dictionary before and after it *)
Theorem C17_level_step_iff : forall T cv k v,
  (level_step T cv (k, v) <> None
   <-> exists e, In e T /\ matches e cv = true /\ matches e (dict_set cv k v) = true)
  /\ (level_step T cv (k, v) <> None -> level_step T cv (k, v) = Some (dict_set cv k v)).
Proof. exact level_step_iff. Qed.

Theorem C17_incremental_general : forall T kvs,
  (level_check T kvs <> None
   <-> forall n, (n < length kvs)%nat ->
       exists e, In e T /\ matches e (dict_of (firstn n kvs)) = true
                 /\ matches e (dict_of (firstn (S n) kvs)) = true)
  /\ (level_check T kvs <> None -> level_check T kvs = Some (dict_of kvs)).
Proof. exact level_check_general. Qed.

(* RECORDED: dropping NoDup from C17_incremental_iff is false -- with a repeated key the
   one-at-a-time check is stricter than "every prefix dictionary is allowed" (the old and the
   new value must be allowed by the same column).  The real code behaves the same (harness). *)
Theorem C17_incremental_repeated_key_refuted : exists (T : table) (kvs : list (key * Z)),
  no_catch_all T
  /\ (forall n, (0 < n <= length kvs)%nat -> is_allowed_combination T (dict_of (firstn n kvs)) = true)
  /\ level_check T kvs = None.
Proof.
  exists [[(0, VS (mkVS [1] [])); (1, VS (mkVS [5] []))]; [(0, VS (mkVS [2] [])); (1, VS (mkVS [5] []))]],
         [(0, 1); (1, 5); (0, 2)].
  exact incremental_repeated_key_witness.
Qed.

(* ---- tables read from CSV (abstract cells; text tokenisation is outside the model) ---------
   The table has as many columns as the longest row; in column i the set under key k is what
   the cell of the LAST row for k reaching column i says, a ditto cell saying what the cell to
   its left says (nothing, left of the first cell), 'any' being the AnyValue object and an item
   list a plain ValueSet holding exactly the listed integers, inclusive ranges and TRUE=1/FALSE=0;
   keys with no such row are absent. *)
Theorem C17_csv_sem : forall rows : list row,
  length (read_rows rows) = fold_left (fun m r => Nat.max m (length (snd r))) rows 0%nat
  /\ forall i k, cell_rel (lookup (nth i (read_rows rows) []) k) (spec_cell rows i k).
Proof. exact csv_sem. Qed.

(* a table read from CSV has no catch-all column, so C17_allowed_iff / C17_incremental_iff apply to it *)
Theorem C17_csv_no_catch_all : forall rows, no_catch_all (read_rows rows).
Proof. exact csv_no_catch_all. Qed.

(* non-vacuity: a chain of overlapping and adjacent ranges, a swallowed value, a union *)
Example C17_example :
  let e := EUnion (EAddR (EAddR (EAddV (EAddR EEmpty 0 1) 4) 6 7) 1 6) (EAddV (EAddR EEmpty 9 10) 12) in
  build e = VS (mkVS [12] [(9, 10); (0, 7)]) /\ contains (build e) 4 = true /\ contains (build e) 8 = false.
Proof. vm_compute. repeat split; reflexivity. Qed.

Example C17_example_table :
  let T : table := [[(0, VS (mkVS [1] [(4, 6)])); (1, Any)]; [(0, VS (mkVS [2] [])); (1, VS (mkVS [7] []))]] in
  no_catch_all T /\ level_check T [(1, 7); (0, 2)] = Some [(1, 7); (0, 2)] /\ level_check T [(0, 5); (1, 7)] = Some [(0, 5); (1, 7)]
  /\ level_check T [(0, 2); (1, 8)] = None /\ allowed_values_for T 0 [(1, 7)] Any = VS (mkVS [2; 1] [(4, 6)]).
Proof. split; [intros e [<-|[<-|[]]]; discriminate|vm_compute; repeat split; reflexivity]. Qed.

Example C17_example_csv :
  read_rows [(7, [Items [IVal 3; IRange 5 9; IBool true]; Ditto; CAny; Ditto]); (8, [Ditto; Items []]); (7, [Items [IVal 2]])]
  = [[(7, VS (mkVS [2] [])); (8, VS (mkVS [] []))];
     [(7, VS (mkVS [3; 1] [(5, 9)])); (8, VS (mkVS [] []))];
     [(7, Any)]; [(7, Any)]].
Proof. vm_compute. reflexivity. Qed.
