(* C22 -- Picture generators produce well-formed pictures for any regular format.
   Property theorems only.  Model: Model/PicGen.v -- the integer/geometry tail of
   picture_generators.py and color_conversion.py (clip of float_to_int_clipped with intlog2 from
   Gen/VC2Math.v, progressive_to_pictures line splitting, numbering, generator frame counts,
   from_444 plane sizes) and Model/FileFormat.v (dimensions_and_depths).
   PARTIAL by design: the float pipeline (numpy, colour matrices, transfer functions, PIL resize,
   the sprite file) is not modelled; `C22_clip_in_depth` says the samples are in range WHATEVER
   integer that pipeline hands to the clip.  Everything else about the real generators is
   covered only by the differential/oracle run of tools/harness/C22.py. *)
From Coq Require Import ZArith List Bool Lia.
From VC2 Require Import Base.PyZ Gen.StateRec Gen.VC2Math Gen.VideoParams Model.FileFormat Model.PicGen
  Proofs.FileFormatProofs Proofs.PicGenProofs Proofs.DimsBridge.
Import ListNotations.
Open Scope Z_scope.

(* every sample leaving float_to_int_clipped lies within the component's bit depth, for any
   excursion and ANY integer input (garbage from NaN/inf/overflow included) *)
Theorem C22_clip_in_depth : forall excursion a : Z, 0 <= excursion ->
  0 <= clip_sample excursion a <= 2 ^ depth_of_excursion excursion - 1.
Proof. exact clip_in_depth. Qed.

(* in-range values pass unchanged; the excursion (nominal white) always fits *)
Theorem C22_clip_identity_in_range : forall excursion a : Z,
  0 <= a <= 2 ^ depth_of_excursion excursion - 1 -> clip_sample excursion a = a.
Proof. exact clip_sample_id. Qed.

Theorem C22_mid_gray_in_depth : forall depth : Z, 1 <= depth ->
  0 <= mid_gray_value depth <= 2 ^ depth - 1.
Proof. exact mid_gray_in_depth. Qed.

(* at least one picture, and an even number when pictures are fields: every generator, any
   source sampling, any num_frames >= 1 *)
Theorem C22_fields_even_count : forall g pcm interlaced num_frames, 1 <= num_frames -> (pcm = 0 \/ pcm = 1) ->
  1 <= pictures_yielded g pcm interlaced num_frames /\
  (pcm = 1 -> pictures_yielded g pcm interlaced num_frames mod 2 = 0).
Proof. exact fields_even_count. Qed.

(* ... where pictures_yielded is what progressive_to_pictures produces from the frames the
   sprite/ramp generators yield (any frame contents) *)
Theorem C22_pictures_count : forall g pcm interlaced tff num_frames (frames : list (list unit)),
  g <> MidGray -> g <> WhiteNoise ->
  Z.of_nat (length frames) = frames_yielded g interlaced num_frames ->
  Z.of_nat (length (progressive_to_pictures pcm interlaced tff frames)) = pictures_yielded g pcm interlaced num_frames.
Proof. exact pictures_yielded_matches. Qed.

(* picture numbers are 0, 1, 2, ... in order, pictures unchanged *)
Theorem C22_numbering_from_zero : forall (R : Type) (pics : list (list R)),
  map fst (xyz_to_native pics) = map Z.of_nat (seq 0 (length pics)) /\
  map snd (xyz_to_native pics) = pics.
Proof. exact (fun R => @numbering_from_zero R). Qed.

(* every picture out of progressive_to_pictures has the coded number of lines (frame height even
   whenever lines are split) *)
Theorem C22_picture_heights : forall (R : Type) pcm interlaced tff h (frames : list (list R)),
  ((negb (pcm =? 0) || interlaced = true) -> h mod 2 = 0) ->
  all_height h frames ->
  all_height (picture_height pcm interlaced h) (progressive_to_pictures pcm interlaced tff frames).
Proof. exact (fun R => @pictures_height R). Qed.

(* for any regular format the generated Y and C1/C2 planes have exactly the sizes
   dimensions_and_depths computes, none of them empty *)
Theorem C22_component_dims : forall f pcm interlaced, (pcm = 0 \/ pcm = 1) -> regular f pcm interlaced = true ->
  generated_dims f pcm interlaced = Some (luma_dims_wh f pcm, color_diff_dims_wh f pcm) /\
  0 < fst (luma_dims_wh f pcm) /\ 0 < snd (luma_dims_wh f pcm) /\
  0 < fst (color_diff_dims_wh f pcm) /\ 0 < snd (color_diff_dims_wh f pcm).
Proof. exact component_dims. Qed.

(* tie T: the model's component sizes and depths are the fields the TRANSLATED pseudocode set_coding_parameters
   (Gen/VideoParams.v, regenerated from pseudocode/video_parameters.py on every run) leaves in the state, for every
   format and coding mode; the translated code does not raise *)
Theorem C22_component_dims_match_source : forall f pcm,
  (st_luma_width (coded_state f pcm), st_luma_height (coded_state f pcm)) = luma_dims_wh f pcm /\
  (st_color_diff_width (coded_state f pcm), st_color_diff_height (coded_state f pcm)) = color_diff_dims_wh f pcm /\
  st_luma_depth (coded_state f pcm) = depth_of_excursion (luma_excursion f) /\
  st_color_diff_depth (coded_state f pcm) = depth_of_excursion (color_diff_excursion f) /\
  set_coding_parameters_dom (state_of_pcm pcm) (vp_of_format f) = true.
Proof.
  exact (fun f pcm => match coded_state_fields f pcm with
                      | conj a (conj b (conj c d)) => conj a (conj b (conj c (conj d (set_coding_parameters_dom_ok f pcm))))
                      end).
Qed.

(* C22_component_dims and C22_clip_in_depth over the translated functions *)
Theorem C22_component_dims_source : forall f pcm interlaced, (pcm = 0 \/ pcm = 1) -> regular f pcm interlaced = true ->
  let st := coded_state f pcm in
  generated_dims f pcm interlaced =
    Some ((st_luma_width st, st_luma_height st), (st_color_diff_width st, st_color_diff_height st)) /\
  0 < st_luma_width st /\ 0 < st_luma_height st /\ 0 < st_color_diff_width st /\ 0 < st_color_diff_height st.
Proof. exact component_dims_source. Qed.

Theorem C22_clip_in_depth_source : forall f pcm a, 0 <= luma_excursion f -> 0 <= color_diff_excursion f ->
  0 <= clip_sample (luma_excursion f) a <= 2 ^ st_luma_depth (coded_state f pcm) - 1 /\
  0 <= clip_sample (color_diff_excursion f) a <= 2 ^ st_color_diff_depth (coded_state f pcm) - 1.
Proof. exact clip_in_depth_source. Qed.

(* non-vacuity *)
Example C22_example :
  clip_sample 876 (-9223372036854775808) = 0 /\ clip_sample 876 5000 = 1023 /\ clip_sample 876 940 = 940 /\
  map (@length Z) (progressive_to_pictures 1 false false [[10; 11; 12; 13]; [20; 21; 22; 23]]) = [2; 2; 2; 2]%nat /\
  progressive_to_pictures 1 false false [[10; 11; 12; 13]] = [[11; 13]; [10; 12]] /\
  progressive_to_pictures 0 true true [[10; 11; 12; 13]; [20; 21; 22; 23]] = [[10; 21; 12; 23]] /\
  generated_dims (mkFormat 8 4 2 255 255 []) 1 false = Some ((8, 2), (4, 1)) /\
  regular (mkFormat 8 4 2 255 255 []) 1 false = true /\ regular (mkFormat 8 2 2 255 255 []) 1 false = false /\
  pictures_yielded MovingSprite 1 true 10 = 20.
Proof. vm_compute. repeat split; reflexivity. Qed.
