(* C02 -- Validator terminates with a verdict on any byte string.  STAGE 1: the stream level.
   Model: Model/Stream.v (tie C).  Header / slice-level totality is not modelled here (partial, covered
   by the mutation fuzz of tools/harness/C02.py on the implementation). *)
From Coq Require Import ZArith List Bool.
From VC2 Require Import Base.PyZ Model.Stream Proofs.StreamProofs.
Import ListNotations.
Open Scope Z_scope.

Section C02.
  Variable gst : Type.
  Variable gstart : gst.
  Variable gstep : gst -> symbol -> option gst.
  Variable gcomplete : gst -> bool.
  Variable lst : Type.
  Variable lstart : Z -> lst.
  Variable lstep : Z -> lst -> symbol -> option lst.
  Variable lcomplete : Z -> lst -> bool.
  Variable level_known : Z -> bool.
  Hypothesis Hgen : gen_first_is_seqhdr_b gstart gstep = true.
  Hypothesis Hlvl : forall l, level_known l = true -> lvl_accepts_seqhdr_b lstart lstep l = true.

  (* ARBITRARY data-unit lists -- any kinds, order, lengths, offsets, picture numbers, versions,
     profiles, levels, slice counts and coordinates; no `units_valid`.  The only thing assumed is what
     the syntax itself guarantees: a fragment that is parsed as slice-bearing has a positive
     (unsigned, non-zero) slice count.  The repaired validator ends in Accept or a conformance error. *)
  Theorem C02_stream_no_crash_partial : forall us, forallb kind_wf us = true ->
    forall e, run gst gstart gstep gcomplete lst lstart lstep lcomplete level_known false us <> VCrash e.
  Proof. exact (no_crash gst gstart gstep gcomplete lst lstart lstep lcomplete level_known Hgen Hlvl). Qed.
End C02.

Example C02_example : kind_wf (mkUnit (KFragData true 0 1 0 0) 13 0 0) = true /\
                      kind_wf (mkUnit (KFragData true 0 0 0 0) 13 0 0) = false.
Proof. vm_compute. split; reflexivity. Qed.

(* ===================================================================================================
   STAGE 2 -- inside a data unit, over actual BITS.  Model: Model/Headers.v (bit reader, parse_info,
   sequence header, picture header, transform parameters, fragment header; tie C: tools/harness/C02_headers.py
   runs the real decoder functions and the model on the same bits) and Model/DataUnit.v (composition with
   the slice readers of Model/Slices.v, property C08).

   `verdict r`  :=  r = HOk _  \/  r = HReject <conformance error class>  \/  r = HEof (UnexpectedEndOfStream),
   i.e. NOT HCrash <Python exception> and NOT HOutOfFuel (fuel = unread bits + 1 always suffices).
   Quantified over ALL bit strings, reader positions, ALL tables satisfying the decidable consistency
   predicate `tables_ok` (a value accepted by an enum check is a key of the table subscripted next; evaluated
   on the live vc2_data_tables objects on every run), ALL level-constraint predicates `lvl` and ALL matcher
   answers.  Contexts are the state entries that the preceding stream-level steps always provide
   (PIC / FRAG / PINFO below; their maintenance across data units is the stream-level theorem above). *)
From VC2 Require Import Model.Headers Proofs.HeadersProofs Model.DataUnit Proofs.DataUnitProofs.
From VC2 Require Import Gen.StateRec Gen.VideoParams Proofs.HeadersBridge.

(* (11.1) sequence_header, from any state whatsoever, at a byte-aligned position *)
Theorem C02_headers_total_sequence_header : forall T lvl fuel s,
  Headers.tables_ok T = true ->
  (length (Headers.r_bits (Headers.s_rd s)) < fuel)%nat ->
  py_mod (Headers.r_pos (Headers.s_rd s)) 8 = 0 ->
  HeadersProofs.verdict (Headers.sequence_header T lvl fuel s) /\
  (forall s', Headers.sequence_header T lvl fuel s = Headers.HOk (tt, s') ->
     HeadersProofs.ext s s' /\ HeadersProofs.after_seq_hdr s').
Proof. exact HeadersProofs.sequence_header_total. Qed.

(* (12.1) picture_parse up to the first slice: byte_align, picture_header, byte_align, transform_parameters
   (with extended_transform_parameters, slice_parameters, quant_matrix), byte_align.
   PIC s = major_version, picture_coding_mode, the four picture dimensions (left by a parsed sequence header:
   after_seq_hdr), _num_pictures_in_sequence (parse_sequence) and parse_code (parse_info) are present. *)
Theorem C02_headers_total_picture : forall T lvl fuel s,
  HeadersProofs.PIC s -> (length (Headers.r_bits (Headers.s_rd s)) < fuel)%nat ->
  HeadersProofs.verdict (Headers.picture_parse_header T lvl fuel s) /\
  (forall s', Headers.picture_parse_header T lvl fuel s = Headers.HOk (tt, s') ->
     HeadersProofs.ext s s' /\ HeadersProofs.slices_present s').
Proof. exact HeadersProofs.picture_parse_header_total. Qed.

(* (14.1) fragment_parse up to the first slice: fragment_header and, for a first fragment,
   transform_parameters + the counters of initialize_fragment_state.
   FRAG s = PIC s, _fragment_slices_remaining present, and when it is non-zero (a fragmented picture is in
   progress) fragment_slices_received, _picture_initial_fragment_offset and a non-zero slices_x are there. *)
Theorem C02_headers_total_fragment : forall T lvl fuel s,
  HeadersProofs.FRAG s -> (length (Headers.r_bits (Headers.s_rd s)) < fuel)%nat ->
  HeadersProofs.verdict (Headers.fragment_parse_header T lvl fuel s) /\
  (forall s', Headers.fragment_parse_header T lvl fuel s = Headers.HOk (tt, s') -> HeadersProofs.ext s s').
Proof. exact HeadersProofs.fragment_parse_header_total. Qed.

(* (10.5.1) parse_info, for all answers of the two pattern matchers.
   PINFO s = _generic_sequence_matcher present; level present when the level matcher is; _last_parse_info_offset
   present when a non-zero next_parse_offset is; a stored profile is a member of the Profiles enum. *)
Theorem C02_headers_total_parse_info : forall T generic_accepts level_accepts fuel s,
  Headers.tables_ok T = true -> HeadersProofs.PINFO T s ->
  (length (Headers.r_bits (Headers.s_rd s)) < fuel)%nat ->
  HeadersProofs.verdict (Headers.parse_info T generic_accepts level_accepts s) /\
  (forall s', Headers.parse_info T generic_accepts level_accepts s = Headers.HOk (tt, s') ->
     HeadersProofs.ext s s' /\ HeadersProofs.present Headers.S_parse_code s').
Proof. exact HeadersProofs.parse_info_total. Qed.

(* verdict = neither a Python exception nor out of fuel *)
Theorem C02_verdict_iff : forall (A : Type) (r : Headers.hres A),
  HeadersProofs.verdict r <-> (forall c, r <> Headers.HCrash c) /\ r <> Headers.HOutOfFuel.
Proof. exact @HeadersProofs.verdict_iff. Qed.

(* the contexts chain: what a parsed sequence header leaves, plus the two entries set by parse_sequence and
   parse_info, is the context of a picture; keys never disappear (ext) *)
Theorem C02_picture_context : forall s,
  HeadersProofs.after_seq_hdr s -> HeadersProofs.present Headers.S_num_pictures_in_sequence s ->
  HeadersProofs.present Headers.S_parse_code s -> HeadersProofs.PIC s.
Proof. exact HeadersProofs.PIC_intro. Qed.
Theorem C02_picture_context_kept : forall s s', HeadersProofs.PIC s -> HeadersProofs.ext s s' -> HeadersProofs.PIC s'.
Proof. exact HeadersProofs.PIC_ext. Qed.

(* `tables_ok` cannot be dropped, and HCrash is a genuine outcome of the model: a base video format that is
   in the enum but not in BASE_VIDEO_FORMAT_PARAMETERS gives KeyError *)
Theorem C02_headers_refuted_for_inconsistent_tables :
  Headers.tables_ok (HeadersProofs.toy_tables false) = false /\
  exists bits, Headers.sequence_header (HeadersProofs.toy_tables false) (fun _ _ _ => true) (Headers.fuel_for bits)
                 (Headers.init_S [] None None bits 0) = Headers.HCrash Headers.X_KeyError.
Proof. exact HeadersProofs.tables_ok_needed. Qed.

(* non-vacuity: a 16 bit sequence header (version 1, profile 0, level 0, base format 0, no custom fields,
   frames) is parsed by the model *)
Example C02_headers_example :
  Headers.tables_ok (HeadersProofs.toy_tables true) = true /\
  exists s', Headers.sequence_header (HeadersProofs.toy_tables true) (fun _ _ _ => true)
               (Headers.fuel_for (Headers.bits_of_bytes [62; 1]))
               (Headers.init_S [] None None (Headers.bits_of_bytes [62; 1]) 0) = Headers.HOk (tt, s') /\
             Headers.s_st s' Headers.S_luma_width = Some 4 /\ Headers.s_st s' Headers.S_luma_height = Some 2 /\
             Headers.s_st s' Headers.S_luma_depth = Some 8 /\ Headers.r_pos (Headers.s_rd s') = 16.
Proof. exact HeadersProofs.toy_header_parses. Qed.

(* A WHOLE picture data unit -- headers, transform parameters and every slice in raster order (the slice
   readers are Model/Slices.v; fuel sufficiency is C08_fuel_sufficient) -- ends in a verdict.
   PARTIAL.  Outside this statement:
   * Model/Slices.v has no `Crash` outcome: state["quant_matrix"][level][orient] is a total function there and the
     writes into the coefficient arrays are a list of assignments, so KeyError / IndexError in the slice readers
     are excluded by C13 (slice geometry inside the subband) and by the shape of the matrix, not by this theorem;
     the two level assertions inside the slice readers (qindex, total_slice_bytes) only add ValueNotAllowedInLevel;
   * dc_prediction, the inverse wavelet transform and picture_decode (arithmetic on well-shaped arrays: C09, C11);
   * the bit-level refinement of the abstract data units of Model/Stream.v (C02_stream_no_crash_partial above is
     stated over abstract units; that each unit's bits are parsed as modelled here is what the correspondence run
     of stage 2 checks), padding / auxiliary data bodies;
   * the reporting methods of the 64 exception classes. *)
Theorem C02_data_unit_total_partial : forall T lvl fuel s,
  HeadersProofs.PIC s -> (length (Headers.r_bits (Headers.s_rd s)) < fuel)%nat ->
  HeadersProofs.verdict (DataUnit.picture_data_unit T lvl fuel s).
Proof. exact DataUnitProofs.picture_data_unit_total. Qed.

(* TIE T for (11.6.1) set_coding_parameters.  Gen/VideoParams.v is regenerated from
   vc2_conformance/pseudocode/video_parameters.py on every run.  For ALL states and video-parameter maps:
   whenever the hand model's set_coding_parameters step (picture_dimensions; video_depth -- the step used inside
   Headers.sequence_header) succeeds, picture_coding_mode was present, the translated function is inside its
   domain, and the six entries the step writes -- luma / colour-difference width, height and depth, which are
   also exactly the state values the PictureDimensionsNotMultipleOfFrameDimensions check of sequence_header
   reads next -- are the fields of the TRANSLATED set_coding_parameters applied to the records built from the
   same values.  `consts_ok T` (4:2:2 = 1, 4:2:0 = 2, pictures_are_fields = 1: the enum members the translator
   turned into literals) is evaluated on the live tables by the correspondence run. *)
Theorem C02_coding_parameters_match_source : forall T s s',
  HeadersBridge.consts_ok T = true ->
  Headers.m_set_coding_parameters T s = Headers.HOk (tt, s') ->
  exists pcm, Headers.s_st s Headers.S_picture_coding_mode = Some pcm /\
    VideoParams.set_coding_parameters_dom (HeadersBridge.rec_state pcm) (HeadersBridge.rec_vp (Headers.s_vp s)) = true /\
    let ps := VideoParams.set_coding_parameters (HeadersBridge.rec_state pcm) (HeadersBridge.rec_vp (Headers.s_vp s)) in
    Headers.s_st s' Headers.S_luma_width = Some (st_luma_width ps) /\
    Headers.s_st s' Headers.S_luma_height = Some (st_luma_height ps) /\
    Headers.s_st s' Headers.S_color_diff_width = Some (st_color_diff_width ps) /\
    Headers.s_st s' Headers.S_color_diff_height = Some (st_color_diff_height ps) /\
    Headers.s_st s' Headers.S_luma_depth = Some (st_luma_depth ps) /\
    Headers.s_st s' Headers.S_color_diff_depth = Some (st_color_diff_depth ps).
Proof. exact HeadersBridge.coding_parameters_match_source. Qed.
