(* C02 -- Validator terminates with a verdict on any byte string.  STAGE 1: the stream level.
   Model: Model/Stream.v (tie C).  Header / slice-level totality is not modelled here (partial, covered
   by the mutation fuzz of tools/harness/C02.py on the implementation). *)
From Coq Require Import ZArith List Bool.
From VC2 Require Import Base.PyZ Model.Stream Proofs.StreamProofs.
Import ListNotations.
Open Scope Z_scope.

Section C02.
  Variable gst : Type.
  Variable gstart : gst.
  Variable gstep : gst -> symbol -> option gst.
  Variable gcomplete : gst -> bool.
  Variable lst : Type.
  Variable lstart : Z -> lst.
  Variable lstep : Z -> lst -> symbol -> option lst.
  Variable lcomplete : Z -> lst -> bool.
  Variable level_known : Z -> bool.
  Hypothesis Hgen : gen_first_is_seqhdr_b gstart gstep = true.
  Hypothesis Hlvl : forall l, level_known l = true -> lvl_accepts_seqhdr_b lstart lstep l = true.

  (* ARBITRARY data-unit lists -- any kinds, order, lengths, offsets, picture numbers, versions,
     profiles, levels, slice counts and coordinates; no `units_valid`.  The only thing assumed is what
     the syntax itself guarantees: a fragment that is parsed as slice-bearing has a positive
     (unsigned, non-zero) slice count.  The repaired validator ends in Accept or a conformance error. *)
  Theorem C02_stream_no_crash_partial : forall us, forallb kind_wf us = true ->
    forall e, run gst gstart gstep gcomplete lst lstart lstep lcomplete level_known false us <> VCrash e.
  Proof. exact (no_crash gst gstart gstep gcomplete lst lstart lstep lcomplete level_known Hgen Hlvl). Qed.
End C02.

Example C02_example : kind_wf (mkUnit (KFragData true 0 1 0 0) 13 0 0) = true /\
                      kind_wf (mkUnit (KFragData true 0 0 0 0) 13 0 0) = false.
Proof. vm_compute. split; reflexivity. Qed.
