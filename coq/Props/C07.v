(* C07 -- Automatic field filling preserves explicit values and computes derived ones.
   Model: Model/Autofill.v (the four passes of bitstream/vc2_autofill.py; the version implications are
   Gen/Version.v, REGENERATED from /repo on every run).  Specifications: Model/AutofillSpec.v.
   "Omitted fields take their documented defaults" is a table comparison done by the harness. *)
From Coq Require Import ZArith List Bool.
From VC2 Require Import Base.PyZ Gen.Version Gen.Consts Model.Autofill Model.AutofillSpec Proofs.AutofillProofs.
Import ListNotations.
Open Scope Z_scope.

(* Every sequence is treated on its own (numbering, version and offsets restart), whatever the
   position `start` of the stream in the file. *)
Theorem C07_per_sequence : forall d start s,
  autofill_stream d start s =
  map (fun us => nth 0 (autofill_stream d 0 [us]) []) s.
Proof.
  intros d start s. rewrite autofill_stream_per_sequence. apply map_ext. intros us.
  rewrite autofill_stream_per_sequence. reflexivity.
Qed.

(* explicit_preserved: whole pipeline, every data unit of every sequence: no Explicit value of an
   autofillable field changes, every other field is untouched; the only thing that can disappear is an
   extended_transform_parameters entry (unit_pres / tp_pres) ... *)
Theorem C07_explicit_preserved : forall d start s,
  Forall2 (Forall2 unit_pres) s (autofill_stream d start s).
Proof. exact explicit_preserved. Qed.

(* ... and that happens only to entries describing a symmetric transform (which a stream labelled
   with a version below 3 codes identically without the entry) *)
Theorem C07_etp_removed_only_if_symmetric : forall d us,
  Forall2 (fun u u' => forall tp, get_tp d u = Some tp ->
             exists tp', get_tp d u' = Some tp' /\ t_wavelet_index tp' = t_wavelet_index tp /\
                         (t_etp tp' = t_etp tp \/ (t_etp tp' = None /\ symmetric_tp d tp)))
          us (mv_seq d us).
Proof. exact etp_removed_only_if_symmetric. Qed.

(* picnum_auto: the number of the unit at any position is its explicit value, else the number of the
   closest preceding picture/fragment unit OF THE OUTPUT (explicit or automatic; 2^32-1 if none, so the
   first picture gets 0) plus one modulo 2^32 for pictures and first fragments, and that same number for
   the other fragments -- exactly the code's behaviour, also when a data fragment carries an explicit number *)
Theorem C07_picnum_auto : forall d pre u post,
  let out := pn_seq d 4294967295 (pre ++ u :: post) in
  let prev := last_number 4294967295 (firstn (length pre) out) in
  exists u', nth_error out (length pre) = Some u' /\
    match pn_kind u with
    | PNOther => u' = u
    | _ => number_of u' =
           Some (match pn_field u with
                 | Explicit v => v
                 | _ => if pn_increment d u then (prev + 1) mod 4294967296 else prev
                 end)
    end.
Proof. exact seq_picnum_auto. Qed.

(* numbering restarts at 0 in every sequence *)
Theorem C07_picnum_restarts : forall d s,
  autofill_picture_number d 0 s = map (pn_seq d 4294967295) s.
Proof. exact picnum_restarts. Qed.

(* closed form when no number is explicit up to a unit: (pictures started so far - 1) mod 2^32 -- counts
   0, 1, 2, ... over pictures and first fragments, wraps at 2^32, and is repeated by all fragments of a picture *)
Theorem C07_picnum_all_auto : forall d pre u post,
  pn_all_auto (pre ++ [u]) -> is_pn_unit u = true ->
  exists u', nth_error (pn_seq d 4294967295 (pre ++ u :: post)) (length pre) = Some u' /\
             number_of u' = Some ((starts d (pre ++ [u]) - 1) mod 4294967296).
Proof. exact seq_picnum_all_auto. Qed.

(* offsets_true: whole pipeline.  Sequence i = pre ++ u :: post.  Automatic next offset = length of u
   (= distance to the next parse_info), 0 when u is the last unit of ITS sequence, 13 + payload length for
   padding/auxiliary data; automatic previous offset = length of the previous unit of the same sequence,
   0 for the first unit of every sequence; explicit values are kept (expected_npo / expected_ppo). *)
Theorem C07_offsets_true : forall d start s i us pre u post,
  nth_error s i = Some us -> us = pre ++ u :: post ->
  exists us' u', nth_error (autofill_stream d start s) i = Some us' /\
                 nth_error us' (length pre) = Some u' /\
                 u_npo u' = expected_npo d u post /\ u_ppo u' = expected_ppo u pre.
Proof. exact offsets_true. Qed.

(* the positions the serialiser records are the running sums of the unit lengths, so "length of u" is the
   byte distance between consecutive parse_info headers *)
Theorem C07_offsets_are_positions : forall ms start pre m post,
  ms = pre ++ m :: post ->
  nth_error (fst (seq_offsets start ms)) (length pre) =
    Some (start + fold_right Z.add 0 (map (fun x => u_len (m_unit x)) pre)).
Proof. exact seq_offsets_positions. Qed.

(* next offset 0 exactly for the last unit of a sequence *)
Theorem C07_npo_zero_iff_last : forall d u post,
  is_autoish (u_npo u) = true -> 0 < u_len u -> (forall n, padaux_payload d u = Some n -> 0 <= n) ->
  (expected_npo d u post = Explicit 0 <-> post = [] /\ padaux_payload d u = None).
Proof. exact npo_zero_iff_last. Qed.

(* major_version: what autofill computes is the maximum of MINIMUM_MAJOR_VERSION and the implications of
   the features listed by af_feats (every parse code; per sequence header: profile, frame-rate /
   signal-range / colour-spec presets when their custom flag is set -- index 0 included --, and under colour
   spec 0 the primaries / matrix / transfer-function presets; per picture and first fragment the wavelet
   pair and horizontal-only depth) *)
Theorem C07_major_version_is_max : forall d us,
  seq_version d us = lmax MINIMUM_MAJOR_VERSION (af_feats d us).
Proof. exact seq_version_is_max. Qed.

(* ... every automatic major_version field of the sequence is set to it ... *)
Theorem C07_major_version_filled : forall d us,
  Forall2 (fun u u' => (eff_parse_code d u =? PC_SEQUENCE_HEADER) = true ->
                       mv_is_auto d (sh_major_version (u_sh u)) = true ->
                       sh_major_version (u_sh u') = Explicit (seq_version d us)) us (mv_seq d us).
Proof. exact mv_headers_filled. Qed.

(* major_version_agrees: the validator's version rules (val_version_ok: MajorVersionTooLow, the
   ...NotSupportedByVersion checks at every log_version_lower_bound site, assert_major_version_is_minimal
   with the empty-sequence exception; the validator does NOT log presets at index 0 and logs the wavelet
   bound only when it reads extended_transform_parameters, i.e. when labelled >= 3) accept the sequence
   labelled v' exactly when v' is the automatic version -- or 3 for a sequence without pictures.
   etp_codable: a label below 3 cannot carry an asymmetric transform at all. *)
Theorem C07_major_version_agrees : forall d us v',
  etp_codable d v' us ->
  (val_version_ok d v' us <-> v' = seq_version d us \/ (v' = 3 /\ val_npics d us = 0)).
Proof. exact major_version_agrees. Qed.

(* hence the automatic version is the LEAST version accepted *)
Theorem C07_major_version_least : forall d us,
  let v := seq_version d us in
  etp_codable d v us /\ val_version_ok d v us /\
  forall v', etp_codable d v' us -> val_version_ok d v' us -> v <= v'.
Proof. exact major_version_least. Qed.

(* whole pipeline: the numbers found in the serialised description of sequence i are exactly those assigned
   by the numbering pass (the later passes leave parse codes and numbers alone) ... *)
Theorem C07_picnum_final : forall d start s i us,
  nth_error s i = Some us ->
  exists us', nth_error (autofill_stream d start s) i = Some us' /\
    Forall2 (fun a b => pn_kind b = pn_kind a /\ number_of b = number_of a) (pn_seq d 4294967295 us) us'.
Proof. exact picnum_final. Qed.

(* ... and every automatic major_version of sequence i is the maximum over the features of THAT sequence *)
Theorem C07_major_version_final : forall d start s i us,
  nth_error s i = Some us ->
  exists us', nth_error (autofill_stream d start s) i = Some us' /\
    Forall2 (fun u u' => (eff_parse_code d u =? PC_SEQUENCE_HEADER) = true ->
                         mv_is_auto d (sh_major_version (u_sh u)) = true ->
                         sh_major_version (u_sh u') = Explicit (seq_version d us)) us us'.
Proof. exact major_version_final. Qed.

(* ---- non-vacuity -------------------------------------------------------------------------------- *)
Definition ex_d : defaults :=
  mk_defaults 16 None 3 (false, 3) (false, 1) (false, 3) (false, 0) (false, 0) (false, 0) 0 4 false 4 false 0 0 0.
Definition ex_p : preset := mk_preset None None.
Definition ex_h : seqhdr := mk_seqhdr Omitted (Some 0) ex_p ex_p ex_p ex_p ex_p ex_p.
Definition ex_t : tparams := mk_tp None None.
Definition ex_u (pc : Z) (n : afield) (len : Z) : dunit :=
  mk_dunit (Some pc) Auto Omitted ex_h n ex_t n None ex_t None (Some 5) len.
(* header, picture (explicit 2^32-1), padding of 5 bytes, picture (auto -> wraps to 0), end of sequence;
   a second sequence restarts *)
Example C07_example :
  map (map (fun u => (u_npo u, u_ppo u, sh_major_version (u_sh u), u_pic_number u)))
      (autofill_stream ex_d 0
         [[ex_u 0 Omitted 30; ex_u 200 (Explicit 4294967295) 40; ex_u 48 Auto 18; ex_u 200 Auto 41; ex_u 16 Auto 13];
          [ex_u 0 Omitted 30; ex_u 204 Auto 20; ex_u 16 Auto 13]]) =
  [[(Explicit 30, Explicit 0, Explicit 1, Omitted); (Explicit 40, Explicit 30, Omitted, Explicit 4294967295);
    (Explicit 18, Explicit 40, Omitted, Auto); (Explicit 41, Explicit 18, Omitted, Explicit 0);
    (Explicit 0, Explicit 41, Omitted, Auto)];
   [(Explicit 30, Explicit 0, Explicit 3, Omitted); (Explicit 20, Explicit 30, Omitted, Auto);
    (Explicit 0, Explicit 20, Omitted, Auto)]].
Proof. vm_compute. reflexivity. Qed.

(* the validator accepts version 3 for a picture-less sequence although autofill says 1 *)
Example C07_example_exception :
  seq_version ex_d [ex_u 0 Omitted 30; ex_u 16 Auto 13] = 1 /\
  val_version_ok ex_d 3 [ex_u 0 Omitted 30; ex_u 16 Auto 13] /\
  ~ val_version_ok ex_d 2 [ex_u 0 Omitted 30; ex_u 16 Auto 13].
Proof.
  split; [reflexivity|]. split.
  - apply (proj2 (C07_major_version_agrees ex_d _ 3 (or_introl (Z.le_refl 3)))). right. split; reflexivity.
  - assert (HC : etp_codable ex_d 2 [ex_u 0 Omitted 30; ex_u 16 Auto 13]).
    { right. intros u Hu Ht. cbn [In] in Hu. destruct Hu as [<-|[<-|[]]]; vm_compute in Ht; discriminate. }
    intros H. apply (proj1 (C07_major_version_agrees ex_d _ 2 HC)) in H.
    destruct H as [H|[H _]]; vm_compute in H; discriminate.
Qed.
