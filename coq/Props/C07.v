(* C07 -- automatic field filling (work in progress: first theorem). *)
From Coq Require Import ZArith List Bool.
From VC2 Require Import Base.PyZ Model.Autofill Proofs.AutofillProofs.
Import ListNotations.
Open Scope Z_scope.

Theorem C07_explicit_npo_preserved_partial : forall d u v, u_npo u = Explicit v ->
  u_npo (m_unit (po_unit d u)) = Explicit v /\ m_npo_todo (po_unit d u) = false.
Proof. exact po_unit_explicit_npo. Qed.
