(* Coq side of the C21 correspondence run: program combinators used by the generated
   case files, order-insensitive comparison of descriptions, observation of a run. *)
From Coq Require Import ZArith List Bool.
From VC2 Require Import Base.CorrLib Model.SerDes.
Import ListNotations.
Open Scope Z_scope.

Fixpoint pbind {A B} (p : prog A) (f : A -> prog B) : prog B :=
  match p with
  | Ret a => f a
  | Op o k => Op o (fun r => pbind (k r) f)
  end.
Fixpoint rep (n : nat) (body : prog unit) : prog unit :=
  match n with
  | O => Ret tt
  | S m => pbind body (fun _ => rep m body)
  end.
Definition asZ (v : val) : Z := match v with VI z => z | VB b => Z.b2z b | _ => 0 end.
Definition asB (v : val) : bool := match v with VB b => b | VI z => negb (z =? 0) | _ => false end.

Fixpoint val_eqb (a b : val) {struct a} : bool :=
  match a, b with
  | VI x, VI y => x =? y
  | VB x, VB y => Bool.eqb x y
  | VBits x, VBits y => list_eqb Bool.eqb x y
  | VBytes x, VBytes y => list_eqb Z.eqb x y
  | VHole, VHole => true
  | VL x, VL y =>
      (fix go (x y : list val) : bool :=
         match x, y with
         | [], [] => true
         | a :: x', b :: y' => val_eqb a b && go x' y'
         | _, _ => false
         end) x y
  | VC t f, VC t' f' =>
      (t =? t') && Nat.eqb (length f) (length f') &&
      (fix go (f : list (Z * val)) : bool :=
         match f with
         | [] => true
         | (k, v) :: r =>
             match alookup k f' with Some v' => val_eqb v v' | None => false end && go r
         end) f
  | _, _ => false
  end.

Definition err_code (e : err) : Z :=
  match e with
  | EReused => 1 | EExhausted => 2 | ENonList => 3 | EUnused => 4 | EUnclosedBlock => 5
  | EUnclosedCtx => 6 | EKey => 7 | EOutOfRange => 8 | EValue => 9 | EEof => 10 | EType => 11
  | EOther => 12
  end.

(* observation of one run: error code, or (aux, root context, verify_complete outcome: 0 = ok) *)
Inductive obs := ObsErr (code : Z) | ObsOk (aux : list Z) (ctx : val) (verify : Z).

Definition obs_eqb (a b : obs) : bool :=
  match a, b with
  | ObsErr x, ObsErr y => x =? y
  | ObsOk x c v, ObsOk y d w => zlist_eqb x y && val_eqb c d && (v =? w)
  | _, _ => false
  end.

Definition vcode (s : st) : Z := match verify_complete s with Ok _ => 0 | Err e => err_code e end.

Definition obs_ser (r : res (unit * st)) : obs :=
  match r with
  | Err e => ObsErr (err_code e)
  | Ok (_, s) => ObsOk (bytes_of_bits (flush_bits (bits (sio s)))) (root s) (vcode s)
  end.
Definition obs_des (r : res (unit * st)) : obs :=
  match r with
  | Err e => ObsErr (err_code e)
  | Ok (_, s) => ObsOk [pos (sio s)] (root s) (vcode s)
  end.

Definition bits_of_bytes (l : list Z) : list bool := flat_map (bits_of 8) l.

(* one case: program, description (type, fields), default_values, what the real Serialiser did,
   the bytes given to the real Deserialiser and what it did *)
Definition case := (prog unit * Z * fields * defaults * obs * list Z * obs)%type.

Definition check_case (c : case) : bool :=
  let '(p, ty, f, D, so, inp, dobs) := c in
  obs_eqb (obs_ser (run_ser D p ty f)) so && obs_eqb (obs_des (run_des p (bits_of_bytes inp))) dobs.

(* which half disagrees (diagnostics): 1 = serialiser, 2 = deserialiser, 3 = both *)
Definition diag_case (c : case) : Z :=
  let '(p, ty, f, D, so, inp, dobs) := c in
  (if obs_eqb (obs_ser (run_ser D p ty f)) so then 0 else 1) +
  (if obs_eqb (obs_des (run_des p (bits_of_bytes inp))) dobs then 0 else 2).
Definition model_ser (c : case) : obs := let '(p, ty, f, D, _, _, _) := c in obs_ser (run_ser D p ty f).
Definition model_des (c : case) : obs := let '(p, _, _, _, _, inp, _) := c in obs_des (run_des p (bits_of_bytes inp)).
