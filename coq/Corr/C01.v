(* Corr/C01.v -- correspondence helpers for C01 / C02 / C10: table-driven automata exported from
   the REAL symbol_re.Matcher by the harness, verdict codes, comparison functions. *)
From Coq Require Import ZArith List Bool.
From VC2 Require Import Base.PyZ Base.CorrLib Model.Stream.
Import ListNotations.
Open Scope Z_scope.

(* a dumped deterministic automaton: row i = (successor state per symbol index or -1, complete) *)
Definition table := list (list Z * bool).

Definition symbol_index (s : symbol) : nat :=
  match s with
  | SSeqHdr => 0 | SEos => 1 | SAux => 2 | SPad => 3
  | SLdPic => 4 | SHqPic => 5 | SLdFrag => 6 | SHqFrag => 7
  end%nat.

Definition tstep (t : table) (s : Z) (sym : symbol) : option Z :=
  match nth_error t (Z.to_nat s) with
  | Some (row, _) => match nth_error row (symbol_index sym) with
                     | Some n => if n <? 0 then None else Some n
                     | None => None
                     end
  | None => None
  end.
Definition tcomplete (t : table) (s : Z) : bool :=
  match nth_error t (Z.to_nat s) with Some (_, c) => c | None => false end.

Definition level_table (ts : list (Z * table)) (lvl : Z) : table :=
  match find (fun p => fst p =? lvl) ts with Some p => snd p | None => [] end.

Section WithTables.
  Variable gen : table.
  Variable lvls : list (Z * table).

  Definition level_known_t (l : Z) : bool := existsb (fun p => fst p =? l) lvls.

  Definition run_t (pinned : bool) (us : list dunit) : verdict :=
    run Z 0 (tstep gen) (tcomplete gen) Z (fun _ => 0) (fun l => tstep (level_table lvls l))
        (fun l => tcomplete (level_table lvls l)) level_known_t pinned us.

  Definition run_obs_t (pinned : bool) (us : list dunit) : verdict * Z * list Z :=
    run_obs Z 0 (tstep gen) (tcomplete gen) Z (fun _ => 0) (fun l => tstep (level_table lvls l))
        (fun l => tcomplete (level_table lvls l)) level_known_t pinned true
        (init_state Z 0 Z) us 0 [].

  Definition rules_ok_t (us : list dunit) : bool :=
    rules_ok Z 0 (tstep gen) (tcomplete gen) Z (fun _ => 0) (fun l => tstep (level_table lvls l))
        (fun l => tcomplete (level_table lvls l)) us.

  (* which of the ten rules hold: list of booleans in the order of rules_ok *)
  Definition rules_vector (us : list dunit) : list bool :=
    [ ends_ok us; offsets_ok us; headers_identical us; codes_allowed_in_profile us;
      version_ok us; picnums_ok us; whole_frames us; fragments_ok us;
      level_pattern_ok Z (fun _ => 0) (fun l => tstep (level_table lvls l))
                       (fun l => tcomplete (level_table lvls l)) us;
      generic_pattern_ok Z 0 (tstep gen) (tcomplete gen) us ].
End WithTables.

Definition verr_code (e : verr) : Z :=
  match e with
  | UnexpectedEndOfStream => 1 | BadParseInfoPrefix => 2
  | InconsistentNextParseOffset => 3 | MissingNextParseOffset => 4 | InvalidNextParseOffset => 5
  | NonZeroNextParseOffsetAtEndOfSequence => 6 | InconsistentPreviousParseOffset => 7
  | NonZeroPreviousParseOffsetAtStartOfSequence => 8
  | SequenceHeaderChangedMidSequence => 9 | GenericInvalidSequence => 10 | LevelInvalidSequence => 11
  | ParseCodeNotAllowedInProfile => 12 | ValueNotAllowedInLevel => 13
  | NonConsecutivePictureNumbers => 14 | OddNumberOfFieldsInSequence => 15
  | EarliestFieldHasOddPictureNumber => 16 | ZeroSlicesInCodedPicture => 17
  | FragmentedPictureRestarted => 18 | SequenceContainsIncompleteFragmentedPicture => 19
  | PictureInterleavedWithFragmentedPicture => 20 | PictureNumberChangedMidFragmentedPicture => 21
  | TooManySlicesInFragmentedPicture => 22 | FragmentSlicesNotContiguous => 23
  | PresetNotSupportedByVersion => 24 | ParseCodeNotSupportedByVersion => 25
  | ProfileNotSupportedByVersion => 26 | MajorVersionTooLow => 27 | MajorVersionTooHigh => 28
  | BadProfile => 29 | BadLevel => 30
  end.

Definition crash_code (c : crash) : Z :=
  match c with
  | KeyError_last_picture_number => 101 | KeyError_picture_initial_fragment_offset => 102
  | KeyError_fragment_slices_received => 103 | KeyError_slices_x => 104
  | KeyError_major_version => 106 | KeyError_picture_coding_mode => 107
  | UnboundLocalError_true_parse_offset => 108 | TypeError_none_offset => 109
  | AssertionError_level_matcher => 110 | ZeroDivisionError_slices_x => 111
  end.

Definition verdict_code (v : verdict) : Z :=
  match v with Accept => 0 | VReject e => verr_code e | VCrash c => crash_code c end.

(* data-unit literals as written by the harness: a flat tuple
   UL tag a b c d e f len npo ppo      (a constructor: elaborates ~8x faster than a 10-tuple)
     tag 0 SeqHdr  (id, major, profile, level, pcm, pvmin)
     tag 1 Pic     (hq, picnum, wi, wi_ho, depth_ho, sx*65536+sy)
     tag 2 FragFirst   -- same --
     tag 3 FragData (hq, picnum, count, x, y, 0)
     tag 4 Pad, 5 Aux, 6 Eos *)
Inductive ulit := UL (tag a b c d e f len npo ppo : Z).
Definition mk_unit (t : ulit) : dunit :=
  let '(UL tag a b c d e f len npo ppo) := t in
  let k :=
    if tag =? 0 then KSeqHdr (mkHdr a b c d e f)
    else if tag =? 1 then KPic (negb (a =? 0)) b (mkTp c d e (f / 65536) (f mod 65536))
    else if tag =? 2 then KFragFirst (negb (a =? 0)) b (mkTp c d e (f / 65536) (f mod 65536))
    else if tag =? 3 then KFragData (negb (a =? 0)) b c d e
    else if tag =? 4 then KPad else if tag =? 5 then KAux else KEos in
  mkUnit k len npo ppo.

(* the automaton hypotheses of the theorems, on the dumped tables *)
Definition automata_hyps_b (gen : table) (lvls : list (Z * table)) : bool :=
  gen_first_is_seqhdr_b 0 (tstep gen) &&
  forallb (fun l => lvl_accepts_seqhdr_b (fun _ => 0) (fun l => tstep (level_table lvls l)) l) (map fst lvls).

Definition bool_code (b : bool) : Z := if b then 1 else 0.

(* a case: (units, observed verdict code).  agree = the model's verdict has that code *)
Definition agree (gen : table) (lvls : list (Z * table)) (pinned : bool)
           (c : list ulit * Z) : bool :=
  verdict_code (run_t gen lvls pinned (map mk_unit (fst c))) =? snd c.

(* C10: (units, (verdict code, failing/last sequence index, pictures)) *)
Definition agree_obs (gen : table) (lvls : list (Z * table)) (pinned : bool)
           (c : list ulit * (Z * Z * list Z)) : bool :=
  let '(v, i, p) := run_obs_t gen lvls pinned (map mk_unit (fst c)) in
  let '(v', i', p') := snd c in
  (verdict_code v =? v') && (i =? i') && zlist_eqb p p'.

(* oracle cross-check: the Coq rule checkers and the harness' Python re-implementation agree on
   each of the ten rules (given units_valid), and accept <-> all rules *)
Definition rules_agree (gen : table) (lvls : list (Z * table))
           (c : list ulit * list Z) : bool :=
  zlist_eqb (map bool_code (rules_vector gen lvls (map mk_unit (fst c)))) (snd c).

(* vc2_data_tables.PROFILES: (profile, list of allowed parse codes) dumped live *)
Definition profiles_agree (dump : list (Z * list Z)) : bool :=
  forallb (fun p => forallb (fun s => Bool.eqb (profile_allows (fst p) s)
                                           (existsb (Z.eqb (symbol_code s)) (snd p))) all_symbols) dump.
