(* Correspondence definitions for C15 / C16 (tie C): concrete level-constraint columns as
   dumped from the live ValueSets, structural equality on header descriptions, and the
   per-case comparison evaluated with vm_compute by tools/harness/C15.py. *)
From Coq Require Import ZArith List Bool.
From VC2 Require Import Model.SeqHeader.
Import ListNotations.
Open Scope Z_scope.

(* a ValueSet: AnyValue, or individual values + inclusive ranges (`value in set`) *)
Inductive cvs := VAny | VSet (vals : list Z) (ranges : list (Z * Z)).
Definition cvs_mem (s : cvs) (v : Z) : bool :=
  match s with
  | VAny => true
  | VSet vs rs => existsb (Z.eqb v) vs || existsb (fun r => (fst r <=? v) && (v <=? snd r)) rs
  end.

Fixpoint key_pos (k : ckey) (l : list ckey) : nat :=
  match l with
  | [] => O
  | k' :: r => if ckey_beq k k' then O else S (key_pos k r)
  end.
Definition key_id (k : ckey) : nat := key_pos k all_keys.
Definition key_of_id (i : nat) : ckey := nth i all_keys K_level.

(* a concrete column: one cvs per key in all_keys order (absent key = empty set) *)
Definition ccolumn := list cvs.
Definition col_of (cc : ccolumn) : column :=
  fun k v => cvs_mem (nth (key_id k) cc (VSet [] [])) v.
Definition table_of (t : list ccolumn) : ctable := map col_of t.

Definition kv_of (p : Z * Z) : kv := (key_of_id (Z.to_nat (fst p)), snd p).

Definition gopt_eqb (a b : gopt) : bool :=
  match a, b with
  | GDefault, GDefault => true
  | GPreset i, GPreset j => i =? j
  | GExplicit x, GExplicit y => zlist_eqb x y
  | _, _ => false
  end.
Definition csopt_eqb (a b : csopt) : bool :=
  match a, b with
  | CSDefault, CSDefault => true
  | CSPreset i, CSPreset j => i =? j
  | CSCustom p m t, CSCustom p' m' t' => gopt_eqb p p' && gopt_eqb m m' && gopt_eqb t t'
  | _, _ => false
  end.
Definition src_eqb (a b : srcparams) : bool :=
  gopt_eqb (sp_frame_size a) (sp_frame_size b) && gopt_eqb (sp_cdf a) (sp_cdf b)
  && gopt_eqb (sp_scan a) (sp_scan b) && gopt_eqb (sp_frame_rate a) (sp_frame_rate b)
  && gopt_eqb (sp_par a) (sp_par b) && gopt_eqb (sp_clean a) (sp_clean b)
  && gopt_eqb (sp_signal a) (sp_signal b) && csopt_eqb (sp_color a) (sp_color b).
Definition header_eqb (a b : header) : bool :=
  (h_profile a =? h_profile b) && (h_level a =? h_level b) && (h_base a =? h_base b)
  && src_eqb (h_src a) (h_src b) && (h_pcm a =? h_pcm b).
Fixpoint list_eqb' {A} (e : A -> A -> bool) (a b : list A) : bool :=
  match a, b with
  | [], [] => true
  | x :: a', y :: b' => e x y && list_eqb' e a' b'
  | _, _ => false
  end.
Definition kv_eqb (a b : kv) : bool := ckey_beq (fst a) (fst b) && (snd a =? snd b).

(* the 20 VideoParameters entries -> vparams *)
Definition vp_of_flat (l : list Z) : vparams :=
  match l with
  | [fw; fh; cdf; ss; tff; frn; frd; pn; pd; cw; ch; lefto; topo; lo; le; co; ce; p; m; t] =>
      mkVP (fw, fh) cdf ss tff (frn, frd) (pn, pd) (cw, ch, topo, lefto) (lo, le, co, ce) p m t
  | _ => mkVP (0, 0) 0 0 0 (0, 0) (0, 0) (0, 0, 0, 0) (0, 0, 0, 0) 0 0 0
  end.

(* one observation per header the implementation yielded: the header description, the real
   decoder's video parameters (20 entries), its picture coding mode, and the (key, value)
   pairs it passed to assert_level_constraint (versions removed) *)
Definition hobs := (header * (list Z * Z * list (Z * Z)))%type.

Record case15 := mkCase {
  c_level : Z; c_profile : Z; c_pcm : Z;
  c_extra : list (Z * Z);              (* remaining trivial level constraints (key id, value) *)
  c_target : list Z;                   (* wanted VideoParameters, 20 entries *)
  c_cands : list Z;                    (* allowed base video formats, iteration order *)
  c_rank : list Z;                     (* rank_allowed_base_video_format_similarity result *)
  c_headers : list header;             (* everything iter_sequence_headers yielded, in order *)
  c_obs : list hobs                    (* a sample of them, decoded by the real validator *)
}.

Definition features_of (c : case15) : features :=
  mkFeatures (c_level c) (c_profile c) (c_pcm c) (map kv_of (c_extra c)) (vp_of_flat (c_target c)).

Definition obs_ok (T : tables) (o : hobs) : bool :=
  let '(h, (flat, pcm, coded)) := o in
  match decode_header T h with
  | Some (v, m) => zlist_eqb (vp_flat v) flat && (m =? pcm)
  | None => false
  end
  && list_eqb' kv_eqb (coded_keys h) (map kv_of coded).

Definition check15 (T : tables) (tbl : list ccolumn) (c : case15) : bool :=
  let cf := features_of c in
  zlist_eqb (vp_flat (cf_video cf)) (c_target c)
  && rank_dom T (c_cands c)
  && zlist_eqb (rank_base_video_format_similarity T (cf_video cf) (c_cands c)) (c_rank c)
  && list_eqb' header_eqb (iter_sequence_headers T (table_of tbl) cf (c_cands c)) (c_headers c)
  && forallb (fun o => existsb (header_eqb (fst o)) (c_headers c)) (c_obs c)
  && forallb (obs_ok T) (c_obs c).
