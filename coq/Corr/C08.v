(* Correspondence definitions for C08: run both slice readers of Model/Slices.v on a
   slice given as bytes and compare with the observations of the two real parsers. *)
From Coq Require Import ZArith List Bool.
From VC2 Require Import Base.PyZ Base.CorrLib Gen.StateRec Model.Slices.
Import ListNotations.
Open Scope Z_scope.

Definition bits_of_byte (b : Z) : list bool := map (fun i => Z.testbit b i) [7; 6; 5; 4; 3; 2; 1; 0].
Definition bits_of_bytes (l : list Z) : list bool := flat_map bits_of_byte l.
Definition b2zl (l : list bool) : list Z := map b2z l.

Definition nthz (l : list Z) (i : nat) : Z := nth i l 0.

(* [luma_width; luma_height; color_diff_width; color_diff_height; dwt_depth; dwt_depth_ho; slices_x; slices_y;
    slice_bytes_numerator; slice_bytes_denominator; parse_code]  [slice_prefix_bytes; slice_size_scaler]
   quant matrix rows per level: [LL] | [L] | [H] | [HL; LH; HH] *)
Definition orient_pos (o : orient) : nat :=
  match o with LL | L | H | HL => 0%nat | LH => 1%nat | HH => 2%nat end.
Definition qm_of (m : list (list Z)) : Z -> orient -> Z :=
  fun level o => nth (orient_pos o) (nth (Z.to_nat level) m []) 0.

Definition mk_case_params (g : list Z) (h : list Z) (m : list (list Z)) : sparams :=
  let ps := empty_pystate in
  let ps := set_st_luma_width ps (nthz g 0) in
  let ps := set_st_luma_height ps (nthz g 1) in
  let ps := set_st_color_diff_width ps (nthz g 2) in
  let ps := set_st_color_diff_height ps (nthz g 3) in
  let ps := set_st_dwt_depth ps (nthz g 4) in
  let ps := set_st_dwt_depth_ho ps (nthz g 5) in
  let ps := set_st_slices_x ps (nthz g 6) in
  let ps := set_st_slices_y ps (nthz g 7) in
  let ps := set_st_slice_bytes_numerator ps (nthz g 8) in
  let ps := set_st_slice_bytes_denominator ps (nthz g 9) in
  let ps := set_st_parse_code ps (nthz g 10) in
  mk_sparams ps (nthz h 0) (nthz h 1) (qm_of m).

Definition err_code (e : err) : Z := match e with Eof => 1 | OutOfFuel => 2 | BadYLen => 3 end.

Definition write_code (w : write) : list Z :=
  let '((c, l, o, y, x), v) := w in [pystr_code c; l; orient_code o; y; x; v].

(* validator observation: (status, qindex, lengths, writes, consumed bits) *)
Definition d_obs := (Z * Z * list Z * list (list Z) * Z)%type.
Definition d_observe (bs : list bool) (r : res d_slice_out) : d_obs :=
  match r with
  | Ok o => (0, d_qindex o, d_lengths o, map write_code (d_writes o),
             Z.of_nat (length bs) - Z.of_nat (length (d_rest o)))
  | Err e => (err_code e, 0, [], [], 0)
  end.
Definition zll_eqb := list_eqb zlist_eqb.
Definition d_obs_eqb (a b : d_obs) : bool :=
  let '(s1, q1, l1, w1, c1) := a in
  let '(s2, q2, l2, w2, c2) := b in
  (s1 =? s2) && (q1 =? q2) && zlist_eqb l1 l2 && zll_eqb w1 w2 && (c1 =? c2).

(* deserialiser observation: (status, prefix bytes, qindex, lengths, coefficient lists, padding bits, consumed bits) *)
Definition s_obs := (Z * list Z * Z * list Z * list (list Z) * list (list Z) * Z)%type.
Fixpoint bytes_of_bits (fuel : nat) (l : list bool) : list Z :=
  match fuel with
  | O => []
  | S f =>
      match l with
      | b7 :: b6 :: b5 :: b4 :: b3 :: b2 :: b1 :: b0 :: r =>
          (128 * b2z b7 + 64 * b2z b6 + 32 * b2z b5 + 16 * b2z b4 + 8 * b2z b3 + 4 * b2z b2 + 2 * b2z b1 + b2z b0)
            :: bytes_of_bits f r
      | _ => []
      end
  end.
Definition s_observe (bs : list bool) (r : res s_slice_out) : s_obs :=
  match r with
  | Ok o => (0, bytes_of_bits (length (s_prefix o)) (s_prefix o), s_qindex o, s_lengths o, s_coeffs o,
             map b2zl (s_padding o), Z.of_nat (length bs) - Z.of_nat (length (s_rest o)))
  | Err e => (err_code e, [], 0, [], [], [], 0)
  end.
Definition s_obs_eqb (a b : s_obs) : bool :=
  let '(s1, p1, q1, l1, c1, d1, n1) := a in
  let '(s2, p2, q2, l2, c2, d2, n2) := b in
  (s1 =? s2) && zlist_eqb p1 p2 && (q1 =? q2) && zlist_eqb l1 l2 && zll_eqb c1 c2 && zll_eqb d1 d2 && (n1 =? n2).

Definition slice_case := (sparams * Z * Z * list Z * d_obs * s_obs)%type.

(* also: whenever the decoder model succeeds, the dequantised serdes model output equals its writes
   (an executable instance of C08_slices_agree, evaluated on every case) *)
Definition chk_slice_case (c : slice_case) : bool :=
  let '(p, sx, sy, bytes, dob, sob) := c in
  let bs := bits_of_bytes bytes in
  let fuel := fuel_for bs in
  let dr := d_slice fuel p sx sy bs in
  let sr := s_slice fuel p sx sy bs in
  d_obs_eqb (d_observe bs dr) dob && s_obs_eqb (s_observe bs sr) sob &&
  match dr, sr with
  | Ok d, Ok s => zll_eqb (map write_code (d_writes d)) (map write_code (s_dequantised p sx sy s))
  | Ok _, Err _ => false
  | _, _ => true
  end.

Definition chk_dc_case (c : list (list Z) * list (list Z)) : bool :=
  zll_eqb (dc_prediction (fst c)) (snd c).
