(* Correspondence helpers for C07: short constructors for the case literals written by
   tools/harness/C07.py and the observation functions compared with the implementation. *)
From Coq Require Import ZArith List Bool.
From VC2 Require Import Base.PyZ Base.CorrLib Model.Autofill.
Import ListNotations.
Open Scope Z_scope.

(* short names for literals *)
Definition A := Auto.
Definition E := Explicit.
Definition O := Omitted.
Definition P := mk_preset.
Definition H := mk_seqhdr.
Definition ET := mk_etp.
Definition T := mk_tp.
Definition U := mk_dunit.
Definition D := mk_defaults.

(* afield -> [tag; value] *)
Definition enc_af (f : afield) : list Z :=
  match f with Auto => [0; 0] | Explicit v => [1; v] | Omitted => [2; 0] end.
Definition b2Z (b : bool) : Z := if b then 1 else 0.
Definition has_etp (t : tparams) : Z := match t_etp t with Some _ => 1 | None => 0 end.

(* state of the description after the three pre-serialisation passes *)
Definition obs_marked (m : marked) : list Z :=
  let u := m_unit m in
  enc_af (u_npo u) ++ enc_af (u_ppo u) ++ [b2Z (m_npo_todo m); b2Z (m_ppo_todo m)] ++
  enc_af (sh_major_version (u_sh u)) ++ enc_af (u_pic_number u) ++ enc_af (u_frag_number u) ++
  [has_etp (u_pic_tp u); has_etp (u_frag_tp u)].
Definition obs_prepare (d : defaults) (s : list (list dunit)) : list (list (list Z)) :=
  map (map obs_marked) (prepare d s).

Definition zll_eqb := list_eqb zlist_eqb.
Definition zlll_eqb := list_eqb zll_eqb.

Definition check_prepare (d : defaults) (c : list (list dunit) * list (list (list Z))) : bool :=
  zlll_eqb (obs_prepare d (fst c)) (snd c).

(* the description as serialised: [npo; ppo; major_version or -1; picture number or -1] per unit,
   read back by the real deserialiser *)
Definition af_val (f : afield) : Z := match f with Explicit v => v | _ => -1 end.
Definition obs_final_unit (d : defaults) (u : dunit) : list Z :=
  [af_val (u_npo u); af_val (u_ppo u);
   if eff_parse_code d u =? PC_SEQUENCE_HEADER then af_val (sh_major_version (u_sh u)) else -1;
   match pn_kind u with
   | PNPicture => af_val (u_pic_number u)
   | PNFragment => af_val (u_frag_number u)
   | PNOther => -1
   end].
Definition obs_final (d : defaults) (start : Z) (s : list (list dunit)) : list (list (list Z)) :=
  map (map (obs_final_unit d)) (autofill_stream d start s).
Definition check_final (d : defaults) (c : Z * list (list dunit) * list (list (list Z))) : bool :=
  let '(start, s, o) := c in zlll_eqb (obs_final d start s) o.
