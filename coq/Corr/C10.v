(* Corr/C10.v -- correspondence helpers for the content-carrying output (Model/StreamContent.v):
   data units with a payload id; `decode` instantiated by a table dumped from the REAL decoder's
   per-sequence runs: (sequence header id, payload ids of the picture's data units) -> digest id of the
   decoded picture (sample arrays + video parameters + picture coding mode). *)
From Coq Require Import ZArith List Bool.
From VC2 Require Import Base.PyZ Base.CorrLib Model.Stream Model.StreamContent Corr.C01.
Import ListNotations.
Open Scope Z_scope.

Inductive culit := CL (tag a b c d e f len npo ppo pid : Z).
Definition mk_cunit (t : culit) : cunit Z :=
  let '(CL tag a b c d e f len npo ppo pid) := t in mkCU (mk_unit (UL tag a b c d e f len npo ppo)) pid.

Definition content_table := list (Z * list Z * Z).

Section WithTables.
  Variable gen : table.
  Variable lvls : list (Z * table).
  Variable tbl : content_table.

  (* the key is a function of the sequence-local state only: header id + the payloads of the fragments
     since the last first-fragment / picture + the completing payload *)
  Definition content_key (st : seq_state Z Z Z) (p : Z) : Z * list Z :=
    (match s_last_hdr (vh (ss_stream st)) with Some h => h | None => -1 end,
     fragments_in_progress Z (ss_seen st) [] ++ [p]).

  Definition decode_t (st : seq_state Z Z Z) (p : Z) : Z :=
    let k := content_key st p in
    match find (fun e => (fst (fst e) =? fst k) && zlist_eqb (snd (fst e)) (snd k)) tbl with
    | Some e => snd e
    | None => -1
    end.

  Definition crun_t (us : list (cunit Z)) : verdict * Z * list (Z * Z) :=
    crun Z 0 (tstep gen) (tcomplete gen) Z (fun _ => 0) (fun l => tstep (level_table lvls l))
         (fun l => tcomplete (level_table lvls l)) (level_known_t lvls) false Z Z decode_t us.
End WithTables.

Definition pair_list_eqb (a b : list (Z * Z)) : bool :=
  list_eqb (fun x y => (fst x =? fst y) && (snd x =? snd y)) a b.

(* case: (units with payload ids, (verdict code, sequence index, [(picture number, digest id)])) *)
Definition agree_content (gen : table) (lvls : list (Z * table)) (tbl : content_table)
           (c : list culit * (Z * Z * list (Z * Z))) : bool :=
  let '(v, i, o) := crun_t gen lvls tbl (map mk_cunit (fst c)) in
  let '(v', i', o') := snd c in
  (verdict_code v =? v') && (i =? i') && pair_list_eqb o o'.
