(* Coq side of the C06 correspondence run: the parse_info + padding/auxiliary_data description of
   bitstream/vc2.py as a [prog] term of Model/SerDes.v, run through both model interpreters. *)
From Coq Require Import ZArith List Bool.
From VC2 Require Import Base.CorrLib Model.SerDes Corr.C21.
Import ListNotations.
Open Scope Z_scope.

(* targets: 10 "parse_info" (type 1 = ParseInfo): 0 "padding", 1 "_offset", 2 "parse_info_prefix",
   3 "parse_code", 4 "next_parse_offset", 5 "previous_parse_offset";
   11 "padding"/"auxiliary_data" (type 2): 6 "bytes".
   [clamp] = the repaired description (length max(0, next_parse_offset - 13)). *)
Definition unit_prog (clamp : bool) : prog unit :=
  Op (OSubEnter 10) (fun _ => Op (OSetType 1) (fun _ =>
  Op (OByteAlign 0) (fun _ => Op (OComputed 1 (VI 0)) (fun _ =>
  Op (OUintLit 2 4) (fun _ => Op (OUintLit 3 1) (fun _ =>
  Op (OUintLit 4 4) (fun npo => Op (OUintLit 5 4) (fun _ =>
  Op OSubLeave (fun _ =>
  Op (OSubEnter 11) (fun _ => Op (OSetType 2) (fun _ =>
  Op (OBytes 6 (let n := asZ npo - 13 in if clamp then Z.max 0 n else n)) (fun _ =>
  Op OSubLeave (fun _ => Ret tt))))))))))))).

Inductive uobs := UErr (code : Z) | UDes (pos : Z) (hdr : list Z) (payload : list Z) | USer (bytes : list Z) | UNone.

Definition uobs_eqb (a b : uobs) : bool :=
  match a, b with
  | UErr x, UErr y => x =? y
  | UDes p h l, UDes p' h' l' => (p =? p') && zlist_eqb h h' && zlist_eqb l l'
  | USer x, USer y => zlist_eqb x y
  | UNone, UNone => true
  | _, _ => false
  end.

Definition fields_of (v : val) : fields := match v with VC _ f => f | _ => [] end.
Definition int_at (t : Z) (f : fields) : Z := match alookup t f with Some (VI z) => z | _ => -1 end.

Definition model_unit (clamp : bool) (data : list Z) : uobs * uobs :=
  match run_des (unit_prog clamp) (bits_of_bytes data) with
  | Err e => (UErr (err_code e), UNone)
  | Ok (_, s) =>
      match verify_complete s with
      | Err e => (UErr (err_code e), UNone)
      | Ok _ =>
          let f := fields_of (root s) in
          let pi := match alookup 10 f with Some v => fields_of v | None => [] end in
          let pad := match alookup 11 f with Some v => fields_of v | None => [] end in
          let payload := match alookup 6 pad with Some (VBytes l) => l | _ => [-1] end in
          (UDes (pos (sio s)) [int_at 2 pi; int_at 3 pi; int_at 4 pi; int_at 5 pi] payload,
           match run_ser [] (unit_prog clamp) 0 f with
           | Err e => UErr (err_code e)
           | Ok (_, s') =>
               match verify_complete s' with
               | Err e => UErr (err_code e)
               | Ok _ => USer (bytes_of_bits (flush_bits (bits (sio s'))))
               end
           end)
      end
  end.

Definition check_unit (clamp : bool) (c : list Z * uobs * uobs) : bool :=
  let '(data, dobs, sobs) := c in
  let '(md, ms) := model_unit clamp data in
  uobs_eqb md dobs && uobs_eqb ms sobs.
