(* Coq side of the C06 correspondence run: the parse_info + padding/auxiliary_data description of
   bitstream/vc2.py as a [prog] term of Model/SerDes.v, run through both model interpreters. *)
From Coq Require Import ZArith List Bool.
From VC2 Require Import Base.CorrLib Model.SerDes Model.SerDesVC2 Corr.C21.
Import ListNotations.
Open Scope Z_scope.

Inductive uobs := UErr (code : Z) | UDes (pos : Z) (hdr : list Z) (payload : list Z) | USer (bytes : list Z) | UNone.

Definition uobs_eqb (a b : uobs) : bool :=
  match a, b with
  | UErr x, UErr y => x =? y
  | UDes p h l, UDes p' h' l' => (p =? p') && zlist_eqb h h' && zlist_eqb l l'
  | USer x, USer y => zlist_eqb x y
  | UNone, UNone => true
  | _, _ => false
  end.

Definition fields_of (v : val) : fields := match v with VC _ f => f | _ => [] end.
Definition int_at (t : Z) (f : fields) : Z := match alookup t f with Some (VI z) => z | _ => -1 end.

Definition model_unit (clamp : bool) (data : list Z) : uobs * uobs :=
  match run_des (unit_prog clamp) (bits_of_bytes data) with
  | Err e => (UErr (err_code e), UNone)
  | Ok (_, s) =>
      match verify_complete s with
      | Err e => (UErr (err_code e), UNone)
      | Ok _ =>
          let f := fields_of (root s) in
          let pi := match alookup 10 f with Some v => fields_of v | None => [] end in
          let pad := match alookup 11 f with Some v => fields_of v | None => [] end in
          let payload := match alookup 6 pad with Some (VBytes l) => l | _ => [-1] end in
          (UDes (pos (sio s)) [int_at 2 pi; int_at 3 pi; int_at 4 pi; int_at 5 pi] payload,
           match run_ser [] (unit_prog clamp) 0 f with
           | Err e => UErr (err_code e)
           | Ok (_, s') =>
               match verify_complete s' with
               | Err e => UErr (err_code e)
               | Ok _ => USer (bytes_of_bits (flush_bits (bits (sio s'))))
               end
           end)
      end
  end.

Definition check_unit (clamp : bool) (c : list Z * uobs * uobs) : bool :=
  let '(data, dobs, sobs) := c in
  let '(md, ms) := model_unit clamp data in
  uobs_eqb md dobs && uobs_eqb ms sobs.

(* ---- generic: any description program against the real function it models ---- *)
Definition root_tf (s : st) : Z * fields := match root s with VC ty f => (ty, f) | _ => (0, []) end.

(* deserialise the bytes; when that verifies, serialise the resulting description *)
Definition model_prog (p : prog unit) (data : list Z) : obs * obs :=
  match run_des p (bits_of_bytes data) with
  | Err e => (ObsErr (err_code e), ObsErr (-1))
  | Ok (u, s) =>
      (obs_des (Ok (u, s)),
       if vcode s =? 0 then let '(ty, f) := root_tf s in obs_ser (run_ser [] p ty f) else ObsErr (-1))
  end.

Definition check_prog (c : prog unit * list Z * obs * obs) : bool :=
  let '(p, data, dobs, sobs) := c in
  let '(md, ms) := model_prog p data in
  obs_eqb md dobs && obs_eqb ms sobs.

(* ---- the stream level (Model/SerDesStream.v) against the real parse_stream ---- *)
From VC2 Require Import Model.SerDesStream.

(* streams without picture / fragment units: those bodies are parameters of the model *)
Definition stream_body : Z -> Z -> prog unit := vc2_body (fun _ => Ret tt) (fun _ => Ret tt).

Definition model_stream (data : list Z) : obs * obs :=
  let fuel := S (length data) in
  match stream_des stream_body fuel fuel (bits_of_bytes data) with
  | Err e => (ObsErr (err_code e), ObsErr (-1))
  | Ok s =>
      (obs_des (Ok (tt, s)),
       if vcode s =? 0
       then let '(ty, f) := root_tf s in
            match stream_ser [] stream_body fuel fuel ty f with
            | Ok s' => obs_ser (Ok (tt, s'))
            | Err e => ObsErr (err_code e)
            end
       else ObsErr (-1))
  end.

Definition check_stream (c : list Z * obs * obs) : bool :=
  let '(data, dobs, sobs) := c in
  let '(md, ms) := model_stream data in
  obs_eqb md dobs && obs_eqb ms sobs.
