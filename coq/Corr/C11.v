(* Comparison functions for the C11 correspondence run (tools/harness/C11.py). *)
From Coq Require Import ZArith List Bool.
From VC2 Require Import Base.PyZ Base.CorrLib Gen.StateRec Gen.SliceSizes Model.Lifting Model.Wavelet.
Import ListNotations.
Open Scope Z_scope.

Definition arr_eqb : arr -> arr -> bool := list_eqb zlist_eqb.
Definition vh_eqb (a b : arr * arr * arr) : bool :=
  let '(a1, a2, a3) := a in let '(b1, b2, b3) := b in arr_eqb a1 b1 && arr_eqb a2 b2 && arr_eqb a3 b3.
Definition coeffs_eqb (a b : coeffs) : bool :=
  arr_eqb (c_dc a) (c_dc b) && list_eqb arr_eqb (c_ho a) (c_ho b) && list_eqb vh_eqb (c_vh a) (c_vh b).

(* a State with the fields the transform reads *)
Definition mkst (lw lh cw ch d dh : Z) : pystate :=
  set_st_dwt_depth_ho (set_st_dwt_depth (set_st_color_diff_height (set_st_color_diff_width
    (set_st_luma_height (set_st_luma_width empty_pystate lw) lh) cw) ch) d) dh.

Definition comp_of (c : Z) : pystr := if c =? 0 then Str_Y else if c =? 1 then Str_C1 else Str_C2.

Definition flt (tbl : list filter) (i : Z) : filter := nth (Z.to_nat i) tbl (mk_filter 0 []).

(* 1-D case: (stage, A, observed synthesis lift result, observed analysis lift result) *)
Definition chk_lift (c : stage * list Z * list Z * list Z) : bool :=
  let '(s, A, syn, ana) := c in
  zlist_eqb (synthesis_stage A s) syn && zlist_eqb (analysis_stage A s) ana.

(* 1-D filter case: (filter index, A, oned_synthesis(A), oned_analysis(A)) *)
Definition chk_oned (tbl : list filter) (c : Z * list Z * list Z * list Z) : bool :=
  let '(i, A, syn, ana) := c in
  zlist_eqb (oned_synthesis (f_stages (flt tbl i)) A) syn && zlist_eqb (oned_analysis (f_stages (flt tbl i)) A) ana.

(* shapes of the coefficient data against the generated slice geometry *)
Definition shape_ok (a : arr) (h w : Z) : bool :=
  (Z.of_nat (length a) =? h) && forallb (fun r => Z.of_nat (length r) =? w) a.
Fixpoint shapes_from {A} (ok : A -> Z -> bool) (l : list A) (level : Z) : bool :=
  match l with [] => true | a :: r => ok a level && shapes_from ok r (level + 1) end.
Definition coeffs_shapes_ok (st : pystate) (k : pystr) (cf : coeffs) : bool :=
  let sh a level := shape_ok a (subband_height st level k) (subband_width st level k) in
  sh (c_dc cf) 0
  && shapes_from sh (c_ho cf) 1
  && shapes_from (fun '(a1, a2, a3) level => sh a1 level && sh a2 level && sh a3 level) (c_vh cf) (st_dwt_depth_ho st + 1)
  && (Z.of_nat (length (c_ho cf)) =? st_dwt_depth_ho st) && (Z.of_nat (length (c_vh cf)) =? st_dwt_depth st).

(* forward case: state, component, picture; observed padded picture, coefficients,
   idwt of them (None = identical to the padded picture), and the picture after padding
   removal (None = identical to the input picture).  Also: the implementation's sub-band
   shapes are the ones the generated slice geometry gives. *)
Definition chk_fwd (tbl : list filter)
  (c : (Z * Z) * (Z * Z * Z * Z * Z * Z) * Z * arr * arr * coeffs * option arr * option arr) : bool :=
  let '((wi, wiho), (lw, lh, cw, ch, d, dh), comp, pic, padded, cf, syn_o, out_o) := c in
  let st := mkst lw lh cw ch d dh in
  let fv := flt tbl wi in let fh := flt tbl wiho in
  let k := comp_of comp in
  let syn := match syn_o with Some a => a | None => padded end in
  let out := match out_o with Some a => a | None => pic end in
  arr_eqb (dwt_pad_addition st k pic) padded
  && coeffs_eqb (dwt fv fh d dh padded) cf
  && arr_eqb (idwt fv fh d dh cf) syn
  && arr_eqb (idwt_pad_removal st k syn) out
  && arr_eqb (round_trip fv fh st k pic) out
  && coeffs_shapes_ok st k cf.

(* inverse case on independent coefficients: observed idwt output and the dwt of that *)
Definition chk_inv (tbl : list filter) (c : (Z * Z) * (Z * Z) * coeffs * arr * coeffs) : bool :=
  let '((wi, wiho), (d, dh), cf, syn, cf2) := c in
  let fv := flt tbl wi in let fh := flt tbl wiho in
  arr_eqb (idwt fv fh d dh cf) syn && coeffs_eqb (dwt fv fh d dh syn) cf2.
